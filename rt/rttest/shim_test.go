package rttest

import (
	"fmt"
	"sort"
	"testing"

	"verif/rt/vatomic"
	"verif/rt/vsched"
	"verif/rt/vsync"
)

// exploreBody explores body in the given mode and returns the set of
// outcomes (result() is evaluated after every complete or deadlocked run).
func exploreBody(t *testing.T, mode vsched.Mode, pb int, body func(), result func() string) (map[string]bool, *vsched.Stats) {
	outs := map[string]bool{}
	ex := vsched.NewExplorer(vsched.Options{Mode: mode, PreemptionBound: pb, ExploreAll: true, DeviationBound: -1})
	st := ex.Explore(body, func(e *vsched.Execution) bool {
		if e.End == vsched.EndSleepBlocked {
			return true
		}
		if len(e.Panics) > 0 {
			t.Fatalf("panic: %v", e.Panics[0])
		}
		if e.End == vsched.EndDeadlock {
			outs["deadlock"] = true
			return true
		}
		outs[result()] = true
		return true
	})
	if !st.Exhaustive {
		t.Fatalf("not exhaustive: %+v", *st)
	}
	return outs, st
}

func both(t *testing.T, body func(), result func() string) map[string]bool {
	full, fs := exploreBody(t, vsched.ModePB, 1000, body, result)
	dp, ds := exploreBody(t, vsched.ModeDPOR, 0, body, result)
	if fmt.Sprint(keys(full)) != fmt.Sprint(keys(dp)) {
		t.Fatalf("full(%d execs)=%v\ndpor(%d execs)=%v", fs.Executions, keys(full), ds.Executions, keys(dp))
	}
	t.Logf("full=%d dpor=%d executions, outcomes=%v", fs.Executions, ds.Executions, keys(dp))
	return dp
}

// A correct condition-variable queue: every schedule completes, the consumer
// sees both items.
func TestCondQueue(t *testing.T) {
	var got []int
	body := func() {
		var mu vsync.Mutex
		c := vsync.NewCond(&mu)
		var q []int
		got = nil
		var wg vsync.WaitGroup
		wg.Add(3)
		for i := 1; i <= 2; i++ {
			i := i
			vsched.Go(func() {
				defer wg.Done()
				mu.Lock()
				q = append(q, i)
				mu.Unlock()
				c.Signal()
			})
		}
		vsched.Go(func() {
			defer wg.Done()
			for n := 0; n < 2; n++ {
				mu.Lock()
				for len(q) == 0 {
					c.Wait()
				}
				got = append(got, q[0])
				q = q[1:]
				mu.Unlock()
			}
		})
		wg.Wait()
	}
	outs := both(t, body, func() string { return fmt.Sprint(got) })
	if outs["deadlock"] || !outs["[1 2]"] || !outs["[2 1]"] || len(outs) != 2 {
		t.Fatalf("outcomes %v", keys(outs))
	}
}

// The classic lost wake-up (flag tested outside the lock): some schedule
// deadlocks, and the explorer must find it.
func TestCondLostWakeup(t *testing.T) {
	body := func() {
		var mu vsync.Mutex
		c := vsync.Cond{L: &mu}
		var ready vatomic.Bool
		var wg vsync.WaitGroup
		wg.Add(2)
		vsched.Go(func() {
			defer wg.Done()
			if !ready.Load() { // not under mu: the signal can fall in between
				mu.Lock()
				c.Wait()
				mu.Unlock()
			}
		})
		vsched.Go(func() {
			defer wg.Done()
			ready.Store(true)
			c.Broadcast()
		})
		wg.Wait()
	}
	outs := both(t, body, func() string { return "done" })
	if !outs["deadlock"] || !outs["done"] {
		t.Fatalf("outcomes %v", keys(outs))
	}
}

// Signal wakes at most one waiter: two waiters and one Signal never both
// return, in whatever order the three run.
func TestCondSignalOne(t *testing.T) {
	body := func() {
		var mu vsync.Mutex
		c := vsync.NewCond(&mu)
		waiting := 0
		var wg vsync.WaitGroup
		wg.Add(2)
		for i := 0; i < 2; i++ {
			vsched.Go(func() {
				defer wg.Done()
				mu.Lock()
				waiting++
				c.Wait()
				mu.Unlock()
			})
		}
		c.Signal()
		wg.Wait()
	}
	outs := both(t, body, func() string { return "done" })
	if !outs["deadlock"] || outs["done"] {
		t.Fatalf("one Signal released two waiters: %v", keys(outs))
	}
}

func TestMapAndPointerShim(t *testing.T) {
	type rec struct{ n int }
	var res string
	body := func() {
		var m vsync.Map
		var p vatomic.Pointer[rec]
		var rw vsync.RWMutex
		var wg vsync.WaitGroup
		tried := [2]bool{}
		wg.Add(2)
		for i := 0; i < 2; i++ {
			i := i
			vsched.Go(func() {
				defer wg.Done()
				m.LoadOrStore("k", i)
				m.Store(i, i)
				p.CompareAndSwap(nil, &rec{i})
				if rw.TryLock() {
					tried[i] = true
					rw.Unlock()
				}
			})
		}
		wg.Wait()
		v, _ := m.Load("k")
		var ks []string
		m.Range(func(k, v interface{}) bool { ks = append(ks, fmt.Sprint(k)); return true })
		sort.Strings(ks)
		old, _ := m.LoadAndDelete("k")
		_, still := m.Load("k")
		res = fmt.Sprintf("k=%v p=%d keys=%v old=%v still=%v try=%v", v, p.Load().n, ks, old, still, tried)
	}
	outs := both(t, body, func() string { return res })
	// k and p are each decided by who came first: 4 combinations; TryLock can
	// fail only while the other thread holds the lock.
	for o := range outs {
		if o == "deadlock" {
			t.Fatalf("deadlock")
		}
	}
	if len(outs) < 4 {
		t.Fatalf("too few outcomes: %v", keys(outs))
	}
}

// A TryLock between another thread's Lock and Unlock fails; before and after
// it succeeds. The reduced exploration must reach both results.
func TestTryLockBothResults(t *testing.T) {
	var res string
	body := func() {
		var mu vsync.Mutex
		var rw vsync.RWMutex
		var wg vsync.WaitGroup
		var a, b, c bool
		wg.Add(2)
		vsched.Go(func() {
			defer wg.Done()
			mu.Lock()
			mu.Unlock()
			rw.RLock()
			rw.RUnlock()
		})
		vsched.Go(func() {
			defer wg.Done()
			if a = mu.TryLock(); a {
				mu.Unlock()
			}
			if b = rw.TryLock(); b {
				rw.Unlock()
			}
			if c = rw.TryRLock(); c {
				rw.RUnlock()
			}
		})
		wg.Wait()
		res = fmt.Sprint(a, b, c)
	}
	outs := both(t, body, func() string { return res })
	for _, want := range []string{"true true true", "false true true", "true false true"} {
		if !outs[want] {
			t.Fatalf("missing %q in %v", want, keys(outs))
		}
	}
}
