package rttest

import (
	"runtime"
	"testing"

	"verif/rt/vrt"
	"verif/rt/vsched"
	"verif/rt/vsync"
)

// races runs body under the explorer (all traces) and returns whether any
// execution reported a happens-before race.
func races(body func()) bool {
	found := false
	ex := vsched.NewExplorer(vsched.Options{Mode: vsched.ModeDPOR, ExploreAll: true, DeviationBound: -1})
	ex.Explore(body, func(e *vsched.Execution) bool {
		if len(e.Panics) > 0 {
			panic(e.Panics[0])
		}
		if len(e.Races) > 0 {
			found = true
		}
		return true
	})
	return found
}

// A buffer handed from one thread to another through the pool is not a race;
// a buffer put back while its owner still uses it is one, and sub-slices of
// one array are recognised as the same array.
func TestBufferContentRaces(t *testing.T) {
	vsync.PoolRecycle = true
	defer func() { vsync.PoolRecycle = false }()
	handOver := func(useAfterPut bool) func() {
		return func() {
			var pool vsync.Pool
			pool.New = func() interface{} { b := make([]byte, 64); return &b }
			var wg vsync.WaitGroup
			wg.Add(2)
			var got vsync.Mutex // orders nothing about the buffer: it only makes B run its Get after A's Put in some traces
			vsched.Go(func() {
				defer wg.Done()
				b := pool.Get().(*[]byte)
				vrt.ArrW((*b)[:8], "buffer bytes", "A.fill")
				pool.Put(b)
				if useAfterPut {
					vrt.ArrR((*b)[4:12], "buffer bytes", "A.late-read") // a sub-slice at another offset
				}
				got.Lock()
				got.Unlock()
			})
			vsched.Go(func() {
				defer wg.Done()
				b := pool.Get().(*[]byte)
				vrt.ArrW((*b)[2:6], "buffer bytes", "B.fill")
				pool.Put(b)
			})
			wg.Wait()
		}
	}
	if races(handOver(false)) {
		t.Fatalf("hand-over through the pool reported as a race")
	}
	if !races(handOver(true)) {
		t.Fatalf("use after Put not reported")
	}
}

// Modelled finalizers run at CollectNow for unreachable objects only.
func TestModelledFinalizers(t *testing.T) {
	vrt.ModelFinalizers = true
	defer func() { vrt.ModelFinalizers = false }()
	type obj struct {
		id  int
		pad [64]byte // not a "tiny" allocation: those share a block and need not be finalized individually
	}
	var ran []int
	ex := vsched.NewExplorer(vsched.Options{Mode: vsched.ModeDPOR, ExploreAll: true, DeviationBound: -1})
	ex.Explore(func() {
		ran = nil
		vrt.ResetExecution()
		keep := &obj{id: 1}
		vrt.SetFinalizer(keep, func(o *obj) { ran = append(ran, o.id) })
		func() {
			drop := &obj{id: 2}
			vrt.SetFinalizer(drop, func(o *obj) { ran = append(ran, o.id) })
			cleared := &obj{id: 3}
			vrt.SetFinalizer(cleared, func(o *obj) { ran = append(ran, o.id) })
			vrt.SetFinalizer(cleared, nil)
		}()
		n := vrt.CollectNow()
		if n != 1 || len(ran) != 1 || ran[0] != 2 {
			panic("CollectNow ran the wrong finalizers")
		}
		runtime.KeepAlive(keep)
	}, func(e *vsched.Execution) bool {
		if len(e.Panics) > 0 {
			t.Fatalf("%v (ran=%v)", e.Panics[0], ran)
		}
		return true
	})
}
