package rttest

import (
	"fmt"
	"math/rand"
	"sort"
	"strings"
	"testing"

	"verif/rt/vatomic"
	"verif/rt/vsched"
	"verif/rt/vsync"
)

type world struct {
	mu  [2]vsync.Mutex
	rw  vsync.RWMutex
	wg  vsync.WaitGroup
	a   [2]int32
	x   [2]int // x[0] protected by rw
	y   [2]int // y[i] protected by mu[i]
	ch  chan int
	out []string
}

type instr struct {
	op  int
	arg int
}

const (
	iLockInc   = iota // lock mu[arg]; x[arg] = x[arg]*2+tid ; unlock
	iAtomAdd          // blind add a[arg]
	iAtomRMW          // v := add a[arg]; record
	iAtomLoad         // record load
	iRLockRead        // rlock; record x[0]; runlock
	iWLockInc         // rw lock; x[0]=x[0]*3+tid; unlock
	iSend             // ch <- tid (buffered 4)
	iRecv             // select recv default
	iTwoLocks         // lock mu[arg]; lock mu[1-arg]; unlock both (deadlock-prone)
	nInstr
)

func runProg(w *world, progs [][]instr) {
	w.wg.Add(len(progs))
	for tid, p := range progs {
		tid, p := tid, p
		vsched.Go(func() {
			defer w.wg.Done()
			for _, in := range p {
				switch in.op {
				case iLockInc:
					w.mu[in.arg].Lock()
					w.y[in.arg] = w.y[in.arg]*2 + tid + 1
					w.mu[in.arg].Unlock()
				case iAtomAdd:
					vatomic.BlindAddInt32(&w.a[in.arg], int32(tid+1))
				case iAtomRMW:
					v := vatomic.AddInt32(&w.a[in.arg], 10)
					w.out = append(w.out, fmt.Sprintf("t%d:rmw=%d", tid, v))
				case iAtomLoad:
					v := vatomic.LoadInt32(&w.a[in.arg])
					w.out = append(w.out, fmt.Sprintf("t%d:ld=%d", tid, v))
				case iRLockRead:
					w.rw.RLock()
					w.out = append(w.out, fmt.Sprintf("t%d:rd=%d", tid, w.x[0]))
					w.rw.RUnlock()
				case iWLockInc:
					w.rw.Lock()
					w.x[0] = w.x[0]*3 + tid + 1
					w.rw.Unlock()
				case iSend:
					vsched.Send(w.ch, tid)
				case iRecv:
					switch sel := vsched.Select(true, vsched.RecvCase(w.ch)); sel.I {
					case 0:
						v := sel.V.(int)
						w.out = append(w.out, fmt.Sprintf("t%d:rcv=%d", tid, v))
					default:
						w.out = append(w.out, fmt.Sprintf("t%d:rcv=none", tid))
					}
				case iTwoLocks:
					w.mu[in.arg].Lock()
					w.mu[1-in.arg].Lock()
					w.y[0] += 100
					w.y[1] += 100
					w.mu[1-in.arg].Unlock()
					w.mu[in.arg].Unlock()
				}
			}
		})
	}
	w.wg.Wait()
}

// outcome: final state + per-thread observations (sorted per thread so that
// the physical append order, which differs between equivalent traces, does
// not matter).
func outcome(w *world, e *vsched.Execution) string {
	per := map[string][]string{}
	for _, o := range w.out {
		k := o[:strings.Index(o, ":")]
		per[k] = append(per[k], o)
	}
	var keys []string
	for k := range per {
		keys = append(keys, k)
	}
	sort.Strings(keys)
	var sb strings.Builder
	fmt.Fprintf(&sb, "%s x=%v y=%v a=%v |", e.End, w.x, w.y, w.a)
	for _, k := range keys {
		sb.WriteString(strings.Join(per[k], ",") + ";")
	}
	if e.End == vsched.EndDeadlock {
		return "deadlock" // which threads hold what differs only by trace
	}
	return sb.String()
}

func explore(mode vsched.Mode, pb int, progs [][]instr) (map[string]bool, *vsched.Stats) {
	return exploreCap(mode, pb, progs, 0)
}

func exploreCap(mode vsched.Mode, pb int, progs [][]instr, maxExec int64) (map[string]bool, *vsched.Stats) {
	outs := map[string]bool{}
	var w *world
	ex := vsched.NewExplorer(vsched.Options{Mode: mode, PreemptionBound: pb, ExploreAll: true, DeviationBound: -1, MaxExecutions: maxExec})
	st := ex.Explore(func() {
		w = &world{ch: make(chan int, 4)}
		runProg(w, progs)
	}, func(e *vsched.Execution) bool {
		if e.End == vsched.EndSleepBlocked {
			return true
		}
		if len(e.Panics) > 0 {
			panic(e.Panics[0])
		}
		outs[outcome(w, e)] = true
		return true
	})
	return outs, st
}

func TestTwoLockers(t *testing.T) {
	progs := [][]instr{{{iLockInc, 0}}, {{iLockInc, 0}}}
	outs, st := explore(vsched.ModeDPOR, 0, progs)
	if len(outs) != 2 {
		t.Fatalf("want 2 outcomes, got %v", outs)
	}
	t.Logf("dpor: %+v", *st)
	progs = [][]instr{{{iLockInc, 0}}, {{iLockInc, 1}}}
	outs, st = explore(vsched.ModeDPOR, 0, progs)
	if len(outs) != 1 || st.Complete != 1 {
		t.Fatalf("independent lockers: want 1 outcome/1 complete, got %v %+v", outs, *st)
	}
}

func TestDeadlockFound(t *testing.T) {
	progs := [][]instr{{{iTwoLocks, 0}}, {{iTwoLocks, 1}}}
	outs, st := explore(vsched.ModeDPOR, 0, progs)
	if !outs["deadlock"] {
		t.Fatalf("deadlock not found: %v %+v", outs, *st)
	}
}

// TestDPORvsFull: on many small generated programs the set of outcomes DPOR
// reaches equals the set reached by unreduced, unbounded enumeration.
func TestDPORvsFull(t *testing.T) {
	rng := rand.New(rand.NewSource(1))
	nprogs := 600
	if testing.Short() {
		nprogs = 60
	}
	var totalD, totalF int64
	skipped := 0
	for n := 0; n < nprogs; n++ {
		nthreads := 2 + rng.Intn(2)
		progs := make([][]instr, nthreads)
		budget := 4
		if nthreads == 3 {
			budget = 4
		}
		for i := range progs {
			l := 1 + rng.Intn(2)
			if budget-l < 0 {
				l = 1
			}
			budget -= l
			for j := 0; j < l; j++ {
				progs[i] = append(progs[i], instr{rng.Intn(nInstr), rng.Intn(2)})
			}
		}
		full, fs := exploreCap(vsched.ModePB, 1000, progs, 40000)
		if fs.Capped {
			skipped++
			continue
		}
		dp, ds := explore(vsched.ModeDPOR, 0, progs)
		totalD += ds.Executions
		totalF += fs.Executions
		if !fs.Exhaustive || !ds.Exhaustive {
			t.Fatalf("prog %d not exhaustive: %+v %+v", n, *fs, *ds)
		}
		if fmt.Sprint(keys(full)) != fmt.Sprint(keys(dp)) {
			t.Fatalf("prog %d %v:\nfull(%d execs)=%v\ndpor(%d execs)=%v", n, progs, fs.Executions, keys(full), ds.Executions, keys(dp))
		}
	}
	t.Logf("skipped=%d programs=%d dpor executions=%d full executions=%d", skipped, nprogs, totalD, totalF)
}

func keys(m map[string]bool) []string {
	var k []string
	for s := range m {
		k = append(k, s)
	}
	sort.Strings(k)
	return k
}
