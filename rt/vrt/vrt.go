// Package vrt holds the small helpers the rewriter inserts into p9's code:
// deterministic map iteration order, plain-access recording for the
// happens-before race check, and a finalizer switch.
package vrt

import (
	"fmt"
	"reflect"
	"runtime"
	"sort"
	"unsafe"

	"verif/rt/vsched"
	"verif/rt/vsync"
)

// ptrIDs numbers pointer-typed map keys in order of first insertion within
// the current execution, which is deterministic because the schedule is.
var (
	ptrEpoch uint64
	ptrIDs   = map[unsafe.Pointer]uint64{}
	ptrNext  uint64
)

// ResetExecution is called by the harness at the start of every execution.
func ResetExecution() {
	ptrIDs = map[unsafe.Pointer]uint64{}
	ptrNext = 0
	fins = nil
}

func ptrID(p unsafe.Pointer) uint64 {
	if id, ok := ptrIDs[p]; ok {
		return id
	}
	ptrNext++
	ptrIDs[p] = ptrNext
	return ptrNext
}

// K registers a map key at insertion time (pointer keys get their birth
// sequence number here) and returns it unchanged.
func K[T comparable](k T) T {
	if vsched.Active() {
		v := reflect.ValueOf(k)
		if v.Kind() == reflect.Ptr {
			ptrID(v.UnsafePointer())
		}
	}
	return k
}

// Keys returns the keys of m in a deterministic order: ascending for
// ordered key kinds, birth sequence for pointers.
func Keys[M ~map[K]V, K comparable, V any](m M) []K {
	keys := make([]K, 0, len(m))
	for k := range m {
		keys = append(keys, k)
	}
	if !vsched.Active() && !vsched.Unwinding() {
		return keys // free mode: keep Go's order (random)
	}
	if len(keys) < 2 {
		return keys
	}
	rv := reflect.ValueOf(keys[0])
	switch rv.Kind() {
	case reflect.String:
		sort.Slice(keys, func(i, j int) bool { return reflect.ValueOf(keys[i]).String() < reflect.ValueOf(keys[j]).String() })
	case reflect.Int, reflect.Int8, reflect.Int16, reflect.Int32, reflect.Int64:
		sort.Slice(keys, func(i, j int) bool { return reflect.ValueOf(keys[i]).Int() < reflect.ValueOf(keys[j]).Int() })
	case reflect.Uint, reflect.Uint8, reflect.Uint16, reflect.Uint32, reflect.Uint64, reflect.Uintptr:
		sort.Slice(keys, func(i, j int) bool { return reflect.ValueOf(keys[i]).Uint() < reflect.ValueOf(keys[j]).Uint() })
	case reflect.Ptr:
		sort.Slice(keys, func(i, j int) bool {
			return ptrID(reflect.ValueOf(keys[i]).UnsafePointer()) < ptrID(reflect.ValueOf(keys[j]).UnsafePointer())
		})
	default:
		panic(fmt.Sprintf("vrt.Keys: unsupported key kind %v", rv.Kind()))
	}
	return keys
}

func mapObj[M ~map[K]V, K comparable, V any](m M) vsched.ObjID {
	p := *(*unsafe.Pointer)(unsafe.Pointer(&m))
	return vsched.AddrObj(p)
}

// R records a read of map m at site and returns m.
func R[M ~map[K]V, K comparable, V any](m M, site string) M {
	if vsched.Active() && m != nil {
		id := mapObj(m)
		vsched.NameObj(id, "map@"+site)
		vsched.RecordAccess(id, false, site)
		vsched.Step(vsched.Op1("map.read", id, vsched.KMemRead))
	}
	return m
}

// W records a write of map m at site and returns m.
func W[M ~map[K]V, K comparable, V any](m M, site string) M {
	if vsched.Active() && m != nil {
		id := mapObj(m)
		vsched.RecordAccess(id, true, site)
		vsched.Step(vsched.Op1("map.write", id, vsched.KMemWrite))
	}
	return m
}

// FR records a read of the plain field at p and returns p.
func FR[T any](p *T, name, site string) *T {
	if vsched.Active() {
		id := vsched.AddrObj(unsafe.Pointer(p))
		vsched.NameObj(id, name)
		vsched.RecordAccess(id, false, site)
		vsched.Step(vsched.Op1("field.read", id, vsched.KMemRead))
	}
	return p
}

// FW records a write of the plain field at p and returns p.
func FW[T any](p *T, name, site string) *T {
	if vsched.Active() {
		id := vsched.AddrObj(unsafe.Pointer(p))
		vsched.NameObj(id, name)
		vsched.RecordAccess(id, true, site)
		vsched.Step(vsched.Op1("field.write", id, vsched.KMemWrite))
	}
	return p
}

// QuietRecording switches the race check on fields recorded without a
// scheduling point (FRq/FWq) on or off.
var QuietRecording = true

// FRq records a read of the plain field at p for the happens-before race
// check only: no scheduling point, so the explored schedule space is the same
// as without it.
func FRq[T any](p *T, name, site string) *T {
	if QuietRecording && vsched.Active() {
		id := vsched.AddrObj(unsafe.Pointer(p))
		vsched.NameObj(id, name)
		vsched.RecordAccess(id, false, site)
	}
	return p
}

// FWq is FRq for a write.
func FWq[T any](p *T, name, site string) *T {
	if QuietRecording && vsched.Active() {
		id := vsched.AddrObj(unsafe.Pointer(p))
		vsched.NameObj(id, name)
		vsched.RecordAccess(id, true, site)
	}
	return p
}

// ArrR records (race check only, no scheduling point) a read of the CONTENTS
// of the byte array b points into; ArrW a write. Used for pooled buffers,
// whose contents no lock protects: the only thing that orders two users of a
// buffer is its hand-over (pool Put -> Get, channel, same goroutine).
func ArrR(b []byte, name, site string) { arr(b, false, name, site) }

// ArrW is ArrR for a write.
func ArrW(b []byte, name, site string) { arr(b, true, name, site) }

func arr(b []byte, write bool, name, site string) {
	// Only with recycling pools can a buffer reach a second user at all (in
	// fresh mode every Get returns a new object and Put drops it).
	if !vsync.PoolRecycle || !QuietRecording || !vsched.Active() {
		return
	}
	if id, ok := vsched.ArrObj(b); ok {
		vsched.NameObj(id, name)
		vsched.RecordAccess(id, write, site)
	}
}

// SliceR is FRq for a []byte field whose CONTENTS are recorded too (p9's
// buffer.data): reading the field counts as reading the array.
func SliceR(p *[]byte, name, site string) *[]byte {
	if vsync.PoolRecycle {
		arr(*p, false, "buffer bytes", site)
	}
	return p
}

// SliceW is SliceR for a write context (append to / reslice of the field):
// counts as writing the array.
func SliceW(p *[]byte, name, site string) *[]byte {
	if vsync.PoolRecycle {
		arr(*p, true, "buffer bytes", site)
	}
	return p
}

// Finalizers controls whether SetFinalizer really installs finalizers.
// GC-driven finalizers are nondeterminism the explorer cannot own, so the
// rewritten packages run with them off unless a free-mode pass enables them.
var Finalizers = false

// ModelFinalizers turns finalizers into events the harness decides: a
// finalizer set while it is on does not run by itself; CollectNow (called by
// the scenario at the points where it wants "a garbage collection happens
// now") finds out, with real collections, which of the registered objects
// have become unreachable, and runs their finalizers in the calling thread,
// in registration order. Which objects are unreachable at a given point of a
// given schedule is decided by Go's precise collector and is the same in
// every run of one binary.
var ModelFinalizers = false

type finRec struct {
	fin  interface{}
	obj  interface{} // set (resurrecting the object) when the collector found it unreachable
	dead bool
	ran  bool
	key  uintptr // address, for SetFinalizer(obj, nil); never dereferenced
}

var fins []*finRec

// ResetFinalizers forgets all modelled finalizers (start of an execution).
func ResetFinalizers() { fins = nil }

// SetFinalizer replaces runtime.SetFinalizer in the rewritten packages.
func SetFinalizer(obj, fin interface{}) {
	if Finalizers {
		runtime.SetFinalizer(obj, fin)
		return
	}
	if !ModelFinalizers {
		return
	}
	key := reflect.ValueOf(obj).Pointer()
	for _, r := range fins {
		if r.key == key && !r.dead {
			r.ran = true // superseded or cleared
		}
	}
	runtime.SetFinalizer(obj, nil)
	if fin == nil {
		return
	}
	rec := &finRec{fin: fin, key: key}
	fins = append(fins, rec)
	t := reflect.TypeOf(obj)
	mark := reflect.MakeFunc(reflect.FuncOf([]reflect.Type{t}, nil, false), func(args []reflect.Value) []reflect.Value {
		rec.dead = true
		rec.obj = args[0].Interface()
		return nil
	})
	runtime.SetFinalizer(obj, mark.Interface())
}

// CollectNow is the event "a garbage collection happens now, and the
// finalizers of everything it found unreachable run". It returns how many
// finalizers ran.
func CollectNow() int {
	if !ModelFinalizers {
		return 0
	}
	// Two full cycles, each followed by a sentinel whose finalizer is queued
	// behind everything found in that cycle (the runtime runs finalizers from
	// one goroutine, in queue order).
	for i := 0; i < 2; i++ {
		done := make(chan struct{})
		s := new([16]byte)
		runtime.SetFinalizer(s, func(*[16]byte) { close(done) })
		s = nil
		for collected := false; !collected; {
			runtime.GC()
			select {
			case <-done:
				collected = true
			default:
				runtime.Gosched()
			}
		}
	}
	n := 0
	for i := 0; i < len(fins); i++ { // finalizers may register new ones
		r := fins[i]
		if r.dead && !r.ran {
			r.ran = true
			n++
			reflect.ValueOf(r.fin).Call([]reflect.Value{reflect.ValueOf(r.obj)})
			r.obj = nil
		}
	}
	return n
}
