//go:build go1.23

package vatomic

import (
	"sync/atomic"
	"unsafe"

	"verif/rt/vsched"
)

func AndInt32(p *int32, m int32) int32 {
	step("atomic.AndInt32", unsafe.Pointer(p), vsched.KAtomRMW)
	return atomic.AndInt32(p, m)
}

func AndUint32(p *uint32, m uint32) uint32 {
	step("atomic.AndUint32", unsafe.Pointer(p), vsched.KAtomRMW)
	return atomic.AndUint32(p, m)
}

func AndInt64(p *int64, m int64) int64 {
	step("atomic.AndInt64", unsafe.Pointer(p), vsched.KAtomRMW)
	return atomic.AndInt64(p, m)
}

func AndUint64(p *uint64, m uint64) uint64 {
	step("atomic.AndUint64", unsafe.Pointer(p), vsched.KAtomRMW)
	return atomic.AndUint64(p, m)
}

func AndUintptr(p *uintptr, m uintptr) uintptr {
	step("atomic.AndUintptr", unsafe.Pointer(p), vsched.KAtomRMW)
	return atomic.AndUintptr(p, m)
}

func OrInt32(p *int32, m int32) int32 {
	step("atomic.OrInt32", unsafe.Pointer(p), vsched.KAtomRMW)
	return atomic.OrInt32(p, m)
}

func OrUint32(p *uint32, m uint32) uint32 {
	step("atomic.OrUint32", unsafe.Pointer(p), vsched.KAtomRMW)
	return atomic.OrUint32(p, m)
}

func OrInt64(p *int64, m int64) int64 {
	step("atomic.OrInt64", unsafe.Pointer(p), vsched.KAtomRMW)
	return atomic.OrInt64(p, m)
}

func OrUint64(p *uint64, m uint64) uint64 {
	step("atomic.OrUint64", unsafe.Pointer(p), vsched.KAtomRMW)
	return atomic.OrUint64(p, m)
}

func OrUintptr(p *uintptr, m uintptr) uintptr {
	step("atomic.OrUintptr", unsafe.Pointer(p), vsched.KAtomRMW)
	return atomic.OrUintptr(p, m)
}

func (u *Uint64) And(m uint64) uint64    { return AndUint64(&u.v, m) }
func (u *Uint64) Or(m uint64) uint64     { return OrUint64(&u.v, m) }
func (u *Uint32) And(m uint32) uint32    { return AndUint32(&u.v, m) }
func (u *Uint32) Or(m uint32) uint32     { return OrUint32(&u.v, m) }
func (u *Int64) And(m int64) int64       { return AndInt64(&u.v, m) }
func (u *Int64) Or(m int64) int64        { return OrInt64(&u.v, m) }
func (u *Int32) And(m int32) int32       { return AndInt32(&u.v, m) }
func (u *Int32) Or(m int32) int32        { return OrInt32(&u.v, m) }
func (u *Uintptr) And(m uintptr) uintptr { return AndUintptr(&u.v, m) }
func (u *Uintptr) Or(m uintptr) uintptr  { return OrUintptr(&u.v, m) }
