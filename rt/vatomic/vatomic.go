// Package vatomic mirrors the parts of sync/atomic that p9 uses. Go's atomics
// are sequentially consistent, so "one scheduling point, then the real
// operation" is an exact interleaving semantics.
package vatomic

import (
	"sync/atomic"
	"unsafe"

	"verif/rt/vsched"
)

func step(label string, p unsafe.Pointer, k vsched.Kind) {
	if vsched.Active() {
		vsched.Step(vsched.Op1(label, vsched.AtomicObj(p), k))
	}
}

func AddInt32(p *int32, d int32) int32 {
	step("atomic.AddInt32", unsafe.Pointer(p), vsched.KAtomRMW)
	return atomic.AddInt32(p, d)
}
func AddInt64(p *int64, d int64) int64 {
	step("atomic.AddInt64", unsafe.Pointer(p), vsched.KAtomRMW)
	return atomic.AddInt64(p, d)
}
func AddUint32(p *uint32, d uint32) uint32 {
	step("atomic.AddUint32", unsafe.Pointer(p), vsched.KAtomRMW)
	return atomic.AddUint32(p, d)
}
func AddUint64(p *uint64, d uint64) uint64 {
	step("atomic.AddUint64", unsafe.Pointer(p), vsched.KAtomRMW)
	return atomic.AddUint64(p, d)
}

// Blind adds: the rewriter uses these when the result of Add* is discarded.
func BlindAddInt32(p *int32, d int32) {
	step("atomic.AddInt32(blind)", unsafe.Pointer(p), vsched.KAtomAdd)
	atomic.AddInt32(p, d)
}
func BlindAddInt64(p *int64, d int64) {
	step("atomic.AddInt64(blind)", unsafe.Pointer(p), vsched.KAtomAdd)
	atomic.AddInt64(p, d)
}
func BlindAddUint32(p *uint32, d uint32) {
	step("atomic.AddUint32(blind)", unsafe.Pointer(p), vsched.KAtomAdd)
	atomic.AddUint32(p, d)
}
func BlindAddUint64(p *uint64, d uint64) {
	step("atomic.AddUint64(blind)", unsafe.Pointer(p), vsched.KAtomAdd)
	atomic.AddUint64(p, d)
}

func LoadInt32(p *int32) int32 {
	step("atomic.LoadInt32", unsafe.Pointer(p), vsched.KAtomLoad)
	return atomic.LoadInt32(p)
}
func LoadInt64(p *int64) int64 {
	step("atomic.LoadInt64", unsafe.Pointer(p), vsched.KAtomLoad)
	return atomic.LoadInt64(p)
}
func LoadUint32(p *uint32) uint32 {
	step("atomic.LoadUint32", unsafe.Pointer(p), vsched.KAtomLoad)
	return atomic.LoadUint32(p)
}
func LoadUint64(p *uint64) uint64 {
	step("atomic.LoadUint64", unsafe.Pointer(p), vsched.KAtomLoad)
	return atomic.LoadUint64(p)
}

func StoreInt32(p *int32, v int32) {
	step("atomic.StoreInt32", unsafe.Pointer(p), vsched.KAtomRMW)
	atomic.StoreInt32(p, v)
}
func StoreInt64(p *int64, v int64) {
	step("atomic.StoreInt64", unsafe.Pointer(p), vsched.KAtomRMW)
	atomic.StoreInt64(p, v)
}
func StoreUint32(p *uint32, v uint32) {
	step("atomic.StoreUint32", unsafe.Pointer(p), vsched.KAtomRMW)
	atomic.StoreUint32(p, v)
}
func StoreUint64(p *uint64, v uint64) {
	step("atomic.StoreUint64", unsafe.Pointer(p), vsched.KAtomRMW)
	atomic.StoreUint64(p, v)
}

func CompareAndSwapInt32(p *int32, o, n int32) bool {
	step("atomic.CasInt32", unsafe.Pointer(p), vsched.KAtomRMW)
	return atomic.CompareAndSwapInt32(p, o, n)
}
func CompareAndSwapInt64(p *int64, o, n int64) bool {
	step("atomic.CasInt64", unsafe.Pointer(p), vsched.KAtomRMW)
	return atomic.CompareAndSwapInt64(p, o, n)
}
func CompareAndSwapUint32(p *uint32, o, n uint32) bool {
	step("atomic.CasUint32", unsafe.Pointer(p), vsched.KAtomRMW)
	return atomic.CompareAndSwapUint32(p, o, n)
}
func CompareAndSwapUint64(p *uint64, o, n uint64) bool {
	step("atomic.CasUint64", unsafe.Pointer(p), vsched.KAtomRMW)
	return atomic.CompareAndSwapUint64(p, o, n)
}

func SwapInt32(p *int32, n int32) int32 {
	step("atomic.SwapInt32", unsafe.Pointer(p), vsched.KAtomRMW)
	return atomic.SwapInt32(p, n)
}
func SwapUint32(p *uint32, n uint32) uint32 {
	step("atomic.SwapUint32", unsafe.Pointer(p), vsched.KAtomRMW)
	return atomic.SwapUint32(p, n)
}

// Uint64 mirrors atomic.Uint64.
type Uint64 struct{ v uint64 }

func (u *Uint64) Load() uint64   { return LoadUint64(&u.v) }
func (u *Uint64) Store(x uint64) { StoreUint64(&u.v, x) }
func (u *Uint64) Add(d uint64) uint64 {
	return AddUint64(&u.v, d)
}
func (u *Uint64) CompareAndSwap(o, n uint64) bool { return CompareAndSwapUint64(&u.v, o, n) }

// Uint32 mirrors atomic.Uint32.
type Uint32 struct{ v uint32 }

func (u *Uint32) Load() uint32                    { return LoadUint32(&u.v) }
func (u *Uint32) Store(x uint32)                  { StoreUint32(&u.v, x) }
func (u *Uint32) Add(d uint32) uint32             { return AddUint32(&u.v, d) }
func (u *Uint32) CompareAndSwap(o, n uint32) bool { return CompareAndSwapUint32(&u.v, o, n) }

// Int64 mirrors atomic.Int64.
type Int64 struct{ v int64 }

func (u *Int64) Load() int64                    { return LoadInt64(&u.v) }
func (u *Int64) Store(x int64)                  { StoreInt64(&u.v, x) }
func (u *Int64) Add(d int64) int64              { return AddInt64(&u.v, d) }
func (u *Int64) CompareAndSwap(o, n int64) bool { return CompareAndSwapInt64(&u.v, o, n) }

// Int32 mirrors atomic.Int32.
type Int32 struct{ v int32 }

func (u *Int32) Load() int32                    { return LoadInt32(&u.v) }
func (u *Int32) Store(x int32)                  { StoreInt32(&u.v, x) }
func (u *Int32) Add(d int32) int32              { return AddInt32(&u.v, d) }
func (u *Int32) CompareAndSwap(o, n int32) bool { return CompareAndSwapInt32(&u.v, o, n) }

// Bool mirrors atomic.Bool.
type Bool struct{ v uint32 }

func (b *Bool) Load() bool { return LoadUint32(&b.v) != 0 }
func (b *Bool) Store(x bool) {
	if x {
		StoreUint32(&b.v, 1)
	} else {
		StoreUint32(&b.v, 0)
	}
}

// ---------------------------------------------------------------------------
// The rest of sync/atomic. p9 does not use these today; they are here so that
// a change to p9 that starts using them is explored like everything else
// instead of failing to build against the shim.

func SwapInt64(p *int64, n int64) int64 {
	step("atomic.SwapInt64", unsafe.Pointer(p), vsched.KAtomRMW)
	return atomic.SwapInt64(p, n)
}
func SwapUint64(p *uint64, n uint64) uint64 {
	step("atomic.SwapUint64", unsafe.Pointer(p), vsched.KAtomRMW)
	return atomic.SwapUint64(p, n)
}
func SwapUintptr(p *uintptr, n uintptr) uintptr {
	step("atomic.SwapUintptr", unsafe.Pointer(p), vsched.KAtomRMW)
	return atomic.SwapUintptr(p, n)
}
func SwapPointer(p *unsafe.Pointer, n unsafe.Pointer) unsafe.Pointer {
	step("atomic.SwapPointer", unsafe.Pointer(p), vsched.KAtomRMW)
	return atomic.SwapPointer(p, n)
}
func AddUintptr(p *uintptr, d uintptr) uintptr {
	step("atomic.AddUintptr", unsafe.Pointer(p), vsched.KAtomRMW)
	return atomic.AddUintptr(p, d)
}
func LoadUintptr(p *uintptr) uintptr {
	step("atomic.LoadUintptr", unsafe.Pointer(p), vsched.KAtomLoad)
	return atomic.LoadUintptr(p)
}
func LoadPointer(p *unsafe.Pointer) unsafe.Pointer {
	step("atomic.LoadPointer", unsafe.Pointer(p), vsched.KAtomLoad)
	return atomic.LoadPointer(p)
}
func StoreUintptr(p *uintptr, v uintptr) {
	step("atomic.StoreUintptr", unsafe.Pointer(p), vsched.KAtomRMW)
	atomic.StoreUintptr(p, v)
}
func StorePointer(p *unsafe.Pointer, v unsafe.Pointer) {
	step("atomic.StorePointer", unsafe.Pointer(p), vsched.KAtomRMW)
	atomic.StorePointer(p, v)
}
func CompareAndSwapUintptr(p *uintptr, o, n uintptr) bool {
	step("atomic.CasUintptr", unsafe.Pointer(p), vsched.KAtomRMW)
	return atomic.CompareAndSwapUintptr(p, o, n)
}
func CompareAndSwapPointer(p *unsafe.Pointer, o, n unsafe.Pointer) bool {
	step("atomic.CasPointer", unsafe.Pointer(p), vsched.KAtomRMW)
	return atomic.CompareAndSwapPointer(p, o, n)
}

func (u *Uint64) Swap(n uint64) uint64 { return SwapUint64(&u.v, n) }
func (u *Uint32) Swap(n uint32) uint32 { return SwapUint32(&u.v, n) }
func (u *Int64) Swap(n int64) int64    { return SwapInt64(&u.v, n) }
func (u *Int32) Swap(n int32) int32    { return SwapInt32(&u.v, n) }

func b2u(x bool) uint32 {
	if x {
		return 1
	}
	return 0
}

func (b *Bool) Swap(n bool) bool { return SwapUint32(&b.v, b2u(n)) != 0 }
func (b *Bool) CompareAndSwap(o, n bool) bool {
	return CompareAndSwapUint32(&b.v, b2u(o), b2u(n))
}

// Uintptr mirrors atomic.Uintptr.
type Uintptr struct{ v uintptr }

func (u *Uintptr) Load() uintptr                    { return LoadUintptr(&u.v) }
func (u *Uintptr) Store(x uintptr)                  { StoreUintptr(&u.v, x) }
func (u *Uintptr) Add(d uintptr) uintptr            { return AddUintptr(&u.v, d) }
func (u *Uintptr) Swap(n uintptr) uintptr           { return SwapUintptr(&u.v, n) }
func (u *Uintptr) CompareAndSwap(o, n uintptr) bool { return CompareAndSwapUintptr(&u.v, o, n) }

// Pointer mirrors atomic.Pointer.
type Pointer[T any] struct {
	_ [0]*T
	v unsafe.Pointer
}

func (p *Pointer[T]) Load() *T     { return (*T)(LoadPointer(&p.v)) }
func (p *Pointer[T]) Store(x *T)   { StorePointer(&p.v, unsafe.Pointer(x)) }
func (p *Pointer[T]) Swap(n *T) *T { return (*T)(SwapPointer(&p.v, unsafe.Pointer(n))) }
func (p *Pointer[T]) CompareAndSwap(o, n *T) bool {
	return CompareAndSwapPointer(&p.v, unsafe.Pointer(o), unsafe.Pointer(n))
}

// Value mirrors atomic.Value.
type Value struct{ v atomic.Value }

func (v *Value) Load() any {
	step("atomic.Value.Load", unsafe.Pointer(&v.v), vsched.KAtomLoad)
	return v.v.Load()
}
func (v *Value) Store(x any) {
	step("atomic.Value.Store", unsafe.Pointer(&v.v), vsched.KAtomRMW)
	v.v.Store(x)
}
func (v *Value) Swap(n any) any {
	step("atomic.Value.Swap", unsafe.Pointer(&v.v), vsched.KAtomRMW)
	return v.v.Swap(n)
}
func (v *Value) CompareAndSwap(o, n any) bool {
	step("atomic.Value.Cas", unsafe.Pointer(&v.v), vsched.KAtomRMW)
	return v.v.CompareAndSwap(o, n)
}

// BlindAdd: the rewriter uses these for x.Add(d) statements (result discarded).
func (u *Uint64) BlindAdd(d uint64)   { BlindAddUint64(&u.v, d) }
func (u *Uint32) BlindAdd(d uint32)   { BlindAddUint32(&u.v, d) }
func (u *Int64) BlindAdd(d int64)     { BlindAddInt64(&u.v, d) }
func (u *Int32) BlindAdd(d int32)     { BlindAddInt32(&u.v, d) }
func (u *Uintptr) BlindAdd(d uintptr) { AddUintptr(&u.v, d) }
