//go:build go1.23

package vsync

import "verif/rt/vsched"

// Clear mirrors sync.Map.Clear.
func (m *Map) Clear() {
	if vsched.Active() {
		vsched.Step(vsched.Op1("Map.Clear", m.obj(), vsched.KMemWrite))
		m.m = make(map[interface{}]interface{})
		m.keys = nil
		return
	}
	m.real.Clear()
}
