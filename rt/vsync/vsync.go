// Package vsync mirrors the parts of package sync that p9 uses. Under the
// controlled scheduler every operation is a visible step with model state;
// otherwise it delegates to the real primitive.
package vsync

import (
	"sync"

	"verif/rt/vsched"
)

// Locker is sync.Locker.
type Locker = sync.Locker

// Mutex mirrors sync.Mutex.
type Mutex struct {
	real   sync.Mutex
	hdr    vsched.ObjHdr
	locked bool
	owner  int
}

func (m *Mutex) obj() vsched.ObjID {
	id, fresh := m.hdr.Obj()
	if fresh {
		m.locked = false
	}
	return id
}

// Lock mirrors sync.Mutex.Lock.
func (m *Mutex) Lock() {
	if vsched.Active() {
		id := m.obj()
		label := "Mutex.Lock"
		if m.locked && m.owner == vsched.CurThread() {
			label = "Mutex.Lock(held-by-self)@" + vsched.CallerFunc()
		}
		vsched.StepWhen(vsched.Op1(label, id, vsched.KLock), func() bool { return !m.locked })
		m.locked = true
		m.owner = vsched.CurThread()
		return
	}
	if vsched.Unwinding() {
		return
	}
	m.real.Lock()
}

// TryLock mirrors sync.Mutex.TryLock.
func (m *Mutex) TryLock() bool {
	if vsched.Active() {
		vsched.Step(vsched.Op1("Mutex.TryLock", m.obj(), vsched.KTry))
		if m.locked {
			return false
		}
		m.locked = true
		m.owner = vsched.CurThread()
		return true
	}
	if vsched.Unwinding() {
		return true
	}
	return m.real.TryLock()
}

// Unlock mirrors sync.Mutex.Unlock.
func (m *Mutex) Unlock() {
	if vsched.Active() {
		id := m.obj()
		if !m.locked {
			panic("vsync: unlock of unlocked Mutex")
		}
		vsched.Step(vsched.Op1("Mutex.Unlock", id, vsched.KUnlock))
		m.locked = false
		return
	}
	if vsched.Unwinding() {
		m.locked = false
		return
	}
	m.real.Unlock()
}

// RWMutex mirrors sync.RWMutex including Go's writer preference: once a
// writer has announced itself (first half of Lock) new readers block.
type RWMutex struct {
	real      sync.RWMutex
	hdr       vsched.ObjHdr
	readers   int
	announced bool // a writer is pending or holding
	writing   bool
	wowner    int
}

func (m *RWMutex) obj() vsched.ObjID {
	id, fresh := m.hdr.Obj()
	if fresh {
		m.readers, m.announced, m.writing = 0, false, false
	}
	return id
}

// RLock mirrors sync.RWMutex.RLock.
func (m *RWMutex) RLock() {
	if vsched.Active() {
		id := m.obj()
		label := "RWMutex.RLock"
		if m.writing && m.wowner == vsched.CurThread() {
			label = "RWMutex.RLock(write-held-by-self)@" + vsched.CallerFunc()
		}
		vsched.StepWhen(vsched.Op1(label, id, vsched.KRLock), func() bool { return !m.announced })
		m.readers++
		return
	}
	if vsched.Unwinding() {
		return
	}
	m.real.RLock()
}

// RUnlock mirrors sync.RWMutex.RUnlock.
func (m *RWMutex) RUnlock() {
	if vsched.Active() {
		id := m.obj()
		if m.readers <= 0 {
			panic("vsync: RUnlock of unlocked RWMutex")
		}
		vsched.Step(vsched.Op1("RWMutex.RUnlock", id, vsched.KRUnlock))
		m.readers--
		return
	}
	if vsched.Unwinding() {
		if m.readers > 0 {
			m.readers--
		}
		return
	}
	m.real.RUnlock()
}

// Lock mirrors sync.RWMutex.Lock.
func (m *RWMutex) Lock() {
	if vsched.Active() {
		id := m.obj()
		label := "RWMutex.Lock(announce)"
		if m.writing && m.wowner == vsched.CurThread() {
			label = "RWMutex.Lock(held-by-self)@" + vsched.CallerFunc()
		}
		vsched.StepWhen(vsched.Op1(label, id, vsched.KWAnnounce), func() bool { return !m.announced })
		m.announced = true
		vsched.StepWhen(vsched.Op1("RWMutex.Lock(acquire)", id, vsched.KWAcquire), func() bool { return m.readers == 0 })
		m.writing = true
		m.wowner = vsched.CurThread()
		return
	}
	if vsched.Unwinding() {
		return
	}
	m.real.Lock()
}

// Unlock mirrors sync.RWMutex.Unlock.
func (m *RWMutex) Unlock() {
	if vsched.Active() {
		id := m.obj()
		if !m.writing {
			panic("vsync: Unlock of unlocked RWMutex")
		}
		vsched.Step(vsched.Op1("RWMutex.Unlock", id, vsched.KWUnlock))
		m.writing, m.announced = false, false
		return
	}
	if vsched.Unwinding() {
		m.writing, m.announced = false, false
		return
	}
	m.real.Unlock()
}

// TryLock mirrors sync.RWMutex.TryLock.
func (m *RWMutex) TryLock() bool {
	if vsched.Active() {
		vsched.Step(vsched.Op1("RWMutex.TryLock", m.obj(), vsched.KTry))
		if m.announced || m.writing || m.readers > 0 {
			return false
		}
		m.announced, m.writing = true, true
		m.wowner = vsched.CurThread()
		return true
	}
	if vsched.Unwinding() {
		return true
	}
	return m.real.TryLock()
}

// TryRLock mirrors sync.RWMutex.TryRLock.
func (m *RWMutex) TryRLock() bool {
	if vsched.Active() {
		vsched.Step(vsched.Op1("RWMutex.TryRLock", m.obj(), vsched.KTry))
		if m.announced {
			return false
		}
		m.readers++
		return true
	}
	if vsched.Unwinding() {
		return true
	}
	return m.real.TryRLock()
}

// RLocker mirrors sync.RWMutex.RLocker.
func (m *RWMutex) RLocker() Locker { return (*rlocker)(m) }

type rlocker RWMutex

func (r *rlocker) Lock()   { (*RWMutex)(r).RLock() }
func (r *rlocker) Unlock() { (*RWMutex)(r).RUnlock() }

// WaitGroup mirrors sync.WaitGroup.
type WaitGroup struct {
	real sync.WaitGroup
	hdr  vsched.ObjHdr
	n    int
}

func (w *WaitGroup) obj() vsched.ObjID {
	id, fresh := w.hdr.Obj()
	if fresh {
		w.n = 0
	}
	return id
}

// Add mirrors sync.WaitGroup.Add.
func (w *WaitGroup) Add(d int) {
	if vsched.Active() {
		k := vsched.KWgAdd
		if d < 0 {
			k = vsched.KWgDone
		}
		vsched.Step(vsched.Op1("WaitGroup.Add", w.obj(), k))
		w.n += d
		if w.n < 0 {
			panic("vsync: negative WaitGroup counter")
		}
		return
	}
	if vsched.Unwinding() {
		return
	}
	w.real.Add(d)
}

// Done mirrors sync.WaitGroup.Done.
func (w *WaitGroup) Done() { w.Add(-1) }

// Wait mirrors sync.WaitGroup.Wait.
func (w *WaitGroup) Wait() {
	if vsched.Active() {
		vsched.StepWhen(vsched.Op1("WaitGroup.Wait", w.obj(), vsched.KWgWait), func() bool { return w.n == 0 })
		return
	}
	if vsched.Unwinding() {
		return
	}
	w.real.Wait()
}

// Once mirrors sync.Once.
type Once struct {
	real sync.Once
	hdr  vsched.ObjHdr
	mu   Mutex
	done bool
}

// Do mirrors sync.Once.Do.
func (o *Once) Do(f func()) {
	if vsched.Active() || vsched.Unwinding() {
		if _, fresh := o.hdr.Obj(); fresh {
			o.done = false
		}
		o.mu.Lock()
		defer o.mu.Unlock()
		if !o.done {
			defer func() { o.done = true }()
			f()
		}
		return
	}
	o.real.Do(f)
}

// PoolRecycle switches Pool from fresh mode (Get = New, Put = drop; a legal
// sync.Pool behaviour with no shared state) to a deterministic recycling list
// whose Get behaviour is an explored data choice.
var PoolRecycle = false

// PoolPolicy, when not empty, fixes what a recycling Pool hands out instead of
// making it an explored choice: "lifo" (most recently put) or "fifo" (oldest).
var PoolPolicy = ""

// Pool mirrors sync.Pool.
type Pool struct {
	New func() interface{}

	real  sync.Pool
	hdr   vsched.ObjHdr
	items []interface{}
}

// Get mirrors sync.Pool.Get.
func (p *Pool) Get() interface{} {
	if vsched.Active() {
		if !PoolRecycle {
			if p.New != nil {
				return p.New()
			}
			return nil
		}
		id, fresh := p.hdr.Obj()
		if fresh {
			p.items = nil
		}
		vsched.Step(vsched.Op1("Pool.Get", id, vsched.KPoolGet))
		if n := len(p.items); n > 0 {
			// 0: most recently put, 1: oldest, 2: fresh object
			alts := 3
			if n == 1 {
				alts = 2
			}
			c := 0
			if PoolPolicy == "fifo" {
				c = 1
			} else if PoolPolicy == "" && vsched.Exploring() {
				c = vsched.Choose(alts, "Pool.Get", false)
			}
			if n == 1 && c == 1 {
				c = 2
			}
			switch c {
			case 0:
				x := p.items[n-1]
				p.items = p.items[:n-1]
				return x
			case 1:
				x := p.items[0]
				p.items = p.items[1:]
				return x
			}
		}
		if p.New != nil {
			return p.New()
		}
		return nil
	}
	if vsched.Unwinding() {
		if p.New != nil {
			return p.New()
		}
		return nil
	}
	if p.real.New == nil && p.New != nil {
		p.real.New = p.New
	}
	return p.real.Get()
}

// Put mirrors sync.Pool.Put.
func (p *Pool) Put(x interface{}) {
	if vsched.Active() {
		if !PoolRecycle {
			return
		}
		id, fresh := p.hdr.Obj()
		if fresh {
			p.items = nil
		}
		vsched.Step(vsched.Op1("Pool.Put", id, vsched.KPoolPut))
		p.items = append(p.items, x)
		return
	}
	if vsched.Unwinding() {
		return
	}
	p.real.Put(x)
}

// Map mirrors sync.Map. Under the scheduler the keys are kept in insertion
// order so that Range is deterministic.
type Map struct {
	real sync.Map
	hdr  vsched.ObjHdr
	m    map[interface{}]interface{}
	keys []interface{}
}

func (m *Map) obj() vsched.ObjID {
	id, fresh := m.hdr.Obj()
	if fresh {
		m.m = make(map[interface{}]interface{})
		m.keys = nil
	}
	return id
}

func (m *Map) set(k, v interface{}) {
	if _, ok := m.m[k]; !ok {
		m.keys = append(m.keys, k)
	}
	m.m[k] = v
}

func (m *Map) del(k interface{}) {
	if _, ok := m.m[k]; !ok {
		return
	}
	delete(m.m, k)
	for i := range m.keys {
		if m.keys[i] == k {
			m.keys = append(m.keys[:i:i], m.keys[i+1:]...)
			break
		}
	}
}

// Load mirrors sync.Map.Load.
func (m *Map) Load(k interface{}) (interface{}, bool) {
	if vsched.Active() {
		vsched.Step(vsched.Op1("Map.Load", m.obj(), vsched.KMemRead))
		v, ok := m.m[k]
		return v, ok
	}
	return m.real.Load(k)
}

// Store mirrors sync.Map.Store.
func (m *Map) Store(k, v interface{}) {
	if vsched.Active() {
		vsched.Step(vsched.Op1("Map.Store", m.obj(), vsched.KMemWrite))
		m.set(k, v)
		return
	}
	m.real.Store(k, v)
}

// LoadOrStore mirrors sync.Map.LoadOrStore.
func (m *Map) LoadOrStore(k, v interface{}) (interface{}, bool) {
	if vsched.Active() {
		vsched.Step(vsched.Op1("Map.LoadOrStore", m.obj(), vsched.KMemWrite))
		if old, ok := m.m[k]; ok {
			return old, true
		}
		m.set(k, v)
		return v, false
	}
	return m.real.LoadOrStore(k, v)
}

// LoadAndDelete mirrors sync.Map.LoadAndDelete.
func (m *Map) LoadAndDelete(k interface{}) (interface{}, bool) {
	if vsched.Active() {
		vsched.Step(vsched.Op1("Map.LoadAndDelete", m.obj(), vsched.KMemWrite))
		v, ok := m.m[k]
		m.del(k)
		return v, ok
	}
	return m.real.LoadAndDelete(k)
}

// Delete mirrors sync.Map.Delete.
func (m *Map) Delete(k interface{}) {
	if vsched.Active() {
		vsched.Step(vsched.Op1("Map.Delete", m.obj(), vsched.KMemWrite))
		m.del(k)
		return
	}
	m.real.Delete(k)
}

// Swap mirrors sync.Map.Swap.
func (m *Map) Swap(k, v interface{}) (interface{}, bool) {
	if vsched.Active() {
		vsched.Step(vsched.Op1("Map.Swap", m.obj(), vsched.KMemWrite))
		old, ok := m.m[k]
		m.set(k, v)
		return old, ok
	}
	return m.real.Swap(k, v)
}

// CompareAndSwap mirrors sync.Map.CompareAndSwap.
func (m *Map) CompareAndSwap(k, o, n interface{}) bool {
	if vsched.Active() {
		vsched.Step(vsched.Op1("Map.CompareAndSwap", m.obj(), vsched.KMemWrite))
		if cur, ok := m.m[k]; ok && cur == o {
			m.m[k] = n
			return true
		}
		return false
	}
	return m.real.CompareAndSwap(k, o, n)
}

// CompareAndDelete mirrors sync.Map.CompareAndDelete.
func (m *Map) CompareAndDelete(k, o interface{}) bool {
	if vsched.Active() {
		vsched.Step(vsched.Op1("Map.CompareAndDelete", m.obj(), vsched.KMemWrite))
		if cur, ok := m.m[k]; ok && cur == o {
			m.del(k)
			return true
		}
		return false
	}
	return m.real.CompareAndDelete(k, o)
}

// Range mirrors sync.Map.Range. Like the real one it does not hold the map
// for the whole iteration: the keys are those present when Range starts, each
// value is looked up (one more visible read) when its turn comes.
func (m *Map) Range(f func(k, v interface{}) bool) {
	if vsched.Active() {
		vsched.Step(vsched.Op1("Map.Range", m.obj(), vsched.KMemRead))
		keys := append([]interface{}{}, m.keys...)
		for i, k := range keys {
			if i > 0 {
				vsched.Step(vsched.Op1("Map.Range(next)", m.obj(), vsched.KMemRead))
			}
			v, ok := m.m[k]
			if !ok {
				continue
			}
			if !f(k, v) {
				return
			}
		}
		return
	}
	m.real.Range(f)
}

// Cond mirrors sync.Cond. Wait enqueues the caller while it still holds L,
// releases L, and is enabled again only after a Signal or Broadcast chose it
// (Go's Cond has no spurious wake-ups); Signal wakes the longest waiter.
type Cond struct {
	L Locker

	mk      sync.Once
	real    *sync.Cond
	hdr     vsched.ObjHdr
	waiters []*condWaiter
}

type condWaiter struct{ woken bool }

// NewCond mirrors sync.NewCond.
func NewCond(l Locker) *Cond { return &Cond{L: l} }

func (c *Cond) obj() vsched.ObjID {
	id, fresh := c.hdr.Obj()
	if fresh {
		c.waiters = nil
	}
	return id
}

func (c *Cond) r() *sync.Cond {
	c.mk.Do(func() { c.real = sync.NewCond(c.L) })
	return c.real
}

// Wait mirrors sync.Cond.Wait.
func (c *Cond) Wait() {
	if vsched.Active() {
		id := c.obj()
		w := &condWaiter{}
		vsched.Step(vsched.Op1("Cond.Wait(enqueue)", id, vsched.KMemWrite))
		c.waiters = append(c.waiters, w)
		c.L.Unlock()
		vsched.StepWhen(vsched.Op1("Cond.Wait(woken)", id, vsched.KMemWrite), func() bool { return w.woken })
		c.L.Lock()
		return
	}
	if vsched.Unwinding() {
		return
	}
	c.r().Wait()
}

// Signal mirrors sync.Cond.Signal.
func (c *Cond) Signal() {
	if vsched.Active() {
		vsched.Step(vsched.Op1("Cond.Signal", c.obj(), vsched.KMemWrite))
		if len(c.waiters) > 0 {
			c.waiters[0].woken = true
			c.waiters = c.waiters[1:]
		}
		return
	}
	if vsched.Unwinding() {
		return
	}
	c.r().Signal()
}

// Broadcast mirrors sync.Cond.Broadcast.
func (c *Cond) Broadcast() {
	if vsched.Active() {
		vsched.Step(vsched.Op1("Cond.Broadcast", c.obj(), vsched.KMemWrite))
		for _, w := range c.waiters {
			w.woken = true
		}
		c.waiters = nil
		return
	}
	if vsched.Unwinding() {
		return
	}
	c.r().Broadcast()
}

// OnceFunc mirrors sync.OnceFunc (without its re-panicking refinement).
func OnceFunc(f func()) func() {
	var o Once
	return func() { o.Do(f) }
}

// OnceValue mirrors sync.OnceValue.
func OnceValue[T any](f func() T) func() T {
	var o Once
	var v T
	return func() T {
		o.Do(func() { v = f() })
		return v
	}
}

// OnceValues mirrors sync.OnceValues.
func OnceValues[T1, T2 any](f func() (T1, T2)) func() (T1, T2) {
	var o Once
	var v1 T1
	var v2 T2
	return func() (T1, T2) {
		o.Do(func() { v1, v2 = f() })
		return v1, v2
	}
}
