package vsched

import (
	"fmt"
	"math/bits"
	"os"
	"time"
)

// Mode selects the exploration algorithm.
type Mode int

const (
	// ModeDPOR explores one execution per Mazurkiewicz trace (dynamic
	// partial-order reduction with sleep sets), without a preemption bound.
	ModeDPOR Mode = iota
	// ModePB explores every schedule with at most PreemptionBound preemptions,
	// without reduction.
	ModePB
	// ModeSingle runs the default schedule once (data choices are still
	// enumerated).
	ModeSingle
)

func (m Mode) String() string { return [...]string{"dpor", "pb", "single"}[m] }

// Options configure an Explorer.
type Options struct {
	Mode            Mode
	PreemptionBound int
	DeviationBound  int // max number of cost-bearing data choices off default (-1: unbounded)
	Horizon         int // max scheduling steps per execution
	MaxExecutions   int64
	Deadline        time.Time
	Watchdog        time.Duration
	// Slicing (ModePB only, where the search tree is static): the executions
	// are partitioned by a hash of the first SliceDepth choices; this
	// explorer continues only below prefixes with hash % SliceCount == SliceIndex.
	SliceDepth, SliceIndex, SliceCount int
	DefaultSchedule                    bool // never branch on thread choices (only data choices are enumerated)
	ExploreAll                         bool // explored window open from the start
	Trace                              bool // keep a per-execution op log
}

type node struct {
	data      bool
	free      bool // data choice without deviation cost
	enabled   uint32
	backtrack uint32
	sleep     uint32
	done      uint32
	chosen    int16
	n         int16
	running   int8 // thread running before the choice if it is still enabled, else -1
	preempts  int16
	devs      int16
	label     string
	counts    [MaxThreads]uint32
	evclock   VC // clock of the executed event (after joining its dependencies)
	evtick    uint32
}

// Stats summarises an exploration.
type Stats struct {
	Executions   int64
	Complete     int64
	Deadlocks    int64
	SleepBlocked int64
	Horizon      int64
	Pruned       int64
	Transitions  int64 // scheduling steps executed
	MaxDepth     int
	Capped       bool // a cap or deadline stopped the search
	CapReason    string
	Exhaustive   bool
	Mode         string
	Bound        int
	Divergences  int
	MaxThreads   int
}

// Explorer enumerates executions of a scenario body.
type Explorer struct {
	opts         Options
	dpor         bool
	nodes        []node
	pos          int
	curSleep     uint32
	curPre       int16
	curDev       int16
	Stats        Stats
	diverged     string
	sliceChecked bool
}

// NewExplorer creates an explorer.
func NewExplorer(o Options) *Explorer {
	if o.Horizon == 0 {
		o.Horizon = 20000
	}
	if o.Watchdog == 0 {
		o.Watchdog = 60 * time.Second
		if v := os.Getenv("VSCHED_WATCHDOG_S"); v != "" {
			var n int
			fmt.Sscan(v, &n)
			o.Watchdog = time.Duration(n) * time.Second
		}
	}
	ex := &Explorer{opts: o, dpor: o.Mode == ModeDPOR}
	ex.Stats.Mode = o.Mode.String()
	ex.Stats.Bound = o.PreemptionBound
	return ex
}

func lowest(m uint32) int { return bits.TrailingZeros32(m) }

// choose picks the thread to run at the current state. A negative return
// value -k ends the execution with EndKind(k).
func (ex *Explorer) choose(enabled uint32) int {
	cur := -1
	if s.cur != nil && enabled&(1<<uint(s.cur.id)) != 0 {
		cur = s.cur.id
	}
	if !s.exploring || ex.opts.Mode == ModeSingle || ex.opts.DefaultSchedule {
		if cur >= 0 {
			return cur
		}
		return lowest(enabled)
	}
	if ex.opts.SliceCount > 1 && ex.opts.Mode == ModePB && ex.pos >= ex.opts.SliceDepth && !ex.sliceChecked {
		ex.sliceChecked = true
		var h uint32 = 2166136261
		for i := 0; i < ex.opts.SliceDepth && i < len(ex.nodes); i++ {
			h = (h ^ uint32(ex.nodes[i].chosen+1)) * 16777619
		}
		if int(h%uint32(ex.opts.SliceCount)) != ex.opts.SliceIndex {
			return -int(EndPruned)
		}
	}
	var nd *node
	if ex.pos < len(ex.nodes) {
		nd = &ex.nodes[ex.pos]
		if nd.data || nd.enabled != enabled {
			ex.diverged = fmt.Sprintf("replay divergence at node %d: recorded enabled=%b data=%v, now enabled=%b", ex.pos, nd.enabled, nd.data, enabled)
			return -int(EndPruned)
		}
	} else {
		n := node{enabled: enabled, running: int8(cur), preempts: ex.curPre, devs: ex.curDev}
		for _, t := range s.threads {
			n.counts[t.id] = t.clock[t.id]
		}
		if ex.dpor {
			n.sleep = ex.curSleep
			cand := enabled &^ n.sleep
			if cand == 0 {
				return -int(EndSleepBlocked)
			}
			if cur >= 0 && cand&(1<<uint(cur)) != 0 {
				n.chosen = int16(cur)
			} else {
				n.chosen = int16(lowest(cand))
			}
			n.backtrack = 1 << uint(n.chosen)
		} else {
			if cur >= 0 {
				n.chosen = int16(cur)
			} else {
				n.chosen = int16(lowest(enabled))
			}
		}
		n.done = 1 << uint(n.chosen)
		ex.nodes = append(ex.nodes, n)
		nd = &ex.nodes[ex.pos]
	}
	ex.pos++
	p := int(nd.chosen)
	if ex.dpor {
		// Sleep set of the successor: sleeping threads whose next operation is
		// independent of the one executed now stay asleep.
		var ns uint32
		pop := &s.threads[p].pending
		for m := nd.sleep; m != 0; m &= m - 1 {
			q := lowest(m)
			if q != p && q < len(s.threads) && !opsDependent(&s.threads[q].pending, pop) {
				ns |= 1 << uint(q)
			}
		}
		ex.curSleep = ns
	} else {
		ex.curPre = nd.preempts
		if nd.running >= 0 && int(nd.running) != p {
			ex.curPre++
		}
	}
	return p
}

// Choose is a data choice among n alternatives made by the running thread.
// Alternative 0 is the default. If free is false, every alternative other
// than 0 costs one deviation (bounded by Options.DeviationBound).
func Choose(n int, label string, free bool) int {
	if !s.running || s.aborting || n <= 1 {
		return 0
	}
	ex := s.ex
	var nd *node
	if ex.pos < len(ex.nodes) {
		nd = &ex.nodes[ex.pos]
		if !nd.data || int(nd.n) != n {
			ex.diverged = fmt.Sprintf("replay divergence at node %d: recorded data=%v n=%d label=%s, now data choice n=%d label=%s", ex.pos, nd.data, nd.n, nd.label, n, label)
			// Cannot end the execution from here; take default and let the
			// controller report the divergence.
			return 0
		}
	} else {
		ex.nodes = append(ex.nodes, node{data: true, free: free, n: int16(n), label: label, sleep: ex.curSleep, preempts: ex.curPre, devs: ex.curDev})
		nd = &ex.nodes[ex.pos]
	}
	ex.pos++
	ex.curDev = nd.devs
	if !nd.free && nd.chosen != 0 {
		ex.curDev++
	}
	if ex.opts.Trace {
		s.log = append(s.log, fmt.Sprintf("T%d choose %s=%d/%d", CurThread(), label, nd.chosen, n))
	}
	return int(nd.chosen)
}

// findRaces adds backtrack points for every earlier access to o that races
// with access a about to be performed by t (source-set rule of Abdulla et
// al.: schedule, before the earlier event e, some thread that is an initial
// of the sequence "events after e that do not happen after e, then t's
// operation"; if no such thread is enabled there, every enabled thread).
func (ex *Explorer) findRaces(t *thread, op *Op, a Access, o *objState) {
	for k := len(o.acc) - 1; k >= 0; k-- {
		r := &o.acc[k]
		if int(r.thread) == t.id || !depTab[a.Kind][r.kind] || !coTab[a.Kind][r.kind] {
			continue
		}
		if t.clock[r.thread] >= r.tick {
			continue // happens-before: not a race
		}
		if int(r.node) >= len(ex.nodes) || r.node < 0 {
			continue
		}
		i := int(r.node)
		nd := &ex.nodes[i]
		et, etick := int(r.thread), r.tick
		var ini uint32
		for m := nd.enabled; m != 0; m &= m - 1 {
			q := lowest(m)
			if q == et {
				continue
			}
			var clk *VC
			pendingCase := false
			if idx := firstAfter(s.tnodes[q], int32(i)); idx >= 0 {
				clk = &ex.nodes[idx].evclock
			} else if q == t.id {
				clk = &t.clock
				pendingCase = true
			} else {
				continue
			}
			if clk[et] >= etick {
				continue // happens after e: not part of v
			}
			ok := true
			for rr := 0; rr < len(s.threads); rr++ {
				if rr != q && clk[rr] > nd.counts[rr] {
					ok = false
					break
				}
			}
			if ok && pendingCase {
				// t's pending operation must not depend on another event of v.
				for x := 0; x < int(op.N) && ok; x++ {
					ax := op.Acc[x]
					if ax.Kind == KLocal {
						continue
					}
					ox := &s.objs[ax.Obj]
					for y := len(ox.acc) - 1; y >= 0; y-- {
						ry := &ox.acc[y]
						if int(ry.node) <= i {
							break
						}
						if int(ry.thread) == t.id || !depTab[ax.Kind][ry.kind] {
							continue
						}
						if ex.nodes[ry.node].evclock[et] >= etick {
							continue // not in v
						}
						ok = false
						break
					}
				}
			}
			if ok {
				ini |= 1 << uint(q)
			}
		}
		if ini == 0 {
			nd.backtrack |= nd.enabled
		} else if nd.backtrack&ini == 0 {
			if ini&(1<<uint(t.id)) != 0 {
				nd.backtrack |= 1 << uint(t.id)
			} else {
				nd.backtrack |= 1 << uint(lowest(ini))
			}
		}
	}
}

// firstAfter returns the first element of the ascending list l that is > x, or -1.
func firstAfter(l []int32, x int32) int32 {
	lo, hi := 0, len(l)
	for lo < hi {
		mid := (lo + hi) / 2
		if l[mid] > x {
			hi = mid
		} else {
			lo = mid + 1
		}
	}
	if lo < len(l) {
		return l[lo]
	}
	return -1
}

// advance moves the node stack to the next unexplored alternative. It returns
// false when the search space is exhausted.
func (ex *Explorer) advance() bool {
	for len(ex.nodes) > 0 {
		k := len(ex.nodes) - 1
		nd := &ex.nodes[k]
		if nd.data {
			next := int(nd.chosen) + 1
			if next < int(nd.n) && (nd.free || ex.opts.DeviationBound < 0 || int(nd.devs)+1 <= ex.opts.DeviationBound) {
				nd.chosen = int16(next)
				return true
			}
			ex.nodes = ex.nodes[:k]
			continue
		}
		if ex.dpor {
			nd.sleep |= 1 << uint(nd.chosen)
			cand := nd.backtrack &^ nd.sleep &^ nd.done & nd.enabled
			if cand != 0 {
				p := lowest(cand)
				nd.chosen = int16(p)
				nd.done |= 1 << uint(p)
				return true
			}
			ex.nodes = ex.nodes[:k]
			continue
		}
		// Preemption-bounded naive search.
		cand := nd.enabled &^ nd.done
		for cand != 0 {
			p := lowest(cand)
			cand &^= 1 << uint(p)
			cost := int(nd.preempts)
			if nd.running >= 0 && int(nd.running) != p {
				cost++
			}
			if cost <= ex.opts.PreemptionBound {
				nd.chosen = int16(p)
				nd.done |= 1 << uint(p)
				return true
			}
			nd.done |= 1 << uint(p)
		}
		ex.nodes = ex.nodes[:k]
	}
	return false
}

// Choices returns the current node stack as a replayable list.
func (ex *Explorer) Choices() []ChoiceRec {
	out := make([]ChoiceRec, len(ex.nodes))
	for i, n := range ex.nodes {
		out[i] = ChoiceRec{Data: n.data, Chosen: int(n.chosen), N: int(n.n), Enabled: n.enabled, Label: n.label}
	}
	return out
}

// ChoiceRec is one recorded choice.
type ChoiceRec struct {
	Data    bool   `json:"data,omitempty"`
	Chosen  int    `json:"c"`
	N       int    `json:"n,omitempty"`
	Enabled uint32 `json:"en,omitempty"`
	Label   string `json:"l,omitempty"`
}

// Explore runs body repeatedly until the space is exhausted (or a cap is hit)
// and calls check after every execution. check returns false to stop early.
func (ex *Explorer) Explore(body func(), check func(e *Execution) bool) *Stats {
	st := &ex.Stats
	for {
		ex.curSleep, ex.curPre, ex.curDev = 0, 0, 0
		ex.diverged = ""
		ex.sliceChecked = false
		e := ex.runOnce(body)
		if ex.diverged != "" {
			st.Divergences++
			panic("vsched: " + ex.diverged)
		}
		st.Executions++
		st.Transitions += int64(e.Steps)
		if e.Threads > st.MaxThreads {
			st.MaxThreads = e.Threads
		}
		if len(ex.nodes) > st.MaxDepth {
			st.MaxDepth = len(ex.nodes)
		}
		switch e.End {
		case EndComplete:
			st.Complete++
		case EndDeadlock:
			st.Deadlocks++
		case EndSleepBlocked:
			st.SleepBlocked++
		case EndHorizon:
			st.Horizon++
		case EndPruned:
			st.Pruned++
		}
		// Nodes beyond the point where the execution stopped do not exist;
		// nodes that were recorded but not reached (shorter run) are dropped.
		if ex.pos < len(ex.nodes) {
			ex.nodes = ex.nodes[:ex.pos]
		}
		e.Choices = nil
		if !check(e) {
			st.Capped, st.CapReason = true, "stopped by check"
			break
		}
		if !ex.advance() {
			st.Exhaustive = st.Horizon == 0
			break
		}
		if ex.opts.MaxExecutions > 0 && st.Executions >= ex.opts.MaxExecutions {
			st.Capped, st.CapReason = true, fmt.Sprintf("max executions %d", ex.opts.MaxExecutions)
			break
		}
		if !ex.opts.Deadline.IsZero() && st.Executions%64 == 0 && time.Now().After(ex.opts.Deadline) {
			st.Capped, st.CapReason = true, "deadline"
			break
		}
	}
	return st
}

// Replay runs body once following the given choices exactly.
func Replay(o Options, choices []ChoiceRec, body func()) *Execution {
	ex := NewExplorer(o)
	for _, c := range choices {
		n := node{data: c.Data, chosen: int16(c.Chosen), n: int16(c.N), enabled: c.Enabled, label: c.Label}
		ex.nodes = append(ex.nodes, n)
	}
	// Sleep sets are irrelevant for a replay; make every node accept its choice.
	ex.dpor = false
	e := ex.runOnce(body)
	if ex.diverged != "" {
		panic("vsched: " + ex.diverged)
	}
	return e
}
