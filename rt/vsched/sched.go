// Package vsched is the controlled cooperative scheduler under which the
// rewritten p9 packages and the harness run during schedule exploration.
//
// Threads are real goroutines, but exactly one of them runs at any time. Each
// visible operation (lock, atomic, channel, pipe, ...) is announced with
// Step/StepWhen *before* it takes effect; the scheduler then decides which
// thread executes its pending operation next. The explorer (explore.go)
// drives those decisions.
//
// When no execution is active (Active() == false) every entry point is a
// pass-through so that the same instrumented build also runs free (real
// goroutines, real sync primitives).
package vsched

import (
	"fmt"
	"runtime"
	"strings"
	"time"
	"unsafe"
)

// MaxThreads bounds the number of threads per execution (vector clock width).
const MaxThreads = 24

// Kind classifies an access for the dependence relation.
type Kind uint8

const (
	KLocal Kind = iota // independent of everything
	KLock
	KUnlock
	KRLock
	KRUnlock
	KWAnnounce
	KWAcquire
	KWUnlock
	KWgAdd
	KWgDone
	KWgWait
	KAtomLoad
	KAtomAdd // blind add: result unused
	KAtomRMW // store, cas, add with result, swap
	KChSend
	KChRecv
	KChClose
	KOnce
	KPipeRead
	KPipeWrite
	KPipeClose
	KMemRead
	KMemWrite
	KPoolGet
	KPoolPut
	KTry // TryLock / TryRLock: never blocks, observes and may change the lock state
	nKinds
)

var kindNames = [...]string{"local", "Lock", "Unlock", "RLock", "RUnlock", "WAnnounce", "WAcquire", "WUnlock",
	"WgAdd", "WgDone", "WgWait", "AtomLoad", "AtomAdd", "AtomRMW", "ChSend", "ChRecv", "ChClose", "Once",
	"PipeRead", "PipeWrite", "PipeClose", "MemRead", "MemWrite", "PoolGet", "PoolPut", "Try"}

func (k Kind) String() string { return kindNames[k] }

// depTab[a][b]: accesses of kinds a and b to the same object do not commute.
// coTab[a][b]: ... and may be enabled at the same time (a race worth reversing).
var depTab, coTab [nKinds][nKinds]bool

func setDep(a, b Kind, co bool) {
	depTab[a][b], depTab[b][a] = true, true
	coTab[a][b], coTab[b][a] = co, co
}

func init() {
	// Mutex.
	setDep(KLock, KLock, true)
	setDep(KLock, KUnlock, false)
	setDep(KUnlock, KUnlock, false)
	// RWMutex: reader-side operations commute with each other; RUnlock also
	// commutes with a writer's announcement (neither changes the other's
	// enabledness nor the resulting state).
	for _, r := range []Kind{KRLock, KRUnlock} {
		for _, w := range []Kind{KWAnnounce, KWAcquire, KWUnlock} {
			setDep(r, w, false)
		}
	}
	depTab[KRUnlock][KWAnnounce], depTab[KWAnnounce][KRUnlock] = false, false
	coTab[KRLock][KWAnnounce], coTab[KWAnnounce][KRLock] = true, true
	for _, a := range []Kind{KWAnnounce, KWAcquire, KWUnlock} {
		for _, b := range []Kind{KWAnnounce, KWAcquire, KWUnlock} {
			setDep(a, b, false)
		}
	}
	coTab[KWAnnounce][KWAnnounce] = true
	// WaitGroup: Add/Done commute with each other, only Wait observes.
	setDep(KWgAdd, KWgWait, true)
	setDep(KWgDone, KWgWait, false)
	// Atomics: loads commute, blind adds commute.
	setDep(KAtomLoad, KAtomAdd, true)
	setDep(KAtomLoad, KAtomRMW, true)
	setDep(KAtomAdd, KAtomRMW, true)
	setDep(KAtomRMW, KAtomRMW, true)
	// Channels.
	for _, a := range []Kind{KChSend, KChRecv, KChClose} {
		for _, b := range []Kind{KChSend, KChRecv, KChClose} {
			setDep(a, b, true)
		}
	}
	setDep(KOnce, KOnce, true)
	for _, a := range []Kind{KPipeRead, KPipeWrite, KPipeClose} {
		for _, b := range []Kind{KPipeRead, KPipeWrite, KPipeClose} {
			setDep(a, b, true)
		}
	}
	setDep(KMemRead, KMemWrite, true)
	setDep(KMemWrite, KMemWrite, true)
	for _, a := range []Kind{KPoolGet, KPoolPut} {
		for _, b := range []Kind{KPoolGet, KPoolPut} {
			setDep(a, b, true)
		}
	}
	// A try-lock is always enabled, so unlike a blocking acquisition it can
	// stand next to an unlock of the same lock, and the two do not commute
	// (the try fails before the unlock and succeeds after it).
	for _, b := range []Kind{KLock, KUnlock, KRLock, KRUnlock, KWAnnounce, KWAcquire, KWUnlock, KTry} {
		setDep(KTry, b, true)
	}
}

// ObjID identifies a shared object within one execution.
type ObjID uint32

// Access is one (object, kind) pair of an operation.
type Access struct {
	Obj  ObjID
	Kind Kind
}

// Op is a visible operation about to be executed by a thread.
type Op struct {
	Label string
	Acc   [3]Access
	N     uint8
}

// Op1 builds a single-access operation.
func Op1(label string, obj ObjID, k Kind) Op {
	return Op{Label: label, Acc: [3]Access{{obj, k}}, N: 1}
}

func (o *Op) String() string {
	var sb strings.Builder
	sb.WriteString(o.Label)
	for i := 0; i < int(o.N); i++ {
		fmt.Fprintf(&sb, " %s#%d", o.Acc[i].Kind, o.Acc[i].Obj)
	}
	return sb.String()
}

func opsDependent(a, b *Op) bool {
	for i := 0; i < int(a.N); i++ {
		for j := 0; j < int(b.N); j++ {
			if a.Acc[i].Obj == b.Acc[j].Obj && depTab[a.Acc[i].Kind][b.Acc[j].Kind] {
				return true
			}
		}
	}
	return false
}

// VC is a vector clock.
type VC [MaxThreads]uint32

func (a *VC) join(b *VC) {
	for i := range a {
		if b[i] > a[i] {
			a[i] = b[i]
		}
	}
}

// Stamp is a point in a thread's history that oracles can compare with
// happens-before.
type Stamp struct {
	Thread int
	Tick   uint32
	Clock  VC
	Step   int // physical position in the trace (for reports only)
}

// HB reports whether a happens before b.
func HB(a, b *Stamp) bool {
	if a.Thread == b.Thread {
		return a.Tick <= b.Tick
	}
	return b.Clock[a.Thread] >= a.Tick
}

// ObjHdr is embedded in shim objects; it yields a per-execution object id.
type ObjHdr struct {
	epoch uint32
	id    ObjID
}

type thread struct {
	id      int
	name    string
	wake    chan bool // true: run, false: abort (Goexit)
	gone    chan struct{}
	pending Op
	ready   func() bool
	hasOp   bool
	done    bool
	clock   VC
	blocked string // last pending label for reports
}

type accessRec struct {
	node   int32
	thread int8
	kind   Kind
	tick   uint32
}

type kindClock struct {
	kind Kind
	vc   VC
}

type objState struct {
	acc []accessRec
	kc  []kindClock
	// data-race tracking for recorded plain accesses
	lastW      Stamp
	hasW       bool
	reads      []Stamp
	name       string
	wSite      string
	readsSites []string
	// last recorded access: a repeat by the same thread with no visible
	// operation in between (same steps count) and no stronger kind adds nothing
	recThread int
	recStep   int
	recWrite  bool
	recValid  bool
}

// EndKind says how an execution ended.
type EndKind int

const (
	EndComplete EndKind = iota
	EndDeadlock
	EndSleepBlocked
	EndHorizon
	EndPruned // harness called Prune (uninteresting execution)
)

func (e EndKind) String() string {
	return [...]string{"complete", "deadlock", "sleep-blocked", "horizon", "pruned"}[e]
}

// Race describes a happens-before data race on a recorded plain access.
type Race struct {
	Obj   string
	A, B  string // sites
	Write [2]bool
}

type sched struct {
	running        bool
	aborting       bool
	epoch          uint32
	threads        []*thread
	cur            *thread
	nextObj        ObjID
	objs           []objState
	addrObj        map[unsafe.Pointer]ObjID
	weakObj        map[uintptr]ObjID
	arrs           []arrSpan
	lastArr        int
	closedCh       map[unsafe.Pointer]bool
	finished       chan struct{}
	steps          int
	end            EndKind
	panics         []string
	races          []Race
	raceSeen       map[string]bool
	exploring      bool // inside the explored window (BeginExplore..EndExplore)
	deadlockReport string
	ex             *Explorer
	log            []string
	userFail       []string
	tnodes         [MaxThreads][]int32
}

var s sched

// Active reports whether the calling code runs under the controlled scheduler
// (and the execution is not being unwound).
func Active() bool { return s.running && !s.aborting }

// Unwinding reports whether the current execution is being aborted.
func Unwinding() bool { return s.running && s.aborting }

// Obj returns the object id for a shim header, allocating one on first use
// in this execution. fresh reports whether the shim must reset its model state.
func (h *ObjHdr) Obj() (id ObjID, fresh bool) {
	if h.epoch != s.epoch {
		h.epoch = s.epoch
		h.id = NewObj("")
		return h.id, true
	}
	return h.id, false
}

// NewObj allocates a fresh object id.
func NewObj(name string) ObjID {
	s.nextObj++
	s.objs = append(s.objs, objState{name: name})
	return s.nextObj
}

// NameObj attaches a name to an object for reports.
func NameObj(id ObjID, name string) {
	if int(id) < len(s.objs) {
		s.objs[id].name = name
	}
}

// AddrObj maps an address (plain atomic variable, map header, channel) to an
// object id.
func AddrObj(p unsafe.Pointer) ObjID {
	if id, ok := s.addrObj[p]; ok {
		return id
	}
	id := NewObj("")
	s.addrObj[p] = id
	return id
}

// arrSpan is one byte array seen by ArrObj (kept alive by base, so that its
// addresses are not reused within the execution).
type arrSpan struct {
	base unsafe.Pointer
	lo   uintptr
	hi   uintptr
	id   ObjID
}

// ArrObj maps a byte slice to the object that stands for the array it points
// into: slices of one array (sub-slices at any offset) get one object. The
// array's extent is learnt from the slices seen (first sight usually shows
// the whole array: pooled buffers are handed out at full capacity).
func ArrObj(b []byte) (ObjID, bool) {
	if cap(b) == 0 {
		return 0, false
	}
	base := unsafe.Pointer(unsafe.SliceData(b))
	lo := uintptr(base)
	hi := lo + uintptr(cap(b))
	if i := s.lastArr; i < len(s.arrs) && lo >= s.arrs[i].lo && hi <= s.arrs[i].hi {
		return s.arrs[i].id, true
	}
	for i := range s.arrs {
		a := &s.arrs[i]
		if lo < a.hi && a.lo < hi { // overlap: same allocation
			s.lastArr = i
			if lo < a.lo {
				a.lo, a.base = lo, base
			}
			if hi > a.hi {
				a.hi = hi
			}
			return a.id, true
		}
	}
	id := NewObj("")
	s.arrs = append(s.arrs, arrSpan{base: base, lo: lo, hi: hi, id: id})
	return id, true
}

// WeakAtomics: atomic variables are keyed by address WITHOUT keeping their
// object alive, so that the collector can find objects unreachable (scenarios
// with modelled finalizers). If an address is reused within the execution two
// atomics share one object: more dependence and more happens-before edges
// than there are, never fewer interleavings explored and never a false race
// (atomics are not race-checked).
var WeakAtomics = false

// AtomicObj maps the address of an atomic variable to an object id.
func AtomicObj(p unsafe.Pointer) ObjID {
	if !WeakAtomics {
		return AddrObj(p)
	}
	if id, ok := s.weakObj[uintptr(p)]; ok {
		return id
	}
	id := NewObj("")
	s.weakObj[uintptr(p)] = id
	return id
}

// CurThread returns the running thread's id.
func CurThread() int {
	if s.cur == nil {
		return -1
	}
	return s.cur.id
}

// Go starts fn as a new thread (or a plain goroutine when inactive).
func Go(fn func()) { GoNamed("", fn) }

// GoNamed is Go with a thread name for reports.
func GoNamed(name string, fn func()) {
	if !s.running {
		go fn()
		return
	}
	if s.aborting {
		return // unwinding: do not start anything new
	}
	t := newThread(name, fn)
	// The child starts with the parent's knowledge.
	parent := s.cur
	parent.clock[parent.id]++
	t.clock = parent.clock
	t.clock[t.id] = 0
}

func newThread(name string, fn func()) *thread {
	if len(s.threads) >= MaxThreads {
		panic("vsched: too many threads")
	}
	t := &thread{id: len(s.threads), name: name, wake: make(chan bool), gone: make(chan struct{})}
	t.pending = Op{Label: "start"}
	t.hasOp = true
	s.threads = append(s.threads, t)
	go func() {
		defer close(t.gone)
		if !<-t.wake {
			return
		}
		defer threadExit(t)
		fn()
	}()
	return t
}

// threadExit runs as the outermost deferred call of a thread body.
func threadExit(t *thread) {
	if r := recover(); r != nil {
		buf := make([]byte, 16<<10)
		buf = buf[:runtime.Stack(buf, false)]
		s.panics = append(s.panics, fmt.Sprintf("thread %d(%s): panic: %v\n%s", t.id, t.name, r, buf))
	}
	t.done = true
	t.hasOp = false
	if s.aborting {
		return
	}
	// Hand over to the next thread; this goroutine ends.
	next := pick()
	if next == nil {
		return // execution ended; controller notified by pick
	}
	s.cur = next
	next.wake <- true
}

// Step announces an always-enabled visible operation.
func Step(op Op) { StepWhen(op, nil) }

// StepWhen announces a visible operation that is enabled only while ready()
// holds. It returns when the scheduler lets the caller execute it. The caller
// must then apply the operation's effect without further scheduling points.
func StepWhen(op Op, ready func() bool) {
	if !s.running || s.aborting {
		return
	}
	t := s.cur
	t.pending = op
	t.ready = ready
	t.hasOp = true
	next := pick()
	if next == t {
		return
	}
	if next != nil {
		s.cur = next
		next.wake <- true
	}
	// Park until chosen (or aborted).
	if !<-t.wake {
		runtime.Goexit()
	}
}

func (t *thread) enabled() bool {
	if t.done || !t.hasOp {
		return false
	}
	return t.ready == nil || t.ready()
}

// pick asks the explorer for the next thread, performs the bookkeeping for
// executing its pending operation and returns it. nil means the execution
// ended (controller has been notified).
func pick() *thread {
	var enabled uint32
	live := false
	for _, t := range s.threads {
		if t.done {
			continue
		}
		live = true
		if t.enabled() {
			enabled |= 1 << uint(t.id)
		}
	}
	if !live {
		endExecution(EndComplete)
		return nil
	}
	if enabled == 0 {
		s.deadlockReport = blockedReport()
		endExecution(EndDeadlock)
		return nil
	}
	s.steps++
	if s.steps > s.ex.opts.Horizon {
		endExecution(EndHorizon)
		return nil
	}
	id := s.ex.choose(enabled)
	if id < 0 {
		endExecution(EndKind(-id))
		return nil
	}
	t := s.threads[id]
	execute(t)
	return t
}

// execute records that thread t performs its pending op now.
func execute(t *thread) {
	op := &t.pending
	node := int32(-1)
	if s.exploring {
		node = int32(s.ex.pos - 1)
	}
	t.clock[t.id]++
	tick := t.clock[t.id]
	// Race analysis against earlier accesses, then clock update.
	if s.exploring && s.ex.dpor && s.ex.opts.Mode == ModeDPOR {
		for i := 0; i < int(op.N); i++ {
			if a := op.Acc[i]; a.Kind != KLocal {
				s.ex.findRaces(t, op, a, &s.objs[a.Obj])
			}
		}
	}
	for i := 0; i < int(op.N); i++ {
		a := op.Acc[i]
		if a.Kind == KLocal {
			continue
		}
		o := &s.objs[a.Obj]
		for j := range o.kc {
			if depTab[a.Kind][o.kc[j].kind] {
				t.clock.join(&o.kc[j].vc)
			}
		}
	}
	for i := 0; i < int(op.N); i++ {
		a := op.Acc[i]
		if a.Kind == KLocal {
			continue
		}
		o := &s.objs[a.Obj]
		found := false
		for j := range o.kc {
			if o.kc[j].kind == a.Kind {
				o.kc[j].vc.join(&t.clock)
				found = true
				break
			}
		}
		if !found {
			o.kc = append(o.kc, kindClock{a.Kind, t.clock})
		}
		if s.exploring {
			o.acc = append(o.acc, accessRec{node: node, thread: int8(t.id), kind: a.Kind, tick: tick})
		}
	}
	if node >= 0 {
		s.ex.nodes[node].evclock = t.clock
		s.ex.nodes[node].evtick = tick
		s.tnodes[t.id] = append(s.tnodes[t.id], node)
	}
	if s.ex.opts.Trace {
		s.log = append(s.log, fmt.Sprintf("T%d %s", t.id, op.String()))
	}
	t.hasOp = false
	t.ready = nil
}

func endExecution(k EndKind) {
	s.end = k
	if k == EndDeadlock || k == EndComplete {
		// F&G: also examine the next operations of threads that never got to
		// execute them (blocked forever in this trace).
		if s.exploring && s.ex.dpor {
			for _, t := range s.threads {
				if !t.done && t.hasOp {
					for i := 0; i < int(t.pending.N); i++ {
						a := t.pending.Acc[i]
						if a.Kind != KLocal {
							s.ex.findRaces(t, &t.pending, a, &s.objs[a.Obj])
						}
					}
				}
			}
		}
	}
	s.finished <- struct{}{}
}

func blockedReport() string {
	var sb strings.Builder
	for _, t := range s.threads {
		if t.done {
			continue
		}
		fmt.Fprintf(&sb, "T%d(%s)@%s; ", t.id, t.name, t.pending.String())
	}
	return sb.String()
}

// Stamp creates a local event on the running thread and returns its stamp.
func MakeStamp() Stamp {
	if !s.running || s.cur == nil {
		return Stamp{Thread: -1}
	}
	t := s.cur
	t.clock[t.id]++
	return Stamp{Thread: t.id, Tick: t.clock[t.id], Clock: t.clock, Step: s.steps}
}

// Fail records a harness-detected property violation for this execution.
func Fail(format string, args ...interface{}) {
	s.userFail = append(s.userFail, fmt.Sprintf(format, args...))
}

// BeginExplore marks the start of the explored window: scheduling choices
// before it follow the default schedule and are not branched on.
func BeginExplore() {
	if s.running {
		s.exploring = true
	}
}

// EndExplore marks the end of the explored window.
func EndExplore() {
	if s.running {
		s.exploring = false
	}
}

// Exploring reports whether the explored window is open.
func Exploring() bool { return s.running && s.exploring }

// Steps returns the number of scheduling steps so far in this execution.
func Steps() int { return s.steps }

// ---------------------------------------------------------------------------
// Plain (non-synchronising) access recording for the happens-before race check.

// RecordAccess notes a read or write of shared plain state. It is not a
// scheduling point.
func RecordAccess(obj ObjID, write bool, site string) {
	if !s.running || s.aborting || s.cur == nil {
		return
	}
	o := &s.objs[obj]
	t := s.cur
	if o.recValid && o.recThread == t.id && o.recStep == s.steps && (o.recWrite || !write) {
		return
	}
	o.recValid, o.recThread, o.recStep, o.recWrite = true, t.id, s.steps, write
	t.clock[t.id]++
	st := Stamp{Thread: t.id, Tick: t.clock[t.id], Clock: t.clock}
	report := func(other *Stamp, otherSite string, ow bool) {
		key := o.name + "|" + otherSite + "|" + site
		if s.raceSeen[key] {
			return
		}
		s.raceSeen[key] = true
		s.races = append(s.races, Race{Obj: o.name, A: otherSite, B: site, Write: [2]bool{ow, write}})
	}
	if o.hasW && o.lastW.Thread != t.id && !HB(&o.lastW, &st) {
		report(&o.lastW, o.wSite, true)
	}
	if write {
		for i := range o.reads {
			if o.reads[i].Thread != t.id && !HB(&o.reads[i], &st) {
				report(&o.reads[i], o.readsSites[i], false)
			}
		}
		o.lastW, o.hasW, o.wSite = st, true, site
		o.reads = o.reads[:0]
		o.readsSites = o.readsSites[:0]
	} else {
		// keep one read stamp per thread
		for i := range o.reads {
			if o.reads[i].Thread == t.id {
				o.reads[i] = st
				o.readsSites[i] = site
				return
			}
		}
		o.reads = append(o.reads, st)
		o.readsSites = append(o.readsSites, site)
	}
}

// ---------------------------------------------------------------------------

// Execution is the outcome of one run of the scenario body.
type Execution struct {
	End     EndKind
	Steps   int
	Panics  []string
	Races   []Race
	Blocked string
	Fails   []string
	Log     []string
	Threads int
	Choices []int
}

// runOnce executes body under the scheduler following the explorer's current
// node stack.
func (ex *Explorer) runOnce(body func()) *Execution {
	s = sched{
		running:  true,
		epoch:    s.epoch + 1,
		addrObj:  make(map[unsafe.Pointer]ObjID),
		weakObj:  make(map[uintptr]ObjID),
		closedCh: make(map[unsafe.Pointer]bool),
		finished: make(chan struct{}, 1),
		ex:       ex,
		raceSeen: make(map[string]bool),
		objs:     make([]objState, 1, 64),
	}
	s.exploring = ex.opts.ExploreAll
	ex.pos = 0
	t0 := newThread("main", body)
	// kick off: choose first thread (only T0 exists).
	first := pick()
	if first != nil {
		s.cur = first
		first.wake <- true
	}
	_ = t0
	select {
	case <-s.finished:
	case <-time.After(ex.opts.Watchdog):
		tail := s.log
		if len(tail) > 40 {
			tail = tail[len(tail)-40:]
		}
		panic(fmt.Sprintf("vsched: watchdog: execution did not finish in %v (an unmanaged blocking call?) blocked=%s cur=%v log tail=%v", ex.opts.Watchdog, blockedReport(), s.cur, tail))
	}
	// Unwind whatever is still parked, one thread at a time.
	nthreads := len(s.threads)
	if s.end != EndComplete {
		s.aborting = true
		for i := 0; i < len(s.threads); i++ {
			t := s.threads[i]
			if !t.done {
				t.wake <- false
				<-t.gone
			}
		}
	}
	for _, t := range s.threads {
		<-t.gone
	}
	// Threads spawned during unwinding are refused by GoNamed, so all are gone.
	e := &Execution{End: s.end, Steps: s.steps, Panics: s.panics, Races: s.races, Blocked: s.deadlockReport,
		Fails: s.userFail, Log: s.log, Threads: nthreads}
	s.running = false
	s.aborting = false
	s.cur = nil
	return e
}

// Quiesce parks the calling thread until no other thread is enabled. It is
// meant for the deterministic setup phase (outside the explored window), so
// that the explored window starts from a settled state.
func Quiesce() {
	if !s.running || s.aborting {
		return
	}
	if s.exploring {
		panic("vsched: Quiesce inside the explored window")
	}
	me := s.cur
	StepWhen(Op{Label: "quiesce"}, func() bool {
		for _, t := range s.threads {
			if t != me && t.enabled() {
				return false
			}
		}
		return true
	})
}

// CallerFunc returns the chain of the nearest functions of the packages under
// test on the caller's stack ("inner<outer<outer2"), for deadlock reports.
func CallerFunc() string {
	var pcs [24]uintptr
	n := runtime.Callers(3, pcs[:])
	frames := runtime.CallersFrames(pcs[:n])
	var out []string
	for {
		f, more := frames.Next()
		if strings.Contains(f.Function, "hugelgupf/p9/") {
			fn := f.Function[strings.LastIndex(f.Function, "/")+1:]
			out = append(out, fn)
			if len(out) == 4 {
				break
			}
		}
		if !more {
			break
		}
	}
	return strings.Join(out, "<")
}
