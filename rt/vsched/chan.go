package vsched

import (
	"reflect"
	"runtime"
	"unsafe"
)

// Channel operations of the rewritten packages. The channels stay real Go
// channels; because only one thread runs at a time, readiness computed from
// len/cap and the closed-set is exact and the real operation performed right
// after the scheduling decision never blocks.

func chanPtr[T any](ch chan T) unsafe.Pointer { return *(*unsafe.Pointer)(unsafe.Pointer(&ch)) }

func recvReady[T any](ch <-chan T, p unsafe.Pointer) func() bool {
	return func() bool { return len(ch) > 0 || s.closedCh[p] }
}

func sendReady[T any](ch chan<- T, p unsafe.Pointer) func() bool {
	return func() bool {
		if cap(ch) == 0 {
			panic("vsched: send on unbuffered channel is not modelled")
		}
		return len(ch) < cap(ch) || s.closedCh[p]
	}
}

// Recv is `<-ch`.
func Recv[T any](ch <-chan T) T {
	if Active() {
		p := *(*unsafe.Pointer)(unsafe.Pointer(&ch))
		StepWhen(Op1("chan.recv", AddrObj(p), KChRecv), recvReady(ch, p))
	}
	if Unwinding() {
		var z T
		select {
		case v := <-ch:
			return v
		default:
			return z
		}
	}
	return <-ch
}

// Recv2 is `v, ok := <-ch`.
func Recv2[T any](ch <-chan T) (T, bool) {
	if Active() {
		p := *(*unsafe.Pointer)(unsafe.Pointer(&ch))
		StepWhen(Op1("chan.recv", AddrObj(p), KChRecv), recvReady(ch, p))
	}
	if Unwinding() {
		var z T
		select {
		case v, ok := <-ch:
			return v, ok
		default:
			return z, false
		}
	}
	v, ok := <-ch
	return v, ok
}

// Send is `ch <- v`.
func Send[T any](ch chan<- T, v T) {
	if Active() {
		p := *(*unsafe.Pointer)(unsafe.Pointer(&ch))
		StepWhen(Op1("chan.send", AddrObj(p), KChSend), sendReady(ch, p))
	}
	if Unwinding() {
		select {
		case ch <- v:
		default:
		}
		return
	}
	ch <- v
}

// Close is `close(ch)`.
func Close[T any](ch chan<- T) {
	if Active() {
		p := *(*unsafe.Pointer)(unsafe.Pointer(&ch))
		Step(Op1("chan.close", AddrObj(p), KChClose))
		s.closedCh[p] = true
	}
	close(ch)
}

// Case is one communication clause of a select statement.
type Case struct {
	ptr   unsafe.Pointer
	kind  Kind
	ready func() bool
	do    func() (interface{}, bool) // performs the communication for real
	rch   reflect.Value
	rsend reflect.Value
}

// RecvCase describes `case ... <-ch`.
func RecvCase[T any](ch <-chan T) Case {
	p := *(*unsafe.Pointer)(unsafe.Pointer(&ch))
	return Case{ptr: p, kind: KChRecv,
		ready: func() bool { return len(ch) > 0 || s.closedCh[p] },
		do:    func() (interface{}, bool) { v, ok := <-ch; return v, ok },
		rch:   reflect.ValueOf(ch)}
}

// SendCase describes `case ch <- v`.
func SendCase[T any](ch chan<- T, v T) Case {
	p := *(*unsafe.Pointer)(unsafe.Pointer(&ch))
	return Case{ptr: p, kind: KChSend,
		ready: func() bool {
			if cap(ch) == 0 {
				panic("vsched: send on unbuffered channel is not modelled")
			}
			return len(ch) < cap(ch)
		},
		do:    func() (interface{}, bool) { ch <- v; return nil, true },
		rch:   reflect.ValueOf(ch),
		rsend: reflect.ValueOf(&v).Elem()}
}

// Selected is the outcome of Select: the index of the clause that ran (-1:
// default), and for a receive clause the value and ok flag.
type Selected struct {
	I  int
	V  interface{}
	OK bool
}

// RecvVal converts the value received by Select back to the channel's
// element type.
func RecvVal[T any](ch <-chan T, v interface{}) T {
	if v == nil {
		var z T
		return z
	}
	return v.(T)
}

// FreshCaches makes SelectCache behave as an always-empty / always-full
// cache (a legal behaviour of a best-effort object cache) without a
// scheduling point. It is the default; C18 switches it off.
var FreshCaches = true

// SelectCache is Select for best-effort object caches implemented as
// `select { case x := <-cache: ... default: ... }`.
func SelectCache(hasDefault bool, cases ...Case) Selected {
	if Active() && FreshCaches && hasDefault {
		return Selected{I: -1}
	}
	return Select(hasDefault, cases...)
}

// Select runs a select statement: it decides which clause runs and performs
// its communication. With several ready cases the choice is an explored data
// choice under the scheduler (and Go's own pseudo-random choice otherwise).
func Select(hasDefault bool, cases ...Case) Selected {
	if !s.running {
		// Free mode: a real select.
		rc := make([]reflect.SelectCase, 0, len(cases)+1)
		for _, c := range cases {
			if c.kind == KChRecv {
				rc = append(rc, reflect.SelectCase{Dir: reflect.SelectRecv, Chan: c.rch})
			} else {
				rc = append(rc, reflect.SelectCase{Dir: reflect.SelectSend, Chan: c.rch, Send: c.rsend})
			}
		}
		if hasDefault {
			rc = append(rc, reflect.SelectCase{Dir: reflect.SelectDefault})
		}
		i, v, ok := reflect.Select(rc)
		if hasDefault && i == len(cases) {
			return Selected{I: -1}
		}
		if cases[i].kind == KChRecv {
			if !ok {
				return Selected{I: i, V: nil, OK: false}
			}
			return Selected{I: i, V: v.Interface(), OK: true}
		}
		return Selected{I: i, OK: true}
	}
	if s.aborting {
		for i, c := range cases {
			if c.ready() {
				v, ok := c.do()
				return Selected{I: i, V: v, OK: ok}
			}
		}
		if hasDefault {
			return Selected{I: -1}
		}
		runtime.Goexit()
	}
	if len(cases) > 3 {
		panic("vsched: select with more than 3 cases")
	}
	op := Op{Label: "select"}
	for i, c := range cases {
		op.Acc[i] = Access{AddrObj(c.ptr), c.kind}
		op.N++
	}
	var ready func() bool
	if !hasDefault {
		ready = func() bool {
			for _, c := range cases {
				if c.ready() {
					return true
				}
			}
			return false
		}
	}
	StepWhen(op, ready)
	var idx [3]int
	n := 0
	for i, c := range cases {
		if c.ready() {
			idx[n] = i
			n++
		}
	}
	if n == 0 {
		if !hasDefault {
			panic("vsched: select scheduled with no ready case")
		}
		return Selected{I: -1}
	}
	i := idx[Choose(n, "select", true)]
	v, ok := cases[i].do()
	return Selected{I: i, V: v, OK: ok}
}

// Free reports whether no controlled execution is in progress.
func Free() bool { return !s.running }
