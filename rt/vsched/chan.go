package vsched

import (
	"fmt"
	"unsafe"
)

// Channel operations of the rewritten packages. The channels stay real Go
// channels; because only one thread runs at a time, readiness computed from
// len/cap and the closed-set is exact and the real operation performed right
// after the scheduling decision never blocks.

func chanPtr[T any](ch chan T) unsafe.Pointer { return *(*unsafe.Pointer)(unsafe.Pointer(&ch)) }

func recvReady[T any](ch <-chan T, p unsafe.Pointer) func() bool {
	return func() bool { return len(ch) > 0 || s.closedCh[p] }
}

func sendReady[T any](ch chan<- T, p unsafe.Pointer) func() bool {
	return func() bool {
		if cap(ch) == 0 {
			panic("vsched: send on unbuffered channel is not modelled")
		}
		return len(ch) < cap(ch) || s.closedCh[p]
	}
}

// Recv is `<-ch`.
func Recv[T any](ch <-chan T) T {
	if Active() {
		p := *(*unsafe.Pointer)(unsafe.Pointer(&ch))
		StepWhen(Op1("chan.recv", AddrObj(p), KChRecv), recvReady(ch, p))
	}
	if Unwinding() {
		var z T
		select {
		case v := <-ch:
			return v
		default:
			return z
		}
	}
	return <-ch
}

// Recv2 is `v, ok := <-ch`.
func Recv2[T any](ch <-chan T) (T, bool) {
	if Active() {
		p := *(*unsafe.Pointer)(unsafe.Pointer(&ch))
		StepWhen(Op1("chan.recv", AddrObj(p), KChRecv), recvReady(ch, p))
	}
	if Unwinding() {
		var z T
		select {
		case v, ok := <-ch:
			return v, ok
		default:
			return z, false
		}
	}
	v, ok := <-ch
	return v, ok
}

// Send is `ch <- v`.
func Send[T any](ch chan<- T, v T) {
	if Active() {
		p := *(*unsafe.Pointer)(unsafe.Pointer(&ch))
		StepWhen(Op1("chan.send", AddrObj(p), KChSend), sendReady(ch, p))
	}
	if Unwinding() {
		select {
		case ch <- v:
		default:
		}
		return
	}
	ch <- v
}

// Close is `close(ch)`.
func Close[T any](ch chan<- T) {
	if Active() {
		p := *(*unsafe.Pointer)(unsafe.Pointer(&ch))
		Step(Op1("chan.close", AddrObj(p), KChClose))
		s.closedCh[p] = true
	}
	close(ch)
}

// Case is one communication clause of a select statement.
type Case struct {
	ptr   unsafe.Pointer
	kind  Kind
	ready func() bool
}

// RecvCase describes `case ... <-ch`.
func RecvCase[T any](ch <-chan T) Case {
	p := *(*unsafe.Pointer)(unsafe.Pointer(&ch))
	return Case{ptr: p, kind: KChRecv, ready: func() bool { return len(ch) > 0 || s.closedCh[p] }}
}

// SendCase describes `case ch <- v`.
func SendCase[T any](ch chan<- T) Case {
	p := *(*unsafe.Pointer)(unsafe.Pointer(&ch))
	return Case{ptr: p, kind: KChSend, ready: func() bool {
		if cap(ch) == 0 {
			panic("vsched: send on unbuffered channel is not modelled")
		}
		return len(ch) < cap(ch)
	}}
}

// FreshCaches makes SelectCache behave as an always-empty / always-full
// cache (a legal behaviour of a best-effort object cache) without a
// scheduling point. It is the default; C18 switches it off.
var FreshCaches = true

// SelectCache is Select for best-effort object caches implemented as
// `select { case x := <-cache: ... default: ... }`.
func SelectCache(hasDefault bool, cases ...Case) int {
	if Active() && FreshCaches && hasDefault {
		return -1
	}
	return Select(hasDefault, cases...)
}

// Select decides which clause of a select statement runs: the index of a
// ready case, or -1 for default. With several ready cases the choice is an
// explored data choice. The caller performs the real channel operation of
// the chosen clause immediately afterwards.
func Select(hasDefault bool, cases ...Case) int {
	if !s.running {
		panic("vsched: Select called in free mode (the rewriter keeps the original select there)")
	}
	if s.aborting {
		for i, c := range cases {
			if c.ready() {
				return i
			}
		}
		if hasDefault {
			return -1
		}
		// Nothing is ready while unwinding: the caller's real operation would
		// block. Stop this goroutine here instead.
		panic("vsched: select with nothing ready during unwinding")
	}
	if len(cases) > 3 {
		panic("vsched: select with more than 3 cases")
	}
	op := Op{Label: "select"}
	for i, c := range cases {
		op.Acc[i] = Access{AddrObj(c.ptr), c.kind}
		op.N++
	}
	var ready func() bool
	if !hasDefault {
		ready = func() bool {
			for _, c := range cases {
				if c.ready() {
					return true
				}
			}
			return false
		}
	}
	StepWhen(op, ready)
	var idx [3]int
	n := 0
	for i, c := range cases {
		if c.ready() {
			idx[n] = i
			n++
		}
	}
	if n == 0 {
		if !hasDefault {
			panic(fmt.Sprintf("vsched: select scheduled with no ready case"))
		}
		return -1
	}
	return idx[Choose(n, "select", true)]
}

// Free reports whether no controlled execution is in progress; rewritten
// select statements keep their original form on that path.
func Free() bool { return !s.running }
