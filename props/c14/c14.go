// Package c14 checks: Rflush only after the flushed request has stopped
// executing (DESIGN.md §4 C14).
package c14

import (
	"fmt"
	"strings"
	"time"

	"verif/harness/fw"
	"verif/harness/memfs"
	"verif/harness/oracle"
	"verif/harness/rawpeer"
	"verif/harness/refcodec"
	"verif/harness/sess"
	"verif/rt/vsched"
)

func init() {
	fw.Register(&fw.Prop{ID: "C14", Run: run, Sharded: true, QuickSecs: 50, ThoroughSecs: 900})
}

type params struct {
	Kind     string `json:"kind"`
	Request  string `json:"request,omitempty"`
	GateCall int    `json:"gate_call,omitempty"` // which backend call of R is gated (1-based)
	Flushes  int    `json:"flushes,omitempty"`
	Chained  bool   `json:"chained,omitempty"` // second flush names the first flush
	Tag      uint16 `json:"tag,omitempty"`     // tag of the flushed request (default 10); 0xffff = NOTAG used as an ordinary tag
	Then     string `json:"then,omitempty"`    // "idle" | "own": a further flush that must be answered while R is still held
	Other    bool   `json:"other_traffic,omitempty"`
	// Recycled: the process-wide message cache really recycles objects (by
	// default every message object is fresh), and a flush naming its own tag
	// has been served before, so the Tflush objects used later are recycled ones.
	Recycled bool `json:"recycled_after_self_flush,omitempty"`
}

func mkfs() *memfs.FS {
	fs := memfs.New()
	fs.AddFile("d/x", []byte("hello world"))
	fs.AddFile("f", []byte("0123456789"))
	fs.MkdirP("e")
	return fs
}

// simple: flushes that must be answered at once.
func simple(kind string) *fw.Scenario {
	p := params{Kind: kind}
	return &fw.Scenario{Name: "flush-" + kind, Params: p, New: func() (func(), func(*vsched.Execution) ([]fw.Issue, string)) {
		var s *sess.Sess
		var sent []refcodec.Msg
		body := func() {
			fs := mkfs()
			s = sess.Connect(fs, sess.NewServer(fs), "c")
			s.Version(8192)
			s.Attach(1)
			vsched.BeginExplore()
			switch kind {
			case "own":
				m := rawpeer.Tflush(5, 5)
				sent = append(sent, m)
				s.Peer.Send(m)
				s.Peer.Recv()
			case "idle":
				m := rawpeer.Tflush(5, 9)
				sent = append(sent, m)
				s.Peer.Send(m)
				s.Peer.Recv()
			case "answered":
				m := rawpeer.Tgetattr(3, 1)
				sent = append(sent, m)
				s.Peer.Send(m)
				s.Peer.Recv()
				m2 := rawpeer.Tflush(5, 3)
				sent = append(sent, m2)
				s.Peer.Send(m2)
				s.Peer.Recv()
			}
			vsched.EndExplore()
			s.Hangup()
		}
		check := func(e *vsched.Execution) ([]fw.Issue, string) {
			var is []fw.Issue
			if e.End == vsched.EndDeadlock {
				is = append(is, fw.Issue{Fingerprint: "flush-" + kind + "-never-answered",
					Summary: fmt.Sprintf("Tflush naming %s tag is never answered (server blocked: %s)", kind, e.Blocked)})
				return is, "deadlock"
			}
			frames, rest, probs := oracle.ParseStream(s.SC.W)
			for _, p := range probs {
				is = append(is, fw.Issue{Fingerprint: "stream|" + p, Summary: p})
			}
			for _, p := range oracle.ReplyIssues(sent, frames[2:], rest, nil) {
				is = append(is, fw.Issue{Fingerprint: "reply|" + kind + "|" + strip(p), Summary: p})
			}
			return is, outcomeOf(frames)
		}
		return body, check
	}, DeadlockOK: true}
}

func strip(s string) string {
	// keep fingerprints free of run-specific numbers where possible
	return s
}

func outcomeOf(frames []oracle.Frame) string {
	var parts []string
	for _, f := range frames {
		parts = append(parts, fmt.Sprintf("%s/%d", f.Msg.Name(), f.Msg.Tag))
	}
	return strings.Join(parts, " ")
}

// gated: request R is held inside one of its backend calls while flushes
// arrive; a separate thread releases the gate at any time.
func gated(p params) *fw.Scenario {
	name := fmt.Sprintf("gated-%s-call%d-flushes%d", p.Request, p.GateCall, p.Flushes)
	if p.Tag != 0 {
		name += fmt.Sprintf("-tag%d", p.Tag)
	}
	if p.Then != "" {
		name += "-then-" + p.Then
	}
	if p.Chained {
		name += "-chained"
	}
	if p.Other {
		name += "-other"
	}
	if p.Recycled {
		name += "-recycled-after-self-flush"
	}
	return &fw.Scenario{Name: name, Params: p, New: func() (func(), func(*vsched.Execution) ([]fw.Issue, string)) {
		var s *sess.Sess
		var fs *memfs.FS
		var sent []refcodec.Msg
		gate := &memfs.Gate{}
		rTag := uint16(10)
		if p.Tag != 0 {
			rTag = p.Tag
		}
		var rMethods map[string]bool
		base, gateThread, otherHandle, setupFrames := 0, -1, -2, 0
		rHandle := -1 // >= 0: R's backend calls are the rMethods calls on THIS handle, whichever thread makes them and whenever
		body := func() {
			fs = mkfs()
			if p.Recycled {
				vsched.FreshCaches = false
				defer func() { vsched.FreshCaches = true }()
			}
			s = sess.Connect(fs, sess.NewServer(fs), "c")
			s.Version(8192)
			s.Attach(1)
			if p.Recycled {
				s.OK(rawpeer.Tflush(3, 3))
				s.OK(rawpeer.Tflush(4, 4))
			}
			var R refcodec.Msg
			switch p.Request {
			case "read":
				s.Walk(1, 2, "f")
				s.Open(2, 0)
				R = rawpeer.Tread(rTag, 2, 0, 5)
				rMethods = map[string]bool{"ReadAt": true}
			case "write":
				s.Walk(1, 2, "f")
				s.Open(2, 1)
				R = rawpeer.Twrite(rTag, 2, 0, []byte("abc"))
				rMethods = map[string]bool{"WriteAt": true}
			case "walk2":
				R = rawpeer.Twalk(rTag, 1, 3, "d", "x")
				rMethods = map[string]bool{"Walk": true, "WalkGetAttr": true, "GetAttr": true}
			case "walk-onto-bound":
				// R re-binds fid 2: the File it displaces is closed on R's behalf
				s.Walk(1, 2, "f")
				rHandle = len(fs.Handles) - 1
				R = rawpeer.Twalk(rTag, 1, 2, "d")
				rMethods = map[string]bool{"Close": true}
			case "renameat":
				s.Walk(1, 2, "d")
				s.Walk(1, 3, "e")
				s.Walk(2, 4, "x") // a live child so that Renamed is called
				R = rawpeer.Trenameat(rTag, 2, "x", 3, "y")
				rMethods = map[string]bool{"RenameAt": true, "Renamed": true}
			}
			otherHandle = -2
			if p.Other {
				s.Walk(1, 7, "e")
				otherHandle = len(fs.Handles) - 1 // the unrelated request's File: its calls are not R's
			}
			seen := 0
			base = len(fs.Calls)
			fs.Hook = func(c *memfs.Call) *memfs.Action {
				if c.Seq < base || !rMethods[c.Method] || c.Handle == otherHandle || (rHandle >= 0 && c.Handle != rHandle) {
					return nil
				}
				seen++
				if seen == p.GateCall {
					gateThread = c.Thread
					return &memfs.Action{Gate: gate}
				}
				return nil
			}
			setupFrames = len(s.Peer.Received)
			vsched.BeginExplore()
			if p.Then != "" {
				// The gate is opened by the peer only after the further flush
				// (idle / own tag) has been answered: it must be answered "at
				// once", i.e. while R is still held (deadlock otherwise).
				thenMsg := rawpeer.Tflush(14, 999)
				if p.Then == "own" {
					thenMsg = rawpeer.Tflush(14, 14)
				}
				msgs := []refcodec.Msg{R}
				for i := 0; i < p.Flushes; i++ {
					msgs = append(msgs, rawpeer.Tflush(uint16(20+i), rTag))
				}
				msgs = append(msgs, thenMsg)
				sent = msgs
				s.Peer.SendAll(msgs...)
				for {
					r, err := s.Peer.Recv()
					if err != nil || r.Tag == 14 {
						break
					}
				}
				gate.Open()
				for i := 0; i < len(msgs)-1; i++ {
					if _, err := s.Peer.Recv(); err != nil {
						break
					}
				}
				vsched.EndExplore()
				s.Hangup()
				return
			}
			// releaser
			vsched.GoNamed("releaser", func() { gate.Open() })
			msgs := []refcodec.Msg{R, rawpeer.Tflush(11, rTag)}
			if p.Flushes == 2 {
				if p.Chained {
					msgs = append(msgs, rawpeer.Tflush(12, 11))
				} else {
					msgs = append(msgs, rawpeer.Tflush(12, rTag))
				}
			}
			if p.Other {
				msgs = append(msgs, rawpeer.Tgetattr(13, 7))
			}
			sent = msgs
			s.Peer.SendAll(msgs...)
			for range msgs {
				if _, err := s.Peer.Recv(); err != nil {
					break
				}
			}
			vsched.EndExplore()
			s.Hangup()
		}
		check := func(e *vsched.Execution) ([]fw.Issue, string) {
			var is []fw.Issue
			frames, rest, probs := oracle.ParseStream(s.SC.W)
			for _, pr := range probs {
				is = append(is, fw.Issue{Fingerprint: "stream|" + pr, Summary: pr})
			}
			setup := setupFrames
			if setup > len(frames) {
				setup = len(frames)
			}
			win := frames[setup:]
			if e.End == vsched.EndComplete {
				for _, pr := range oracle.ReplyIssues(sent, win, rest, nil) {
					is = append(is, fw.Issue{Fingerprint: "reply|" + p.Request + "|" + pr, Summary: pr})
				}
			}
			// R's backend calls: calls of R's methods made by the thread that
			// reached the gate, before that thread wrote R's reply.
			var rReply *oracle.Frame
			for i := range win {
				if win[i].Msg.Tag == rTag {
					rReply = &win[i]
				}
			}
			var rcalls []*memfs.Call
			for _, c := range fs.Calls {
				if rHandle >= 0 {
					if c.Seq >= base && rMethods[c.Method] && c.Handle == rHandle {
						rcalls = append(rcalls, c)
					}
					continue
				}
				if c.Seq < base || !rMethods[c.Method] || c.Thread != gateThread || c.Handle == otherHandle {
					continue
				}
				if rReply != nil && !vsched.HB(&c.Enter, &rReply.First) {
					continue
				}
				rcalls = append(rcalls, c)
			}
			for i := range win {
				f := &win[i]
				if f.Msg.Type != refcodec.Rflush {
					continue
				}
				// Which tag did this flush name?
				var old uint16
				for _, m := range sent {
					if m.Type == refcodec.Tflush && m.Tag == f.Msg.Tag {
						old = uint16(m.U("oldtag"))
					}
				}
				if old != rTag || len(rcalls) == 0 {
					continue
				}
				if vsched.HB(&f.First, &rcalls[0].Enter) {
					// Rflush happens-before R's first backend call: some backend
					// call on R's behalf starts after the Rflush was sent.
					c := rcalls[0]
					is = append(is, fw.Issue{
						Fingerprint: fmt.Sprintf("backend-call-starts-after-rflush|%s", p.Request),
						Summary:     fmt.Sprintf("Rflush for tag %d was sent and afterwards %s's backend call %s started", rTag, p.Request, c.Method)})
					continue
				}
				started := vsched.HB(&rcalls[0].Enter, &f.First)
				for _, c := range rcalls {
					if !c.Done || !vsched.HB(&c.Exit, &f.First) {
						fp, what := "rflush-overtakes-request-being-started", "is not ordered with the start of"
						if started {
							fp, what = "rflush-while-request-executing", "was sent after the start but not after the end of"
						}
						is = append(is, fw.Issue{
							Fingerprint: fmt.Sprintf("%s|%s|%s", fp, p.Request, c.Method),
							Summary:     fmt.Sprintf("Rflush for tag %d %s %s's backend call %s: the request can be executing when the Rflush is sent", rTag, what, p.Request, c.Method),
							Detail:      []string{fmt.Sprintf("in the explored schedule: Rflush write at step %d by T%d; call entered at step %d, done=%v exit step %d, thread T%d", f.First.Step, f.Thread, c.Enter.Step, c.Done, c.Exit.Step, c.Thread)}})
					}
				}
			}
			var names []string
			for _, f := range win {
				names = append(names, fmt.Sprintf("%s/%d", f.Msg.Name(), f.Msg.Tag))
			}
			return is, strings.Join(names, " ")
		}
		return body, check
	}}
}

func run(ctx *fw.Ctx, rep *fw.Report) {
	rep.Rule = "one scenario = a closed program (requests, flushes, gate release) run on the real server under the controlled scheduler; every Mazurkiewicz trace is explored (DPOR+sleep sets) or, as fallback, every schedule up to a preemption bound; distinct = distinct reply orders per scenario"
	rep.Assumptions = append(rep.Assumptions, "independence classes of DESIGN §2.2", "sync.Pool in fresh mode; message cache treated as empty except in the scenarios named recycled-after-self-flush, which use the real cache", "setup requests before the explored window follow the default schedule")
	var scs []*fw.Scenario
	for _, k := range []string{"own", "idle", "answered"} {
		scs = append(scs, simple(k))
	}
	reqs := []struct {
		r     string
		calls int
	}{{"read", 1}, {"write", 1}, {"walk2", 2}, {"renameat", 2}}
	// NOTAG used as an ordinary tag by the flushed request
	scs = append(scs, gated(params{Request: "walk-onto-bound", GateCall: 1, Flushes: 1}), gated(params{Request: "walk-onto-bound", GateCall: 1, Flushes: 2}))
	scs = append(scs, gated(params{Request: "read", GateCall: 1, Flushes: 1, Recycled: true}), gated(params{Request: "walk2", GateCall: 2, Flushes: 2, Recycled: true}))
	scs = append(scs, gated(params{Request: "read", GateCall: 1, Flushes: 1, Tag: 0xffff}), gated(params{Request: "walk2", GateCall: 2, Flushes: 1, Tag: 0xffff}))
	// flushes of an idle / the own tag while another request is held and being flushed
	for _, then := range []string{"idle", "own"} {
		scs = append(scs, gated(params{Request: "read", GateCall: 1, Flushes: 1, Then: then}))
		if !ctx.Quick() {
			scs = append(scs, gated(params{Request: "read", GateCall: 1, Flushes: 2, Then: then}), gated(params{Request: "walk2", GateCall: 2, Flushes: 1, Then: then}))
		}
	}
	for _, r := range reqs {
		for g := 1; g <= r.calls; g++ {
			scs = append(scs, gated(params{Request: r.r, GateCall: g, Flushes: 1}))
			if !ctx.Quick() || r.r == "read" {
				scs = append(scs, gated(params{Request: r.r, GateCall: g, Flushes: 2}))
				scs = append(scs, gated(params{Request: r.r, GateCall: g, Flushes: 2, Chained: true}))
			}
			if !ctx.Quick() {
				scs = append(scs, gated(params{Request: r.r, GateCall: g, Flushes: 1, Other: true}))
			}
		}
	}
	budget := 40 * time.Second
	if !ctx.Quick() {
		budget = 10 * time.Minute
	}
	for i, sc := range scs {
		if !ctx.Mine(i) {
			continue
		}
		fw.RunScenario(ctx, rep, sc, fw.SchedOpts{Budget: budget, ForcePB: -1, Fallback: []int{0, 1}, Deviations: -1})
	}
}
