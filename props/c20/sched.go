package c20

import (
	"fmt"
	"sort"
	"strings"
	"time"

	"github.com/hugelgupf/p9/fsimpl/composefs"
	"github.com/hugelgupf/p9/fsimpl/localfs"
	"github.com/hugelgupf/p9/fsimpl/qids"
	"github.com/hugelgupf/p9/fsimpl/staticfs"
	"github.com/hugelgupf/p9/p9"
	"verif/harness/fw"
	"verif/harness/rawpeer"
	"verif/harness/refcodec"
	"verif/harness/vpipe"
	"verif/rt/vsched"
	"verif/rt/vsync"
)

// Part (c) of DESIGN §4 C20: concurrent QID lookups. 2-3 threads resolve the
// same fresh / distinct fresh / already known keys through localfs's
// localToQid, through qids.Mapper.QIDFor directly, and as concurrent
// Twalk/Tgetattr requests on a composefs server. All interleavings (DPOR).
// Oracle: same key => same path for every thread, forever; distinct keys =>
// distinct paths; no happens-before race on the mapper's table; no panic.

func init() { ExtraParts = append(ExtraParts, runSchedules) }

type lookupParams struct {
	What    string     `json:"what"`
	Threads [][]uint64 `json:"threads"` // keys looked up by each thread, in order
}

func keyStr(p lookupParams) string {
	var parts []string
	for _, t := range p.Threads {
		parts = append(parts, strings.Trim(fmt.Sprint(t), "[]"))
	}
	return p.What + "|" + strings.Join(parts, " || ")
}

// unlikely (dev, ino) keys: inode >= 2^39 forces the fallback table.
func unlikelyIno(k uint64) uint64 { return 1<<39 + k }

func lookupScenario(p lookupParams) *fw.Scenario {
	return &fw.Scenario{Name: keyStr(p), Params: p, New: func() (func(), func(*vsched.Execution) ([]fw.Issue, string)) {
		type obs struct {
			key  uint64
			path uint64
		}
		var all [][]obs
		body := func() {
			all = make([][]obs, len(p.Threads)+1)
			var lookup func(k uint64) uint64
			switch p.What {
			case "localfs-localToQid":
				lookup = func(k uint64) uint64 {
					q, err := localfs.VerifLocalToQid(0, unlikelyIno(k))
					if err != nil {
						panic(err)
					}
					return q
				}
			case "qids-Mapper":
				m := qids.NewMapper(&qids.PathGenerator{})
				lookup = func(k uint64) uint64 { return m.QIDFor(p9.QID{Path: k}).Path }
			}
			// key 0 is "known": resolved before the concurrent phase
			all[len(p.Threads)] = append(all[len(p.Threads)], obs{0, lookup(0)})
			var wg vsync.WaitGroup
			wg.Add(len(p.Threads))
			vsched.BeginExplore()
			for ti, keys := range p.Threads {
				ti, keys := ti, keys
				vsched.GoNamed(fmt.Sprintf("t%d", ti), func() {
					defer wg.Done()
					for _, k := range keys {
						all[ti] = append(all[ti], obs{k, lookup(k)})
					}
				})
			}
			wg.Wait()
			vsched.EndExplore()
			// and once more afterwards: the mapping must be "for good"
			for _, keys := range p.Threads {
				for _, k := range keys {
					all[len(p.Threads)] = append(all[len(p.Threads)], obs{k, lookup(k)})
				}
			}
			// ... and keys that are new AFTER the concurrent phase must not be
			// given a path that one of the earlier keys owns
			for _, k := range []uint64{98, 99} {
				all[len(p.Threads)] = append(all[len(p.Threads)], obs{k, lookup(k)})
			}
		}
		check := func(e *vsched.Execution) ([]fw.Issue, string) {
			var is []fw.Issue
			pathOf := map[uint64]uint64{}
			keyOf := map[uint64]uint64{}
			var out []string
			for _, os := range all {
				for _, o := range os {
					out = append(out, fmt.Sprintf("%d>%x", o.key, o.path))
					if prev, ok := pathOf[o.key]; ok && prev != o.path {
						is = append(is, fw.Issue{Fingerprint: p.What + "|same-key-two-paths", Summary: fmt.Sprintf("%s: key %d was given path %#x and path %#x (concurrent first lookups of one key must agree, and stay)", p.What, o.key, prev, o.path)})
					}
					pathOf[o.key] = o.path
					if prev, ok := keyOf[o.path]; ok && prev != o.key {
						is = append(is, fw.Issue{Fingerprint: p.What + "|two-keys-one-path", Summary: fmt.Sprintf("%s: keys %d and %d were both given path %#x", p.What, prev, o.key, o.path)})
					}
					keyOf[o.path] = o.key
				}
			}
			sort.Strings(out)
			return is, strings.Join(out, " ")
		}
		return body, check
	}}
}

// composefsScenario: two connections to one composefs server; each sends one
// request that makes the server resolve QIDs of the same / different files.
func composefsScenario(reqA, reqB string) *fw.Scenario {
	name := "composefs|" + reqA + "||" + reqB
	return &fw.Scenario{Name: name, Params: map[string]string{"a": reqA, "b": reqB}, New: func() (func(), func(*vsched.Execution) ([]fw.Issue, string)) {
		type view struct {
			name string
			path uint64
		}
		var seen []view
		var bad []string
		body := func() {
			seen, bad = nil, nil
			sfs, err := staticfs.New(staticfs.WithFile("x", "xx"), staticfs.WithFile("y", "yy"))
			if err != nil {
				panic(err)
			}
			cfs, err := composefs.New(composefs.WithMount("m", sfs), composefs.WithFile("f", staticfs.ReadOnlyFile("ff")), composefs.WithFile("g", staticfs.ReadOnlyFile("gg")))
			if err != nil {
				panic(err)
			}
			srv := p9.NewServer(cfs)
			var wgH vsync.WaitGroup
			mk := func(nm string) *rawpeer.Peer {
				cc, sc := vpipe.NewConnPair(nm)
				wgH.Add(1)
				vsched.GoNamed("handle:"+nm, func() { defer wgH.Done(); srv.Handle(sc, sc) })
				p := rawpeer.New(cc)
				p.Must(rawpeer.Tversion(rawpeer.NoTag, 8192, "9P2000.L"))
				vsched.Quiesce()
				p.Must(rawpeer.Tattach(1, 1, ""))
				vsched.Quiesce()
				return p
			}
			pa, pb := mk("ca"), mk("cb")
			build := func(r string, tag uint16) (refcodec.Msg, string) {
				switch r {
				case "walk-f":
					return rawpeer.Twalk(tag, 1, 5, "f"), "f"
				case "walk-g":
					return rawpeer.Twalk(tag, 1, 5, "g"), "g"
				case "walk-m-x":
					return rawpeer.Twalk(tag, 1, 5, "m", "x"), "m/x"
				case "walk-m-y":
					return rawpeer.Twalk(tag, 1, 5, "m", "y"), "m/y"
				}
				panic(r)
			}
			ma, na := build(reqA, 10)
			mb, nb := build(reqB, 11)
			var wg vsync.WaitGroup
			wg.Add(2)
			record := func(nm string, r refcodec.Msg, err error) {
				if err != nil || r.Type != refcodec.Rwalk {
					bad = append(bad, fmt.Sprintf("%s: %v %v", nm, r, err))
					return
				}
				qs := r.Get("wqids").([]refcodec.QID)
				seen = append(seen, view{nm, qs[len(qs)-1].Path})
			}
			vsched.BeginExplore()
			vsched.GoNamed("a", func() { defer wg.Done(); r, err := pa.RPC(ma); record(na, r, err) })
			vsched.GoNamed("b", func() { defer wg.Done(); r, err := pb.RPC(mb); record(nb, r, err) })
			wg.Wait()
			vsched.EndExplore()
			// later lookups must agree with what was handed out
			r, err := pa.RPC(rawpeer.Twalk(20, 1, 6, strings.Split(na, "/")...))
			record(na, r, err)
			r, err = pa.RPC(rawpeer.Twalk(21, 1, 7, strings.Split(nb, "/")...))
			record(nb, r, err)
			pa.C.Close()
			pb.C.Close()
			wgH.Wait()
		}
		check := func(e *vsched.Execution) ([]fw.Issue, string) {
			var is []fw.Issue
			for _, b := range bad {
				is = append(is, fw.Issue{Fingerprint: "composefs|request-failed", Summary: "composefs request failed: " + b})
			}
			pathOf := map[string]uint64{}
			nameOf := map[uint64]string{}
			var out []string
			for _, v := range seen {
				out = append(out, fmt.Sprintf("%s>%d", v.name, v.path))
				if p0, ok := pathOf[v.name]; ok && p0 != v.path {
					is = append(is, fw.Issue{Fingerprint: "composefs|same-file-two-qid-paths", Summary: fmt.Sprintf("composefs: file %s was reported with qid.path %d and %d", v.name, p0, v.path)})
				}
				pathOf[v.name] = v.path
				if n0, ok := nameOf[v.path]; ok && n0 != v.name {
					is = append(is, fw.Issue{Fingerprint: "composefs|two-files-one-qid-path", Summary: fmt.Sprintf("composefs: files %s and %s were both reported with qid.path %d", n0, v.name, v.path)})
				}
				nameOf[v.path] = v.name
			}
			sort.Strings(out)
			return is, strings.Join(out, " ")
		}
		return body, check
	}}
}

func runSchedules(ctx *fw.Ctx, rep *fw.Report) {
	addRule(rep, "(c) schedules: 2-3 threads resolving the same fresh / distinct fresh / known keys through localfs localToQid (fallback table) and qids.Mapper.QIDFor, and two connections walking to the same / different files of a composefs server; every Mazurkiewicz trace (DPOR+sleep sets; table accesses are visible operations); oracle: same key => one path for all threads and afterwards, distinct keys => distinct paths (including two keys that are new only after the concurrent phase), no happens-before race on the mapper's map, no panic")
	var scs []*fw.Scenario
	shapes := [][][]uint64{
		{{1}, {1}}, {{1}, {2}}, {{0}, {1}}, {{1, 2}, {2, 1}}, {{1, 1}, {1}},
		{{1}, {2}, {1}}, // two first lookups of one key with a first lookup of another key in between
	}
	if !ctx.Quick() {
		shapes = append(shapes, [][]uint64{{1}, {1}, {1}}, [][]uint64{{1, 2}, {2}, {1}})
	}
	for _, what := range []string{"localfs-localToQid", "qids-Mapper"} {
		for _, sh := range shapes {
			scs = append(scs, lookupScenario(lookupParams{what, sh}))
		}
	}
	reqs := []string{"walk-f", "walk-g", "walk-m-x", "walk-m-y"}
	for _, a := range reqs {
		for _, b := range reqs {
			if ctx.Quick() && a > b {
				continue
			}
			scs = append(scs, composefsScenario(a, b))
		}
	}
	for i, sc := range scs {
		if !wants(ctx, sc.Name) {
			continue
		}
		if ctx.Replay == nil && !ctx.Mine(i) {
			continue
		}
		fw.RunScenario(ctx, rep, sc, fw.SchedOpts{Budget: 40 * time.Second, ForcePB: -1, Fallback: []int{0, 1}, Deviations: -1})
	}
}
