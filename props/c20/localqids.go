package c20

import (
	"encoding/json"
	"fmt"
	"math/bits"
	"sort"

	"github.com/hugelgupf/p9/fsimpl/localfs"
	"verif/harness/fw"
)

// Part (b): localfs (dev, ino) -> qid.path.
//
// Property text: "localfs maps every (device, inode) pair - including those
// outside its compact encoding - to one stable path and distinct pairs to
// distinct paths".
//
// The mapping is reached through the injected export localfs.VerifLocalToQid,
// which feeds arbitrary numbers to the real localToQid.
//
// # Enumerated space
//
// dev alphabet  = every 64-bit value with at most two bits set (2081 values)
//   - makedev(major, minor) for majors/minors at and around the
//     12-bit major limit, the 8-, 12- and 20-bit minor limits
//   - values with upper (>= 32) device bits set;
//
// ino alphabet  = every 64-bit value with at most two bits set
//   - values at and around 2^32, 2^39, 2^40, 2^63, 2^64-1.
//
// Cases         = the full product dev x ino (about 4.5 million pairs).
//
// # Sharding and why injectivity is still established for the whole product
//
// Work is split over the worker processes by dev value: a worker owns every
// pair of the dev values whose index is congruent to its shard number. A
// worker checks, for the pairs it owns,
//
//	(S1) stability at once:   two consecutive lookups give the same path;
//	(S2) stability later on:  after ALL owned pairs were mapped (hundreds of
//	     thousands of other pairs in between), a third lookup still gives
//	     the first path;
//	(I1) injectivity inside the shard: a table path -> pair over every path
//	     ever returned (first, second and third lookups) never sees one path
//	     for two different pairs.
//
// That leaves collisions between pairs owned by DIFFERENT workers. Classify
// every observed path by its top bit: class L (bit 63 clear: "compact
// encoding") and class F (bit 63 set: "fallback table").
//
//   - L against F can never collide, in whatever process they were computed:
//     they differ in bit 63. (Inside a shard (I1) covers the pair anyway.)
//   - L against L across shards: every worker first determines, black box,
//     the candidate sets Ldev = {dev : path(dev, 0) in class L} and
//     Lino = {ino : path(0, ino) in class L}, and verifies for every pair it
//     owns that a class-L path only ever occurs for a pair inside
//     Ldev x Lino (if that ever fails the report says "not exhaustive";
//     it is not a violation, the text does not demand a product shape).
//     Hence the whole class L of the whole product lies inside Ldev x Lino,
//     which is small (~0.25 M pairs), and shard 0 additionally maps this
//     COMPLETE candidate product in ONE process and checks injectivity over
//     it directly (I2). So class-L injectivity holds for all 4.5 M pairs
//     without assuming anything about the layout of the encoding.
//   - F against F across shards: class-F paths are allocated from process
//     state (a counter), so numbers taken from two different worker
//     processes are not comparable and a single process would not hand them
//     out that way. What a worker can and does check is (I1) over all the
//     class-F paths allocated in its own process, from a fresh table. The
//     residual assumption — whether the allocator hands out a fresh number
//     does not depend on WHICH foreign pairs were mapped before — is listed
//     in the report's assumptions.
const scenarioLocalQids = "localqids"

// Independent statement of glibc's makedev (sys/sysmacros.h).
func mkdev(major, minor uint64) uint64 {
	return (major&0xfff)<<8 | (major&0xfffff000)<<32 | (minor & 0xff) | (minor&0xffffff00)<<12
}

func atMostTwoBits() []uint64 {
	out := []uint64{0}
	for i := 0; i < 64; i++ {
		out = append(out, 1<<uint(i))
		for j := i + 1; j < 64; j++ {
			out = append(out, 1<<uint(i)|1<<uint(j))
		}
	}
	return out
}

func uniqSorted(v []uint64) []uint64 {
	sort.Slice(v, func(i, j int) bool { return v[i] < v[j] })
	out := v[:0]
	for i, x := range v {
		if i == 0 || x != v[i-1] {
			out = append(out, x)
		}
	}
	return out
}

func devAlphabet() (all []uint64, nBoundary int) {
	var b []uint64
	majors := []uint64{0, 1, 0xffe, 0xfff, 0x1000, 0x1001, 0xffffffff}
	minors := []uint64{0, 1, 0xff, 0x100, 0xffe, 0xfff, 0x1000, 0x1001, 0xfffff, 0x100000, 0xffffffff}
	for _, ma := range majors {
		for _, mi := range minors {
			b = append(b, mkdev(ma, mi))
		}
	}
	b = append(b, 1<<32-1, 1<<32, 1<<32+1, 0xffffffff00000000, 0xffffffff00000801, 1<<63-1, 1<<63, 1<<63+1, ^uint64(0), ^uint64(0)-1,
		0x00000001000fff00|0xfff00000|0xff /* upper bit + all likely bits */, 0x00ffffff /* every likely bit */, 0x01ffffff)
	b = uniqSorted(b)
	return uniqSorted(append(atMostTwoBits(), b...)), len(b)
}

func inoAlphabet() (all []uint64, nBoundary int) {
	b := []uint64{0, 1, 2, 1<<32 - 1, 1 << 32, 1<<32 + 1, 1<<39 - 2, 1<<39 - 1, 1 << 39, 1<<39 + 1, 1<<40 - 1, 1 << 40, 1<<40 + 1,
		1<<63 - 1, 1 << 63, 1<<63 + 1, ^uint64(0) - 1, ^uint64(0)}
	b = uniqSorted(b)
	return uniqSorted(append(atMostTwoBits(), b...)), len(b)
}

type qidCase struct {
	Kind     string `json:"kind"` // stability | injectivity | error
	Dev      uint64 `json:"dev"`
	Ino      uint64 `json:"ino"`
	OtherDev uint64 `json:"other_dev,omitempty"`
	OtherIno uint64 `json:"other_ino,omitempty"`
	Between  int    `json:"lookups_of_other_pairs_in_between,omitempty"`
}

const topBit = uint64(1) << 63

func cls(paths ...uint64) string {
	for _, p := range paths {
		if p&topBit != 0 {
			return "unlikely"
		}
	}
	return "likely"
}

func pairStr(d, i uint64) string { return fmt.Sprintf("(dev=%#x, ino=%#x)", d, i) }

const demand = "property: localfs maps every (device, inode) pair - including those outside its compact encoding - to one stable path and distinct pairs to distinct paths"

func runLocalQids(ctx *fw.Ctx, rep *fw.Report) {
	if !wants(ctx, scenarioLocalQids) {
		return
	}
	if ctx.Replay != nil {
		replayLocalQids(ctx, rep)
		return
	}
	devs, nDevB := devAlphabet()
	inos, nInoB := inoAlphabet()
	addRule(rep, fmt.Sprintf("(b) localfs qid path: full product of %d dev values x %d ino values (every 64-bit value with <=2 bits set = 2081, plus %d dev and %d ino encoding-boundary values: makedev of majors {0,1,0xffe,0xfff,0x1000,0x1001,2^32-1} x minors {0,1,0xff,0x100,0xffe,0xfff,0x1000,0x1001,0xfffff,0x100000,2^32-1}, upper dev bits, inodes around 2^32/2^39/2^40/2^63/2^64-1); each pair looked up twice in a row and once more after all pairs of the shard; sharded by dev value, class-L candidate product additionally mapped completely in one process (see comment in props/c20/localqids.go)",
		len(devs), len(inos), nDevB, nInoB))
	rep.Assumptions = append(rep.Assumptions, "C20(b): class-F (fallback table) paths from different worker processes are not comparable; injectivity of the fallback allocator is checked per process over all pairs of the shard, assuming it does not depend on which other pairs were mapped before")
	rep.Info["localqids_dev_values"] = len(devs)
	rep.Info["localqids_ino_values"] = len(inos)

	localfs.VerifResetQids()
	calls := int64(0)
	lookup := func(d, i uint64) (uint64, bool) {
		calls++
		q, err := localfs.VerifLocalToQid(d, i)
		if err != nil {
			if !rep.Seen("localfs-qid-mapping-error") {
				rep.Violate(&fw.Violation{Fingerprint: "localfs-qid-mapping-error", Scenario: scenarioLocalQids,
					Summary: fmt.Sprintf("localToQid%s returned error %v instead of a path", pairStr(d, i), err),
					Params:  fw.JSON(qidCase{Kind: "error", Dev: d, Ino: i}), Detail: []string{demand}})
			}
			return 0, false
		}
		return q, true
	}

	// Phase 0 (every worker): black-box candidate sets for class L.
	ldev := make([]bool, len(devs))
	lino := make([]bool, len(inos))
	nLdev, nLino := 0, 0
	for di, d := range devs {
		if q, ok := lookup(d, 0); ok && q&topBit == 0 {
			ldev[di] = true
			nLdev++
		}
	}
	for ii, i := range inos {
		if q, ok := lookup(0, i); ok && q&topBit == 0 {
			lino[ii] = true
			nLino++
		}
	}
	rep.Info["localqids_class_L_candidate_devs"] = nLdev
	rep.Info["localqids_class_L_candidate_inos"] = nLino

	type pr struct{ di, ii int32 }
	collide := func(path uint64, a, b pr, where string) {
		fp := "localfs-distinct-pairs-same-path-" + cls(path)
		if rep.Seen(fp) {
			return
		}
		c := qidCase{Kind: "injectivity", Dev: devs[a.di], Ino: inos[a.ii], OtherDev: devs[b.di], OtherIno: inos[b.ii]}
		rep.Violate(&fw.Violation{Fingerprint: fp, Scenario: scenarioLocalQids, Params: fw.JSON(c),
			Summary: fmt.Sprintf("distinct pairs %s and %s are both mapped to qid path %#x (%s)", pairStr(c.Dev, c.Ino), pairStr(c.OtherDev, c.OtherIno), path, where),
			Detail:  []string{demand}})
	}

	// Phase 1 (shard 0): the complete class-L candidate product in one process (I2).
	if ctx.Shard == 0 {
		seen := make(map[uint64]pr, nLdev*nLino)
		for di := range devs {
			if !ldev[di] {
				continue
			}
			for ii := range inos {
				if !lino[ii] {
					continue
				}
				q, ok := lookup(devs[di], inos[ii])
				if !ok || q&topBit != 0 {
					continue
				}
				rep.Count("localqids_class_L_product_pairs_in_one_process", 1)
				rep.Evaluations++
				me := pr{int32(di), int32(ii)}
				if o, dup := seen[q]; dup && o != me {
					collide(q, o, me, "complete class-L candidate product, one process")
				} else {
					seen[q] = me
				}
			}
		}
	}

	// Phase 2 (sharded by dev): S1 + I1.
	type rec struct {
		p     pr
		first uint64
	}
	var owned []rec
	seen := make(map[uint64]pr, 1<<16)
	note := func(q uint64, me pr) {
		rep.Evaluations++
		if o, dup := seen[q]; dup {
			if o != me {
				collide(q, o, me, "same worker process")
			}
			return
		}
		seen[q] = me
	}
	var distinctSeen [2 * 2 * 2 * 9 * 9]bool
	outsideProduct := int64(0)
	stopped := false
	// samples: shard 0 only, one of each class
	sampledL, sampledF := ctx.Shard != 0, ctx.Shard != 0
	var nL, nF, nLate int64
	for di, d := range devs {
		if !ctx.Mine(di) {
			continue
		}
		if ctx.Expired() {
			stopped = true
			break
		}
		for ii, i := range inos {
			me := pr{int32(di), int32(ii)}
			q1, ok1 := lookup(d, i)
			q2, ok2 := lookup(d, i)
			rep.States++
			rep.Traces++
			if !ok1 || !ok2 {
				continue
			}
			owned = append(owned, rec{me, q1})
			rep.Evaluations++
			if q1 != q2 {
				fp := "localfs-" + cls(q1, q2) + "-pair-not-stable"
				if !rep.Seen(fp) {
					rep.Violate(&fw.Violation{Fingerprint: fp, Scenario: scenarioLocalQids,
						Params:  fw.JSON(qidCase{Kind: "stability", Dev: d, Ino: i}),
						Summary: fmt.Sprintf("two consecutive lookups of %s return different qid paths: %#x then %#x", pairStr(d, i), q1, q2),
						Detail:  []string{demand, "first failing pair in enumeration order (dev ascending, ino ascending) of the reporting shard"}})
				}
			}
			note(q1, me)
			if q2 != q1 {
				note(q2, me)
			}
			if q1&topBit == 0 && !(ldev[di] && lino[ii]) {
				outsideProduct++
			}
			// vacuity guard: class x candidate membership x magnitude of dev and ino.
			k := 0
			if q1&topBit != 0 {
				k = 1
			}
			if ldev[di] {
				k += 2
			}
			if lino[ii] {
				k += 4
			}
			k = (k*9+(bits.Len64(d)+7)/8)*9 + (bits.Len64(i)+7)/8
			if !distinctSeen[k] {
				distinctSeen[k] = true
				rep.Distinct(fmt.Sprintf("b:%d", k))
			}
			if q1&topBit == 0 && !sampledL && d != 0 && i > 1 {
				sampledL = true
				rep.Sample(map[string]interface{}{"part": "b", "dev": fmt.Sprintf("%#x", d), "ino": fmt.Sprintf("%#x", i), "path1": fmt.Sprintf("%#x", q1), "path2": fmt.Sprintf("%#x", q2)})
			}
			if q1&topBit != 0 && !sampledF {
				sampledF = true
				rep.Sample(map[string]interface{}{"part": "b", "dev": fmt.Sprintf("%#x", d), "ino": fmt.Sprintf("%#x", i), "path1": fmt.Sprintf("%#x", q1), "path2": fmt.Sprintf("%#x", q2)})
			}
			if q1&topBit == 0 {
				nL++
			} else {
				nF++
			}
		}
	}

	// Phase 3: S2, a third lookup after everything else was mapped.
	for _, r := range owned {
		if ctx.Expired() {
			stopped = true
			break
		}
		d, i := devs[r.p.di], inos[r.p.ii]
		q3, ok := lookup(d, i)
		if !ok {
			continue
		}
		rep.Evaluations++
		nLate++
		if q3 != r.first {
			fp := "localfs-" + cls(r.first, q3) + "-pair-not-stable"
			if !rep.Seen(fp) {
				rep.Violate(&fw.Violation{Fingerprint: fp, Scenario: scenarioLocalQids,
					Params:  fw.JSON(qidCase{Kind: "stability", Dev: d, Ino: i, Between: len(owned)}),
					Summary: fmt.Sprintf("%s was mapped to qid path %#x, and to %#x after %d other pairs had been mapped", pairStr(d, i), r.first, q3, len(owned)-1),
					Detail:  []string{demand}})
			}
			note(q3, r.p)
		}
	}
	rep.Transitions += calls
	rep.Count("localqids_pairs_class_L", nL)
	rep.Count("localqids_late_repeats", nLate)
	rep.Count("localqids_pairs_class_F", nF)
	rep.Count("localqids_lookups", calls)
	if outsideProduct > 0 {
		rep.Count("localqids_class_L_outside_candidate_product", outsideProduct)
		rep.NotExhaustive(fmt.Sprintf("C20(b): %d pairs got a class-L path outside the candidate product Ldev x Lino; cross-shard injectivity of class L is not established for them", outsideProduct))
	}
	if stopped {
		rep.NotExhaustive("C20(b): soft budget reached before all (dev, ino) pairs were mapped")
	}
	// Leave an empty table (and no garbage) to the parts that follow.
	localfs.VerifResetQids()
}

func replayLocalQids(ctx *fw.Ctx, rep *fw.Report) {
	var c qidCase
	if err := json.Unmarshal(ctx.Replay.Params, &c); err != nil {
		return
	}
	localfs.VerifResetQids()
	switch c.Kind {
	case "error":
		if _, err := localfs.VerifLocalToQid(c.Dev, c.Ino); err != nil {
			rep.Violate(&fw.Violation{Fingerprint: ctx.Replay.Fingerprint, Scenario: scenarioLocalQids, Params: ctx.Replay.Params,
				Summary: fmt.Sprintf("localToQid%s returned error %v", pairStr(c.Dev, c.Ino), err)})
		}
	case "stability":
		q1, _ := localfs.VerifLocalToQid(c.Dev, c.Ino)
		q2, _ := localfs.VerifLocalToQid(c.Dev, c.Ino)
		// other pairs in between: the same dev with other inodes and the
		// same inode on other devs.
		inos, _ := inoAlphabet()
		for _, i := range inos {
			if i != c.Ino {
				localfs.VerifLocalToQid(c.Dev, i)
				localfs.VerifLocalToQid(c.Dev^1, c.Ino)
			}
		}
		q3, _ := localfs.VerifLocalToQid(c.Dev, c.Ino)
		if q1 != q2 || q1 != q3 {
			rep.Violate(&fw.Violation{Fingerprint: "localfs-" + cls(q1, q2, q3) + "-pair-not-stable", Scenario: scenarioLocalQids, Params: ctx.Replay.Params,
				Summary: fmt.Sprintf("lookups of %s return qid paths %#x, %#x and (after %d other pairs) %#x", pairStr(c.Dev, c.Ino), q1, q2, 2*(len(inos)-1), q3),
				Detail:  []string{demand}})
		}
	case "injectivity":
		qa, _ := localfs.VerifLocalToQid(c.Dev, c.Ino)
		qb, _ := localfs.VerifLocalToQid(c.OtherDev, c.OtherIno)
		if qa == qb && (c.Dev != c.OtherDev || c.Ino != c.OtherIno) {
			rep.Violate(&fw.Violation{Fingerprint: "localfs-distinct-pairs-same-path-" + cls(qa), Scenario: scenarioLocalQids, Params: ctx.Replay.Params,
				Summary: fmt.Sprintf("distinct pairs %s and %s are both mapped to qid path %#x", pairStr(c.Dev, c.Ino), pairStr(c.OtherDev, c.OtherIno), qa),
				Detail:  []string{demand}})
		}
	}
}
