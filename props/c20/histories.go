package c20

// Part (d): QID identity ALONG HISTORIES. Parts (b) and (c) ask the mapping
// functions directly; here the mapping is observed the way a client sees it -
// through Walk, GetAttr and Readdir of real files - while the namespace
// changes underneath: names are unlinked while the file is still open, new
// files are created, one file has two names (hard links). Bounded-exhaustive:
// every sequence of operations up to a depth over a small alphabet, each on a
// fresh file system instance. Oracle: every observation of one object (one
// live inode) carries the same qid.path, for good; two objects that are alive
// at the same time never share one.
//
//	localfs-unlikely: localfs on a real temp dir with every inode forced
//	    through the fallback table (inodeLikelyBits = 0);
//	composefs-localfs: the same directory mounted in a composefs (QIDs
//	    translated by qids.Mapper, a fresh one per instance).

import (
	"encoding/json"
	"fmt"
	"os"
	"path/filepath"
	"sort"
	"strings"

	"verif/harness/fw"

	"github.com/hugelgupf/p9/fsimpl/composefs"
	"github.com/hugelgupf/p9/fsimpl/localfs"
	"github.com/hugelgupf/p9/fsimpl/staticfs"
	"github.com/hugelgupf/p9/p9"
)

const scenarioHistories = "qid-histories"

type histCase struct {
	Family string   `json:"family"`
	Ops    []string `json:"ops"`
}

var histAlphabet = []string{"stat-held-A", "stat-held-B", "walk-f", "walk-h", "walk-k", "walk-n", "list", "list-paged", "unlink-f", "unlink-h", "unlink-k", "create-n"}

type histObs struct {
	obj  string
	path uint64
	how  string
}

// runHistory performs one history and returns its observations (object ->
// qid.path) in order, plus anything that failed although it must not.
func runHistory(c histCase) (obs []histObs, broken []string) {
	tmp, err := os.MkdirTemp("", "verif-c20h-")
	if err != nil {
		panic(err)
	}
	defer os.RemoveAll(tmp)
	w := func(name, s string) {
		if err := os.WriteFile(filepath.Join(tmp, name), []byte(s), 0o644); err != nil {
			panic(err)
		}
	}
	w("f", "A")
	if err := os.Link(filepath.Join(tmp, "f"), filepath.Join(tmp, "h")); err != nil {
		panic(err)
	}
	w("k", "B")
	// name -> object
	ns := map[string]string{"f": "A", "h": "A", "k": "B"}

	var att p9.Attacher = localfs.Attacher(tmp)
	var dirPath []string
	switch c.Family {
	case "localfs-unlikely":
		defer localfs.VerifSetInodeLikelyBits(0)()
		localfs.VerifResetQids()
	case "composefs-localfs":
		a, err := composefs.New(composefs.WithFile("top", staticfs.ReadOnlyFile("t")), composefs.WithMount("mnt", localfs.Attacher(tmp)))
		if err != nil {
			panic(err)
		}
		att = a
		dirPath = []string{"mnt"}
	default:
		panic(c.Family)
	}
	root, err := att.Attach()
	if err != nil {
		return nil, []string{"Attach: " + err.Error()}
	}
	defer root.Close()
	dir := root
	for _, n := range dirPath {
		_, d, err := dir.Walk([]string{n})
		if err != nil {
			return nil, []string{"Walk(" + n + "): " + err.Error()}
		}
		dir = d
	}
	see := func(obj string, q p9.QID, how string) { obs = append(obs, histObs{obj, q.Path, how}) }
	// The inodes are kept allocated for the whole history by descriptors the
	// HARNESS holds (not p9 handles, which would make the files known to the
	// file system under test before the history starts): whatever happens to
	// their names, "same object" stays well defined and no inode number is
	// recycled. A p9 handle on an object is opened by the first stat-held-X
	// operation, through a name the object has at that moment.
	var osHeld []*os.File
	for _, n := range []string{"f", "k"} {
		fd, err := os.Open(filepath.Join(tmp, n))
		if err != nil {
			panic(err)
		}
		osHeld = append(osHeld, fd)
	}
	held := map[string]p9.File{}
	defer func() {
		for _, f := range held {
			if f != nil {
				f.Close()
			}
		}
		for _, fd := range osHeld {
			fd.Close()
		}
	}()
	hold := func(obj string) p9.File {
		if f := held[obj]; f != nil {
			return f
		}
		var names []string
		for n, o := range ns {
			if o == obj {
				names = append(names, n)
			}
		}
		if len(names) == 0 {
			return nil // no name left to reach it by
		}
		sort.Strings(names)
		qs, f, err := dir.Walk([]string{names[0]})
		if err != nil || len(qs) != 1 {
			broken = append(broken, fmt.Sprintf("Walk(%s): %v", names[0], err))
			return nil
		}
		see(obj, qs[0], "walk-to-hold:"+names[0])
		if _, _, err := f.Open(p9.ReadOnly); err != nil {
			broken = append(broken, fmt.Sprintf("Open(%s): %v", names[0], err))
			f.Close()
			return nil
		}
		held[obj] = f
		return f
	}
	list := func(count uint32, how string) {
		_, d, err := dir.Walk(nil)
		if err != nil {
			broken = append(broken, how+": clone: "+err.Error())
			return
		}
		defer d.Close()
		if _, _, err := d.Open(p9.ReadOnly); err != nil {
			broken = append(broken, how+": open: "+err.Error())
			return
		}
		off := uint64(0)
		for i := 0; i < 16; i++ {
			ents, err := d.Readdir(off, count)
			if err != nil || len(ents) == 0 {
				return
			}
			for _, e := range ents {
				if o, ok := ns[e.Name]; ok {
					see(o, e.QID, how+":"+e.Name)
				}
			}
			off = ents[len(ents)-1].Offset
		}
	}
	for _, op := range c.Ops {
		switch {
		case strings.HasPrefix(op, "stat-held-"):
			o := strings.TrimPrefix(op, "stat-held-")
			h := hold(o)
			if h == nil {
				continue
			}
			q, _, _, err := h.GetAttr(p9.AttrMaskAll)
			if err != nil {
				broken = append(broken, fmt.Sprintf("%s: GetAttr on the open file fails: %v", op, err))
				continue
			}
			see(o, q, op)
		case strings.HasPrefix(op, "walk-"):
			name := strings.TrimPrefix(op, "walk-")
			qs, f, err := dir.Walk([]string{name})
			o, exists := ns[name]
			if err != nil {
				if exists {
					broken = append(broken, fmt.Sprintf("%s: Walk to an existing name fails: %v", op, err))
				}
				continue
			}
			if exists && len(qs) == 1 {
				see(o, qs[0], op)
				if q, _, _, err := f.GetAttr(p9.AttrMaskAll); err == nil {
					see(o, q, op+"+getattr")
				}
			}
			f.Close()
		case op == "list":
			list(1<<16, op)
		case op == "list-paged":
			list(30, op) // room for one entry with a one-byte name
		case strings.HasPrefix(op, "unlink-"):
			name := strings.TrimPrefix(op, "unlink-")
			err := dir.UnlinkAt(name, 0)
			if _, exists := ns[name]; exists && err != nil {
				broken = append(broken, fmt.Sprintf("%s: %v", op, err))
				continue
			}
			if err == nil {
				delete(ns, name)
			}
		case op == "create-n":
			if _, exists := ns["n"]; exists {
				continue
			}
			_, d, err := dir.Walk(nil)
			if err != nil {
				broken = append(broken, op+": clone: "+err.Error())
				continue
			}
			f, q, _, err := d.Create("n", p9.ReadWrite, 0o644, p9.NoUID, p9.NoGID)
			if err != nil {
				d.Close()
				broken = append(broken, op+": "+err.Error())
				continue
			}
			if f != nil && f != d {
				d.Close()
			}
			ns["n"] = "C"
			held["C"] = f
			see("C", q, op)
		default:
			panic(op)
		}
	}
	return
}

func judgeHistory(c histCase, obs []histObs, broken []string) (out []issue, outcome string) {
	for _, b := range broken {
		out = append(out, issue{"qid-histories|" + c.Family + "|operation-fails", fmt.Sprintf("%s, history %v: %s", c.Family, c.Ops, b)})
	}
	first := map[string]histObs{}
	owner := map[uint64]histObs{}
	for _, o := range obs {
		if f, ok := first[o.obj]; ok && f.path != o.path {
			out = append(out, issue{"qid-histories|" + c.Family + "|one-file-two-qid-paths",
				fmt.Sprintf("%s, history %v: object %s (one live inode) was reported with qid.path %#x (%s) and later %#x (%s)", c.Family, c.Ops, o.obj, f.path, f.how, o.path, o.how)})
			break
		} else if !ok {
			first[o.obj] = o
		}
		if w, ok := owner[o.path]; ok && w.obj != o.obj {
			out = append(out, issue{"qid-histories|" + c.Family + "|two-files-one-qid-path",
				fmt.Sprintf("%s, history %v: objects %s (%s) and %s (%s), alive at the same time, were both reported with qid.path %#x", c.Family, c.Ops, w.obj, w.how, o.obj, o.how, o.path)})
			break
		} else if !ok {
			owner[o.path] = o
		}
	}
	var objs []string
	for o := range first {
		objs = append(objs, o)
	}
	sort.Strings(objs)
	return out, fmt.Sprintf("%s|objects-seen=%s|violations=%d", c.Family, strings.Join(objs, ""), len(out))
}

func runHistories(ctx *fw.Ctx, rep *fw.Report) {
	if !wants(ctx, scenarioHistories) {
		return
	}
	report := func(c histCase, is []issue) {
		for _, i := range is {
			if rep.Seen(i.fp) {
				continue
			}
			rep.Violate(&fw.Violation{Fingerprint: i.fp, Summary: i.summary, Scenario: scenarioHistories, Params: fw.JSON(c),
				Detail: []string{"property: one file has one qid.path, stable for as long as the file exists, whichever name or handle it is looked at through; distinct files have distinct paths"}})
		}
	}
	if ctx.Replay != nil {
		var c histCase
		if err := json.Unmarshal(ctx.Replay.Params, &c); err != nil {
			return
		}
		obs, broken := runHistory(c)
		if os.Getenv("C20DBG") != "" {
			fmt.Println("DBG", obs, broken)
		}
		is, _ := judgeHistory(c, obs, broken)
		report(c, is)
		return
	}
	depth := 3
	if !ctx.Quick() {
		depth = 4
	}
	addRule(rep, fmt.Sprintf("(d) histories: every sequence of up to %d operations over {%s} on a fresh instance of {localfs with every inode sent through the fallback table, composefs with that localfs mounted}; the directory holds f and h (two names of one file) and k; the harness keeps both inodes allocated throughout (own descriptors), p9 handles are opened by the first stat-held operation; oracle: every observation (Walk, GetAttr, Readdir in one reply and one entry per reply) of one live inode carries one qid.path, two live inodes never share one", depth, strings.Join(histAlphabet, ", ")))
	idx := 0
	var rec func(fam string, ops []string)
	rec = func(fam string, ops []string) {
		if len(ops) > 0 {
			idx++
			if ctx.Mine(idx) {
				c := histCase{fam, append([]string{}, ops...)}
				obs, broken := runHistory(c)
				is, oc := judgeHistory(c, obs, broken)
				rep.States++
				rep.Traces++
				rep.Transitions += int64(len(ops))
				rep.Evaluations += int64(len(obs))
				rep.Count("qid_histories_"+fam, 1)
				rep.Distinct(oc)
				report(c, is)
			}
		}
		if len(ops) == depth {
			return
		}
		for _, op := range histAlphabet {
			rec(fam, append(ops, op))
		}
	}
	for _, fam := range []string{"localfs-unlikely", "composefs-localfs"} {
		rec(fam, nil)
	}
}
