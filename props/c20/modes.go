package c20

import (
	"encoding/json"
	"fmt"
	"os"

	"github.com/hugelgupf/p9/p9"
	"verif/harness/fw"
)

// Part (a): mode mapping.
//
// Property text: "the QID type always matches the file mode's type ... For
// every mode with a valid type, converting between FileMode and os.FileMode
// and back is the identity on type, rwx, setuid, setgid and sticky bits."
//
// The reference below is written from inode(7) (the S_IF* / S_IS* octal
// values that travel on the 9P2000.L wire) and from the documentation of
// package os (which os.FileMode bit stands for which kind of file); it does
// not call any p9 function.

const scenarioModes = "modes"

// POSIX st_mode bits, inode(7).
const (
	sIFMT   = 0170000
	sIFSOCK = 0140000
	sIFLNK  = 0120000
	sIFREG  = 0100000
	sIFBLK  = 0060000
	sIFDIR  = 0040000
	sIFCHR  = 0020000
	sIFIFO  = 0010000
	sISUID  = 04000
	sISGID  = 02000
	sISVTX  = 01000
)

type ftype struct {
	name string
	stat uint32      // S_IF* value
	os   os.FileMode // the os.FileMode type bits package os documents for it
}

// Package os: "ModeDir d: is a directory", "ModeSymlink L: symbolic link",
// "ModeNamedPipe p: named pipe (FIFO)", "ModeSocket S: Unix domain socket",
// "ModeDevice D: device file", "ModeCharDevice c: Unix character device, when
// ModeDevice is set"; a regular file has none of the ModeType bits.
var ftypes = []ftype{
	{"regular", sIFREG, 0},
	{"directory", sIFDIR, os.ModeDir},
	{"symlink", sIFLNK, os.ModeSymlink},
	{"socket", sIFSOCK, os.ModeSocket},
	{"namedpipe", sIFIFO, os.ModeNamedPipe},
	{"chardevice", sIFCHR, os.ModeDevice | os.ModeCharDevice},
	{"blockdevice", sIFBLK, os.ModeDevice},
}

// The bits the property talks about, on the os side.
const osRelevant = os.ModeType | os.ModePerm | os.ModeSetuid | os.ModeSetgid | os.ModeSticky

// and on the wire side.
const p9Relevant = sIFMT | 07777

func typeOfStat(m uint32) *ftype {
	for i := range ftypes {
		if m&sIFMT == ftypes[i].stat {
			return &ftypes[i]
		}
	}
	return nil
}

func typeOfOS(o os.FileMode) *ftype {
	for i := range ftypes {
		if o&os.ModeType == ftypes[i].os {
			return &ftypes[i]
		}
	}
	return nil
}

// refOS is the reference conversion st_mode -> os.FileMode.
func refOS(m uint32) os.FileMode {
	o := typeOfStat(m).os | os.FileMode(m&0777)
	if m&sISUID != 0 {
		o |= os.ModeSetuid
	}
	if m&sISGID != 0 {
		o |= os.ModeSetgid
	}
	if m&sISVTX != 0 {
		o |= os.ModeSticky
	}
	return o
}

// refStat is the reference conversion os.FileMode -> st_mode.
func refStat(o os.FileMode) uint32 {
	m := typeOfOS(o).stat | uint32(o&os.ModePerm)
	if o&os.ModeSetuid != 0 {
		m |= sISUID
	}
	if o&os.ModeSetgid != 0 {
		m |= sISGID
	}
	if o&os.ModeSticky != 0 {
		m |= sISVTX
	}
	return m
}

type modeCase struct {
	Dir  string `json:"direction"` // "p9-os-p9" or "os-p9-os"
	Mode uint32 `json:"mode"`      // p9 FileMode (octal in summaries) or os.FileMode
}

type issue struct {
	fp      string
	summary string
}

// firstDiffStat names the first component in which two st_mode words differ.
func firstDiffStat(a, b uint32) string {
	switch {
	case a&sIFMT != b&sIFMT:
		return "type"
	case a&0777 != b&0777:
		return "rwx"
	case a&sISUID != b&sISUID:
		return "setuid"
	case a&sISGID != b&sISGID:
		return "setgid"
	case a&sISVTX != b&sISVTX:
		return "sticky"
	}
	return ""
}

func firstDiffOS(a, b os.FileMode) string {
	switch {
	case a&os.ModeType != b&os.ModeType:
		return "type"
	case a&os.ModePerm != b&os.ModePerm:
		return "rwx"
	case a&os.ModeSetuid != b&os.ModeSetuid:
		return "setuid"
	case a&os.ModeSetgid != b&os.ModeSetgid:
		return "setgid"
	case a&os.ModeSticky != b&os.ModeSticky:
		return "sticky"
	}
	return ""
}

func comp(what, typ string) string {
	if what == "type" {
		return "type-" + typ
	}
	return what
}

// checkQIDType: "Dir/Symlink/Regular type bits agree with the mode type".
// What the QID type of sockets, pipes and devices is, the text leaves open.
func checkQIDType(m uint32, how string) []issue {
	var out []issue
	q := p9.FileMode(m).QIDType()
	t := typeOfStat(m)
	if (q&p9.TypeDir != 0) != (t.stat == sIFDIR) {
		out = append(out, issue{"qidtype-dir-bit-disagrees-with-mode", fmt.Sprintf("FileMode(%#o)%s is a %s but QIDType() = %#x (directory bit %v)", m, how, t.name, uint8(q), q&p9.TypeDir != 0)})
	}
	if (q&p9.TypeSymlink != 0) != (t.stat == sIFLNK) {
		out = append(out, issue{"qidtype-symlink-bit-disagrees-with-mode", fmt.Sprintf("FileMode(%#o)%s is a %s but QIDType() = %#x (symlink bit %v)", m, how, t.name, uint8(q), q&p9.TypeSymlink != 0)})
	}
	if t.stat == sIFREG && q != p9.TypeRegular {
		out = append(out, issue{"qidtype-regular-file-not-regular", fmt.Sprintf("FileMode(%#o)%s is a regular file but QIDType() = %#x, want TypeRegular (0)", m, how, uint8(q))})
	}
	return out
}

// evalMode runs one case against the real functions; evals is the number of
// oracle clauses evaluated.
func evalMode(c modeCase) (out []issue, evals int, outcome string) {
	switch c.Dir {
	case "p9-os-p9":
		m := c.Mode
		t := typeOfStat(m)
		o := p9.FileMode(m).OSMode()
		back := uint32(p9.ModeFromOS(o))
		// (1) round trip is the identity on type, rwx, setuid, setgid, sticky.
		evals++
		if d := firstDiffStat(back&p9Relevant, m&p9Relevant); d != "" {
			out = append(out, issue{"mode-roundtrip-p9-os-p9-" + comp(d, t.name) + "-not-preserved",
				fmt.Sprintf("ModeFromOS(FileMode(%#o).OSMode()) = %#o: %s not preserved (%s; OSMode() = %v / %#x)", m, back, d, t.name, o, uint32(o))})
		}
		// (2) the os.FileMode is the one package os documents for that file.
		evals++
		if d := firstDiffOS(o&osRelevant, refOS(m)); d != "" {
			out = append(out, issue{"osmode-differs-from-os-docs-" + comp(d, t.name),
				fmt.Sprintf("FileMode(%#o).OSMode() = %v (%#x), package os represents this %s as %v (%#x): %s differs", m, o, uint32(o), t.name, refOS(m), uint32(refOS(m)), d)})
		}
		// (3) QID type.
		evals += 3
		out = append(out, checkQIDType(m, "")...)
		outcome = fmt.Sprintf("p9>os %s special=%o q=%#x", t.name, (m>>9)&7, uint8(p9.FileMode(m).QIDType()))
	case "os-p9-os":
		o := os.FileMode(c.Mode)
		t := typeOfOS(o)
		m := uint32(p9.ModeFromOS(o))
		back := p9.FileMode(m).OSMode()
		evals++
		if d := firstDiffOS(back&osRelevant, o&osRelevant); d != "" {
			out = append(out, issue{"mode-roundtrip-os-p9-os-" + comp(d, t.name) + "-not-preserved",
				fmt.Sprintf("ModeFromOS(%v / %#x).OSMode() = %v (%#x): %s not preserved (%s; ModeFromOS = %#o)", o, uint32(o), back, uint32(back), d, t.name, m)})
		}
		evals++
		if d := firstDiffStat(m&p9Relevant, refStat(o)); d != "" {
			out = append(out, issue{"modefromos-differs-from-stat-bits-" + comp(d, t.name),
				fmt.Sprintf("ModeFromOS(%v / %#x) = %#o, inode(7) represents this %s as %#o: %s differs", o, uint32(o), m, t.name, refStat(o), d)})
		}
		// QID type of the converted mode, judged by the os-side type: only if
		// the conversion produced a valid type at all (otherwise reported above).
		if typeOfStat(m) != nil && typeOfStat(m).stat == t.stat {
			evals += 3
			out = append(out, checkQIDType(m, fmt.Sprintf(" (= ModeFromOS(%v))", o))...)
		}
		outcome = fmt.Sprintf("os>p9 %s special=%o", t.name, (refStat(o)>>9)&7)
	}
	return
}

func runModes(ctx *fw.Ctx, rep *fw.Report) {
	if !wants(ctx, scenarioModes) {
		return
	}
	report := func(c modeCase, is []issue) {
		for _, i := range is {
			if rep.Seen(i.fp) {
				continue
			}
			rep.Violate(&fw.Violation{Fingerprint: i.fp, Summary: i.summary, Scenario: scenarioModes, Params: fw.JSON(c),
				Detail: []string{"property: converting between FileMode and os.FileMode and back is the identity on type, rwx, setuid, setgid and sticky bits; the QID type matches the mode's type"}})
		}
	}
	if ctx.Replay != nil {
		var c modeCase
		if err := json.Unmarshal(ctx.Replay.Params, &c); err != nil {
			return
		}
		is, _, _ := evalMode(c)
		report(c, is)
		return
	}
	addRule(rep, "(a) modes: every st_mode word type|perm with type in the 7 valid S_IF* values and perm in 0..07777 (28672) through OSMode->ModeFromOS and QIDType; every os.FileMode with one of the 7 documented type patterns x perm 0..0777 x {setuid,setgid,sticky} subsets (28672) through ModeFromOS->OSMode; reference written from inode(7) and the os docs; the 9 invalid type-field values x 4096 are called but not judged")

	// The whole part is ~10^5 cheap calls: shard 0 runs it alone, in a fixed
	// order (type as in the table above, permission ascending), so that the
	// case reported for a fingerprint is the first, i.e. smallest, one.
	if ctx.Shard != 0 {
		return
	}
	// p9 -> os -> p9.
	for ti := range ftypes {
		for perm := uint32(0); perm < 4096; perm++ {
			m := ftypes[ti].stat | perm
			c := modeCase{"p9-os-p9", m}
			is, ev, oc := evalMode(c)
			rep.States++
			rep.Traces++
			rep.Transitions += 3
			rep.Evaluations += int64(ev)
			rep.Count("modes_p9_os_p9", 1)
			rep.Distinct(oc)
			if perm == 07777 && (ti == 1 || ti == 5) {
				rep.Sample(map[string]interface{}{"part": "a", "case": c, "osmode": fmt.Sprint(p9.FileMode(m).OSMode()), "back": fmt.Sprintf("%#o", uint32(p9.ModeFromOS(p9.FileMode(m).OSMode())))})
			}
			report(c, is)
		}
	}
	// Outside the statement ("every mode with a valid type"): the 9 other
	// values of the type field are exercised but not judged.
	for tf := uint32(0); tf < 16; tf++ {
		if typeOfStat(tf<<12) != nil {
			continue
		}
		for perm := uint32(0); perm < 4096; perm++ {
			m := tf<<12 | perm
			func() {
				defer func() { recover() }()
				_ = p9.ModeFromOS(p9.FileMode(m).OSMode())
				_ = p9.FileMode(m).QIDType()
			}()
			rep.Count("modes_invalid_type_not_judged", 1)
		}
	}
	// os -> p9 -> os.
	for ti := range ftypes {
		for perm := uint32(0); perm < 512; perm++ {
			for sp := 0; sp < 8; sp++ {
				o := ftypes[ti].os | os.FileMode(perm)
				if sp&4 != 0 {
					o |= os.ModeSetuid
				}
				if sp&2 != 0 {
					o |= os.ModeSetgid
				}
				if sp&1 != 0 {
					o |= os.ModeSticky
				}
				c := modeCase{"os-p9-os", uint32(o)}
				is, ev, oc := evalMode(c)
				rep.States++
				rep.Traces++
				rep.Transitions += 3
				rep.Evaluations += int64(ev)
				rep.Count("modes_os_p9_os", 1)
				rep.Distinct(oc)
				report(c, is)
			}
		}
	}
}
