// Package c20 checks: QID identity and mode/type mapping are stable and
// injective (DESIGN.md §4 C20).
//
// The check has three parts:
//
//	(a) runModes     — FileMode <-> os.FileMode round trips and QIDType, over
//	                   all 7 file types x all 4096 permission values;
//	(b) runLocalQids — localfs's (dev, ino) -> qid.path mapping, over all
//	                   pairs of a boundary alphabet (~4.5 M pairs);
//	(d) runHistories — QIDs observed through Walk/GetAttr/Readdir of real
//	                   files along every short history of unlinks, creates
//	                   and listings (histories.go);
//	(c) schedule scenarios (concurrent lookups) — NOT in this file; they are
//	    appended to ExtraParts by another file of this package.
//
// Every part must honour ctx.Replay by itself: it re-runs a case only if
// ctx.Replay.Scenario is one of its own scenario names and otherwise returns
// without doing anything.
package c20

import (
	"strings"

	"verif/harness/fw"
)

func init() {
	fw.Register(&fw.Prop{ID: "C20", Run: run, Sharded: true, QuickSecs: 60, ThoroughSecs: 600})
}

// ---------------------------------------------------------------------------
// HOOK for part (c): functions appended here (from an init() in another file
// of package c20) are called by run() after parts (a) and (b), with the same
// ctx and rep, in every worker process and also in replay mode.
// ---------------------------------------------------------------------------
var ExtraParts []func(ctx *fw.Ctx, rep *fw.Report)

// addRule appends one part's enumeration rule to the report.
func addRule(rep *fw.Report, s string) {
	if rep.Rule != "" {
		rep.Rule += " || "
	}
	rep.Rule += s
}

// wants reports whether the part with the given scenario name has to run:
// in replay mode only the part owning the scenario, otherwise every part
// matching the -filter substring.
func wants(ctx *fw.Ctx, scenario string) bool {
	if ctx.Replay != nil {
		return ctx.Replay.Scenario == scenario
	}
	return ctx.Filter == "" || strings.Contains(scenario, ctx.Filter)
}

func run(ctx *fw.Ctx, rep *fw.Report) {
	runModes(ctx, rep)
	runHistories(ctx, rep)
	runLocalQids(ctx, rep)
	for _, part := range ExtraParts {
		part(ctx, rep)
	}
}
