package c01

import (
	"bytes"
	"fmt"
	"strings"

	"github.com/hugelgupf/p9/p9"
	"verif/harness/memfs"
	"verif/harness/methods"
	"verif/harness/rawpeer"
	"verif/harness/refcodec"
	"verif/harness/sess"
	"verif/harness/vproxy"
)

// rawSess is a real server with a raw peer and nothing negotiated yet.
type rawSess struct {
	s  *sess.Sess
	fs *memfs.FS
}

func newRawSess(fs *memfs.FS) *rawSess {
	return &rawSess{s: sess.Connect(fs, sess.NewServer(fs), "c01s"), fs: fs}
}

func (rs *rawSess) close() {
	rs.s.Hangup()
	rs.s.WaitDone()
}

func (rs *rawSess) rpc(m refcodec.Msg) ([]byte, refcodec.Msg, error) {
	if err := rs.s.Peer.SendRaw(refcodec.Encode(m)); err != nil {
		return nil, refcodec.Msg{}, err
	}
	raw, err := rs.s.Peer.RecvFrame()
	if err != nil {
		return nil, refcodec.Msg{}, err
	}
	r, _, _ := refcodec.Decode(raw)
	return raw, r, nil
}

// canonical checks that a frame is exactly the encoding of what it decodes to.
func canonical(clause string, raw []byte) *finding {
	m, trailing, err := refcodec.Decode(raw)
	if err != nil || trailing != 0 || !bytes.Equal(refcodec.Encode(m), raw) {
		return &finding{fp: fmt.Sprintf("%s:type%d:not-canonical", clause, raw[4]), msg: fmt.Sprintf("%s: the frame p9 sent is not the canonical encoding of a %s (%v, %d trailing bytes)", clause, m.Name(), err, trailing)}
	}
	return nil
}

// sessionSpace is a small hand-written space: named fields with alphabets.
type sfield struct {
	name  string
	def   interface{}
	alpha []interface{}
}

func (r *runner) sessEnumerate(part, name string, fields []sfield, run func(vals []interface{}, devs []methods.Dev, pr params)) {
	alpha := make([]methods.Alphabet, len(fields))
	for i, f := range fields {
		alpha[i] = methods.Clean(f.def, methods.Alphabet{Vals: f.alpha, Red: 2})
	}
	r.enumerate(alpha, nil, func(devs []methods.Dev) {
		if !r.mine("session", name, 7, devs, "") {
			return
		}
		vals := make([]interface{}, len(fields))
		var desc []string
		for i, f := range fields {
			vals[i] = f.def
		}
		for _, d := range devs {
			vals[d.F] = alpha[d.F].Vals[d.A]
			r.deviated(name, fields[d.F].name)
		}
		for i, f := range fields {
			desc = append(desc, f.name+"="+methods.Show(vals[i]))
		}
		pr := params{Part: "session", Name: name, Version: 7, Devs: devs, Human: name + "(" + strings.Join(desc, ", ") + ") sent raw to the real server"}
		run(vals, devs, pr)
	})
}

func anyStrings(nonEmpty bool) []interface{} {
	var out []interface{}
	for _, s := range methods.Strings(false) {
		if nonEmpty && s == "" {
			continue
		}
		out = append(out, s)
	}
	return out
}

// partSession: the message types no File method maps to.
func (r *runner) partSession() {
	u := func(xs []uint64) []interface{} { return u64vals(xs) }

	// Tversion / Rversion ---------------------------------------------------
	var vstrings []interface{}
	for n := 0; n <= 7; n++ {
		vstrings = append(vstrings, vproxy.VersionString(n))
	}
	vstrings = append(vstrings, "9P2000", "9P2000.u", "9P2000.L.Google.8", "9P2000.L.Google.4294967295")
	vstrings = append(vstrings, anyStrings(false)...)
	r.sessEnumerate("session", "Tversion", []sfield{
		{"tag", uint64(0xffff), u(methods.W16())},
		{"msize", uint64(0x00012345), u(append([]uint64{4096, 4 << 20, 4<<20 + 1}, methods.W32()...))},
		{"version", "9P2000.L.Google.7", vstrings},
	}, func(v []interface{}, devs []methods.Dev, pr params) {
		rs := newRawSess(memfs.New())
		defer rs.close()
		tag, msize, vs := uint16(v[0].(uint64)), v[1].(uint64), v[2].(string)
		raw, got, err := rs.rpc(refcodec.New(refcodec.Tversion, tag, msize, vs))
		var fs []finding
		switch {
		case err != nil:
			fs = append(fs, finding{fp: "(b):Tversion:no-reply", msg: fmt.Sprintf("(b) no reply to Tversion: %v", err)})
		default:
			r.rep.Count("b_Tversion", 1)
			r.rep.Count("c_"+got.Name(), 1)
			r.produced("c", raw, len(devs) <= 1)
			if f := canonical("(c)", raw); f != nil {
				fs = append(fs, *f)
			} else if got.Type != refcodec.Rversion || got.Tag != tag {
				fs = append(fs, finding{fp: "(c):Rversion:type-or-tag", msg: fmt.Sprintf("(c) Tversion[tag %#x] answered by %s", tag, show(got))})
			} else {
				known := false
				for n := 0; n <= 7; n++ {
					if vs == vproxy.VersionString(n) {
						known = true
					}
				}
				rv, rm := got.S("version"), got.U("msize")
				if known && msize != 0 {
					// the version string is understood: it must come back
					// as it was read, and the size never grows
					if rv != vs {
						fs = append(fs, finding{fp: "(b):Tversion:version", msg: fmt.Sprintf("(b) Tversion carried version %q, the server answered %q", vs, rv)})
					} else if rm > msize || rm == 0 || (msize <= 4<<20 && rm != msize) {
						fs = append(fs, finding{fp: "(b):Tversion:msize", msg: fmt.Sprintf("(b) Tversion carried msize %#x, the server answered %#x", msize, rm)})
					}
				}
			}
		}
		r.done(pr, 2, fs)
	})

	// Tattach / Rattach -----------------------------------------------------
	type attachName struct {
		aname string
		comps []string
	}
	anames := []attachName{{"", nil}, {"/", nil}, {methods.LevelDirs[0], methods.LevelDirs[:1]}, {"/" + methods.LevelDirs[0] + "/" + methods.LevelDirs[1], methods.LevelDirs[:2]},
		{strings.Join(methods.LevelDirs, "/"), methods.LevelDirs}}
	var anameVals []interface{}
	for _, a := range anames[1:] {
		anameVals = append(anameVals, a.aname)
	}
	r.sessEnumerate("session", "Tattach", []sfield{
		{"tag", uint64(0x0a0b), u(methods.W16())},
		{"fid", uint64(tgtFid), u(fidAlphabet)},
		{"afid", uint64(0xffffffff), u(methods.W32())},
		{"uname", "dflt-uname", anyStrings(false)},
		{"aname", "", anameVals},
		{"n_uname", uint64(0x01020304), u(methods.W32())},
		{"qid.type", uint64(0x80), u(methods.W8())},
		{"qid.version", uint64(0x11121314), u(methods.W32())},
		{"qid.path", uint64(0x2122232425262728), u(methods.W64())},
	}, func(v []interface{}, devs []methods.Dev, pr params) {
		fx := methods.NewFixture(0, methods.TDir, nil, nil)
		rs := newRawSess(fx.FS)
		defer rs.close()
		var fs []finding
		if _, _, err := rs.rpc(rawpeer.Tversion(rawpeer.NoTag, msizeS, "9P2000.L.Google.7")); err != nil {
			r.done(pr, 0, []finding{{fp: "server-setup:Tattach", msg: err.Error()}})
			return
		}
		tag, fid, afid := uint16(v[0].(uint64)), v[1].(uint64), v[2].(uint64)
		aname := v[4].(string)
		q := p9.QID{Type: p9.QIDType(v[6].(uint64)), Version: uint32(v[7].(uint64)), Path: v[8].(uint64)}
		first := true
		fx.FS.Hook = func(c *memfs.Call) *memfs.Action {
			if c.Method == "GetAttr" && first {
				first = false
				return &memfs.Action{Override: &memfs.Override{QID: &q}}
			}
			return nil
		}
		cm := len(fx.FS.Calls)
		raw, got, err := rs.rpc(refcodec.New(refcodec.Tattach, tag, fid, afid, v[3], aname, v[5]))
		fx.FS.Hook = nil
		if err != nil {
			r.done(pr, 2, []finding{{fp: "(b):Tattach:no-reply", msg: fmt.Sprintf("(b) no reply to Tattach: %v", err)}})
			return
		}
		r.rep.Count("b_Tattach", 1)
		r.rep.Count("c_"+got.Name(), 1)
		r.produced("c", raw, len(devs) <= 1)
		switch {
		case afid != 0xffffffff:
			// authentication is not supported: any afid but NOFID is refused
			if got.Type != refcodec.Rlerror || got.Tag != tag {
				fs = append(fs, finding{fp: "(b):Tattach:afid", msg: fmt.Sprintf("(b) Tattach with afid %#x answered by %s", afid, show(got))})
			}
		default:
			var comps []string
			for _, a := range anames {
				if a.aname == aname {
					comps = a.comps
				}
			}
			// (b) the attach name reached the backend as a walk from the root
			var walked []string
			attached := false
			for _, c := range fx.FS.Calls[cm:] {
				if c.Method == "Attach" {
					attached = true
				}
				if (c.Method == "Walk" || (c.Method == "WalkGetAttr" && c.Err == nil)) && c.Err == nil {
					walked = append(walked, c.Names...)
				}
			}
			if !attached || !methods.Eq(append([]string{}, walked...), append([]string{}, comps...)) {
				fs = append(fs, finding{fp: "(b):Tattach:aname", msg: fmt.Sprintf("(b) Tattach aname %s: backend attached=%v and walked %s, expected %s", methods.Show(aname), attached, methods.Show(walked), methods.Show(comps))})
			} else if len(comps) == 0 {
				// (c) the root's QID
				if f := compareFrame("(c)", []refcodec.Msg{refcodec.New(refcodec.Rattach, tag, uint64(q.Type), uint64(q.Version), q.Path)}, raw); f != nil {
					fs = append(fs, *f)
				}
			} else if f := canonical("(c)", raw); f != nil {
				fs = append(fs, *f)
			} else if got.Type != refcodec.Rattach || got.Tag != tag {
				fs = append(fs, finding{fp: "(c):Rattach:type-or-tag", msg: fmt.Sprintf("(c) Tattach answered by %s", show(got))})
			}
			// (b) the fid: it is bound now
			if len(fs) == 0 {
				_, g2, err := rs.rpc(refcodec.New(refcodec.Tclunk, tag, fid))
				if err != nil || g2.Type != refcodec.Rclunk {
					fs = append(fs, finding{fp: "(b):Tattach:fid", msg: fmt.Sprintf("(b) Tattach fid %#x: a following Tclunk of that fid is answered by %s (%v)", fid, show(g2), err)})
				}
			}
		}
		r.done(pr, 6, fs)
	})

	// Tflush / Rflush -------------------------------------------------------
	r.sessEnumerate("session", "Tflush", []sfield{
		{"tag", uint64(0x0a0b), u(methods.W16())},
		{"oldtag", uint64(0x0c0d), u(methods.W16())},
	}, func(v []interface{}, devs []methods.Dev, pr params) {
		rs := newRawSess(memfs.New())
		defer rs.close()
		var fs []finding
		rs.rpc(rawpeer.Tversion(rawpeer.NoTag, msizeS, "9P2000.L.Google.7"))
		tag := uint16(v[0].(uint64))
		raw, got, err := rs.rpc(refcodec.New(refcodec.Tflush, tag, v[1]))
		if err != nil {
			fs = append(fs, finding{fp: "(b):Tflush:no-reply", msg: fmt.Sprintf("(b) no reply to Tflush: %v", err)})
		} else {
			r.rep.Count("b_Tflush", 1)
			r.rep.Count("c_"+got.Name(), 1)
			r.produced("c", raw, len(devs) <= 1)
			if f := compareFrame("(c)", []refcodec.Msg{refcodec.New(refcodec.Rflush, tag)}, raw); f != nil {
				fs = append(fs, *f)
			}
		}
		r.done(pr, 4, fs)
	})

	// Tauth -----------------------------------------------------------------
	r.sessEnumerate("session", "Tauth", []sfield{
		{"tag", uint64(0x0a0b), u(methods.W16())},
		{"afid", uint64(0x01020304), u(methods.W32())},
		{"uname", "dflt-uname", anyStrings(false)},
		{"aname", "dflt-aname", anyStrings(false)},
		{"n_uname", uint64(0x05060708), u(methods.W32())},
	}, func(v []interface{}, devs []methods.Dev, pr params) {
		fx := methods.NewFixture(0, methods.TDir, nil, nil)
		rs := newRawSess(fx.FS)
		defer rs.close()
		var fs []finding
		rs.rpc(rawpeer.Tversion(rawpeer.NoTag, msizeS, "9P2000.L.Google.7"))
		tag := uint16(v[0].(uint64))
		raw, got, err := rs.rpc(refcodec.New(refcodec.Tauth, tag, v[1], v[2], v[3], v[4]))
		if err != nil {
			fs = append(fs, finding{fp: "(b):Tauth:no-reply", msg: fmt.Sprintf("(b) no reply to Tauth: %v", err)})
		} else {
			r.rep.Count("b_Tauth", 1)
			r.rep.Count("c_"+got.Name(), 1)
			r.produced("c", raw, len(devs) <= 1)
			// authentication is not implemented: ENOSYS whatever the fields
			if f := compareFrame("(c)", []refcodec.Msg{refcodec.New(refcodec.Rlerror, tag, uint32(38))}, raw); f != nil {
				fs = append(fs, *f)
			} else {
				// the frame was consumed exactly: the next request is served
				_, g2, err := rs.rpc(rawpeer.Tattach(7, rootFid, ""))
				if err != nil || g2.Type != refcodec.Rattach || g2.Tag != 7 {
					fs = append(fs, finding{fp: "(b):Tauth:framing", msg: fmt.Sprintf("(b) the request after Tauth is answered by %s (%v)", show(g2), err)})
				}
			}
		}
		r.done(pr, 6, fs)
	})

	// Txattrcreate / Rxattrcreate (observable through SetXattr at clunk) ----
	var sizes []interface{}
	for _, n := range []int{0, 1, 511, 512, 513, 4096} {
		sizes = append(sizes, uint64(n))
	}
	r.sessEnumerate("session", "Txattrcreate", []sfield{
		{"tag", uint64(0x0a0b), u(methods.W16())},
		{"fid", uint64(tgtFid), u(fidAlphabet)},
		{"name", "user.verif", anyStrings(true)},
		{"attr_size", uint64(37), sizes},
		{"flags", uint64(1), u(methods.W32())},
	}, func(v []interface{}, devs []methods.Dev, pr params) {
		fx := methods.NewFixture(1, methods.TFile, nil, nil)
		rs := newRawSess(fx.FS)
		defer rs.close()
		tag, fid, name, size, flags := uint16(v[0].(uint64)), v[1].(uint64), v[2].(string), v[3].(uint64), v[4].(uint64)
		var fs []finding
		setup := []refcodec.Msg{rawpeer.Tversion(rawpeer.NoTag, msizeS, "9P2000.L.Google.7"), rawpeer.Tattach(1, rootFid, ""), rawpeer.Twalk(2, rootFid, uint32(fid), fx.Path...)}
		for _, m := range setup {
			if _, g, err := rs.rpc(m); err != nil || g.Type == refcodec.Rlerror {
				r.done(pr, 0, []finding{{fp: "server-setup:Txattrcreate", msg: fmt.Sprintf("%s: %v %s", m.Name(), err, show(g))}})
				return
			}
		}
		raw, got, err := rs.rpc(refcodec.New(refcodec.Txattrcreate, tag, fid, name, size, flags))
		if err != nil {
			r.done(pr, 6, []finding{{fp: "(b):Txattrcreate:no-reply", msg: fmt.Sprintf("(b) no reply to Txattrcreate: %v", err)}})
			return
		}
		r.rep.Count("b_Txattrcreate", 1)
		r.rep.Count("c_"+got.Name(), 1)
		r.produced("c", raw, len(devs) <= 1)
		if f := compareFrame("(c)", []refcodec.Msg{refcodec.New(refcodec.Rxattrcreate, tag)}, raw); f != nil {
			fs = append(fs, *f)
		}
		data := methods.Pattern(size+3, int(size))
		if len(fs) == 0 {
			raw2, g2, err := rs.rpc(refcodec.New(refcodec.Twrite, tag, fid, uint64(0), data))
			if err == nil {
				r.produced("c", raw2, false)
			}
			if err != nil || g2.Type != refcodec.Rwrite || g2.U("count") != size {
				fs = append(fs, finding{fp: "(b):Txattrcreate:write", msg: fmt.Sprintf("(b) writing the %d-byte value to the xattr fid is answered by %s (%v)", size, show(g2), err)})
			}
		}
		if len(fs) == 0 {
			cm := len(fx.FS.Calls)
			// whether the backend then accepts the attribute (EEXIST, ENODATA
			// for some flag values) does not matter: the call is recorded
			_, g3, err := rs.rpc(refcodec.New(refcodec.Tclunk, tag, fid))
			if err != nil || (g3.Type != refcodec.Rclunk && g3.Type != refcodec.Rlerror) {
				fs = append(fs, finding{fp: "(b):Txattrcreate:clunk", msg: fmt.Sprintf("(b) the clunk that applies the xattr is answered by %s (%v)", show(g3), err)})
			} else {
				var exp methods.ExpCall
				if flags == 2 && size == 0 {
					// setxattr(XATTR_REPLACE) with an empty value removes
					exp = methods.ExpCall{Method: "RemoveXattr", Args: methods.V{name}, ArgNames: []string{"name"}}
				} else {
					exp = methods.ExpCall{Method: "SetXattr", Args: methods.V{name, data, int64(flags)}, ArgNames: []string{"name", "value", "flags"}}
				}
				found := false
				var why string
				for _, c := range fx.FS.Calls[cm:] {
					if c.Method != exp.Method {
						continue
					}
					exp.On = c.Handle
					if is := methods.CheckBackend([]methods.ExpCall{exp}, []*memfs.Call{c}); len(is) == 0 {
						found = true
					} else {
						why = is[0].Field + ": " + is[0].Msg
					}
				}
				if !found {
					field := "not-reached"
					if why != "" {
						field = strings.SplitN(why, ":", 2)[0]
					}
					fs = append(fs, finding{fp: "(b):Txattrcreate:" + field, msg: fmt.Sprintf("(b) Txattrcreate(%s, size %d, flags %#x) + Twrite + Tclunk: the backend did not see %s with those values (%s)", methods.Show(name), size, flags, exp.Method, why)})
				}
			}
		}
		r.done(pr, 12, fs)
	})
}
