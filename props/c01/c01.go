// Package c01 checks the wire format: 9P2000.L layout conformance and
// lossless round trip (DESIGN.md §4 C01). The reference is the independent
// layout table harness/refcodec; p9's own codec is the code under test.
//
// Directions, all decided at the connection:
//
//	(a) real Client method -> bytes captured by a scripted server == refcodec.Encode(expected values)
//	(b) refcodec-encoded T bytes -> real Server -> arguments seen by memfs == encoded values
//	(c) memfs results -> real Server -> R bytes at the raw peer == refcodec.Encode(results)
//	(d) refcodec-encoded R bytes -> real Client -> return values == encoded values
//
// plus, for every one of the 65 registered types, the injected
// p9.VerifRoundTrip (decode with p9's receiver, re-send with p9's sender;
// bytes out must equal bytes in for canonical frames) — the only evidence for
// the types and fields no connection-level observation can reach.
package c01

import (
	"encoding/json"
	"fmt"
	"hash/fnv"
	"os"
	"sort"
	"strings"
	"sync/atomic"
	"time"

	"verif/harness/fw"
	"verif/harness/memfs"
	"verif/harness/methods"
	"verif/harness/refcodec"
)

func init() {
	fw.Register(&fw.Prop{ID: "C01", Level: "model_checking", Run: run, Sharded: true, QuickSecs: 75, ThoroughSecs: 800})
}

// params identify a case.
type params struct {
	Part    string        `json:"part"` // rt | client | server | session
	Name    string        `json:"name"` // message type or method
	Version int           `json:"version"`
	Devs    []methods.Dev `json:"deviations"`
	Extra   string        `json:"extra,omitempty"`
	Human   string        `json:"case"`
}

// finding is one oracle failure of a case.
type finding struct {
	fp     string
	msg    string
	detail []string
}

type runner struct {
	ctx      *fw.Ctx
	rep      *fw.Report
	idx      int
	expired  bool
	replay   *params
	payloadC uint32 // I/O piece size of the client at msizeC
	found    map[string]*hit
	distinct map[string]map[uint64]bool // per type: hashes of distinct frames produced
	devSeen  map[string]bool            // type.field deviated at least once
}

type hit struct {
	pr      params
	f       finding
	ndevs   int
	version int
}

var progress int64

// mine decides whether the next case belongs to this worker; it also
// implements the soft deadline and replay selection.
func (r *runner) mine(part, name string, version int, devs []methods.Dev, extra string) bool {
	if r.replay != nil {
		p := r.replay
		if p.Part != part || p.Name != name || p.Version != version || p.Extra != extra || len(p.Devs) != len(devs) {
			return false
		}
		for i := range devs {
			if devs[i] != p.Devs[i] {
				return false
			}
		}
		return true
	}
	i := r.idx
	r.idx++
	if r.expired || !r.ctx.Mine(i) {
		return false
	}
	if r.ctx.Filter != "" && !strings.Contains(part+":"+name, r.ctx.Filter) {
		return false
	}
	if i%64 == 0 && r.ctx.Expired() {
		r.expired = true
		r.rep.NotExhaustive(fmt.Sprintf("soft budget reached in part %s at %s", part, name))
		return false
	}
	atomic.AddInt64(&progress, 1)
	return true
}

// done accounts for an executed case.
func (r *runner) done(pr params, steps int, fs []finding) {
	r.rep.States++
	r.rep.Traces++
	r.rep.Evaluations++
	r.rep.Transitions += int64(steps)
	r.rep.Count("cases_part_"+pr.Part, 1)
	for _, f := range fs {
		h := &hit{pr: pr, f: f, ndevs: len(pr.Devs), version: pr.Version}
		if old, ok := r.found[f.fp]; !ok || h.ndevs < old.ndevs || (h.ndevs == old.ndevs && h.version < old.version) {
			r.found[f.fp] = h
		}
		break
	}
}

// produced records a frame produced by p9. subject says that the frame is
// the one the case varies (the case's deviations all lie in fields of this
// frame): such frames differ from case to case, so the per-worker sets are
// disjoint and their sizes add up to the number of distinct byte strings
// per type (vacuity guard; frames that only repeat the default are not
// counted again). dir is the direction letter.
func (r *runner) produced(dir string, frame []byte, subject bool) {
	if len(frame) < 7 {
		return
	}
	name := fmt.Sprintf("type%d", frame[4])
	if d, ok := refcodec.Defs[frame[4]]; ok {
		name = d.Name
	}
	r.rep.Count("observed_"+dir+"_"+name, 1)
	if !subject {
		return
	}
	h := fnv.New64a()
	h.Write(frame)
	m := r.distinct[dir+"_"+name]
	if m == nil {
		m = map[uint64]bool{}
		r.distinct[dir+"_"+name] = m
	}
	m[h.Sum64()] = true
}

// deviated records that a field of a type took a non-default value.
func (r *runner) deviated(typ, field string) {
	k := typ + "." + field
	if !r.devSeen[k] {
		r.devSeen[k] = true
	}
	r.rep.Count("deviated_"+k, 1)
}

func run(ctx *fw.Ctx, rep *fw.Report) {
	memfs.RecordSites = false
	r := &runner{ctx: ctx, rep: rep, found: map[string]*hit{}, distinct: map[string]map[uint64]bool{}, devSeen: map[string]bool{}}
	if ctx.Replay != nil {
		var p params
		if err := json.Unmarshal(ctx.Replay.Params, &p); err != nil {
			fmt.Fprintln(os.Stderr, "C01: bad replay parameters:", err)
			os.Exit(2)
		}
		r.replay = &p
	}
	go func() {
		last, idle := int64(-1), 0
		for {
			time.Sleep(5 * time.Second)
			cur := atomic.LoadInt64(&progress)
			if cur == last {
				idle++
			} else {
				idle = 0
			}
			last = cur
			if idle >= 24 {
				fmt.Fprintf(os.Stderr, "C01: watchdog: no case finished for 120 s (shard %d, after %d cases)\n", ctx.Shard, cur)
				os.Exit(2)
			}
		}
	}()
	p, err := calibrateClient()
	if err != nil {
		fmt.Fprintln(os.Stderr, "C01: cannot calibrate the client's I/O piece size:", err)
		os.Exit(2)
	}
	r.payloadC = p

	rep.Rule = "every case is a field-value vector: the all-defaults vector (byte-distinct, asymmetric defaults), every 1-field deviation over the full alphabet, and 2-field deviations " +
		"(quick: one member over its full alphabet x the other over a 2-value reduced alphabet; thorough: full x full; for pairs each alphabet is capped at its first 24 (quick) / 64 (thorough) values, which only the exhaustive mask alphabets exceed). " +
		"Alphabets: u8 {0,1,0x7f,0x80,0xff}; u16 {0,1,0xff,0x100,0x7fff,0x8000,0xfffe,0xffff}; u32/u64 the same pattern plus sentinels (NOTAG, NOFID, NoUID/NoGID) and byte-distinct values; " +
		"strings: lengths {0,1,2,255,256,32767,32768,65535} x contents {ASCII, embedded NUL, '/', 0x80-0xff, invalid UTF-8}; name/QID/dirent lists of {0,1,2,3,16,255} elements and one-element lists over every element-field alphabet; " +
		"payloads {0,1,511,512,513,piece-1,piece}; permission/mode fields incl. type bits and 0xffffffff; all 2^14 getattr masks and all 2^9 setattr masks. " +
		"Parts: rt = p9.VerifRoundTrip over all 65 types in message-field space; client = directions (a)+(d) through a scripted loop-back server, per File method x version {0,1,2,3,7}; " +
		"server = directions (b)+(c) through the real Server over memfs, per File method x version {0,2,3,7} with fid and tag as additional fields; session = Tversion/Tattach/Tflush/Tauth/Txattrcreate/Rlerror. " +
		"distinct = distinct byte strings p9 produced per message type (tag excluded)"
	rep.Assumptions = append(rep.Assumptions,
		"allowed rewrites: permission fields & 07777; Rreaddir whole-entry truncation; undefined high bits of the getattr/setattr masks may be dropped (p9 keeps the 14/9 defined bits); a Treaddir/Tread count may be clamped to what fits msize",
		"path-component names sent to the real Server are valid single components (C09 owns invalid ones); arbitrary strings go through symlink targets, version strings, attach/auth names, lock client ids, xattr names, dirent names and readlink results, and through VerifRoundTrip for name positions",
		"fields the session cannot observe are covered by VerifRoundTrip only: all of Rauth and Tauth (the server answers ENOSYS whatever the fields), Rattach.qid on the client side, Tattach.uname/n_uname on the server side, Rxattrcreate/Rflush on the client side, Txattrcreate.attr_size beyond what can be written, Rxattrwalk.size and Rwrite.count beyond the buffer, Tflush/Txattrcreate on the client side (never sent)")

	r.runPart("")

	// report the smallest case per fingerprint
	var fps []string
	for fp := range r.found {
		fps = append(fps, fp)
	}
	sort.Strings(fps)
	for _, fp := range fps {
		h := r.found[fp]
		if r.replay == nil {
			h = r.minimize(h)
		}
		detail := append([]string{h.pr.Human}, h.f.detail...)
		rep.Violate(&fw.Violation{Fingerprint: fp, Scenario: "c01-" + h.pr.Part, Params: fw.JSON(h.pr), Summary: h.f.msg, Detail: detail})
	}
	for name, m := range r.distinct {
		rep.Count("distinct_frames_"+name, int64(len(m)))
		rep.DistinctNontrivial += int64(len(m))
	}
	if ctx.Shard == 0 && r.replay == nil {
		rep.Info["cases_in_space"] = r.idx
		rep.Info["client_msize"] = msizeC
		rep.Info["client_io_piece"] = r.payloadC
		rep.Info["server_msize"] = msizeS
	}
}

func (r *runner) runPart(part string) {
	if part == "" || part == "rt" {
		r.partRT()
	}
	if part == "" || part == "client" {
		r.partClient()
	}
	if part == "" || part == "server" {
		r.partServer()
	}
	if part == "" || part == "session" {
		r.partSession()
	}
}

// minimize looks for a smaller case with the same fingerprint: no deviation
// or a single one of the original deviations, at the lowest version.
func (r *runner) minimize(h *hit) *hit {
	if h.ndevs == 0 && h.version == 0 {
		return h
	}
	var subsets [][]methods.Dev
	subsets = append(subsets, nil)
	if h.ndevs > 1 {
		for _, d := range h.pr.Devs {
			subsets = append(subsets, []methods.Dev{d})
		}
	}
	subsets = append(subsets, h.pr.Devs)
	versions := []int{h.version}
	switch h.pr.Part {
	case "client":
		versions = []int{0, 1, 2, 3, 4, 5, 6, 7}
	case "server":
		versions = serverVersions
	}
	savedFound, savedReplay := r.found, r.replay
	defer func() { r.found, r.replay = savedFound, savedReplay }()
	for _, devs := range subsets {
		for _, v := range versions {
			if len(devs) > h.ndevs || (len(devs) == h.ndevs && v >= h.version) {
				continue
			}
			p := h.pr
			p.Devs, p.Version = devs, v
			r.replay, r.found = &p, map[string]*hit{}
			r.runPart(p.Part)
			if c, ok := r.found[h.f.fp]; ok {
				return c
			}
		}
	}
	return h
}

// show renders a message for reports.
func show(m refcodec.Msg) string { return fw.Short(m.String(), 300) }
