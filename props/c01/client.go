package c01

import (
	"bytes"
	"fmt"
	"io"

	"github.com/hugelgupf/p9/p9"
	"verif/harness/fakesrv2"
	"verif/harness/methods"
	"verif/harness/refcodec"
	"verif/harness/vproxy"
)

// msizeC is the client's message size in directions (a)/(d): large enough
// for a 65535-byte string in a reply.
const msizeC = 1 << 17

var clientVersions = []int{0, 1, 2, 3, 7}

// full in a "served"/"count" result field means: everything that was asked.
const full = uint64(1) << 40

// script is the scripted server of one case.
type script struct {
	version int
	armed   bool
	answer  func(req *fakesrv2.Request) []refcodec.Msg
}

func (s *script) handle(req *fakesrv2.Request) [][]byte {
	if req.Err != nil {
		// the reference codec cannot parse what the client sent; answer with
		// an error so that the call returns, the frame check reports it
		tag := uint16(0)
		if len(req.Raw) >= 7 {
			tag = uint16(req.Raw[5]) | uint16(req.Raw[6])<<8
		}
		return [][]byte{refcodec.Encode(refcodec.New(refcodec.Rlerror, tag, uint32(5)))}
	}
	t := req.Msg
	var ms []refcodec.Msg
	if s.armed {
		ms = s.answer(req)
	} else {
		switch t.Type {
		case refcodec.Tversion:
			ms = []refcodec.Msg{refcodec.New(refcodec.Rversion, 0, t.U("msize"), vproxy.VersionString(s.version))}
		case refcodec.Tattach:
			ms = []refcodec.Msg{refcodec.New(refcodec.Rattach, 0, uint8(0x80), uint32(1), uint64(2))}
		case refcodec.Twalk:
			qs := []refcodec.QID{}
			for i := range t.Get("wnames").([]string) {
				qs = append(qs, refcodec.QID{Type: 0x80, Path: uint64(i)})
			}
			ms = []refcodec.Msg{refcodec.New(refcodec.Rwalk, 0, qs)}
		case refcodec.Tlopen:
			ms = []refcodec.Msg{refcodec.New(refcodec.Rlopen, 0, uint8(0), uint32(0), uint64(0), uint32(0))}
		case refcodec.Tread:
			ms = []refcodec.Msg{refcodec.New(refcodec.Rread, 0, make([]byte, t.U("count")))}
		case refcodec.Tclunk:
			ms = []refcodec.Msg{refcodec.New(refcodec.Rclunk, 0)}
		default:
			ms = []refcodec.Msg{refcodec.New(refcodec.Rlerror, 0, uint32(38))}
		}
	}
	var out [][]byte
	for _, m := range ms {
		m.Tag = t.Tag
		out = append(out, refcodec.Encode(m))
	}
	return out
}

type clientSess struct {
	conn *fakesrv2.Conn
	sc   *script
	cl   *p9.Client
	env  *methods.Env
}

func lastReq(c *fakesrv2.Conn, typ uint8) (refcodec.Msg, bool) {
	for i := len(c.Requests) - 1; i >= 0; i-- {
		if r := c.Requests[i]; r.Err == nil && r.Msg.Type == typ {
			return r.Msg, true
		}
	}
	return refcodec.Msg{}, false
}

func newClientSess(version int, msize uint32, refs []int) (*clientSess, error) {
	s := &clientSess{sc: &script{version: version}}
	s.conn = &fakesrv2.Conn{Script: s.sc.handle}
	cl, err := p9.NewClient(s.conn, p9.WithMessageSize(msize))
	if err != nil {
		return nil, fmt.Errorf("NewClient: %v", err)
	}
	if int(cl.Version()) != version {
		return nil, fmt.Errorf("scripted server offered version %d, client settled on %d", version, cl.Version())
	}
	s.cl = cl
	root, err := cl.Attach("")
	if err != nil {
		return nil, fmt.Errorf("Attach: %v", err)
	}
	ta, ok := lastReq(s.conn, refcodec.Tattach)
	if !ok {
		return nil, fmt.Errorf("no Tattach seen")
	}
	s.env = &methods.Env{Version: uint32(version), Msize: msize, File: root, Fid: ta.U("fid"), H: -1, Parent: -1}
	s.env.Refs[methods.RefSelf] = methods.Ref{File: root, Fid: s.env.Fid}
	for _, ri := range refs {
		_, f, err := root.Walk([]string{"ref"})
		if err != nil {
			return nil, fmt.Errorf("Walk: %v", err)
		}
		tw, _ := lastReq(s.conn, refcodec.Twalk)
		s.env.Refs[ri] = methods.Ref{File: f, Fid: tw.U("newfid")}
	}
	return s, nil
}

// calibrateClient observes the client's I/O piece size at msizeC.
func calibrateClient() (uint32, error) {
	s, err := newClientSess(7, msizeC, nil)
	if err != nil {
		return 0, err
	}
	big := make([]byte, 3*msizeC)
	mark := len(s.conn.Requests)
	if _, err := s.env.File.ReadAt(big, 0); err != nil {
		return 0, err
	}
	for _, r := range s.conn.Requests[mark:] {
		if r.Err == nil && r.Msg.Type == refcodec.Tread {
			return uint32(r.Msg.U("count")), nil
		}
	}
	return 0, fmt.Errorf("no Tread seen")
}

// resolve turns an expected message with wildcards into a concrete one,
// taking the client's free choices (tag, new fids) and any acceptable
// alternative from what was actually sent.
func resolve(exp refcodec.Msg, got refcodec.Msg) refcodec.Msg {
	out := refcodec.Msg{Type: exp.Type, Tag: got.Tag, Vals: append([]interface{}{}, exp.Vals...)}
	for i, v := range out.Vals {
		var g interface{}
		if got.Type == exp.Type && i < len(got.Vals) {
			g = got.Vals[i]
		}
		switch x := v.(type) {
		case uint64:
			if x == methods.AnyFid {
				if g != nil {
					out.Vals[i] = g
				} else {
					out.Vals[i] = uint64(0)
				}
			}
		case methods.OneOf:
			out.Vals[i] = x[0]
			for _, alt := range x {
				if g != nil && methods.Eq(alt, g) {
					out.Vals[i] = g
				}
			}
		}
	}
	return out
}

type cspace struct {
	m      *methods.Method
	fields []methods.Field
	alpha  []methods.Alphabet
	na, nr int
}

func (c *cspace) eField() int { return c.na + c.nr }

func (r *runner) clientSpace(m *methods.Method) *cspace {
	c := &cspace{m: m, na: len(m.Args)}
	o := methods.WidthOpts{Payload: r.payloadC}
	for _, f := range m.Args {
		c.fields = append(c.fields, f)
		a := methods.Width(f, o)
		if f.Kind == methods.KLen || (f.Kind == methods.KData && m.Name == "WriteAt") {
			// more than one piece
			n := 2*int(r.payloadC) + 1
			if f.Kind == methods.KLen {
				a.Vals = append(a.Vals, uint64(n))
			} else {
				a.Vals = append(a.Vals, methods.Pattern(uint64(n), n))
			}
		}
		c.alpha = append(c.alpha, a)
	}
	if m.Local {
		return c
	}
	res := m.Res
	switch m.Name {
	case "ReadAt":
		res = []methods.Field{{Name: "served", Kind: methods.KLen, Def: full}}
	case "WriteAt":
		res = []methods.Field{{Name: "count", Kind: methods.KLen, Def: full}}
	}
	c.nr = len(res)
	for _, f := range res {
		c.fields = append(c.fields, f)
		a := methods.Width(f, o)
		if m.Name == "WriteAt" {
			a = methods.Clean(f.Def, methods.Alphabet{Vals: u64vals([]uint64{0, 1, 0xff, 0x100, uint64(r.payloadC) - 1}), Red: 2})
		}
		if m.Name == "GetXattr" {
			n := 2*int(r.payloadC) + 1
			a.Vals = append(a.Vals, methods.Pattern(uint64(n), n))
		}
		c.alpha = append(c.alpha, a)
	}
	// the error pseudo field: Rlerror with an error code
	c.fields = append(c.fields, methods.Field{Name: "Rlerror.ecode", Def: nil})
	c.alpha = append(c.alpha, methods.Alphabet{Vals: u64vals(methods.W32()), Red: 2})
	return c
}

func (c *cspace) pairOK(i, j int) bool {
	e := c.eField()
	isRes := func(x int) bool { return x >= c.na && x < c.na+c.nr }
	return !((i == e && isRes(j)) || (j == e && isRes(i)))
}

func (c *cspace) materialize(devs []methods.Dev) (a, res methods.V, ecode *uint32) {
	a = methods.Apply(c.fields[:c.na], c.alpha[:c.na], 0, devs)
	if c.m.Local {
		return a, nil, nil
	}
	res = methods.Apply(c.fields[c.na:c.na+c.nr], c.alpha[c.na:c.na+c.nr], c.na, devs)
	for _, d := range devs {
		if d.F == c.eField() {
			v := uint32(c.alpha[d.F].Vals[d.A].(uint64))
			ecode = &v
		}
	}
	return
}

// ioPlan simulates the documented splitting of an I/O of l bytes into
// pieces of at most p bytes when the first piece transfers `first` bytes
// (full: everything) and later pieces transfer everything: it returns the
// (offset delta, requested, transferred) triples.
func ioPlan(l, p uint64, first uint64) [][3]uint64 {
	var out [][3]uint64
	if l == 0 {
		return [][3]uint64{{0, 0, 0}}
	}
	var done uint64
	for i := 0; done < l; i++ {
		n := l - done
		if n > p {
			n = p
		}
		got := n
		if i == 0 && first != full && first < n {
			got = first
		}
		out = append(out, [3]uint64{done, n, got})
		done += got
		if got < n {
			break
		}
	}
	return out
}

// partClient: directions (a) and (d).
func (r *runner) partClient() {
	table := methods.Table(r.payloadC)
	for _, m := range table {
		c := r.clientSpace(m)
		for _, version := range clientVersions {
			r.enumerate(c.alpha, c.pairOK, func(devs []methods.Dev) {
				if !r.mine("client", m.Name, version, devs, "") {
					return
				}
				r.clientCase(c, version, devs)
			})
		}
	}
	r.clientSessionCases()
}

func (r *runner) clientCase(c *cspace, version int, devs []methods.Dev) {
	m := c.m
	a, res, ecode := c.materialize(devs)
	human := fmt.Sprintf("client %s%s at version %d", m.Name, methods.ShowVec(m.Args, a), version)
	if ecode != nil {
		human += fmt.Sprintf("; scripted server answers Rlerror(%#x)", *ecode)
	} else if len(res) > 0 {
		human += "; scripted server answers " + methods.ShowVec(c.fields[c.na:c.na+c.nr], res)
	}
	pr := params{Part: "client", Name: m.Name, Version: version, Devs: devs, Human: human}
	s, err := newClientSess(version, msizeC, m.Refs)
	if err != nil {
		r.done(pr, 0, []finding{{fp: "client-setup:" + m.Name, msg: "client session could not be set up: " + err.Error()}})
		return
	}
	env := s.env
	env.Payload = r.payloadC
	p := uint64(r.payloadC)

	// expected requests and the scripted answers
	var expT []refcodec.Msg
	var want []methods.V
	switch m.Name {
	case "ReadAt":
		l, off := methods.U(a[0]), methods.U(a[1])
		plan := ioPlan(l, p, methods.U(res[0]))
		var total uint64
		for _, pc := range plan {
			expT = append(expT, refcodec.New(refcodec.Tread, 0, env.Fid, off+pc[0], pc[1]))
			total += pc[2]
		}
		want = []methods.V{{int64(total), methods.Pattern(off, int(total))}}
		idx := 0
		s.sc.answer = func(req *fakesrv2.Request) []refcodec.Msg {
			t := req.Msg
			if t.Type != refcodec.Tread {
				return []refcodec.Msg{refcodec.New(refcodec.Rlerror, 0, uint32(38))}
			}
			if ecode != nil {
				return []refcodec.Msg{refcodec.New(refcodec.Rlerror, 0, *ecode)}
			}
			n := t.U("count")
			if idx < len(plan) && plan[idx][2] < n {
				n = plan[idx][2]
			}
			idx++
			return []refcodec.Msg{refcodec.New(refcodec.Rread, 0, methods.Pattern(t.U("offset"), int(n)))}
		}
	case "WriteAt":
		data, off := a[0].([]byte), methods.U(a[1])
		plan := ioPlan(uint64(len(data)), p, methods.U(res[0]))
		var total uint64
		for _, pc := range plan {
			expT = append(expT, refcodec.New(refcodec.Twrite, 0, env.Fid, off+pc[0], data[pc[0]:pc[0]+pc[1]]))
			total += pc[2]
		}
		want = []methods.V{{int64(total)}}
		idx := 0
		s.sc.answer = func(req *fakesrv2.Request) []refcodec.Msg {
			t := req.Msg
			if t.Type != refcodec.Twrite {
				return []refcodec.Msg{refcodec.New(refcodec.Rlerror, 0, uint32(38))}
			}
			if ecode != nil {
				return []refcodec.Msg{refcodec.New(refcodec.Rlerror, 0, *ecode)}
			}
			n := uint64(len(t.Get("data").([]byte)))
			if idx < len(plan) && plan[idx][2] < n {
				n = plan[idx][2]
			}
			idx++
			return []refcodec.Msg{refcodec.New(refcodec.Rwrite, 0, n)}
		}
	default:
		if !m.Local {
			expT = m.Wire(env, a, res)
			if m.Want != nil {
				want = m.Want(env, a, res)
			}
		}
		first := true
		s.sc.answer = func(req *fakesrv2.Request) []refcodec.Msg {
			t := req.Msg
			if ecode != nil && first {
				first = false
				return []refcodec.Msg{refcodec.New(refcodec.Rlerror, 0, *ecode)}
			}
			first = false
			return []refcodec.Msg{answerFor(m, env, a, res, t)}
		}
	}
	for _, d := range devs {
		if d.F < c.na && len(expT) > 0 {
			r.deviated(refcodec.Defs[expT[0].Type].Name, "arg:"+c.fields[d.F].Name)
		} else if d.F >= c.na && d.F < c.eField() && m.Reply != nil {
			r.deviated(refcodec.Defs[m.Reply(env, a, res).Type].Name, "res:"+c.fields[d.F].Name)
		}
	}

	argOnly := true
	for _, d := range devs {
		if d.F >= c.na {
			argOnly = false
		}
	}
	s.sc.armed = true
	mark := len(s.conn.Requests)
	rmark := len(s.conn.Replies)
	out := m.Invoke(env, a)
	reqs := s.conn.Requests[mark:]
	var fs []finding

	// (a) the requests on the wire
	if out.Panic != nil {
		fs = append(fs, finding{fp: "client-panic:" + m.Name, msg: fmt.Sprintf("client method %s panicked: %v", m.Name, out.Panic)})
	}
	if m.Local && len(reqs) > 0 {
		fs = append(fs, finding{fp: "(a):" + m.Name + ":local-method-on-wire", msg: fmt.Sprintf("%s is answered locally but sent %d request(s)", m.Name, len(reqs))})
	}
	nexp := len(expT)
	if ecode != nil && nexp > 1 {
		nexp = 1 // the first request fails; what follows is not constrained here
	}
	for i := 0; i < nexp && len(fs) == 0; i++ {
		if i >= len(reqs) {
			fs = append(fs, finding{fp: fmt.Sprintf("(a):%s:request-missing", m.Name), msg: fmt.Sprintf("(a) %s: expected request %d (%s) was not sent", m.Name, i, refcodec.Defs[expT[i].Type].Name)})
			break
		}
		r.produced("a", reqs[i].Raw, argOnly)
		r.rep.Count("a_"+refcodec.Defs[expT[i].Type].Name, 1)
		if f := compareFrame("(a)", []refcodec.Msg{resolve(expT[i], reqs[i].Msg)}, reqs[i].Raw); f != nil {
			fs = append(fs, *f)
		}
	}
	if len(fs) == 0 && ecode == nil && !m.Local && len(reqs) > len(expT) {
		extra := reqs[len(expT)]
		fs = append(fs, finding{fp: fmt.Sprintf("(a):%s:request-extra", m.Name), msg: fmt.Sprintf("(a) %s: unexpected additional request %s", m.Name, extra.Msg.Name())})
	}

	// (d) what the client made of the replies
	for _, rp := range s.conn.Replies[rmark:] {
		if len(rp) >= 5 {
			r.rep.Count("d_"+refcodec.Defs[rp[4]].Name, 1)
		}
	}
	if len(fs) == 0 && out.Panic == nil {
		switch {
		case m.Local:
			if is := m.Check(env, a, res, nil, nil, out); len(is) > 0 {
				fs = append(fs, finding{fp: "(d):" + m.Name + ":" + is[0].Clause, msg: is[0].Msg})
			}
		case ecode != nil:
			n, ok := methods.GotErrno(out.Err)
			if !ok || n != *ecode {
				fs = append(fs, finding{fp: "(d):Rlerror:ecode", msg: fmt.Sprintf("(d) %s: the server answered Rlerror(%#x), the caller got %v", m.Name, *ecode, out.Err)})
			}
		default:
			rname := "R"
			if m.Reply != nil {
				rname = refcodec.Defs[m.Reply(env, a, res).Type].Name
			} else if m.Name == "ReadAt" {
				rname = "Rread"
			} else if m.Name == "WriteAt" {
				rname = "Rwrite"
			}
			errOK := out.Err == nil
			if m.Name == "ReadAt" {
				n := want[0][0].(int64)
				l := methods.U(a[0])
				switch {
				case n == 0 && l > 0:
					errOK = out.Err == io.EOF
				case uint64(n) < l:
					errOK = out.Err == nil || out.Err == io.EOF
				}
			}
			if !errOK {
				fs = append(fs, finding{fp: "(d):" + rname + ":spurious-error", msg: fmt.Sprintf("(d) %s: the server answered %s, the caller got error %v", m.Name, rname, out.Err)})
			} else {
				fields := c.fields[c.na : c.na+c.nr]
				if m.Name == "ReadAt" {
					fields = []methods.Field{{Name: "n"}, {Name: "data"}}
				} else if m.Name == "WriteAt" {
					fields = []methods.Field{{Name: "n"}}
				} else if m.Name == "Walk" {
					fields = []methods.Field{{Name: "wqids"}}
				} else if m.Name == "WalkGetAttr" {
					fields = append(append([]methods.Field{}, m.Res[:len(m.Res)-3]...), methods.Field{Name: "wqids"})
				}
				if m.Name == "Walk" || m.Name == "WalkGetAttr" {
					want = walkWant(m, env, a, res)
				}
				if is := methods.CheckVals(fields, want, out.Vals); len(is) > 0 {
					fs = append(fs, finding{fp: "(d):" + rname + ":" + is[0].Field, msg: fmt.Sprintf("(d) %s: %s", m.Name, is[0].Msg)})
				}
			}
		}
	}
	r.done(pr, len(s.conn.Requests)+len(s.conn.Replies), fs)
}

// walkWant derives the values Walk/WalkGetAttr must return from the reply
// the table prescribes (the reply carries the QID list last).
func walkWant(m *methods.Method, env *methods.Env, a, res methods.V) []methods.V {
	rep := m.Reply(env, a, res)
	if m.Name == "Walk" {
		return []methods.V{{rep.Vals[0]}}
	}
	return []methods.V{append(append(methods.V{}, rep.Vals[:len(rep.Vals)-1]...), rep.Vals[len(rep.Vals)-1])}
}

// answerFor is the scripted reply to request t of method m with results res.
func answerFor(m *methods.Method, env *methods.Env, a, res methods.V, t refcodec.Msg) refcodec.Msg {
	enosys := refcodec.New(refcodec.Rlerror, 0, uint32(38))
	switch m.Name {
	case "WalkGetAttr":
		rep := m.Reply(env, a, res) // Rwalkgetattr: valid, 18 attributes, wqids
		switch t.Type {
		case refcodec.Twalkgetattr:
			return rep
		case refcodec.Twalk:
			return refcodec.New(refcodec.Rwalk, 0, rep.Vals[len(rep.Vals)-1])
		case refcodec.Tgetattr:
			v := []interface{}{rep.Vals[0], uint8(0), uint32(0), uint64(0)}
			if qs := rep.Vals[len(rep.Vals)-1].([]refcodec.QID); len(qs) > 0 {
				q := qs[len(qs)-1]
				v = []interface{}{rep.Vals[0], q.Type, q.Version, q.Path}
			}
			v = append(v, rep.Vals[1:len(rep.Vals)-1]...)
			return refcodec.New(refcodec.Rgetattr, 0, v...)
		}
		return enosys
	case "GetXattr", "ListXattrs":
		var value []byte
		if m.Name == "GetXattr" {
			value = res[0].([]byte)
		} else {
			value = methods.XattrListBytes(res[0].([]string))
		}
		switch t.Type {
		case refcodec.Txattrwalk:
			return refcodec.New(refcodec.Rxattrwalk, 0, uint64(len(value)))
		case refcodec.Tread:
			off, n := t.U("offset"), t.U("count")
			if off > uint64(len(value)) {
				off = uint64(len(value))
			}
			if off+n > uint64(len(value)) {
				n = uint64(len(value)) - off
			}
			return refcodec.New(refcodec.Rread, 0, append([]byte{}, value[off:off+n]...))
		case refcodec.Tclunk:
			return refcodec.New(refcodec.Rclunk, 0)
		}
		return enosys
	}
	if m.Reply == nil {
		return enosys
	}
	rep := m.Reply(env, a, res)
	if t.Type+1 != rep.Type {
		return enosys
	}
	return rep
}

// clientSessionCases: Tversion and Tattach as the client sends them, Rversion
// as the client reads it.
func (r *runner) clientSessionCases() {
	// (a) Tversion.msize over the u32 alphabet (the version string the
	// client asks for is fixed); (d) Rversion.version for every N.
	msizes := []uint64{4096, 8192, 0xffff, 0x10000, 0x7fffffff, 0x80000000, 0xfffffffe, 0xffffffff, 0xa1b2c3d4}
	for i, ms := range msizes {
		for _, version := range []int{0, 1, 2, 3, 4, 5, 6, 7} {
			devs := []methods.Dev{{F: 0, A: i}}
			if !r.mine("client", "Tversion", version, devs, "") {
				continue
			}
			pr := params{Part: "client", Name: "Tversion", Version: version, Devs: devs, Human: fmt.Sprintf("NewClient(msize %#x) against a scripted server answering version %d", ms, version)}
			sc := &script{version: version}
			conn := &fakesrv2.Conn{Script: sc.handle}
			cl, err := p9.NewClient(conn, p9.WithMessageSize(uint32(ms)))
			var fs []finding
			if err != nil || len(conn.Requests) == 0 {
				fs = append(fs, finding{fp: "client-setup:Tversion", msg: fmt.Sprintf("NewClient failed: %v", err)})
			} else {
				req := conn.Requests[0]
				r.produced("a", req.Raw, true)
				r.rep.Count("a_Tversion", 1)
				r.rep.Count("d_Rversion", 1)
				r.deviated("Tversion", "arg:msize")
				r.deviated("Rversion", "res:version")
				want := refcodec.New(refcodec.Tversion, 0, ms, "9P2000.L.Google.7")
				if f := compareFrame("(a)", []refcodec.Msg{resolve(want, req.Msg)}, req.Raw); f != nil {
					fs = append(fs, *f)
				} else if int(cl.Version()) != version {
					fs = append(fs, finding{fp: "(d):Rversion:version", msg: fmt.Sprintf("(d) Rversion carried %q, the client reports version %d", vproxy.VersionString(version), cl.Version())})
				}
			}
			r.done(pr, 2, fs)
		}
	}
	// (a) Tattach: the attach name is an arbitrary string
	names := methods.Strings(false)
	for i, name := range names {
		devs := []methods.Dev{{F: 0, A: i}}
		if !r.mine("client", "Tattach", 7, devs, "") {
			continue
		}
		pr := params{Part: "client", Name: "Tattach", Version: 7, Devs: devs, Human: "client Attach(" + methods.Show(name) + ")"}
		sc := &script{version: 7}
		conn := &fakesrv2.Conn{Script: sc.handle}
		var fs []finding
		cl, err := p9.NewClient(conn, p9.WithMessageSize(msizeC))
		if err == nil {
			_, err = cl.Attach(name)
		}
		ta, ok := lastReq(conn, refcodec.Tattach)
		if err != nil || !ok {
			// find the raw frame for the report
			fs = append(fs, finding{fp: "(a):Tattach:malformed", msg: fmt.Sprintf("(a) Attach(%s) failed (%v) or sent no parsable Tattach", methods.Show(name), err)})
		} else {
			raw := conn.Requests[len(conn.Requests)-1].Raw
			r.produced("a", raw, true)
			r.rep.Count("a_Tattach", 1)
			r.rep.Count("d_Rattach", 1)
			r.deviated("Tattach", "arg:aname")
			want := refcodec.New(refcodec.Tattach, ta.Tag, ta.U("fid"), uint32(0xffffffff), "", name, uint32(0xffffffff))
			if f := compareFrame("(a)", []refcodec.Msg{want}, raw); f != nil {
				fs = append(fs, *f)
			}
		}
		r.done(pr, 4, fs)
	}
	_ = bytes.Equal
}
