package c01

import (
	"fmt"
	"io"
	"strings"

	"github.com/hugelgupf/p9/linux"
	"github.com/hugelgupf/p9/p9"
	"verif/harness/memfs"
	"verif/harness/methods"
	"verif/harness/rawpeer"
	"verif/harness/refcodec"
	"verif/harness/sess"
	"verif/harness/vproxy"
)

// msizeS is the message size negotiated with the real server in directions
// (b)/(c): room for two 65535-byte strings (a 2-field deviation) plus the
// other fields.
const msizeS = 1 << 18

var serverVersions = []int{0, 2, 3, 7}

const (
	rootFid = 0x00c0ffee
	tgtFid  = 0x01020304 // default fid of the handle under test
	newFid  = 0x0a0b0c0d // default new fid of walks
)

var refFids = [4]uint64{0, 0x11111111, 0x22222222, 0x33333333}

type srvSess struct {
	s   *sess.Sess
	fs  *memfs.FS
	env *methods.Env
}

func (ss *srvSess) close() {
	ss.s.Hangup()
	ss.s.WaitDone()
}

// rpc sends one request and returns the raw reply frame.
func (ss *srvSess) rpc(m refcodec.Msg) ([]byte, refcodec.Msg, error) {
	if err := ss.s.Peer.SendRaw(refcodec.Encode(m)); err != nil {
		return nil, refcodec.Msg{}, err
	}
	raw, err := ss.s.Peer.RecvFrame()
	if err != nil {
		return nil, refcodec.Msg{}, err
	}
	r, _, derr := refcodec.Decode(raw)
	if derr != nil {
		return raw, r, nil
	}
	return raw, r, nil
}

func (ss *srvSess) must(m refcodec.Msg) (refcodec.Msg, error) {
	_, r, err := ss.rpc(m)
	if err != nil {
		return r, fmt.Errorf("%s: %v", m.Name(), err)
	}
	if r.Type == refcodec.Rlerror {
		return r, fmt.Errorf("%s answered Rlerror(%d)", m.Name(), r.U("ecode"))
	}
	return r, nil
}

func traceWalk(calls []*memfs.Call, from int, names []string) (h, parent int, ok bool) {
	cur, par := from, -1
	if len(names) == 0 {
		for _, c := range calls {
			if (c.Method == "Walk" || c.Method == "WalkGetAttr") && c.Handle == from && len(c.Names) == 0 && c.Err == nil && c.NewH >= 0 {
				return c.NewH, -1, true
			}
		}
		return -1, -1, false
	}
	for _, n := range names {
		found := false
		for _, c := range calls {
			if (c.Method == "Walk" || c.Method == "WalkGetAttr") && c.Handle == cur && len(c.Names) == 1 && c.Names[0] == n && c.Err == nil && c.NewH >= 0 {
				par, cur, found = cur, c.NewH, true
				break
			}
		}
		if !found {
			return -1, -1, false
		}
	}
	return cur, par, true
}

// newSrvSess starts a real server over a fixture and binds fid to a node of
// the wanted kind one level below the root.
func newSrvSess(version int, kind methods.Target, fid uint64, refs []int, walkLists [][]string, oldNames []string) (*srvSess, error) {
	fx := methods.NewFixture(1, kind, walkLists, oldNames)
	fs := fx.FS
	ss := &srvSess{fs: fs}
	ss.s = sess.Connect(fs, sess.NewServer(fs), "c01")
	fail := func(err error) (*srvSess, error) {
		ss.close()
		return nil, err
	}
	rv, err := ss.must(rawpeer.Tversion(rawpeer.NoTag, msizeS, vproxy.VersionString(version)))
	if err != nil {
		return fail(err)
	}
	if rv.S("version") != vproxy.VersionString(version) {
		return fail(fmt.Errorf("server answered version %q to %q", rv.S("version"), vproxy.VersionString(version)))
	}
	if _, err := ss.must(rawpeer.Tattach(1, rootFid, "")); err != nil {
		return fail(err)
	}
	rootH := -1
	for _, c := range fs.Calls {
		if c.Method == "Attach" && c.Err == nil {
			rootH = c.NewH
		}
	}
	cm := len(fs.Calls)
	if _, err := ss.must(rawpeer.Twalk(2, rootFid, uint32(fid), fx.Path...)); err != nil {
		return fail(err)
	}
	h, _, ok := traceWalk(fs.Calls[cm:], rootH, fx.Path)
	if !ok {
		return fail(fmt.Errorf("cannot follow the setup walk in the backend log"))
	}
	env := &methods.Env{Version: uint32(version), Msize: msizeS, Payload: msizeS - 64, Fid: fid, H: h, Parent: rootH, CurName: fx.Path[len(fx.Path)-1], Target: kind, RawL: true}
	env.Refs[methods.RefSelf] = methods.Ref{Fid: fid, H: h}
	for _, ri := range refs {
		var names []string
		switch ri {
		case methods.RefAuxDir:
			names = []string{methods.AuxDir}
		case methods.RefAuxFile:
			names = []string{methods.AuxFile}
		case methods.RefParent:
			names = nil // the parent of a level-1 node is the root
		}
		cm := len(fs.Calls)
		if _, err := ss.must(rawpeer.Twalk(3, rootFid, uint32(refFids[ri]), names...)); err != nil {
			return fail(err)
		}
		rh, _, ok := traceWalk(fs.Calls[cm:], rootH, names)
		if !ok {
			return fail(fmt.Errorf("cannot follow the auxiliary walk in the backend log"))
		}
		env.Refs[ri] = methods.Ref{Fid: refFids[ri], H: rh}
	}
	switch kind {
	case methods.TFileOpen:
		if _, err := ss.must(rawpeer.Tlopen(4, uint32(fid), 2)); err != nil {
			return fail(err)
		}
	case methods.TDirOpen:
		if _, err := ss.must(rawpeer.Tlopen(4, uint32(fid), 0)); err != nil {
			return fail(err)
		}
	}
	ss.env = env
	return ss, nil
}

// server-side space: arguments, results, error code, fid, tag.
type sspace struct {
	m      *methods.Method
	kind   methods.Target
	fields []methods.Field
	alpha  []methods.Alphabet
	na, nr int
	walks  [][]string
	olds   []string
}

func (s *sspace) eField() int   { return s.na + s.nr }
func (s *sspace) fidField() int { return s.na + s.nr + 1 }
func (s *sspace) tagField() int { return s.na + s.nr + 2 }

// fids usable for the handle under test (NOFID is the "no fid" sentinel and
// the fixed fids of the session are excluded).
var fidAlphabet = []uint64{0xfffffffe, 0, 1, 0xff, 0x100, 0xffff, 0x10000, 0x7fffffff, 0x80000000, 0xa1b2c3d4}

func (r *runner) serverSpace(m *methods.Method) *sspace {
	s := &sspace{m: m, kind: m.Targets[0], na: len(m.Args)}
	if m.NeedParent || m.Name == "Open" {
		// Open: a directory only opens read-only (the flags range freely)
		s.kind = methods.TFile
	}
	o := methods.WidthOpts{Payload: msizeS - 64, Components: true, MaxData: 4096}
	for _, f := range m.Args {
		a := methods.Width(f, o)
		switch {
		case f.Kind == methods.KLen:
			a = methods.Clean(f.Def, methods.Alphabet{Vals: u64vals([]uint64{0, 1, 511, 512, 513, msizeS - 12, msizeS - 11}), Red: 2})
		case f.Kind == methods.KOff && m.Name == "WriteAt":
			var keep []interface{}
			for _, v := range a.Vals {
				if x := v.(int64); x >= 0 && x < 1<<62 {
					keep = append(keep, v)
				}
			}
			a.Vals = keep
		case f.Kind == methods.KNames:
			for _, v := range a.Vals {
				s.walks = append(s.walks, v.([]string))
			}
			s.walks = append(s.walks, f.Def.([]string))
		case f.Kind == methods.KOldName:
			for _, v := range a.Vals {
				s.olds = append(s.olds, v.(string))
			}
			s.olds = append(s.olds, f.Def.(string))
		}
		if a.Red > len(a.Vals) {
			a.Red = len(a.Vals)
		}
		s.fields = append(s.fields, f)
		s.alpha = append(s.alpha, a)
	}
	res := m.Res
	switch m.Name {
	case "ReadAt":
		res = []methods.Field{{Name: "data", Kind: methods.KLen, Def: full}}
	case "WriteAt":
		res = []methods.Field{{Name: "count", Kind: methods.KLen, Def: full}}
	}
	s.nr = len(res)
	for _, f := range res {
		a := methods.Width(f, o)
		switch m.Name {
		case "ReadAt":
			a = methods.Clean(f.Def, methods.Alphabet{Vals: u64vals([]uint64{0, 1, 511, 512, 513}), Red: 2})
		case "WriteAt":
			a = methods.Clean(f.Def, methods.Alphabet{Vals: u64vals([]uint64{0, 1, 36}), Red: 2})
		}
		s.fields = append(s.fields, f)
		s.alpha = append(s.alpha, a)
	}
	s.fields = append(s.fields, methods.Field{Name: "Rlerror.ecode", Def: nil})
	s.alpha = append(s.alpha, methods.Alphabet{Vals: u64vals(methods.W32()), Red: 2})
	s.fields = append(s.fields, methods.Field{Name: "fid", Def: uint64(tgtFid)})
	s.alpha = append(s.alpha, methods.Alphabet{Vals: u64vals(fidAlphabet), Red: 2})
	s.fields = append(s.fields, methods.Field{Name: "tag", Def: uint64(0x0a0b)})
	s.alpha = append(s.alpha, methods.Alphabet{Vals: u64vals(methods.W16()), Red: 2})
	return s
}

func (s *sspace) pairOK(i, j int) bool {
	e := s.eField()
	isRes := func(x int) bool { return x >= s.na && x < s.na+s.nr }
	return !((i == e && isRes(j)) || (j == e && isRes(i)))
}

// partServer: directions (b) and (c).
func (r *runner) partServer() {
	table := methods.Table(msizeS - 64)
	for _, m := range table {
		if m.Local {
			continue // no message exists for them
		}
		s := r.serverSpace(m)
		for _, version := range serverVersions {
			if m.Name == "WalkGetAttr" && version < 2 {
				continue // Twalkgetattr is not defined below version 2
			}
			r.enumerate(s.alpha, s.pairOK, func(devs []methods.Dev) {
				if !r.mine("server", m.Name, version, devs, "") {
					return
				}
				r.serverCase(s, version, devs)
			})
		}
	}
}

func (r *runner) serverCase(s *sspace, version int, devs []methods.Dev) {
	m := s.m
	a := methods.Apply(s.fields[:s.na], s.alpha[:s.na], 0, devs)
	res := methods.Apply(s.fields[s.na:s.na+s.nr], s.alpha[s.na:s.na+s.nr], s.na, devs)
	fid, tag := uint64(tgtFid), uint16(0x0a0b)
	var ecode *uint32
	for _, d := range devs {
		switch d.F {
		case s.eField():
			v := uint32(s.alpha[d.F].Vals[d.A].(uint64))
			ecode = &v
		case s.fidField():
			fid = s.alpha[d.F].Vals[d.A].(uint64)
		case s.tagField():
			tag = uint16(s.alpha[d.F].Vals[d.A].(uint64))
		}
	}
	human := fmt.Sprintf("raw %s request for %s%s on fid %#x, tag %#x, version %d", m.Name, m.Name, methods.ShowVec(m.Args, a), fid, tag, version)
	if ecode != nil {
		human += fmt.Sprintf("; backend fails with linux.Errno(%#x)", *ecode)
	} else if len(res) > 0 {
		human += "; backend returns " + methods.ShowVec(s.fields[s.na:s.na+s.nr], res)
	}
	pr := params{Part: "server", Name: m.Name, Version: version, Devs: devs, Human: human}
	ss, err := newSrvSess(version, s.kind, fid, m.Refs, s.walks, s.olds)
	if err != nil {
		r.done(pr, 0, []finding{{fp: "server-setup:" + m.Name, msg: "server session could not be set up: " + err.Error()}})
		return
	}
	defer ss.close()
	env, fs := ss.env, ss.fs
	var inj *methods.Inject
	if ecode != nil {
		inj = &methods.Inject{Spec: &methods.ErrSpec{Name: fmt.Sprintf("linux.Errno(%#x)", *ecode), Class: "linux.Errno", Err: linux.Errno(*ecode)}}
	}

	// the request, the backend behaviour, the expected reply
	var req refcodec.Msg
	var wantR []refcodec.Msg
	var fsnd []finding
	steps := 0
	switch m.Name {
	case "ReadAt":
		count, off := methods.U(a[0]), methods.U(a[1])
		req = refcodec.New(refcodec.Tread, tag, fid, off, count)
		served := methods.U(res[0])
		if served == full || served > count {
			served = count
		}
		fs.Hook = func(c *memfs.Call) *memfs.Action {
			if c.Method != "ReadAt" {
				return nil
			}
			if inj != nil {
				return &memfs.Action{Err: inj.Spec.Err}
			}
			return &memfs.Action{Override: &memfs.Override{Data: append([]byte{}, methods.Pattern(off, int(served))...)}}
		}
		wantR = []refcodec.Msg{refcodec.New(refcodec.Rread, tag, methods.Pattern(off, int(served)))}
	case "WriteAt":
		data, off := a[0].([]byte), methods.U(a[1])
		req = refcodec.New(refcodec.Twrite, tag, fid, off, data)
		n := methods.U(res[0])
		if n == full || n > uint64(len(data)) {
			n = uint64(len(data))
		}
		fs.Hook = func(c *memfs.Call) *memfs.Action {
			if c.Method != "WriteAt" {
				return nil
			}
			if inj != nil {
				return &memfs.Action{Err: inj.Spec.Err}
			}
			k := int(n)
			return &memfs.Action{Override: &memfs.Override{N: &k}}
		}
		wantR = []refcodec.Msg{refcodec.New(refcodec.Rwrite, tag, n)}
	default:
		w := m.Wire(env, a, res)
		req = resolve(w[0], refcodec.Msg{})
		req.Tag = tag
		for i := range req.Vals {
			// the new fid of walks
			if u, ok := w[0].Vals[i].(uint64); ok && u == methods.AnyFid {
				req.Vals[i] = uint64(newFid)
			}
		}
		fs.Hook = m.MakeHook(env, a, res, inj)
		rep := m.Reply(env, a, res)
		rep.Tag = tag
		wantR = []refcodec.Msg{rep}
		if m.Name == "ListXattrs" && len(res[0].([]string)) == 0 {
			// an empty list: size 0 or a lone NUL
			alt := refcodec.New(refcodec.Rxattrwalk, tag, uint64(0))
			wantR = append(wantR, alt)
		}
	}
	if inj != nil {
		wantR = []refcodec.Msg{refcodec.New(refcodec.Rlerror, tag, *ecode)}
	}
	tname := refcodec.Defs[req.Type].Name
	for _, d := range devs {
		switch {
		case d.F < s.na:
			r.deviated(tname, "arg:"+s.fields[d.F].Name)
		case d.F < s.eField():
			r.deviated(refcodec.Defs[wantR[0].Type].Name, "res:"+s.fields[d.F].Name)
		case d.F == s.eField():
			r.deviated("Rlerror", "ecode")
		default:
			r.deviated(tname, s.fields[d.F].Name)
		}
	}

	cm := len(fs.Calls)
	raw, got, err := ss.rpc(req)
	fs.Hook = nil
	steps += 2
	if err != nil {
		r.done(pr, steps, []finding{{fp: "(b):" + tname + ":no-reply", msg: fmt.Sprintf("(b) the server did not answer %s: %v", show(req), err)}})
		return
	}
	calls := fs.Calls[cm:]
	r.rep.Count("b_"+tname, 1)
	r.rep.Count("c_"+got.Name(), 1)
	resOnly := true
	for _, d := range devs {
		if d.F < s.na || d.F == s.fidField() {
			resOnly = false
		}
	}
	r.produced("c", raw, resOnly)

	// (b) what the backend saw
	var is []methods.Issue
	switch m.Name {
	case "ReadAt":
		count := methods.U(a[0])
		is = methods.CheckBackend([]methods.ExpCall{{Method: "ReadAt", On: env.H, Args: methods.V{methods.OneOf{int64(count), int64(clampS(count))}, a[1]}, ArgNames: []string{"count", "offset"}}}, calls)
	case "WriteAt":
		is = methods.CheckBackend([]methods.ExpCall{{Method: "WriteAt", On: env.H, Args: methods.V{a[0], a[1]}, ArgNames: []string{"data", "offset"}}}, calls)
	case "Walk", "WalkGetAttr":
		out := methods.Outcome{Err: nil}
		if got.Type == refcodec.Rlerror {
			out.Err = linux.Errno(got.U("ecode"))
		} else {
			out.File = nonNilFile{}
			if got.Type == wantR[0].Type {
				if m.Name == "Walk" {
					out.Vals = methods.V{got.Vals[0]}
				} else {
					out.Vals = append(methods.V{}, got.Vals...)
				}
			}
		}
		env2 := *env
		if m.Name == "WalkGetAttr" {
			env2.Version = 7 // one Twalkgetattr was sent whatever the session's version
		}
		if len(out.Vals) > 0 || out.Err != nil {
			is = m.Judge(&env2, a, res, inj, calls, out)
		}
	default:
		is = methods.CheckBackend(m.Backend(env, a), calls)
	}
	if len(is) > 0 {
		fsnd = append(fsnd, finding{fp: fmt.Sprintf("(b):%s:%s:%s", tname, is[0].Clause, is[0].Field), msg: "(b) " + is[0].Msg, detail: []string{"request " + show(req), "reply   " + show(got)}})
	}
	// (c) the reply bytes
	if len(fsnd) == 0 {
		if f := compareFrame("(c)", wantR, raw); f != nil {
			fsnd = append(fsnd, *f)
		}
	}
	// (c) continued: the value of an xattr is read back from the new fid
	if len(fsnd) == 0 && inj == nil && (m.Name == "GetXattr" || m.Name == "ListXattrs") {
		var value []byte
		if m.Name == "GetXattr" {
			value = res[0].([]byte)
		} else {
			value = methods.XattrListBytes(res[0].([]string))
		}
		if size := got.U("size"); size > 0 && size == uint64(len(value)) && size < msizeS-64 {
			raw2, got2, err := ss.rpc(refcodec.New(refcodec.Tread, tag, uint64(newFid), uint64(0), size))
			steps += 2
			if err != nil {
				fsnd = append(fsnd, finding{fp: "(c):Rread:xattr-no-reply", msg: fmt.Sprintf("(c) reading the xattr value: %v", err)})
			} else {
				r.rep.Count("c_"+got2.Name(), 1)
				r.produced("c", raw2, resOnly)
				if f := compareFrame("(c)", []refcodec.Msg{refcodec.New(refcodec.Rread, tag, value)}, raw2); f != nil {
					fsnd = append(fsnd, *f)
				}
			}
		}
	}
	r.done(pr, steps+8, fsnd)
}

// clampS is a read count clamped to what fits the negotiated msize.
func clampS(count uint64) uint64 {
	if count > msizeS-11 {
		return msizeS - 11
	}
	return count
}

// nonNilFile stands for "a fid was bound" when the walk oracle of the table
// judges a raw exchange.
type nonNilFile struct{ p9.File }

var _ = io.EOF
var _ = strings.Join
