package c01

import (
	"bytes"
	"fmt"
	"sort"

	"github.com/hugelgupf/p9/p9"
	"verif/harness/methods"
	"verif/harness/refcodec"
)

// mfield is one field of a message type in message-field space.
type mfield struct {
	name string
	kind byte   // refcodec kind; 'T' for the tag
	role string // "", "perm", "gamask", "samask"
	def  interface{}
}

func roleOf(t uint8, name string) string {
	switch t {
	case refcodec.Tlcreate, refcodec.Tucreate, refcodec.Tmkdir, refcodec.Tumkdir, refcodec.Tsetattr:
		if name == "mode" {
			return "perm"
		}
	}
	switch {
	case t == refcodec.Tgetattr && name == "request_mask",
		(t == refcodec.Rgetattr || t == refcodec.Rwalkgetattr) && name == "valid":
		return "gamask"
	case t == refcodec.Tsetattr && name == "valid":
		return "samask"
	}
	return ""
}

func typeFields(t uint8) []mfield {
	out := []mfield{{name: "tag", kind: 'T', def: uint64(0x0a0b)}}
	for i, f := range refcodec.Defs[t].Fields {
		mf := mfield{name: f.Name, kind: f.Kind, role: roleOf(t, f.Name)}
		switch f.Kind {
		case refcodec.U8:
			mf.def = uint64(0x11 + 3*i)
		case refcodec.U16:
			mf.def = uint64(0x0102 + 0x1010*i)
		case refcodec.U32:
			mf.def = uint64(uint32(0x01020304 + 0x10101010*uint32(i)))
		case refcodec.U64:
			mf.def = 0x0102030405060708 + 0x1010101010101010*uint64(i)
		case refcodec.Str:
			mf.def = "dflt-" + f.Name
		case refcodec.Names:
			mf.def = []string{"na", "nb"}
		case refcodec.QIDs:
			mf.def = []refcodec.QID{{Type: 0x80, Version: 0x0a0b0c0d, Path: 0x1112131415161718}, {Type: 2, Version: 0x1a1b1c1d, Path: 0x2122232425262728}}
		case refcodec.Data:
			mf.def = methods.Pattern(5, 37)
		case refcodec.Dirs:
			mf.def = methods.DefaultDirents()
		}
		switch mf.role {
		case "perm":
			mf.def = uint64(0o4751)
		case "gamask":
			mf.def = uint64(0x2d6b)
		case "samask":
			mf.def = uint64(0x1b5)
		}
		out = append(out, mf)
	}
	return out
}

func u64vals(xs []uint64) []interface{} {
	out := make([]interface{}, len(xs))
	for i, x := range xs {
		out[i] = x
	}
	return out
}

var rtAlphaCache = map[string]methods.Alphabet{}

func (r *runner) rtAlphabet(t uint8, f mfield) methods.Alphabet {
	key := fmt.Sprintf("%c|%s|%v", f.kind, f.role, f.name == "mode")
	if f.kind == refcodec.Str || f.kind == refcodec.U8 || f.kind == refcodec.U16 || f.kind == refcodec.U32 || f.kind == refcodec.U64 {
		key += fmt.Sprint(f.def)
	}
	if a, ok := rtAlphaCache[key]; ok {
		return a
	}
	var a methods.Alphabet
	switch f.kind {
	case 'T', refcodec.U16:
		a.Vals = u64vals(methods.W16())
	case refcodec.U8:
		a.Vals = u64vals(methods.W8())
	case refcodec.U32:
		a.Vals = u64vals(methods.W32())
		if f.name == "mode" {
			a.Vals = append(u64vals([]uint64{0o7777, 0o170000, 0o177777, 0o10000, 0o4000, 0o2000, 0o1000, 0o777, 0o100644, 0o40755}), a.Vals...)
		}
		if f.role == "samask" {
			a.Vals = u64vals([]uint64{0x1ff, 0})
			for v := uint64(1); v < 0x1ff; v++ {
				a.Vals = append(a.Vals, v)
			}
			a.Vals = append(a.Vals, uint64(0xffffffff), uint64(0x200), uint64(0x80000000), uint64(0xa1b2c3d4))
		}
	case refcodec.U64:
		a.Vals = u64vals(methods.W64())
		if f.role == "gamask" {
			a.Vals = u64vals([]uint64{0x3fff, 0})
			for v := uint64(1); v < 0x3fff; v++ {
				a.Vals = append(a.Vals, v)
			}
			a.Vals = append(a.Vals, uint64(0xffffffffffffffff), uint64(0x4000), uint64(0x8000000000000000), uint64(0xa1b2c3d4e5f60718))
		}
	case refcodec.Str:
		for _, s := range methods.Strings(false) {
			a.Vals = append(a.Vals, s)
		}
	case refcodec.Names:
		for _, l := range methods.NameLists() {
			a.Vals = append(a.Vals, l)
		}
		// name positions also take arbitrary strings at this level
		for _, s := range []string{"", ".", "..", methods.MkString(255, methods.CSlash), methods.MkString(65535, methods.CSlash)} {
			a.Vals = append(a.Vals, []string{s})
		}
	case refcodec.QIDs:
		for _, l := range methods.QIDLists() {
			a.Vals = append(a.Vals, l)
		}
	case refcodec.Data:
		for _, n := range methods.PayloadLens(r.payloadC) {
			a.Vals = append(a.Vals, methods.Pattern(uint64(n)+11, n))
		}
	case refcodec.Dirs:
		for _, l := range methods.DirentLists() {
			a.Vals = append(a.Vals, l)
		}
	}
	a.Red = 2
	if len(a.Vals) < 2 {
		a.Red = len(a.Vals)
	}
	a = methods.Clean(f.def, a)
	rtAlphaCache[key] = a
	return a
}

// capAlpha limits alphabets to their first n values (for pairs).
func capAlpha(as []methods.Alphabet, n int) []methods.Alphabet {
	out := make([]methods.Alphabet, len(as))
	for i, a := range as {
		out[i] = a
		if len(a.Vals) > n {
			out[i].Vals = a.Vals[:n]
		}
		if out[i].Red > len(out[i].Vals) {
			out[i].Red = len(out[i].Vals)
		}
	}
	return out
}

// pairCap limits each alphabet for the 2-field deviations: 24 values in the
// quick tier, 64 in the thorough tier (only the exhaustive mask alphabets
// are longer than that).
func (r *runner) pairCap() int {
	if r.ctx.Quick() {
		return 24
	}
	return 64
}

// enumerate yields the deviation sets of a space: defaults, all single
// deviations over the full alphabets, pairs over the capped alphabets.
func (r *runner) enumerate(alpha []methods.Alphabet, ok func(i, j int) bool, yield func(devs []methods.Dev)) {
	methods.EnumDevs(alpha, false, false, nil, yield)
	methods.EnumDevs(capAlpha(alpha, r.pairCap()), true, !r.ctx.Quick(), ok, func(devs []methods.Dev) {
		if len(devs) == 2 {
			yield(devs)
		}
	})
}

func buildMsg(t uint8, fields []mfield, alpha []methods.Alphabet, devs []methods.Dev) refcodec.Msg {
	vals := make([]interface{}, len(fields))
	for i, f := range fields {
		vals[i] = f.def
	}
	for _, d := range devs {
		vals[d.F] = alpha[d.F].Vals[d.A]
	}
	return refcodec.Msg{Type: t, Tag: uint16(vals[0].(uint64)), Vals: vals[1:]}
}

// rewritten lists the acceptable decoded-and-re-encoded forms of a message.
func rewritten(m refcodec.Msg, fields []mfield) []refcodec.Msg {
	base := refcodec.Msg{Type: m.Type, Tag: m.Tag, Vals: append([]interface{}{}, m.Vals...)}
	alts := []refcodec.Msg{base}
	for i, f := range fields[1:] {
		switch f.role {
		case "perm":
			for k := range alts {
				alts[k].Vals[i] = alts[k].Vals[i].(uint64) & 0o7777
			}
		case "gamask", "samask":
			mask := uint64(0x3fff)
			if f.role == "samask" {
				mask = 0x1ff
			}
			if v := base.Vals[i].(uint64); v&^mask != 0 {
				c := refcodec.Msg{Type: m.Type, Tag: m.Tag, Vals: append([]interface{}{}, alts[0].Vals...)}
				c.Vals[i] = v & mask
				alts = append(alts, c)
			}
		}
	}
	return alts
}

// firstDiff names the first field in which two messages of one type differ.
func firstDiff(want, got refcodec.Msg) string {
	if want.Type != got.Type {
		return "type"
	}
	if want.Tag != got.Tag {
		return "tag"
	}
	for i, f := range refcodec.Defs[want.Type].Fields {
		if i >= len(got.Vals) || !methods.Eq(want.Vals[i], got.Vals[i]) {
			return f.Name
		}
	}
	return "?"
}

// compareFrame compares a frame p9 produced with the acceptable messages.
func compareFrame(clause string, want []refcodec.Msg, got []byte) *finding {
	for _, w := range want {
		if bytes.Equal(refcodec.Encode(w), got) {
			return nil
		}
	}
	name := refcodec.Defs[want[0].Type].Name
	g, trailing, err := refcodec.Decode(got)
	if err != nil {
		return &finding{fp: fmt.Sprintf("%s:%s:malformed", clause, name), msg: fmt.Sprintf("%s: p9 produced a frame the layout table cannot parse as %s: %v", clause, name, err),
			detail: []string{"expected " + show(want[0]), fmt.Sprintf("got %d bytes: %x", len(got), got[:minInt(len(got), 64)])}}
	}
	if g.Type != want[0].Type {
		return &finding{fp: fmt.Sprintf("%s:%s:type", clause, name), msg: fmt.Sprintf("%s: expected %s, p9 produced %s", clause, name, g.Name()),
			detail: []string{"expected " + show(want[0]), "got      " + show(g)}}
	}
	field := firstDiff(want[0], g)
	if field == "?" && trailing > 0 {
		field = "trailing-bytes"
	}
	return &finding{fp: fmt.Sprintf("%s:%s:%s", clause, name, field), msg: fmt.Sprintf("%s: %s field %s differs from the layout (or the frame has another length)", clause, name, field),
		detail: []string{"expected " + show(want[0]), "got      " + show(g), fmt.Sprintf("expected %d bytes, got %d bytes (%d trailing)", len(refcodec.Encode(want[0])), len(got), trailing)}}
}

func minInt(a, b int) int {
	if a < b {
		return a
	}
	return b
}

// partRT: decode with p9's receiver, re-send with p9's sender, all 65 types.
func (r *runner) partRT() {
	var types []int
	for t := range refcodec.Defs {
		types = append(types, int(t))
	}
	sort.Ints(types)
	for _, ti := range types {
		t := uint8(ti)
		name := refcodec.Defs[t].Name
		fields := typeFields(t)
		alpha := make([]methods.Alphabet, len(fields))
		for i, f := range fields {
			alpha[i] = r.rtAlphabet(t, f)
			if len(alpha[i].Vals) == 0 {
				// vacuity guard: every field of every type must deviate
				r.rep.NotExhaustive(fmt.Sprintf("field %s of %s has an empty alphabet", f.name, name))
			}
			if r.ctx.Shard == 0 && r.replay == nil {
				r.rep.Count("fields_of_all_types", 1)
			}
		}
		r.enumerate(alpha, nil, func(devs []methods.Dev) {
			if !r.mine("rt", name, 0, devs, "") {
				return
			}
			m := buildMsg(t, fields, alpha, devs)
			in := refcodec.Encode(m)
			for _, d := range devs {
				r.deviated(name, fields[d.F].name)
			}
			r.rep.Count("rt_"+name, 1)
			pr := params{Part: "rt", Name: name, Devs: devs, Human: "VerifRoundTrip of " + show(m)}
			var out bytes.Buffer
			var fs []finding
			if err := p9.VerifRoundTrip(bytes.NewReader(in), &out, 4<<20); err != nil {
				fs = append(fs, finding{fp: "roundtrip:" + name + ":rejected", msg: fmt.Sprintf("p9's receiver rejects a canonical %s frame: %v", name, err), detail: []string{fmt.Sprintf("%d bytes", len(in))}})
			} else {
				r.produced("rt", out.Bytes(), true)
				if f := compareFrame("roundtrip", rewritten(m, fields), out.Bytes()); f != nil {
					fs = append(fs, *f)
				}
			}
			r.done(pr, 2, fs)
		})
	}
}
