// Package selftest is a small reference check used to validate the framework
// itself: a free-running (real goroutines) sequential session against the
// real server, and the same body under the controlled scheduler.
package selftest

import (
	"fmt"

	"verif/harness/fw"
	"verif/harness/memfs"
	"verif/harness/rawpeer"
	"verif/harness/refcodec"
	"verif/harness/sess"
	"verif/rt/vsched"
)

func init() {
	fw.Register(&fw.Prop{ID: "SELFTEST", Run: run, QuickSecs: 20, ThoroughSecs: 20})
}

func session(rep *fw.Report) string {
	fs := memfs.New()
	fs.AddFile("d/x", []byte("hello world"))
	s := sess.Connect(fs, sess.NewServer(fs), "c")
	s.Version(8192)
	s.Attach(1)
	s.Walk(1, 2, "d", "x")
	s.Open(2, 0)
	vsched.BeginExplore()
	r := s.Do(rawpeer.Tread(s.Tag(), 2, 0, 100))
	out := fmt.Sprintf("%v", r)
	r = s.Do(rawpeer.Tclunk(s.Tag(), 99))
	out += fmt.Sprintf(" %v errno=%d", r.Name(), rawpeer.Errno(r))
	vsched.EndExplore()
	s.Hangup()
	s.WaitDone()
	return out
}

func run(ctx *fw.Ctx, rep *fw.Report) {
	rep.Rule = "framework self test"
	// 1. free mode: real goroutines, real sync.
	free := session(rep)
	rep.Sample(map[string]string{"free": free})
	rep.Distinct("free:" + free)
	// 2. the same body as a scenario under the scheduler.
	sc := &fw.Scenario{Name: "selftest", New: func() (func(), func(*vsched.Execution) ([]fw.Issue, string)) {
		var out string
		return func() { out = session(rep) }, func(e *vsched.Execution) ([]fw.Issue, string) {
			var is []fw.Issue
			if out != free && e.End == vsched.EndComplete {
				is = append(is, fw.Issue{Fingerprint: "selftest-differs", Summary: "controlled run differs from free run: " + out})
			}
			return is, out
		}
	}}
	fw.RunScenario(ctx, rep, sc, fw.SchedOpts{Budget: 10e9, ForcePB: -1, Fallback: []int{0}, Deviations: -1})
	_ = refcodec.Rread
}
