// Package c19 checks: directory listing returns every entry exactly once and
// listed QIDs agree with Walk/GetAttr (DESIGN.md §4 C19).
//
// Property text: "Listing a directory by repeated Readdir calls, each
// starting at the Offset of the last entry received, returns every entry
// exactly once whatever byte count is requested (as long as one entry fits),
// for the local, static and composed file systems, directly and through the
// server's truncation of replies to whole entries within the requested
// count. Each listed entry's QID and type equal what Walk to that name and
// GetAttr on it report."
//
// The check enumerates a complete grid (file system x way of listing x msize
// x name length x directory size x byte count, see rule()) and performs every
// listing against the real code:
//
//	file-all       File.Readdir(offset, count) called directly; everything a
//	               call returns is "received" (this is how fsimpl/test lists);
//	file-cut       File.Readdir called directly the way the server drives it:
//	               the returned entries are cut to the whole entries that fit
//	               into count bytes (what treaddir.handle + rreaddir.encode
//	               do; entry sizes from the independent refcodec), only those
//	               are "received", and the next call starts at the Offset of
//	               the last of them;
//	client-server  real p9.Client over a net.Pipe against the real p9.Server.
//
// A byte count smaller than one entry is outside the statement and is never
// requested: all names of a listed directory have the same length, so "one
// entry fits" is count >= 24 + len(name).
package c19

import (
	"encoding/json"
	"errors"
	"fmt"
	"io"
	"os"
	"sort"
	"strings"
	"sync/atomic"
	"time"

	"github.com/hugelgupf/p9/p9"
	"verif/harness/fw"
	"verif/harness/refcodec"
)

func init() {
	fw.Register(&fw.Prop{ID: "C19", Run: run, Sharded: true, QuickSecs: 60, ThoroughSecs: 840})
}

const scenario = "paged-listing"

type caseP struct {
	FS    string `json:"fs"`
	Via   string `json:"via"`
	Msize uint32 `json:"msize"` // 0: not applicable (direct File access, count list is the union over both msize values)
	L     int    `json:"name_len"`
	N     int    `json:"n"`
	Count uint32 `json:"count"`
}

var (
	nameLens = []int{1, 17, 255}
	msizes   = []uint32{4096, 65536}
)

const replyOverhead = 11 // size[4] type[1] tag[2] count[4]

func dirSizes(quick bool) []int {
	var ns []int
	for n := 0; n <= 40; n++ {
		ns = append(ns, n)
	}
	if !quick {
		ns = append(ns, 1000, 5000)
	}
	return ns
}

// Count grids.
const (
	gridFull  = iota // thorough tier
	gridQuick        // quick tier
	gridMin          // search for the smallest failing case
)

// ks returns the numbers of entries k for which byte counts k*E-1, k*E and
// k*E+1 are requested (E = size of one entry), k*E+1 <= msize-11.
//
//	thorough, n <= 40: every k = 1..kmax (the complete "steps of one entry");
//	quick,    n <= 40: the same for msize 4096; for msize 65536 only
//	                   k = 1..n+2 and kmax-1, kmax (for k > n+1 and a count
//	                   below msize-11 the whole directory fits into the first
//	                   reply, whatever k);
//	minimisation:      k = 1..n+2 and kmax-1, kmax for both msize values;
//	n >= 1000:         k = 1..8, every power of two and its two neighbours,
//	                   n-1, n, n+1, kmax-1, kmax.
func ks(e, n int, msize uint32, grid int) []int {
	kmax := (int(msize) - replyOverhead - 1) / e
	set := map[int]bool{}
	add := func(k int) {
		if k >= 1 && k <= kmax {
			set[k] = true
		}
	}
	switch {
	case n >= 1000:
		for k := 1; k <= 8; k++ {
			add(k)
		}
		for p := 1; p <= kmax; p *= 2 {
			add(p - 1)
			add(p)
			add(p + 1)
		}
		add(n - 1)
		add(n)
		add(n + 1)
	case grid == gridMin || (grid == gridQuick && msize > 4096):
		for k := 1; k <= n+2; k++ {
			add(k)
		}
	default:
		for k := 1; k <= kmax; k++ {
			add(k)
		}
	}
	add(kmax - 1)
	add(kmax)
	var out []int
	for k := range set {
		out = append(out, k)
	}
	sort.Ints(out)
	return out
}

// counts is the list of byte counts for one (entry size, n, msize).
func counts(e, n int, msize uint32, grid int) []uint32 {
	set := map[uint32]bool{}
	add := func(c int64) {
		if c >= int64(e) && c <= 0xffffffff {
			set[uint32(c)] = true
		}
	}
	for _, k := range ks(e, n, msize, grid) {
		add(int64(k*e) - 1)
		add(int64(k * e))
		add(int64(k*e) + 1)
	}
	m := int64(msize)
	// around the largest payload that fits into one reply, around msize, beyond.
	for _, c := range []int64{m - replyOverhead - 1, m - replyOverhead, m - replyOverhead + 1, m - 1, m, m + 1, m + int64(e), 2 * m, 2*m + 1, 0xffffffff} {
		add(c)
	}
	out := make([]uint32, 0, len(set))
	for c := range set {
		out = append(out, c)
	}
	sort.Slice(out, func(i, j int) bool { return out[i] < out[j] })
	return out
}

// group is one (fs, name length, n, via, msize) with its list of counts.
type group struct {
	kind   string
	l, n   int
	via    string
	msize  uint32 // 0 for direct access
	counts []uint32
}

// groupsFor enumerates the groups of one instance in a fixed order.
func groupsFor(kind string, l, n int, grid int) []group {
	e := refcodec.DirentSize(strings.Repeat("x", effLen(l, n)))
	var gs []group
	for _, via := range vias {
		if via == vClient {
			for _, m := range msizes {
				gs = append(gs, group{kind, l, n, via, m, counts(e, n, m, grid)})
			}
			continue
		}
		// direct access does not know about msize: one group over the
		// union of both count lists, so that no case is enumerated twice.
		set := map[uint32]bool{}
		var u []uint32
		for _, m := range msizes {
			for _, c := range counts(e, n, m, grid) {
				if !set[c] {
					set[c] = true
					u = append(u, c)
				}
			}
		}
		sort.Slice(u, func(i, j int) bool { return u[i] < u[j] })
		gs = append(gs, group{kind, l, n, via, 0, u})
	}
	return gs
}

// ---- one listing -----------------------------------------------------------

type listing struct {
	entries  []p9.Dirent
	calls    int // Readdir calls
	pages    int // non-empty replies
	maxPage  int // most entries received from one call
	err      error
	errStage string
	nonterm  bool
	aborted  bool // soft budget
	bigReply int  // replies (client-server) larger than the requested count
}

var progress int64 // watchdog

func doListing(ctx *fw.Ctx, in *instance, via string, msize uint32, count uint32) *listing {
	ls := &listing{}
	var dir p9.File
	var err error
	if via == vClient {
		dir, err = in.freshClient(msize)
	} else {
		dir, err = in.freshDirect()
	}
	if err != nil {
		ls.err, ls.errStage = err, "walk"
		return ls
	}
	defer func() {
		dir.Close()
		in.calls++
	}()
	_, _, err = dir.Open(p9.ReadOnly)
	in.calls++
	if err != nil {
		ls.err, ls.errStage = err, "open"
		return ls
	}
	maxCalls := 2*in.n + 8
	offset := uint64(0)
	for {
		if ls.calls >= maxCalls {
			ls.nonterm = true
			return ls
		}
		if ls.calls&255 == 255 && ctx.Expired() {
			ls.aborted = true
			return ls
		}
		ents, err := dir.Readdir(offset, count)
		ls.calls++
		in.calls++
		atomic.AddInt64(&progress, 1)
		eof := false
		if err != nil {
			// The server accepts io.EOF from a backend (treaddir.handle).
			if via != vClient && errors.Is(err, io.EOF) {
				eof = true
			} else {
				ls.err, ls.errStage = err, "readdir"
				return ls
			}
		}
		recv := []p9.Dirent(ents)
		switch via {
		case vFileCut:
			// rreaddir.encode: whole entries while the running size stays within count.
			size, kept := 0, 0
			for _, d := range recv {
				size += refcodec.DirentSize(d.Name)
				if size > int(count) {
					break
				}
				kept++
			}
			recv = recv[:kept]
		case vClient:
			size := 0
			for _, d := range recv {
				size += refcodec.DirentSize(d.Name)
			}
			if size > int(count) {
				ls.bigReply++
			}
		}
		if len(recv) == 0 {
			return ls
		}
		ls.pages++
		if len(recv) > ls.maxPage {
			ls.maxPage = len(recv)
		}
		ls.entries = append(ls.entries, recv...)
		offset = recv[len(recv)-1].Offset
		if eof {
			return ls
		}
		if via == vFileClone {
			if _, clone, err := dir.Walk(nil); err != nil {
				ls.err, ls.errStage = err, "clone"
				return ls
			} else {
				clone.Close()
				in.calls += 2
			}
		}
	}
}

// ---- oracle ----------------------------------------------------------------

type issue struct {
	fp, summary string
	detail      []string
}

func short(names []string) string {
	const max = 6
	var out []string
	for i, n := range names {
		if i == max {
			out = append(out, fmt.Sprintf("... (%d in all)", len(names)))
			break
		}
		if len(n) > 20 {
			n = n[:8] + "..." + fmt.Sprintf("(len %d)", len(n))
		}
		out = append(out, n)
	}
	return "[" + strings.Join(out, " ") + "]"
}

func describe(c caseP, in *instance) string {
	e := refcodec.DirentSize(strings.Repeat("x", in.el))
	ms := ""
	if c.Msize != 0 {
		ms = fmt.Sprintf(", msize %d", c.Msize)
	}
	return fmt.Sprintf("%s via %s%s: directory of %d entries, names of %d bytes (entry size %d), Readdir count %d (room for %d entries)",
		c.FS, c.Via, ms, c.N, in.el, e, c.Count, int(c.Count)/e)
}

// judge compares one listing with the ground truth. evals counts oracle
// clause evaluations.
func judge(c caseP, in *instance, ls *listing, q map[string]qinfo) (out []issue, evals int64, verdict string) {
	what := describe(c, in)
	if ls.aborted {
		return nil, 0, "aborted"
	}
	if ls.err != nil {
		e := refcodec.DirentSize(strings.Repeat("x", in.el))
		if c.Via == vClient && ls.errStage == "readdir" && int64(c.Count) > int64(c.Msize)-replyOverhead && int64(in.n)*int64(e) > int64(c.Msize)-replyOverhead {
			// The directory does not fit into one msize reply and the
			// requested count allows more than msize: the listing breaks.
			return []issue{{"client-server-listing-fails-count-beyond-msize",
				fmt.Sprintf("%s: Readdir call %d fails with %v; the text demands a complete listing whatever byte count is requested", what, ls.calls, ls.err),
				[]string{fmt.Sprintf("%d entries were received before the error", len(ls.entries))}}}, 1, "error-beyond-msize"
		}
		return []issue{{c.FS + "-listing-fails-at-" + ls.errStage,
			fmt.Sprintf("%s: %s fails with %v after %d Readdir calls", what, ls.errStage, ls.err, ls.calls), nil}}, 1, "error"
	}
	verdict = "ok"
	seen := make(map[string]int, len(ls.entries))
	var dups, unknown []string
	for _, d := range ls.entries {
		seen[d.Name]++
		if seen[d.Name] == 2 {
			dups = append(dups, d.Name)
		}
		if !in.truth[d.Name] && seen[d.Name] == 1 {
			unknown = append(unknown, d.Name)
		}
	}
	var lost []string
	for _, n := range in.names {
		if seen[n] == 0 {
			lost = append(lost, n)
		}
	}
	evals++
	shape := fmt.Sprintf("%d Readdir calls, %d non-empty replies, at most %d entries per reply, %d entries received in all", ls.calls, ls.pages, ls.maxPage, len(ls.entries))
	if len(lost) > 0 {
		verdict = "lost"
		out = append(out, issue{c.FS + "-paged-listing-loses-entries",
			fmt.Sprintf("%s: %d of %d entries are never returned", what, len(lost), in.n),
			[]string{shape, "missing: " + short(lost)}})
	}
	if len(dups) > 0 {
		verdict = "dup"
		out = append(out, issue{c.FS + "-paged-listing-duplicates-entries",
			fmt.Sprintf("%s: %d entries are returned more than once", what, len(dups)),
			[]string{shape, "more than once: " + short(dups)}})
	}
	if len(unknown) > 0 {
		verdict = "unknown"
		out = append(out, issue{c.FS + "-listing-returns-name-not-in-directory",
			fmt.Sprintf("%s: %d returned names do not exist in the directory", what, len(unknown)),
			[]string{shape, "unknown: " + short(unknown)}})
	}
	if ls.nonterm {
		verdict = "nonterm"
		out = append(out, issue{c.FS + "-paged-listing-does-not-end",
			fmt.Sprintf("%s: still receiving entries after %d Readdir calls", what, ls.calls), []string{shape}})
	}
	// QIDs and types.
	flagged := map[string]bool{}
	flag := func(fp, s string) {
		if !flagged[fp] {
			flagged[fp] = true
			verdict = "qid"
			out = append(out, issue{fp, what + ": " + s, nil})
		}
	}
	for _, d := range ls.entries {
		if !in.truth[d.Name] {
			continue
		}
		qi := q[d.Name]
		nm := short([]string{d.Name})
		evals += 4
		if qi.walkErr != nil {
			flag(c.FS+"-walk-to-listed-name-fails", fmt.Sprintf("Walk(%s) fails with %v although Readdir lists the name", nm, qi.walkErr))
		} else {
			if d.QID != qi.walk {
				flag(c.FS+"-listed-qid-differs-from-walk", fmt.Sprintf("Readdir lists %s with QID %v, Walk reports %v", nm, d.QID, qi.walk))
			}
			if d.Type != qi.walk.Type {
				flag(c.FS+"-listed-type-differs-from-walk", fmt.Sprintf("Readdir lists %s with type %#x, Walk reports QID type %#x", nm, uint8(d.Type), uint8(qi.walk.Type)))
			}
		}
		if qi.attrErr != nil {
			if qi.walkErr == nil {
				flag(c.FS+"-getattr-on-listed-name-fails", fmt.Sprintf("GetAttr on %s fails with %v", nm, qi.attrErr))
			}
		} else {
			if d.QID != qi.attr {
				flag(c.FS+"-listed-qid-differs-from-getattr", fmt.Sprintf("Readdir lists %s with QID %v, GetAttr reports %v", nm, d.QID, qi.attr))
			}
			if d.Type != qi.attr.Type {
				flag(c.FS+"-listed-type-differs-from-getattr", fmt.Sprintf("Readdir lists %s with type %#x, GetAttr reports QID type %#x", nm, uint8(d.Type), uint8(qi.attr.Type)))
			}
		}
	}
	return out, evals, verdict
}

// runCase performs one case; it returns the issues and the listing.
func runCase(ctx *fw.Ctx, in *instance, c caseP) ([]issue, int64, string, *listing) {
	ls := doListing(ctx, in, c.Via, c.Msize, c.Count)
	var q map[string]qinfo
	if ls.err == nil && !ls.aborted {
		var err error
		q, err = in.qids(c.Via, c.Msize)
		if err != nil {
			ls.err, ls.errStage = err, "walk"
		}
	}
	is, ev, verdict := judge(c, in, ls, q)
	if ls.err != nil && c.Via == vClient {
		// The connection may be out of step after an error; use a new one.
		in.drop(c.Msize)
	}
	return is, ev, verdict, ls
}

// ---- minimisation ----------------------------------------------------------

// minimise looks for the smallest case with the same fingerprint: n
// ascending, then name length, way of listing, msize, count (gridMin).
// ok=false if nothing smaller than the original fails in the same way.
func minimise(ctx *fw.Ctx, orig caseP, fp string) (caseP, issue, bool) {
	for n := 0; n <= 40 && n <= orig.N; n++ {
		for _, l := range nameLens {
			if ctx.Expired() {
				return orig, issue{}, false
			}
			in := newInstance(orig.FS, l, n)
			for _, g := range groupsFor(orig.FS, l, n, gridMin) {
				for _, cnt := range g.counts {
					c := caseP{orig.FS, g.via, g.msize, l, n, cnt}
					is, _, _, _ := runCase(ctx, in, c)
					for _, i := range is {
						if i.fp == fp {
							in.dispose()
							return c, i, true
						}
					}
				}
			}
			in.dispose()
		}
	}
	return orig, issue{}, false
}

// ---- driver ----------------------------------------------------------------

func rule(quick bool) string {
	t := "thorough: n in 0..40, 1000, 5000; for n<=40 every k = 1..kmax, for n>=1000 k in 1..8, powers of two +-1, n-1..n+1, kmax-1, kmax"
	if quick {
		t = "quick: n in 0..40; msize 4096: every k = 1..kmax; msize 65536: k = 1..n+2 and kmax-1, kmax (for larger k below msize-11 the first reply holds the whole directory)"
	}
	return "complete grid fs {localfs (real temp dir: regular files, directories, symlinks, fifos), staticfs, composefs flat / nested WithDir (outer/inner) / with a localfs mount (mnt) / with a staticfs mount (smnt)} x way {file-all, file-cut, client-server, file-all with a clone of the directory File made and closed between any two pages} x msize {4096, 65536} x name length {1, 17, 255} (raised to 2 resp. 3 for n = 1000 resp. 5000) x n x byte count; byte counts k*E-1, k*E, k*E+1 for entry size E = 24+len(name), k*E+1 <= msize-11, never below E, plus msize-12, msize-11, msize-10, msize-1, msize, msize+1, msize+E, 2*msize, 2*msize+1, 2^32-1; direct File access is msize independent and enumerates the union of both count lists once; " + t +
		"; plus, for localfs through client and server, a subdirectory that is renamed (Trenameat on its parent) while a fid has it open - before the first Readdir or between the first and the second reply - for n in {0,1,2,7,40[,300]} x name length {1,17} x msize x byte counts {E, 2E, 3E+1, msize-11, 2*msize}: the listing through the open fid must still be complete, with the QIDs Walk/GetAttr report under the new name; a case = one complete paged listing on a fresh directory handle; distinct outcome classes = fs x way x replies x entries per reply x verdict"
}

func part(n int) string {
	if n >= 1000 {
		return fmt.Sprintf("n=%d", n)
	}
	return "n<=40"
}

func bucket(x int) int {
	switch {
	case x <= 3:
		return x
	case x <= 8:
		return 8
	case x <= 41:
		return 41
	}
	return 1000
}

func report(rep *fw.Report, c caseP, i issue, extra ...string) {
	d := append([]string{}, i.detail...)
	d = append(d, extra...)
	rep.Violate(&fw.Violation{Fingerprint: i.fp, Summary: i.summary, Scenario: scenario, Params: fw.JSON(c), Detail: d})
}

func watchdog() {
	go func() {
		last, still := int64(-1), 0
		for {
			time.Sleep(10 * time.Second)
			p := atomic.LoadInt64(&progress)
			if p == last {
				still++
			} else {
				still = 0
			}
			last = p
			if still >= 18 {
				fmt.Fprintln(os.Stderr, "c19: no Readdir call completed for 180 s, giving up (infrastructure error)")
				os.Exit(2)
			}
		}
	}()
}

func run(ctx *fw.Ctx, rep *fw.Report) {
	if ctx.Replay != nil {
		var c caseP
		if err := json.Unmarshal(ctx.Replay.Params, &c); err != nil {
			return
		}
		if c.FS == kRenamed {
			is, _, _, _ := runRenamedCase(ctx, c)
			for _, i := range is {
				report(rep, c, i)
			}
			return
		}
		in := newInstance(c.FS, c.L, c.N)
		defer in.dispose()
		is, _, _, _ := runCase(ctx, in, c)
		for _, i := range is {
			report(rep, c, i)
		}
		return
	}
	watchdog()
	quick := ctx.Quick()
	rep.Rule = rule(quick)
	rep.Assumptions = append(rep.Assumptions,
		"C19: the temp directory's file system returns a stable readdir order for an unchanged directory and supports 255-byte names",
		"C19: QIDs reported by Walk/GetAttr are asked once per file system instance and way of access (after its first listing) and compared with every listing of that instance")

	var cur *instance
	defer func() {
		if cur != nil {
			cur.dispose()
		}
	}()
	get := func(kind string, l, n int) *instance {
		if cur != nil && (cur.kind != kind || cur.l != l || cur.n != n) {
			rep.Transitions += cur.calls
			cur.dispose()
			cur = nil
		}
		if cur == nil {
			cur = newInstance(kind, l, n)
			rep.Count("fs_instances_built", 1)
		}
		return cur
	}

	// the small family first: a directory renamed while a fid has it open
	runRenamed(ctx, rep)

	grid := gridFull
	if quick {
		grid = gridQuick
	}
	chunkIdx, instIdx, lastInst := 0, 0, 0
	stopped := false
	sampled := map[string]bool{}
	maxCalls := int64(0)
	// Two passes: first the complete grid for n <= 40, then the large
	// directories (where one listing can take seconds), so that the soft
	// budget can only ever cut the latter.
	unfinished := map[string]bool{}
	for pass := 0; pass < 2; pass++ {
		for _, kind := range kinds {
			if ctx.Filter != "" && !strings.Contains(kind, ctx.Filter) {
				continue
			}
			for _, l := range nameLens {
				for _, n := range dirSizes(quick) {
					if (n >= 1000) != (pass == 1) {
						continue
					}
					instIdx++
					for _, g := range groupsFor(kind, l, n, grid) {
						// Unit of work distribution: the whole instance (quick),
						// the group (thorough, n <= 40), two counts (n >= 1000,
						// where one listing can take seconds).
						chunk := len(g.counts) + 1
						if n >= 1000 {
							chunk = 2
						}
						for lo := 0; lo < len(g.counts); lo += chunk {
							switch {
							case n >= 1000 || !quick:
								chunkIdx++
							case instIdx != lastInst:
								lastInst = instIdx
								chunkIdx++
							}
							if !ctx.Mine(chunkIdx) {
								continue
							}
							if stopped || ctx.Expired() {
								stopped = true
								unfinished[fmt.Sprintf("n=%d", n)] = true
								continue
							}
							hi := lo + chunk
							if hi > len(g.counts) {
								hi = len(g.counts)
							}
							in := get(kind, l, n)
							for _, cnt := range g.counts[lo:hi] {
								c := caseP{kind, g.via, g.msize, l, n, cnt}
								is, ev, verdict, ls := runCase(ctx, in, c)
								if ls.aborted {
									stopped = true
									unfinished[fmt.Sprintf("n=%d", n)] = true
									break
								}
								rep.States++
								rep.Traces++
								rep.Evaluations += ev
								rep.Count("listings_"+g.via, 1)
								rep.Count("listings_"+kind, 1)
								rep.Count("readdir_calls", int64(ls.calls))
								rep.Count("entries_received", int64(len(ls.entries)))
								if ls.pages > 1 {
									rep.Count("listings_with_more_than_one_reply", 1)
								}
								if int64(cnt) > int64(g.msize)-replyOverhead && g.msize != 0 {
									rep.Count("listings_count_beyond_msize_minus_11", 1)
								}
								if ls.bigReply > 0 {
									rep.Count("replies_larger_than_requested_count", int64(ls.bigReply))
								}
								if int64(ls.calls) > maxCalls {
									maxCalls = int64(ls.calls)
								}
								rep.Distinct(fmt.Sprintf("%s|%s|%d|%d|%s", kind, g.via, bucket(ls.pages), bucket(ls.maxPage), verdict))
								if sk := kind + g.via + verdict; !sampled[sk] && ls.pages >= 3 && len(sampled) < 6 {
									sampled[sk] = true
									rep.Sample(map[string]interface{}{"case": c, "readdir_calls": ls.calls, "replies": ls.pages, "entries_per_reply": ls.maxPage, "received": len(ls.entries), "verdict": verdict})
								}
								for _, i := range is {
									if rep.Seen(i.fp) {
										continue
									}
									// Report the smallest case failing in the same way.
									if mc, mi, ok := minimise(ctx, c, i.fp); ok {
										report(rep, mc, mi, "smallest failing case in the order n, name length, way, msize, count", "first seen by this worker at "+string(fw.JSON(c)))
									} else {
										report(rep, c, i)
									}
								}
							}
						}
					}
				}
			}
		}
	}
	if cur != nil {
		rep.Transitions += cur.calls
	}
	rep.Count("max_readdir_calls_in_one_listing", maxCalls)
	if leakedServers > 0 {
		rep.Count("server_handle_did_not_return_after_close", leakedServers)
	}
	if stopped {
		var u []string
		for k := range unfinished {
			u = append(u, k)
		}
		sort.Strings(u)
		rep.NotExhaustive("C19: soft budget reached before the grid was finished; cases left out in the part(s): " + strings.Join(u, ", "))
	}
}
