package c19

import (
	"fmt"
	"net"
	"os"
	"path/filepath"
	"sort"
	"strings"
	"syscall"
	"time"

	"github.com/hugelgupf/p9/fsimpl/composefs"
	"github.com/hugelgupf/p9/fsimpl/localfs"
	"github.com/hugelgupf/p9/fsimpl/staticfs"
	"github.com/hugelgupf/p9/p9"
)

// File system kinds.
const (
	kLocal        = "localfs"
	kStatic       = "staticfs"
	kComposeFlat  = "composefs-flat"
	kComposeNest  = "composefs-nested"
	kComposeLocal = "composefs-localfs"
	// a staticfs with n files mounted in a composefs: its listing passes
	// through the mount's QID translation on every Readdir call
	kComposeStatic = "composefs-staticfs"
)

var kinds = []string{kLocal, kStatic, kComposeFlat, kComposeNest, kComposeLocal, kComposeStatic}

// Ways to list.
const (
	vFileAll = "file-all"      // File.Readdir directly, every returned entry is consumed (as fsimpl/test does)
	vFileCut = "file-cut"      // File.Readdir directly, reply cut to whole entries within count as treaddir.handle + rreaddir.encode do
	vClient  = "client-server" // real p9.Client against real p9.Server
	// as file-all, and between any two pages the directory File is cloned
	// (Walk with no names) and the clone closed again, as the server does for
	// every Twalk-clone / Txattrwalk on an open directory fid
	vFileClone = "file-all+clone-between-pages"
)

var vias = []string{vFileAll, vFileCut, vClient, vFileClone}

const alpha = "0123456789ABCDEFGHIJKLMNOPQRSTUVWXYZabcdefghijklmnopqrstuvwxyz"

// width is the number of base-62 digits needed to give n entries distinct names.
func width(n int) int {
	w, c := 1, len(alpha)
	for c < n {
		w++
		c *= len(alpha)
	}
	return w
}

// effLen is the name length actually used for a nominal length l in a
// directory of n entries: l, unless n distinct names of that length do not
// exist over the alphabet (only for l=1 and n > 62).
func effLen(l, n int) int {
	if w := width(n); l < w {
		return w
	}
	return l
}

// mkName: base-62 index (fixed width) padded to the length with a letter
// that depends on the index, so that names do not share one long suffix.
func mkName(idx, l, w int) string {
	b := make([]byte, l)
	x := idx
	for i := w - 1; i >= 0; i-- {
		b[i] = alpha[x%len(alpha)]
		x /= len(alpha)
	}
	for i := w; i < l; i++ {
		b[i] = alpha[(idx+i)%len(alpha)]
	}
	return string(b)
}

type qinfo struct {
	walk, attr       p9.QID
	walkErr, attrErr error
}

// instance is one file system with one directory of n entries whose names
// all have the same length.
type instance struct {
	kind    string
	l, n    int // nominal name length, entries
	el      int // effective name length
	att     p9.Attacher
	dirPath []string // from the root to the listed directory
	names   []string // ground truth, sorted
	truth   map[string]bool
	tmp     string

	root    p9.File // direct
	directQ map[string]qinfo
	clientQ map[string]qinfo
	conns   map[uint32]*conn
	calls   int64 // calls made against the implementation
}

func must(err error) {
	if err != nil {
		panic("c19: building the file system under test failed: " + err.Error())
	}
}

// populate creates n entries of mixed types in a real directory.
func populate(dir string, names []string) {
	for i, name := range names {
		p := filepath.Join(dir, name)
		switch i % 4 {
		case 0:
			must(os.WriteFile(p, []byte("x"), 0o644))
		case 1:
			must(os.Mkdir(p, 0o755))
		case 2:
			must(os.Symlink("target", p))
		case 3:
			if err := syscall.Mkfifo(p, 0o644); err != nil {
				must(os.WriteFile(p, []byte("y"), 0o600))
			}
		}
	}
	// The ground truth is what the kernel says is in the directory.
	des, err := os.ReadDir(dir)
	must(err)
	var got []string
	for _, de := range des {
		got = append(got, de.Name())
	}
	sort.Strings(got)
	if strings.Join(got, "/") != strings.Join(names, "/") {
		panic("c19: temp directory does not contain what was created")
	}
}

func oneFileStatic() p9.Attacher {
	a, err := staticfs.New(staticfs.WithFile("inner", "inner content"))
	must(err)
	return a
}

// composeEntries: regular files, empty directories and mounted static file
// systems in turn, so that the listed types differ.
func composeEntries(names []string) []composefs.Opt {
	var opts []composefs.Opt
	for i, name := range names {
		switch i % 3 {
		case 0:
			opts = append(opts, composefs.WithFile(name, staticfs.ReadOnlyFile(fmt.Sprintf("content %d", i))))
		case 1:
			opts = append(opts, composefs.WithDir(name))
		case 2:
			opts = append(opts, composefs.WithMount(name, oneFileStatic()))
		}
	}
	return opts
}

func newInstance(kind string, l, n int) *instance {
	in := &instance{kind: kind, l: l, n: n, el: effLen(l, n), truth: map[string]bool{}, conns: map[uint32]*conn{}}
	w := width(n)
	for i := 0; i < n; i++ {
		name := mkName(i, in.el, w)
		in.names = append(in.names, name)
		in.truth[name] = true
	}
	sort.Strings(in.names)
	if len(in.truth) != n {
		panic("c19: generated names are not distinct")
	}
	mkTmp := func() {
		tmp, err := os.MkdirTemp("", "verif-c19-")
		must(err)
		if strings.HasPrefix(tmp, "/repo") || strings.HasPrefix(tmp, "/verif") {
			os.RemoveAll(tmp)
			panic("c19: refusing to use a temp dir under /repo or /verif: " + tmp)
		}
		in.tmp = tmp
		populate(tmp, in.names)
	}
	switch kind {
	case kLocal:
		mkTmp()
		in.att = localfs.Attacher(in.tmp)
	case kStatic:
		var opts []staticfs.Option
		for i, name := range in.names {
			opts = append(opts, staticfs.WithFile(name, fmt.Sprintf("content %d", i)))
		}
		a, err := staticfs.New(opts...)
		must(err)
		in.att = a
	case kComposeFlat:
		a, err := composefs.New(composeEntries(in.names)...)
		must(err)
		in.att = a
	case kComposeNest:
		a, err := composefs.New(
			composefs.WithFile("top-file", staticfs.ReadOnlyFile("top")),
			composefs.WithDir("outer",
				composefs.WithFile("sibling", staticfs.ReadOnlyFile("sibling")),
				composefs.WithDir("inner", composeEntries(in.names)...),
			),
		)
		must(err)
		in.att = a
		in.dirPath = []string{"outer", "inner"}
	case kComposeLocal:
		mkTmp()
		a, err := composefs.New(
			composefs.WithFile("top-file", staticfs.ReadOnlyFile("top")),
			composefs.WithMount("mnt", localfs.Attacher(in.tmp)),
			composefs.WithMount("static", oneFileStatic()),
		)
		must(err)
		in.att = a
		in.dirPath = []string{"mnt"}
	case kComposeStatic:
		var opts []staticfs.Option
		for i, name := range in.names {
			opts = append(opts, staticfs.WithFile(name, fmt.Sprintf("content %d", i)))
		}
		sa, err := staticfs.New(opts...)
		must(err)
		a, err := composefs.New(
			composefs.WithFile("top-file", staticfs.ReadOnlyFile("top")),
			composefs.WithMount("smnt", sa),
		)
		must(err)
		in.att = a
		in.dirPath = []string{"smnt"}
	default:
		panic("c19: unknown kind " + kind)
	}
	return in
}

func (in *instance) dispose() {
	for m, c := range in.conns {
		c.close()
		delete(in.conns, m)
	}
	if in.root != nil {
		in.root.Close()
		in.root = nil
	}
	if in.tmp != "" {
		os.RemoveAll(in.tmp)
		in.tmp = ""
	}
}

// ---- direct access ---------------------------------------------------------

// freshDirect returns a new, unopened handle on the listed directory, walked
// to one component at a time from the attach point (as the server does).
func (in *instance) freshDirect() (p9.File, error) {
	if in.root == nil {
		r, err := in.att.Attach()
		in.calls++
		if err != nil {
			return nil, fmt.Errorf("Attach: %w", err)
		}
		in.root = r
	}
	if len(in.dirPath) == 0 {
		_, f, err := in.root.Walk(nil)
		in.calls++
		if err != nil {
			return nil, fmt.Errorf("Walk(nil): %w", err)
		}
		return f, nil
	}
	cur := in.root
	for _, name := range in.dirPath {
		_, f, err := cur.Walk([]string{name})
		in.calls++
		if cur != in.root {
			cur.Close()
		}
		if err != nil {
			return nil, fmt.Errorf("Walk(%q): %w", name, err)
		}
		cur = f
	}
	return cur, nil
}

// ---- client + server -------------------------------------------------------

type conn struct {
	cl   *p9.Client
	root p9.File
	dir  p9.File // unopened fid on the listed directory
	c1   net.Conn
	done chan struct{}
}

func (in *instance) dial(msize uint32) (*conn, error) {
	if c := in.conns[msize]; c != nil {
		return c, nil
	}
	c1, c2 := net.Pipe()
	srv := p9.NewServer(in.att)
	c := &conn{c1: c1, done: make(chan struct{})}
	go func() {
		srv.Handle(c2, c2)
		c2.Close()
		close(c.done)
	}()
	cl, err := p9.NewClient(c1, p9.WithMessageSize(msize))
	in.calls++
	if err != nil {
		c.close()
		return nil, fmt.Errorf("NewClient(msize=%d): %w", msize, err)
	}
	c.cl = cl
	root, err := cl.Attach("")
	in.calls++
	if err != nil {
		c.close()
		return nil, fmt.Errorf("Attach: %w", err)
	}
	c.root = root
	c.dir = root
	if len(in.dirPath) > 0 {
		_, d, err := root.Walk(in.dirPath)
		in.calls++
		if err != nil {
			c.close()
			return nil, fmt.Errorf("Walk(%v): %w", in.dirPath, err)
		}
		c.dir = d
	}
	in.conns[msize] = c
	return c, nil
}

// drop tears a connection down (after a transport error).
func (in *instance) drop(msize uint32) {
	if c := in.conns[msize]; c != nil {
		delete(in.conns, msize)
		c.close()
	}
}

var leakedServers int64

func (c *conn) close() {
	// No clunks: the connection goes away and the server releases every fid.
	c.c1.Close()
	select {
	case <-c.done:
	case <-time.After(20 * time.Second):
		// Not this property's business; remember it and go on.
		leakedServers++
	}
}

// freshClient returns a new, unopened client File on the listed directory.
func (in *instance) freshClient(msize uint32) (p9.File, error) {
	c, err := in.dial(msize)
	if err != nil {
		return nil, err
	}
	_, f, err := c.dir.Walk(nil)
	in.calls++
	if err != nil {
		return nil, fmt.Errorf("Walk(nil) on the directory fid: %w", err)
	}
	return f, nil
}

// ---- ground truth for QIDs -------------------------------------------------

// walkAll asks Walk([name]) and GetAttr on the walked file for every name of
// the directory.
func (in *instance) walkAll(dir p9.File) map[string]qinfo {
	out := make(map[string]qinfo, len(in.names))
	for _, name := range in.names {
		var qi qinfo
		qs, f, err := dir.Walk([]string{name})
		in.calls++
		switch {
		case err != nil:
			qi.walkErr = err
		case len(qs) != 1:
			qi.walkErr = fmt.Errorf("Walk returned %d QIDs for one name", len(qs))
		default:
			qi.walk = qs[0]
		}
		if err == nil && f != nil {
			q, _, _, err := f.GetAttr(p9.AttrMaskAll)
			in.calls++
			qi.attr, qi.attrErr = q, err
			f.Close()
			in.calls++
		} else {
			qi.attrErr = fmt.Errorf("no file to GetAttr on")
		}
		out[name] = qi
	}
	return out
}

func (in *instance) qids(via string, msize uint32) (map[string]qinfo, error) {
	if via == vClient {
		if in.clientQ == nil {
			c, err := in.dial(msize)
			if err != nil {
				return nil, err
			}
			in.clientQ = in.walkAll(c.dir)
		}
		return in.clientQ, nil
	}
	if in.directQ == nil {
		d, err := in.freshDirect()
		if err != nil {
			return nil, err
		}
		in.directQ = in.walkAll(d)
		d.Close()
	}
	return in.directQ, nil
}
