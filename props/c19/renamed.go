package c19

// A directory that is RENAMED WHILE A FID HAS IT OPEN is still a directory to
// be listed: the listing through that fid - begun before or after the rename -
// returns every entry exactly once, with the QIDs Walk and GetAttr report
// under the directory's new name. localfs keeps a path per File and is told
// about the rename by the server (File.Renamed); anything that resolves an
// entry through the name the directory was opened under breaks here only.

import (
	"fmt"
	"net"
	"os"
	"path/filepath"
	"sort"
	"time"

	"verif/harness/fw"
	"verif/harness/refcodec"

	"github.com/hugelgupf/p9/fsimpl/localfs"
	"github.com/hugelgupf/p9/p9"
)

const (
	kRenamed    = "localfs-subdir-renamed-while-open"
	vRenBefore  = "client-server, renamed after Open and before the first Readdir"
	vRenBetween = "client-server, renamed between the first and the second reply"
)

func runRenamedCase(ctx *fw.Ctx, c caseP) ([]issue, int64, string, int64) {
	in := &instance{kind: kRenamed, l: c.L, n: c.N, el: effLen(c.L, c.N), truth: map[string]bool{}, conns: map[uint32]*conn{}}
	w := width(c.N)
	for i := 0; i < c.N; i++ {
		name := mkName(i, in.el, w)
		in.names = append(in.names, name)
		in.truth[name] = true
	}
	sort.Strings(in.names)
	tmp, err := os.MkdirTemp("", "verif-c19r-")
	must(err)
	defer os.RemoveAll(tmp)
	must(os.Mkdir(filepath.Join(tmp, "sub0"), 0o755))
	populate(filepath.Join(tmp, "sub0"), in.names)

	c1, c2 := net.Pipe()
	srv := p9.NewServer(localfs.Attacher(tmp))
	done := make(chan struct{})
	go func() {
		srv.Handle(c2, c2)
		c2.Close()
		close(done)
	}()
	defer func() {
		c1.Close()
		select {
		case <-done:
		case <-time.After(20 * time.Second):
			leakedServers++
		}
	}()
	fail := func(stage string, err error) ([]issue, int64, string, int64) {
		return []issue{{kRenamed + "-listing-fails-at-" + stage, fmt.Sprintf("%s: %s fails with %v", describe(c, in), stage, err), nil}}, 1, "error", in.calls
	}
	cl, err := p9.NewClient(c1, p9.WithMessageSize(c.Msize))
	if err != nil {
		return fail("NewClient", err)
	}
	root, err := cl.Attach("")
	if err != nil {
		return fail("attach", err)
	}
	_, dir, err := root.Walk([]string{"sub0"})
	if err != nil {
		return fail("walk", err)
	}
	if _, _, err := dir.Open(p9.ReadOnly); err != nil {
		return fail("open", err)
	}
	in.calls += 4
	renamed := false
	rename := func() error {
		renamed = true
		in.calls++
		return root.RenameAt("sub0", root, "sub1")
	}
	if c.Via == vRenBefore {
		if err := rename(); err != nil {
			return fail("rename", err)
		}
	}
	ls := &listing{}
	offset := uint64(0)
	for {
		if ls.calls >= 2*c.N+8 {
			ls.nonterm = true
			break
		}
		ents, err := dir.Readdir(offset, c.Count)
		ls.calls++
		in.calls++
		if err != nil {
			ls.err, ls.errStage = err, "readdir"
			break
		}
		if len(ents) == 0 {
			break
		}
		ls.pages++
		if len(ents) > ls.maxPage {
			ls.maxPage = len(ents)
		}
		ls.entries = append(ls.entries, ents...)
		offset = ents[len(ents)-1].Offset
		if !renamed {
			if err := rename(); err != nil {
				return fail("rename", err)
			}
		}
	}
	if !renamed {
		// empty directory, or the first reply never came: nothing was
		// renamed in between, the case degenerates to an ordinary listing
		if err := rename(); err != nil {
			return fail("rename", err)
		}
	}
	_, d2, err := root.Walk([]string{"sub1"})
	in.calls++
	if err != nil {
		return fail("walk-to-new-name", err)
	}
	q := in.walkAll(d2)
	is, evals, verdict := judge(c, in, ls, q)
	return is, evals, verdict, in.calls
}

func renamedCases(quick bool) []caseP {
	var out []caseP
	ns := []int{0, 1, 2, 7, 40}
	if !quick {
		ns = append(ns, 300)
	}
	for _, n := range ns {
		for _, l := range []int{1, 17} {
			e := uint32(refcodec.DirentSize(string(make([]byte, effLen(l, n)))))
			for _, via := range []string{vRenBefore, vRenBetween} {
				for _, m := range msizes {
					for _, cnt := range []uint32{e, 2 * e, 3*e + 1, m - 11, 2 * m} {
						out = append(out, caseP{kRenamed, via, m, l, n, cnt})
					}
				}
			}
		}
	}
	return out
}

func runRenamed(ctx *fw.Ctx, rep *fw.Report) {
	cases := renamedCases(ctx.Quick())
	for i, c := range cases {
		if !ctx.Mine(i) {
			continue
		}
		is, evals, verdict, calls := runRenamedCase(ctx, c)
		rep.States++
		rep.Traces++
		rep.Evaluations += evals
		rep.Transitions += calls
		rep.Count("listings_"+kRenamed, 1)
		rep.Distinct(fmt.Sprintf("%s|%s|%s", kRenamed, c.Via, verdict))
		for _, i := range is {
			report(rep, c, i)
		}
	}
}
