// Package c06 checks: exactly one tagged reply per request; requests served
// concurrently (DESIGN.md §4 C06).
package c06

import (
	"fmt"
	"sort"
	"strings"
	"time"

	"verif/harness/fw"
	"verif/harness/memfs"
	"verif/harness/oracle"
	"verif/harness/rawpeer"
	"verif/harness/refcodec"
	"verif/harness/sess"
	"verif/rt/vsched"
)

func init() {
	fw.Register(&fw.Prop{ID: "C06", Run: run, Sharded: true, QuickSecs: 100, ThoroughSecs: 1200})
}

func mkfs() *memfs.FS {
	fs := memfs.New()
	fs.AddFile("d/x", []byte("hello world"))
	fs.AddFile("f", []byte("0123456789"))
	fs.MkdirP("e")
	return fs
}

// setup binds: 1 root, 2 = /f opened RO, 3 = /d, 4 = /e, 5 = /f opened RW,
// 6 = /e opened RO, 7 = /f unopened (handle indices 0..6 in that order).
func setup(s *sess.Sess) {
	s.Version(8192)
	s.Attach(1)
	s.Walk(1, 2, "f")
	s.Open(2, 0)
	s.Walk(1, 3, "d")
	s.Walk(1, 4, "e")
	s.Walk(1, 5, "f")
	s.Open(5, 2)
	s.Walk(1, 6, "e")
	s.Open(6, 0)
	s.Walk(1, 7, "f")
}

// kinds of batch elements.
var kinds = []string{"getattr", "read", "walk", "clunk", "flush-own", "flush-idle", "flush-prev", "badtype", "shortbody"}

type elem struct {
	kind string
	tag  uint16
}

// build returns the frame bytes of one batch element and, if it is a
// decodable request, its message.
func build(e elem, prevTag uint16, newfid uint32) ([]byte, *refcodec.Msg) {
	var m refcodec.Msg
	switch e.kind {
	case "getattr":
		m = rawpeer.Tgetattr(e.tag, 1)
	case "read":
		m = rawpeer.Tread(e.tag, 2, 0, 5)
	case "walk":
		m = rawpeer.Twalk(e.tag, 1, newfid, "d")
	case "clunk":
		m = rawpeer.Tclunk(e.tag, 4)
	case "flush-own":
		m = rawpeer.Tflush(e.tag, e.tag)
	case "flush-idle":
		m = rawpeer.Tflush(e.tag, 999)
	case "flush-prev":
		m = rawpeer.Tflush(e.tag, prevTag)
	case "flush-first":
		// names the FIRST request of the batch (tag 1 in every batch that uses it)
		m = rawpeer.Tflush(e.tag, 1)
	case "badtype":
		// well delimited frame of an unknown type
		b := []byte{11, 0, 0, 0, 200, byte(e.tag), byte(e.tag >> 8), 1, 2, 3, 4}
		return b, nil
	case "shortbody":
		// Tgetattr whose body is too short
		b := []byte{9, 0, 0, 0, refcodec.Tgetattr, byte(e.tag), byte(e.tag >> 8), 1, 0}
		return b, nil
	}
	return refcodec.Encode(m), &m
}

type params struct {
	Kinds []string `json:"kinds"`
	Tags  []uint16 `json:"tags"`
	Conns int      `json:"conns,omitempty"`
	Gate  string   `json:"gate,omitempty"`
}

// batch pipelines the given elements on one connection in a single write.
func batch(p params) *fw.Scenario {
	name := "batch-" + strings.Join(p.Kinds, "+") + fmt.Sprintf("-tags%v", p.Tags)
	return &fw.Scenario{Name: name, Params: p, New: func() (func(), func(*vsched.Execution) ([]fw.Issue, string)) {
		var s *sess.Sess
		var reqs []refcodec.Msg
		nbad := 0
		setupFrames := 0
		body := func() {
			fs := mkfs()
			s = sess.Connect(fs, sess.NewServer(fs), "c")
			setup(s)
			setupFrames = len(s.Peer.Received)
			var bytes []byte
			var prev uint16
			for i, k := range p.Kinds {
				b, m := build(elem{k, p.Tags[i]}, prev, uint32(20+i))
				bytes = append(bytes, b...)
				if m != nil {
					reqs = append(reqs, *m)
				} else {
					nbad++
				}
				prev = p.Tags[i]
			}
			vsched.BeginExplore()
			s.Peer.SendRaw(bytes)
			for i := 0; i < len(p.Kinds); i++ {
				if _, err := s.Peer.Recv(); err != nil {
					break
				}
			}
			vsched.EndExplore()
			s.Hangup()
			s.WaitDone()
		}
		check := func(e *vsched.Execution) ([]fw.Issue, string) {
			return checkStream(s, reqs, nbad, setupFrames, e, name)
		}
		return body, check
	}}
}

func checkStream(s *sess.Sess, reqs []refcodec.Msg, nbad, setupFrames int, e *vsched.Execution, scen string) ([]fw.Issue, string) {
	var is []fw.Issue
	frames, rest, probs := oracle.ParseStream(s.SC.W)
	for _, p := range probs {
		is = append(is, fw.Issue{Fingerprint: "stream|" + generalize(p), Summary: p})
	}
	if setupFrames > len(frames) {
		setupFrames = len(frames)
	}
	win := frames[setupFrames:]
	// Replies to undecodable frames: Rlerror with any tag; remove up to nbad of
	// those that do not answer a decodable request.
	want := map[uint16]int{}
	for _, r := range reqs {
		want[r.Tag]++
	}
	var filtered []oracle.Frame
	bad := nbad
	seen := map[uint16]int{}
	for _, f := range win {
		if f.Err == nil && f.Msg.Type == refcodec.Rlerror && bad > 0 && seen[f.Msg.Tag] >= want[f.Msg.Tag] {
			bad--
			continue
		}
		if f.Err == nil {
			seen[f.Msg.Tag]++
		}
		filtered = append(filtered, f)
	}
	if e.End == vsched.EndComplete || e.End == vsched.EndDeadlock {
		for _, p := range oracle.ReplyIssues(reqs, filtered, rest, nil) {
			is = append(is, fw.Issue{Fingerprint: "reply|" + generalize(p), Summary: scen + ": " + p})
		}
	}
	if e.End == vsched.EndComplete && !s.HandleReturned {
		is = append(is, fw.Issue{Fingerprint: "handle-did-not-return", Summary: "Server.Handle did not return after the client hung up"})
	}
	var names []string
	for _, f := range win {
		names = append(names, fmt.Sprintf("%s/%d", f.Msg.Name(), f.Msg.Tag))
	}
	return is, strings.Join(names, " ")
}

// generalize strips run-specific numbers from an oracle message so that it
// can serve as a fingerprint.
func generalize(s string) string {
	var sb strings.Builder
	inNum := false
	for _, r := range s {
		if r >= '0' && r <= '9' {
			if !inNum {
				sb.WriteByte('#')
			}
			inNum = true
			continue
		}
		inNum = false
		sb.WriteRune(r)
	}
	out := sb.String()
	if len(out) > 160 {
		out = out[:160]
	}
	return out
}

// reuse: lock-step requests that re-use the tag immediately after the reply.
func reuse(tag uint16) *fw.Scenario {
	p := params{Kinds: []string{"getattr", "read", "getattr"}, Tags: []uint16{tag, tag, tag}}
	name := fmt.Sprintf("tag-reuse-%d", tag)
	return &fw.Scenario{Name: name, Params: p, New: func() (func(), func(*vsched.Execution) ([]fw.Issue, string)) {
		var s *sess.Sess
		var reqs []refcodec.Msg
		setupFrames := 0
		body := func() {
			fs := mkfs()
			s = sess.Connect(fs, sess.NewServer(fs), "c")
			setup(s)
			setupFrames = len(s.Peer.Received)
			vsched.BeginExplore()
			for _, m := range []refcodec.Msg{rawpeer.Tgetattr(tag, 1), rawpeer.Tread(tag, 2, 0, 4), rawpeer.Tgetattr(tag, 3)} {
				reqs = append(reqs, m)
				s.Peer.Send(m)
				if _, err := s.Peer.Recv(); err != nil {
					break
				}
			}
			vsched.EndExplore()
			s.Hangup()
			s.WaitDone()
		}
		return body, func(e *vsched.Execution) ([]fw.Issue, string) {
			return checkStream(s, reqs, 0, setupFrames, e, name)
		}
	}}
}

// inflightDup: request A is held in the backend; a second request with the
// same tag is sent. The statement excludes the second request; A must still
// get exactly one reply.
func inflightDup() *fw.Scenario {
	name := "dup-tag-in-flight"
	return &fw.Scenario{Name: name, Params: params{Kinds: []string{"read(gated)", "getattr(same tag)"}, Tags: []uint16{7, 7}}, New: func() (func(), func(*vsched.Execution) ([]fw.Issue, string)) {
		var s *sess.Sess
		gate := &memfs.Gate{}
		setupFrames := 0
		body := func() {
			fs := mkfs()
			s = sess.Connect(fs, sess.NewServer(fs), "c")
			setup(s)
			setupFrames = len(s.Peer.Received)
			fs.Hook = func(c *memfs.Call) *memfs.Action {
				if c.Method == "ReadAt" {
					return &memfs.Action{Gate: gate}
				}
				return nil
			}
			vsched.BeginExplore()
			vsched.GoNamed("releaser", func() { gate.Open() })
			s.Peer.SendAll(rawpeer.Tread(7, 2, 0, 4), rawpeer.Tgetattr(7, 1))
			s.Peer.Recv()
			vsched.EndExplore()
			s.Hangup()
			s.WaitDone()
		}
		return body, func(e *vsched.Execution) ([]fw.Issue, string) {
			var is []fw.Issue
			frames, _, probs := oracle.ParseStream(s.SC.W)
			for _, p := range probs {
				is = append(is, fw.Issue{Fingerprint: "stream|" + generalize(p), Summary: p})
			}
			win := frames[setupFrames:]
			nRead := 0
			var names []string
			for _, f := range win {
				names = append(names, fmt.Sprintf("%s/%d", f.Msg.Name(), f.Msg.Tag))
				if f.Msg.Tag == 7 && (f.Msg.Type == refcodec.Rread) {
					nRead++
				}
			}
			if e.End == vsched.EndComplete && nRead != 1 {
				is = append(is, fw.Issue{Fingerprint: "dup-tag|first-holder-replies", Summary: fmt.Sprintf("the first holder of tag 7 (Tread) got %d Rread replies, want exactly 1 (stream: %v)", nRead, names)})
			}
			return is, strings.Join(names, " ")
		}
	}}
}

// concurrency: A is held inside the backend; B does not conflict with A under
// the File contract. B's reply must be produced while the gate stays closed:
// the peer opens the gate only after it has read B's reply, so a server that
// serialises B behind A deadlocks, which the explorer reports.
type conc struct {
	A, B  string
	Other bool // B on another connection
	Flush bool `json:",omitempty"` // a Tflush naming A is sent between A and B (it has to wait for A; B has not)
}

func concurrency(c conc) *fw.Scenario {
	name := fmt.Sprintf("concurrent-%s-gated-vs-%s", c.A, c.B)
	if c.Other {
		name += "-otherconn"
	}
	if c.Flush {
		name += "-with-flush-of-the-gated-request-pending"
	}
	return &fw.Scenario{Name: name, Params: c, DeadlockOK: true, New: func() (func(), func(*vsched.Execution) ([]fw.Issue, string)) {
		var s, s2 *sess.Sess
		gate := &memfs.Gate{}
		body := func() {
			fs := mkfs()
			srv := sess.NewServer(fs)
			s = sess.Connect(fs, srv, "c")
			setup(s)
			bs := s
			if c.Other {
				s2 = sess.Connect(fs, srv, "c2")
				setup(s2)
				bs = s2
			}
			var A refcodec.Msg
			var gated string
			gh := 0 // handle index of A's receiver in session s: 0 root, 1 f, 2 d, 3 e
			switch c.A {
			case "read":
				A, gated, gh = rawpeer.Tread(50, 2, 0, 4), "ReadAt", 1
			case "getattr-d":
				A, gated, gh = rawpeer.Tgetattr(50, 3), "GetAttr", 2
			case "walk-d":
				A, gated, gh = rawpeer.Twalk(50, 3, 30, "x"), "WalkGetAttr", 2
			case "mkdir-e":
				A, gated, gh = rawpeer.Tmkdir(50, 4, "new"), "Mkdir", 3
			case "write":
				A, gated, gh = rawpeer.Twrite(50, 5, 0, []byte("w")), "WriteAt", 4
			case "fsync":
				A, gated, gh = rawpeer.Tfsync(50, 2), "FSync", 1
			case "readdir-e":
				A, gated, gh = rawpeer.Treaddir(50, 6, 0, 4000), "Readdir", 5
			case "lopen-f":
				A, gated, gh = rawpeer.Tlopen(50, 7, 0), "Open", 6
			case "clunk-f7":
				// Close belongs to no concurrency class either: a Tclunk whose
				// backend Close takes long delays nobody
				A, gated, gh = rawpeer.Tclunk(50, 7), "Close", 6
			case "lock-f":
				// Lock belongs to no concurrency class of the File contract: a
				// lock request waiting inside the backend orders nothing at all
				A, gated, gh = rawpeer.Tlock(50, 2), "Lock", 1
			}
			var B refcodec.Msg
			switch c.B {
			case "getattr-root":
				B = rawpeer.Tgetattr(51, 1)
			case "read":
				B = rawpeer.Tread(51, 2, 0, 4)
			case "walk-d":
				B = rawpeer.Twalk(51, 3, 31, "x")
			case "getattr-d":
				B = rawpeer.Tgetattr(51, 3)
			case "clunk-e":
				B = rawpeer.Tclunk(51, 4)
			case "getattr-f":
				B = rawpeer.Tgetattr(51, 2)
			case "write-f":
				B = rawpeer.Twrite(51, 5, 3, []byte("v"))
			case "walk-e":
				B = rawpeer.Twalk(51, 4, 32, "nope")
			case "statfs":
				B = rawpeer.Tstatfs(51, 1)
			case "flush-idle":
				B = rawpeer.Tflush(51, 999)
			case "setattr-f5":
				B = rawpeer.Tsetattr(51, 5, 1, 0o600, 0)
			case "renameat-d":
				B = rawpeer.Trenameat(51, 3, "x", 3, "x2")
			case "version-otherconn":
				B = rawpeer.Tgetattr(51, 1)
			}
			n := 0
			fs.Hook = func(cl *memfs.Call) *memfs.Action {
				if cl.Method == gated && cl.Handle == gh && n == 0 && vsched.Exploring() {
					n++
					return &memfs.Action{Gate: gate}
				}
				return nil
			}
			vsched.BeginExplore()
			s.Peer.Send(A)
			if c.Flush {
				s.Peer.Send(rawpeer.Tflush(52, 50))
			}
			bs.Peer.Send(B)
			// B's reply must arrive while A is held.
			// (When A and B are the same kind of call on the same handle either
			// of them may be the one that is held; one reply must still arrive.)
			bs.Peer.Recv()
			gate.Open()
			s.Peer.Recv()
			if c.Flush {
				s.Peer.Recv()
			}
			vsched.EndExplore()
			s.Hangup()
			s.WaitDone()
			if s2 != nil {
				s2.Hangup()
				s2.WaitDone()
			}
		}
		return body, func(e *vsched.Execution) ([]fw.Issue, string) {
			var is []fw.Issue
			if e.End == vsched.EndDeadlock {
				is = append(is, fw.Issue{Fingerprint: fmt.Sprintf("blocked-behind-gated|%s|%s|other=%v", c.A, c.B, c.Other),
					Summary: fmt.Sprintf("request %s is not answered while %s is blocked inside the backend although the File contract does not order them (blocked: %s)", c.B, c.A, e.Blocked)})
				return is, "deadlock"
			}
			return is, fmt.Sprintf("gate waited=%d", gate.Waited)
		}
	}}
}

// halfClose: requests are held inside the backend, the peer ends ITS stream
// (it stops sending but keeps reading), then the requests are released: each
// of them was received in full and is owed its reply before the server hangs
// up.
func halfClose(n int) *fw.Scenario {
	return &fw.Scenario{Name: fmt.Sprintf("half-close-with-%d-requests-held", n), Params: map[string]int{"held": n}, DeadlockOK: true, New: func() (func(), func(*vsched.Execution) ([]fw.Issue, string)) {
		var s *sess.Sess
		var got []string
		sent := 0
		body := func() {
			got, sent = nil, 0
			fs := mkfs()
			s = sess.Connect(fs, sess.NewServer(fs), "c")
			setup(s)
			gate := &memfs.Gate{}
			fs.Hook = func(cl *memfs.Call) *memfs.Action {
				if (cl.Method == "ReadAt" || cl.Method == "GetAttr") && vsched.Exploring() {
					return &memfs.Action{Gate: gate}
				}
				return nil
			}
			vsched.BeginExplore()
			s.Peer.Send(rawpeer.Tread(50, 2, 0, 4))
			sent++
			if n > 1 {
				s.Peer.Send(rawpeer.Tgetattr(51, 3))
				sent++
			}
			s.CC.W.CloseWrite()
			gate.Open()
			for i := 0; i < sent; i++ {
				r, err := s.Peer.Recv()
				if err != nil {
					break
				}
				got = append(got, fmt.Sprintf("%s/%d", r.Name(), r.Tag))
			}
			vsched.EndExplore()
			s.Hangup()
			s.WaitDone()
		}
		return body, func(e *vsched.Execution) ([]fw.Issue, string) {
			var is []fw.Issue
			if e.End == vsched.EndDeadlock {
				return []fw.Issue{{Fingerprint: "half-close|deadlock", Summary: "after the peer ended its stream with requests held in the backend nothing can run: " + e.Blocked}}, "deadlock"
			}
			if e.End == vsched.EndComplete && len(got) != sent {
				is = append(is, fw.Issue{Fingerprint: "half-close|request-received-in-full-gets-no-reply", Summary: fmt.Sprintf("%d requests were received in full before the peer ended its stream (it kept reading); replies received: %v", sent, got)})
			}
			sort.Strings(got)
			return is, strings.Join(got, " ")
		}
	}}
}

func run(ctx *fw.Ctx, rep *fw.Report) {
	rep.Rule = "scenario = closed program (pipelined batch / tag re-use / duplicate tag in flight / request gated in the backend plus a non-conflicting request) on the real server under the controlled scheduler; all Mazurkiewicz traces (DPOR+sleep sets), fallback preemption bounds 0,1; oracle on the recorded server byte stream (whole frames, one writer thread per frame, reply-tag multiset == request-tag multiset, matching R type or Rlerror) and deadlock detection for the concurrency clause; distinct = distinct reply orders per scenario"
	rep.Assumptions = append(rep.Assumptions, "independence classes of DESIGN §2.2", "sync.Pool fresh mode, message cache treated as empty", "setup requests before the explored window follow the default schedule and settle (Quiesce)")
	var scs []*fw.Scenario
	// Pairs.
	for _, a := range kinds {
		for _, b := range kinds {
			if a == "flush-prev" {
				continue
			}
			scs = append(scs, batch(params{Kinds: []string{a, b}, Tags: []uint16{1, 2}}))
		}
	}
	// NOTAG as an ordinary tag.
	for _, a := range []string{"getattr", "read", "flush-idle"} {
		scs = append(scs, batch(params{Kinds: []string{a, "getattr"}, Tags: []uint16{0xffff, 2}}))
	}
	scs = append(scs, reuse(5), reuse(0xffff), inflightDup(), halfClose(1), halfClose(2))
	for _, c := range []conc{
		{"read", "getattr-root", false, false}, {"read", "walk-d", false, false}, {"read", "read", false, false}, {"read", "clunk-e", false, false}, {"read", "statfs", false, false}, {"read", "flush-idle", false, false},
		{"getattr-d", "walk-d", false, false}, {"walk-d", "getattr-d", false, false}, {"mkdir-e", "getattr-d", false, false}, {"mkdir-e", "read", false, false},
		{"read", "getattr-root", true, false}, {"read", "read", true, false}, {"mkdir-e", "walk-d", true, false}, {"walk-d", "walk-d", true, false},
		// read-class calls on ONE path do not order each other (WriteAt, FSync, Readdir and Open are read-class too)
		{"write", "read", false, false}, {"write", "getattr-f", false, false}, {"write", "write-f", false, false}, {"write", "read", true, false}, {"fsync", "read", false, false}, {"fsync", "write-f", false, false},
		{"clunk-f7", "getattr-root", false, false}, {"clunk-f7", "read", false, false}, {"clunk-f7", "walk-d", false, false}, {"clunk-f7", "read", true, false},
		{"lock-f", "setattr-f5", false, false}, {"lock-f", "renameat-d", false, false}, {"lock-f", "renameat-d", true, false}, {"lock-f", "read", false, false},
		{"readdir-e", "walk-e", false, false}, {"readdir-e", "walk-e", true, false}, {"lopen-f", "read", false, false}, {"lopen-f", "getattr-f", true, false}, {"read", "write-f", false, false},
		// a flush that has to wait for the held request holds up nobody else
		{A: "read", B: "getattr-root", Flush: true}, {A: "read", B: "getattr-root", Other: true, Flush: true}, {A: "mkdir-e", B: "read", Flush: true},
	} {
		scs = append(scs, concurrency(c))
	}
	if !ctx.Quick() {
		// Triples.
		tri := []string{"getattr", "read", "walk", "clunk", "flush-prev", "badtype"}
		for _, a := range tri {
			for _, b := range tri {
				for _, c := range tri {
					if a == "flush-prev" {
						continue
					}
					scs = append(scs, batch(params{Kinds: []string{a, b, c}, Tags: []uint16{1, 2, 3}}))
				}
			}
		}
	} else {
		scs = append(scs, batch(params{Kinds: []string{"read", "flush-prev", "getattr"}, Tags: []uint16{1, 2, 3}}))
	}
	// two flushes naming the SAME request in flight: each of them is owed its own Rflush
	scs = append(scs, batch(params{Kinds: []string{"read", "flush-first", "flush-first"}, Tags: []uint16{1, 2, 3}}))
	budget := 60 * time.Second // the largest quick scenario (3 requests in flight incl. a flush) needs ~35 s
	if !ctx.Quick() {
		budget = 4 * time.Minute
	}
	for i, sc := range scs {
		if !ctx.Mine(i) {
			continue
		}
		if ctx.Expired() {
			rep.NotExhaustive("tier budget exhausted before scenario " + sc.Name)
			continue
		}
		fw.RunScenario(ctx, rep, sc, fw.SchedOpts{Budget: budget, ForcePB: -1, Fallback: []int{0, 1}, Deviations: -1})
	}
}
