package c16

import (
	"fmt"
	"strings"
	"time"

	"verif/harness/fw"
	"verif/harness/memfs"
	"verif/harness/rawpeer"
	"verif/harness/refcodec"
	"verif/harness/sess"
	"verif/rt/vsched"
	"verif/rt/vsync"
)

// Isolation: two clients work in disjoint subtrees (/a and /b) on their own
// fids; each must observe exactly what it observes running alone.

type step func(tag uint16, base uint32) refcodec.Msg

func isoSeq(dir string, variant int) []step {
	// fids: base+1 root, base+2 own dir, base+3.. created
	seqs := [][]step{
		{ // create, write, read back
			func(t uint16, b uint32) refcodec.Msg { return rawpeer.Twalk(t, b+2, b+3) },
			func(t uint16, b uint32) refcodec.Msg { return rawpeer.Tlcreate(t, b+3, "n", 2) },
			func(t uint16, b uint32) refcodec.Msg { return rawpeer.Twrite(t, b+3, 0, []byte("data-"+dir)) },
			func(t uint16, b uint32) refcodec.Msg { return rawpeer.Tread(t, b+3, 0, 16) },
		},
		{ // mkdir, walk into it, rename it, getattr through the old fid
			func(t uint16, b uint32) refcodec.Msg { return rawpeer.Tmkdir(t, b+2, "nd") },
			func(t uint16, b uint32) refcodec.Msg { return rawpeer.Twalk(t, b+2, b+4, "nd") },
			func(t uint16, b uint32) refcodec.Msg { return rawpeer.Trenameat(t, b+2, "nd", b+2, "nd2") },
			func(t uint16, b uint32) refcodec.Msg { return rawpeer.Tgetattr(t, b+4) },
		},
		{ // walk to the file, unlink it, fenced walk, clunk
			func(t uint16, b uint32) refcodec.Msg { return rawpeer.Twalk(t, b+2, b+5, "file") },
			func(t uint16, b uint32) refcodec.Msg { return rawpeer.Tunlinkat(t, b+2, "file") },
			func(t uint16, b uint32) refcodec.Msg { return rawpeer.Tsetattr(t, b+5, 1, 0o600, 0) },
			func(t uint16, b uint32) refcodec.Msg { return rawpeer.Tclunk(t, b+5) },
		},
	}
	return seqs[variant]
}

// normalise: reply type, errno and, for data-carrying replies, the data; QID
// paths are backend-allocated numbers that legitimately depend on global
// allocation order and are left out.
func normReply(r refcodec.Msg) string {
	s := fmt.Sprintf("%s/%d", r.Name(), rawpeer.Errno(r))
	switch r.Type {
	case refcodec.Rread:
		s += fmt.Sprintf(":%q", r.Get("data"))
	case refcodec.Rwrite:
		s += fmt.Sprintf(":%d", r.U("count"))
	case refcodec.Rwalk:
		s += fmt.Sprintf(":%d", len(r.Get("wqids").([]refcodec.QID)))
	case refcodec.Rgetattr:
		s += fmt.Sprintf(":mode=%o", r.U("mode"))
	}
	return s
}

func isoFS() *memfs.FS {
	fs := memfs.New()
	fs.AddFile("a/file", []byte("aaaa"))
	fs.AddFile("b/file", []byte("bbbb"))
	return fs
}

func runClient(s *sess.Sess, base uint32, dir string, variant, steps int, out *[]string, tag0 uint16) {
	for k, st := range isoSeq(dir, variant)[:steps] {
		r, err := s.Peer.RPC(st(tag0+uint16(k), base))
		if err != nil {
			*out = append(*out, "transport-error")
			return
		}
		*out = append(*out, normReply(r))
	}
}

type isoParams struct {
	VA, VB   int
	Steps    int
	TwoConns bool
}

func solo(dir string, variant, steps int) []string {
	// A plain free-running session (no scheduler).
	fs := isoFS()
	s := sess.Connect(fs, sess.NewServer(fs), "solo")
	s.Version(8192)
	s.Attach(1)
	s.Walk(1, 2, dir)
	var out []string
	runClient(s, 0, dir, variant, steps, &out, 1)
	s.Hangup()
	s.WaitDone()
	return out
}

func isoScenario(p isoParams, wantA, wantB []string) *fw.Scenario {
	name := fmt.Sprintf("isolation-a%d-b%d-steps%d-twoconns=%v", p.VA, p.VB, p.Steps, p.TwoConns)
	return &fw.Scenario{Name: name, Params: p, New: func() (func(), func(*vsched.Execution) ([]fw.Issue, string)) {
		var gotA, gotB []string
		body := func() {
			gotA, gotB = nil, nil
			fs := isoFS()
			srv := sess.NewServer(fs)
			sa := sess.Connect(fs, srv, "ca")
			sa.Version(8192)
			sa.Attach(1)
			sa.Walk(1, 2, "a")
			sb := sa
			bbase := uint32(100)
			if p.TwoConns {
				sb = sess.Connect(fs, srv, "cb")
				sb.Version(8192)
				bbase = 0
			}
			sb.Attach(bbase + 1)
			sb.Walk(bbase+1, bbase+2, "b")
			vsched.BeginExplore()
			if p.TwoConns {
				var wg vsync.WaitGroup
				wg.Add(2)
				vsched.GoNamed("clientA", func() { defer wg.Done(); runClient(sa, 0, "a", p.VA, p.Steps, &gotA, 1) })
				vsched.GoNamed("clientB", func() { defer wg.Done(); runClient(sb, bbase, "b", p.VB, p.Steps, &gotB, 1) })
				wg.Wait()
			} else {
				// one connection: pipeline step k of both clients
				for k := 0; k < p.Steps; k++ {
					ma := isoSeq("a", p.VA)[k](uint16(1+k), 0)
					mb := isoSeq("b", p.VB)[k](uint16(51+k), bbase)
					sa.Peer.SendAll(ma, mb)
					for i := 0; i < 2; i++ {
						r, err := sa.Peer.Recv()
						if err != nil {
							break
						}
						if r.Tag < 50 {
							gotA = append(gotA, normReply(r))
						} else {
							gotB = append(gotB, normReply(r))
						}
					}
				}
			}
			vsched.EndExplore()
			sa.Hangup()
			sa.WaitDone()
			if sb != sa {
				sb.Hangup()
				sb.WaitDone()
			}
		}
		check := func(e *vsched.Execution) ([]fw.Issue, string) {
			var is []fw.Issue
			if e.End == vsched.EndComplete {
				if strings.Join(gotA, " ") != strings.Join(wantA[:p.Steps], " ") {
					is = append(is, fw.Issue{Fingerprint: fmt.Sprintf("isolation|variant%d", p.VA), Summary: fmt.Sprintf("client A (subtree /a, sequence %d) observed %v but alone it observes %v", p.VA, gotA, wantA[:p.Steps])})
				}
				if strings.Join(gotB, " ") != strings.Join(wantB[:p.Steps], " ") {
					is = append(is, fw.Issue{Fingerprint: fmt.Sprintf("isolation|variant%d", p.VB), Summary: fmt.Sprintf("client B (subtree /b, sequence %d) observed %v but alone it observes %v", p.VB, gotB, wantB[:p.Steps])})
				}
			}
			return is, strings.Join(gotA, ",") + " | " + strings.Join(gotB, ",")
		}
		return body, check
	}}
}

func runIsolation(ctx *fw.Ctx, rep *fw.Report, idx0 int) {
	steps := 2
	if !ctx.Quick() {
		steps = 3
	}
	// Solo runs first (free mode), before any controlled execution of this family.
	soloA := map[int][]string{}
	soloB := map[int][]string{}
	for v := 0; v < 3; v++ {
		soloA[v] = solo("a", v, 4)
		soloB[v] = solo("b", v, 4)
	}
	rep.Sample(map[string]interface{}{"isolation_solo_a0": soloA[0], "isolation_solo_b2": soloB[2]})
	i := idx0
	for va := 0; va < 3; va++ {
		for vb := 0; vb < 3; vb++ {
			for _, two := range []bool{true, false} {
				i++
				if ctx.Quick() && !two {
					rep.Count("scenarios_left_to_thorough", 1)
					continue
				}
				if !ctx.Mine(i) {
					continue
				}
				if ctx.Expired() {
					rep.NotExhaustive("tier budget exhausted before isolation scenarios")
					continue
				}
				p := isoParams{va, vb, steps, two}
				fw.RunScenario(ctx, rep, isoScenario(p, soloA[va], soloB[vb]), fw.SchedOpts{Budget: 40 * time.Second, ForcePB: -1, Fallback: []int{0, 1}, Deviations: -1})
			}
		}
	}
}
