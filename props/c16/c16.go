// Package c16 checks global progress and isolation across concurrent
// sessions (DESIGN.md §4 C16): no deadlock, every request answered, no
// happens-before race on the server's shared session state, and clients on
// disjoint fids and subtrees observe what they would observe alone.
package c16

import (
	"fmt"
	"strings"
	"time"

	"verif/harness/fw"
	"verif/harness/memfs"
	"verif/harness/oracle"
	"verif/harness/rawpeer"
	"verif/harness/refcodec"
	"verif/harness/sess"
	"verif/rt/vsched"
	"verif/rt/vsync"
)

func init() {
	fw.Register(&fw.Prop{ID: "C16", Run: run, Sharded: true, QuickSecs: 170, ThoroughSecs: 1500})
}

func mkfs() *memfs.FS {
	fs := memfs.New()
	fs.AddFile("a/f", []byte("ffff"))
	fs.AddFile("a/g", []byte("gggg"))
	fs.AddFile("a/sub/s", []byte("ssss"))
	fs.AddFile("b/h", []byte("hhhh"))
	return fs
}

// Per-client fid layout: base+1 root, base+2 /a, base+3 /a/f, base+4 /b,
// base+5 /a/f opened RW (second fid on the same file), base+6 /a/sub,
// base+12 /a/sub/s.
// new fids created by requests: base+7..
func bindAll(s *sess.Sess, base uint32) {
	s.Attach(base + 1)
	s.Walk(base+1, base+2, "a")
	s.Walk(base+1, base+3, "a", "f")
	s.Walk(base+1, base+4, "b")
	s.Walk(base+1, base+5, "a", "f")
	s.Open(base+5, 2)
	s.Walk(base+1, base+6, "a", "sub")
	s.Walk(base+1, base+12, "a", "sub", "s") // a fid BELOW the directory that rename-dir moves
}

type reqf func(tag uint16, base uint32, sfx string) refcodec.Msg

var menu = map[string]reqf{
	"rename-samedir":  func(t uint16, b uint32, s string) refcodec.Msg { return rawpeer.Trenameat(t, b+2, "f", b+2, "f"+s) },
	"rename-crossdir": func(t uint16, b uint32, s string) refcodec.Msg { return rawpeer.Trenameat(t, b+2, "f", b+4, "f"+s) },
	"rename-fid":      func(t uint16, b uint32, s string) refcodec.Msg { return rawpeer.Trename(t, b+3, b+4, "r"+s) },
	"rename-dir":      func(t uint16, b uint32, s string) refcodec.Msg { return rawpeer.Trenameat(t, b+2, "sub", b+4, "sub"+s) },
	"rename-top":      func(t uint16, b uint32, s string) refcodec.Msg { return rawpeer.Trenameat(t, b+1, "a", b+1, "a"+s) }, // fids TWO levels below the renamed directory
	"unlink":          func(t uint16, b uint32, s string) refcodec.Msg { return rawpeer.Tunlinkat(t, b+2, "f") },
	"remove":          func(t uint16, b uint32, s string) refcodec.Msg { return rawpeer.Tremove(t, b+3) },
	"create":          func(t uint16, b uint32, s string) refcodec.Msg { return rawpeer.Tlcreate(t, b+6, "c"+s, 2) },
	"mkdir":           func(t uint16, b uint32, s string) refcodec.Msg { return rawpeer.Tmkdir(t, b+2, "m"+s) },
	"walk":            func(t uint16, b uint32, s string) refcodec.Msg { return rawpeer.Twalk(t, b+2, b+7, "f") },
	"walk2":           func(t uint16, b uint32, s string) refcodec.Msg { return rawpeer.Twalk(t, b+1, b+8, "a", "f") },
	"clone":           func(t uint16, b uint32, s string) refcodec.Msg { return rawpeer.Twalk(t, b+3, b+9) },
	"clunk":           func(t uint16, b uint32, s string) refcodec.Msg { return rawpeer.Tclunk(t, b+3) },
	"clunk-dir":       func(t uint16, b uint32, s string) refcodec.Msg { return rawpeer.Tclunk(t, b+2) },
	"getattr":         func(t uint16, b uint32, s string) refcodec.Msg { return rawpeer.Tgetattr(t, b+3) },
	"setattr":         func(t uint16, b uint32, s string) refcodec.Msg { return rawpeer.Tsetattr(t, b+3, 1, 0o600, 0) },
	"read":            func(t uint16, b uint32, s string) refcodec.Msg { return rawpeer.Tread(t, b+5, 0, 4) },
	"write":           func(t uint16, b uint32, s string) refcodec.Msg { return rawpeer.Twrite(t, b+5, 0, []byte(s)) },
	"attach":          func(t uint16, b uint32, s string) refcodec.Msg { return rawpeer.Tattach(t, b+3, "a/f") }, // re-binds the fid
	"reattach-root":   func(t uint16, b uint32, s string) refcodec.Msg { return rawpeer.Tattach(t, b+10, "") },
	"xattrwalk":       func(t uint16, b uint32, s string) refcodec.Msg { return rawpeer.Txattrwalk(t, b+3, b+11, "") },
	"lopen":           func(t uint16, b uint32, s string) refcodec.Msg { return rawpeer.Tlopen(t, b+3, 0) },
	// one client creates a name while another renames that very name
	"create-n":      func(t uint16, b uint32, s string) refcodec.Msg { return rawpeer.Tlcreate(t, b+6, "n", 2) },
	"rename-n":      func(t uint16, b uint32, s string) refcodec.Msg { return rawpeer.Trenameat(t, b+6, "n", b+6, "n2") },
	"unlink-n":      func(t uint16, b uint32, s string) refcodec.Msg { return rawpeer.Tunlinkat(t, b+6, "n") },
	"getattr-sub":   func(t uint16, b uint32, s string) refcodec.Msg { return rawpeer.Tgetattr(t, b+6) },
	"clone-sub":     func(t uint16, b uint32, s string) refcodec.Msg { return rawpeer.Twalk(t, b+6, b+13) },
	"clunk-below":   func(t uint16, b uint32, s string) refcodec.Msg { return rawpeer.Tclunk(t, b+12) },
	"getattr-below": func(t uint16, b uint32, s string) refcodec.Msg { return rawpeer.Tgetattr(t, b+12) },
}

var single = []string{"rename-samedir", "rename-crossdir", "rename-fid", "rename-dir", "rename-top", "unlink", "remove", "create", "mkdir", "walk", "walk2", "clone", "clunk", "clunk-dir", "getattr", "setattr", "read", "write", "attach", "xattrwalk", "lopen", "clunk-below", "getattr-below"}

type params struct {
	Clients  [][]string `json:"clients"` // request names per client, in order
	TwoConns bool       `json:"two_conns"`
}

func (p params) name() string {
	var parts []string
	for _, c := range p.Clients {
		parts = append(parts, strings.Join(c, ">"))
	}
	n := strings.Join(parts, " || ")
	if p.TwoConns {
		n += " [conn each]"
	} else {
		n += " [one conn]"
	}
	return n
}

func scenario(p params) *fw.Scenario {
	return &fw.Scenario{Name: p.name(), Params: p, New: func() (func(), func(*vsched.Execution) ([]fw.Issue, string)) {
		var fs *memfs.FS
		var srv interface{ VerifCheckPathTree() []string }
		replies := make([][]refcodec.Msg, len(p.Clients))
		sent := 0
		base := 0
		var sessions []*sess.Sess
		body := func() {
			fs = mkfs()
			memfs.RecordSites = false
			server := sess.NewServer(fs)
			srv = server
			sessions = nil
			if p.TwoConns {
				for i := range p.Clients {
					s := sess.Connect(fs, server, fmt.Sprintf("c%d", i))
					s.Version(8192)
					bindAll(s, uint32(i*100))
					sessions = append(sessions, s)
				}
			} else {
				s := sess.Connect(fs, server, "c")
				s.Version(8192)
				for i := range p.Clients {
					bindAll(s, uint32(i*100))
				}
				sessions = append(sessions, s)
			}
			base = len(fs.Calls)
			vsched.BeginExplore()
			if p.TwoConns {
				var wg vsync.WaitGroup // a real synchronisation: clients' histories happen-before the hang-up
				wg.Add(len(p.Clients))
				for i := range p.Clients {
					i := i
					vsched.GoNamed(fmt.Sprintf("client%d", i), func() {
						defer wg.Done()
						for k, rn := range p.Clients[i] {
							m := menu[rn](uint16(10*i+k+1), uint32(i*100), fmt.Sprintf("%d%d", i, k))
							sent++
							r, err := sessions[i].Peer.RPC(m)
							if err != nil {
								break
							}
							replies[i] = append(replies[i], r)
						}
					})
				}
				wg.Wait()
			} else {
				s := sessions[0]
				for k := 0; ; k++ {
					var round []refcodec.Msg
					var who []int
					for i := range p.Clients {
						if k < len(p.Clients[i]) {
							round = append(round, menu[p.Clients[i][k]](uint16(10*i+k+1), uint32(i*100), fmt.Sprintf("%d%d", i, k)))
							who = append(who, i)
						}
					}
					if len(round) == 0 {
						break
					}
					sent += len(round)
					s.Peer.SendAll(round...)
					for range round {
						r, err := s.Peer.Recv()
						if err != nil {
							break
						}
						ci := int(r.Tag-1) / 10
						if ci >= 0 && ci < len(replies) {
							replies[ci] = append(replies[ci], r)
						}
					}
				}
			}
			vsched.EndExplore()
			for _, s := range sessions {
				s.Hangup()
				s.WaitDone()
			}
		}
		check := func(e *vsched.Execution) ([]fw.Issue, string) {
			var is []fw.Issue
			got := 0
			var out []string
			for i := range replies {
				got += len(replies[i])
				var rs []string
				for _, r := range replies[i] {
					rs = append(rs, fmt.Sprintf("%s/%d", r.Name(), rawpeer.Errno(r)))
				}
				out = append(out, strings.Join(rs, ","))
			}
			if e.End == vsched.EndComplete {
				if got != sent {
					is = append(is, fw.Issue{Fingerprint: "request-not-answered", Summary: fmt.Sprintf("%d requests sent, %d replies received", sent, got)})
				}
				if srv != nil {
					for _, pr := range srv.VerifCheckPathTree() {
						is = append(is, fw.Issue{Fingerprint: "path-tree|" + generalize(pr), Summary: "path tree inconsistent after the session ended: " + pr})
					}
				}
				is = append(is, oracle.LifecycleIssues(fs, true)...)
			}
			for _, pr := range fs.Problems {
				if pr.Kind == "use-after-close" || pr.Kind == "double-close" || pr.Kind == "incoherent-path" {
					is = append(is, fw.Issue{Fingerprint: "backend|" + pr.Kind, Summary: pr.Detail})
				}
			}
			_ = base
			return is, strings.Join(out, " | ")
		}
		return body, check
	}}
}

func generalize(s string) string {
	var sb strings.Builder
	inNum := false
	for _, r := range s {
		if r >= '0' && r <= '9' {
			if !inNum {
				sb.WriteByte('#')
			}
			inNum = true
			continue
		}
		inNum = false
		sb.WriteRune(r)
	}
	return sb.String()
}

func run(ctx *fw.Ctx, rep *fw.Report) {
	rep.Rule = "scenario = 2-3 clients (own fids; at most one request outstanding per fid) issuing 1-2 requests each from a 23-request menu (walks, clone, create, mkdir, unlink, remove, same-dir/cross-dir/dir renames incl. of a directory two levels above live fids, clunk, attach re-bind, xattrwalk, open, read, write, getattr, setattr) on overlapping paths over one shared or one connection each; all Mazurkiewicz traces (DPOR+sleep sets; fallback preemption bound 0,1); oracles: deadlock, every request answered, happens-before race on the instrumented shared state (fid table, tag table, path tree maps, fidRef fields, client maps), path tree consistency and File lifecycle at the end; isolation family: disjoint subtrees, per-client reply sequence == solo run; distinct = distinct reply vectors per scenario"
	rep.Assumptions = append(rep.Assumptions, "independence classes of DESIGN §2.2", "<=3 client threads, <=3 connections (the property's 2..64 goroutines / 1..8 connections are beyond exhaustive reach; see DESIGN §6)", "race check covers the instrumented fields/maps listed in cmd/verifgen")
	var all []params
	for _, a := range single {
		for _, b := range single {
			all = append(all, params{Clients: [][]string{{a}, {b}}, TwoConns: true})
			if ctx.Quick() && a > b {
				continue // quick: the one-connection variant once per unordered pair
			}
			all = append(all, params{Clients: [][]string{{a}, {b}}, TwoConns: false})
		}
	}
	// Two-step sequences against one structural operation.
	structural := []string{"rename-samedir", "rename-crossdir", "rename-dir", "rename-top", "unlink", "remove", "rename-fid"}
	seqs := [][]string{{"clunk", "walk"}, {"walk", "clunk"}, {"clone", "clunk"}, {"getattr", "clunk"}, {"create", "clunk-dir"}, {"attach", "getattr"}, {"walk2", "getattr"}, {"xattrwalk", "clunk"}, {"read", "clunk"}, {"unlink", "walk"}, {"rename-samedir", "clunk"}, {"clunk", "clunk-dir"}}
	for _, a := range structural {
		for _, sq := range seqs {
			all = append(all, params{Clients: [][]string{{a}, sq}, TwoConns: true})
		}
	}
	// a name being created by one client while another renames / unlinks it
	for _, kill := range []string{"rename-n", "unlink-n"} {
		for _, after := range []string{"getattr-sub", "clone-sub"} {
			all = append(all, params{Clients: [][]string{{"create-n", after}, {kill}}, TwoConns: true}, params{Clients: [][]string{{"create-n", after}, {kill}}, TwoConns: false})
		}
	}
	if !ctx.Quick() {
		tri := []string{"rename-samedir", "rename-crossdir", "unlink", "clunk", "walk", "clone", "create", "getattr"}
		for _, a := range tri {
			for _, b := range tri {
				for _, c := range tri {
					all = append(all, params{Clients: [][]string{{a}, {b}, {c}}, TwoConns: true})
				}
			}
		}
		for _, a := range structural {
			for _, sq := range seqs {
				all = append(all, params{Clients: [][]string{{a}, sq}, TwoConns: false})
			}
		}
	}
	rep.Info["scenarios_total"] = len(all)
	runIsolation(ctx, rep, len(all)) // first: small, and must not fall victim to the tier budget
	budget := 20 * time.Second
	if !ctx.Quick() {
		budget = 3 * time.Minute
	}
	for i, p := range all {
		if !ctx.Mine(i) {
			continue
		}
		if ctx.Expired() {
			rep.NotExhaustive("tier budget exhausted before scenario " + p.name())
			continue
		}
		fw.RunScenario(ctx, rep, scenario(p), fw.SchedOpts{Budget: budget, ForcePB: -1, Fallback: []int{0, 1}, Deviations: -1})
	}
}
