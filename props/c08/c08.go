// Package c08 checks path coherence under rename/unlink and fencing of
// deleted paths (DESIGN.md §4 C08) by explicit-state BFS over histories of
// structural requests, probing every bound fid after every history.
package c08

import (
	"fmt"

	"verif/harness/fw"
	"verif/harness/histex"
	"verif/harness/memfs"
	"verif/harness/rawpeer"
	"verif/harness/refcodec"
	"verif/harness/refmodel"
)

func init() {
	fw.Register(&fw.Prop{ID: "C08", Run: run, QuickSecs: 75, ThoroughSecs: 1500})
}

// tree: / { a/ { a (file "aa") , b/ { a (file "ba") } } , b (file "bb") }
func tree(nonEmptyRmdir bool) func() (*memfs.FS, *refmodel.Model) {
	return func() (*memfs.FS, *refmodel.Model) {
		fs := memfs.New()
		fs.AllowNonEmptyRmdir = nonEmptyRmdir
		fs.AddFile("a/a", []byte("aa"))
		fs.AddFile("a/b/a", []byte("ba"))
		fs.AddFile("b", []byte("bb"))
		m := refmodel.New()
		m.AllowNonEmptyRmdir = nonEmptyRmdir
		m.Add("a/a", refmodel.KFile, "aa")
		m.Add("a/b/a", refmodel.KFile, "ba")
		m.Add("b", refmodel.KFile, "bb")
		return fs, m
	}
}

func alphabet(quick bool) []refcodec.Msg {
	var a []refcodec.Msg
	fids := []uint32{1, 2, 3, 4}
	if quick {
		fids = []uint32{1, 2, 3}
	}
	names := []string{"a", "b"}
	for _, f := range fids {
		for _, nf := range fids {
			if nf == 1 {
				continue // fid 1 stays the root handle
			}
			a = append(a, rawpeer.Twalk(0, f, nf))
			for _, n := range names {
				a = append(a, rawpeer.Twalk(0, f, nf, n))
			}
			if !quick || f == 1 {
				a = append(a, rawpeer.Twalk(0, f, nf, "a", "b"), rawpeer.Twalk(0, f, nf, "a", "a"))
			}
		}
		for _, n := range names {
			a = append(a, rawpeer.Tunlinkat(0, f, n), rawpeer.Tmkdir(0, f, n))
			if f != 1 {
				a = append(a, rawpeer.Tlcreate(0, f, n, 2))
			}
			for _, g := range fids {
				for _, n2 := range names {
					a = append(a, rawpeer.Trenameat(0, f, n, g, n2))
				}
				if f != 1 && g != f {
					a = append(a, rawpeer.Trename(0, f, g, n))
				}
			}
		}
		if f != 1 {
			a = append(a, rawpeer.Tremove(0, f), rawpeer.Tclunk(0, f), rawpeer.Tlopen(0, f, 2), rawpeer.Tlopen(0, f, 0))
			a = append(a, rawpeer.Tread(0, f, 0, 8), rawpeer.Twrite(0, f, 0, []byte("w")), rawpeer.Tsetattr(0, f, 1, 0o600, 0))
		}
		a = append(a, rawpeer.Tgetattr(0, f))
		// the other path-dependent requests a fenced fid must refuse without
		// reaching the backend
		if f != 1 {
			a = append(a, rawpeer.Tsymlink(0, f, "a", "t"), rawpeer.Tmknod(0, f, "a", 0o10644), rawpeer.Treadlink(0, f))
			g := f + 1
			if g > fids[len(fids)-1] {
				g = 2
			}
			a = append(a, rawpeer.Tlink(0, f, g, "b"))
		}
	}
	return a
}

func run(ctx *fw.Ctx, rep *fw.Report) {
	depth := 4
	if !ctx.Quick() {
		depth = 6
	}
	alpha := alphabet(ctx.Quick())
	rep.Rule = fmt.Sprintf("explicit-state BFS over histories of %d concrete requests (walk incl. clone/1-step/2-step onto fresh and bound fids, lcreate, mkdir, unlinkat, remove, clunk, renameat same-dir/cross-dir/over existing targets/of directories with live descendants, rename, lopen, read, write, setattr, getattr) over fids {1..%d}, names {a,b}, a tree with two directory levels; after EVERY history every bound fid is probed with Tgetattr; oracle: reference model of object identity and fencing (qid.path through each fid must stay the object's), the backend's own check that each handle's notified (parent, name) still denotes its object, fenced fids answer ENOENT (walk to child) / EINVAL without a backend call, server path-tree consistency, live-handle accounting; second configuration with a backend that removes non-empty directories (recursive fencing); depth target %d; distinct = distinct (request, reply, errno) classes", len(alpha), map[bool]int{true: 3, false: 4}[ctx.Quick()], depth)
	rep.Assumptions = append(rep.Assumptions, "reference model harness/refmodel; don't-cares of DESIGN §4.0 (C08 bullets)", "lock-step histories")
	setup := []refcodec.Msg{rawpeer.Tattach(0, 1, "")}
	histex.Explore(ctx, rep, &histex.Config{Name: "c08", Tree: tree(false), Alphabet: alpha, Setup: setup, MaxDepth: depth, ProbeFids: true})
	d2 := depth - 1
	histex.Explore(ctx, rep, &histex.Config{Name: "c08-rmdir-nonempty", Tree: tree(true), Alphabet: alpha, Setup: setup, MaxDepth: d2, ProbeFids: true})
}
