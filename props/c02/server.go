package c02

import (
	"fmt"
	"reflect"
	"sort"
	"strings"

	"github.com/hugelgupf/p9/p9"
	"verif/harness/memfs"
	"verif/harness/rawpeer"
	"verif/harness/refcodec"
	"verif/harness/sess"
)

// outcome of one case.
type outcome struct {
	key   string // Distinct key: what was observed
	viol  []viol
	steps int64
	evals int64
	notes map[string]int64 // counters
}

type viol struct {
	prio        int
	fp, summary string
	detail      []string
}

// Priorities: one case reports only its most fundamental finding, so that a
// single defect does not fan out into one fingerprint per consequence.
const (
	pPanic = iota
	pBuffer
	pBadSize
	pConsumed
	pMalformedDelivered
	pNotAnswered
	pNotServed
	pUnexpected
	pValues
	pOther
)

func (o *outcome) violate(prio int, fp, summary string, detail ...string) {
	o.viol = append(o.viol, viol{prio, fp, summary, detail})
}

// final keeps the most fundamental finding of the case.
func (o *outcome) final() []viol {
	if len(o.viol) == 0 {
		return nil
	}
	best := o.viol[0]
	for _, v := range o.viol[1:] {
		if v.prio < best.prio {
			best = v
		}
	}
	return []viol{best}
}

// trigger names the input class of a case for fingerprints: the first frame
// of the stream that is not a plain well-formed one ("seq" for the sequence
// family, whose elements are all covered singly by the other families).
func trigger(c *tcase, vs []fverdict) string {
	if c.Family == "seq" {
		return "seq"
	}
	for _, v := range vs {
		if v.Class != clDelivered {
			return v.Class.String() + ":" + v.Reason
		}
	}
	return "wellformed"
}

func (o *outcome) note(k string) {
	if o.notes == nil {
		o.notes = map[string]int64{}
	}
	o.notes[k]++
}

// serverFixture builds the tree and binds the fids the canonical frames use.
func serverFixture(msize, first uint32) (*memfs.FS, *sess.Sess, int) {
	fs := memfs.New()
	f := fs.AddFile("d/f", []byte("0123456789abcdef"))
	f.Xattrs["user.k"] = []byte("value")
	fs.AddFile("d/g", []byte("g"))
	fs.AddFile("d/h", []byte("h"))
	fs.AddFile("d/u", []byte("u"))
	fs.MkdirP("e")
	fs.AddNode("l", p9.ModeSymlink|0o777, nil, "d/f")
	s := sess.Connect(fs, sess.NewServer(fs), "c02")
	steps := 0
	do := func(m refcodec.Msg) {
		s.OK(m)
		steps++
	}
	if first != 0 {
		s.Version(first)
		steps++
	}
	if msize != 0 {
		s.Version(msize)
		steps++
	}
	do(rawpeer.Tattach(s.Tag(), fidRoot, ""))
	do(rawpeer.Tattach(s.Tag(), fidSentinel, ""))
	do(rawpeer.Twalk(s.Tag(), fidRoot, fidFile, "d", "f"))
	do(rawpeer.Twalk(s.Tag(), fidRoot, fidOpen, "d", "f"))
	do(rawpeer.Tlopen(s.Tag(), fidOpen, 2))
	do(rawpeer.Twalk(s.Tag(), fidRoot, fidDir, "d"))
	do(rawpeer.Twalk(s.Tag(), fidRoot, fidDir2, "e"))
	do(rawpeer.Twalk(s.Tag(), fidRoot, fidDirOpen, "d"))
	do(rawpeer.Tlopen(s.Tag(), fidDirOpen, 0))
	do(rawpeer.Twalk(s.Tag(), fidRoot, fidLink, "l"))
	do(rawpeer.Twalk(s.Tag(), fidRoot, fidCreate, "e"))
	do(rawpeer.Twalk(s.Tag(), fidRoot, fidXattr, "d", "f"))
	do(rawpeer.Twalk(s.Tag(), fidRoot, fidRen, "d", "g"))
	do(rawpeer.Twalk(s.Tag(), fidRoot, fidClunk, "d", "f"))
	do(rawpeer.Twalk(s.Tag(), fidRoot, fidRemove, "d", "h"))
	return fs, s, steps
}

// canonArg turns a value recorded by memfs into uint64 / string / []uint64.
func canonArg(x interface{}) interface{} {
	switch v := x.(type) {
	case p9.AttrMask:
		return attrMaskBits(v)
	case p9.SetAttrMask:
		return setAttrMaskBits(v)
	case p9.SetAttr:
		return []uint64{uint64(v.Permissions), uint64(v.UID), uint64(v.GID), v.Size, v.ATimeSeconds, v.ATimeNanoSeconds, v.MTimeSeconds, v.MTimeNanoSeconds}
	case []byte:
		return string(v)
	case string:
		return v
	}
	rv := reflect.ValueOf(x)
	switch rv.Kind() {
	case reflect.Int, reflect.Int8, reflect.Int16, reflect.Int32, reflect.Int64:
		return uint64(rv.Int())
	case reflect.Uint, reflect.Uint8, reflect.Uint16, reflect.Uint32, reflect.Uint64:
		return rv.Uint()
	case reflect.String:
		return rv.String()
	}
	return fmt.Sprintf("%#v", x)
}

// The 9P2000.L getattr / setattr mask bits, stated independently of p9.
func attrMaskBits(m p9.AttrMask) uint64 {
	var b uint64
	for i, f := range []bool{m.Mode, m.NLink, m.UID, m.GID, m.RDev, m.ATime, m.MTime, m.CTime, m.INo, m.Size, m.Blocks, m.BTime, m.Gen, m.DataVersion} {
		if f {
			b |= 1 << uint(i)
		}
	}
	return b
}

func setAttrMaskBits(m p9.SetAttrMask) uint64 {
	var b uint64
	for i, f := range []bool{m.Permissions, m.UID, m.GID, m.Size, m.ATime, m.MTime, m.CTime, m.ATimeNotSystemTime, m.MTimeNotSystemTime} {
		if f {
			b |= 1 << uint(i)
		}
	}
	return b
}

type skipArg struct{}

// atMost: a requested byte count is an upper bound; a server may pass less
// to the backend (e.g. to keep the reply within msize), never more.
type atMost uint64

// expectBackend says which backend call a successfully answered request must
// have caused and with which argument values, computed from the decoded
// frame only. A skipArg entry is not compared (handle identities).
func expectBackend(m refcodec.Msg) (method string, args []interface{}, names []string) {
	const noUID = uint64(0xffffffff)
	skip := skipArg{}
	switch m.Type {
	case refcodec.Tstatfs:
		return "StatFS", nil, nil
	case refcodec.Tlopen:
		return "Open", []interface{}{m.U("flags")}, nil
	case refcodec.Tlcreate:
		return "Create", []interface{}{m.S("name"), m.U("flags"), m.U("mode") & 0o7777, noUID, m.U("gid")}, nil
	case refcodec.Tucreate:
		return "Create", []interface{}{m.S("name"), m.U("flags"), m.U("mode") & 0o7777, m.U("uid"), m.U("gid")}, nil
	case refcodec.Tsymlink:
		return "Symlink", []interface{}{m.S("symtgt"), m.S("name"), noUID, m.U("gid")}, nil
	case refcodec.Tusymlink:
		return "Symlink", []interface{}{m.S("symtgt"), m.S("name"), m.U("uid"), m.U("gid")}, nil
	case refcodec.Tmknod:
		return "Mknod", []interface{}{m.S("name"), m.U("mode"), m.U("major"), m.U("minor"), noUID, m.U("gid")}, nil
	case refcodec.Tumknod:
		return "Mknod", []interface{}{m.S("name"), m.U("mode"), m.U("major"), m.U("minor"), m.U("uid"), m.U("gid")}, nil
	case refcodec.Tmkdir:
		return "Mkdir", []interface{}{m.S("name"), m.U("mode") & 0o7777, noUID, m.U("gid")}, nil
	case refcodec.Tumkdir:
		return "Mkdir", []interface{}{m.S("name"), m.U("mode") & 0o7777, m.U("uid"), m.U("gid")}, nil
	case refcodec.Trename:
		return "RenameAt", []interface{}{skip, skip, m.S("name")}, nil
	case refcodec.Treadlink:
		return "Readlink", nil, nil
	case refcodec.Tgetattr:
		return "GetAttr", []interface{}{m.U("request_mask") & 0x3fff}, nil
	case refcodec.Tsetattr:
		return "SetAttr", []interface{}{m.U("valid") & 0x1ff, []uint64{m.U("mode") & 0o7777, m.U("uid"), m.U("gid"), m.U("size"), m.U("atime_sec"), m.U("atime_nsec"), m.U("mtime_sec"), m.U("mtime_nsec")}}, nil
	case refcodec.Txattrwalk:
		if m.S("name") == "" {
			return "ListXattrs", nil, nil
		}
		return "GetXattr", []interface{}{m.S("name")}, nil
	case refcodec.Treaddir:
		return "Readdir", []interface{}{m.U("offset"), atMost(m.U("count"))}, nil
	case refcodec.Tfsync:
		return "FSync", nil, nil
	case refcodec.Tlock:
		return "Lock", []interface{}{uint64(int64(int32(uint32(m.U("proc_id"))))), m.U("type"), m.U("flags"), m.U("start"), m.U("length"), m.S("client_id")}, nil
	case refcodec.Tlink:
		return "Link", []interface{}{skip, m.S("name")}, nil
	case refcodec.Trenameat:
		return "RenameAt", []interface{}{m.S("oldname"), skip, m.S("newname")}, nil
	case refcodec.Tunlinkat:
		return "UnlinkAt", []interface{}{m.S("name"), m.U("flags")}, nil
	case refcodec.Tattach:
		return "Attach", nil, nil
	case refcodec.Twalk, refcodec.Twalkgetattr:
		return "Walk*", nil, m.Get("wnames").([]string)
	case refcodec.Tread:
		return "ReadAt", []interface{}{atMost(m.U("count")), m.U("offset")}, nil
	case refcodec.Twrite:
		return "WriteAt", []interface{}{string(m.Get("data").([]byte)), m.U("offset")}, nil
	case refcodec.Tclunk:
		return "Close", nil, nil
	case refcodec.Tremove:
		return "UnlinkAt", []interface{}{skip, uint64(0)}, nil
	}
	// Tversion, Tauth, Tflush, Txattrcreate: no backend call.
	return "", nil, nil
}

func argsMatch(c *memfs.Call, want []interface{}) (bool, string) {
	if len(c.Args) != len(want) {
		return false, fmt.Sprintf("%d arguments, want %d", len(c.Args), len(want))
	}
	for i, w := range want {
		if _, ok := w.(skipArg); ok {
			continue
		}
		got := canonArg(c.Args[i])
		if am, ok := w.(atMost); ok {
			if g, ok := got.(uint64); !ok || g > uint64(am) {
				return false, fmt.Sprintf("argument %d is %s, the frame asks for at most %d", i, short(got), uint64(am))
			}
			continue
		}
		if !reflect.DeepEqual(got, w) {
			return false, fmt.Sprintf("argument %d is %s, the frame encodes %s", i, short(got), short(w))
		}
	}
	return true, ""
}

func short(x interface{}) string {
	s := fmt.Sprintf("%#v", x)
	if v, ok := x.(uint64); ok {
		s = fmt.Sprintf("%#x", v)
	}
	if len(s) > 80 {
		s = s[:80] + "..."
	}
	return s
}

// checkDelivered verifies "delivered => the backend saw exactly the encoded
// values" for a request that was answered with its success type.
func checkDelivered(o *outcome, c *tcase, v fverdict, calls []*memfs.Call) {
	method, want, names := expectBackend(v.Msg)
	if method == "" {
		return
	}
	o.evals++
	if method == "Walk*" {
		// each component, in order, as the single name of a Walk/WalkGetAttr call
		i := 0
		sawWalk := false
		for _, cl := range calls {
			if cl.Method != "Walk" && cl.Method != "WalkGetAttr" {
				continue
			}
			sawWalk = true
			if i < len(names) && len(cl.Names) == 1 && cl.Names[0] == names[i] {
				i++
				// WalkGetAttr(ENOSYS) followed by Walk of the same name counts once
				continue
			}
		}
		// the ENOSYS/Walk pair repeats a name: allow i to have advanced through duplicates
		if !sawWalk || i < len(names) {
			got := []string{}
			for _, cl := range calls {
				if cl.Method == "Walk" || cl.Method == "WalkGetAttr" {
					got = append(got, fmt.Sprintf("%s%q", cl.Method, cl.Names))
				}
			}
			o.violate(pValues, fmt.Sprintf("delivered-values-differ|server|%s|names", typeName(v.Msg.Type)),
				fmt.Sprintf("%s answered with success, but the backend did not see the encoded names %q in order (saw %s)", typeName(v.Msg.Type), names, fwShort(strings.Join(got, " "), 200)),
				"frame: "+v.Msg.String())
		}
		return
	}
	var why string
	for _, cl := range calls {
		if cl.Method != method {
			continue
		}
		ok, w := argsMatch(cl, want)
		if ok {
			return
		}
		why = w
	}
	if why == "" {
		why = "no such call was made"
	}
	o.violate(pValues, fmt.Sprintf("delivered-values-differ|server|%s|%s", typeName(v.Msg.Type), method),
		fmt.Sprintf("%s was answered with its success reply, but no backend call %s carries exactly the encoded values: %s", typeName(v.Msg.Type), method, why),
		"frame: "+v.Msg.String())
}

func fwShort(s string, n int) string {
	if len(s) > n {
		return s[:n] + "..."
	}
	return s
}

type reply struct {
	raw  []byte
	msg  refcodec.Msg
	err  error
	used bool
}

// runServer feeds the stream to the real server and evaluates the oracle.
func runServer(c *tcase) *outcome {
	o := &outcome{}
	lim := c.limit()
	vs := classifyStream(c.stream, limits{lim, lim}, true)

	fs, s, steps := serverFixture(c.Msize, c.First)
	o.steps += int64(steps)
	base := len(fs.Calls)
	fedBefore := len(s.CC.W.Written) // everything sent so far has been answered, hence consumed
	repliesBefore := len(s.SC.W.Written)

	if err := s.Peer.SendRaw(c.stream); err != nil {
		infra("server: write failed: %v", err)
	}
	s.CC.W.CloseWrite() // EOF after the stream: nothing follows
	s.WaitDone()        // Handle must return (watchdog = infrastructure error)
	o.steps += int64(len(vs))

	consumed := s.CC.W.TotalRead - fedBefore
	maxRead := s.CC.W.MaxReadLen
	calls := fs.Calls[base:]

	// --- replies -----------------------------------------------------------
	var replies []*reply
	frames, rest := refcodec.Frames(s.SC.W.Written[repliesBefore:])
	for _, f := range frames {
		m, _, err := refcodec.Decode(f)
		replies = append(replies, &reply{raw: f, msg: m, err: err})
	}
	what := c.Family + "|" + c.TypeName
	trig := trigger(c, vs)

	o.evals++
	if len(rest) != 0 {
		o.violate(pOther, "reply-stream-not-framed|server", fmt.Sprintf("%d bytes of the server's output after the last complete frame do not form a frame", len(rest)))
	}
	for _, r := range replies {
		if r.err != nil {
			o.violate(pOther, "reply-undecodable|server", fmt.Sprintf("the server emitted an undecodable frame %x: %v", fwBytes(r.raw), r.err))
		} else if r.msg.Type == refcodec.Rlerror && rawpeer.Errno(r.msg) == 14 {
			// EFAULT: a recovered handler panic. Decoding happens before the
			// recover scope, so this is a handler reaction to well-formed but
			// absurd values: another property; recorded, not flagged.
			o.note("handler_panic_efault_recorded")
			o.note("handler_panic_efault|" + c.TypeName + "|" + c.Family)
		}
	}

	// --- bounded buffering ---------------------------------------------------
	o.evals++
	bound := int(lim)
	for _, v := range vs {
		if v.Weak {
			bound = maxLen
		}
	}
	if maxRead > bound {
		o.violate(pBuffer, fmt.Sprintf("read-buffer-exceeds-msize|server|%s", negName(c)),
			fmt.Sprintf("the server asked the transport for %d bytes in one Read; the limit in force is %d", maxRead, bound), "case: "+c.Desc)
	}

	// --- frame by frame -------------------------------------------------------
	weak := false
	delimited := 0
	var stop *fverdict
	for i := range vs {
		v := &vs[i]
		if v.Weak {
			weak = true
		}
		if v.delimited() {
			delimited++
		} else {
			stop = v
		}
	}
	key := []string{}
	for _, v := range vs {
		key = append(key, v.Class.String()+":"+v.Reason)
	}

	if !weak {
		// consumption
		o.evals++
		wantConsumed := len(c.stream)
		if stop != nil && stop.Class == clConnEnd {
			wantConsumed = stop.Off + 7
		}
		if stop != nil && stop.Class == clConnEnd && consumed > wantConsumed {
			o.violate(pBadSize, fmt.Sprintf("read-past-header-of-bad-size|server|%s", stop.Reason),
				fmt.Sprintf("frame with %s (size field %d, limit %d): the server consumed %d bytes beyond the frame start; at most the 7 header bytes may be read and the connection must end",
					stop.Reason, uint32(stop.Size), lim, consumed-stop.Off), "case: "+c.Desc)
		} else if consumed != wantConsumed {
			o.violate(pConsumed, fmt.Sprintf("consumption-mismatch|server|%s", trig),
				fmt.Sprintf("the server consumed %d bytes of the stream, expected %d (stream %d bytes, stop: %s)", consumed, wantConsumed, len(c.stream), stopName(stop)), "case: "+c.Desc)
		}

		// match replies to frames
		o.evals++
		byTag := func(tag uint16, pred func(*reply) bool) *reply {
			for _, r := range replies {
				if !r.used && r.err == nil && r.msg.Tag == tag && pred(r) {
					return r
				}
			}
			return nil
		}
		anyErr := func() *reply {
			// prefer the tags p9 uses for rejects, but any Rlerror will do
			for _, r := range replies {
				if !r.used && r.err == nil && r.msg.Type == refcodec.Rlerror {
					return r
				}
			}
			return nil
		}
		// delivered frames first (they need their own tag)
		for pass := 0; pass < 3; pass++ {
			for i := range vs {
				v := &vs[i]
				if !v.delimited() {
					continue
				}
				isT := refcodec.IsT(v.Type)
				switch {
				case pass == 0 && v.Class == clDelivered && isT:
					r := byTag(v.Tag, func(r *reply) bool {
						return r.msg.Type == refcodec.ReplyType(v.Type) || r.msg.Type == refcodec.Rlerror
					})
					if r == nil {
						o.violate(pNotServed, fmt.Sprintf("wellformed-request-not-served|server|%s", trig),
							fmt.Sprintf("the well-formed %s (tag %#x) at offset %d got no reply under its tag (replies: %s)", typeName(v.Type), v.Tag, v.Off, replyList(replies)), "case: "+c.Desc)
						continue
					}
					r.used = true
					if r.msg.Type != refcodec.Rlerror {
						checkDelivered(o, c, *v, calls)
						o.note("delivered_success")
					} else {
						o.note("delivered_handler_error")
					}
					if v.Tag == tagSentinel {
						checkSentinel(o, c, r, fs, trig)
					}
				case pass == 1 && (v.Class == clEither || (v.Class == clDelivered && !isT)):
					// delivered (own tag, success or error) or rejected (any Rlerror)
					r := byTag(v.Tag, func(r *reply) bool {
						return r.msg.Type == refcodec.Rlerror || (isT && r.msg.Type == refcodec.ReplyType(v.Type))
					})
					if r == nil {
						r = anyErr()
					}
					if r == nil {
						o.violate(pNotAnswered, fmt.Sprintf("delimited-frame-not-answered|server|%s", v.Reason),
							fmt.Sprintf("the delimited frame %s got neither a reply under its tag nor an Rlerror (replies: %s)", v.String(), replyList(replies)), "case: "+c.Desc)
						continue
					}
					r.used = true
					if r.msg.Type != refcodec.Rlerror && v.Class == clEither {
						checkDelivered(o, c, *v, calls)
						o.note("either_delivered")
					} else {
						o.note("either_rejected")
					}
				case pass == 2 && v.Class == clRejected:
					if r := byTag(v.Tag, func(r *reply) bool { return r.msg.Type != refcodec.Rlerror }); r != nil {
						r.used = true
						o.violate(pMalformedDelivered, fmt.Sprintf("malformed-frame-delivered|server|%s|%s", typeName(v.Type), v.Reason),
							fmt.Sprintf("the frame %s must be rejected but was answered %s", v.String(), r.msg.Name()), "case: "+c.Desc)
						continue
					}
					r := byTag(v.Tag, func(r *reply) bool { return true })
					if r == nil {
						r = byTag(0xffff, func(r *reply) bool { return r.msg.Type == refcodec.Rlerror })
					}
					if r == nil {
						r = anyErr()
					}
					if r == nil {
						o.violate(pNotAnswered, fmt.Sprintf("rejected-frame-not-answered|server|%s", v.Reason),
							fmt.Sprintf("the rejected but well-delimited frame %s was not answered with Rlerror (replies: %s)", v.String(), replyList(replies)), "case: "+c.Desc)
						continue
					}
					r.used = true
					o.note("rejected_answered")
				}
			}
		}
		// leftovers: at most one Rlerror for a frame cut off by EOF
		left := 0
		for _, r := range replies {
			if !r.used {
				left++
				if !(stop != nil && stop.Class == clTruncated && left == 1 && r.err == nil && r.msg.Type == refcodec.Rlerror) {
					o.violate(pUnexpected, fmt.Sprintf("unexpected-reply|server|%s", trig),
						fmt.Sprintf("the server sent a reply (%s) that answers no frame of the stream (%d delimited frames; stop: %s)", r.msg.String(), delimited, stopName(stop)), "case: "+c.Desc)
				}
			}
		}
	} else {
		o.note("weak_oracle_cases")
	}
	o.key = fmt.Sprintf("server|%s|%s|%s|replies=%s", negName(c), what, strings.Join(key, ","), replyKinds(replies))
	return o
}

func checkSentinel(o *outcome, c *tcase, r *reply, fs *memfs.FS, trig string) {
	o.evals++
	if r.msg.Type != refcodec.Rgetattr {
		o.violate(pNotServed, "wellformed-request-not-served|server|"+trig, fmt.Sprintf("the sentinel Tgetattr sent after the frames under test was answered %s instead of Rgetattr: the frames after a rejected frame are not served correctly", r.msg.String()), "case: "+c.Desc)
		return
	}
	if r.msg.U("qid.path") != fs.Root.ID || r.msg.U("qid.type") != 0x80 || r.msg.U("valid") != 0x7ff {
		o.violate(pValues, "sentinel-reply-wrong|server|"+trig, fmt.Sprintf("the sentinel's reply carries wrong values (%s): frame alignment or state was lost", r.msg.String()), "case: "+c.Desc)
	}
}

func negName(c *tcase) string {
	if c.Neg && c.First != 0 {
		return fmt.Sprintf("msize%d-then-%d", c.First, c.Msize)
	}
	if c.Neg {
		return fmt.Sprintf("msize%d", c.Msize)
	}
	return "unnegotiated"
}

func stopName(v *fverdict) string {
	if v == nil {
		return "clean-eof"
	}
	return v.Class.String() + ":" + v.Reason
}

func replyList(rs []*reply) string {
	var out []string
	for _, r := range rs {
		if r.err != nil {
			out = append(out, "undecodable")
		} else if r.msg.Type == refcodec.Rlerror {
			out = append(out, fmt.Sprintf("Rlerror(%d)/tag%#x", rawpeer.Errno(r.msg), r.msg.Tag))
		} else {
			out = append(out, fmt.Sprintf("%s/tag%#x", r.msg.Name(), r.msg.Tag))
		}
	}
	return "[" + strings.Join(out, " ") + "]"
}

func replyKinds(rs []*reply) string {
	var out []string
	for _, r := range rs {
		if r.err != nil {
			out = append(out, "?")
		} else if r.msg.Type == refcodec.Rlerror {
			out = append(out, fmt.Sprintf("E%d", rawpeer.Errno(r.msg)))
		} else {
			out = append(out, r.msg.Name())
		}
	}
	sort.Strings(out) // requests are served concurrently: the order is not an outcome
	return strings.Join(out, ",")
}

func fwBytes(b []byte) []byte {
	if len(b) > 48 {
		return b[:48]
	}
	return b
}
