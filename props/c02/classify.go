package c02

import (
	"encoding/binary"
	"fmt"

	"verif/harness/refcodec"
)

// The frame classifier: from the bytes of a stream alone (plus the size limit
// in force) it says what the property text allows the receiver to do with
// each frame. It is written on refcodec only and shares nothing with p9.

type class int

const (
	// clDelivered: a complete frame of a known type whose body decodes
	// exactly: the receiver must hand it on with exactly the decoded values
	// (or, being a request, answer it under its own tag).
	clDelivered class = iota
	// clRejected: complete, well delimited, but unknown type / body too short
	// / counts larger than or inconsistent with the body: consumes exactly
	// its size, is answered Rlerror by a server, later frames are served.
	clRejected
	// clEither: complete and decodable, but the text allows delivery as well
	// as rejection (bytes after the last field; an Rreaddir whose payload
	// ends in a malformed entry).
	clEither
	// clConnEnd: size field < 7 or > limit: the connection ends, the body is
	// not read (at most the 7 header bytes of this frame are consumed).
	clConnEnd
	// clTruncated: the stream ends inside this frame (EOF): it cannot be
	// delivered; the connection ends.
	clTruncated
)

func (c class) String() string {
	return [...]string{"delivered", "rejected", "either", "conn-end", "truncated"}[c]
}

var le = binary.LittleEndian

const maxLen = 4 << 20 // the absolute bound of the property text (4 MiB)

type fverdict struct {
	Off      int
	Size     int // declared size (valid for delimited frames)
	Avail    int // bytes of the stream from Off on
	Class    class
	Reason   string
	Type     uint8
	Tag      uint16
	Known    bool
	Msg      refcodec.Msg // decoded values (clDelivered, clEither)
	Trailing int
	// Weak: the limit in force for this frame is not determined by the bytes
	// (a Tversion earlier in the stream may or may not have taken effect
	// yet); from here on only the unconditional clauses are asserted.
	Weak bool
}

func (v fverdict) delimited() bool {
	return v.Class == clDelivered || v.Class == clRejected || v.Class == clEither
}

func (v fverdict) String() string {
	n := fmt.Sprintf("type%d", v.Type)
	if d, ok := refcodec.Defs[v.Type]; ok {
		n = d.Name
	}
	return fmt.Sprintf("@%d %s size=%d tag=%#x: %s (%s)", v.Off, n, v.Size, v.Tag, v.Class, v.Reason)
}

// classifyFrame classifies one complete frame (len(frame) == declared size).
func classifyFrame(frame []byte) (cl class, reason string, m refcodec.Msg, trailing int) {
	t := frame[4]
	if _, ok := refcodec.Defs[t]; !ok {
		return clRejected, "unknown-type", m, 0
	}
	m, trailing, err := refcodec.Decode(frame)
	switch err {
	case nil:
		if trailing > 0 {
			return clEither, "trailing-bytes", m, trailing
		}
		return clDelivered, "ok", m, 0
	case refcodec.ErrCount:
		return clRejected, "count-inconsistent", m, 0
	case refcodec.ErrShort:
		if t == refcodec.Rreaddir && len(frame) >= 11 && int(le.Uint32(frame[7:])) == len(frame)-11 {
			// count[4] data[count] is consistent; the entry list inside data
			// ends in an incomplete entry. Delivering the complete entries
			// or rejecting the frame are both within the text.
			ds, _ := refcodec.DecodeDirents(frame[11:])
			m = refcodec.Msg{Type: t, Tag: le.Uint16(frame[5:]), Vals: []interface{}{ds}}
			return clEither, "readdir-incomplete-entry", m, 0
		}
		return clRejected, "body-short", m, 0
	}
	return clRejected, "undecodable", m, 0
}

// limits is the set of size limits that may be in force.
type limits struct{ lo, hi uint32 }

// classifyStream walks the stream frame by frame the way any conforming
// receiver has to delimit it. server says whether Tversion frames change the
// limit for what follows.
func classifyStream(stream []byte, lim limits, server bool) []fverdict {
	var out []fverdict
	off := 0
	weak := false
	for off < len(stream) {
		rest := stream[off:]
		v := fverdict{Off: off, Avail: len(rest), Weak: weak}
		if len(rest) < 7 {
			v.Class, v.Reason = clTruncated, "eof-in-header"
			if len(rest) >= 4 {
				v.Size = int(le.Uint32(rest))
			}
			out = append(out, v)
			return out
		}
		size := le.Uint32(rest)
		v.Size, v.Type, v.Tag = int(size), rest[4], le.Uint16(rest[5:])
		_, v.Known = refcodec.Defs[v.Type]
		if size < 7 {
			v.Class, v.Reason = clConnEnd, "size<7"
			out = append(out, v)
			return out
		}
		if size > lim.hi {
			v.Class, v.Reason = clConnEnd, "size>msize"
			out = append(out, v)
			return out
		}
		if size > lim.lo {
			// allowed to end the connection, allowed to go on
			weak = true
			v.Weak = true
		}
		if int64(size) > int64(len(rest)) {
			v.Class, v.Reason = clTruncated, "eof-in-body"
			out = append(out, v)
			return out
		}
		frame := rest[:size]
		v.Class, v.Reason, v.Msg, v.Trailing = classifyFrame(frame)
		out = append(out, v)
		if server && v.Type == refcodec.Tversion && (v.Class == clDelivered || v.Class == clEither) {
			// A version request may renegotiate msize; when it takes effect
			// relative to the frames already in flight is not fixed by the text.
			if ms := uint32(v.Msg.U("msize")); ms != 0 {
				if ms > maxLen {
					ms = maxLen
				}
				if ms < lim.lo {
					lim.lo = ms
				}
				if ms > lim.hi {
					lim.hi = ms
				}
				// the old limit stays a candidate as well
			}
		}
		off += int(size)
	}
	return out
}
