package c02

import (
	"encoding/hex"
	"fmt"
	"sort"

	"verif/harness/refcodec"
)

// ---------------------------------------------------------------------------
// Fixture numbering shared by the canonical frames and the server fixture.

const (
	fidRoot     = 1    // /            unopened
	fidFile     = 2    // /d/f         unopened regular file
	fidOpen     = 3    // /d/f         opened read-write
	fidDir      = 4    // /d           unopened directory
	fidDir2     = 5    // /e           unopened directory
	fidDirOpen  = 6    // /d           opened read-only
	fidLink     = 7    // /l           symlink
	fidCreate   = 8    // /e (clone)   becomes the created file
	fidXattr    = 9    // /d/f (clone) target of Txattrcreate
	fidRen      = 10   // /d/g         regular file to be renamed
	fidClunk    = 11   // /d/f (clone)
	fidRemove   = 12   // /d/h         regular file to be removed
	fidSentinel = 0x51 // /            second attach, used only by the sentinel

	tagCase     = 0x1234 // tag of the frame under test
	tagSentinel = 0x5a5a
	tagA        = 1 // client: tag of the first pending call
	tagB        = 2 // client: tag of the second pending call

	negMsize    = 4096  // negotiated msize
	clientDefMs = 65536 // p9.DefaultMessageSize (client without option)
)

var (
	q1 = refcodec.QID{Type: 0x80, Version: 0x01020304, Path: 0x1112131415161718}
	q2 = refcodec.QID{Type: 0x00, Version: 0x21222324, Path: 0x3132333435363738}
)

func attrVals() []interface{} {
	// mode uid gid nlink rdev size blksize blocks atime.. btime gen data_version
	return []interface{}{uint32(0o100644), uint32(1001), uint32(1002), uint64(3), uint64(0x0405), uint64(0x1234), uint64(4096), uint64(9),
		uint64(0x5001), uint64(0x5002), uint64(0x5003), uint64(0x5004), uint64(0x5005), uint64(0x5006), uint64(0x5007), uint64(0x5008), uint64(0x5009), uint64(0x500a)}
}

func qv(q refcodec.QID) []interface{} { return []interface{}{q.Type, q.Version, q.Path} }

func cat(xs ...[]interface{}) []interface{} {
	var out []interface{}
	for _, x := range xs {
		out = append(out, x...)
	}
	return out
}

// canonical returns the canonical valid message of a registered type.
func canonical(t uint8, tag uint16) refcodec.Msg {
	n := func(vals ...interface{}) refcodec.Msg { return refcodec.New(t, tag, vals...) }
	const fifo = 0o010644
	switch t {
	// requests
	case refcodec.Tstatfs:
		return n(fidRoot)
	case refcodec.Tlopen:
		return n(fidFile, 2)
	case refcodec.Tlcreate:
		return n(fidCreate, "newf", 2, 0o644, 7)
	case refcodec.Tucreate:
		return n(fidCreate, "newu", 2, 0o644, 7, 1000)
	case refcodec.Tsymlink:
		return n(fidDir, "sl", "tgt", 7)
	case refcodec.Tusymlink:
		return n(fidDir, "usl", "tgt", 7, 1000)
	case refcodec.Tmknod:
		return n(fidDir, "nod", fifo, 1, 2, 7)
	case refcodec.Tumknod:
		return n(fidDir, "unod", fifo, 1, 2, 7, 1000)
	case refcodec.Tmkdir:
		return n(fidDir, "sub", 0o755, 7)
	case refcodec.Tumkdir:
		return n(fidDir, "usub", 0o755, 7, 1000)
	case refcodec.Trename:
		return n(fidRen, fidDir2, "rn")
	case refcodec.Treadlink:
		return n(fidLink)
	case refcodec.Tgetattr:
		return n(fidRoot, uint64(0x7ff))
	case refcodec.Tsetattr:
		return n(fidFile, 0x9, 0o600, 11, 12, uint64(4), uint64(0x61), uint64(0x62), uint64(0x63), uint64(0x64))
	case refcodec.Txattrwalk:
		return n(fidFile, 20, "user.k")
	case refcodec.Txattrcreate:
		return n(fidXattr, "user.n", uint64(3), 0)
	case refcodec.Treaddir:
		return n(fidDirOpen, uint64(0), 512)
	case refcodec.Tfsync:
		return n(fidOpen)
	case refcodec.Tlock:
		return n(fidOpen, uint8(1), 0, uint64(0), uint64(10), 42, "cl")
	case refcodec.Tlink:
		return n(fidDir, fidFile, "hl")
	case refcodec.Trenameat:
		return n(fidDir, "g", fidDir2, "g2")
	case refcodec.Tunlinkat:
		return n(fidDir, "u", 0)
	case refcodec.Tversion:
		return n(negMsize, "9P2000.L.Google.7")
	case refcodec.Tauth:
		return n(uint32(0xffffffff), "u", "", 0)
	case refcodec.Tattach:
		return n(30, uint32(0xffffffff), "u", "", uint32(0xffffffff))
	case refcodec.Tflush:
		return n(uint16(0x7777))
	case refcodec.Twalk:
		return n(fidRoot, 21, []string{"d", "f"})
	case refcodec.Twalkgetattr:
		return n(fidRoot, 22, []string{"d", "f"})
	case refcodec.Tread:
		return n(fidOpen, uint64(2), 8)
	case refcodec.Twrite:
		return n(fidOpen, uint64(4), []byte("WXYZ"))
	case refcodec.Tclunk:
		return n(fidClunk)
	case refcodec.Tremove:
		return n(fidRemove)
	// replies
	case refcodec.Rlerror:
		return n(5)
	case refcodec.Rstatfs:
		return n(0x01021997, 4096, uint64(1000), uint64(500), uint64(400), uint64(100), uint64(50), uint64(0x77), 255)
	case refcodec.Rlopen, refcodec.Rlcreate, refcodec.Rucreate:
		return n(cat(qv(q2), []interface{}{8192})...)
	case refcodec.Rsymlink, refcodec.Rusymlink, refcodec.Rmknod, refcodec.Rumknod, refcodec.Rmkdir, refcodec.Rumkdir, refcodec.Rauth, refcodec.Rattach:
		return n(qv(q1)...)
	case refcodec.Rrename, refcodec.Rsetattr, refcodec.Rxattrcreate, refcodec.Rfsync, refcodec.Rlink, refcodec.Rrenameat, refcodec.Runlinkat, refcodec.Rflush, refcodec.Rclunk, refcodec.Rremove:
		return n()
	case refcodec.Rreadlink:
		return n("target/path")
	case refcodec.Rgetattr:
		return n(cat([]interface{}{uint64(0x7ff)}, qv(q1), attrVals())...)
	case refcodec.Rxattrwalk:
		return n(uint64(5))
	case refcodec.Rreaddir:
		return n([]refcodec.Dirent{{QID: q1, Offset: 1, Type: 4, Name: "a"}, {QID: q2, Offset: 2, Type: 8, Name: "bb"}})
	case refcodec.Rlock:
		return n(uint8(1))
	case refcodec.Rversion:
		return n(negMsize, "9P2000.L.Google.7")
	case refcodec.Rwalk:
		return n([]refcodec.QID{q1, q2})
	case refcodec.Rread:
		return n([]byte("DATA1234"))
	case refcodec.Rwrite:
		return n(4)
	case refcodec.Rwalkgetattr:
		return n(cat([]interface{}{uint64(0x7ff)}, attrVals(), []interface{}{[]refcodec.QID{q1, q2}})...)
	}
	panic(fmt.Sprintf("c02: no canonical frame for type %d", t))
}

// allTypes returns the registered type numbers in ascending order.
func allTypes() []uint8 {
	var out []uint8
	for t := range refcodec.Defs {
		out = append(out, t)
	}
	sort.Slice(out, func(i, j int) bool { return out[i] < out[j] })
	return out
}

func typeName(t uint8) string {
	if d, ok := refcodec.Defs[t]; ok {
		return d.Name
	}
	return fmt.Sprintf("type%d", t)
}

// clientMethod says which client call is left pending while a frame of type t
// is fed, and with which negotiated version.
func clientMethod(t uint8) (method string, version uint32) {
	switch t {
	case refcodec.Rstatfs:
		return "StatFS", 7
	case refcodec.Rlopen:
		return "Open", 7
	case refcodec.Rlcreate:
		return "Create", 0
	case refcodec.Rucreate:
		return "Create", 7
	case refcodec.Rsymlink:
		return "Symlink", 0
	case refcodec.Rusymlink:
		return "Symlink", 7
	case refcodec.Rmknod:
		return "Mknod", 0
	case refcodec.Rumknod:
		return "Mknod", 7
	case refcodec.Rmkdir:
		return "Mkdir", 0
	case refcodec.Rumkdir:
		return "Mkdir", 7
	case refcodec.Rrename:
		return "Rename", 7
	case refcodec.Rreadlink:
		return "Readlink", 7
	case refcodec.Rgetattr, refcodec.Rlerror:
		return "GetAttr", 7
	case refcodec.Rsetattr:
		return "SetAttr", 7
	case refcodec.Rxattrwalk:
		return "GetXattr", 7
	case refcodec.Rreaddir:
		return "Readdir", 7
	case refcodec.Rfsync:
		return "FSync", 7
	case refcodec.Rlock:
		return "Lock", 7
	case refcodec.Rlink:
		return "Link", 7
	case refcodec.Rrenameat:
		return "RenameAt", 7
	case refcodec.Runlinkat:
		return "UnlinkAt", 7
	case refcodec.Rversion:
		return "NewClient", 7
	case refcodec.Rattach:
		return "Attach", 7
	case refcodec.Rwalk:
		return "Walk", 7
	case refcodec.Rread:
		return "ReadAt", 7
	case refcodec.Rwrite:
		return "WriteAt", 7
	case refcodec.Rclunk:
		return "Close", 7
	case refcodec.Rremove:
		return "Remove", 7
	case refcodec.Rwalkgetattr:
		return "WalkGetAttr", 7
	}
	// No client call expects this type (requests, Rauth, Rflush,
	// Rxattrcreate): it meets a pending GetAttr.
	return "GetAttr", 7
}

// replyTypeOf gives the R type a pending client method waits for.
func replyTypeOf(method string, version uint32) uint8 {
	u := version >= 3
	switch method {
	case "StatFS":
		return refcodec.Rstatfs
	case "Open":
		return refcodec.Rlopen
	case "Create":
		if u {
			return refcodec.Rucreate
		}
		return refcodec.Rlcreate
	case "Symlink":
		if u {
			return refcodec.Rusymlink
		}
		return refcodec.Rsymlink
	case "Mknod":
		if u {
			return refcodec.Rumknod
		}
		return refcodec.Rmknod
	case "Mkdir":
		if u {
			return refcodec.Rumkdir
		}
		return refcodec.Rmkdir
	case "Rename":
		return refcodec.Rrename
	case "Readlink":
		return refcodec.Rreadlink
	case "GetAttr":
		return refcodec.Rgetattr
	case "SetAttr":
		return refcodec.Rsetattr
	case "GetXattr":
		return refcodec.Rxattrwalk
	case "Readdir":
		return refcodec.Rreaddir
	case "FSync":
		return refcodec.Rfsync
	case "Lock":
		return refcodec.Rlock
	case "Link":
		return refcodec.Rlink
	case "RenameAt":
		return refcodec.Rrenameat
	case "UnlinkAt":
		return refcodec.Runlinkat
	case "NewClient":
		return refcodec.Rversion
	case "Attach":
		return refcodec.Rattach
	case "Walk":
		return refcodec.Rwalk
	case "ReadAt":
		return refcodec.Rread
	case "WriteAt":
		return refcodec.Rwrite
	case "Close":
		return refcodec.Rclunk
	case "Remove":
		return refcodec.Rremove
	case "WalkGetAttr":
		return refcodec.Rwalkgetattr
	}
	panic("c02: unknown client method " + method)
}

// ---------------------------------------------------------------------------
// Count / length positions of a canonical frame.

type countPos struct {
	Off   int
	Width int // 2 or 4
	N     uint64
	What  string
}

func countPositions(m refcodec.Msg) []countPos {
	d := refcodec.Defs[m.Type]
	var out []countPos
	off := 7
	for i, fd := range d.Fields {
		switch fd.Kind {
		case refcodec.U8:
			off++
		case refcodec.U16:
			off += 2
		case refcodec.U32:
			if fd.Name == "count" {
				// Tread/Treaddir: a requested count, not a length of the body;
				// included because it sizes buffers in the handlers.
				out = append(out, countPos{off, 4, m.Vals[i].(uint64), "request-count"})
			}
			off += 4
		case refcodec.U64:
			off += 8
		case refcodec.Str:
			s := m.Vals[i].(string)
			out = append(out, countPos{off, 2, uint64(len(s)), "strlen:" + fd.Name})
			off += 2 + len(s)
		case refcodec.Names:
			ns := m.Vals[i].([]string)
			out = append(out, countPos{off, 2, uint64(len(ns)), "nwname"})
			off += 2
			for j, s := range ns {
				out = append(out, countPos{off, 2, uint64(len(s)), fmt.Sprintf("wname[%d]-len", j)})
				off += 2 + len(s)
			}
		case refcodec.QIDs:
			qs := m.Vals[i].([]refcodec.QID)
			out = append(out, countPos{off, 2, uint64(len(qs)), "nwqid"})
			off += 2 + 13*len(qs)
		case refcodec.Data:
			p := m.Vals[i].([]byte)
			out = append(out, countPos{off, 4, uint64(len(p)), "data-count"})
			off += 4 + len(p)
		case refcodec.Dirs:
			ds := m.Vals[i].([]refcodec.Dirent)
			p := refcodec.EncodeDirents(ds)
			out = append(out, countPos{off, 4, uint64(len(p)), "data-count"})
			off += 4
			for j, de := range ds {
				out = append(out, countPos{off + 13 + 8 + 1, 2, uint64(len(de.Name)), fmt.Sprintf("dirent[%d]-namelen", j)})
				off += refcodec.DirentSize(de.Name)
			}
		}
	}
	return out
}

// ---------------------------------------------------------------------------
// Cases.

type tcase struct {
	Index    int    `json:"index"`
	Tier     string `json:"tier"`
	Side     string `json:"side"`   // server | client
	Family   string `json:"family"` // trunc size type byte count length seq
	TypeName string `json:"type"`   // the registered type the case derives from
	Desc     string `json:"desc"`   // what was done to it
	Neg      bool   `json:"negotiated"`
	Msize    uint32 `json:"msize,omitempty"`       // negotiated msize (0: unnegotiated)
	First    uint32 `json:"first_msize,omitempty"` // server: a LARGER msize negotiated first, then Msize (0: one negotiation)
	Hex      string `json:"stream_hex,omitempty"`  // omitted when large (regenerated from index)
	// client
	Method  string `json:"method,omitempty"`
	Version uint32 `json:"version,omitempty"`
	Second  bool   `json:"second_pending,omitempty"`

	stream []byte
}

func (c *tcase) finish() {
	if len(c.stream) <= 8192 {
		c.Hex = hex.EncodeToString(c.stream)
	}
}

func (c *tcase) limit() uint32 {
	if c.Neg {
		return c.Msize
	}
	if c.Side == "server" {
		return maxLen
	}
	return clientDefMs
}

func setSize(f []byte, v uint32) []byte {
	g := append([]byte(nil), f...)
	le.PutUint32(g, v)
	return g
}

func sentinelFrame() []byte {
	return refcodec.Encode(refcodec.New(refcodec.Tgetattr, tagSentinel, fidSentinel, uint64(0x7ff)))
}

func goodB() []byte { return refcodec.Encode(canonical(refcodec.Rgetattr, tagB)) }

// rejectReps are the representatives of the reject classes used in the
// sequence family, as functions of side and tag.
type seqElem struct {
	Name  string
	Build func(side string, tag uint16, lim uint32) []byte
}

func seqAlphabet() []seqElem {
	good := func(side string, tag uint16, lim uint32) []byte {
		if side == "server" {
			return refcodec.Encode(refcodec.New(refcodec.Tgetattr, tag, fidSentinel, uint64(0x7ff)))
		}
		return refcodec.Encode(canonical(refcodec.Rgetattr, tag))
	}
	raw := func(t uint8, tag uint16, body []byte) []byte {
		f := make([]byte, 7, 7+len(body))
		f[4] = t
		le.PutUint16(f[5:], tag)
		f = append(f, body...)
		le.PutUint32(f, uint32(len(f)))
		return f
	}
	return []seqElem{
		{"good", good},
		{"unknown-type", func(side string, tag uint16, lim uint32) []byte { return raw(0xee, tag, []byte{1, 2, 3, 4, 5}) }},
		{"unknown-type-empty", func(side string, tag uint16, lim uint32) []byte { return raw(0x03, tag, nil) }},
		{"body-short", func(side string, tag uint16, lim uint32) []byte {
			f := good(side, tag, lim)
			return setSize(f[:len(f)-3], uint32(len(f)-3))
		}},
		{"strlen-beyond-body", func(side string, tag uint16, lim uint32) []byte {
			if side == "server" {
				f := refcodec.Encode(refcodec.New(refcodec.Tunlinkat, tag, fidDir2, "nothing", 0))
				le.PutUint16(f[11:], 0x7fff)
				return f
			}
			f := refcodec.Encode(refcodec.New(refcodec.Rreadlink, tag, "nothing"))
			le.PutUint16(f[7:], 0x7fff)
			return f
		}},
		{"list-count-beyond-body", func(side string, tag uint16, lim uint32) []byte {
			if side == "server" {
				f := refcodec.Encode(refcodec.New(refcodec.Twalk, tag, fidSentinel, 40, []string{"d"}))
				le.PutUint16(f[15:], 0xffff)
				return f
			}
			f := refcodec.Encode(refcodec.New(refcodec.Rwalk, tag, []refcodec.QID{q1}))
			le.PutUint16(f[7:], 0xffff)
			return f
		}},
		{"data-count-inconsistent", func(side string, tag uint16, lim uint32) []byte {
			if side == "server" {
				f := refcodec.Encode(refcodec.New(refcodec.Twrite, tag, fidOpen, uint64(0), []byte("abcd")))
				le.PutUint32(f[19:], 5)
				return f
			}
			f := refcodec.Encode(refcodec.New(refcodec.Rread, tag, []byte("abcd")))
			le.PutUint32(f[7:], 5)
			return f
		}},
		{"trailing-bytes", func(side string, tag uint16, lim uint32) []byte {
			f := append(good(side, tag, lim), 0xde, 0xad)
			return setSize(f, uint32(len(f)))
		}},
		{"size<7", func(side string, tag uint16, lim uint32) []byte { return setSize(good(side, tag, lim), 6) }},
		{"size>msize", func(side string, tag uint16, lim uint32) []byte { return setSize(good(side, tag, lim), lim+1) }},
	}
}

// enumerate produces every case of the tier in a fixed order and returns
// their number. want (if not nil) selects the indices that are materialised;
// the others are only counted.
func enumerate(quick bool, want func(idx int) bool, yield func(c *tcase)) int {
	tier := "thorough"
	if quick {
		tier = "quick"
	}
	idx := 0
	first := uint32(0) // set by the loop over limits below
	emit := func(c tcase) {
		c.Index, c.Tier = idx, tier
		c.First = first
		idx++
		c.finish()
		yield(&c)
	}
	// skip is asked before a case is built: it counts an unwanted case.
	skip := func() bool {
		if want != nil && !want(idx) {
			idx++
			return true
		}
		return false
	}
	sent := sentinelFrame()
	types := allTypes()

	for _, side := range []string{"server", "client"} {
		msizes := []uint32{negMsize, 0}
		if !quick {
			if side == "server" {
				msizes = []uint32{negMsize, 0, 512, 65536}
			} else {
				msizes = []uint32{negMsize, 0, 512, 16384}
			}
		}
		// the server side also with the limit reached by negotiating DOWN: the
		// smaller msize of the second Rversion is the one in force
		const renegotiated = ^uint32(0)
		if side == "server" {
			msizes = append(msizes, renegotiated)
		}
		for _, ms := range msizes {
			first = 0
			if ms == renegotiated {
				ms, first = negMsize, 65536
			}
			neg := ms != 0
			lim := (&tcase{Side: side, Neg: neg, Msize: ms}).limit()
			// second pending call variants (client only)
			seconds := []bool{false}
			if side == "client" {
				seconds = []bool{false, true}
			}
			for _, t := range types {
				name := typeName(t)
				method, version := "", uint32(0)
				tag := uint16(tagCase)
				if side == "client" {
					method, version = clientMethod(t)
					tag = tagA
				}
				canon := refcodec.Encode(canonical(t, tag))
				for _, second := range seconds {
					if second && method == "NewClient" {
						continue // nothing else can be pending during the version exchange
					}
					// what follows the frame under test
					var tail []byte
					if side == "server" {
						tail = sent
					} else if second {
						tail = goodB()
					}
					mk := func(family, desc string, frame []byte, withTail bool) {
						s := append([]byte(nil), frame...)
						if withTail {
							s = append(s, tail...)
						}
						emit(tcase{Side: side, Family: family, TypeName: name, Desc: desc, Neg: neg, Msize: ms, Method: method, Version: version, Second: second, stream: s})
					}
					// F0 the canonical frame itself
					if !skip() {
						mk("canonical", "unchanged", canon, true)
					}
					// F1 every truncation offset followed by EOF
					for k := 1; k < len(canon); k++ {
						if skip() {
							continue
						}
						mk("trunc", fmt.Sprintf("cut@%d/%d", k, len(canon)), canon[:k], false)
					}
					// F2 size field
					n := uint32(len(canon))
					for _, sv := range []struct {
						n string
						v uint32
					}{{"0", 0}, {"1", 1}, {"6", 6}, {"7", 7}, {"8", 8}, {"len-1", n - 1}, {"len+1", n + 1}, {"msize-1", lim - 1}, {"msize", lim}, {"msize+1", lim + 1},
						{"4MiB", maxLen}, {"4MiB+1", maxLen + 1}, {"2^31", 1 << 31}, {"2^32-1", 0xffffffff}} {
						if skip() {
							continue
						}
						mk("size", "size="+sv.n, setSize(canon, sv.v), true)
					}
					// F4 every byte position × {0x00, 0xff, b^1, b^0x80}
					for p := 0; p < len(canon); p++ {
						b := canon[p]
						seen := map[byte]bool{b: true}
						for _, mv := range []struct {
							n string
							v byte
						}{{"00", 0}, {"ff", 0xff}, {"^01", b ^ 1}, {"^80", b ^ 0x80}} {
							if seen[mv.v] {
								continue
							}
							seen[mv.v] = true
							if skip() {
								continue
							}
							g := append([]byte(nil), canon...)
							g[p] = mv.v
							mk("byte", fmt.Sprintf("byte[%d]%s", p, mv.n), g, true)
						}
					}
					// F4b (thorough) every pair of byte positions among the first
					// 16 bytes (header and first fields) x the same four values each
					if !quick {
						vals := func(b byte) []byte {
							var out []byte
							seen := map[byte]bool{b: true}
							for _, v := range []byte{0, 0xff, b ^ 1, b ^ 0x80} {
								if !seen[v] {
									seen[v] = true
									out = append(out, v)
								}
							}
							return out
						}
						top := len(canon)
						if top > 16 {
							top = 16
						}
						for p := 0; p < top; p++ {
							for q := p + 1; q < top; q++ {
								for _, vp := range vals(canon[p]) {
									for _, vq := range vals(canon[q]) {
										if skip() {
											continue
										}
										g := append([]byte(nil), canon...)
										g[p], g[q] = vp, vq
										mk("byte2", fmt.Sprintf("byte[%d]=%02x,byte[%d]=%02x", p, vp, q, vq), g, true)
									}
								}
							}
						}
					}
					// F5 every count / length position
					for _, cp := range countPositions(canonical(t, tag)) {
						var vals []uint64
						if cp.Width == 2 {
							vals = []uint64{0, 1, cp.N - 1, cp.N + 1, 0x7fff, 0x8000, 0xffff}
						} else {
							vals = []uint64{0, cp.N - 1, cp.N + 1, 0xffffffff}
							if cp.What == "request-count" {
								vals = append(vals, uint64(lim)-11, uint64(lim), uint64(lim)+1, maxLen, maxLen+1)
							}
						}
						seen := map[uint64]bool{cp.N: true}
						for _, v := range vals {
							if cp.Width == 2 {
								v &= 0xffff
							} else {
								v &= 0xffffffff
							}
							if seen[v] {
								continue
							}
							seen[v] = true
							if skip() {
								continue
							}
							g := append([]byte(nil), canon...)
							if cp.Width == 2 {
								le.PutUint16(g[cp.Off:], uint16(v))
							} else {
								le.PutUint32(g[cp.Off:], uint32(v))
							}
							mk("count", fmt.Sprintf("%s@%d=%#x", cp.What, cp.Off, v), g, true)
						}
					}
				}
			}

			// F3 all 256 type bytes × {empty body, canonical body of a mid-size type}
			for _, second := range seconds {
				var tail []byte
				tag := uint16(tagCase)
				method, version := "", uint32(0)
				body := refcodec.Encode(canonical(refcodec.Tgetattr, 0))[7:]
				if side == "server" {
					tail = sent
				} else {
					tag = tagA
					method, version = "GetAttr", 7
					body = refcodec.Encode(canonical(refcodec.Rlopen, 0))[7:]
					if second {
						tail = goodB()
					}
				}
				for tb := 0; tb < 256; tb++ {
					for bi, bd := range [][]byte{nil, body} {
						if skip() {
							continue
						}
						f := make([]byte, 7, 7+len(bd))
						f[4] = byte(tb)
						le.PutUint16(f[5:], tag)
						f = append(f, bd...)
						le.PutUint32(f, uint32(len(f)))
						bn := "empty-body"
						if bi == 1 {
							bn = "mid-size-body"
						}
						emit(tcase{Side: side, Family: "type", TypeName: typeName(byte(tb)), Desc: bn, Neg: neg, Msize: ms, Method: method, Version: version, Second: second,
							stream: append(f, tail...)})
					}
				}
			}

			// F6 consistent payload lengths around the limits
			if side == "server" {
				for _, L := range []uint32{23, 24, lim - 1, lim, lim + 1} {
					if skip() {
						continue
					}
					m := refcodec.New(refcodec.Twrite, tagCase, fidOpen, uint64(0), make([]byte, L-23))
					emit(tcase{Side: side, Family: "length", TypeName: "Twrite", Desc: fmt.Sprintf("frame-size=%d", L), Neg: neg, Msize: ms,
						stream: append(refcodec.Encode(m), sent...)})
				}
			} else {
				for _, second := range seconds {
					var tail []byte
					if second {
						tail = goodB()
					}
					// payloadSize of the client is not known to the generator
					// without p9; lengths are chosen around the request (16),
					// the 512-byte grid below msize and the limit itself.
					seenLen := map[uint32]bool{}
					for _, dl64 := range []int64{0, 1, 15, 16, 17, 511, 512, 513, int64(lim) - 1024, int64(lim) - 512, int64(lim) - 12, int64(lim) - 11, int64(lim) - 10} {
						if dl64 < 0 || seenLen[uint32(dl64)] {
							continue
						}
						dl := uint32(dl64)
						seenLen[dl] = true
						if skip() {
							continue
						}
						m := refcodec.New(refcodec.Rread, tagA, make([]byte, dl))
						emit(tcase{Side: side, Family: "length", TypeName: "Rread", Desc: fmt.Sprintf("data-len=%d (16 requested)", dl), Neg: neg, Msize: ms, Method: "ReadAt", Version: 7, Second: second,
							stream: append(refcodec.Encode(m), tail...)})
					}
					for _, cnt := range []uint32{0, 3, 4, 5, 512, lim, 0x7fffffff, 0xffffffff} {
						if skip() {
							continue
						}
						m := refcodec.New(refcodec.Rwrite, tagA, cnt)
						emit(tcase{Side: side, Family: "length", TypeName: "Rwrite", Desc: fmt.Sprintf("count=%d (4 written)", cnt), Neg: neg, Msize: ms, Method: "WriteAt", Version: 7, Second: second,
							stream: append(refcodec.Encode(m), tail...)})
					}
					for _, sz := range []uint64{0, 1, 5, 4096, uint64(lim), 1 << 20} {
						if skip() {
							continue
						}
						m := refcodec.New(refcodec.Rxattrwalk, tagA, sz)
						emit(tcase{Side: side, Family: "length", TypeName: "Rxattrwalk", Desc: fmt.Sprintf("size=%d", sz), Neg: neg, Msize: ms, Method: "GetXattr", Version: 7, Second: second,
							stream: append(refcodec.Encode(m), tail...)})
					}
				}
			}

			// F7 all sequences of length <= 3 over {good, reject classes}
			alpha := seqAlphabet()
			var rec func(prefix []int)
			rec = func(prefix []int) {
				if len(prefix) > 0 && !skip() {
					var s []byte
					desc := ""
					for i, ai := range prefix {
						var tag uint16
						if side == "server" {
							tag = uint16(0x3000 + i)
						} else {
							// alternate between the two pending calls
							tag = uint16(tagA + i%2)
						}
						s = append(s, alpha[ai].Build(side, tag, lim)...)
						if i > 0 {
							desc += ","
						}
						desc += alpha[ai].Name
					}
					c := tcase{Side: side, Family: "seq", TypeName: "seq", Desc: desc, Neg: neg, Msize: ms}
					if side == "server" {
						s = append(s, sent...)
					} else {
						c.Method, c.Version, c.Second = "GetAttr", 7, true
					}
					c.stream = s
					emit(c)
				}
				maxSeq := 3
				if !quick {
					maxSeq = 4
				}
				if len(prefix) == maxSeq {
					return
				}
				for ai := range alpha {
					rec(append(append([]int(nil), prefix...), ai))
				}
			}
			rec(nil)
		}
	}
	return idx
}
