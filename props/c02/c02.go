// Package c02 checks decoder safety (DESIGN.md §4 C02): for any byte stream
// the receiver never panics, never waits for more input once a frame is
// complete, never buffers more than msize for one frame; every frame is
// delivered with exactly its encoded values or rejected; rejected but
// well-delimited frames consume exactly their size, are answered Rlerror by
// the server and do not disturb the frames after them; a size field below 7
// or above msize ends the connection without reading the body.
//
// Receivers under test: the real Server fed T-frames by a raw peer (memfs
// backend), and the real Client fed R-frames by a scripted peer while one or
// two calls are pending. The space is a complete enumeration of mutation
// families of the canonical frame of every registered type plus all
// sequences of length <= 3 over {good frame, reject classes} (frames.go); the
// oracle is a frame classifier written on refcodec (classify.go).
//
// "No hang" is decided without a clock: every stream is followed by EOF, so
// a receiver that waited for more input after a complete frame would fail to
// produce the reply / return value the classifier demands. A watchdog only
// ever produces an infrastructure error.
//
// A panic or fatal error inside p9 that kills the process is turned into a
// verdict by running the cases in a child process and restarting it behind
// the crashing case.
package c02

import (
	"bufio"
	"bytes"
	"encoding/json"
	"fmt"
	"io"
	"os"
	"os/exec"
	"regexp"
	"runtime"
	"strconv"
	"strings"
	"sync/atomic"
	"syscall"
	"time"

	"verif/harness/fw"
	"verif/harness/memfs"
	"verif/harness/refcodec"
)

func init() {
	fw.Register(&fw.Prop{ID: "C02", Level: "model_checking", Run: run, Sharded: true, QuickSecs: 150, ThoroughSecs: 900})
}

// asLimit is the address-space ceiling of the child process.
const asLimit = 3 << 30

func setASLimit() {
	lim := syscall.Rlimit{Cur: asLimit, Max: asLimit}
	_ = syscall.Setrlimit(syscall.RLIMIT_AS, &lim)
}

// infra reports an infrastructure problem (never a verdict) and exits.
func infra(format string, args ...interface{}) {
	fmt.Fprintf(os.Stderr, "C02-INFRA: "+format+"\n", args...)
	os.Exit(3)
}

var caseStart atomic.Int64
var caseDesc atomic.Value

// blockedStates are the goroutine wait reasons that only another goroutine
// of this process can end.
var blockedStates = map[string]bool{
	"chan receive": true, "chan send": true, "select": true, "select (no cases)": true, "chan receive (nil chan)": true, "chan send (nil chan)": true,
	"semacquire": true, "sync.Mutex.Lock": true, "sync.RWMutex.Lock": true, "sync.RWMutex.RLock": true, "sync.Cond.Wait": true, "sync.WaitGroup.Wait": true,
}

var goroutineHdr = regexp.MustCompile(`^goroutine [0-9]+ \[([^\],]+)`)

// allBlocked reports whether, in a dump of all goroutines taken by the
// monitor, every other goroutine waits for another goroutine.
func allBlocked(dump string) bool {
	blocks := strings.Split(strings.TrimSpace(dump), "\n\n")
	if len(blocks) < 2 {
		return false
	}
	for _, b := range blocks[1:] { // blocks[0] is the monitor itself
		m := goroutineHdr.FindStringSubmatch(b)
		if m == nil || !blockedStates[m[1]] {
			return false
		}
	}
	return true
}

// watchdog runs in the child. It decides "the receiver never returns" by
// state, not by time: every stream ends in EOF and nothing in the process
// waits for the outside world, so once all goroutines wait for each other
// they do so forever (the Go runtime's own detector does not fire in this
// binary). The dump goes to stderr and the child exits with code 4; the
// supervisor turns it into a verdict if a goroutine is stuck inside p9.
// Independently, a case that merely takes very long is an infrastructure
// error (exit 3), never a verdict.
func watchdog() {
	go func() {
		prev := false
		for {
			time.Sleep(100 * time.Millisecond)
			st := caseStart.Load()
			if st == 0 || time.Since(time.Unix(0, st)) < 400*time.Millisecond {
				prev = false
				continue
			}
			buf := make([]byte, 4<<20)
			dump := string(buf[:runtime.Stack(buf, true)])
			if allBlocked(dump) {
				if prev && caseStart.Load() == st {
					fmt.Fprintf(os.Stderr, "C02-DEADLOCK in case %v\n%s\n", caseDesc.Load(), dump)
					os.Exit(4)
				}
				prev = true
			} else {
				prev = false
			}
			if time.Since(time.Unix(0, st)) > 120*time.Second {
				infra("watchdog: case did not finish within 120 s without being deadlocked (not a verdict): %v", caseDesc.Load())
			}
		}
	}()
}

// deadlockInfo analyses the dump of a deadlocked child: is a goroutine stuck
// inside p9 (as opposed to the harness waiting for p9 to send something)?
func deadlockInfo(stderr string) (where string, inP9 bool, lines []string) {
	i := strings.Index(stderr, "C02-DEADLOCK")
	if i < 0 {
		return "", false, nil
	}
	blocks := strings.Split(strings.TrimSpace(stderr[i:]), "\n\n")
	var panicking, stuck string
	for _, b := range blocks {
		ls := strings.Split(b, "\n")
		if !goroutineHdr.MatchString(ls[0]) {
			continue
		}
		var fns []string
		for _, l := range ls[1:] {
			if l == "" || strings.HasPrefix(l, "\t") || strings.HasPrefix(l, "created by") {
				continue
			}
			fns = append(fns, l)
		}
		// the frame that waits: the first one outside runtime/sync/shims
		for k, f := range fns {
			if strings.HasPrefix(f, "runtime.") || strings.HasPrefix(f, "sync.") || strings.HasPrefix(f, "internal/") || strings.HasPrefix(f, "verif/rt/") || strings.HasPrefix(f, "reflect.") {
				continue
			}
			if strings.HasPrefix(f, "github.com/hugelgupf/p9/") {
				if stuck == "" || fnName(f) < stuck {
					stuck = fnName(f)
				}
				if len(lines) < 28 {
					lines = append(lines, "stuck: "+ls[0])
					for _, g := range fns[k:] {
						if len(lines) < 28 {
							lines = append(lines, "  "+fwShort(g, 160))
						}
					}
				}
			}
			break
		}
		for k, f := range fns {
			if strings.HasPrefix(f, "panic(") {
				for _, g := range fns[k+1:] {
					if strings.HasPrefix(g, "github.com/hugelgupf/p9/") {
						panicking = fnName(g)
						break
					}
				}
			}
		}
	}
	if stuck == "" {
		return "", false, nil
	}
	// A client call that panicked earlier in this case (recovered by the
	// harness goroutine that made the call) announces itself on stderr.
	caseID := ""
	if f := strings.Fields(stderr[i:]); len(f) > 3 {
		caseID = f[3] // "C02-DEADLOCK in case #idx ..."
	}
	if j := strings.LastIndex(stderr[:i], "C02-CLIENT-PANIC case "+caseID+" "); j >= 0 && caseID != "" && panicking == "" {
		seenPanic := false
		for _, l := range strings.Split(stderr[j:i], "\n") {
			l = strings.TrimSpace(l)
			if strings.HasPrefix(l, "panic(") {
				seenPanic = true
			} else if seenPanic && strings.HasPrefix(l, "github.com/hugelgupf/p9/") {
				panicking = fnName(l)
				break
			}
		}
	}
	if panicking != "" {
		return "panic in " + panicking + ", then stuck", true, lines
	}
	return "stuck in " + stuck, true, lines
}

// fnName strips the argument list and the module path of a traceback line.
func fnName(l string) string {
	if i := strings.Index(l, "("); i > 0 {
		// keep receiver types like p9.(*connState).stop
		if j := strings.LastIndex(l, "("); j > i || !strings.Contains(l[:i], ".") {
			l = l[:strings.LastIndex(l, "(")]
		} else {
			l = l[:i]
		}
	}
	return strings.TrimPrefix(l, "github.com/hugelgupf/p9/")
}

func runCase(c *tcase) *outcome {
	caseDesc.Store(fmt.Sprintf("#%d %s %s %s %s", c.Index, c.Side, c.Family, c.TypeName, c.Desc))
	caseStart.Store(time.Now().UnixNano())
	defer caseStart.Store(0)
	if c.Side == "server" {
		return runServer(c)
	}
	return runClient(c)
}

func violationOf(c *tcase, v viol) *fw.Violation {
	d := append([]string{}, v.detail...)
	d = append(d, fmt.Sprintf("side=%s family=%s type=%s msize=%s method=%s second=%v", c.Side, c.Family, c.TypeName, negName(c), c.Method, c.Second))
	if c.Hex != "" && len(c.Hex) <= 600 {
		d = append(d, "stream: "+c.Hex)
	}
	return &fw.Violation{Fingerprint: v.fp, Summary: v.summary, Scenario: c.Side + "/" + c.Family, Params: fw.JSON(c), Detail: d}
}

// ---------------------------------------------------------------------------
// Child protocol (fd 3): one JSON line per event.

type event struct {
	Start   *int             `json:"start,omitempty"` // case index about to run
	Done    *int             `json:"done,omitempty"`  // case index finished
	States  int64            `json:"s,omitempty"`
	Steps   int64            `json:"t,omitempty"`
	Evals   int64            `json:"e,omitempty"`
	Key     string           `json:"k,omitempty"`
	Notes   map[string]int64 `json:"n,omitempty"`
	Viol    []*fw.Violation  `json:"v,omitempty"`
	Sample  interface{}      `json:"x,omitempty"`
	Expired bool             `json:"expired,omitempty"`
	End     bool             `json:"end,omitempty"`
}

func child(ctx *fw.Ctx) {
	out := os.NewFile(3, "events")
	if out == nil {
		infra("child: fd 3 missing")
	}
	w := bufio.NewWriter(out)
	enc := json.NewEncoder(w)
	send := func(e *event) {
		if err := enc.Encode(e); err != nil {
			infra("child: %v", err)
		}
		w.Flush()
	}
	// A hard ceiling on the address space makes "allocation sized from an
	// unchecked length" a deterministic fatal error instead of a gamble with
	// the machine's overcommit policy.
	setASLimit()

	from, _ := strconv.Atoi(os.Getenv("C02_FROM"))
	to, _ := strconv.Atoi(os.Getenv("C02_TO"))
	memfs.RecordSites = false
	watchdog()
	expired := false
	enumerate(ctx.Quick(), func(i int) bool { return i >= from && i < to && ctx.Mine(i) && !expired }, func(c *tcase) {
		if ctx.Filter != "" && !strings.Contains(c.Side+"/"+c.Family+"/"+c.TypeName, ctx.Filter) {
			return
		}
		if ctx.Expired() {
			expired = true
			send(&event{Expired: true})
			return
		}
		i := c.Index
		send(&event{Start: &i})
		o := runCase(c)
		o.note("cases_" + c.Side + "_" + c.Family)
		if c.Family != "type" {
			o.note("type_" + c.Side + "_" + c.TypeName)
		}
		if c.Family == "trunc" {
			o.note("cut_points")
		}
		e := &event{Done: &i, States: 1, Steps: o.steps, Evals: o.evals, Key: o.key, Notes: o.notes}
		for _, v := range o.final() {
			e.Viol = append(e.Viol, violationOf(c, v))
		}
		if i%1499 == 0 {
			e.Sample = map[string]interface{}{"case": fmt.Sprintf("%s %s %s: %s (%s)", c.Side, c.Family, c.TypeName, c.Desc, negName(c)), "observed": fw.Short(o.key, 200)}
		}
		send(e)
	})
	send(&event{End: true})
	os.Exit(0)
}

// findCase regenerates the case with the given index.
func findCase(quick bool, idx int) *tcase {
	var found *tcase
	enumerate(quick, func(i int) bool { return i == idx }, func(c *tcase) { found = c })
	return found
}

func totalCases(quick bool) int {
	return enumerate(quick, func(int) bool { return false }, func(c *tcase) {})
}

// crashInfo extracts the reason and the first frames of a Go crash dump.
func crashInfo(stderr string) (reason string, inP9 bool, lines []string) {
	ls := strings.Split(stderr, "\n")
	start := -1
	for i, l := range ls {
		if strings.HasPrefix(l, "panic: ") || strings.HasPrefix(l, "fatal error: ") || strings.HasPrefix(l, "runtime: out of memory") {
			start = i
			break
		}
	}
	if start < 0 {
		return "", false, nil
	}
	reason = normalize(ls[start])
	// the first goroutine block after the reason is the crashing one
	for i := start; i < len(ls) && len(lines) < 16; i++ {
		l := strings.TrimSpace(ls[i])
		if l == "" {
			if len(lines) > 3 && i > start+2 {
				// end of first goroutine block
				if strings.Contains(strings.Join(lines, "\n"), "goroutine ") {
					break
				}
			}
			continue
		}
		lines = append(lines, l)
	}
	// whose frame is on top (ignoring the runtime)?
	seenGoroutine := false
	for i := start; i < len(ls); i++ {
		l := strings.TrimSpace(ls[i])
		if strings.HasPrefix(l, "goroutine ") {
			if seenGoroutine {
				break
			}
			seenGoroutine = true
			continue
		}
		if !seenGoroutine || l == "" || strings.HasPrefix(l, "/") || strings.HasPrefix(l, "runtime.") || strings.HasPrefix(l, "panic(") ||
			strings.HasPrefix(l, "runtime/") || strings.HasPrefix(l, "[") || strings.HasPrefix(l, "io.") || strings.HasPrefix(l, "bytes.") {
			continue
		}
		inP9 = strings.Contains(l, "github.com/hugelgupf/p9/")
		break
	}
	if !inP9 {
		// A panic that starts below p9's request handler (in the backend the
		// harness provides) and still kills the process went THROUGH
		// connState.handle, whose job it is to contain it: that is p9's doing.
		seenGoroutine = false
		for i := start; i < len(ls); i++ {
			l := strings.TrimSpace(ls[i])
			if strings.HasPrefix(l, "goroutine ") {
				if seenGoroutine {
					break
				}
				seenGoroutine = true
				continue
			}
			if seenGoroutine && strings.Contains(l, "github.com/hugelgupf/p9/p9.(*connState).handle(") {
				inP9 = true
				reason += " (not contained by the request handler)"
				break
			}
		}
	}
	return reason, inP9, lines
}

// supervise runs the shard's cases in child processes; a child that dies of
// a panic / fatal error inside p9 yields a violation for the case it was
// running and is restarted behind it.
func supervise(ctx *fw.Ctx, rep *fw.Report) {
	total := totalCases(ctx.Quick())
	rep.Info["cases_total_all_shards"] = total
	from := 0
	crashes := 0
	for from < total {
		cmd := exec.Command(os.Args[0], os.Args[1:]...)
		cmd.Env = append(os.Environ(), "C02_CHILD=1", fmt.Sprintf("C02_FROM=%d", from), fmt.Sprintf("C02_TO=%d", total))
		pr, pw, err := os.Pipe()
		if err != nil {
			infra("pipe: %v", err)
		}
		cmd.ExtraFiles = []*os.File{pw}
		var stderr bytes.Buffer
		cmd.Stderr = &stderr
		cmd.Stdout = io.Discard
		if err := cmd.Start(); err != nil {
			infra("cannot start child: %v", err)
		}
		pw.Close()
		started, ended := -1, false
		sc := bufio.NewScanner(pr)
		sc.Buffer(make([]byte, 1<<20), 64<<20)
		for sc.Scan() {
			var e event
			if err := json.Unmarshal(sc.Bytes(), &e); err != nil {
				infra("bad event from child: %v", err)
			}
			switch {
			case e.Start != nil:
				started = *e.Start
			case e.Done != nil:
				started = -1
				from = *e.Done + 1
				rep.States += e.States
				rep.Traces += e.States
				rep.Transitions += e.Steps
				rep.Evaluations += e.Evals
				rep.Distinct(e.Key)
				if ctx.Verbose {
					fmt.Fprintf(os.Stderr, "#%d %s\n", *e.Done, e.Key)
				}
				for k, n := range e.Notes {
					rep.Count(k, n)
				}
				for _, v := range e.Viol {
					rep.Violate(v)
				}
				if e.Sample != nil {
					rep.Sample(e.Sample)
				}
			case e.Expired:
				rep.NotExhaustive("soft budget expired before the enumeration was complete")
				ended = true
			case e.End:
				ended = true
			}
		}
		pr.Close()
		werr := cmd.Wait()
		if ended && werr == nil {
			break
		}
		if ee, ok := werr.(*exec.ExitError); ok && ee.ExitCode() == 3 {
			fmt.Fprint(os.Stderr, stderr.String())
			infra("child reported an infrastructure error")
		}
		// The child deadlocked or died. Whose fault?
		reason, inP9, lines := crashInfo(stderr.String())
		kind := "process-crash"
		if ee, ok := werr.(*exec.ExitError); ok && ee.ExitCode() == 4 {
			kind = "hang"
			reason, inP9, lines = deadlockInfo(stderr.String())
		}
		if started < 0 || reason == "" || !inP9 {
			fmt.Fprint(os.Stderr, tail(stderr.String(), 6000))
			infra("child died outside p9 (case %d, reason %q, err %v)", started, reason, werr)
		}
		c := findCase(ctx.Quick(), started)
		if c == nil {
			infra("cannot regenerate case %d", started)
		}
		rep.States++
		rep.Traces++
		rep.Count("process_crashes_or_hangs", 1)
		rep.Distinct(kind + "|" + c.Side + "|" + crashClass(c) + "|" + reason)
		rep.Violate(violationOf(c, viol{
			prio:    pPanic,
			fp:      fmt.Sprintf("%s|%s|%s|%s", kind, c.Side, crashClass(c), reason),
			summary: crashSummary(kind, reason, c),
			detail:  append([]string{"case: " + c.Desc}, lines...),
		}))
		crashes++
		if crashes > 400 {
			rep.NotExhaustive("more than 400 process crashes; enumeration stopped")
			break
		}
		from = started + 1
	}
}

// crashClass is the input class of a crashing case for the fingerprint: the
// malformation that triggered it, or the message type if the stream is
// entirely well-formed.
func crashClass(c *tcase) string {
	lim := c.limit()
	t := trigger(c, classifyStream(c.stream, limits{lim, lim}, c.Side == "server"))
	if t == "wellformed" || strings.HasPrefix(t, "either:") {
		return c.TypeName // the frame is (or may be) delivered: the message matters
	}
	return t
}

func crashSummary(kind, reason string, c *tcase) string {
	if kind == "hang" {
		return fmt.Sprintf("the %s never returned (every goroutine blocked; %s) after receiving a %s frame (%s: %s) followed by EOF", c.Side, reason, c.TypeName, c.Family, c.Desc)
	}
	return fmt.Sprintf("the process died (%s) while the %s received a %s frame (%s: %s)", reason, c.Side, c.TypeName, c.Family, c.Desc)
}

func tail(s string, n int) string {
	if len(s) > n {
		return s[len(s)-n:]
	}
	return s
}

func replay(ctx *fw.Ctx, rep *fw.Report) {
	var p tcase
	if err := json.Unmarshal(ctx.Replay.Params, &p); err != nil {
		infra("replay: %v", err)
	}
	c := findCase(p.Tier != "thorough", p.Index)
	if c == nil || c.Desc != p.Desc || c.Side != p.Side || c.TypeName != p.TypeName {
		infra("replay: case %d of tier %s is not %q any more (enumeration changed)", p.Index, p.Tier, p.Desc)
	}
	if os.Getenv("C02_CHILD") != "" {
		// in the child: run the case and report through the exit code
		setASLimit()
		memfs.RecordSites = false
		watchdog()
		o := runCase(c)
		out := os.NewFile(3, "events")
		json.NewEncoder(out).Encode(o.viol2(c))
		os.Exit(0)
	}
	cmd := exec.Command(os.Args[0], os.Args[1:]...)
	cmd.Env = append(os.Environ(), "C02_CHILD=1")
	pr, pw, _ := os.Pipe()
	cmd.ExtraFiles = []*os.File{pw}
	var stderr bytes.Buffer
	cmd.Stderr = &stderr
	if err := cmd.Start(); err != nil {
		infra("replay: %v", err)
	}
	pw.Close()
	b, _ := io.ReadAll(pr)
	werr := cmd.Wait()
	if werr != nil {
		reason, inP9, lines := crashInfo(stderr.String())
		kind := "process-crash"
		if ee, ok := werr.(*exec.ExitError); ok && ee.ExitCode() == 4 {
			kind = "hang"
			reason, inP9, lines = deadlockInfo(stderr.String())
		}
		if reason == "" || !inP9 {
			fmt.Fprint(os.Stderr, tail(stderr.String(), 6000))
			infra("replay: child failed: %v", werr)
		}
		rep.Violate(violationOf(c, viol{fp: fmt.Sprintf("%s|%s|%s|%s", kind, c.Side, crashClass(c), reason), summary: crashSummary(kind, reason, c), detail: lines}))
		return
	}
	var vs []*fw.Violation
	json.Unmarshal(b, &vs)
	for _, v := range vs {
		rep.Violate(v)
	}
}

func (o *outcome) viol2(c *tcase) []*fw.Violation {
	var out []*fw.Violation
	for _, v := range o.final() {
		out = append(out, violationOf(c, v))
	}
	return out
}

func run(ctx *fw.Ctx, rep *fw.Report) {
	if ctx.Replay != nil {
		replay(ctx, rep)
		return
	}
	if os.Getenv("C02_CHILD") != "" {
		child(ctx) // does not return
	}
	rep.Rule = fmt.Sprintf("receivers: real Server (T-frames from a raw peer, memfs, 15-fid fixture, sentinel Tgetattr with unique tag last) and real Client (R-frames from a scripted peer while 1 or 2 calls are pending); x limit {negotiated msize 4096, unnegotiated: 4 MiB server / 64 KiB client default, server also: msize 65536 negotiated first and then 4096} (quick); for the canonical frame of every one of the %d registered types (refcodec): the frame itself; every truncation offset followed by EOF; size field in {0,1,6,7,8,len-1,len+1,msize-1,msize,msize+1,4MiB,4MiB+1,2^31,2^32-1}; every byte position x {0x00,0xff,b^1,b^0x80}; every 16-bit count/length position (string lengths, nwname, wname lengths, nwqid, dirent name lengths) x {0,1,n-1,n+1,0x7fff,0x8000,0xffff}; every 32-bit data count x {0,n-1,n+1,2^32-1} and request count x {.., msize-11, msize, msize+1, 4MiB, 4MiB+1}; all 256 type bytes x {empty body, mid-size body}; consistent payload lengths around the limits (Twrite frame size 23,24,msize-1,msize,msize+1; Rread data length, Rwrite count, Rxattrwalk size grids); all sequences of length 1..3 (thorough: 1..4) over {good, unknown-type, unknown-type-empty, body-short, strlen-beyond-body, list-count-beyond-body, data-count-inconsistent, trailing-bytes, size<7, size>msize}; thorough tier adds: negotiated msize 512 and 65536 (server) / 512 and 16384 (client), and every PAIR of byte positions among the first 16 bytes x the four values each; every stream is followed by EOF; distinct = (side, limit, family, type, classifier verdicts, observed replies / call outcomes)", len(refcodec.Defs))
	rep.Assumptions = append(rep.Assumptions,
		"classifier: delivered = known type, body decodes exactly; rejected = unknown type / body too short / counts beyond or inconsistent with the body; either = bytes after the last field, Rreaddir payload ending in an incomplete entry; conn-end = size<7 or size>limit; truncated = EOF inside the frame",
		"server replies are matched to frames by tag (requests are served concurrently); a rejected frame may be answered with any tag (p9 uses NOTAG for undecodable bodies)",
		"an Rlerror(EFAULT) reply is a recovered handler panic on well-formed but absurd values (e.g. Tread count > msize): recorded in counters, not a C02 verdict",
		"client: what it does with a rejected frame is not prescribed (p9 fails every pending call); asserted: no panic, every pending call returns after EOF, only whole frames are consumed, a call that reports success returns exactly the values of a frame of the stream addressed to it; a well-formed frame for a pending call that is first in the stream (or preceded only by delivered frames) must be delivered",
		"after a Tversion inside the stream the limit in force for the following frames is either the old or the new one (p9 reads the next header concurrently with the version handler): frames between the two limits get the weak oracle",
		"peak allocation is bounded through the read sizes requested from the transport (vpipe MaxReadLen) and an address-space ceiling of 3 GiB in the child process, not by instrumenting the allocator")
	supervise(ctx, rep)
	if ctx.Filter != "" {
		rep.NotExhaustive("filter " + ctx.Filter)
	}
}
