package c02

import (
	"errors"
	"fmt"
	"io"
	"os"
	"reflect"
	"regexp"
	"runtime/debug"
	"strconv"
	"strings"

	"github.com/hugelgupf/p9/linux"
	"github.com/hugelgupf/p9/p9"
	"verif/harness/rawpeer"
	"verif/harness/refcodec"
	"verif/harness/vpipe"
)

// callResult is what a pending client call finally returned.
type callResult struct {
	name   string
	done   chan struct{}
	vals   []interface{} // canonical return values (uint64 / string)
	err    error
	panicV interface{}
	stack  string
	client *p9.Client // NewClient only
}

func qidVals(q p9.QID) []interface{} {
	return []interface{}{uint64(q.Type), uint64(q.Version), q.Path}
}

func attrValsOf(a p9.Attr) []interface{} {
	return []interface{}{uint64(a.Mode), uint64(a.UID), uint64(a.GID), uint64(a.NLink), uint64(a.RDev), a.Size, a.BlockSize, a.Blocks,
		a.ATimeSeconds, a.ATimeNanoSeconds, a.MTimeSeconds, a.MTimeNanoSeconds, a.CTimeSeconds, a.CTimeNanoSeconds, a.BTimeSeconds, a.BTimeNanoSeconds, a.Gen, a.DataVersion}
}

const readAtLen = 16

// startCall runs the named client method in its own goroutine.
func startCall(method string, cl *p9.Client, root, aux p9.File) *callResult {
	r := &callResult{name: method, done: make(chan struct{})}
	go func() {
		defer close(r.done)
		defer func() {
			if p := recover(); p != nil {
				r.panicV = p
				r.stack = string(debug.Stack())
				// also on stderr: if another call hangs as a consequence, the
				// supervisor needs to know what came first
				id := ""
				if f := strings.Fields(fmt.Sprint(caseDesc.Load())); len(f) > 0 {
					id = f[0]
				}
				fmt.Fprintf(os.Stderr, "C02-CLIENT-PANIC case %s in %s: %v\n%s\n", id, method, p, r.stack)
			}
		}()
		switch method {
		case "StatFS":
			st, err := root.StatFS()
			r.err = err
			r.vals = []interface{}{uint64(st.Type), uint64(st.BlockSize), st.Blocks, st.BlocksFree, st.BlocksAvailable, st.Files, st.FilesFree, st.FSID, uint64(st.NameLength)}
		case "Open":
			q, iou, err := root.Open(p9.ReadWrite)
			r.err, r.vals = err, append(qidVals(q), uint64(iou))
		case "Create":
			_, q, iou, err := root.Create("n", p9.ReadWrite, 0o644, 1000, 7)
			r.err, r.vals = err, append(qidVals(q), uint64(iou))
		case "Symlink":
			q, err := root.Symlink("old", "new", 1000, 7)
			r.err, r.vals = err, qidVals(q)
		case "Mknod":
			q, err := root.Mknod("n", p9.ModeNamedPipe|0o644, 1, 2, 1000, 7)
			r.err, r.vals = err, qidVals(q)
		case "Mkdir":
			q, err := root.Mkdir("n", 0o755, 1000, 7)
			r.err, r.vals = err, qidVals(q)
		case "Rename":
			r.err = root.Rename(aux, "n")
		case "Readlink":
			s, err := root.Readlink()
			r.err, r.vals = err, []interface{}{s}
		case "GetAttr":
			q, valid, a, err := root.GetAttr(p9.AttrMaskAll)
			r.err = err
			r.vals = append(append([]interface{}{attrMaskBits(valid)}, qidVals(q)...), attrValsOf(a)...)
		case "SetAttr":
			r.err = root.SetAttr(p9.SetAttrMask{Size: true}, p9.SetAttr{Size: 3})
		case "GetXattr":
			b, err := root.GetXattr("user.k")
			r.err, r.vals = err, []interface{}{string(b)}
		case "Readdir":
			ds, err := root.Readdir(0, 512)
			r.err = err
			r.vals = []interface{}{}
			for _, d := range ds {
				r.vals = append(r.vals, qidVals(d.QID)...)
				r.vals = append(r.vals, d.Offset, uint64(d.Type), d.Name)
			}
		case "FSync":
			r.err = root.FSync()
		case "Lock":
			st, err := root.Lock(42, p9.WriteLock, 0, 0, 10, "cl")
			r.err, r.vals = err, []interface{}{uint64(st)}
		case "Link":
			r.err = root.Link(aux, "n")
		case "RenameAt":
			r.err = root.RenameAt("a", aux, "b")
		case "UnlinkAt":
			r.err = root.UnlinkAt("n", 0)
		case "Attach":
			f, err := cl.Attach("")
			r.err = err
			r.vals = []interface{}{f != nil}
		case "Walk":
			qs, _, err := root.Walk([]string{"a", "b"})
			r.err = err
			r.vals = []interface{}{}
			for _, q := range qs {
				r.vals = append(r.vals, qidVals(q)...)
			}
		case "WalkGetAttr":
			qs, _, valid, a, err := root.WalkGetAttr([]string{"a", "b"})
			r.err = err
			r.vals = append([]interface{}{attrMaskBits(valid)}, attrValsOf(a)...)
			for _, q := range qs {
				r.vals = append(r.vals, qidVals(q)...)
			}
		case "ReadAt":
			p := make([]byte, readAtLen)
			n, err := root.ReadAt(p, 3)
			r.err = err
			k := n
			if k > len(p) {
				k = len(p)
			}
			if k < 0 {
				k = 0
			}
			r.vals = []interface{}{uint64(n), string(p[:k])}
		case "WriteAt":
			n, err := root.WriteAt([]byte("WXYZ"), 4)
			r.err, r.vals = err, []interface{}{uint64(n)}
		case "Close":
			r.err = aux.Close()
		case "Remove":
			r.err = aux.(interface{ Remove() error }).Remove()
		default:
			panic("c02: unknown client method " + method)
		}
	}()
	return r
}

// expectedVals computes, from the decoded frame only, what the pending call
// must return when the frame is delivered.
func expectedVals(method string, m refcodec.Msg) (vals []interface{}, err error) {
	if m.Type == refcodec.Rlerror {
		return nil, linux.Errno(m.U("ecode"))
	}
	flatQ := func(qs []refcodec.QID) []interface{} {
		out := []interface{}{}
		for _, q := range qs {
			out = append(out, uint64(q.Type), uint64(q.Version), q.Path)
		}
		return out
	}
	switch method {
	case "Rename", "SetAttr", "FSync", "Link", "RenameAt", "UnlinkAt", "Close", "Remove":
		return nil, nil
	case "Attach":
		return []interface{}{true}, nil
	case "GetAttr":
		vals = append([]interface{}{}, m.Vals...)
		vals[0] = m.Vals[0].(uint64) & 0x3fff
		return vals, nil
	case "WalkGetAttr":
		vals = append([]interface{}{m.Vals[0].(uint64) & 0x3fff}, m.Vals[1:19]...)
		return append(vals, flatQ(m.Vals[19].([]refcodec.QID))...), nil
	case "Walk":
		return flatQ(m.Vals[0].([]refcodec.QID)), nil
	case "Readdir":
		vals = []interface{}{}
		for _, d := range m.Vals[0].([]refcodec.Dirent) {
			vals = append(vals, uint64(d.QID.Type), uint64(d.QID.Version), d.QID.Path, d.Offset, uint64(d.Type), d.Name)
		}
		return vals, nil
	case "ReadAt":
		d := m.Vals[0].([]byte)
		if len(d) == 0 {
			return []interface{}{uint64(0), ""}, io.EOF
		}
		return []interface{}{uint64(len(d)), string(d)}, nil
	}
	// StatFS Open Create Symlink Mknod Mkdir Readlink Lock WriteAt: the
	// fields in wire order.
	return append([]interface{}{}, m.Vals...), nil
}

var versionRE = regexp.MustCompile(`^9P2000\.L(\.Google\.([0-9]{1,9}))?$`)

func versionStr(v uint32) string {
	if v == 0 {
		return "9P2000.L"
	}
	return fmt.Sprintf("9P2000.L.Google.%d", v)
}

// recvT reads one request of the client at the scripted peer.
func recvT(peer *rawpeer.Peer, what string) refcodec.Msg {
	m, err := peer.Recv()
	if err != nil {
		infra("client: scripted peer: waiting for %s: %v", what, err)
	}
	return m
}

func isErrno(err error) (linux.Errno, bool) {
	e, ok := err.(linux.Errno)
	return e, ok
}

// runClient leaves one or two calls of the real client pending, feeds the
// stream followed by EOF and evaluates the oracle.
func runClient(c *tcase) *outcome {
	o := &outcome{}
	lim := c.limit()
	vs := classifyStream(c.stream, limits{lim, lim}, false)

	a, b := vpipe.NewConnPair("c02c")
	peer := rawpeer.New(b)
	var opts []p9.ClientOpt
	if c.Neg {
		opts = append(opts, p9.WithMessageSize(c.Msize))
	}
	nc := &callResult{name: "NewClient", done: make(chan struct{})}
	go func() {
		defer close(nc.done)
		defer func() {
			if p := recover(); p != nil {
				nc.panicV, nc.stack = p, string(debug.Stack())
			}
		}()
		nc.client, nc.err = p9.NewClient(a, opts...)
	}()
	tv := recvT(peer, "Tversion")
	if tv.Type != refcodec.Tversion || tv.Tag != tagA {
		infra("client: expected Tversion with tag %d, got %v", tagA, tv)
	}
	o.steps++

	var results []*callResult
	var cl *p9.Client
	var postRoot p9.File
	if c.Method == "NewClient" {
		results = append(results, nc)
	} else {
		peer.Send(refcodec.New(refcodec.Rversion, tv.Tag, lim, versionStr(c.Version)))
		<-nc.done
		if nc.err != nil || nc.panicV != nil {
			infra("client: NewClient failed in the fixture: %v %v", nc.err, nc.panicV)
		}
		cl = nc.client
		attach := func() p9.File {
			var f p9.File
			var err error
			done := make(chan struct{})
			go func() { defer close(done); f, err = cl.Attach("") }()
			t := recvT(peer, "Tattach")
			if t.Type != refcodec.Tattach {
				infra("client: expected Tattach, got %v", t)
			}
			peer.Send(refcodec.New(refcodec.Rattach, t.Tag, q1.Type, q1.Version, q1.Path))
			<-done
			if err != nil {
				infra("client: Attach failed in the fixture: %v", err)
			}
			o.steps++
			return f
		}
		root := attach()
		postRoot = root
		var aux p9.File
		switch c.Method {
		case "Rename", "Link", "RenameAt", "Close", "Remove":
			aux = attach()
		}
		ra := startCall(c.Method, cl, root, aux)
		ta := recvT(peer, "the request of "+c.Method)
		if ta.Tag != tagA {
			infra("client: first pending call has tag %d, expected %d", ta.Tag, tagA)
		}
		results = append(results, ra)
		o.steps++
		if c.Second {
			rb := startCall("GetAttr", cl, root, nil)
			tb := recvT(peer, "the request of the second pending call")
			if tb.Tag != tagB || tb.Type != refcodec.Tgetattr {
				infra("client: second pending call sent %v, expected Tgetattr with tag %d", tb, tagB)
			}
			results = append(results, rb)
			o.steps++
		}
	}

	fedBefore := len(b.W.Written)
	sentBefore := len(a.W.Written)
	if _, err := b.Write(c.stream); err != nil {
		infra("client: feeding the stream failed: %v", err)
	}
	b.W.CloseWrite() // EOF: nothing follows the stream
	for _, r := range results {
		<-r.done // every pending call must return (watchdog = infrastructure error)
	}
	o.steps += int64(len(vs))
	// One more call after the pending ones have returned: a client whose
	// connection has ended (bad size field) must not go on reading the rest of
	// the stream; a client that is still alive reads whole frames only.
	if postRoot != nil {
		post := startCall("FSync", cl, postRoot, nil)
		<-post.done
		o.steps++
		if post.panicV != nil {
			results = append(results, post)
		}
	}
	consumed := b.W.TotalRead - fedBefore
	maxRead := b.W.MaxReadLen
	followUps, _ := refcodec.Frames(a.W.Written[sentBefore:])
	if cl != nil {
		cl.Close()
	} else if nc.client != nil {
		nc.client.Close()
	} else {
		a.Close()
	}
	b.Close()

	// --- no panic ---------------------------------------------------------------
	o.evals++
	for _, r := range results {
		if r.panicV != nil {
			msg := normalize(fmt.Sprint(r.panicV))
			o.violate(pPanic, fmt.Sprintf("panic|client|%s|%s|%s", c.TypeName, r.name, msg),
				fmt.Sprintf("the client panicked in %s while receiving a %s frame (%s: %s): %v", r.name, c.TypeName, c.Family, c.Desc, r.panicV),
				append([]string{"case: " + c.Desc}, stackHead(r.stack, 14)...)...)
		}
	}

	// --- bounded buffering --------------------------------------------------------
	o.evals++
	if maxRead > int(lim) {
		o.violate(pBuffer, fmt.Sprintf("read-buffer-exceeds-msize|client|%s", negName(c)),
			fmt.Sprintf("the client asked the transport for %d bytes in one Read; its message size is %d", maxRead, lim), "case: "+c.Desc)
	}

	// --- consumption: only whole frames, never the body of a bad size ---------------
	o.evals++
	allowed := map[int]bool{0: true}
	var stop *fverdict
	for i := range vs {
		v := &vs[i]
		if v.delimited() {
			allowed[v.Off+v.Size] = true
		} else {
			stop = v
		}
	}
	okConsumed := allowed[consumed]
	if stop != nil && stop.Class == clConnEnd && consumed == stop.Off+7 {
		okConsumed = true
	}
	if stop != nil && stop.Class == clTruncated && consumed > stop.Off && consumed <= len(c.stream) {
		okConsumed = true
	}
	if !okConsumed {
		if stop != nil && stop.Class == clConnEnd && consumed > stop.Off+7 {
			o.violate(pBadSize, fmt.Sprintf("read-past-header-of-bad-size|client|%s", stop.Reason),
				fmt.Sprintf("frame with %s (size field %d, limit %d): the client consumed %d bytes beyond the frame start; at most the 7 header bytes may be read", stop.Reason, uint32(stop.Size), lim, consumed-stop.Off), "case: "+c.Desc)
		} else {
			o.violate(pConsumed, "consumption-not-on-frame-boundary|client|"+trigger(c, vs),
				fmt.Sprintf("the client consumed %d bytes of the stream, which is not a frame boundary (frames: %s)", consumed, verdictList(vs)), "case: "+c.Desc)
		}
	}

	// --- delivery: completeness and soundness ----------------------------------------
	pendingType := map[uint16]uint8{tagA: replyTypeOf(c.Method, c.Version)}
	methodOf := map[uint16]string{tagA: c.Method}
	resOf := map[uint16]*callResult{tagA: results[0]}
	if c.Second {
		pendingType[tagB], methodOf[tagB], resOf[tagB] = refcodec.Rgetattr, "GetAttr", results[1]
	}
	expect := map[uint16]*fverdict{}
	cands := map[uint16][]*fverdict{}
	strict := true
	for i := range vs {
		v := &vs[i]
		if !v.delimited() {
			break
		}
		want, isPending := pendingType[v.Tag]
		deliverable := isPending && (v.Type == want || v.Type == refcodec.Rlerror) && (v.Class == clDelivered || v.Class == clEither)
		if deliverable {
			cands[v.Tag] = append(cands[v.Tag], v)
		}
		if strict && deliverable && v.Class == clDelivered && expect[v.Tag] == nil {
			expect[v.Tag] = v
			delete(pendingType, v.Tag) // that call is answered
			continue
		}
		strict = false
	}
	var keyParts []string
	for _, tag := range []uint16{tagA, tagB} {
		r := resOf[tag]
		if r == nil || r.panicV != nil {
			continue
		}
		method := methodOf[tag]
		matches := func(v *fverdict) (bool, string) {
			wantVals, wantErr := expectedVals(method, v.Msg)
			return resultMatches(o, c, method, r, v, wantVals, wantErr, followUps, lim)
		}
		o.evals++
		switch {
		case expect[tag] != nil:
			v := expect[tag]
			ok, why := matches(v)
			if !ok {
				fp := "delivered-values-differ"
				if r.err != nil && !isErrnoErr(r.err) {
					fp = "complete-frame-not-delivered"
				}
				o.violate(pValues, fmt.Sprintf("%s|client|%s|%s", fp, typeName(v.Type), method),
					fmt.Sprintf("a complete well-formed %s for the pending %s was fed (then EOF): %s", typeName(v.Type), method, why),
					"case: "+c.Desc, "frame: "+v.Msg.String(), fmt.Sprintf("call returned: vals=%s err=%v", short(r.vals), r.err))
			}
			keyParts = append(keyParts, method+":delivered")
		case r.err == nil || isErrnoErr(r.err):
			// The call claims a reply was delivered: it must be one of the
			// frames of the stream that may be delivered to it.
			found := false
			var why string
			for _, v := range cands[tag] {
				ok, w := matches(v)
				if ok {
					found = true
					break
				}
				why = w
			}
			if !found && r.err == nil {
				// Was a frame that must be rejected handed to the call?
				for i := range vs {
					v := &vs[i]
					if v.delimited() && v.Class == clRejected && v.Tag == tag && v.Type == replyTypeOf(method, c.Version) {
						found = true
						o.violate(pMalformedDelivered, fmt.Sprintf("malformed-frame-delivered|client|%s|%s", typeName(v.Type), v.Reason),
							fmt.Sprintf("the frame %s must be rejected, but the pending %s returned successfully (vals=%s)", v.String(), method, short(r.vals)),
							"case: "+c.Desc, "frames: "+verdictList(vs))
						break
					}
				}
			}
			if !found {
				if why == "" {
					why = "no frame of the stream may be delivered to this call"
				}
				o.violate(pValues, fmt.Sprintf("delivered-without-matching-frame|client|%s|%s", c.TypeName, method),
					fmt.Sprintf("the pending %s returned (vals=%s err=%v) although the stream holds no frame that may be delivered to it with these values: %s", method, short(r.vals), r.err, why),
					"case: "+c.Desc, "frames: "+verdictList(vs))
			}
			keyParts = append(keyParts, method+":delivered-lenient")
		default:
			keyParts = append(keyParts, method+":failed")
		}
	}
	var key []string
	for _, v := range vs {
		key = append(key, v.Class.String()+":"+v.Reason)
	}
	o.key = fmt.Sprintf("client|%s|%s|%s|%s|%s", negName(c), c.Family+"|"+c.TypeName, strings.Join(key, ","), strings.Join(keyParts, ","), c.Method)
	return o
}

func isErrnoErr(err error) bool { _, ok := isErrno(err); return ok }

// receivePathError reports whether err says that the receive path refused
// the frame or lost the connection (as opposed to the call layer refusing a
// delivered value, e.g. an Rversion with an unusable msize).
func receivePathError(err error) bool {
	var ce p9.ConnError
	var br *p9.ErrBadResponse
	var it *p9.ErrInvalidMsgType
	return errors.As(err, &ce) || errors.Is(err, io.EOF) || errors.Is(err, io.ErrUnexpectedEOF) || errors.Is(err, io.ErrClosedPipe) ||
		errors.Is(err, p9.ErrNoValidMessage) || errors.Is(err, p9.ErrUnexpectedTag) || errors.As(err, &br) || errors.As(err, &it)
}

// resultMatches compares what a call returned with what the frame encodes.
func resultMatches(o *outcome, c *tcase, method string, r *callResult, v *fverdict, wantVals []interface{}, wantErr error, followUps [][]byte, lim uint32) (bool, string) {
	// An Rlerror is delivered as its errno.
	if we, ok := isErrno(wantErr); ok {
		ge, ok2 := isErrno(r.err)
		if !ok2 || ge != we {
			return false, fmt.Sprintf("the frame is Rlerror(%d) but the call returned err=%v", uint32(we), r.err)
		}
		return true, ""
	}
	switch method {
	case "NewClient":
		vstr := v.Msg.S("version")
		if r.err != nil {
			if receivePathError(r.err) {
				// the client ran into the EOF instead of accepting the frame
				return false, fmt.Sprintf("NewClient failed with the receive-path error %v", r.err)
			}
			return true, "" // delivered and refused by the version / msize logic
		}
		if mm := versionRE.FindStringSubmatch(vstr); mm != nil {
			n := uint64(0)
			if mm[2] != "" {
				n, _ = strconv.ParseUint(mm[2], 10, 32)
			}
			if uint64(r.client.Version()) != n {
				return false, fmt.Sprintf("Rversion says %q but the client reports version %d", vstr, r.client.Version())
			}
		}
		return true, ""
	case "GetXattr":
		size := v.Msg.U("size")
		if size == 0 {
			if r.err != nil || len(r.vals) != 1 || r.vals[0] != "" {
				return false, fmt.Sprintf("Rxattrwalk(size 0) must yield an empty value, got vals=%s err=%v", short(r.vals), r.err)
			}
			return true, ""
		}
		// size > 0: the client goes on to read the value; the read request is
		// the observable proof that the size was delivered.
		for _, f := range followUps {
			m, _, err := refcodec.Decode(f)
			if err == nil && m.Type == refcodec.Tread {
				cnt := m.U("count")
				if cnt == 0 || cnt > size || m.U("offset") != 0 {
					return false, fmt.Sprintf("after Rxattrwalk(size %d) the client asked to read %d bytes at %d", size, cnt, m.U("offset"))
				}
				return true, ""
			}
		}
		if r.err != nil && !receivePathError(r.err) {
			return true, "" // delivered; the size was refused by the call layer
		}
		return false, fmt.Sprintf("after Rxattrwalk(size %d) the client did not go on to read the value (err=%v)", size, r.err)
	case "ReadAt":
		d := v.Msg.Vals[0].([]byte)
		if len(d) > readAtLen {
			// More data than requested: what ReadAt does with it is not a
			// decoder matter (recorded; a panic is caught separately).
			o.note("client_rread_longer_than_requested_recorded")
			return true, ""
		}
	case "WriteAt":
		// A count larger than what was written: delivering it as is and
		// refusing it in the call layer are both fine (a panic is caught
		// separately).
		if v.Msg.U("count") > 4 && (r.err == nil || !receivePathError(r.err)) {
			return true, ""
		}
	}
	if wantErr == io.EOF {
		if r.err != io.EOF {
			return false, fmt.Sprintf("an empty Rread must surface as io.EOF, got err=%v", r.err)
		}
		return true, ""
	}
	if r.err != nil {
		return false, fmt.Sprintf("the call failed with %v", r.err)
	}
	if len(r.vals) == 0 && len(wantVals) == 0 {
		return true, ""
	}
	if !reflect.DeepEqual(r.vals, wantVals) {
		return false, fmt.Sprintf("the call returned %s, the frame encodes %s", short(r.vals), short(wantVals))
	}
	return true, ""
}

func verdictList(vs []fverdict) string {
	var out []string
	for _, v := range vs {
		out = append(out, v.String())
	}
	return strings.Join(out, "; ")
}

var digits = regexp.MustCompile(`[0-9]+`)
var hexAddr = regexp.MustCompile(`0x[0-9a-fA-F]+`)

// normalize removes run-specific numbers from a panic message.
func normalize(s string) string {
	s = hexAddr.ReplaceAllString(s, "#")
	s = digits.ReplaceAllString(s, "#")
	if len(s) > 100 {
		s = s[:100]
	}
	return s
}

func stackHead(st string, n int) []string {
	var out []string
	for _, l := range strings.Split(st, "\n") {
		l = strings.TrimSpace(l)
		if l == "" || strings.HasPrefix(l, "runtime/debug.Stack") || strings.HasPrefix(l, "goroutine ") {
			continue
		}
		if strings.Contains(l, "hugelgupf/p9") || strings.HasPrefix(l, "panic(") {
			out = append(out, l)
		}
		if len(out) >= n {
			break
		}
	}
	return out
}
