// Package c05 checks the File lifecycle (DESIGN.md §4 C05): every File the
// backend hands out is closed exactly once, never used after (or concurrently
// with) its Close, and when a connection ends at any byte of any frame, with
// requests in flight, handlers finish, every File is closed once, Handle
// returns and no goroutine is left behind.
package c05

import (
	"fmt"
	"time"

	"verif/harness/fw"
	"verif/harness/memfs"
	"verif/harness/oracle"
	"verif/harness/rawpeer"
	"verif/harness/refcodec"
	"verif/harness/sess"
	"verif/rt/vsched"
)

func init() {
	fw.Register(&fw.Prop{ID: "C05", Run: run, Sharded: true, QuickSecs: 80, ThoroughSecs: 1500})
}

func mkfs() *memfs.FS {
	fs := memfs.New()
	fs.AddFile("d/x", []byte("hello world"))
	fs.AddFile("f", []byte("0123456789"))
	fs.MkdirP("e")
	fs.AddNode("s", 0o120777, nil, "f")
	fs.Root.Children["f"].Xattrs["user.k"] = []byte("vv")
	return fs
}

type history struct {
	name string
	reqs func() []refcodec.Msg
}

func tagged(ms ...refcodec.Msg) []refcodec.Msg {
	for i := range ms {
		ms[i].Tag = uint16(i + 1)
	}
	return ms
}

var corpus = []history{
	{"failed-3-step-walk", func() []refcodec.Msg {
		return tagged(rawpeer.Tattach(0, 1, ""), rawpeer.Twalk(0, 1, 2, "d", "x", "nope"), rawpeer.Twalk(0, 1, 2, "d", "nope"), rawpeer.Twalk(0, 1, 3, "d", "x"), rawpeer.Tclunk(0, 3))
	}},
	{"fid-replacement", func() []refcodec.Msg {
		return tagged(rawpeer.Tattach(0, 1, ""), rawpeer.Twalk(0, 1, 2, "d"), rawpeer.Twalk(0, 1, 2, "f"), rawpeer.Tattach(0, 2, "e"), rawpeer.Twalk(0, 2, 1), rawpeer.Tgetattr(0, 1))
	}},
	{"create-rebind", func() []refcodec.Msg {
		return tagged(rawpeer.Tattach(0, 1, ""), rawpeer.Twalk(0, 1, 5, "e"), rawpeer.Tlcreate(0, 5, "n", 2), rawpeer.Twrite(0, 5, 0, []byte("abc")), rawpeer.Tread(0, 5, 0, 8), rawpeer.Tclunk(0, 5), rawpeer.Twalk(0, 1, 5, "e", "n"))
	}},
	{"xattr-fids", func() []refcodec.Msg {
		return tagged(rawpeer.Tattach(0, 1, ""), rawpeer.Twalk(0, 1, 2, "f"), rawpeer.Txattrwalk(0, 2, 6, "user.k"), rawpeer.Tread(0, 6, 0, 2), rawpeer.Tclunk(0, 6), rawpeer.Tgetattr(0, 2),
			rawpeer.Txattrwalk(0, 2, 6, ""), rawpeer.Txattrcreate(0, 2, "user.n", 3, 0), rawpeer.Twrite(0, 2, 0, []byte("xyz")), rawpeer.Tclunk(0, 2))
	}},
	// an xattr create whose commit at Tclunk FAILS (fewer bytes written than
	// announced; the backend refuses because the attribute exists): the clunk
	// reports the error and still unbinds and releases the fid
	{"xattr-create-refused-at-clunk", func() []refcodec.Msg {
		return tagged(rawpeer.Tattach(0, 1, ""), rawpeer.Twalk(0, 1, 2, "f"), rawpeer.Txattrcreate(0, 2, "user.n", 3, 0), rawpeer.Twrite(0, 2, 0, []byte("x")), rawpeer.Tclunk(0, 2), rawpeer.Tgetattr(0, 2),
			rawpeer.Twalk(0, 1, 3, "f"), rawpeer.Txattrcreate(0, 3, "user.k", 2, 1), rawpeer.Twrite(0, 3, 0, []byte("zz")), rawpeer.Tclunk(0, 3), rawpeer.Tgetattr(0, 3), rawpeer.Tgetattr(0, 1))
	}},
	{"rename-unlink-referenced", func() []refcodec.Msg {
		return tagged(rawpeer.Tattach(0, 1, ""), rawpeer.Twalk(0, 1, 2, "f"), rawpeer.Twalk(0, 1, 3, "d", "x"), rawpeer.Twalk(0, 1, 4, "d"), rawpeer.Trenameat(0, 1, "f", 4, "g"), rawpeer.Tgetattr(0, 2),
			rawpeer.Tunlinkat(0, 4, "g"), rawpeer.Tgetattr(0, 2), rawpeer.Trename(0, 3, 1, "y"), rawpeer.Tremove(0, 3), rawpeer.Tclunk(0, 2))
	}},
	{"attach-name-remove", func() []refcodec.Msg {
		return tagged(rawpeer.Tattach(0, 1, "d/x"), rawpeer.Tattach(0, 1, "d"), rawpeer.Tattach(0, 2, "d/nope"), rawpeer.Twalk(0, 1, 3, "x"), rawpeer.Tremove(0, 3), rawpeer.Tremove(0, 1))
	}},
	// attach names and walks the server REFUSES before or during the walk (empty,
	// '.', '..' components, a component below a regular file): whatever was
	// obtained for the refused request must still be closed
	{"refused-attach-names", func() []refcodec.Msg {
		return tagged(rawpeer.Tattach(0, 1, "d/"), rawpeer.Tattach(0, 2, "d//x"), rawpeer.Tattach(0, 3, "d/../d"), rawpeer.Tattach(0, 4, "/d/./x"), rawpeer.Tattach(0, 5, "f/x"), rawpeer.Tattach(0, 6, ".."),
			rawpeer.Tattach(0, 7, "d"), rawpeer.Twalk(0, 7, 8, "x", ".."), rawpeer.Twalk(0, 7, 9, ""), rawpeer.Tclunk(0, 7))
	}},
	{"open-readdir", func() []refcodec.Msg {
		return tagged(rawpeer.Tattach(0, 1, ""), rawpeer.Twalkgetattr(0, 1, 2, "d"), rawpeer.Tlopen(0, 2, 0), rawpeer.Treaddir(0, 2, 0, 4000), rawpeer.Twalk(0, 2, 7, "x"), rawpeer.Tclunk(0, 2))
	}},
	{"clone-of-unlinked", func() []refcodec.Msg {
		return tagged(rawpeer.Tattach(0, 1, ""), rawpeer.Twalk(0, 1, 2, "d", "x"), rawpeer.Twalk(0, 1, 4, "d"), rawpeer.Tunlinkat(0, 4, "x"), rawpeer.Twalk(0, 2, 5), rawpeer.Tclunk(0, 5), rawpeer.Tgetattr(0, 2), rawpeer.Tclunk(0, 2), rawpeer.Tgetattr(0, 4), rawpeer.Twalk(0, 4, 6))
	}},
	{"make-nodes", func() []refcodec.Msg {
		return tagged(rawpeer.Tattach(0, 1, ""), rawpeer.Tmkdir(0, 1, "nd"), rawpeer.Tsymlink(0, 1, "sl", "f"), rawpeer.Twalk(0, 1, 2, "f"), rawpeer.Tlink(0, 1, 2, "hl"), rawpeer.Tmknod(0, 1, "fifo", 0o10644), rawpeer.Twalk(0, 1, 3, "sl"), rawpeer.Treadlink(0, 3), rawpeer.Twalk(0, 1, 4, "nd"), rawpeer.Tunlinkat(0, 1, "nd"), rawpeer.Tclunk(0, 4))
	}},
}

func concat(ms []refcodec.Msg) ([]byte, []int) {
	var b []byte
	var ends []int
	for _, m := range ms {
		b = append(b, refcodec.Encode(m)...)
		ends = append(ends, len(b))
	}
	return b, ends
}

func finalIssues(fs *memfs.FS, ss []*sess.Sess, e *vsched.Execution) []fw.Issue {
	var is []fw.Issue
	if e.End == vsched.EndDeadlock {
		is = append(is, fw.Issue{Fingerprint: "teardown|handle-never-returns", Summary: "after the connection ended some thread of the server can never finish (Handle does not return / goroutine left behind): " + e.Blocked})
		return is
	}
	if e.End != vsched.EndComplete {
		return nil
	}
	for _, s := range ss {
		if !s.HandleReturned {
			is = append(is, fw.Issue{Fingerprint: "teardown|handle-did-not-return", Summary: "Server.Handle did not return"})
		}
	}
	is = append(is, oracle.LifecycleIssues(fs, true)...)
	for _, pr := range fs.Problems {
		if pr.Kind == "use-after-close" || pr.Kind == "double-close" {
			is = append(is, fw.Issue{Fingerprint: "backend|" + pr.Kind, Summary: pr.Detail})
		}
	}
	return is
}

type cutParams struct {
	History string `json:"history"`
	Offset  int    `json:"offset"`
	Kind    string `json:"kind"` // cut-request-stream | hangup-after-request
}

// cutScenario: lock-step the complete frames before Offset, then deliver the
// partial frame and end the stream.
func cutScenario(h history, off int) *fw.Scenario {
	p := cutParams{h.name, off, "cut-request-stream"}
	return &fw.Scenario{Name: fmt.Sprintf("cut|%s|%d", h.name, off), Params: p, DeadlockOK: true, New: func() (func(), func(*vsched.Execution) ([]fw.Issue, string)) {
		var fs *memfs.FS
		var s *sess.Sess
		body := func() {
			fs = mkfs()
			memfs.RecordSites = false
			s = sess.Connect(fs, sess.NewServer(fs), "c")
			s.Version(8192)
			reqs := h.reqs()
			stream, ends := concat(reqs)
			k := 0
			for k < len(ends) && ends[k] <= off {
				s.Do(reqs[k])
				k++
			}
			start := 0
			if k > 0 {
				start = ends[k-1]
			}
			vsched.BeginExplore()
			if off > start {
				s.Peer.SendRaw(stream[start:off])
			}
			s.Hangup()
			s.WaitDone()
			vsched.EndExplore()
		}
		return body, func(e *vsched.Execution) ([]fw.Issue, string) {
			return finalIssues(fs, []*sess.Sess{s}, e), fmt.Sprintf("calls=%d handles=%d", len(fs.Calls), len(fs.Handles))
		}
	}}
}

// hangupScenario: lock-step k requests, send request k+1 and hang up at once:
// the request is in flight while the connection goes away in both directions
// (server writes fail with EPIPE from the moment of the hang-up).
func hangupScenario(h history, k int, failWritesAt int) *fw.Scenario {
	p := cutParams{h.name, k, "hangup-after-request"}
	name := fmt.Sprintf("hangup|%s|req%d", h.name, k)
	if failWritesAt >= 0 {
		name += fmt.Sprintf("|failwrites@%d", failWritesAt)
	}
	return &fw.Scenario{Name: name, Params: p, DeadlockOK: true, New: func() (func(), func(*vsched.Execution) ([]fw.Issue, string)) {
		var fs *memfs.FS
		var s *sess.Sess
		body := func() {
			fs = mkfs()
			memfs.RecordSites = false
			s = sess.Connect(fs, sess.NewServer(fs), "c")
			s.Version(8192)
			reqs := h.reqs()
			for i := 0; i < k; i++ {
				s.Do(reqs[i])
			}
			if failWritesAt >= 0 {
				s.SC.W.FailWritesAfter = len(s.SC.W.Written) + failWritesAt
			}
			vsched.BeginExplore()
			s.Peer.Send(reqs[k])
			s.Hangup()
			s.WaitDone()
			vsched.EndExplore()
		}
		return body, func(e *vsched.Execution) ([]fw.Issue, string) {
			return finalIssues(fs, []*sess.Sess{s}, e), fmt.Sprintf("calls=%d handles=%d", len(fs.Calls), len(fs.Handles))
		}
	}}
}

// raceScenario: op(fid) gated in the backend || Tclunk(fid) (or another way
// of dropping the fid) || a second op(fid); then hang up.
type raceParams struct {
	Op1, Drop, Op2 string
	Hangup         bool
}

func raceScenario(p raceParams) *fw.Scenario {
	name := fmt.Sprintf("race|%s(gated)||%s||%s|hangup=%v", p.Op1, p.Drop, p.Op2, p.Hangup)
	return &fw.Scenario{Name: name, Params: p, DeadlockOK: true, New: func() (func(), func(*vsched.Execution) ([]fw.Issue, string)) {
		var fs *memfs.FS
		var s *sess.Sess
		gate := &memfs.Gate{}
		body := func() {
			fs = mkfs()
			memfs.RecordSites = false
			s = sess.Connect(fs, sess.NewServer(fs), "c")
			s.Version(8192)
			s.Attach(1)
			s.Walk(1, 2, "d", "x")
			s.Open(2, 2)
			s.Walk(1, 3, "d")
			mk := func(op string, tag uint16) (refcodec.Msg, string) {
				switch op {
				case "read":
					return rawpeer.Tread(tag, 2, 0, 4), "ReadAt"
				case "write":
					return rawpeer.Twrite(tag, 2, 0, []byte("q")), "WriteAt"
				case "getattr":
					return rawpeer.Tgetattr(tag, 2), "GetAttr"
				case "walk-from-d":
					return rawpeer.Twalk(tag, 3, 9, "x"), "WalkGetAttr"
				case "clone":
					return rawpeer.Twalk(tag, 2, 8), "Walk"
				case "clunk":
					return rawpeer.Tclunk(tag, 2), ""
				case "clunk-d":
					return rawpeer.Tclunk(tag, 3), ""
				case "remove":
					return rawpeer.Tremove(tag, 2), ""
				case "rebind":
					return rawpeer.Twalk(tag, 1, 2, "f"), ""
				case "rebind-d":
					return rawpeer.Twalk(tag, 1, 3, "e"), ""
				case "none":
					return refcodec.Msg{}, ""
				}
				panic(op)
			}
			m1, gated := mk(p.Op1, 10)
			md, _ := mk(p.Drop, 11)
			m2, _ := mk(p.Op2, 12)
			n := 0
			fs.Hook = func(c *memfs.Call) *memfs.Action {
				if c.Method == gated && n == 0 && vsched.Exploring() {
					n++
					return &memfs.Action{Gate: gate}
				}
				return nil
			}
			msgs := []refcodec.Msg{m1, md}
			if p.Op2 != "none" {
				msgs = append(msgs, m2)
			}
			vsched.BeginExplore()
			vsched.GoNamed("releaser", func() { gate.Open() })
			s.Peer.SendAll(msgs...)
			if !p.Hangup {
				for range msgs {
					if _, err := s.Peer.Recv(); err != nil {
						break
					}
				}
			}
			s.Hangup()
			s.WaitDone()
			vsched.EndExplore()
		}
		return body, func(e *vsched.Execution) ([]fw.Issue, string) {
			return finalIssues(fs, []*sess.Sess{s}, e), fmt.Sprintf("calls=%d handles=%d closed=%d", len(fs.Calls), len(fs.Handles), len(fs.Handles)-len(fs.LiveHandles()))
		}
	}}
}

func run(ctx *fw.Ctx, rep *fw.Report) {
	rep.Rule = "(b) for each of the corpus histories (failed multi-step walks, fid replacement, create-rebind, xattr fids incl. an xattr create refused at clunk, rename/unlink of referenced entries, attach names, refused names, open+readdir, clone of an unlinked file, node creation): the request stream is cut after EVERY byte offset (complete frames before the cut run in lock-step, then the partial frame, then EOF), and for every request index the client sends the request and hangs up at once (in-flight request, server writes failing from then on; additionally with server writes failing at every byte offset of the reply); (d) an operation held at a gate inside the backend || a request that drops the fid (clunk, remove, re-bind) || a second operation on the fid, with and without reading the replies before the hang-up; every Mazurkiewicz trace of each scenario from the cut/hang-up on (DPOR+sleep sets; fallback preemption bound 0,1); oracle: every handle closed exactly once at the end, every call on a handle happens-before its Close, Handle returned, every thread of the execution terminated (deadlock = a goroutine that can never finish); distinct = distinct (calls, handles) outcomes per scenario"
	rep.Assumptions = append(rep.Assumptions, "independence classes of DESIGN §2.2", "requests before the cut run under the default schedule", "parts (a) request histories and (c) fault sequences of DESIGN §4 C05 are decided by the C04/C08 and C15 checks' lifecycle oracles")
	var scs []*fw.Scenario
	cuts, hangs := 0, 0
	for _, h := range corpus {
		stream, ends := concat(h.reqs())
		for off := 0; off <= len(stream); off++ {
			if ctx.Quick() {
				// quick: frame boundaries +-1, header boundary, and every 5th offset
				near := false
				prev := 0
				for _, e := range ends {
					if off == e || off == e-1 || off == prev+1 || off == prev+4 || off == prev+7 || off == prev+8 {
						near = true
					}
					prev = e
				}
				if !near && off%5 != 0 {
					continue
				}
			}
			scs = append(scs, cutScenario(h, off))
			cuts++
		}
		for k := range h.reqs() {
			scs = append(scs, hangupScenario(h, k, -1))
			hangs++
			if !ctx.Quick() {
				for _, fw := range []int{0, 1, 4, 7, 8, 11} {
					scs = append(scs, hangupScenario(h, k, fw))
					hangs++
				}
			} else {
				scs = append(scs, hangupScenario(h, k, 7))
				hangs++
			}
		}
	}
	for _, o1 := range []string{"read", "write", "getattr", "clone", "walk-from-d"} {
		for _, d := range []string{"clunk", "remove", "rebind", "clunk-d", "rebind-d"} {
			for _, o2 := range []string{"none", "read", "getattr", "clone"} {
				for _, hang := range []bool{false, true} {
					if ctx.Quick() && o2 != "none" {
						continue // three requests in flight: thorough tier
					}
					scs = append(scs, raceScenario(raceParams{o1, d, o2, hang}))
				}
			}
		}
	}
	rep.Info["scenarios_total"] = len(scs)
	rep.Info["cut_point_scenarios"] = cuts
	rep.Info["hangup_scenarios"] = hangs
	budget := 15 * time.Second
	if !ctx.Quick() {
		budget = 2 * time.Minute
	}
	for i, sc := range scs {
		if !ctx.Mine(i) {
			continue
		}
		if ctx.Expired() {
			rep.NotExhaustive("tier budget exhausted before scenario " + sc.Name)
			continue
		}
		fw.RunScenario(ctx, rep, sc, fw.SchedOpts{Budget: budget, ForcePB: -1, Fallback: []int{0, 1}, Deviations: -1})
		if len(sc.Name) > 4 && sc.Name[:4] == "cut|" {
			rep.Count("cut_points", 1)
		}
	}
}
