package c12

import (
	"strconv"
	"strings"
	"unicode"
	"unicode/utf8"
)

// This file is the REFERENCE for C12, written from the property text only:
//
//   "A Tversion always gets an Rversion, never an error: version 'unknown'
//    with msize 0 when the requested msize is 0 or the version string is not
//    9P2000.L or 9P2000.L.Google.N; otherwise msize = min(requested, 4 MiB)
//    and version min(N, 7) in canonical spelling (plain '9P2000.L' for 0),
//    which parses back to the same number."
//
// It shares nothing with p9/version.go (no strings.Split, no strconv.ParseUint
// on the suffix).

const (
	maxMsize   = 4 << 20
	maxVersion = 7
)

// reading says how the property text reads a version string.
type reading int

const (
	// notL: the text clearly says the string is neither 9P2000.L nor
	// 9P2000.L.Google.N -> the reply must be ("unknown", 0).
	notL reading = iota
	// isL: the text clearly says the string is 9P2000.L(.Google.N) with the
	// returned N (< 2^32).
	isL
	// maybeL: the text does not decide whether this spelling "is"
	// 9P2000.L.Google.N; both ("unknown", 0) and the reply for N are accepted.
	maybeL
	// hugeL: N >= 2^32. DESIGN §4.0 fixed in advance: "unknown" or 7.
	hugeL
)

func (r reading) String() string {
	return [...]string{"not-9P2000.L", "9P2000.L", "ambiguous", "N>=2^32"}[r]
}

// classify reads a version string as the property text does.
//
// Decisions (each one documented because the text says only
// "9P2000.L.Google.N"):
//
//   - The two literals are case sensitive and must match completely: the text
//     spells them '9P2000.L' and '9P2000.L.Google.N'; "9P2000.l",
//     "9P2000.L.google.1", "9P2000", "9P2000.u", "9P2001.L", "unknown", a
//     missing or empty N are clearly "not 9P2000.L or 9P2000.L.Google.N".
//   - N written as plain ASCII decimal digits without leading zeros is what
//     the canonical spelling produces and what "parses back to the same
//     number" refers to: clearly valid.
//   - Leading zeros ("007", "00"): same digits, same number, but not the
//     canonical spelling; the text is silent -> either.
//   - An explicit plus sign ("+1") still is a decimal numeral of the
//     non-negative number N (every common integer parser accepts it); the
//     text is silent -> either. "-0" likewise (it denotes 0).
//   - A negative number ("-1") is not a version number at all: there is no N
//     for which min(N, 7) could be spelled canonically and parse back ->
//     clearly not valid.
//   - Anything that is not a numeral of an integer — blanks (" 1", "1 "), a
//     further dot ("1.0", "1.", "1.2": version numbers are integers, and the
//     text's form has exactly one number after "Google."), hexadecimal
//     ("0x7": the canonical spelling shows that N is written in decimal),
//     arbitrary bytes — makes the whole string different from
//     "9P2000.L.Google.N" for every number N -> clearly not valid.
//   - Non-ASCII decimal digits (e.g. U+0667 ARABIC-INDIC DIGIT SEVEN) are
//     decimal numerals of N in the Unicode sense; the text is silent ->
//     either (any N is then accepted, the check does not compute the value).
//   - N >= 2^32 (no 32-bit version number): "unknown" or 7 (DESIGN §4.0).
func classify(s string) (r reading, n uint64, anyN bool) {
	if s == "9P2000.L" {
		return isL, 0, false
	}
	const prefix = "9P2000.L.Google."
	if !strings.HasPrefix(s, prefix) {
		return notL, 0, false
	}
	d := s[len(prefix):]
	canonical := true
	switch {
	case strings.HasPrefix(d, "+"):
		d, canonical = d[1:], false
	case strings.HasPrefix(d, "-") && strings.Trim(d[1:], "0") == "" && len(d) > 1:
		d, canonical = d[1:], false // "-0"
	}
	if d == "" {
		return notL, 0, false
	}
	ascii := true
	for _, c := range []byte(d) {
		if c < '0' || c > '9' {
			ascii = false
		}
	}
	if !ascii {
		if !utf8.ValidString(d) {
			return notL, 0, false
		}
		for _, c := range d {
			if !unicode.IsDigit(c) {
				return notL, 0, false
			}
		}
		return maybeL, 0, true // non-ASCII decimal digits
	}
	if len(d) > 1 && d[0] == '0' {
		canonical = false
	}
	huge := false
	for _, c := range []byte(d) {
		n = n*10 + uint64(c-'0')
		if n >= 1<<32 {
			huge = true
			n = 1 << 32 // saturate
		}
	}
	switch {
	case huge:
		return hugeL, n, false
	case canonical:
		return isL, n, false
	default:
		return maybeL, n, false
	}
}

// canonical is the canonical spelling of version k.
func canonical(k uint64) string {
	if k == 0 {
		return "9P2000.L"
	}
	return "9P2000.L.Google." + strconv.FormatUint(k, 10)
}

func min64(a, b uint64) uint64 {
	if a < b {
		return a
	}
	return b
}

// rv is an Rversion body.
type rv struct {
	Msize   uint32
	Version string
}

var unknownReply = rv{0, "unknown"}

// allowedReplies is the reference function of the statement: the set of
// Rversion bodies the text allows for Tversion(msize, version).
func allowedReplies(msize uint32, version string) []rv {
	r, n, anyN := classify(version)
	if msize == 0 || r == notL {
		return []rv{unknownReply}
	}
	m := uint32(min64(uint64(msize), maxMsize))
	switch {
	case r == isL:
		return []rv{{m, canonical(min64(n, maxVersion))}}
	case r == hugeL:
		return []rv{unknownReply, {m, canonical(maxVersion)}}
	case anyN:
		out := []rv{unknownReply}
		for k := uint64(0); k <= maxVersion; k++ {
			out = append(out, rv{m, canonical(k)})
		}
		return out
	default: // maybeL
		return []rv{unknownReply, {m, canonical(min64(n, maxVersion))}}
	}
}

func allowed(set []rv, got rv) bool {
	for _, x := range set {
		if x == got {
			return true
		}
	}
	return false
}

// typeDefinedFor reports whether request type t is defined for version n of
// 9P2000.L.Google.n: the base 9P2000.L set always, Twalkgetattr from 2,
// Tucreate/Tumkdir/Tumknod/Tusymlink from 3 (p9/version.go documents these
// two extension steps; nothing else is version dependent in this library).
func typeDefinedFor(t uint8, n uint64) bool {
	switch t {
	case 126: // Twalkgetattr
		return n >= 2
	case 128, 130, 132, 134: // Tucreate, Tumkdir, Tumknod, Tusymlink
		return n >= 3
	}
	return true
}
