// Package c12 checks version and msize negotiation (DESIGN.md §4 C12), on
// both sides:
//
//   - server: every (msize, version string) of a stated grammar is sent as the
//     first Tversion of a fresh connection to the REAL p9 server; the reply is
//     compared with the reference function in ref.go. Tversion sent twice and
//     in mid-session must still be answered with Rversion.
//   - client: a scripted fake server (harness/fakesrv) offers every pair
//     (version string, msize) to the REAL p9.NewClient; error/no error,
//     Client.Version() and every frame the client sends afterwards are judged.
package c12

import (
	"encoding/hex"
	"encoding/json"
	"fmt"
	"sort"
	"strings"
	"time"

	"github.com/hugelgupf/p9/p9"
	"verif/harness/fakesrv"
	"verif/harness/fw"
	"verif/harness/memfs"
	"verif/harness/rawpeer"
	"verif/harness/refcodec"
	"verif/harness/sess"
	"verif/harness/vpipe"
)

func init() {
	fw.Register(&fw.Prop{ID: "C12", Run: run, Sharded: true, QuickSecs: 120, ThoroughSecs: 900})
}

// ---------------------------------------------------------------- grammar --

// vstr is one version string of the grammar with stable class labels (used
// in fingerprints instead of the string itself).
type vstr struct {
	S     string
	Base  string
	Class string
}

func (v vstr) label() string { return v.Base + "+" + v.Class }

var bases = [][2]string{
	{"9P2000.L", "9P2000.L"}, {"9P2000.l", "lowercase-l"}, {"9P2000", "9P2000"},
	{"9P2000.u", "9P2000.u"}, {"9P2001.L", "9P2001.L"}, {"", "empty-base"},
}

// numerals after ".Google." with their class.
var numeralsQuick = [][2]string{
	{"0", "N<=7"}, {"1", "N<=7"}, {"2", "N<=7"}, {"3", "N<=7"}, {"4", "N<=7"}, {"5", "N<=7"}, {"6", "N<=7"}, {"7", "N<=7"},
	{"8", "N>7"}, {"9", "N>7"}, {"10", "N>7"}, {"4294967295", "N>7"},
	{"007", "leading-zeros"}, {"00", "leading-zeros"},
	{"4294967296", "N>=2^32"}, {"99999999999999999999", "N>=2^32"},
	{"-1", "minus-sign"}, {"+1", "plus-sign"}, {" 1", "blank"}, {"1 ", "blank"},
	{"1.0", "extra-dot"}, {"0x7", "hex"},
	{"٧", "non-ascii-digit"}, {"７", "non-ascii-digit"},
}

var numeralsThorough = [][2]string{
	{"11", "N>7"}, {"12", "N>7"}, {"255", "N>7"}, {"256", "N>7"},
	{"65536", "N>7"}, {"2147483647", "N>7"}, {"2147483648", "N>7"}, {"4294967294", "N>7"},
	{"08", "leading-zeros"}, {"010", "leading-zeros"}, {"0000000000000000000001", "leading-zeros"},
	{"18446744073709551615", "N>=2^32"}, {"18446744073709551616", "N>=2^32"}, {"04294967296", "N>=2^32"},
	{"-0", "minus-zero"}, {"+0", "plus-sign"}, {"+7", "plus-sign"}, {"+8", "plus-sign"}, {"+", "sign-only"}, {"-", "sign-only"},
	{"--1", "minus-sign"}, {"+-1", "minus-sign"}, {"-7", "minus-sign"}, {"-4294967295", "minus-sign"},
	{"\t1", "blank"}, {"1\n", "blank"}, {"1\x00", "nul-byte"}, {"\x001", "nul-byte"},
	{"1e0", "letters"}, {"1_0", "letters"}, {"7L", "letters"}, {"seven", "letters"}, {"0b1", "letters"}, {"0o7", "letters"},
	{"1,0", "punctuation"}, {"1/1", "punctuation"}, {"0X7", "hex"}, {"1\xff", "arbitrary-bytes"}, {"\xff", "arbitrary-bytes"},
}

var shortAlphabet = []byte{'9', 'P', '.', 'L', 0x00, 0xff}

func grammar(thorough bool) []vstr {
	var out []vstr
	seen := map[string]bool{}
	add := func(s, base, class string) {
		if !seen[s] {
			seen[s] = true
			out = append(out, vstr{s, base, class})
		}
	}
	nums := numeralsQuick
	if thorough {
		nums = append(append([][2]string{}, numeralsQuick...), numeralsThorough...)
	}
	for _, b := range bases {
		add(b[0], b[1], "no-suffix")
		add(b[0]+".Google", b[1], "Google-without-N")
		add(b[0]+".Google.", b[1], "empty-N")
		for _, n := range nums {
			add(b[0]+".Google."+n[0], b[1], n[1])
		}
		add(b[0]+".google.1", b[1], "lowercase-google")
		add(b[0]+".Google.1.2", b[1], "extra-dot")
		add(b[0]+".Google.1.", b[1], "extra-dot")
	}
	// the literal a server uses to refuse, and near misses of the two literals
	add("unknown", "unknown", "no-suffix")
	full := "9P2000.L.Google.7"
	for i := 1; i < len(full); i++ {
		add(full[:i], "truncation", "near-miss")
	}
	for _, s := range []string{"9P2000.L\x00", full + "\x00", " 9P2000.L", "9P2000.L ", "9p2000.L", "9P2000.L.", "9P2000.L.Googl.7", "9P2000.L.Googlee.7", "9P2000.L.GOOGLE.7", "9P2000.L..7", "9P2000.L.Google7", "9P2000.L.Google..7", "9P2000.L.L.Google.7", "9P2000.u.L.Google.7", "X9P2000.L.Google.7"} {
		add(s, "edit", "near-miss")
	}
	// the longest strings the wire format can carry (string length is 16 bit)
	add(strings.Repeat("A", 65535), "long", "65535-bytes")
	add("9P2000.L"+strings.Repeat("\x00", 65535-8), "long", "65535-bytes")
	add("9P2000.L.Google."+strings.Repeat("1", 65535-16), "9P2000.L", "N>=2^32")
	add("9P2000.L.Google."+strings.Repeat("0", 65535-17)+"7", "9P2000.L", "leading-zeros")
	// all strings of length <= 2 (thorough: <= 4) over the byte alphabet
	maxLen := 2
	if thorough {
		maxLen = 4
	}
	var rec func(prefix []byte)
	rec = func(prefix []byte) {
		add(string(prefix), "bytes", "short-bytes")
		if len(prefix) == maxLen {
			return
		}
		for _, c := range shortAlphabet {
			rec(append(append([]byte{}, prefix...), c))
		}
	}
	rec(nil)
	return out
}

var serverMsizes = []uint32{0, 1, 6, 7, 8, 23, 4096, 65536, 4<<20 - 1, 4 << 20, 4<<20 + 1, 1 << 31, 1<<32 - 1}
var serverMsizesThorough = []uint32{2, 5, 9, 10, 11, 12, 13, 22, 24, 25, 64, 255, 256, 512, 4095, 4097, 8192, 65535, 65537, 1 << 20, 4<<20 - 2, 4<<20 + 2, 8 << 20, 1<<31 - 1, 1<<31 + 1, 1<<32 - 2}

func msizeClass(m uint32) string {
	switch {
	case m == 0:
		return "msize=0"
	case m < 7:
		return "msize<7"
	case m < 24:
		return "msize<24"
	case m <= 4<<20:
		return "msize<=4MiB"
	default:
		return "msize>4MiB"
	}
}

// ------------------------------------------------------------- watchdog --

// guard closes the connection if body stalls, so that a wedged peer becomes a
// visible "not exhaustive" note instead of a hang. It is not an oracle.
func guard(rep *fw.Report, what string, closeFn func(), body func()) {
	done := make(chan struct{})
	go func() {
		select {
		case <-done:
		case <-time.After(60 * time.Second):
			rep.NotExhaustive("stalled, connection closed by watchdog: " + what)
			closeFn()
		}
	}()
	body()
	close(done)
}

// ---------------------------------------------------------- server side --

type srvParams struct {
	Msize      uint32 `json:"msize"`
	VersionHex string `json:"version_hex"`
	VersionQ   string `json:"version_quoted"`
	Base       string `json:"base"`
	Class      string `json:"class"`
}

type counters struct{ frames int64 }

// exchangeVersion sends one Tversion on a fresh connection to the real server.
func exchangeVersion(rep *fw.Report, cnt *counters, msize uint32, version string) (frame []byte, err error) {
	fs := memfs.New()
	s := sess.Connect(fs, sess.NewServer(fs), "c12")
	guard(rep, fmt.Sprintf("Tversion(%d,%q)", msize, version), s.Hangup, func() {
		s.Peer.Send(rawpeer.Tversion(rawpeer.NoTag, msize, version))
		frame, err = s.Peer.RecvFrame()
	})
	s.Hangup()
	s.WaitDone()
	cnt.frames += 1
	if err == nil {
		cnt.frames++
	}
	return frame, err
}

// judgeReply compares one reply frame with the reference. It returns the
// decoded Rversion (ok=false if the frame is something else).
func judgeReply(rep *fw.Report, scenario string, p srvParams, version string, frame []byte, rerr error) (rv, bool) {
	rep.Evaluations++
	// fingerprint = oracle clause + the input class the clause depends on
	// (string class for clauses about the version, msize class for clauses
	// about the msize), never the concrete numbers.
	// Clauses that are about the reply as a whole use a coarse class (how the
	// reference reads the string x msize class; just "msize=0" when that rule
	// decides), so that one defect does not fan out over the whole grammar.
	rd, _, _ := classify(version)
	both := "string:" + rd.String() + "|" + msizeClass(p.Msize)
	if p.Msize == 0 {
		both = "msize=0"
	}
	fail := func(clause, class, summary string, detail ...string) {
		rep.Violate(&fw.Violation{
			Fingerprint: clause + "|" + class,
			Summary:     summary, Scenario: scenario, Params: fw.JSON(p),
			Detail: append([]string{fmt.Sprintf("sent Tversion{msize=%d, version=%s} as the first frame of a fresh connection", p.Msize, p.VersionQ)}, detail...),
		})
	}
	if rerr != nil {
		fail("tversion-gets-no-reply", both, fmt.Sprintf("Tversion{%d,%s} got no reply: %v", p.Msize, p.VersionQ, rerr), "the text demands: a Tversion always gets an Rversion")
		return rv{}, false
	}
	m, _, derr := refcodec.Decode(frame)
	if derr != nil || m.Type != refcodec.Rversion {
		what := fmt.Sprintf("%v", m)
		if derr != nil {
			what = fmt.Sprintf("undecodable frame %x (%v)", frame[:minInt(len(frame), 32)], derr)
		}
		fail("tversion-answered-with-non-rversion", both, fmt.Sprintf("Tversion{%d,%s} answered with %s", p.Msize, p.VersionQ, what), "the text demands: always an Rversion, never an error")
		return rv{}, false
	}
	got := rv{uint32(m.U("msize")), m.S("version")}
	want := allowedReplies(p.Msize, version)
	if !allowed(want, got) {
		r, n, _ := classify(version)
		strClass := p.Base + "+" + p.Class
		clause, class := "rversion-differs-from-reference", both
		switch {
		case p.Msize == 0:
			clause, class = "rversion-must-be-unknown", "msize=0"
		case len(want) == 1 && want[0] == unknownReply:
			clause, class = "rversion-must-be-unknown", strClass
		case got == unknownReply:
			clause, class = "rversion-must-not-be-unknown", both
		case got.Version == want[len(want)-1].Version:
			clause, class = "rversion-wrong-msize", msizeClass(p.Msize)
		case got.Msize == want[len(want)-1].Msize:
			clause, class = "rversion-wrong-version", strClass
		}
		fail(clause, class, fmt.Sprintf("Tversion{%d,%s}: got Rversion{%d,%q}, reference allows %v", p.Msize, p.VersionQ, got.Msize, got.Version, want),
			fmt.Sprintf("reference reading of the string: %v, N=%d", r, n))
	}
	// "in canonical spelling ..., which parses back to the same number": every
	// reply the reference allows is canonical(k) for a k <= 7, and those eight
	// strings are themselves inputs of the grid (answered with themselves).
	return got, true
}

// quote renders a version string for reports (long ones abbreviated; the
// exact bytes are in the hex field).
func quote(s string) string {
	if len(s) > 64 {
		return fmt.Sprintf("%q...(%d bytes)", s[:40], len(s))
	}
	return fmt.Sprintf("%q", s)
}

func minInt(a, b int) int {
	if a < b {
		return a
	}
	return b
}

func mkSrvParams(msize uint32, v vstr) srvParams {
	return srvParams{Msize: msize, VersionHex: hex.EncodeToString([]byte(v.S)), VersionQ: quote(v.S), Base: v.Base, Class: v.Class}
}

func serverCase(rep *fw.Report, cnt *counters, msize uint32, v vstr, replies map[string]bool) {
	p := mkSrvParams(msize, v)
	frame, err := exchangeVersion(rep, cnt, msize, v.S)
	got, ok := judgeReply(rep, "server-version", p, v.S, frame, err)
	rep.Traces++
	if ok {
		if got != unknownReply && replies != nil {
			replies[got.Version] = true
		}
		r, _, _ := classify(v.S)
		rep.Distinct(fmt.Sprintf("srv|%s|%s|%v|reply=%s,%s", v.label(), msizeClass(msize), r, got.Version, relMsize(got.Msize, msize)))
		rep.Count("server_reply_"+replyClass(got), 1)
	}
}

func relMsize(got, req uint32) string {
	switch {
	case got == 0:
		return "0"
	case got == req:
		return "=requested"
	case got == 4<<20:
		return "4MiB"
	}
	return "other"
}

func replyClass(got rv) string {
	if got == unknownReply {
		return "unknown"
	}
	return "accepted"
}

// --- sequences: Tversion twice / in mid-session ---

type seqParams struct {
	Kind string `json:"kind"` // twice | mid-session
	M1   uint32 `json:"m1"`
	V1   string `json:"v1"`
	M2   uint32 `json:"m2"`
	V2   string `json:"v2"`
}

func seqCases() []seqParams {
	var out []seqParams
	vs := []string{"9P2000.L", "9P2000.L.Google.7", "9P2000.L.Google.9", "9P2000.u"}
	for _, m1 := range []uint32{0, 24, 4096, 65536} {
		for _, v1 := range vs {
			for _, m2 := range []uint32{0, 1, 4096, 8192, 4<<20 + 1} {
				for _, v2 := range vs {
					out = append(out, seqParams{"twice", m1, v1, m2, v2})
				}
			}
		}
	}
	for _, m1 := range []uint32{4096, 65536} {
		for _, v1 := range []string{"9P2000.L", "9P2000.L.Google.7"} {
			for _, m2 := range []uint32{0, 1, 4096, 8192, 4<<20 + 1} {
				for _, v2 := range vs {
					out = append(out, seqParams{"mid-session", m1, v1, m2, v2})
				}
			}
		}
	}
	return out
}

func seqCase(rep *fw.Report, cnt *counters, c seqParams) {
	fs := memfs.New()
	fs.AddFile("f", []byte("0123456789"))
	s := sess.Connect(fs, sess.NewServer(fs), "c12seq")
	var r1, r2 refcodec.Msg
	var e1, e2 error
	var after string
	second := rawpeer.Tversion(rawpeer.NoTag, c.M2, c.V2)
	guard(rep, fmt.Sprintf("sequence %+v", c), s.Hangup, func() {
		r1, e1 = s.Peer.RPC(rawpeer.Tversion(rawpeer.NoTag, c.M1, c.V1))
		cnt.frames += 2
		if e1 != nil {
			return
		}
		if c.Kind == "mid-session" {
			second = rawpeer.Tversion(1, c.M2, c.V2)
			for _, m := range []refcodec.Msg{rawpeer.Tattach(1, 1, ""), rawpeer.Twalk(2, 1, 2, "f"), rawpeer.Tlopen(3, 2, 0), rawpeer.Tread(4, 2, 0, 4)} {
				if _, err := s.Peer.RPC(m); err != nil {
					e1 = err
					return
				}
				cnt.frames += 2
			}
		}
		r2, e2 = s.Peer.RPC(second)
		cnt.frames += 2
		if e2 == nil && c.Kind == "mid-session" {
			// recorded only: what became of the session
			if r, err := s.Peer.RPC(rawpeer.Tread(5, 2, 0, 4)); err == nil {
				after = r.Name()
				if r.Type == refcodec.Rlerror {
					after += fmt.Sprintf("(%d)", rawpeer.Errno(r))
				}
				cnt.frames += 2
			} else {
				after = "no-reply"
			}
		}
	})
	s.Hangup()
	s.WaitDone()
	rep.Traces++
	rep.Evaluations++
	fail := func(clause, summary string) {
		rep.Violate(&fw.Violation{Fingerprint: clause + "|" + c.Kind, Summary: summary, Scenario: "server-seq", Params: fw.JSON(c)})
	}
	if e1 != nil || r1.Type != refcodec.Rversion {
		fail("tversion-seq-first-not-answered-with-rversion", fmt.Sprintf("%+v: first Tversion / setup: reply %v err %v", c, r1, e1))
		return
	}
	// Is a reply to the second Tversion required? Only if its frame respects
	// the limit in force (the msize of the first Rversion; none after
	// "unknown"): a frame above the negotiated limit is the client's protocol
	// error and the server may drop the connection.
	secondLen := uint32(len(refcodec.Encode(second)))
	first := rv{uint32(r1.U("msize")), r1.S("version")}
	required := first == unknownReply || secondLen <= first.Msize
	outcome := ""
	switch {
	case e2 != nil:
		outcome = "no-reply"
		if required {
			fail("tversion-seq-gets-no-reply", fmt.Sprintf("%+v: the second Tversion (%d bytes, limit in force %d) got no reply: %v", c, secondLen, first.Msize, e2))
		}
	case r2.Type != refcodec.Rversion:
		outcome = r2.Name()
		if required {
			fail("tversion-seq-answered-with-non-rversion", fmt.Sprintf("%+v: the second Tversion was answered with %v", c, r2))
		}
	default:
		got := rv{uint32(r2.U("msize")), r2.S("version")}
		outcome = "Rversion:" + replyClass(got)
		if allowed(allowedReplies(c.M2, c.V2), got) {
			rep.Count("seq_second_reply_matches_reference", 1)
		} else {
			// the statement speaks of every Tversion, not of the first one
			rep.Count("seq_second_reply_differs_from_reference", 1)
			fail("tversion-seq-second-reply-differs-from-reference", fmt.Sprintf("%+v: the second Tversion{%d,%q} was answered %+v; the reference function of the statement allows %+v", c, c.M2, c.V2, got, allowedReplies(c.M2, c.V2)))
		}
	}
	rep.Count("seq_"+c.Kind+"_second_"+outcome, 1)
	if after != "" {
		rep.Count("seq_mid-session_read_after_reversion_"+after, 1)
	}
	rep.Distinct(fmt.Sprintf("seq|%s|first=%s|required=%v|%s|%s", c.Kind, replyClass(first), required, outcome, after))
}

// ---------------------------------------------------------- client side --

type cliParams struct {
	Requested  uint32 `json:"requested_msize"` // 0: p9's default (no option)
	Offer      string `json:"offer"`           // how the offered msize derives from the requested one
	VersionHex string `json:"version_hex"`
	VersionQ   string `json:"version_quoted"`
	Base       string `json:"base"`
	Class      string `json:"class"`
}

var offers = []string{"requested", "requested-1", "4096", "200", "24", "1", "0", "requested+1"}

func offered(offer string, req uint32) uint32 {
	switch offer {
	case "requested":
		return req
	case "requested-1":
		return req - 1
	case "requested+1":
		return req + 1
	}
	var x uint32
	fmt.Sscan(offer, &x)
	return x
}

var pattern []byte

// data returns n patterned bytes (shared, read-only).
func data(n int) []byte {
	if len(pattern) < n {
		pattern = make([]byte, n+1<<20)
		for i := range pattern {
			pattern[i] = byte(i*7 + i>>8 + 1)
		}
	}
	return pattern[:n]
}

func lens(a uint32, deltas ...int64) []int {
	set := map[int]bool{}
	for _, d := range deltas {
		if v := int64(a) + d; v >= 1 && v <= 40<<20 {
			set[int(v)] = true
		}
	}
	set[1] = true
	if v := 2*int64(a) + 1; v <= 40<<20 {
		set[int(v)] = true
	}
	var out []int
	for v := range set {
		out = append(out, v)
	}
	sort.Ints(out)
	return out
}

type opRec struct {
	Op  string `json:"op"`
	Err string `json:"err,omitempty"`
	N   int    `json:"n"`
}

// drive performs a fixed list of calls on a freshly negotiated client. The
// order is: small requests with small replies first, calls whose replies are
// large (WalkGetAttr, GetAttr: ~160 bytes) last, so that a client that adopted
// a tiny msize still gets as far as possible. Errors are recorded, not judged.
func drive(cl *p9.Client, a uint32) []opRec {
	var ops []opRec
	note := func(op string, n int, err error) bool {
		r := opRec{Op: op, N: n}
		if err != nil {
			r.Err = fw.Short(err.Error(), 80)
		}
		ops = append(ops, r)
		return err == nil
	}
	root, err := cl.Attach("")
	if !note("Attach", 0, err) {
		return ops
	}
	var closers []p9.File
	closers = append(closers, root)
	defer func() {
		for i := len(closers) - 1; i >= 0; i-- {
			closers[i].Close()
		}
	}()
	if _, f, err := root.Walk([]string{"f"}); note("Walk", 0, err) {
		closers = append(closers, f)
		if _, _, err := f.Open(p9.ReadWrite); note("Open", 0, err) {
			rl, wl := lens(a, -12, -11, -10, 0), lens(a, -24, -23, -22, 0)
			buf := make([]byte, rl[len(rl)-1])
			for _, l := range rl {
				n, err := f.ReadAt(buf[:l], 0)
				note(fmt.Sprintf("ReadAt(%s)", rel(l, a)), n, err)
			}
			for _, l := range wl {
				n, err := f.WriteAt(data(l), 0)
				note(fmt.Sprintf("WriteAt(%s)", rel(l, a)), n, err)
			}
		}
	}
	if _, d, err := root.Walk(nil); note("Walk(clone)", 0, err) {
		closers = append(closers, d)
		if _, _, err := d.Open(p9.ReadOnly); note("Open(dir)", 0, err) {
			for _, c := range []uint32{a - 11, a, 1<<32 - 1} {
				if a < 11 && c == a-11 {
					continue
				}
				ents, err := d.Readdir(0, c)
				note("Readdir", len(ents), err)
			}
		}
	}
	_, err = root.Mkdir("m", 0o755, 0, 0)
	note("Mkdir", 0, err)
	_, err = root.Symlink("t", "s", 0, 0)
	note("Symlink", 0, err)
	if _, d, err := root.Walk(nil); note("Walk(clone2)", 0, err) {
		closers = append(closers, d)
		_, _, _, err := d.Create("n", p9.ReadWrite, 0o644, 0, 0)
		note("Create", 0, err)
	}
	_, err = root.Mknod("k", p9.ModeRegular|0o644, 0, 0, 0, 0)
	note("Mknod", 0, err)
	if _, f, _, _, err := root.WalkGetAttr([]string{"f"}); note("WalkGetAttr", 0, err) {
		closers = append(closers, f)
	}
	_, _, _, err = root.GetAttr(p9.AttrMaskAll)
	note("GetAttr", 0, err)
	return ops
}

func rel(l int, a uint32) string {
	d := int64(l) - int64(a)
	switch {
	case l == 1:
		return "1"
	case int64(l) == 2*int64(a)+1:
		return "2A+1"
	case d == 0:
		return "A"
	default:
		return fmt.Sprintf("A%+d", d)
	}
}

func model(a uint32) *fakesrv.Node {
	root := fakesrv.NewDir()
	size := 2*int(a) + 2
	if size < 1<<16 {
		size = 1 << 16
	}
	if size > 40<<20 {
		size = 40 << 20
	}
	root.Add("f", fakesrv.NewFile(data(size)))
	for _, n := range []string{"a", "b", "c", "dddddddddddddddd"} {
		root.Add(n, fakesrv.NewFile(nil))
	}
	return root
}

func clientCase(rep *fw.Report, cnt *counters, requested uint32, offer string, v vstr) {
	p := cliParams{Requested: requested, Offer: offer, VersionHex: hex.EncodeToString([]byte(v.S)), VersionQ: quote(v.S), Base: v.Base, Class: v.Class}
	ca, cb := vpipe.NewConnPair("c12cli")
	var announced uint32
	srv := fakesrv.New(cb, nil, func(reqMsize uint32, _ string) (uint32, string) {
		announced = offered(offer, reqMsize)
		return announced, v.S
	})
	// the model depends on the announced msize, known only at Tversion time;
	// build it lazily but before the first Tattach can arrive.
	srv.Root = fakesrv.NewDir()
	var opts []p9.ClientOpt
	if requested != 0 {
		opts = append(opts, p9.WithMessageSize(requested))
	}
	var cl *p9.Client
	var nerr error
	var ops []opRec
	srv.Start()
	guard(rep, fmt.Sprintf("client case %+v", p), func() { ca.Close(); cb.Close() }, func() {
		cl, nerr = p9.NewClient(ca, opts...)
		if nerr == nil {
			srv.Root = model(announced)
			ops = drive(cl, announced)
		}
	})
	ca.Close()
	srv.Wait()
	frames := srv.Frames
	cnt.frames += int64(len(frames)) + int64(srv.Replies)
	rep.Traces++
	rep.Evaluations++

	reqMsize := srv.ReqMsize
	r, n, anyN := classify(v.S)
	fail := func(fp, summary string, detail ...string) {
		d := []string{fmt.Sprintf("client: NewClient(requested msize %d%s); fake server replied Rversion{msize=%d (%s), version=%s}", reqMsize, map[bool]string{true: " = p9 default", false: ""}[requested == 0], announced, offer, p.VersionQ)}
		rep.Violate(&fw.Violation{Fingerprint: fp, Summary: summary, Scenario: "client-negotiation", Params: fw.JSON(p), Detail: append(d, detail...)})
	}
	if len(frames) == 0 || frames[0].Type != refcodec.Tversion {
		rep.Count("client_first_frame_not_tversion(recorded only)", 1)
	}

	// 1. error / no error
	outcome := "ok"
	if nerr != nil {
		outcome = "error"
	}
	switch {
	case r == notL && nerr == nil:
		fail("newclient-proceeds-on-non-9P2000.L-reply|"+v.label(), fmt.Sprintf("NewClient succeeded although the server answered version %s (Version()=%d)", p.VersionQ, cl.Version()),
			"the text demands: fails with an error rather than proceeding when the reply is not a 9P2000.L version")
	case r == isL && n <= maxVersion && announced >= 4096 && announced <= reqMsize && nerr != nil:
		// Demanded only for 4096 <= offered msize <= requested: whether a
		// client must accept an msize too small to carry its own messages is
		// not said in the text, and a server that RAISES the msize above the
		// request, or the version above the 7 the client asked for (N > 7),
		// is not covered by "servers that lower either": either.
		fail("newclient-fails-on-valid-reply|"+v.label()+"|offer="+offer, fmt.Sprintf("NewClient failed (%v) although the reply Rversion{%d,%s} is a 9P2000.L version", nerr, announced, p.VersionQ),
			"the text demands: NewClient adopts the version and the msize of that reply")
	}
	if nerr != nil {
		rep.Distinct(fmt.Sprintf("cli|%s|%v|offer=%s|%s", v.label(), r, offerClass(announced, reqMsize), outcome))
		rep.Count("client_newclient_error", 1)
		return
	}
	rep.Count("client_newclient_ok", 1)

	// 2. adopted version
	ver := uint64(cl.Version())
	// The message-type clause is judged against the version the SERVER
	// announced (that is what was negotiated), not against what the client
	// believes; where the text does not decide N, every type is allowed.
	effN := n
	if r == notL || r == hugeL || anyN {
		effN = 1 << 32
	}
	switch {
	case r == notL:
		// already reported; nothing to compare
	case anyN || r == hugeL:
		// value not decided by the text
	case n > maxVersion && ver == maxVersion:
		// server raised the version above the requested 7; a client keeping
		// its own 7 is not contradicted by the text.
	case ver != n:
		fail("client-version-not-adopted|"+v.label(), fmt.Sprintf("server answered %s (N=%d) but Client.Version()=%d", p.VersionQ, n, ver))
	}

	// 3. every frame sent after the Rversion
	okOps := 0
	for _, o := range ops {
		if o.Err == "" {
			okOps++
		}
	}
	types := map[string]bool{}
	type offender struct{ min, max fakesrv.Frame }
	var worst = map[string]*offender{}
	for _, f := range frames {
		if f.AfterVersion == 0 {
			continue
		}
		types[f.Name] = true
		rep.Count("client_frames_"+f.Name, 1)
		if f.Bad != "" {
			rep.Count("client_frames_undecodable(recorded only)", 1)
		}
		clause := ""
		switch {
		case f.Type == refcodec.Tread && uint64(f.Count)+11 > uint64(announced):
			clause = "tread"
		case f.Type == refcodec.Twrite && f.Size > announced:
			clause = "twrite"
		case f.Size > announced:
			clause = "fixed-size-request"
		}
		if clause != "" {
			w := worst[clause]
			if w == nil {
				w = &offender{f, f}
				worst[clause] = w
			}
			if weight(f) < weight(w.min) {
				w.min = f
			}
			if weight(f) > weight(w.max) {
				w.max = f
			}
		}
		if r != notL && !typeDefinedFor(f.Type, effN) {
			group := "Tucreate/Tumkdir/Tumknod/Tusymlink|N<3"
			if f.Type == refcodec.Twalkgetattr {
				group = "Twalkgetattr|N<2"
			}
			fail("client-uses-type-undefined-for-version|"+group, fmt.Sprintf("the server announced version %d (%s) but the client sent %s (Client.Version()=%d)", effN, p.VersionQ, f.Name, ver),
				"the text demands: NewClient adopts the version ... of that reply for everything it sends afterwards")
		}
	}
	var clauses []string
	for clause := range worst {
		clauses = append(clauses, clause)
	}
	sort.Strings(clauses)
	for _, clause := range clauses {
		w := worst[clause]
		// Fingerprint by what was observed, not by a guess at the cause:
		//   payload>announced : some Tread count / Twrite payload of the case is
		//     larger than the WHOLE announced msize — the announced value
		//     plays no role in the client's chunking ("ignores");
		//   off-by-header     : payloads stay <= announced but the frame (or
		//     the reply it asks for) does not fit — header arithmetic;
		//   fixed-size-request: a request without payload is larger than
		//     the announced msize (only possible for tiny msize).
		fp := "client-frame-exceeds-announced-msize|" + clause
		switch {
		case clause == "fixed-size-request":
		case w.max.Count > announced:
			fp = "client-ignores-rversion-msize|" + clause + "|payload>announced"
		default:
			fp = "client-exceeds-announced-msize|" + clause + "|off-by-header"
		}
		f := w.min
		fail(fp, fmt.Sprintf("after Rversion{msize=%d} the client sent %s: frame size %d, count %d%s", announced, f.Name, f.Size, f.Count, replyNeed(f)),
			"the text demands: NewClient adopts ... the msize of that reply for everything it sends afterwards", "smallest offending frame of this case: "+f.String(), "largest offending frame of this case: "+w.max.String(), "calls driven: "+opsString(ops))
	}
	var tl []string
	for t := range types {
		tl = append(tl, t)
	}
	sort.Strings(tl)
	rep.Distinct(fmt.Sprintf("cli|%s|%v|offer=%s|ok|ver=%d|viol=%v|types=%v|okops=%d", v.label(), r, offerClass(announced, reqMsize), ver, clauses, tl, okOps))
	rep.Count("client_calls_driven", int64(len(ops)))
	rep.Count("client_calls_succeeded", int64(okOps))
}

func weight(f fakesrv.Frame) uint64 { return uint64(f.Size) + uint64(f.Count) }

func replyNeed(f fakesrv.Frame) string {
	if f.Type == refcodec.Tread {
		return fmt.Sprintf(" (its Rread needs count+11 = %d bytes)", uint64(f.Count)+11)
	}
	return ""
}

func opsString(ops []opRec) string {
	var s []string
	for _, o := range ops {
		x := fmt.Sprintf("%s=%d", o.Op, o.N)
		if o.Err != "" {
			x += "!" + o.Err
		}
		s = append(s, x)
	}
	return fw.Short(strings.Join(s, " "), 600)
}

func offerClass(announced, req uint32) string {
	switch {
	case announced == req:
		return "same"
	case announced > req:
		return "raised"
	case announced >= 4096:
		return "lowered>=4096"
	case announced >= 24:
		return "lowered>=24"
	default:
		return "lowered<24"
	}
}

// ------------------------------------------------------------------ run --

func run(ctx *fw.Ctx, rep *fw.Report) {
	thorough := !ctx.Quick()
	g := grammar(thorough)
	msizes := append([]uint32{}, serverMsizes...)
	if thorough {
		msizes = append(msizes, serverMsizesThorough...)
	}
	requests := []uint32{0, 8192, 8 << 20}
	if thorough {
		requests = append(requests, 4096, 65536, 1<<20, 4<<20)
	}
	rep.Rule = fmt.Sprintf("complete grids, nothing sampled. SERVER: msize in %v x version strings of a grammar (%d strings: bases {9P2000.L,9P2000.l,9P2000,9P2000.u,9P2001.L,\"\"} x suffixes {\"\", .Google, .Google., .Google.N for %d numerals (canonical 0..10 and 2^32-1, leading zeros, >=2^32, signs, blanks, extra dot, hex, non-ASCII digits), .google.1, .Google.1.2, .Google.1.}; \"unknown\"; every proper prefix and 15 one-edit near misses of 9P2000.L.Google.7; four 65535-byte strings; ALL byte strings of length <= %d over {'9','P','.','L',0x00,0xff}), each as first frame of a fresh connection to the real server, reply compared with the reference function of the statement (the canonical replies for N=0..7 are themselves grid inputs, which is the parse-back check); %d sequences (Tversion twice / after attach+walk+open+read) x msize/version pairs; 12 ordered pairs of Tversions IN FLIGHT TOGETHER on one connection under all handler interleavings (DPOR), each reply judged against its own request. CLIENT: requested msize in %v (0 = default) x offered msize in %v x the same grammar offered by a fake server to the real p9.NewClient, then Attach/Walk/Open/ReadAt x {1,A-12,A-11,A-10,A,2A+1}/WriteAt x {1,A-24,A-23,A-22,A,2A+1}/Readdir/Mkdir/Symlink/Create/Mknod/WalkGetAttr/GetAttr/Close with every client frame recorded. A case is distinct by its full input tuple; distinct_nontrivial counts distinct (input class, observed outcome) pairs.",
		msizes, len(g), len(numeralsQuick)+map[bool]int{true: len(numeralsThorough)}[thorough], map[bool]int{false: 2, true: 4}[thorough], len(seqCases()), requests, offers)
	rep.Assumptions = append(rep.Assumptions,
		"reading of the version grammar: see props/c12/ref.go classify (leading zeros, plus sign, non-ASCII digits, N>=2^32: either; minus, blanks, extra dots, hex, other bytes: must be unknown)",
		"client: success is demanded only for valid replies with N<=7 and 4096 <= offered msize <= requested; otherwise an error is accepted as well as compliance",
		"message types defined per version: Twalkgetattr from 2, Tucreate/Tumkdir/Tumknod/Tusymlink from 3",
	)
	cnt := &counters{}
	defer func() { rep.Transitions += cnt.frames }()

	if ctx.Replay != nil {
		replay(ctx, rep, cnt)
		return
	}

	idx := 0
	mine := func() bool {
		idx++
		return ctx.Mine(idx - 1)
	}
	stop := func(what string) bool {
		if ctx.Expired() {
			rep.NotExhaustive("budget expired during " + what)
			return true
		}
		return false
	}
	want := func(name string) bool { return ctx.Filter == "" || strings.Contains(name, ctx.Filter) }

	// server grid
	if want("server-version") {
		replies := map[string]bool{}
	srvLoop:
		for _, m := range msizes {
			for _, v := range g {
				if !mine() {
					continue
				}
				if stop("server grid") {
					break srvLoop
				}
				rep.States++
				serverCase(rep, cnt, m, v, replies)
				if len(rep.Samples) < 2 && v.Base == "9P2000.L" && v.Class == "N>7" && m > 4<<20 {
					rep.Sample(map[string]interface{}{"side": "server", "tversion_msize": m, "tversion_version": v.S, "allowed": fmt.Sprint(allowedReplies(m, v.S))})
				}
			}
		}
		rep.Count("max_server_distinct_accepted_reply_strings", int64(len(replies)))
	}
	// sequences
	if want("server-seq") {
		for _, c := range seqCases() {
			if !mine() {
				continue
			}
			if stop("sequences") {
				break
			}
			rep.States++
			seqCase(rep, cnt, c)
		}
	}
	// client grid. The plainest lowering case (default request, 4096 offered,
	// "9P2000.L") is taken out of the round-robin distribution and run first
	// by shard 0, so that the recorded violation of a fingerprint is minimal.
	if want("client-negotiation") {
		witness := func(req uint32, offer string, v vstr) bool { return req == 0 && offer == "4096" && v.S == "9P2000.L" }
		if ctx.NShards <= 1 || ctx.Shard == 0 {
			rep.States++
			clientCase(rep, cnt, 0, "4096", vstr{"9P2000.L", "9P2000.L", "no-suffix"})
		}
	cliLoop:
		for _, req := range requests {
			for _, offer := range offers {
				for _, v := range g {
					if witness(req, offer, v) || !mine() {
						continue
					}
					if stop("client grid") {
						break cliLoop
					}
					rep.States++
					clientCase(rep, cnt, req, offer, v)
					if len(rep.Samples) < 4 && v.Base == "9P2000.L" && v.Class == "N<=7" && offer == "4096" {
						rep.Sample(map[string]interface{}{"side": "client", "requested_msize(0=default)": req, "offered_msize": offer, "offered_version": v.S})
					}
				}
			}
		}
	}
	runPipelined(ctx, rep)
}

func replay(ctx *fw.Ctx, rep *fw.Report, cnt *counters) {
	switch ctx.Replay.Scenario {
	case "server-version":
		var p srvParams
		if json.Unmarshal(ctx.Replay.Params, &p) != nil {
			return
		}
		b, _ := hex.DecodeString(p.VersionHex)
		serverCase(rep, cnt, p.Msize, vstr{string(b), p.Base, p.Class}, nil)
	case "server-seq":
		var c seqParams
		if json.Unmarshal(ctx.Replay.Params, &c) == nil {
			seqCase(rep, cnt, c)
		}
	case "client-negotiation":
		var p cliParams
		if json.Unmarshal(ctx.Replay.Params, &p) != nil {
			return
		}
		b, _ := hex.DecodeString(p.VersionHex)
		clientCase(rep, cnt, p.Requested, p.Offer, vstr{string(b), p.Base, p.Class})
	}
}
