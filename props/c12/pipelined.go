package c12

import (
	"fmt"
	"time"

	"verif/harness/fw"
	"verif/harness/memfs"
	"verif/harness/rawpeer"
	"verif/harness/refcodec"
	"verif/harness/sess"
	"verif/rt/vsched"
)

// Two Tversions IN FLIGHT TOGETHER on one connection (different tags). The
// statement's reply is a function of the request alone, so each Rversion must
// be an allowed reply to ITS OWN request whichever of the two is served first
// and however their handlers interleave. All interleavings (DPOR).
func pipelinedScenario(m1 uint32, v1 string, m2 uint32, v2 string) *fw.Scenario {
	name := fmt.Sprintf("pipelined Tversion{%d,%q} , Tversion{%d,%q}", m1, v1, m2, v2)
	return &fw.Scenario{Name: name, Params: map[string]interface{}{"m1": m1, "v1": v1, "m2": m2, "v2": v2}, RaceOK: true, New: func() (func(), func(*vsched.Execution) ([]fw.Issue, string)) {
		var replies [2]refcodec.Msg
		var got [2]bool
		body := func() {
			replies, got = [2]refcodec.Msg{}, [2]bool{}
			fs := memfs.New()
			s := sess.Connect(fs, sess.NewServer(fs), "c12p")
			vsched.BeginExplore()
			s.Peer.SendAll(rawpeer.Tversion(1, m1, v1), rawpeer.Tversion(2, m2, v2))
			for i := 0; i < 2; i++ {
				r, err := s.Peer.Recv()
				if err != nil {
					break
				}
				if r.Tag == 1 || r.Tag == 2 {
					replies[r.Tag-1], got[r.Tag-1] = r, true
				}
			}
			vsched.EndExplore()
			s.Hangup()
			s.WaitDone()
		}
		check := func(e *vsched.Execution) ([]fw.Issue, string) {
			var is []fw.Issue
			out := ""
			reqs := [2]struct {
				m uint32
				v string
			}{{m1, v1}, {m2, v2}}
			for i, r := range replies {
				if e.End != vsched.EndComplete {
					break
				}
				if !got[i] || r.Type != refcodec.Rversion {
					is = append(is, fw.Issue{Fingerprint: "pipelined-tversion|not-answered-with-rversion", Summary: fmt.Sprintf("Tversion{%d,%q} (tag %d), in flight together with another Tversion, was answered with %v", reqs[i].m, reqs[i].v, i+1, r)})
					continue
				}
				g := rv{uint32(r.U("msize")), r.S("version")}
				out += fmt.Sprintf("%d:%s ", i+1, replyClass(g))
				if !allowed(allowedReplies(reqs[i].m, reqs[i].v), g) {
					is = append(is, fw.Issue{Fingerprint: "pipelined-tversion|reply-is-not-a-function-of-its-own-request", Summary: fmt.Sprintf("Tversion{%d,%q} (tag %d), in flight together with Tversion{%d,%q}, was answered Rversion{%d,%q}; the reference allows %v", reqs[i].m, reqs[i].v, i+1, reqs[1-i].m, reqs[1-i].v, g.Msize, g.Version, allowedReplies(reqs[i].m, reqs[i].v))})
				}
			}
			return is, out
		}
		return body, check
	}}
}

func runPipelined(ctx *fw.Ctx, rep *fw.Report) {
	type tv struct {
		m uint32
		v string
	}
	alts := []tv{{8192, "9P2000.L.Google.3"}, {64 << 20, "9P2000.L.Google.9"}, {4096, "9P2000.L"}, {65536, "9P2000.u"}}
	n := 0
	for _, a := range alts {
		for _, b := range alts {
			if a == b {
				continue
			}
			n++
			if !ctx.Mine(n) {
				continue
			}
			fw.RunScenario(ctx, rep, pipelinedScenario(a.m, a.v, b.m, b.v), fw.SchedOpts{Budget: 30 * time.Second, ForcePB: -1, Fallback: []int{0, 1}, Deviations: -1})
		}
	}
}
