package c18

// Client side of the statement: what a call of the real p9.Client RETURNED is
// a function of that call's own reply frame - for good. A later reply (of the
// same or another Client of the process) must not reach into a value an
// earlier call handed to its caller: no result may alias an object or buffer
// that is recycled. Family by family, ALL sequences of 1..3 calls with the
// variable-size part in {long, short, empty}, assigned in every way to two
// Clients of one process; every result is copied deeply when it is returned
// and compared with that copy - and with what the backend holds - after the
// whole sequence.

import (
	"encoding/json"
	"fmt"
	"reflect"
	"strings"

	"verif/harness/fw"
	"verif/harness/memfs"
	"verif/harness/vpipe"

	"github.com/hugelgupf/p9/p9"
)

const scenarioRetain = "client-results-retained"

type retainP struct {
	Family string   `json:"family"`
	Sizes  []string `json:"sizes"`
	Conns  []int    `json:"conns"`
}

var retainFamilies = []string{"readdir", "walk", "walkgetattr", "getxattr", "listxattrs", "readlink", "readat"}

type retClient struct {
	cl   *p9.Client
	root p9.File
	done chan struct{}
}

func retainFS() *memfs.FS {
	fs := mkfs()
	long := fs.AddFile("xl", nil)
	for i := 0; i < 9; i++ {
		long.Xattrs[fmt.Sprintf("user.attribute-with-a-long-name-%02d", i)] = pattern(200+i, byte(i))
	}
	short := fs.AddFile("xs", nil)
	short.Xattrs["user.s"] = []byte("v")
	fs.AddFile("xe", nil)
	return fs
}

// one call; returns the result (any comparable-by-DeepEqual value) and the
// expectation derived from the file system, or an error text.
func retainCall(fs *memfs.FS, root p9.File, family, size string) (got, want interface{}, problem string) {
	walkTo := func(names ...string) (p9.File, string) {
		_, f, err := root.Walk(names)
		if err != nil {
			return nil, fmt.Sprintf("Walk(%v): %v", names, err)
		}
		return f, ""
	}
	pick := map[string]string{}
	switch family {
	case "readdir":
		pick = map[string]string{"long": "many", "short": "one", "empty": "none"}
		f, p := walkTo(pick[size])
		if p != "" {
			return nil, nil, p
		}
		defer f.Close()
		if _, _, err := f.Open(p9.ReadOnly); err != nil {
			return nil, nil, "Open: " + err.Error()
		}
		ents, err := f.Readdir(0, 6000)
		if err != nil {
			return nil, nil, "Readdir: " + err.Error()
		}
		var names []string
		for _, e := range ents {
			names = append(names, e.Name)
		}
		var wantNames []string
		switch size {
		case "long":
			for i := 0; i < 12; i++ {
				wantNames = append(wantNames, fmt.Sprintf("entry-with-a-long-name-%02d", i))
			}
		case "short":
			wantNames = []string{"e"}
		}
		if strings.Join(names, "/") != strings.Join(wantNames, "/") {
			return nil, nil, fmt.Sprintf("Readdir(%s) lists %v, the directory holds %v", pick[size], names, wantNames)
		}
		return ents, nil, ""
	case "walk", "walkgetattr":
		var names []string
		switch size {
		case "long":
			names = []string{"d1", "d2", "d3", "leaf"}
		case "short":
			names = []string{"w"}
		}
		var qs []p9.QID
		var f p9.File
		var err error
		if family == "walk" {
			qs, f, err = root.Walk(names)
		} else {
			qs, f, _, _, err = root.WalkGetAttr(names)
		}
		if err != nil {
			return nil, nil, fmt.Sprintf("%s(%v): %v", family, names, err)
		}
		f.Close()
		if len(qs) != len(names) {
			return nil, nil, fmt.Sprintf("%s(%v) returned %d QIDs", family, names, len(qs))
		}
		return qs, nil, ""
	case "getxattr", "listxattrs":
		pick = map[string]string{"long": "xl", "short": "xs", "empty": "xe"}
		f, p := walkTo(pick[size])
		if p != "" {
			return nil, nil, p
		}
		defer f.Close()
		if family == "listxattrs" {
			l, err := f.ListXattrs()
			if err != nil {
				return nil, nil, "ListXattrs: " + err.Error()
			}
			if n := map[string]int{"long": 9, "short": 1, "empty": 0}[size]; len(l) != n {
				return nil, nil, fmt.Sprintf("ListXattrs(%s) returned %d names, the file has %d", pick[size], len(l), n)
			}
			return l, nil, ""
		}
		switch size {
		case "long":
			v, err := f.GetXattr("user.attribute-with-a-long-name-03")
			if err != nil {
				return nil, nil, "GetXattr: " + err.Error()
			}
			return v, pattern(203, 3), ""
		case "short":
			v, err := f.GetXattr("user.s")
			if err != nil {
				return nil, nil, "GetXattr: " + err.Error()
			}
			return v, []byte("v"), ""
		default:
			_, err := f.GetXattr("user.absent")
			if err == nil {
				return nil, nil, "GetXattr of a missing attribute succeeds"
			}
			return []byte(nil), nil, ""
		}
	case "readlink":
		pick = map[string]string{"long": "ll", "short": "ls", "empty": "le"}
		f, p := walkTo(pick[size])
		if p != "" {
			return nil, nil, p
		}
		defer f.Close()
		t, err := f.Readlink()
		if err != nil {
			return nil, nil, "Readlink: " + err.Error()
		}
		return t, map[string]string{"long": longLink, "short": "t", "empty": ""}[size], ""
	case "readat":
		pick = map[string]string{"long": "L", "short": "S", "empty": "E"}
		f, p := walkTo(pick[size])
		if p != "" {
			return nil, nil, p
		}
		defer f.Close()
		if _, _, err := f.Open(p9.ReadOnly); err != nil {
			return nil, nil, "Open: " + err.Error()
		}
		buf := make([]byte, 400)
		n, _ := f.ReadAt(buf, 0)
		return buf[:n], map[string][]byte{"long": pattern(300, 11), "short": pattern(5, 99), "empty": {}}[size], ""
	}
	panic(family)
}

func deepCopy(v interface{}) interface{} {
	switch x := v.(type) {
	case p9.Dirents:
		return append(p9.Dirents{}, x...)
	case []p9.Dirent:
		return append([]p9.Dirent{}, x...)
	case []p9.QID:
		return append([]p9.QID{}, x...)
	case []byte:
		return append([]byte{}, x...)
	case []string:
		return append([]string{}, x...)
	case string:
		return strings.Clone(x)
	}
	panic(fmt.Sprintf("deepCopy: %T", v))
}

func same(a, b interface{}) bool {
	if ab, ok := a.([]byte); ok {
		if bb, ok := b.([]byte); ok {
			return string(ab) == string(bb)
		}
	}
	va, vb := reflect.ValueOf(a), reflect.ValueOf(b)
	if va.IsValid() && vb.IsValid() && va.Kind() == reflect.Slice && vb.Kind() == reflect.Slice && va.Len() == 0 && vb.Len() == 0 {
		return true // nil and empty are the same result
	}
	return reflect.DeepEqual(a, b)
}

func runRetainCase(c retainP) (problems []string) {
	fs := retainFS()
	memfs.RecordSites = false
	srv := p9.NewServer(fs)
	var cls [2]*retClient
	dial := func(i int) (*retClient, string) {
		if cls[i] != nil {
			return cls[i], ""
		}
		cc, sc := vpipe.NewConnPair(fmt.Sprintf("ret%d", i))
		rc := &retClient{done: make(chan struct{})}
		go func() {
			srv.Handle(sc, sc)
			close(rc.done)
		}()
		cl, err := p9.NewClient(cc, p9.WithMessageSize(8192))
		if err != nil {
			cc.Close()
			<-rc.done
			return nil, "NewClient: " + err.Error()
		}
		rc.cl = cl
		root, err := cl.Attach("")
		if err != nil {
			cl.Close()
			<-rc.done
			return nil, "Attach: " + err.Error()
		}
		rc.root = root
		cls[i] = rc
		return rc, ""
	}
	defer func() {
		for _, rc := range cls {
			if rc != nil {
				rc.cl.Close()
				<-rc.done
			}
		}
	}()
	type kept struct {
		i         int
		got, copy interface{}
	}
	var keep []kept
	for i, sz := range c.Sizes {
		rc, p := dial(c.Conns[i])
		if p != "" {
			return []string{p}
		}
		got, want, p := retainCall(fs, rc.root, c.Family, sz)
		if p != "" {
			problems = append(problems, fmt.Sprintf("call %d (%s): %s", i, sz, p))
			continue
		}
		if want != nil && !same(got, want) {
			problems = append(problems, fmt.Sprintf("call %d (%s %s) after %v returned %.80q, the backend holds %.80q", i, c.Family, sz, c.Sizes[:i], fmt.Sprint(got), fmt.Sprint(want)))
		}
		keep = append(keep, kept{i, got, deepCopy(got)})
	}
	for _, k := range keep {
		if !same(k.got, k.copy) {
			problems = append(problems, fmt.Sprintf("the result of call %d (%s %s) CHANGED after it was returned: it was %.100q and is %.100q after the later calls %v", k.i, c.Family, c.Sizes[k.i], fmt.Sprint(k.copy), fmt.Sprint(k.got), c.Sizes[k.i+1:]))
		}
	}
	return problems
}

func retainCases(quick bool) []retainP {
	var out []retainP
	for _, f := range retainFamilies {
		for k := 1; k <= 3; k++ {
			n := 1
			for i := 0; i < k; i++ {
				n *= 3
			}
			for code := 0; code < n; code++ {
				var sz []string
				c := code
				for i := 0; i < k; i++ {
					sz = append(sz, sizes[c%3])
					c /= 3
				}
				for cm := 0; cm < 1<<uint(k-1); cm++ {
					conns := []int{0}
					for i := 1; i < k; i++ {
						conns = append(conns, (cm>>uint(i-1))&1)
					}
					out = append(out, retainP{f, sz, conns})
				}
			}
		}
	}
	return out
}

func runRetain(ctx *fw.Ctx, rep *fw.Report) {
	report := func(c retainP, ps []string) {
		for _, p := range ps {
			kind := "differs-from-backend"
			switch {
			case strings.Contains(p, "CHANGED after it was returned"):
				kind = "changed-after-it-was-returned"
			case !strings.Contains(p, "the backend holds"):
				kind = "call-fails"
			}
			fp := "client-result|" + c.Family + "|" + kind
			if rep.Seen(fp) {
				continue
			}
			rep.Violate(&fw.Violation{Fingerprint: fp, Summary: p, Scenario: scenarioRetain, Params: fw.JSON(c)})
		}
	}
	if ctx.Replay != nil {
		if ctx.Replay.Scenario != scenarioRetain {
			return
		}
		var c retainP
		if err := json.Unmarshal(ctx.Replay.Params, &c); err != nil {
			return
		}
		report(c, runRetainCase(c))
		return
	}
	for i, c := range retainCases(ctx.Quick()) {
		if !ctx.Mine(i) {
			continue
		}
		ps := runRetainCase(c)
		rep.States++
		rep.Traces++
		rep.Transitions += int64(len(c.Sizes))
		rep.Evaluations += int64(2 * len(c.Sizes))
		rep.Count("client_retention_cases", 1)
		rep.Distinct(fmt.Sprintf("retain|%s|%d|problems=%d", c.Family, len(c.Sizes), len(ps)))
		report(c, ps)
	}
}
