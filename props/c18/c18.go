// Package c18 checks that no content carries over between messages through
// recycled message objects and buffers (DESIGN.md §4 C18).
package c18

import (
	"bytes"
	"fmt"
	"strings"
	"time"

	"verif/harness/fw"
	"verif/harness/memfs"
	"verif/harness/rawpeer"
	"verif/harness/refcodec"
	"verif/harness/sess"
	"verif/rt/vsched"
	"verif/rt/vsync"
)

func init() {
	fw.Register(&fw.Prop{ID: "C18", Run: run, Sharded: true, QuickSecs: 80, ThoroughSecs: 1200})
}

var (
	longData  = bytes.Repeat([]byte("LONG-payload-0123456789-"), 10) // 240 bytes
	shortData = []byte("sh")
	longLink  = strings.Repeat("target/", 30)
)

func pattern(n int, seed byte) []byte {
	b := make([]byte, n)
	for i := range b {
		b[i] = seed + byte(i*7)
	}
	return b
}

func mkfs() *memfs.FS {
	fs := memfs.New()
	fs.AddFile("d1/d2/d3/leaf", []byte("x"))
	fs.AddFile("L", pattern(300, 11))
	fs.AddFile("S", pattern(5, 99))
	fs.AddFile("E", nil)
	fs.AddFile("w", nil)
	for i := 0; i < 12; i++ {
		fs.AddFile(fmt.Sprintf("many/entry-with-a-long-name-%02d", i), nil)
	}
	fs.AddFile("one/e", nil)
	fs.MkdirP("none")
	fs.AddNode("ll", 0o120777, nil, longLink)
	fs.AddNode("ls", 0o120777, nil, "t")
	fs.AddNode("le", 0o120777, nil, "")
	fs.AddFile("xa", nil).Xattrs["user.long"] = pattern(300, 42)
	fs.AddFile("xb", nil).Xattrs["user.short"] = pattern(5, 77)
	fs.AddFile("xc", nil).Xattrs["user.empty"] = []byte{}
	return fs
}

// Fids per connection: 1 root; 10 L(open RO) 11 S(open RO) 12 E(open RO);
// 13 w (open RW); 20 many (open) 21 one (open) 22 none (open); 30 ll 31 ls 32 le;
// 40 41 42 xattr fids (Txattrwalk) on a long, a short and an empty value.
func setup(s *sess.Sess, family string) {
	s.Version(8192)
	s.Attach(1)
	bind := func(fid uint32, name string, open int) {
		s.Walk(1, fid, name)
		if open >= 0 {
			s.Open(fid, uint32(open))
		}
	}
	switch family {
	case "read":
		bind(10, "L", 0)
		bind(11, "S", 0)
		bind(12, "E", 0)
	case "write":
		bind(13, "w", 2)
	case "readdir":
		bind(20, "many", 0)
		bind(21, "one", 0)
		bind(22, "none", 0)
	case "readlink":
		bind(30, "ll", -1)
		bind(31, "ls", -1)
		bind(32, "le", -1)
	case "xattrread":
		for i, fa := range [][2]string{{"xa", "user.long"}, {"xb", "user.short"}, {"xc", "user.empty"}} {
			bind(uint32(50+i), fa[0], -1)
			s.Do(rawpeer.Txattrwalk(0, uint32(50+i), uint32(40+i), fa[1]))
		}
	}
}

// A message of a family in one of three sizes, with the check of what must be
// observed for it.
type built struct {
	msg   refcodec.Msg
	check func(fs *memfs.FS, calls []*memfs.Call, reply refcodec.Msg) string
}

var sizes = []string{"long", "short", "empty"}

func build(family, size string, tag uint16, pos int) built {
	newfid := uint32(100 + pos)
	switch family {
	case "walk", "walkgetattr":
		names := map[string][]string{"long": {"d1", "d2", "d3"}, "short": {"d1"}, "empty": {}}[size]
		var m refcodec.Msg
		if family == "walk" {
			m = rawpeer.Twalk(tag, 1, newfid, names...)
		} else {
			m = rawpeer.Twalkgetattr(tag, 1, newfid, names...)
		}
		return built{m, func(fs *memfs.FS, calls []*memfs.Call, r refcodec.Msg) string {
			if r.Type == refcodec.Rlerror {
				return "answered " + r.String()
			}
			if n := len(r.Get("wqids").([]refcodec.QID)); n != len(names) {
				return fmt.Sprintf("%d qids for %d names", n, len(names))
			}
			var seen []string
			for _, c := range calls {
				if c.Method == "Walk" && len(c.Names) > 0 {
					seen = append(seen, c.Names...)
				}
			}
			if len(names) > 0 && strings.Join(seen, "/") != strings.Join(names, "/") {
				return fmt.Sprintf("backend walked %v for names %v", seen, names)
			}
			for _, c := range calls {
				if (c.Method == "Walk" || c.Method == "WalkGetAttr") && len(c.Names) > 1 {
					return fmt.Sprintf("backend %s got %d names", c.Method, len(c.Names))
				}
			}
			return ""
		}}
	case "write":
		data := map[string][]byte{"long": longData, "short": shortData, "empty": {}}[size]
		off := uint64(1000 * (pos + 1))
		return built{rawpeer.Twrite(tag, 13, off, data), func(fs *memfs.FS, calls []*memfs.Call, r refcodec.Msg) string {
			if r.Type == refcodec.Rlerror {
				return "answered " + r.String()
			}
			if r.U("count") != uint64(len(data)) {
				return fmt.Sprintf("Rwrite count %d for %d bytes", r.U("count"), len(data))
			}
			for _, c := range calls {
				if c.Method == "WriteAt" {
					got := c.Args[0].([]byte)
					if !bytes.Equal(got, data) || c.Args[1].(int64) != int64(off) {
						return fmt.Sprintf("backend WriteAt got %d bytes %q... at %d, sent %d bytes at %d", len(got), fw.Short(string(got), 24), c.Args[1], len(data), off)
					}
					return ""
				}
			}
			return "no WriteAt reached the backend"
		}}
	case "read":
		fid, count, content := uint32(10), uint32(200), pattern(300, 11)
		switch size {
		case "short":
			fid, count, content = 11, 4, pattern(5, 99)
		case "empty":
			fid, count, content = 12, 50, nil
		}
		return built{rawpeer.Tread(tag, fid, 0, count), func(fs *memfs.FS, calls []*memfs.Call, r refcodec.Msg) string {
			if r.Type == refcodec.Rlerror {
				return "answered " + r.String()
			}
			want := content
			if len(want) > int(count) {
				want = want[:count]
			}
			if got := r.Get("data").([]byte); !bytes.Equal(got, want) {
				return fmt.Sprintf("Rread carries %d bytes %x..., the backend produced %d bytes %x...", len(got), head(got), len(want), head(want))
			}
			return ""
		}}
	case "xattrread":
		// reads through an xattr fid: the SAME fid is read again whenever a
		// size repeats in the sequence, and the value must still be there
		fid, count, content := uint32(40), uint32(200), pattern(300, 42)
		switch size {
		case "short":
			fid, count, content = 41, 4, pattern(5, 77)
		case "empty":
			fid, count, content = 42, 50, nil
		}
		return built{rawpeer.Tread(tag, fid, 0, count), func(fs *memfs.FS, calls []*memfs.Call, r refcodec.Msg) string {
			if r.Type == refcodec.Rlerror {
				if size == "empty" {
					return "" // a read at the end of the value: error or empty reply (DESIGN §4.0, C04 bullet)
				}
				return "answered " + r.String()
			}
			want := content
			if len(want) > int(count) {
				want = want[:count]
			}
			if got := r.Get("data").([]byte); !bytes.Equal(got, want) {
				return fmt.Sprintf("Rread on the xattr fid carries %d bytes %x..., the attribute's value begins %d bytes %x...", len(got), head(got), len(want), head(want))
			}
			return ""
		}}
	case "readdir":
		fid, n := uint32(20), 12
		switch size {
		case "short":
			fid, n = 21, 1
		case "empty":
			fid, n = 22, 0
		}
		return built{rawpeer.Treaddir(tag, fid, 0, 4000), func(fs *memfs.FS, calls []*memfs.Call, r refcodec.Msg) string {
			if r.Type == refcodec.Rlerror {
				return "answered " + r.String()
			}
			es := r.Get("entries").([]refcodec.Dirent)
			if len(es) != n {
				return fmt.Sprintf("Rreaddir has %d entries, the directory has %d", len(es), n)
			}
			for i, e := range es {
				want := "e"
				if n == 12 {
					want = fmt.Sprintf("entry-with-a-long-name-%02d", i)
				}
				if e.Name != want {
					return fmt.Sprintf("entry %d is %q, want %q", i, e.Name, want)
				}
			}
			return ""
		}}
	case "readlink":
		fid, want := uint32(30), longLink
		switch size {
		case "short":
			fid, want = 31, "t"
		case "empty":
			fid, want = 32, ""
		}
		return built{rawpeer.Treadlink(tag, fid), func(fs *memfs.FS, calls []*memfs.Call, r refcodec.Msg) string {
			if r.Type == refcodec.Rlerror {
				return "answered " + r.String()
			}
			if r.S("target") != want {
				return fmt.Sprintf("Rreadlink target %q, want %q", fw.Short(r.S("target"), 30), fw.Short(want, 30))
			}
			return ""
		}}
	case "symlink":
		target := map[string]string{"long": longLink, "short": "t", "empty": ""}[size]
		name := fmt.Sprintf("new%d", pos)
		return built{rawpeer.Tsymlink(tag, 1, name, target), func(fs *memfs.FS, calls []*memfs.Call, r refcodec.Msg) string {
			for _, c := range calls {
				if c.Method == "Symlink" {
					if c.Args[0].(string) != target || c.Args[1].(string) != name {
						return fmt.Sprintf("backend Symlink(%q, %q), sent (%q, %q)", fw.Short(c.Args[0].(string), 30), c.Args[1], fw.Short(target, 30), name)
					}
					return ""
				}
			}
			return "no Symlink reached the backend: " + r.String()
		}}
	}
	panic(family)
}

func head(b []byte) []byte {
	if len(b) > 8 {
		return b[:8]
	}
	return b
}

type params struct {
	Family string   `json:"family"`
	Sizes  []string `json:"sizes"`
	Conns  []int    `json:"conns"`
}

func scenario(p params) *fw.Scenario {
	name := fmt.Sprintf("%s|%s|conns%v", p.Family, strings.Join(p.Sizes, ">"), p.Conns)
	return &fw.Scenario{Name: name, Params: p, New: func() (func(), func(*vsched.Execution) ([]fw.Issue, string)) {
		var problems []string
		body := func() {
			problems = nil
			// recycling is the subject: pools hand objects back (explored
			// choice) and the message cache is the real channel
			vsync.PoolRecycle = true
			vsched.FreshCaches = false
			defer func() { vsync.PoolRecycle = false; vsched.FreshCaches = true }()
			fs := mkfs()
			memfs.RecordSites = false
			srv := sess.NewServer(fs)
			ss := []*sess.Sess{sess.Connect(fs, srv, "c0"), nil}
			setup(ss[0], p.Family)
			two := false
			for _, c := range p.Conns {
				if c == 1 {
					two = true
				}
			}
			if two {
				ss[1] = sess.Connect(fs, srv, "c1")
				setup(ss[1], p.Family)
			}
			// Inside the window the data choices (which recycled object a Get
			// returns) are enumerated; threads follow the default schedule.
			vsched.BeginExplore()
			for i, sz := range p.Sizes {
				b := build(p.Family, sz, uint16(50+i), i+10*p.Conns[i])
				before := len(fs.Calls)
				r := ss[p.Conns[i]].Do(b.msg)
				if s := b.check(fs, fs.Calls[before:], r); s != "" {
					problems = append(problems, fmt.Sprintf("message %d (%s, %s) after %v: %s", i, p.Family, sz, p.Sizes[:i], s))
				}
			}
			vsched.EndExplore()
			for _, s := range ss {
				if s != nil {
					s.Hangup()
					s.WaitDone()
				}
			}
		}
		check := func(e *vsched.Execution) ([]fw.Issue, string) {
			var is []fw.Issue
			for _, pr := range problems {
				is = append(is, fw.Issue{Fingerprint: "carry-over|" + p.Family + "|" + generalize(pr[strings.Index(pr, ": ")+2:]), Summary: pr})
			}
			return is, fmt.Sprintf("problems=%d", len(problems))
		}
		return body, check
	}}
}

// overlapScenario: a first read (that ends at end of file, or not), then two
// reads IN FLIGHT TOGETHER on one connection, with pools recycling (default
// Get behaviour: most recently put) and all thread interleavings explored.
// Each reply must carry exactly the bytes the backend produced for it: a
// buffer handed to two requests at once shows as foreign or zeroed data.
func overlapScenario(first string, a, b string) *fw.Scenario {
	name := fmt.Sprintf("overlap|first=%s|%s||%s", first, a, b)
	return &fw.Scenario{Name: name, Params: map[string]string{"first": first, "a": a, "b": b}, New: func() (func(), func(*vsched.Execution) ([]fw.Issue, string)) {
		var problems []string
		body := func() {
			problems = nil
			vsync.PoolRecycle = true
			vsched.FreshCaches = false
			defer func() { vsync.PoolRecycle = false; vsched.FreshCaches = true }()
			fs := mkfs()
			memfs.RecordSites = false
			s := sess.Connect(fs, sess.NewServer(fs), "c0")
			setup(s, "read")
			if first == "panic" {
				// the first read's backend call panics: the request is answered
				// EFAULT and its objects go back to the pools from the
				// recovery path
				n := 0
				fs.Hook = func(c *memfs.Call) *memfs.Action {
					if c.Method == "ReadAt" {
						if n++; n == 1 {
							return &memfs.Action{Panic: "injected panic in ReadAt"}
						}
					}
					return nil
				}
				if r0 := s.Do(build("read", "long", 40, 0).msg); r0.Name() != "Rlerror" {
					problems = append(problems, "first read: answered "+r0.Name()+" although the backend panicked")
				}
			} else {
				f := build("read", first, 40, 0)
				r0 := s.Do(f.msg)
				if e := f.check(fs, nil, r0); e != "" {
					problems = append(problems, "first read: "+e)
				}
			}
			ba, bb := build("read", a, 41, 1), build("read", b, 42, 2)
			vsched.BeginExplore()
			s.Peer.SendAll(ba.msg, bb.msg)
			for i := 0; i < 2; i++ {
				r, err := s.Peer.Recv()
				if err != nil {
					problems = append(problems, "no reply: "+err.Error())
					break
				}
				x := ba
				if r.Tag == 42 {
					x = bb
				}
				if e := x.check(fs, nil, r); e != "" {
					problems = append(problems, fmt.Sprintf("read with tag %d in flight together with another read, after a %s first read: %s", r.Tag, first, e))
				}
			}
			vsched.EndExplore()
			s.Hangup()
			s.WaitDone()
		}
		return body, func(e *vsched.Execution) ([]fw.Issue, string) {
			var is []fw.Issue
			for _, pr := range problems {
				is = append(is, fw.Issue{Fingerprint: "carry-over|overlapping-reads|" + generalize(pr[strings.LastIndex(pr, ": ")+2:]), Summary: pr})
			}
			return is, fmt.Sprintf("problems=%d", len(problems))
		}
	}}
}

func generalize(s string) string {
	var sb strings.Builder
	inNum := false
	for _, r := range s {
		if r >= '0' && r <= '9' {
			if !inNum {
				sb.WriteByte('#')
			}
			inNum = true
			continue
		}
		inNum = false
		sb.WriteRune(r)
	}
	out := sb.String()
	if len(out) > 120 {
		out = out[:120]
	}
	return out
}

func run(ctx *fw.Ctx, rep *fw.Report) {
	rep.Rule = "for each family (Twalk names, Twalkgetattr names, Twrite payload, Tread data, Tread through an xattr fid (read again and again), Treaddir entries, Treadlink string, Tsymlink strings): ALL sequences of length 1..3 of same-type messages with each variable-size part in {long, short, empty} x every assignment of the messages to 2 connections of one server process (shared message cache and buffer pools); messages run in lock-step on the real server under the controlled scheduler with sync.Pool in recycling mode: which object a Pool.Get returns (most recent / oldest / fresh) is an explored data choice (<= 2 departures from 'most recent'), the message cache is the real channel; thread schedule: the default one (lock-step leaves no request-level concurrency); plus 12 scenarios 'one read (long/short/at end of file/answered EFAULT after a backend panic), then two reads in flight together' with all thread interleavings explored (DPOR) and pools recycling most-recent-first; oracle: direct expectation per message written from the request (names seen by the backend, payload bytes and offset, reply data == bytes the backend produced, entries, strings); plus the CLIENT side: for each of Readdir, Walk, WalkGetAttr, GetXattr, ListXattrs, Readlink, ReadAt of the real p9.Client, all sequences of 1..3 calls with results in {long, short, empty} x every assignment to two Clients of one process: every returned value equals what the backend holds and is still equal to the copy taken when it was returned after all later calls (no result aliases a recycled object)"
	rep.Assumptions = append(rep.Assumptions, "Pool.Get alternatives bounded to 2 deviations from most-recently-put", "lock-step (one message in flight)", "client-side decoding of single frames is covered by C01/C17; here only that results stay intact across later calls")
	// the client side first (free-running, small): results handed to callers stay what they were
	runRetain(ctx, rep)
	families := []string{"walk", "walkgetattr", "write", "read", "xattrread", "readdir", "readlink", "symlink"}
	var scs []*fw.Scenario
	for _, f := range families {
		for k := 1; k <= 3; k++ {
			n := 1
			for i := 0; i < k; i++ {
				n *= 3
			}
			for code := 0; code < n; code++ {
				var sz []string
				c := code
				for i := 0; i < k; i++ {
					sz = append(sz, sizes[c%3])
					c /= 3
				}
				for cm := 0; cm < 1<<uint(k-1); cm++ { // first message always on connection 0
					conns := []int{0}
					for i := 1; i < k; i++ {
						conns = append(conns, (cm>>uint(i-1))&1)
					}
					if ctx.Quick() && k == 3 && cm != 0 && cm != 1 && cm != 3 {
						continue
					}
					scs = append(scs, scenario(params{f, sz, conns}))
				}
			}
		}
	}
	rep.Info["scenarios_total"] = len(scs)
	// overlapping reads (thread interleavings explored, default pool behaviour)
	n0 := len(scs)
	for _, first := range append(append([]string{}, sizes...), "panic") {
		for _, pair := range [][2]string{{"long", "short"}, {"long", "long"}, {"short", "empty"}} {
			sc := overlapScenario(first, pair[0], pair[1])
			n0++
			if !ctx.Mine(n0) {
				continue
			}
			fw.RunScenario(ctx, rep, sc, fw.SchedOpts{Budget: 30 * time.Second, ForcePB: -1, Fallback: []int{0, 1}, Deviations: 0})
		}
	}
	for i, sc := range scs {
		if !ctx.Mine(i) {
			continue
		}
		if ctx.Expired() {
			rep.NotExhaustive("tier budget exhausted before scenario " + sc.Name)
			continue
		}
		fw.RunScenario(ctx, rep, sc, fw.SchedOpts{Budget: 20 * time.Second, ForcePB: -1, Fallback: []int{0}, Deviations: 2, DefaultSchedule: true, NoReplayCheck: i%5 != 0})
	}
}
