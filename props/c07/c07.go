// Package c07 checks the backend concurrency contract of the File interface
// (DESIGN.md §4 C07): every ordered pair of backend-reaching requests x path
// relation x {one, two connections}, all interleavings, with the conflict
// matrix evaluated over happens-before.
package c07

import (
	"fmt"
	"time"

	"verif/harness/fw"
	"verif/harness/memfs"
	"verif/harness/oracle"
	"verif/harness/rawpeer"
	"verif/harness/refcodec"
	"verif/harness/sess"
	"verif/rt/vrt"
	"verif/rt/vsched"
)

func init() {
	fw.Register(&fw.Prop{ID: "C07", Run: run, Sharded: true, QuickSecs: 150, ThoroughSecs: 1500})
}

// node kinds of the test tree.
const (
	nRoot = "/"
	nD    = "/d"
	nSub  = "/d/sub"
	nX    = "/d/x"
	nY    = "/d/y"
	nE    = "/e"
	nL    = "/s"
)

var nodeKind = map[string]string{nRoot: "dir", nD: "dir", nSub: "dir", nE: "dir", nX: "file", nY: "file", nL: "symlink"}

func mkfs() *memfs.FS {
	fs := memfs.New()
	fs.AddFile("d/x", []byte("hello world"))
	fs.AddFile("d/y", []byte("yyyy"))
	fs.MkdirP("d/sub")
	fs.AddFile("d/sub/k", []byte("k"))
	fs.MkdirP("e")
	fs.MkdirP("d/emp")
	fs.AddFile("f", []byte("0123456789"))
	fs.AddNode("s", 0o120777, nil, "f")
	return fs
}

// op is one backend-reaching request type.
type op struct {
	name string
	need string // dir | file | symlink | any | nonroot
	open int    // -1: fid must not be opened; 0 RO, 1 WO, 2 RW: open in setup
	mk   func(tag uint16, fid, newfid uint32, sfx string) refcodec.Msg
}

const (
	fidE = 90 // bound to /e (rename/link target directory)
	fidF = 91 // bound to /f (link target)
)

var ops = []op{
	{"walk", "dir", -1, func(t uint16, f, nf uint32, s string) refcodec.Msg { return rawpeer.Twalk(t, f, nf, "x") }},
	{"walkgetattr", "dir", -1, func(t uint16, f, nf uint32, s string) refcodec.Msg { return rawpeer.Twalkgetattr(t, f, nf, "x") }},
	{"walk-sub", "dir", -1, func(t uint16, f, nf uint32, s string) refcodec.Msg { return rawpeer.Twalk(t, f, nf, "sub") }},
	{"walk2", "dir", -1, func(t uint16, f, nf uint32, s string) refcodec.Msg { return rawpeer.Twalk(t, f, nf, "sub", "k") }},
	{"clone", "any", -1, func(t uint16, f, nf uint32, s string) refcodec.Msg { return rawpeer.Twalk(t, f, nf) }},
	{"lopen", "openable", -1, func(t uint16, f, nf uint32, s string) refcodec.Msg { return rawpeer.Tlopen(t, f, 0) }},
	{"lcreate", "dir", -1, func(t uint16, f, nf uint32, s string) refcodec.Msg { return rawpeer.Tlcreate(t, f, "cr"+s, 2) }},
	{"mkdir", "dir", -1, func(t uint16, f, nf uint32, s string) refcodec.Msg { return rawpeer.Tmkdir(t, f, "md"+s) }},
	{"symlink", "dir", -1, func(t uint16, f, nf uint32, s string) refcodec.Msg { return rawpeer.Tsymlink(t, f, "sl"+s, "tgt") }},
	{"link", "dir", -1, func(t uint16, f, nf uint32, s string) refcodec.Msg { return rawpeer.Tlink(t, f, fidF, "ln"+s) }},
	{"mknod", "dir", -1, func(t uint16, f, nf uint32, s string) refcodec.Msg { return rawpeer.Tmknod(t, f, "mn"+s, 0o10644) }},
	{"unlinkat", "dir", -1, func(t uint16, f, nf uint32, s string) refcodec.Msg { return rawpeer.Tunlinkat(t, f, "x") }},
	{"renameat", "dir", -1, func(t uint16, f, nf uint32, s string) refcodec.Msg { return rawpeer.Trenameat(t, f, "x", fidE, "rn"+s) }},
	{"renameat-same", "dir", -1, func(t uint16, f, nf uint32, s string) refcodec.Msg { return rawpeer.Trenameat(t, f, "x", f, "xs"+s) }},
	{"rename", "nonroot", -1, func(t uint16, f, nf uint32, s string) refcodec.Msg { return rawpeer.Trename(t, f, fidE, "rm"+s) }},
	{"remove", "nonroot", -1, func(t uint16, f, nf uint32, s string) refcodec.Msg { return rawpeer.Tremove(t, f) }},
	{"getattr", "any", -1, func(t uint16, f, nf uint32, s string) refcodec.Msg { return rawpeer.Tgetattr(t, f) }},
	{"setattr", "any", -1, func(t uint16, f, nf uint32, s string) refcodec.Msg { return rawpeer.Tsetattr(t, f, 1, 0o600, 0) }},
	{"read", "file", 2, func(t uint16, f, nf uint32, s string) refcodec.Msg { return rawpeer.Tread(t, f, 0, 4) }},
	{"write", "file", 2, func(t uint16, f, nf uint32, s string) refcodec.Msg { return rawpeer.Twrite(t, f, 1, []byte("zz")) }},
	{"fsync", "file", 2, func(t uint16, f, nf uint32, s string) refcodec.Msg { return rawpeer.Tfsync(t, f) }},
	{"readdir", "dir", 0, func(t uint16, f, nf uint32, s string) refcodec.Msg { return rawpeer.Treaddir(t, f, 0, 4000) }},
	{"readlink", "symlink", -1, func(t uint16, f, nf uint32, s string) refcodec.Msg { return rawpeer.Treadlink(t, f) }},
	{"statfs", "any", -1, func(t uint16, f, nf uint32, s string) refcodec.Msg { return rawpeer.Tstatfs(t, f) }},
	{"lock", "any", -1, func(t uint16, f, nf uint32, s string) refcodec.Msg { return rawpeer.Tlock(t, f) }},
	{"xattrwalk", "any", -1, func(t uint16, f, nf uint32, s string) refcodec.Msg { return rawpeer.Txattrwalk(t, f, nf, "") }},
	{"clunk", "any", -1, func(t uint16, f, nf uint32, s string) refcodec.Msg { return rawpeer.Tclunk(t, f) }},
	{"attach", "root", -1, func(t uint16, f, nf uint32, s string) refcodec.Msg { return rawpeer.Tattach(t, nf, "") }},
}

func applicable(o op, node string) bool {
	k := nodeKind[node]
	switch o.need {
	case "any":
		return true
	case "nonroot":
		return node != nRoot
	case "root":
		return node == nRoot
	case "openable":
		return k == "dir" || k == "file"
	}
	return o.need == k
}

type rel struct {
	name  string
	pairs [][2]string
	same  bool // one fid for both
}

var rels = []rel{
	{"samefid", [][2]string{{nD, nD}, {nX, nX}, {nL, nL}, {nRoot, nRoot}}, true},
	{"samepath", [][2]string{{nD, nD}, {nX, nX}, {nL, nL}, {nRoot, nRoot}}, false},
	{"parent-child", [][2]string{{nD, nX}, {nD, nSub}, {nRoot, nD}, {nRoot, nL}}, false},
	{"child-parent", [][2]string{{nX, nD}, {nSub, nD}, {nD, nRoot}, {nL, nRoot}}, false},
	{"siblings", [][2]string{{nX, nY}, {nSub, nX}, {nX, nSub}, {nD, nE}, {nD, nL}, {nL, nD}}, false},
}

type params struct {
	A, B     string
	Rel      string
	NodeA    string
	NodeB    string
	TwoConns bool
}

func split(p string) []string {
	var out []string
	cur := ""
	for _, r := range p {
		if r == '/' {
			if cur != "" {
				out = append(out, cur)
			}
			cur = ""
			continue
		}
		cur += string(r)
	}
	if cur != "" {
		out = append(out, cur)
	}
	return out
}

func bind(s *sess.Sess, fid uint32, node string, open int) {
	s.Walk(1, fid, split(node)...)
	if open >= 0 {
		s.Open(fid, uint32(open))
	}
}

func scenario(p params, oa, ob op, same bool) *fw.Scenario {
	name := fmt.Sprintf("%s@%s||%s@%s|%s", p.A, p.NodeA, p.B, p.NodeB, p.Rel)
	if p.TwoConns {
		name += "|2conns"
	}
	return &fw.Scenario{Name: name, Params: p, RaceOK: true, New: func() (func(), func(*vsched.Execution) ([]fw.Issue, string)) {
		var fs *memfs.FS
		base := 0
		var replies [2]refcodec.Msg
		body := func() {
			fs = mkfs()
			memfs.RecordSites = true
			srv := sess.NewServer(fs)
			s1 := sess.Connect(fs, srv, "c1")
			s1.Version(8192)
			s1.Attach(1)
			s2 := s1
			if p.TwoConns {
				s2 = sess.Connect(fs, srv, "c2")
				s2.Version(8192)
				s2.Attach(1)
			}
			for _, s := range []*sess.Sess{s1, s2} {
				bind(s, fidE, nE, -1)
				bind(s, fidF, "/f", -1)
				if s1 == s2 {
					break
				}
			}
			fa, fb := uint32(10), uint32(11)
			openA, openB := oa.open, ob.open
			if same && !p.TwoConns {
				fb = fa
				if openB > openA {
					openA = openB
				}
				bind(s1, fa, p.NodeA, openA)
			} else {
				bind(s1, fa, p.NodeA, openA)
				bind(s2, fb, p.NodeB, openB)
			}
			A := oa.mk(100, fa, 20, "A")
			B := ob.mk(101, fb, 21, "B")
			base = len(fs.Calls)
			vsched.BeginExplore()
			if s1 == s2 {
				s1.Peer.SendAll(A, B)
				replies[0], _ = s1.Peer.Recv()
				replies[1], _ = s1.Peer.Recv()
			} else {
				s1.Peer.Send(A)
				s2.Peer.Send(B)
				replies[0], _ = s1.Peer.Recv()
				replies[1], _ = s2.Peer.Recv()
			}
			vsched.EndExplore()
			s1.Hangup()
			s1.WaitDone()
			if s2 != s1 {
				s2.Hangup()
				s2.WaitDone()
			}
		}
		check := func(e *vsched.Execution) ([]fw.Issue, string) {
			is := oracle.ContractIssues(fs, base)
			for _, pr := range fs.Problems {
				if pr.Kind == "double-open" {
					is = append(is, fw.Issue{Fingerprint: "open-twice", Summary: "Open was invoked more than once on a File: " + pr.Detail})
				}
			}
			// vacuity: did two backend calls of different threads overlap legally?
			overlap := 0
			for i := base; i < len(fs.Calls); i++ {
				for j := i + 1; j < len(fs.Calls); j++ {
					a, b := fs.Calls[i], fs.Calls[j]
					if a.Thread != b.Thread && a.Enter.Thread >= 0 && b.Enter.Thread >= 0 && a.Method != "Close" && b.Method != "Close" &&
						!(a.Done && vsched.HB(&a.Exit, &b.Enter)) && !(b.Done && vsched.HB(&b.Exit, &a.Enter)) {
						overlap = 1
					}
				}
			}
			return is, fmt.Sprintf("%s/%d %s/%d calls=%d unordered=%d", replies[0].Name(), rawpeer.Errno(replies[0]), replies[1].Name(), rawpeer.Errno(replies[1]), len(fs.Calls)-base, overlap)
		}
		return body, check
	}}
}

// firstWalkScenario: TWO ROUNDS inside one explored window. Round 1: two walks
// in flight together from a directory to a name that has never been walked to
// (so both create its place in the server's path tree). Round 2: a request
// through each of the two new fids, in flight together. The two fids name one
// path, so the conflict matrix applies to round 2 whatever happened in round 1.
func firstWalkScenario(first, name string, oa, ob op, two bool) *fw.Scenario {
	nm := fmt.Sprintf("firstwalks:%s(%s) then %s||%s", first, name, oa.name, ob.name)
	if two {
		nm += "|2conns"
	}
	return &fw.Scenario{Name: nm, Params: map[string]any{"first": first, "name": name, "A": oa.name, "B": ob.name, "two": two}, RaceOK: true, New: func() (func(), func(*vsched.Execution) ([]fw.Issue, string)) {
		var fs *memfs.FS
		base := 0
		var replies [4]refcodec.Msg
		body := func() {
			fs = mkfs()
			memfs.RecordSites = true
			srv := sess.NewServer(fs)
			s1 := sess.Connect(fs, srv, "c1")
			s1.Version(8192)
			s1.Attach(1)
			s2 := s1
			if two {
				s2 = sess.Connect(fs, srv, "c2")
				s2.Version(8192)
				s2.Attach(1)
			}
			bind(s1, 9, nD, -1)
			if two {
				bind(s2, 9, nD, -1)
			}
			mkw := func(tag uint16, nf uint32) refcodec.Msg {
				if first == "walkgetattr" {
					return rawpeer.Twalkgetattr(tag, 9, nf, name)
				}
				return rawpeer.Twalk(tag, 9, nf, name)
			}
			base = len(fs.Calls)
			vsched.BeginExplore()
			round := func(i int, A, B refcodec.Msg) {
				if s1 == s2 {
					s1.Peer.SendAll(A, B)
					replies[i], _ = s1.Peer.Recv()
					replies[i+1], _ = s1.Peer.Recv()
				} else {
					s1.Peer.Send(A)
					s2.Peer.Send(B)
					replies[i], _ = s1.Peer.Recv()
					replies[i+1], _ = s2.Peer.Recv()
				}
			}
			round(0, mkw(100, 10), mkw(101, 11))
			round(2, oa.mk(102, 10, 20, "A"), ob.mk(103, 11, 21, "B"))
			vsched.EndExplore()
			s1.Hangup()
			s1.WaitDone()
			if s2 != s1 {
				s2.Hangup()
				s2.WaitDone()
			}
		}
		check := func(e *vsched.Execution) ([]fw.Issue, string) {
			is := oracle.ContractIssues(fs, base)
			out := ""
			for _, r := range replies {
				out += fmt.Sprintf("%s/%d ", r.Name(), rawpeer.Errno(r))
			}
			return is, out + fmt.Sprintf("calls=%d", len(fs.Calls)-base)
		}
		return body, check
	}}
}

// emptiedScenario: the set of fids on a name is EMPTIED AND REFILLED while a
// walk to that name is still in flight. fid 10 is the only fid on d/<name>.
// In the window a walk 9->11 to the name and the clunk of fid 10 are sent
// together; after the Rclunk a second walk 9->12 is made, and after its reply
// ob runs through fid 12 - all while the first walk may be anywhere inside the
// server (the GetAttr it makes on its new File is a read-class call on the
// very path ob works on). Whatever the server does with the path's place in
// its tree when the last fid goes, the conflict matrix applies.
func emptiedScenario(first, name string, ob op, two bool) *fw.Scenario {
	nm := fmt.Sprintf("emptied:%s(%s)||clunk-last-fid then walk+%s", first, name, ob.name)
	if two {
		nm += "|2conns"
	}
	return &fw.Scenario{Name: nm, Params: map[string]any{"first": first, "name": name, "B": ob.name, "two": two}, RaceOK: true, New: func() (func(), func(*vsched.Execution) ([]fw.Issue, string)) {
		var fs *memfs.FS
		base := 0
		replies := map[uint16]refcodec.Msg{}
		body := func() {
			fs = mkfs()
			memfs.RecordSites = true
			replies = map[uint16]refcodec.Msg{}
			srv := sess.NewServer(fs)
			s1 := sess.Connect(fs, srv, "c1")
			s1.Version(8192)
			s1.Attach(1)
			s2 := s1
			if two {
				s2 = sess.Connect(fs, srv, "c2")
				s2.Version(8192)
				s2.Attach(1)
			}
			bind(s1, 9, nD, -1)
			if two {
				bind(s2, 9, nD, -1)
			}
			s2.Peer.Must(rawpeer.Twalk(50, 9, 10, name))
			w1 := rawpeer.Twalk(100, 9, 11, name)
			if first == "walkgetattr" {
				w1 = rawpeer.Twalkgetattr(100, 9, 11, name)
			}
			base = len(fs.Calls)
			vsched.BeginExplore()
			// wait for the reply with the given tag on s2, keeping others
			await := func(tag uint16) {
				for {
					if _, ok := replies[tag]; ok {
						return
					}
					r, err := s2.Peer.Recv()
					if err != nil {
						return
					}
					replies[r.Tag] = r
				}
			}
			s1.Peer.Send(w1)
			s2.Peer.Send(rawpeer.Tclunk(101, 10))
			await(101)
			s2.Peer.Send(rawpeer.Twalk(102, 9, 12, name))
			await(102)
			s2.Peer.Send(ob.mk(103, 12, 21, "B"))
			await(103)
			if s1 == s2 {
				await(100)
			} else if r, err := s1.Peer.Recv(); err == nil {
				replies[r.Tag] = r
			}
			vsched.EndExplore()
			s1.Hangup()
			s1.WaitDone()
			if s2 != s1 {
				s2.Hangup()
				s2.WaitDone()
			}
		}
		check := func(e *vsched.Execution) ([]fw.Issue, string) {
			is := oracle.ContractIssues(fs, base)
			out := ""
			for _, t := range []uint16{100, 101, 102, 103} {
				r := replies[t]
				out += fmt.Sprintf("%s/%d ", r.Name(), rawpeer.Errno(r))
			}
			return is, out + fmt.Sprintf("calls=%d", len(fs.Calls)-base)
		}
		return body, check
	}}
}

// afterRenameScenario: fid 10 is walked to an entry, the entry is renamed
// (lock-step, before the window), fid 11 is walked to it under its new name;
// then a conflicting pair through the two fids is in flight together. Both
// fids name one path.
func afterRenameScenario(how, name string, oa, ob op) *fw.Scenario {
	nm := fmt.Sprintf("afterrename:%s(%s) then %s||%s", how, name, oa.name, ob.name)
	return &fw.Scenario{Name: nm, Params: map[string]any{"how": how, "name": name, "A": oa.name, "B": ob.name}, RaceOK: true, New: func() (func(), func(*vsched.Execution) ([]fw.Issue, string)) {
		var fs *memfs.FS
		base := 0
		var replies [2]refcodec.Msg
		body := func() {
			fs = mkfs()
			memfs.RecordSites = true
			srv := sess.NewServer(fs)
			s1 := sess.Connect(fs, srv, "c1")
			s1.Version(8192)
			s1.Attach(1)
			bind(s1, 9, nD, -1)
			bind(s1, fidE, nE, -1)
			s1.Walk(9, 10, name)
			switch how {
			case "renameat":
				s1.OK(rawpeer.Trenameat(50, 9, name, 9, name+"2"))
				s1.Walk(9, 11, name+"2")
			case "rename":
				s1.OK(rawpeer.Trename(50, 10, 9, name+"2"))
				s1.Walk(9, 11, name+"2")
			case "renameat-away-and-back":
				s1.OK(rawpeer.Trenameat(50, 9, name, fidE, name))
				s1.OK(rawpeer.Trenameat(51, fidE, name, 9, name))
				s1.Walk(9, 11, name)
			}
			base = len(fs.Calls)
			vsched.BeginExplore()
			s1.Peer.SendAll(oa.mk(100, 10, 20, "A"), ob.mk(101, 11, 21, "B"))
			replies[0], _ = s1.Peer.Recv()
			replies[1], _ = s1.Peer.Recv()
			vsched.EndExplore()
			s1.Hangup()
			s1.WaitDone()
		}
		check := func(e *vsched.Execution) ([]fw.Issue, string) {
			is := oracle.ContractIssues(fs, base)
			return is, fmt.Sprintf("%s/%d %s/%d calls=%d", replies[0].Name(), rawpeer.Errno(replies[0]), replies[1].Name(), rawpeer.Errno(replies[1]), len(fs.Calls)-base)
		}
		return body, check
	}}
}

// fenceScenario: a request that removes or overwrites an entry, in flight
// together with a path-dependent request through a fid on that entry.
func fenceScenario(kill string, victim string, ob op) *fw.Scenario {
	nm := fmt.Sprintf("fence:%s || %s@%s", kill, ob.name, victim)
	return &fw.Scenario{Name: nm, Params: map[string]any{"kill": kill, "victim": victim, "B": ob.name}, RaceOK: true, New: func() (func(), func(*vsched.Execution) ([]fw.Issue, string)) {
		var fs *memfs.FS
		base := 0
		var replies [2]refcodec.Msg
		body := func() {
			fs = mkfs()
			memfs.RecordSites = true
			srv := sess.NewServer(fs)
			s1 := sess.Connect(fs, srv, "c1")
			s1.Version(8192)
			s1.Attach(1)
			bind(s1, 9, nD, -1)
			bind(s1, fidE, nE, -1)
			bind(s1, fidF, "/f", -1)
			bind(s1, 11, victim, -1)
			var A refcodec.Msg
			switch kill {
			case "rmdir-emp":
				A = rawpeer.Tunlinkat(100, 9, "emp")
			case "unlink-y":
				A = rawpeer.Tunlinkat(100, 9, "y")
			case "rename-x-over-y":
				A = rawpeer.Trenameat(100, 9, "x", 9, "y")
			case "rename-sub-over-emp":
				A = rawpeer.Trenameat(100, 9, "sub", 9, "emp")
			}
			base = len(fs.Calls)
			vsched.BeginExplore()
			s1.Peer.SendAll(A, ob.mk(101, 11, 21, "B"))
			replies[0], _ = s1.Peer.Recv()
			replies[1], _ = s1.Peer.Recv()
			vsched.EndExplore()
			s1.Hangup()
			s1.WaitDone()
		}
		check := func(e *vsched.Execution) ([]fw.Issue, string) {
			is := append(oracle.ContractIssues(fs, base), oracle.FenceIssues(fs, base)...)
			return is, fmt.Sprintf("%s/%d %s/%d calls=%d", replies[0].Name(), rawpeer.Errno(replies[0]), replies[1].Name(), rawpeer.Errno(replies[1]), len(fs.Calls)-base)
		}
		return body, check
	}}
}

func opNamed(n string) op {
	for _, o := range ops {
		if o.name == n {
			return o
		}
	}
	panic(n)
}

func run(ctx *fw.Ctx, rep *fw.Report) {
	// Races are C16's matter (every scenario here is RaceOK): skip the
	// race bookkeeping on the quietly recorded fields.
	vrt.QuietRecording = false
	rep.Rule = "scenario = ordered pair (A,B) of the 28 backend-reaching request types x path relation {same fid, two fids one path, parent/child, child/parent, siblings} x {one, two connections}, two requests in flight on the real server over memfs; all Mazurkiewicz traces (DPOR+sleep sets; fallback preemption bound 0,1); oracle: conflict matrix of the File interface comments over happens-before of backend enter/exit events (not physical overlap), plus Open count per handle; plus 28 fencing scenarios (an unlink / overwriting rename in flight together with a path-dependent request through a fid on the victim: no such backend call may start after the removing call returned), plus 12 scenarios with a fid from before and a fid from after a rename of the entry, plus 16 two-round scenarios (two FIRST walks to one fresh name in flight together, then a conflicting pair through the two new fids), plus 12 scenarios in which the last fid on a name is clunked while a walk to that name is in flight and the name is then walked to again and written through; distinct = distinct (replies, call count, unordered-pair flag) per scenario"
	rep.Assumptions = append(rep.Assumptions, "independence classes of DESIGN §2.2", "conflict matrix transcribed from p9/file.go comments; 'none' class (StatFS, Lock, Close) and xattr methods never flagged", "setup before the explored window follows the default schedule and settles")
	type sc struct {
		p      params
		oa, ob op
		same   bool
	}
	var all []sc
	for _, r := range rels {
		for _, oa := range ops {
			for _, ob := range ops {
				for _, np := range r.pairs {
					if !applicable(oa, np[0]) || !applicable(ob, np[1]) {
						continue
					}
					for _, two := range []bool{false, true} {
						if r.same && two {
							continue
						}
						all = append(all, sc{params{oa.name, ob.name, r.name, np[0], np[1], two}, oa, ob, r.same})
					}
					break // first applicable node pair
				}
			}
		}
	}
	rep.Info["scenarios_total"] = len(all)
	budget := 8 * time.Second
	if !ctx.Quick() {
		budget = 3 * time.Minute
	}
	// two-round scenarios: racing FIRST walks to a name, then a conflicting pair
	// through the two fids they produced.
	k := len(all)
	for _, first := range []string{"walk", "walkgetattr"} {
		for _, tgt := range []struct {
			name string
			prs  [][2]string
		}{{"y", [][2]string{{"setattr", "getattr"}, {"setattr", "setattr"}}}, {"sub", [][2]string{{"mkdir", "getattr"}, {"setattr", "walk"}}}} {
			for _, pr := range tgt.prs {
				for _, two := range []bool{false, true} {
					k++
					if !ctx.Mine(k) {
						continue
					}
					if ctx.Quick() && first == "walkgetattr" && two {
						rep.Count("scenarios_left_to_thorough", 1)
						continue
					}
					fw.RunScenario(ctx, rep, firstWalkScenario(first, tgt.name, opNamed(pr[0]), opNamed(pr[1]), two), fw.SchedOpts{Budget: budget, ForcePB: -1, Fallback: []int{0, 1}, Deviations: -1,
						// one connection: the unbounded search does not finish in the quick budget (>6e4 executions); go straight to preemption bounds 0 and 1 there
						SkipDPOR: ctx.Quick() && !two})
				}
			}
		}
	}
	// a name emptied of fids and refilled while a walk to it is in flight
	for _, first := range []string{"walk", "walkgetattr"} {
		for _, tgt := range []struct {
			name string
			ops  []string
		}{{"x", []string{"setattr"}}, {"sub", []string{"mkdir", "setattr"}}} {
			for _, on := range tgt.ops {
				for _, two := range []bool{false, true} {
					k++
					if !ctx.Mine(k) {
						continue
					}
					if ctx.Quick() && first == "walkgetattr" && two {
						rep.Count("scenarios_left_to_thorough", 1)
						continue
					}
					fw.RunScenario(ctx, rep, emptiedScenario(first, tgt.name, opNamed(on), two), fw.SchedOpts{Budget: budget, ForcePB: -1, Fallback: []int{0, 1, 2}, Deviations: -1})
				}
			}
		}
	}
	// fencing under concurrency (C08's "once unlinked ... without reaching the backend")
	for _, f := range []struct {
		kill, victim string
		ops          []string
	}{
		{"rmdir-emp", "/d/emp", []string{"walk", "walkgetattr", "walk2", "lcreate", "mkdir", "symlink", "link", "mknod", "unlinkat", "renameat", "lopen", "setattr", "rename", "remove", "xattrwalk"}},
		{"rename-sub-over-emp", "/d/emp", []string{"walk", "mkdir", "lcreate", "setattr"}},
		{"unlink-y", nY, []string{"lopen", "setattr", "rename", "remove", "xattrwalk"}},
		{"rename-x-over-y", nY, []string{"lopen", "setattr", "rename", "remove"}},
	} {
		for _, on := range f.ops {
			k++
			if !ctx.Mine(k) {
				continue
			}
			fw.RunScenario(ctx, rep, fenceScenario(f.kill, f.victim, opNamed(on)), fw.SchedOpts{Budget: budget, ForcePB: -1, Fallback: []int{0, 1}, Deviations: -1})
		}
	}
	// a conflicting pair through a fid from before a rename and one from after it
	for _, how := range []string{"renameat", "rename", "renameat-away-and-back"} {
		for _, tgt := range []struct {
			name string
			prs  [][2]string
		}{{"x", [][2]string{{"setattr", "getattr"}, {"getattr", "setattr"}}}, {"sub", [][2]string{{"mkdir", "getattr"}, {"walk", "setattr"}}}} {
			for _, pr := range tgt.prs {
				k++
				if !ctx.Mine(k) {
					continue
				}
				fw.RunScenario(ctx, rep, afterRenameScenario(how, tgt.name, opNamed(pr[0]), opNamed(pr[1])), fw.SchedOpts{Budget: budget, ForcePB: -1, Fallback: []int{0, 1}, Deviations: -1})
			}
		}
	}
	for i, s := range all {
		if !ctx.Mine(i) {
			continue
		}
		if ctx.Quick() && ((s.p.TwoConns && (s.p.Rel == "siblings" || s.p.Rel == "child-parent")) ||
			// quick: walk2 subsumes walk-sub's first step; the two-connection variants of the extra walk kinds are left to thorough
			s.p.A == "walk-sub" || s.p.B == "walk-sub" || (s.p.TwoConns && (s.p.A == "walk2" || s.p.B == "walk2" || s.p.A == "renameat-same" || s.p.B == "renameat-same"))) {
			rep.Count("scenarios_left_to_thorough", 1)
			continue
		}
		if ctx.Expired() {
			rep.NotExhaustive("tier budget exhausted before scenario " + fmt.Sprint(s.p))
			continue
		}
		fw.RunScenario(ctx, rep, scenario(s.p, s.oa, s.ob, s.same), fw.SchedOpts{Budget: budget, ForcePB: -1, Fallback: []int{0, 1}, Deviations: -1})
	}
}
