// Package c11 checks chunked I/O: ReadAt/WriteAt of any size on a client File
// behave as one operation on the remote file (DESIGN.md §4 C11).
//
// A complete grid of (payload size, buffer length, file size, offset, backend
// behaviour) is run through the REAL p9.Client talking to the REAL p9.Server
// over a vpipe, with a memfs file as backend. The oracle is a byte-slice model
// of the file plus the chunk rules of the property text, evaluated on what the
// backend saw (memfs call log), what travelled on the wire (refcodec-decoded
// client stream) and what the caller got back.
package c11

import (
	"bytes"
	"encoding/json"
	"errors"
	"fmt"
	"io"
	"sort"
	"syscall"

	"github.com/hugelgupf/p9/linux"
	"github.com/hugelgupf/p9/p9"
	"verif/harness/fw"
	"verif/harness/memfs"
	"verif/harness/refcodec"
	"verif/harness/sess"
)

func init() {
	fw.Register(&fw.Prop{ID: "C11", Level: "model_checking", Run: run, Sharded: true, QuickSecs: 70, ThoroughSecs: 840})
}

// ---------------------------------------------------------------------------
// Case description.

type behaviour struct {
	Kind   string `json:"kind"`                  // full | full-eof (the backend returns the last bytes of the file together with io.EOF) | short | err
	Chunk  int    `json:"chunk,omitempty"`       // 0-based index of the backend call it applies to
	By     string `json:"short_by,omitempty"`    // 1 | P-1 | all
	Target int    `json:"short_count,omitempty"` // count the backend returns at that chunk
	Errno  string `json:"errno,omitempty"`       // linux | syscall
}

type kase struct {
	P      uint32    `json:"payload_requested"` // client message size - largest fixed size
	Op     string    `json:"op"`                // read | write
	BufLen int       `json:"buflen"`
	FSize  int       `json:"fsize"`
	Base   int64     `json:"file_base"` // 0: ordinary file; >0: the file's bytes live at [Base, Base+FSize)
	Off    int64     `json:"offset"`
	Beh    behaviour `json:"behaviour"`
}

const (
	far1 = int64(1)<<32 + 5
	far2 = int64(1) << 40

	readErrno  = linux.ENXIO  // injected into ReadAt ("linux" flavour)
	writeErrno = linux.ENOSPC // injected into WriteAt ("linux" flavour)
	sysErrno   = syscall.EDQUOT
	sentinel   = 0xEE
)

func fileByte(i int) byte  { return 0x40 + byte(i%47) }
func writeByte(i int) byte { return 0x80 + byte(i%61) }

func filePattern(n int) []byte {
	b := make([]byte, n)
	for i := range b {
		b[i] = fileByte(i)
	}
	return b
}

// ---------------------------------------------------------------------------
// One client/server session per payload size, reused for all cases with that
// payload size (file content, logs and the hook state are reset per case).

type caseState struct {
	k       kase
	ncalls  int
	vfile   []byte
	limit   int // runaway guard
	runaway bool
}

type session struct {
	p     uint32
	msize uint32
	fs    *memfs.FS
	ino   *memfs.Inode
	s     *sess.Sess
	cl    *p9.Client
	root  p9.File
	f     p9.File
	cur   *caseState
}

func injectedErr(k kase) error {
	if k.Beh.Errno == "syscall" {
		return sysErrno
	}
	if k.Op == "read" {
		return readErrno
	}
	return writeErrno
}

func wantErrno(k kase) linux.Errno {
	if k.Beh.Errno == "syscall" {
		return linux.Errno(sysErrno)
	}
	if k.Op == "read" {
		return readErrno
	}
	return writeErrno
}

// loweredP is a payload size that is reached by NEGOTIATION: the client asks
// for 8 MiB, the real server grants 4 MiB, and the payload the client must
// then use is (4 MiB - largestFixedSize) rounded down to 512.
func loweredP() uint32 {
	p := uint32(4<<20) - p9.VerifLargestFixedSize()
	return p - p%512
}

func newSession(P uint32) (*session, error) {
	se := &session{p: P, msize: p9.VerifLargestFixedSize() + P}
	request := se.msize
	if P == loweredP() {
		request = 8 << 20
		se.msize = 4 << 20 // what the server announces
	}
	se.fs = memfs.New()
	se.ino = se.fs.AddFile("f", nil)
	se.fs.Hook = se.hook
	se.s = sess.Connect(se.fs, sess.NewServer(se.fs), "c11")
	cl, err := p9.NewClient(se.s.CC, p9.WithMessageSize(request))
	if err != nil {
		se.s.Hangup()
		se.s.WaitDone()
		return nil, fmt.Errorf("NewClient(msize %d): %v", se.msize, err)
	}
	se.cl = cl
	if se.root, err = cl.Attach(""); err != nil {
		se.close()
		return nil, fmt.Errorf("Attach: %v", err)
	}
	if _, se.f, err = se.root.Walk([]string{"f"}); err != nil {
		se.close()
		return nil, fmt.Errorf("Walk: %v", err)
	}
	if _, _, err = se.f.Open(p9.ReadWrite); err != nil {
		se.close()
		return nil, fmt.Errorf("Open: %v", err)
	}
	return se, nil
}

func (se *session) close() {
	se.cur = nil
	if se.f != nil {
		se.f.Close()
	}
	if se.root != nil {
		se.root.Close()
	}
	if se.cl != nil {
		se.cl.Close()
	} else {
		se.s.Hangup()
	}
	se.s.WaitDone()
}

// hook implements the backend behaviour of the current case.
func (se *session) hook(c *memfs.Call) *memfs.Action {
	st := se.cur
	if st == nil || (c.Method != "ReadAt" && c.Method != "WriteAt") {
		return nil
	}
	idx := st.ncalls
	st.ncalls++
	if st.ncalls > st.limit {
		st.runaway = true
		return &memfs.Action{Err: linux.EDEADLK}
	}
	k := st.k
	inject := k.Beh.Kind != "full" && k.Beh.Kind != "full-eof" && idx == k.Beh.Chunk
	if inject && k.Beh.Kind == "err" {
		return &memfs.Action{Err: injectedErr(k)}
	}
	if c.Method == "ReadAt" && k.Base != 0 {
		// The file's content lives far away; serve it from the model.
		l, off := c.Args[0].(int), c.Args[1].(int64)
		rel := off - k.Base
		if rel < 0 || rel >= int64(len(st.vfile)) {
			return &memfs.Action{Err: io.EOF}
		}
		n := len(st.vfile) - int(rel)
		if l < n {
			n = l
		}
		if inject && k.Beh.Target < n {
			n = k.Beh.Target
		}
		d := make([]byte, n) // non-nil even if empty
		copy(d, st.vfile[rel:])
		return &memfs.Action{Override: &memfs.Override{Data: d, EOF: k.Beh.Kind == "full-eof" && int(rel)+n >= len(st.vfile)}}
	}
	if k.Beh.Kind == "full-eof" {
		if c.Method == "ReadAt" {
			return &memfs.Action{Override: &memfs.Override{EOF: true}}
		}
		return nil
	}
	if inject {
		t := k.Beh.Target
		return &memfs.Action{Override: &memfs.Override{N: &t}}
	}
	return nil
}

// bcall is one ReadAt/WriteAt seen by the backend.
type bcall struct {
	L    int    // requested length
	Off  int64  // offset argument
	Data []byte // WriteAt only
	K    int    // count returned by the backend
	Err  error  // error returned by the backend (io.EOF at end of file, or injected)
}

type outcome struct {
	n       int
	err     error
	buf     []byte // the caller's buffer after the call
	calls   []bcall
	others  int // backend calls of other methods during the case
	wire    []refcodec.Msg
	wireSz  []int
	wireBad []string
	near    []byte // memfs content after the case (Base == 0 only)
	runaway bool
}

func (se *session) exec(k kase) *outcome {
	// Reset everything a previous case may have left behind.
	if k.Base == 0 {
		se.ino.Data = filePattern(k.FSize)
	} else {
		se.ino.Data = nil
	}
	se.fs.Calls = se.fs.Calls[:0]
	se.fs.Problems = nil
	se.s.CC.W.Written, se.s.CC.R.Written = se.s.CC.W.Written[:0], se.s.CC.R.Written[:0]
	se.s.CC.W.Writes, se.s.CC.R.Writes = se.s.CC.W.Writes[:0], se.s.CC.R.Writes[:0]
	st := &caseState{k: k, limit: 4*(k.BufLen+2) + 8}
	if k.Base != 0 {
		st.vfile = filePattern(k.FSize)
	}
	se.cur = st

	o := &outcome{buf: make([]byte, k.BufLen)}
	if k.Op == "read" {
		for i := range o.buf {
			o.buf[i] = sentinel
		}
		o.n, o.err = se.f.ReadAt(o.buf, k.Off)
	} else {
		for i := range o.buf {
			o.buf[i] = writeByte(i)
		}
		o.n, o.err = se.f.WriteAt(o.buf, k.Off)
	}
	se.cur = nil
	o.runaway = st.runaway

	for _, c := range se.fs.Calls {
		var bc bcall
		switch c.Method {
		case "ReadAt":
			bc.L, bc.Off = c.Args[0].(int), c.Args[1].(int64)
		case "WriteAt":
			bc.Data, bc.Off = c.Args[0].([]byte), c.Args[1].(int64)
			bc.L = len(bc.Data)
		default:
			o.others++
			continue
		}
		if len(c.Result) > 0 {
			bc.K = c.Result[0].(int)
		}
		bc.Err = c.Err
		o.calls = append(o.calls, bc)
	}
	frames, rest := refcodec.Frames(se.s.CC.W.Written)
	if len(rest) != 0 {
		o.wireBad = append(o.wireBad, fmt.Sprintf("client stream ends with %d bytes that are no frame", len(rest)))
	}
	for _, f := range frames {
		m, _, err := refcodec.Decode(f)
		if err != nil {
			o.wireBad = append(o.wireBad, fmt.Sprintf("client emitted an undecodable frame: %v", err))
			continue
		}
		o.wire = append(o.wire, m)
		o.wireSz = append(o.wireSz, len(f))
	}
	if k.Base == 0 {
		o.near = se.ino.Data
	}
	return o
}

// ---------------------------------------------------------------------------
// Oracle.

type issue struct {
	clause  string
	summary string
}

func lenClass(k kase) string {
	switch {
	case k.BufLen == 0:
		return "empty-buffer"
	case uint32(k.BufLen) <= k.P:
		return "one-chunk"
	}
	return "multi-chunk"
}

func offClass(k kase) string {
	if k.Off >= far1 {
		return "far-offset"
	}
	return "near-offset"
}

func errClass(err error) string {
	var en linux.Errno
	switch {
	case err == nil:
		return "nil"
	case err == io.EOF:
		return "EOF"
	case errors.As(err, &en):
		return fmt.Sprintf("errno%d", int(en))
	}
	return "other"
}

// judge evaluates every clause of the property text on one executed case and
// returns the violated ones. evals counts clause evaluations.
func judge(k kase, o *outcome, msize uint32, evals *int64) []issue {
	var out []issue
	bad := func(clause, format string, a ...interface{}) {
		out = append(out, issue{clause, fmt.Sprintf(format, a...)})
	}
	limit := int(k.P) // payload limit for the negotiated msize
	calls := o.calls
	m := len(calls)
	end := k.Base + int64(k.FSize) // end of file

	if o.runaway {
		bad("runaway-chunk-loop", "more than %d backend requests for a %d-byte buffer", 4*(k.BufLen+2)+8, k.BufLen)
		return out
	}

	// Chunks are issued in order (contiguous), each within the payload limit
	// and inside the caller's buffer, stopping at the first short or failed one.
	pos := 0
	*evals++
	for j, c := range calls {
		wantOff := k.Off + int64(pos)
		if c.Off != wantOff {
			bad("chunk-offset", "backend request %d has offset %d, want %d (caller offset %d + %d bytes done)", j, c.Off, wantOff, k.Off, pos)
			break
		}
		if c.L > limit {
			bad("chunk-exceeds-payload-limit", "backend request %d asks for %d bytes; payload limit for msize %d is %d", j, c.L, msize, limit)
		}
		if pos+c.L > k.BufLen {
			bad("chunk-beyond-buffer", "backend request %d covers buffer bytes [%d,%d) of a %d-byte buffer", j, pos, pos+c.L, k.BufLen)
			break
		}
		if k.Op == "write" && !bytes.Equal(c.Data, o.buf[pos:pos+c.L]) {
			bad("chunk-data", "backend request %d carries bytes that are not p[%d:%d]", j, pos, pos+c.L)
		}
		// (a complete chunk that the backend delivered together with io.EOF is
		// neither short nor failed: the server passes the data on and the
		// client cannot know that the file ends there)
		if j < m-1 && ((c.Err != nil && !(c.Err == io.EOF && c.K == c.L)) || c.K != c.L) {
			bad("continued-after-short-or-failed-chunk", "backend request %d returned (%d, %v) for %d bytes, yet request %d followed", j, c.K, c.Err, c.L, j+1)
		}
		if c.K > c.L || c.K < 0 {
			break // backend model broken; cannot happen with memfs
		}
		pos += c.K
	}
	// The operation is carried out completely unless a chunk was short or failed.
	*evals++
	if m == 0 {
		if k.BufLen > 0 {
			bad("no-request-issued", "no backend request for a %d-byte buffer", k.BufLen)
		}
	} else if last := calls[m-1]; last.Err == nil && last.K == last.L && pos < k.BufLen {
		bad("stopped-before-buffer-exhausted", "last backend request was complete (%d of %d bytes) but only %d of %d bytes were processed", last.K, last.L, pos, k.BufLen)
	}
	// The first short or failed chunk's count and error are what the caller sees.
	total := 0
	var lastErr error
	for _, c := range calls {
		total += c.K
		lastErr = c.Err
	}
	*evals++
	if o.n != total {
		bad("count", "caller got n=%d; the backend processed %d bytes in %d requests", o.n, total, m)
	}
	*evals++
	injected := lastErr != nil && lastErr != io.EOF
	switch {
	case injected:
		var en linux.Errno
		if !errors.As(o.err, &en) || en != wantErrno(k) {
			bad("error-not-propagated", "backend request %d failed with %v; caller got error %v, want linux errno %d", m-1, lastErr, o.err, int(wantErrno(k)))
		}
	case k.Op == "write":
		if o.err != nil {
			bad("spurious-error", "no backend request failed, caller got error %v", o.err)
		}
	default: // read, no injected error
		switch {
		case o.n == k.BufLen:
			if o.err != nil {
				bad("error-with-full-buffer", "ReadAt delivered all %d bytes and returned error %v (io.EOF only if fewer than len(p))", o.n, o.err)
			}
		case o.n == 0:
			if !errors.Is(o.err, io.EOF) {
				bad("missing-eof", "ReadAt delivered 0 of %d bytes and returned error %v, want io.EOF", k.BufLen, o.err)
			}
		default:
			if o.err != nil && !errors.Is(o.err, io.EOF) {
				bad("spurious-error", "no backend request failed, caller got error %v", o.err)
			}
		}
	}
	// Zero-length buffers: no error, n = 0 (unless the backend was made to fail).
	if k.BufLen == 0 && !injected {
		*evals++
		if o.n != 0 || o.err != nil {
			bad("empty-buffer", "zero-length buffer: got (%d, %v), want (0, nil)", o.n, o.err)
		}
	}
	if o.n < 0 || o.n > k.BufLen {
		bad("count-out-of-range", "caller got n=%d for a %d-byte buffer", o.n, k.BufLen)
		return out
	}

	if k.Op == "read" {
		// ReadAt fills p with the file's bytes from the offset up to end of file.
		*evals++
		avail := int64(0)
		if k.Off < end {
			avail = end - k.Off
		}
		if int64(o.n) > avail {
			bad("read-beyond-eof", "ReadAt returned %d bytes at offset %d of a file ending at %d", o.n, k.Off, end)
		} else {
			for i := 0; i < o.n; i++ {
				if w := fileByte(int(k.Off-k.Base) + i); o.buf[i] != w {
					bad("read-data", "p[%d] = %#x, file byte at offset %d is %#x", i, o.buf[i], k.Off+int64(i), w)
					break
				}
			}
		}
		if k.Beh.Kind == "full" || k.Beh.Kind == "full-eof" {
			*evals++
			want := int64(k.BufLen)
			if avail < want {
				want = avail
			}
			if int64(o.n) != want {
				bad("full-backend-count", "ReadAt of %d bytes at offset %d (file ends at %d) returned %d, want %d", k.BufLen, k.Off, end, o.n, want)
			}
		}
	} else {
		// WriteAt stores exactly p[:n] at the offset.
		*evals++
		img := make([]byte, o.n) // what the file holds at [Off, Off+n) afterwards
		for i := range img {
			if a := k.Off + int64(i); a >= k.Base && a < end {
				img[i] = fileByte(int(a - k.Base))
			}
		}
		stray := false
		for j, c := range calls {
			if c.K == 0 {
				continue
			}
			if c.Off < k.Off || c.Off+int64(c.K) > k.Off+int64(o.n) {
				bad("file-content", "backend request %d stored %d bytes at offset %d, outside [%d,%d) = offset + p[:n]", j, c.K, c.Off, k.Off, k.Off+int64(o.n))
				stray = true
				continue
			}
			copy(img[c.Off-k.Off:], c.Data[:c.K])
		}
		if !stray && !bytes.Equal(img, o.buf[:o.n]) {
			bad("file-content", "after WriteAt returned %d the file does not hold p[:%d] at offset %d", o.n, o.n, k.Off)
		}
		if k.Base == 0 && k.Off+int64(k.BufLen) <= 1<<24 && !stray {
			// Cross-check with what memfs actually stored (it keeps no bytes
			// beyond 16 MiB).
			*evals++
			want := filePattern(k.FSize)
			if o.n > 0 {
				if need := int(k.Off) + o.n; need > len(want) {
					want = append(want, make([]byte, need-len(want))...)
				}
				copy(want[k.Off:], o.buf[:o.n])
			}
			if !equalZeroExt(want, o.near) {
				bad("file-content", "backend file differs from the model after WriteAt(%d bytes, %d) = %d", k.BufLen, k.Off, o.n)
			}
		}
		if k.Beh.Kind == "full" {
			*evals++
			if o.n != k.BufLen || o.err != nil {
				bad("full-backend-count", "backend accepted everything, WriteAt of %d bytes returned (%d, %v)", k.BufLen, o.n, o.err)
			}
		}
	}

	// Sizes seen on the wire.
	*evals++
	for _, s := range o.wireBad {
		bad("wire", "%s", s)
	}
	for i, w := range o.wire {
		if uint32(o.wireSz[i]) > msize {
			bad("wire-frame-exceeds-msize", "%s frame of %d bytes with msize %d", w.Name(), o.wireSz[i], msize)
		}
		switch w.Type {
		case refcodec.Tread:
			if int(w.U("count")) > limit {
				bad("chunk-exceeds-payload-limit", "Tread count %d on the wire; payload limit is %d", w.U("count"), limit)
			}
		case refcodec.Twrite:
			if len(w.Get("data").([]byte)) > limit {
				bad("chunk-exceeds-payload-limit", "Twrite with %d data bytes on the wire; payload limit is %d", len(w.Get("data").([]byte)), limit)
			}
		default:
			bad("wire", "unexpected request %s during %s", w.Name(), k.Op)
		}
	}
	return out
}

func equalZeroExt(a, b []byte) bool {
	if len(a) > len(b) {
		a, b = b, a
	}
	if !bytes.Equal(a, b[:len(a)]) {
		return false
	}
	for _, x := range b[len(a):] {
		if x != 0 {
			return false
		}
	}
	return true
}

// ---------------------------------------------------------------------------
// Enumeration.

type grid struct {
	P        uint32
	complete bool // buffer lengths 0..3P+1 (else boundary lengths only)
	reduced  bool // MiB-scale payload: reduced file size / offset alphabets
	sysErr   bool // also inject a syscall.Errno
}

func dedupInts(xs []int) []int {
	sort.Ints(xs)
	var out []int
	for i, x := range xs {
		if x < 0 || (i > 0 && x == xs[i-1]) {
			continue
		}
		out = append(out, x)
	}
	return out
}

func effPayload(P uint32) int {
	// Only used to pick interesting buffer lengths, never as an oracle.
	if P > 512 && P%512 != 0 {
		return int(P - P%512)
	}
	return int(P)
}

func (g grid) bufLens() []int {
	P := int(g.P)
	if g.complete {
		out := make([]int, 0, 3*P+2)
		for l := 0; l <= 3*P+1; l++ {
			out = append(out, l)
		}
		return out
	}
	xs := []int{0, 1, 2, 3*P + 1}
	for _, q := range []int{P, effPayload(g.P)} {
		for m := 1; m <= 3; m++ {
			xs = append(xs, m*q-1, m*q, m*q+1)
		}
	}
	if g.reduced {
		xs = []int{0, 1, 3*P + 1}
		for _, q := range []int{P, effPayload(g.P)} {
			xs = append(xs, q-1, q, q+1, 2*q, 2*q+1)
		}
	}
	var out []int
	for _, x := range dedupInts(xs) {
		if x <= 3*P+1 {
			out = append(out, x)
		}
	}
	return out
}

func (g grid) fileSizes() []int {
	P := int(g.P)
	if g.reduced {
		return dedupInts([]int{0, P - 1, P, 2*P + 1})
	}
	return dedupInts([]int{0, 1, P - 1, P, P + 1, 2 * P, 2*P + 1})
}

type place struct {
	Base, Off int64
}

func (g grid) places(fsize int) []place {
	var out []place
	seen := map[place]bool{}
	add := func(base, off int64) {
		p := place{base, off}
		if off < base || seen[p] {
			return
		}
		seen[p] = true
		out = append(out, p)
	}
	bases := []int64{0, far1, far2}
	if g.reduced {
		bases = []int64{0, far1}
	}
	for _, b := range bases {
		f := int64(fsize)
		add(b, b)
		add(b, b+1)
		add(b, b+f-1)
		add(b, b+f)
		add(b, b+f+1)
		if b == 0 {
			add(0, far1)
			if !g.reduced {
				add(0, far2)
			}
		}
	}
	return out
}

func grids(quick bool) []grid {
	maxP := uint32(4<<20) - p9.VerifLargestFixedSize() // msize = 4 MiB, the largest the server accepts unclamped
	if quick {
		return []grid{
			{P: 1, complete: true, sysErr: true},
			{P: 2, complete: true, sysErr: true},
			{P: 3, complete: true, sysErr: true},
			{P: 512, complete: true},
			{P: 513},
			{P: 1025},
			{P: 1 << 20, reduced: true},
			{P: loweredP(), reduced: true}, // msize lowered by the server: requested 8 MiB, granted 4 MiB
		}
	}
	return []grid{
		{P: 1, complete: true, sysErr: true},
		{P: 2, complete: true, sysErr: true},
		{P: 3, complete: true, sysErr: true},
		{P: 4, complete: true, sysErr: true},
		{P: 511, complete: true},
		{P: 512, complete: true},
		{P: 513, complete: true},
		{P: 1024, complete: true},
		{P: 1025, complete: true},
		{P: 1 << 20, reduced: true},
		{P: maxP, reduced: true},
		{P: loweredP(), reduced: true}, // msize lowered by the server: requested 8 MiB, granted 4 MiB
	}
}

// behaviours derives the injected behaviours from the full run of the same
// unit: for every backend request i, short by {1, P-1, all} and error.
func behaviours(g grid, full *outcome) []behaviour {
	var out []behaviour
	for j, c := range full.calls {
		seen := map[int]bool{}
		for _, by := range []struct {
			name string
			d    int
		}{{"1", 1}, {"P-1", int(g.P) - 1}, {"all", c.K}} {
			t := c.K - by.d
			if by.d <= 0 || t < 0 || t >= c.K || seen[t] {
				continue
			}
			seen[t] = true
			out = append(out, behaviour{Kind: "short", Chunk: j, By: by.name, Target: t})
		}
		out = append(out, behaviour{Kind: "err", Chunk: j, Errno: "linux"})
		if g.sysErr {
			out = append(out, behaviour{Kind: "err", Chunk: j, Errno: "syscall"})
		}
	}
	return out
}

type runner struct {
	ctx  *fw.Ctx
	rep  *fw.Report
	sess map[uint32]*session
}

func (r *runner) session(P uint32) *session {
	if se := r.sess[P]; se != nil {
		return se
	}
	se, err := newSession(P)
	if err != nil {
		r.rep.Violate(&fw.Violation{Fingerprint: fmt.Sprintf("C11|setup|P=%d", P), Summary: "cannot set up client/server session: " + err.Error(), Scenario: "setup"})
		return nil
	}
	r.sess[P] = se
	return se
}

func (r *runner) drop(P uint32) {
	if se := r.sess[P]; se != nil {
		se.close()
		delete(r.sess, P)
	}
}

// one runs and judges a single case; it returns the outcome (nil if the
// session could not be set up).
func (r *runner) one(k kase) *outcome {
	se := r.session(k.P)
	if se == nil {
		return nil
	}
	o := se.exec(k)
	rep := r.rep
	rep.States++
	rep.Traces++
	rep.Transitions += int64(len(o.wire))
	rep.Count("backend_requests", int64(len(o.calls)))
	rep.Count("cases_"+k.Op+"_"+k.Beh.Kind, 1)
	if mc := maxChunk(o); mc > 0 {
		key := fmt.Sprintf("max_chunk_seen_P%d", k.P)
		rep.Count(key, 0)
		if int64(mc) > rep.Counters[key] {
			rep.Counters[key] = int64(mc)
		}
	}
	var evals int64
	issues := judge(k, o, se.msize, &evals)
	rep.Evaluations += evals
	nc := "n=len"
	if o.n == 0 && k.BufLen > 0 {
		nc = "n=0"
	} else if o.n < k.BufLen {
		nc = "n<len"
	}
	mcalls := len(o.calls)
	if mcalls > 4 {
		mcalls = 4
	}
	rep.Distinct(fmt.Sprintf("%s|%s|%s|%s|%s|%s|%d", k.Op, k.Beh.Kind, lenClass(k), offClass(k), nc, errClass(o.err), mcalls))
	for _, is := range issues {
		fp := fmt.Sprintf("C11|%s|%s|%s|%s|%s", is.clause, k.Op, k.Beh.Kind, lenClass(k), offClass(k))
		detail := []string{
			fmt.Sprintf("case: %s", fw.JSON(k)),
			fmt.Sprintf("msize=%d payload limit=%d", se.msize, k.P),
			fmt.Sprintf("caller got n=%d err=%v", o.n, o.err),
		}
		for j, c := range o.calls {
			if j >= 8 {
				detail = append(detail, fmt.Sprintf("... %d backend requests in total", len(o.calls)))
				break
			}
			detail = append(detail, fmt.Sprintf("backend request %d: len=%d offset=%d -> (%d, %v)", j, c.L, c.Off, c.K, c.Err))
		}
		rep.Violate(&fw.Violation{Fingerprint: fp, Summary: fmt.Sprintf("%s %s: %s", k.Op, is.clause, is.summary), Scenario: "case", Params: fw.JSON(k), Detail: detail})
	}
	if len(issues) > 0 {
		// Do not let a broken session taint the following cases.
		r.drop(k.P)
	}
	return o
}

func maxChunk(o *outcome) int {
	m := 0
	for _, c := range o.calls {
		if c.L > m {
			m = c.L
		}
	}
	return m
}

func run(ctx *fw.Ctx, rep *fw.Report) {
	memfs.RecordSites = false
	lfs := p9.VerifLargestFixedSize()
	rep.Info["largest_fixed_size"] = lfs
	rep.Rule = "complete grid, every element run through real p9.Client <-> real p9.Server <-> memfs file over a vpipe: " +
		"requested payload P = msize - largestFixedSize (msize set with WithMessageSize). Quick: P in {1,2,3,512} with buffer length 0..3P+1 complete, P in {513,1025} with the boundary lengths {0,1,2,m*q-1,m*q,m*q+1 (m=1..3, q = P and P rounded down to 512), 3P+1}, P=2^20 reduced. " +
		"Thorough: P in {1,2,3,4,511,512,513,1024,1025} with buffer length 0..3P+1 complete, P in {2^20, 4MiB-largestFixedSize} reduced. " +
		"op in {ReadAt,WriteAt}; file size in {0,1,P-1,P,P+1,2P,2P+1}; the file's bytes at [B,B+size) for B in {0, 2^32+5, 2^40}; offset in B+{0,1,EOF-1,EOF,EOF+1} and, for B=0, {2^32+5, 2^40}; " +
		"backend behaviour: full; for reads also full with the last bytes of the file returned TOGETHER with io.EOF (as os.File does); and for EVERY backend request i of the full run: count short by {1,P-1,all} (where that is a shorter, distinct count) and error (linux errno; for P<=4 also a syscall.Errno). " +
		"Reduced (MiB-scale P): size {0,P-1,P,2P+1}, B {0,2^32+5}, lengths {0,1,q-1,q,q+1,2q,2q+1 (q = P and P rounded), 3P+1}. " +
		"One state = one (P,op,length,size,B,offset,behaviour) tuple; transitions = Tread/Twrite requests on the wire; distinct = (op, behaviour kind, length class, offset class, count class, error class, #requests)"
	rep.Assumptions = append(rep.Assumptions,
		"payload limit of the oracle is msize - largestFixedSize (the client may round further down)",
		"zero-length buffers: only (0, nil) is demanded, not whether a request reaches the server",
		"a short count with 0 < n < len(p) may come with nil or io.EOF (text is silent)",
		"sessions are reused across cases of one payload size; file content, logs and hook state are reset per case")

	r := &runner{ctx: ctx, rep: rep, sess: map[uint32]*session{}}
	defer func() {
		for P := range r.sess {
			r.drop(P)
		}
	}()

	if ctx.Replay != nil {
		var k kase
		if err := json.Unmarshal(ctx.Replay.Params, &k); err != nil {
			return
		}
		r.one(k)
		return
	}

	unit := 0
	for _, g := range grids(ctx.Quick()) {
		lens := g.bufLens()
		for _, fsize := range g.fileSizes() {
			for _, pl := range g.places(fsize) {
				for _, op := range []string{"read", "write"} {
					for _, bl := range lens {
						unit++
						if !ctx.Mine(unit) {
							continue
						}
						if ctx.Expired() {
							rep.NotExhaustive(fmt.Sprintf("soft budget reached in grid P=%d", g.P))
							return
						}
						k := kase{P: g.P, Op: op, BufLen: bl, FSize: fsize, Base: pl.Base, Off: pl.Off, Beh: behaviour{Kind: "full"}}
						if ctx.Filter != "" && ctx.Filter != op && ctx.Filter != fmt.Sprintf("P=%d", g.P) {
							continue
						}
						full := r.one(k)
						if full == nil {
							return
						}
						rep.Count("units", 1)
						rep.Count("fault_points", int64(len(full.calls)))
						behs := behaviours(g, full)
						if op == "read" && fsize > 0 {
							behs = append(behs, behaviour{Kind: "full-eof"})
						}
						for _, b := range behs {
							kb := k
							kb.Beh = b
							o := r.one(kb)
							if o == nil {
								return
							}
							if len(rep.Samples) < 3 && b.Kind == "short" && len(o.calls) > 1 {
								rep.Sample(map[string]interface{}{"case": kb, "n": o.n, "err": fmt.Sprint(o.err), "backend_requests": len(o.calls)})
							}
						}
					}
				}
			}
		}
	}
}
