package c10

import (
	"fmt"
	"strings"
	"time"

	"verif/harness/fw"
	"verif/harness/rawpeer"
	"verif/harness/refcodec"
	"verif/harness/vpipe"
	"verif/rt/vrt"
	"verif/rt/vsched"
	"verif/rt/vsync"

	"github.com/hugelgupf/p9/p9"
)

// Part (v): histories with GARBAGE COLLECTIONS as events. A client File that
// is dropped without Close is closed by its finalizer, which sends a Tclunk
// for its fid. With vrt.ModelFinalizers the finalizers run exactly at the
// "gc" events of the history (vrt.CollectNow: real collections decide which
// Files are unreachable, their finalizers run in the calling thread).
//
// One client goroutine, lock-step against the scripted server, default
// schedule (nothing is concurrent). Events: walk (a File is kept in slot k),
// walk-fail (the server answers ENOENT), close k, drop k (forget the File
// without closing it), gc, use k (GetAttr through the File in slot k).
// Oracle, at the server: a new fid is never one it still has bound, and no
// request names a fid it does not have bound; at the client: Files that were
// neither closed nor dropped keep working and reach their own object.
func finalizerScenario(events []string) *fw.Scenario {
	name := "finalizers: " + strings.Join(events, ",")
	return &fw.Scenario{Name: name, Params: map[string]interface{}{"events": events}, DeadlockOK: true, New: func() (func(), func(*vsched.Execution) ([]fw.Issue, string)) {
		var srv *srvState
		var out []string
		ran := 0
		body := func() {
			out, ran = nil, 0
			// The race bookkeeping keeps every object whose fields it has seen
			// alive; here the collector must be able to find client Files
			// unreachable, and nothing is concurrent anyway.
			quiet := vrt.QuietRecording
			vrt.ModelFinalizers, vrt.QuietRecording, vsched.WeakAtomics = true, false, true
			defer func() { vrt.ModelFinalizers, vrt.QuietRecording, vsched.WeakAtomics = false, quiet, false }()
			cc, sc := vpipe.NewConnPair("c")
			srv = &srvState{peer: rawpeer.New(sc), conn: sc, bound: map[uint32]bool{}, binding: map[uint32]bool{}, faultAt: -1,
				calls: [][]string{nil}, sent: make([]int, 1), answered: make([]int, 1), fidOwner: map[uint32]int{},
				strictFids: true, failWalks: map[string]bool{}}
			var wgS vsync.WaitGroup
			wgS.Add(1)
			vsched.GoNamed("server", func() {
				defer wgS.Done()
				m, err := srv.peer.Recv()
				if err != nil {
					return
				}
				srv.peer.Send(refcodec.New(refcodec.Rversion, m.Tag, uint32(8192), "9P2000.L.Google.7"))
				// lock-step: read one request, answer it
				for {
					m, err := srv.peer.Recv()
					if err != nil {
						return
					}
					srv.onRequest(m)
					srv.reply(0)
				}
			})
			c, err := p9.NewClient(cc)
			if err != nil {
				out = append(out, "NewClient:err")
				return
			}
			root, err := c.Attach("")
			if err != nil {
				out = append(out, "Attach:err")
				return
			}
			vsched.BeginExplore()
			type slot struct {
				f    p9.File
				want uint64
			}
			var slots []*slot
			for i, ev := range events {
				var k int
				switch {
				case ev == "walk" || ev == "walk-fail":
					nm := fmt.Sprintf("n%d", i+1)
					if ev == "walk-fail" {
						nm = fmt.Sprintf("missing%d", i+1)
						srv.failWalks[nm] = true
					}
					qs, nf, err := root.Walk([]string{nm})
					switch {
					case ev == "walk-fail" && err == nil:
						out = append(out, ev+":WRONG(no error)")
					case ev == "walk-fail":
						out = append(out, ev+":ok")
					case err != nil:
						out = append(out, ev+":err")
					default:
						out = append(out, ev+":ok")
						slots = append(slots, &slot{nf, qs[0].Path})
					}
				case ev == "gc":
					ran += vrt.CollectNow()
					out = append(out, "gc")
				default:
					fmt.Sscanf(ev[strings.Index(ev, " ")+1:], "%d", &k)
					if k >= len(slots) || slots[k].f == nil {
						out = append(out, ev+":skipped")
						continue
					}
					switch ev[:strings.Index(ev, " ")] {
					case "close":
						if err := slots[k].f.Close(); err != nil {
							out = append(out, ev+":err")
						} else {
							out = append(out, ev+":ok")
						}
						slots[k].f = nil
					case "drop":
						slots[k].f = nil
						out = append(out, ev)
					case "use":
						// The scripted server answers GetAttr with a token of
						// the request; what matters here is that the call
						// succeeds and names a bound fid (server side).
						if _, _, _, err := slots[k].f.GetAttr(p9.AttrMask{Mode: true}); err != nil {
							out = append(out, ev+":err("+err.Error()+")")
						} else {
							out = append(out, ev+":ok")
						}
					}
				}
			}
			// every File still held must still work
			for k, s := range slots {
				if s.f != nil {
					if _, _, _, err := s.f.GetAttr(p9.AttrMask{Mode: true}); err != nil {
						out = append(out, fmt.Sprintf("final use %d:err(%v)", k, err))
					}
				}
			}
			vsched.EndExplore()
			c.Close()
			wgS.Wait()
			_ = root
		}
		check := func(e *vsched.Execution) ([]fw.Issue, string) {
			var is []fw.Issue
			if e.End == vsched.EndDeadlock {
				return []fw.Issue{{Fingerprint: "finalizers|client-call-hangs", Summary: "a client call never returns: " + e.Blocked}}, "deadlock"
			}
			for _, s := range srv.issues {
				is = append(is, fw.Issue{Fingerprint: "finalizers|server-observed|" + generalize(s), Summary: s + " (history: " + strings.Join(events, ",") + ")"})
			}
			for _, o := range out {
				if strings.Contains(o, ":err") || strings.Contains(o, "WRONG") {
					is = append(is, fw.Issue{Fingerprint: "finalizers|call-fails|" + generalize(o[:strings.Index(o, ":")]), Summary: fmt.Sprintf("in the fault-free history %v a call failed: %s", events, o)})
				}
			}
			return is, fmt.Sprintf("%v finalizers_run=%d", out, ran)
		}
		return body, check
	}}
}

// finalizerHistories: all event sequences up to the given length that
// contain a gc after at least one walk / walk-fail.
func finalizerHistories(maxLen int) [][]string {
	var out [][]string
	var rec func(h []string, files int)
	rec = func(h []string, files int) {
		if len(h) > 0 && h[len(h)-1] != "gc" {
			hasGC := false
			for _, e := range h {
				if e == "gc" {
					hasGC = true
				}
			}
			if hasGC {
				out = append(out, append([]string{}, h...))
			}
		}
		if len(h) == maxLen {
			return
		}
		rec(append(h, "walk"), files+1)
		rec(append(h, "walk-fail"), files)
		if len(h) > 0 && h[len(h)-1] != "gc" {
			rec(append(h, "gc"), files)
		}
		for k := 0; k < files; k++ {
			for _, op := range []string{"close", "drop", "use"} {
				rec(append(h, fmt.Sprintf("%s %d", op, k)), files)
			}
		}
	}
	rec(nil, 0)
	return out
}

func runFinalizers(ctx *fw.Ctx, rep *fw.Report) {
	maxLen := 4
	if !ctx.Quick() {
		maxLen = 5
	}
	hs := finalizerHistories(maxLen)
	rep.Info["finalizer_histories"] = len(hs)
	for i, h := range hs {
		if !ctx.Mine(i) {
			continue
		}
		if ctx.Expired() {
			rep.NotExhaustive("tier budget exhausted before finalizer history " + strings.Join(h, ","))
			return
		}
		fw.RunScenario(ctx, rep, finalizerScenario(h), fw.SchedOpts{Budget: 20 * time.Second, DefaultSchedule: true, NoReplayCheck: true, Deviations: -1, ForcePB: -1, SkipDPOR: true, Fallback: []int{0}})
	}
}
