// Package c10 checks client multiplexing (DESIGN.md §4 C10): outstanding tags
// and fids pairwise distinct, every call gets the reply to its own request in
// whatever order the server answers, a fid is re-issued only after the server
// confirmed it unbound, and no call hangs or receives another call's data
// when the connection breaks or the server sends an unacceptable frame.
package c10

import (
	"errors"
	"fmt"
	"sort"
	"strings"
	"time"

	"github.com/hugelgupf/p9/linux"
	"github.com/hugelgupf/p9/p9"
	"verif/harness/fw"
	"verif/harness/rawpeer"
	"verif/harness/refcodec"
	"verif/harness/vpipe"
	"verif/rt/vsched"
	"verif/rt/vsync"
)

func init() {
	fw.Register(&fw.Prop{ID: "C10", Run: run, Sharded: true, QuickSecs: 170, ThoroughSecs: 1500})
}

// fault kinds the scripted server can commit instead of a correct reply.
const (
	fNone       = ""
	fClose      = "close"
	fHalfClose  = "half-frame-then-close"
	fGarbage    = "garbage-frame"
	fUnknownTag = "unknown-tag"
	fWrongType  = "wrong-reply-type"
	fShortBody  = "right-tag-and-type-body-cut-short" // a well delimited frame whose body ends inside its first field
	fTinySize   = "size-field-3"
)

var faultKinds = []string{fClose, fHalfClose, fGarbage, fUnknownTag, fWrongType, fTinySize, fShortBody}

type srvState struct {
	peer      *rawpeer.Peer
	conn      *vpipe.Conn
	pending   []refcodec.Msg
	bound     map[uint32]bool
	binding   map[uint32]bool
	issues    []string
	faulted   bool
	faultKind string
	faultAt   int // index of the reply replaced by the fault (-1 none)
	replies   int
	order     []uint16
	maxOut    int
	calls     [][]string     // scenario shape: calls per client thread
	sent      []int          // requests read per thread
	answered  []int          // replies sent per thread
	fidOwner  map[uint32]int // fid -> client thread that walked to it
	// strictFids: every request must name a fid the server has bound (used by
	// the finalizer histories, where nothing is in flight when a fid is released)
	strictFids bool
	failWalks  map[string]bool // walk names answered with ENOENT
}

// threadOf identifies the client goroutine a request belongs to (the
// scenario encodes it in the request: getattr mask, walk name, walked fid).
func (s *srvState) threadOf(m refcodec.Msg) int {
	switch m.Type {
	case refcodec.Tgetattr:
		return int(m.U("request_mask")-1) / 16
	case refcodec.Twalk:
		names := m.Get("wnames").([]string)
		if len(names) == 1 {
			var id int
			fmt.Sscanf(names[0], "n%d", &id)
			t := (id - 1) / 16
			s.fidOwner[uint32(m.U("newfid"))] = t
			return t
		}
	case refcodec.Tclunk, refcodec.Tremove:
		if t, ok := s.fidOwner[uint32(m.U("fid"))]; ok {
			return t
		}
	case refcodec.Tunlinkat:
		var id int
		fmt.Sscanf(m.S("name"), "u%d", &id)
		return (id - 1) / 16
	case refcodec.Txattrwalk:
		var id int
		fmt.Sscanf(m.S("name"), "user.e%d", &id)
		t := (id - 1) / 16
		s.fidOwner[uint32(m.U("newfid"))] = t
		return t
	}
	return -1
}

func (s *srvState) canSend() bool {
	for t := range s.calls {
		if s.sent[t] == s.answered[t] && s.sent[t] < nreq(s.calls[t]) {
			return true
		}
	}
	return false
}

// nreq is the number of requests a client goroutine issues for its calls
// (GetXattr of an empty value is Txattrwalk + Tclunk).
func nreq(calls []string) int {
	n := 0
	for _, c := range calls {
		n++
		if c == "getxattr-empty" {
			n++
		}
	}
	return n
}

func (s *srvState) fail(format string, a ...interface{}) {
	s.issues = append(s.issues, fmt.Sprintf(format, a...))
}

func token(m refcodec.Msg) uint64 {
	switch m.Type {
	case refcodec.Tgetattr:
		return m.U("request_mask")
	case refcodec.Twalk:
		var h uint64 = 7
		for _, n := range m.Get("wnames").([]string) {
			for _, c := range []byte(n) {
				h = h*131 + uint64(c)
			}
		}
		return h
	}
	return 0
}

func (s *srvState) onRequest(m refcodec.Msg) {
	if m.Tag == rawpeer.NoTag {
		s.fail("client used NOTAG for %s", m.Name())
	}
	for _, p := range s.pending {
		if p.Tag == m.Tag {
			s.fail("client has two requests outstanding with tag %d (%s and %s)", m.Tag, p.Name(), m.Name())
		}
	}
	switch m.Type {
	case refcodec.Twalk, refcodec.Tattach, refcodec.Txattrwalk:
		nf := uint32(0)
		if m.Type == refcodec.Twalk || m.Type == refcodec.Txattrwalk {
			nf = uint32(m.U("newfid"))
		} else {
			nf = uint32(m.U("fid"))
		}
		if nf == rawpeer.NoFID {
			s.fail("client used NOFID as a new fid")
		}
		if !s.faulted && (s.bound[nf] || s.binding[nf]) {
			s.fail("client re-issued fid %d while the server still has it bound (or is binding it)", nf)
		}
		s.binding[nf] = true
	}
	switch m.Type {
	case refcodec.Tclunk, refcodec.Tremove, refcodec.Tgetattr, refcodec.Twalk, refcodec.Txattrwalk:
		if !s.strictFids || s.faulted {
			break
		}
		if f := uint32(m.U("fid")); !s.bound[f] {
			s.fail("client sent %s through fid %d, which the server does not have bound (never bound, or already clunked)", m.Name(), f)
		}
	}
	if t := s.threadOf(m); t >= 0 && t < len(s.sent) {
		s.sent[t]++
	}
	s.pending = append(s.pending, m)
	if len(s.pending) > s.maxOut {
		s.maxOut = len(s.pending)
	}
}

func (s *srvState) reply(i int) {
	m := s.pending[i]
	s.pending = append(s.pending[:i], s.pending[i+1:]...)
	if t := s.threadOf(m); t >= 0 && t < len(s.answered) {
		s.answered[t]++
	}
	var r refcodec.Msg
	switch m.Type {
	case refcodec.Tgetattr:
		vals := []interface{}{m.U("request_mask"), uint8(0), uint32(0), token(m)}
		for k := 0; k < 18; k++ {
			vals = append(vals, uint64(0))
		}
		r = refcodec.New(refcodec.Rgetattr, m.Tag, vals...)
	case refcodec.Twalk:
		names := m.Get("wnames").([]string)
		if len(names) == 1 && s.failWalks[names[0]] {
			r = refcodec.New(refcodec.Rlerror, m.Tag, uint32(2))
			delete(s.binding, uint32(m.U("newfid")))
			break
		}
		qs := []refcodec.QID{}
		for range names {
			qs = append(qs, refcodec.QID{Path: token(m)})
		}
		r = refcodec.New(refcodec.Rwalk, m.Tag, qs)
		nf := uint32(m.U("newfid"))
		delete(s.binding, nf)
		s.bound[nf] = true
	case refcodec.Tattach:
		r = refcodec.New(refcodec.Rattach, m.Tag, uint8(0x80), uint32(0), uint64(1))
		nf := uint32(m.U("fid"))
		delete(s.binding, nf)
		s.bound[nf] = true
	case refcodec.Txattrwalk:
		// an empty attribute value: the new fid IS bound by this reply
		r = refcodec.New(refcodec.Rxattrwalk, m.Tag, uint64(0))
		nf := uint32(m.U("newfid"))
		delete(s.binding, nf)
		s.bound[nf] = true
	case refcodec.Tunlinkat:
		// an error reply carrying a request-unique errno
		var id int
		fmt.Sscanf(m.S("name"), "u%d", &id)
		r = refcodec.New(refcodec.Rlerror, m.Tag, uint32(200+id))
	case refcodec.Tclunk:
		r = refcodec.New(refcodec.Rclunk, m.Tag)
		delete(s.bound, uint32(m.U("fid")))
	case refcodec.Tremove:
		r = refcodec.New(refcodec.Rremove, m.Tag)
		delete(s.bound, uint32(m.U("fid")))
	default:
		r = refcodec.New(refcodec.Rlerror, m.Tag, uint32(95))
	}
	idx := s.replies
	s.replies++
	if idx == s.faultAt {
		s.faulted = true
		b := refcodec.Encode(r)
		switch s.faultKind {
		case fClose:
			s.conn.Close()
		case fHalfClose:
			s.peer.SendRaw(b[:len(b)/2+1])
			s.conn.Close()
		case fGarbage:
			s.peer.SendRaw([]byte{9, 0, 0, 0, 250, byte(m.Tag), byte(m.Tag >> 8), 1, 2})
		case fUnknownTag:
			r.Tag = m.Tag + 500
			s.peer.Send(r)
		case fWrongType:
			s.peer.Send(refcodec.New(refcodec.Rflush, m.Tag))
		case fTinySize:
			s.peer.SendRaw([]byte{3, 0, 0, 0, 7, 0, 0})
		case fShortBody:
			// the pending call's own tag and the reply type it waits for, but
			// the body ends after its first bytes: a count survives, what it
			// counts does not (a reply without a body gets one byte too many)
			n := 7 + 3
			if n >= len(b) {
				n = len(b) - 1
			}
			cut := append([]byte{}, b[:n]...)
			if n < 8 {
				cut = append(append([]byte{}, b[:7]...), 0x5a)
			}
			cut[0], cut[1], cut[2], cut[3] = byte(len(cut)), 0, 0, 0
			s.peer.SendRaw(cut)
		}
		return
	}
	s.order = append(s.order, m.Tag)
	s.peer.Send(r)
}

// serve answers the clients' requests; which action comes next (read the
// next request / answer any pending request) is a free, fully enumerated data
// choice. "Read" is offered only while some client goroutine is able to send
// (the scenario shape is known), so the server never waits for a request that
// cannot come. After a fault it answers oldest-first and reads until EOF.
func (s *srvState) serve() {
	for {
		var acts []int // >=0: answer pending[i]; -1: read
		if !s.faulted {
			for i := range s.pending {
				acts = append(acts, i)
			}
			if s.canSend() {
				acts = append(acts, -1)
			}
		} else if len(s.pending) > 0 {
			acts = append(acts, 0)
		} else {
			acts = append(acts, -1)
		}
		if len(acts) == 0 {
			return
		}
		a := acts[vsched.Choose(len(acts), "server-action", true)]
		if a == -1 {
			m, err := s.peer.Recv()
			if err != nil {
				return
			}
			s.onRequest(m)
			continue
		}
		s.reply(a)
		if s.faulted && (s.faultKind == fClose || s.faultKind == fHalfClose) {
			return
		}
	}
}

type params struct {
	Threads [][]string `json:"threads"` // calls per client goroutine
	Fault   string     `json:"fault,omitempty"`
	FaultAt int        `json:"fault_at"`
	// Other: calls made one after another by a SECOND Client of the same
	// process, on its own healthy connection, after the first client's
	// goroutines have returned. Pools recycle (process-wide response pool).
	Other []string `json:"other_client,omitempty"`
	Pool  string   `json:"pool_policy,omitempty"` // what a recycling pool hands out: lifo | fifo
}

func scenario(p params) *fw.Scenario {
	var parts []string
	for _, t := range p.Threads {
		parts = append(parts, strings.Join(t, ">"))
	}
	name := strings.Join(parts, " || ")
	if p.Fault != fNone {
		name += fmt.Sprintf(" | %s at reply %d", p.Fault, p.FaultAt)
	}
	if len(p.Other) > 0 {
		name += " | then another client: " + strings.Join(p.Other, ">") + " | pools " + p.Pool
	}
	return &fw.Scenario{Name: name, Params: p, DeadlockOK: true, New: func() (func(), func(*vsched.Execution) ([]fw.Issue, string)) {
		var srv, srv2 *srvState
		var results []string
		var bad []string
		other := ""
		body := func() {
			results, bad, other, srv2 = nil, nil, "", nil
			if len(p.Other) > 0 {
				vsync.PoolRecycle, vsync.PoolPolicy = true, p.Pool
				defer func() { vsync.PoolRecycle, vsync.PoolPolicy = false, "" }()
			}
			cc, sc := vpipe.NewConnPair("c")
			srv = &srvState{peer: rawpeer.New(sc), conn: sc, bound: map[uint32]bool{}, binding: map[uint32]bool{}, faultAt: -1, faultKind: p.Fault,
				calls: p.Threads, sent: make([]int, len(p.Threads)), answered: make([]int, len(p.Threads)), fidOwner: map[uint32]int{}}
			// version + attach are answered straight away (setup)
			var wgS vsync.WaitGroup
			wgS.Add(1)
			vsched.GoNamed("server", func() {
				defer wgS.Done()
				m, _ := srv.peer.Recv()
				srv.peer.Send(refcodec.New(refcodec.Rversion, m.Tag, uint32(8192), "9P2000.L.Google.7"))
				m, _ = srv.peer.Recv()
				srv.onRequest(m)
				srv.reply(0)
				if p.Fault != fNone {
					srv.faultAt = srv.replies + p.FaultAt
				}
				srv.serve()
			})
			c, err := p9.NewClient(cc)
			if err != nil {
				bad = append(bad, "NewClient: "+err.Error())
				return
			}
			root, err := c.Attach("")
			if err != nil {
				bad = append(bad, "Attach: "+err.Error())
				return
			}
			vsched.BeginExplore()
			var wg vsync.WaitGroup
			wg.Add(len(p.Threads))
			res := make([][]string, len(p.Threads))
			runCalls := func(root p9.File, ti int, calls []string, out *[]string) {
				var f p9.File
				for k, call := range calls {
					id := uint64(ti*16 + k + 1)
					switch call {
					case "getattr":
						mask := p9.AttrMask{Mode: id&1 != 0, NLink: id&2 != 0, UID: id&4 != 0, GID: id&8 != 0, RDev: id&16 != 0, ATime: id&32 != 0}
						q, valid, _, err := root.GetAttr(mask)
						if err != nil {
							*out = append(*out, "getattr:err")
						} else if q.Path != id || valid != mask {
							*out = append(*out, fmt.Sprintf("getattr:WRONG(path=%d want %d)", q.Path, id))
						} else {
							*out = append(*out, "getattr:ok")
						}
					case "getxattr-empty":
						v, err := root.GetXattr(fmt.Sprintf("user.e%d", id))
						if err != nil {
							*out = append(*out, "getxattr-empty:err")
						} else if len(v) != 0 {
							*out = append(*out, "getxattr-empty:WRONG(value)")
						} else {
							*out = append(*out, "getxattr-empty:ok")
						}
					case "unlink-err":
						err := root.UnlinkAt(fmt.Sprintf("u%d", id), 0)
						var en linux.Errno
						switch {
						case err == nil:
							*out = append(*out, "unlink-err:WRONG(no error)")
						case errors.As(err, &en) && uint32(en) == uint32(200+id):
							*out = append(*out, "unlink-err:ok")
						case errors.As(err, &en) && uint32(en) >= 200 && uint32(en) < 400:
							*out = append(*out, fmt.Sprintf("unlink-err:WRONG(errno %d want %d)", uint32(en), 200+id))
						default:
							*out = append(*out, "unlink-err:err")
						}
					case "walk":
						nm := fmt.Sprintf("n%d", id)
						qs, nf, err := root.Walk([]string{nm})
						want := token(refcodec.New(refcodec.Twalk, 0, uint32(0), uint32(0), []string{nm}))
						if err != nil {
							*out = append(*out, "walk:err")
						} else if len(qs) != 1 || qs[0].Path != want {
							*out = append(*out, "walk:WRONG")
						} else {
							*out = append(*out, "walk:ok")
							f = nf
						}
					case "close":
						if f == nil {
							*out = append(*out, "close:nofile")
							continue
						}
						if err := f.Close(); err != nil {
							*out = append(*out, "close:err")
						} else {
							*out = append(*out, "close:ok")
						}
						f = nil
					case "remove":
						if f == nil {
							*out = append(*out, "remove:nofile")
							continue
						}
						type remover interface{ Remove() error }
						if err := f.(remover).Remove(); err != nil {
							*out = append(*out, "remove:err")
						} else {
							*out = append(*out, "remove:ok")
						}
						f = nil
					}
				}
			}
			for ti, calls := range p.Threads {
				ti, calls := ti, calls
				vsched.GoNamed(fmt.Sprintf("caller%d", ti), func() {
					defer wg.Done()
					runCalls(root, ti, calls, &res[ti])
				})
			}
			wg.Wait()
			if len(p.Other) > 0 {
				// a second Client of the same process on its own, healthy connection
				cc2, sc2 := vpipe.NewConnPair("o")
				shape := make([][]string, len(p.Threads)+1)
				shape[len(p.Threads)] = p.Other
				srv2 = &srvState{peer: rawpeer.New(sc2), conn: sc2, bound: map[uint32]bool{}, binding: map[uint32]bool{}, faultAt: -1,
					calls: shape, sent: make([]int, len(shape)), answered: make([]int, len(shape)), fidOwner: map[uint32]int{}}
				var wg2 vsync.WaitGroup
				wg2.Add(1)
				vsched.GoNamed("server2", func() {
					defer wg2.Done()
					m, _ := srv2.peer.Recv()
					srv2.peer.Send(refcodec.New(refcodec.Rversion, m.Tag, uint32(8192), "9P2000.L.Google.7"))
					m, _ = srv2.peer.Recv()
					srv2.onRequest(m)
					srv2.reply(0)
					srv2.serve()
				})
				var out []string
				c2, err := p9.NewClient(cc2)
				if err != nil {
					out = append(out, "NewClient:err("+err.Error()+")")
				} else if root2, err := c2.Attach(""); err != nil {
					out = append(out, "Attach:err("+err.Error()+")")
				} else {
					runCalls(root2, len(p.Threads), p.Other, &out)
				}
				other = strings.Join(out, ",")
				if c2 != nil {
					c2.Close()
				} else {
					cc2.Close()
				}
				wg2.Wait()
			}
			vsched.EndExplore()
			for _, r := range res {
				results = append(results, strings.Join(r, ","))
			}
			c.Close()
			wgS.Wait()
		}
		check := func(e *vsched.Execution) ([]fw.Issue, string) {
			var is []fw.Issue
			if e.End == vsched.EndDeadlock {
				is = append(is, fw.Issue{Fingerprint: "client-call-hangs|" + p.Fault, Summary: fmt.Sprintf("a client call never returns (fault: %q): %s", p.Fault, e.Blocked)})
				return is, "deadlock"
			}
			for _, b := range bad {
				is = append(is, fw.Issue{Fingerprint: "setup|" + b, Summary: b})
			}
			for _, s := range srv.issues {
				is = append(is, fw.Issue{Fingerprint: "server-observed|" + generalize(s), Summary: s})
			}
			for _, r := range results {
				if strings.Contains(r, "WRONG") {
					is = append(is, fw.Issue{Fingerprint: "call-got-foreign-data", Summary: "a call returned data that belongs to another request: " + r})
				}
			}
			if p.Fault == fNone && e.End == vsched.EndComplete {
				for _, r := range results {
					if strings.Contains(r, ":err") {
						is = append(is, fw.Issue{Fingerprint: "error-without-fault", Summary: "a call failed although the server answered every request correctly: " + r})
					}
				}
			}
			if srv2 != nil {
				for _, s := range srv2.issues {
					is = append(is, fw.Issue{Fingerprint: "server-observed|other-client|" + generalize(s), Summary: s})
				}
			}
			if e.End == vsched.EndComplete && (strings.Contains(other, ":err") || strings.Contains(other, "WRONG")) {
				is = append(is, fw.Issue{Fingerprint: "other-client-affected", Summary: fmt.Sprintf("a call of ANOTHER client of the same process, whose own connection is healthy and whose server answered everything correctly, failed or got foreign data after the first client's connection broke (%s): %s", p.Fault, other)})
			}
			sort.Strings(results)
			return is, fmt.Sprintf("%v order=%v maxout=%d other=%s", results, srv.order, srv.maxOut, other)
		}
		return body, check
	}}
}

func generalize(s string) string {
	var sb strings.Builder
	inNum := false
	for _, r := range s {
		if r >= '0' && r <= '9' {
			if !inNum {
				sb.WriteByte('#')
			}
			inNum = true
			continue
		}
		inNum = false
		sb.WriteRune(r)
	}
	return sb.String()
}

func run(ctx *fw.Ctx, rep *fw.Report) {
	rep.Rule = "(i) 2-3 goroutines x 1-2 calls (GetAttr, Walk, Close, Remove, GetXattr of an empty value, and UnlinkAt answered with a request-unique errno) on one real p9.Client against a scripted server whose actions (read the next request / answer any pending request) are a free data choice, i.e. every reply order incl. answering before the next request is read; all thread interleavings with at most 1 (quick) / 2 (thorough) preemptions, without reduction (the client's hand-off logic alone has more than 10^5 Mazurkiewicz traces for two calls, so unbounded DPOR does not terminate in budget); (ii) the same sessions with one fault (close, half frame then close, garbage frame, unknown tag, wrong reply type, size field 3, the right tag and type with the body cut short after its first bytes) in place of the k-th reply for every k; (iv) two-call sessions broken by a close / half frame / garbage frame, followed by two calls of a SECOND client of the same process on its own healthy connection, with recycling pools (handing out the most recently / the least recently put object: both policies): the second client's calls must succeed; (v) histories with garbage collections as EVENTS: one goroutine, lock-step, all sequences up to 4 (quick) / 5 (thorough) events over {walk, walk answered ENOENT, close k, drop k (forget the File unclosed), gc, use k} with a gc in them; finalizers of client Files run exactly at the gc events (real collections decide what is unreachable); server-side oracle as above plus 'no request names a fid the server does not have bound', client side: Files neither closed nor dropped keep working; (iii) allocator: explicit-state BFS over all Get/Put sequences of the tag/fid allocator and 2-thread schedules; oracle at the server: outstanding tags pairwise distinct and never NOTAG, a new fid is never one the server has bound or is binding (fault-free sessions), at the callers: own token returned, errors only after a fault, no caller blocked at the end (deadlock detection); distinct = distinct (results, reply order) outcomes"
	rep.Assumptions = append(rep.Assumptions, "independence classes of DESIGN §2.2", "fid freshness is asserted in sessions without protocol faults only (DESIGN §4.0)", "GC finalizers of client files run only at the gc events of part (v); elsewhere they are off (DESIGN §6)")
	shapes := [][][]string{
		{{"getattr"}, {"getattr"}},
		{{"walk"}, {"getattr"}},
		{{"walk", "close"}, {"walk"}},
		{{"unlink-err"}, {"unlink-err"}},
		{{"unlink-err"}, {"getattr"}},
		{{"getxattr-empty", "walk"}},
	}
	if !ctx.Quick() {
		shapes = append(shapes, [][]string{{"getxattr-empty", "walk"}, {"getattr"}}, [][]string{{"walk", "remove"}, {"walk"}}, [][]string{{"walk", "close"}, {"getattr"}}, [][]string{{"walk", "close"}, {"walk", "close"}}, [][]string{{"getattr", "getattr"}, {"getattr"}},
			[][]string{{"getattr"}, {"getattr"}, {"getattr"}}, [][]string{{"walk", "close"}, {"walk"}, {"getattr"}})
	}
	var scs []*fw.Scenario
	for _, sh := range shapes {
		scs = append(scs, scenario(params{Threads: sh, FaultAt: -1}))
		total := 0
		for _, t := range sh {
			total += len(t)
		}
		for _, fk := range faultKinds {
			for k := 0; k < total; k++ {
				if ctx.Quick() && total > 2 && (k != 1 || (fk != fClose && fk != fGarbage && fk != fUnknownTag)) {
					continue // quick: three-reply shapes get three fault kinds at the middle reply only
				}
				scs = append(scs, scenario(params{Threads: sh, Fault: fk, FaultAt: k}))
			}
		}
	}
	// A thread's SECOND call after a frame the client cannot accept: the tags of
	// the calls failed by the fault are free again while the server may still
	// answer the abandoned requests (quick: two fault kinds at the first reply;
	// thorough enumerates every fault at every reply of this shape above).
	if ctx.Quick() {
		for _, fk := range []string{fUnknownTag, fWrongType} {
			scs = append(scs, scenario(params{Threads: [][]string{{"getattr", "getattr"}, {"getattr"}}, Fault: fk, FaultAt: 0}))
		}
	}
	// (iv) a second client of the same process after the first one's connection broke
	nOther := 0
	for _, fk := range []string{fClose, fHalfClose, fGarbage} {
		for k := 0; k < 2; k++ {
			for _, pol := range []string{"lifo", "fifo"} {
				scs = append(scs, scenario(params{Threads: [][]string{{"getattr"}, {"getattr"}}, Fault: fk, FaultAt: k, Other: []string{"getattr"}, Pool: pol}))
				nOther++
			}
		}
	}
	rep.Info["scenarios_total"] = len(scs)
	// the small parts first, so that they cannot fall victim to the tier budget
	runFinalizers(ctx, rep)
	if ctx.Shard == 0 {
		runAllocator(ctx, rep)
	}
	budget := 45 * time.Second
	if !ctx.Quick() {
		budget = 4 * time.Minute
	}
	for i, sc := range scs {
		wide := strings.Count(sc.Name, ">") > 0 // three or more calls: slice the search over all workers
		if !wide && !ctx.Mine(i) {
			continue
		}
		if ctx.Expired() {
			rep.NotExhaustive("tier budget exhausted before scenario " + sc.Name)
			continue
		}
		// The client's hand-off logic alone has > 10^5 Mazurkiewicz traces for two
		// calls, so these scenarios are explored by iterative preemption
		// bounding without reduction; the bound completed is reported.
		bounds := []int{0, 1}
		if !ctx.Quick() {
			bounds = []int{0, 1, 2}
		}
		dev := -1
		if strings.Contains(sc.Name, "then another client") {
			wide = true
		}
		fw.RunScenario(ctx, rep, sc, fw.SchedOpts{Budget: budget, ForcePB: -1, SkipDPOR: true, Wide: wide, Fallback: bounds, Deviations: dev})
	}
	rep.Info["preemption_bound_goal"] = map[bool]int{true: 1, false: 2}[ctx.Quick()]
}
