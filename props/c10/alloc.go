package c10

import (
	"fmt"
	"sort"
	"strings"
	"time"

	"github.com/hugelgupf/p9/p9"
	"verif/harness/fw"
	"verif/rt/vsched"
	"verif/rt/vsync"
)

// Allocator: explicit-state BFS over all Get/Put sequences of the real
// allocator with a tiny range (start 1, limit 4 => values 1,2,3), and
// exhaustive 2-thread schedules. Invariant: a value is never handed out
// twice without a Put in between, never the limit value, and Get fails only
// when everything is out.

type allocState struct {
	out  []uint64 // values currently handed out (sorted)
	hist []int    // ops reaching this state: 0 = Get, v>0 = Put(v)
}

func runAllocator(ctx *fw.Ctx, rep *fw.Report) {
	const start, limit = 1, 4
	depth := 8
	if !ctx.Quick() {
		depth = 11
	}
	replay := func(hist []int) (*p9.VerifPool, map[uint64]bool, string) {
		p := p9.VerifNewPool(start, limit)
		out := map[uint64]bool{}
		for _, op := range hist {
			if op == 0 {
				v, ok := p.Get()
				if !ok {
					if len(out) < limit-start {
						return p, out, fmt.Sprintf("Get failed with only %d of %d values out", len(out), limit-start)
					}
					continue
				}
				if v < start || v >= limit {
					return p, out, fmt.Sprintf("Get returned %d outside [%d,%d)", v, start, limit)
				}
				if out[v] {
					return p, out, fmt.Sprintf("Get returned %d which is still handed out", v)
				}
				out[v] = true
			} else {
				p.Put(uint64(op))
				delete(out, uint64(op))
			}
		}
		return p, out, ""
	}
	seen := map[string]bool{}
	frontier := [][]int{{}}
	states, transitions := 0, 0
	for d := 0; d <= depth && len(frontier) > 0; d++ {
		var next [][]int
		for _, h := range frontier {
			_, out, bad := replay(h)
			transitions += len(h)
			if bad != "" {
				rep.Violate(&fw.Violation{Fingerprint: "allocator|" + generalize(bad), Summary: "tag/fid allocator: " + bad, Scenario: "allocator-bfs", Params: fw.JSON(h)})
				continue
			}
			// canonical key: set of values out + the allocator's observable
			// future (which values the next Gets would return), obtained by
			// probing a replayed copy.
			key := keyOf(h, replay)
			if seen[key] {
				continue
			}
			seen[key] = true
			states++
			if d == depth {
				continue
			}
			next = append(next, append(append([]int{}, h...), 0))
			var vs []uint64
			for v := range out {
				vs = append(vs, v)
			}
			sort.Slice(vs, func(i, j int) bool { return vs[i] < vs[j] })
			for _, v := range vs {
				next = append(next, append(append([]int{}, h...), int(v)))
			}
		}
		frontier = next
	}
	rep.States += int64(states)
	rep.Transitions += int64(transitions)
	rep.Count("allocator_bfs_states", int64(states))
	rep.Count("allocator_bfs_depth", int64(depth))
	rep.Sample(map[string]interface{}{"allocator_bfs": "all Get/Put sequences over values {1,2,3}", "depth": depth, "states": states})

	// Two threads x two ops, all schedules.
	progs := [][]string{{"get", "put"}, {"get", "get"}, {"get", "put", "get"}}
	for _, a := range progs {
		for _, b := range progs {
			a, b := a, b
			sc := &fw.Scenario{Name: "allocator-threads|" + strings.Join(a, ",") + "||" + strings.Join(b, ","), New: func() (func(), func(*vsched.Execution) ([]fw.Issue, string)) {
				var bad []string
				var got [2][]uint64
				body := func() {
					p := p9.VerifNewPool(start, limit)
					var wg vsync.WaitGroup
					wg.Add(2)
					vsched.BeginExplore()
					for ti, prog := range [][]string{a, b} {
						ti, prog := ti, prog
						vsched.GoNamed(fmt.Sprintf("t%d", ti), func() {
							defer wg.Done()
							var mine []uint64
							for _, op := range prog {
								if op == "get" {
									if v, ok := p.Get(); ok {
										mine = append(mine, v)
										got[ti] = append(got[ti], v)
									}
								} else if len(mine) > 0 {
									p.Put(mine[len(mine)-1])
									mine = mine[:len(mine)-1]
								}
							}
						})
					}
					wg.Wait()
					vsched.EndExplore()
				}
				_ = bad
				return body, func(e *vsched.Execution) ([]fw.Issue, string) {
					return nil, fmt.Sprint(got)
				}
			}}
			// The distinctness oracle for the threaded runs: values held at
			// the same time must differ. It is evaluated inside the run via
			// a shared ledger guarded by the allocator's own atomicity, so we
			// re-implement it with holder sets:
			sc.New = threadedAlloc(a, b)
			fw.RunScenario(ctx, rep, sc, fw.SchedOpts{Budget: 20 * time.Second, ForcePB: -1, Fallback: []int{0, 1}, Deviations: -1})
		}
	}
}

func keyOf(h []int, replay func([]int) (*p9.VerifPool, map[uint64]bool, string)) string {
	p, out, _ := replay(h)
	var vs []string
	for v := range out {
		vs = append(vs, fmt.Sprint(v))
	}
	sort.Strings(vs)
	// probe the future: drain the allocator
	var fut []string
	for i := 0; i < 4; i++ {
		v, ok := p.Get()
		if !ok {
			fut = append(fut, "x")
			break
		}
		fut = append(fut, fmt.Sprint(v))
	}
	return strings.Join(vs, ",") + "|" + strings.Join(fut, ",")
}

func threadedAlloc(a, b []string) func() (func(), func(*vsched.Execution) ([]fw.Issue, string)) {
	return func() (func(), func(*vsched.Execution) ([]fw.Issue, string)) {
		var problems []string
		var trace []string
		body := func() {
			p := p9.VerifNewPool(1, 4)
			held := map[uint64]int{} // value -> holder thread (harness-side ledger; single running thread at a time)
			var wg vsync.WaitGroup
			wg.Add(2)
			vsched.BeginExplore()
			for ti, prog := range [][]string{a, b} {
				ti, prog := ti, prog
				vsched.GoNamed(fmt.Sprintf("t%d", ti), func() {
					defer wg.Done()
					var mine []uint64
					for _, op := range prog {
						if op == "get" {
							v, ok := p.Get()
							if !ok {
								trace = append(trace, fmt.Sprintf("t%d:get=none", ti))
								continue
							}
							if h, dup := held[v]; dup {
								problems = append(problems, fmt.Sprintf("value %d handed to thread %d while thread %d still holds it", v, ti, h))
							}
							if v < 1 || v >= 4 {
								problems = append(problems, fmt.Sprintf("value %d out of range", v))
							}
							held[v] = ti
							mine = append(mine, v)
							trace = append(trace, fmt.Sprintf("t%d:get=%d", ti, v))
						} else if len(mine) > 0 {
							v := mine[len(mine)-1]
							mine = mine[:len(mine)-1]
							delete(held, v)
							p.Put(v)
							trace = append(trace, fmt.Sprintf("t%d:put=%d", ti, v))
						}
					}
				})
			}
			wg.Wait()
			vsched.EndExplore()
		}
		return body, func(e *vsched.Execution) ([]fw.Issue, string) {
			var is []fw.Issue
			for _, pr := range problems {
				is = append(is, fw.Issue{Fingerprint: "allocator-threads|" + generalize(pr), Summary: "tag/fid allocator under concurrency: " + pr})
			}
			return is, strings.Join(trace, " ")
		}
	}
}
