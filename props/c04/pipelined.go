package c04

import (
	"fmt"
	"time"

	"verif/harness/fw"
	"verif/harness/memfs"
	"verif/harness/rawpeer"
	"verif/harness/refcodec"
	"verif/harness/sess"
	"verif/rt/vsched"

	"github.com/hugelgupf/p9/linux"
)

// Part (b): PIPELINED sequences. A Tlopen and a second request naming the
// same fid are sent back to back (both in flight), and the backend's Open
// FAILS. Whatever order the server serves them in, the fid was never open:
// the model (C04: "reads, writes, readdir and fsync are accepted only on a fid
// opened in a compatible mode") refuses the second request in both orders and
// it must not reach the backend. All interleavings are explored.
func pipelinedScenario(node string, second string) *fw.Scenario {
	name := fmt.Sprintf("pipelined: Tlopen (backend Open fails) , %s on the same fid at %s", second, node)
	return &fw.Scenario{Name: name, Params: map[string]string{"node": node, "second": second}, RaceOK: true, New: func() (func(), func(*vsched.Execution) ([]fw.Issue, string)) {
		var fs *memfs.FS
		base := 0
		var replies [2]refcodec.Msg
		body := func() {
			fs, _ = tree()
			fs.Hook = func(c *memfs.Call) *memfs.Action {
				if c.Method == "Open" {
					return &memfs.Action{Err: linux.EIO}
				}
				return nil
			}
			srv := sess.NewServer(fs)
			s := sess.Connect(fs, srv, "c")
			s.Version(8192)
			s.Attach(1)
			if node == "d" {
				s.Walk(1, 2, "d")
			} else {
				s.Walk(1, 2, "f")
			}
			var B refcodec.Msg
			switch second {
			case "Tread":
				B = rawpeer.Tread(11, 2, 0, 4)
			case "Twrite":
				B = rawpeer.Twrite(11, 2, 0, []byte("W"))
			case "Tfsync":
				B = rawpeer.Tfsync(11, 2)
			case "Treaddir":
				B = rawpeer.Treaddir(11, 2, 0, 4000)
			}
			base = len(fs.Calls)
			vsched.BeginExplore()
			s.Peer.SendAll(rawpeer.Tlopen(10, 2, 2*b2u(node != "d")), B)
			for i := 0; i < 2; i++ {
				r, err := s.Peer.Recv()
				if err != nil {
					break
				}
				replies[int(r.Tag)-10] = r
			}
			vsched.EndExplore()
			s.Hangup()
			s.WaitDone()
		}
		check := func(e *vsched.Execution) ([]fw.Issue, string) {
			var is []fw.Issue
			if e.End == vsched.EndComplete {
				if replies[0].Name() != "Rlerror" {
					is = append(is, fw.Issue{Fingerprint: "pipelined|lopen-succeeds-though-backend-open-failed", Summary: "Tlopen answered " + replies[0].Name() + " although the backend's Open returned EIO"})
				}
				if replies[1].Name() != "Rlerror" {
					is = append(is, fw.Issue{Fingerprint: "pipelined|" + second + "-accepted-on-a-fid-that-never-opened", Summary: fmt.Sprintf("%s sent right behind a Tlopen whose backend Open fails was answered %s: the fid was not open before, and is not open after, the failed open", second, replies[1].Name())})
				}
			}
			for _, c := range fs.Calls[base:] {
				switch c.Method {
				case "ReadAt", "WriteAt", "FSync", "Readdir":
					is = append(is, fw.Issue{Fingerprint: "pipelined|backend-" + c.Method + "-on-a-file-that-never-opened", Summary: fmt.Sprintf("backend %s was invoked on a File whose Open failed", c.Method)})
				}
			}
			return is, fmt.Sprintf("%s/%d %s/%d", replies[0].Name(), rawpeer.Errno(replies[0]), replies[1].Name(), rawpeer.Errno(replies[1]))
		}
		return body, check
	}}
}

func b2u(b bool) uint32 {
	if b {
		return 1
	}
	return 0
}

func runPipelined(ctx *fw.Ctx, rep *fw.Report) {
	for _, sc := range []*fw.Scenario{
		pipelinedScenario("f", "Tread"), pipelinedScenario("f", "Twrite"), pipelinedScenario("f", "Tfsync"), pipelinedScenario("d", "Treaddir"),
	} {
		fw.RunScenario(ctx, rep, sc, fw.SchedOpts{Budget: 30 * time.Second, ForcePB: -1, Fallback: []int{0, 1}, Deviations: -1})
	}
}
