// Package c04 checks the session state machine (DESIGN.md §4 C04) by
// explicit-state BFS over request histories against the reference model.
package c04

import (
	"fmt"

	"verif/harness/fw"
	"verif/harness/histex"
	"verif/harness/memfs"
	"verif/harness/rawpeer"
	"verif/harness/refcodec"
	"verif/harness/refmodel"
)

func init() {
	fw.Register(&fw.Prop{ID: "C04", Run: run, QuickSecs: 75, ThoroughSecs: 1500})
}

// tree: / { d/ { x }, f (with xattr user.k), s -> f }
func tree() (*memfs.FS, *refmodel.Model) {
	fs := memfs.New()
	fs.AddFile("d/x", []byte("xdata"))
	fs.AddFile("f", []byte("0123456789"))
	fs.Root.Children["f"].Xattrs["user.k"] = []byte("vv")
	fs.AddNode("s", 0o120777, nil, "f")
	m := refmodel.New()
	m.Add("d/x", refmodel.KFile, "xdata")
	f := m.Add("f", refmodel.KFile, "0123456789")
	f.Xattrs["user.k"] = []byte("vv")
	sl := m.Add("s", refmodel.KSymlink, "")
	sl.Target = "f"
	return fs, m
}

func alphabet(quick bool) []refcodec.Msg {
	var a []refcodec.Msg
	fids := []uint32{0, 1, 2}
	if quick {
		fids = []uint32{0, 1}
	}
	nofid := uint32(rawpeer.NoFID)
	for _, f := range fids {
		a = append(a, rawpeer.Tattach(0, f, ""))
		if !quick {
			a = append(a, rawpeer.Tattach(0, f, "d"), rawpeer.Tattach(0, f, "d/x"), rawpeer.Tattach(0, f, "nope"))
		}
	}
	at := rawpeer.Tattach(0, 0, "")
	at.Vals[1] = uint64(1) // auth fid given
	a = append(a, at, rawpeer.Tauth(0, 1), rawpeer.Tauth(0, nofid))
	walks := [][]string{{}, {"d"}, {"f"}, {"d", "x"}, {"f", "x"}, {"nope"}, {"s"}}
	for _, f := range fids {
		for _, nf := range fids {
			for _, w := range walks {
				if quick && f != nf && len(w) == 2 && w[0] == "f" {
					continue
				}
				a = append(a, rawpeer.Twalk(0, f, nf, w...))
			}
		}
		a = append(a, rawpeer.Twalkgetattr(0, f, (f+1)%uint32(len(fids)), "d"), rawpeer.Twalkgetattr(0, f, f, "x"))
		// open modes incl. flag bits beyond the two mode bits (Linux clients
		// send O_TRUNC, O_EXCL, O_LARGEFILE ... along with the mode)
		for _, mode := range []uint32{0, 1, 2, 0x201, 0x8000} {
			a = append(a, rawpeer.Tlopen(0, f, mode))
		}
		a = append(a, rawpeer.Tlcreate(0, f, "a", 2), rawpeer.Tlcreate(0, f, "x", 0), rawpeer.Tlcreate(0, f, "a", 0x241), rawpeer.Tlcreate(0, f, "a", 0x80))
		a = append(a, rawpeer.Tread(0, f, 0, 4), rawpeer.Tread(0, f, 1, 1), rawpeer.Twrite(0, f, 0, []byte("W")), rawpeer.Twrite(0, f, 1, []byte("Z")))
		a = append(a, rawpeer.Treaddir(0, f, 0, 4000), rawpeer.Tfsync(0, f), rawpeer.Tclunk(0, f), rawpeer.Tremove(0, f))
		a = append(a, rawpeer.Tmkdir(0, f, "a"), rawpeer.Tsymlink(0, f, "a", "f"), rawpeer.Tmknod(0, f, "a", 0o10644))
		a = append(a, rawpeer.Tunlinkat(0, f, "x"), rawpeer.Tunlinkat(0, f, "a"), rawpeer.Tunlinkat(0, f, "d"))
		a = append(a, rawpeer.Tgetattr(0, f), rawpeer.Tsetattr(0, f, 8, 0, 3), rawpeer.Treadlink(0, f), rawpeer.Tstatfs(0, f), rawpeer.Tlock(0, f))
		a = append(a, rawpeer.Txattrwalk(0, f, (f+1)%uint32(len(fids)), ""), rawpeer.Txattrwalk(0, f, (f+1)%uint32(len(fids)), "user.k"), rawpeer.Txattrwalk(0, f, f, "missing"))
		// an xattr walk IN PLACE that succeeds: the new binding replaces the old
		// one and starts unopened, whatever the old one's state was
		a = append(a, rawpeer.Txattrwalk(0, f, f, "user.k"), rawpeer.Txattrwalk(0, f, f, ""))
		a = append(a, rawpeer.Txattrcreate(0, f, "user.n", 2, 0), rawpeer.Txattrcreate(0, f, "user.k", 0, 2), rawpeer.Txattrcreate(0, f, "user.n", 0, 1))
		// a one-byte attribute and a two-byte chunk: a write that OVERSHOOTS the
		// announced size is refused and must change nothing (the one-byte chunk
		// sent afterwards is still the first chunk)
		a = append(a, rawpeer.Txattrcreate(0, f, "user.m", 1, 0), rawpeer.Twrite(0, f, 0, []byte("WW")))
		for _, g := range fids {
			if g == f {
				continue
			}
			a = append(a, rawpeer.Tlink(0, f, g, "a"), rawpeer.Trename(0, f, g, "a"), rawpeer.Trenameat(0, f, "x", g, "a"), rawpeer.Trenameat(0, f, "f", g, "x"))
		}
		a = append(a, rawpeer.Trenameat(0, f, "x", f, "a"), rawpeer.Trenameat(0, f, "d", f, "a"))
	}
	return a
}

func run(ctx *fw.Ctx, rep *fw.Report) {
	depth := 4
	if !ctx.Quick() {
		depth = 6
	}
	alpha := alphabet(ctx.Quick())
	rep.Rule = fmt.Sprintf("explicit-state BFS over request histories: alphabet of %d concrete T-messages (attach incl. auth fid and attach names, Tauth, walk/walkgetattr with 7 name lists incl. clone, in-place and onto bound fids, lopen x3 modes, lcreate, read, write, readdir, fsync, clunk, remove, mkdir, symlink, mknod, link, unlinkat, rename, renameat, getattr, setattr, readlink, statfs, lock, xattrwalk, xattrcreate) over fids {0,1[,2]} and a 4-node tree; successor = replay of the shortest history on a fresh real server + 1 request; every reply compared with the reference model, rejected requests must not reach the backend; state key = model state + backend tree + server path-tree shape + live backend handles; depth target %d; plus (b) four PIPELINED two-request sequences (Tlopen whose backend Open fails, with Tread/Twrite/Tfsync/Treaddir on the same fid in flight behind it), all interleavings (DPOR): the second request must be refused and must not reach the backend; distinct = distinct (request type, reply type, errno) classes observed", len(alpha), depth)
	rep.Assumptions = append(rep.Assumptions, "reference model harness/refmodel written from the property texts; don't-cares of DESIGN §4.0", "lock-step histories (one request in flight)", "names are valid path components (C09 owns invalid ones)")
	cfg := &histex.Config{Name: "c04", Tree: tree, Alphabet: alpha, MaxDepth: depth}
	histex.Explore(ctx, rep, cfg)
	runPipelined(ctx, rep)
}
