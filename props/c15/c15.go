// Package c15 checks fault containment (DESIGN.md §4 C15): a backend error or
// panic injected at EVERY backend call index of every history of a corpus
// affects only its request.
package c15

import (
	"fmt"
	"sort"
	"strings"
	"time"

	"verif/harness/fw"
	"verif/harness/memfs"
	"verif/harness/oracle"
	"verif/harness/rawpeer"
	"verif/harness/refcodec"
	"verif/harness/refmodel"
	"verif/harness/sess"
	"verif/rt/vsched"
)

func init() {
	fw.Register(&fw.Prop{ID: "C15", Run: run, Sharded: true, QuickSecs: 80, ThoroughSecs: 1500})
}

func tree() (*memfs.FS, *refmodel.Model) {
	fs := memfs.New()
	fs.AddFile("d/x", []byte("hello world"))
	fs.AddFile("d/sub/y", []byte("deep"))
	fs.AddFile("f", []byte("0123456789"))
	fs.MkdirP("e")
	fs.AddNode("s", 0o120777, nil, "f")
	fs.Root.Children["f"].Xattrs["user.k"] = []byte("vv")
	m := refmodel.New()
	m.Add("d/x", refmodel.KFile, "hello world")
	m.Add("d/sub/y", refmodel.KFile, "deep")
	f := m.Add("f", refmodel.KFile, "0123456789")
	f.Xattrs["user.k"] = []byte("vv")
	m.Add("e/.keep", refmodel.KFile, "")
	delete(m.Root.Children["e"].Children, ".keep")
	sl := m.Add("s", refmodel.KSymlink, "")
	sl.Target = "f"
	return fs, m
}

type history struct {
	name string
	reqs []refcodec.Msg
}

func corpus(quick bool) []history {
	hs := []history{
		{"failed-3-step-walk", []refcodec.Msg{rawpeer.Tattach(0, 1, ""), rawpeer.Twalk(0, 1, 2, "d", "x", "nope"), rawpeer.Twalk(0, 1, 2, "d", "x"), rawpeer.Tclunk(0, 2)}},
		{"fid-replacement", []refcodec.Msg{rawpeer.Tattach(0, 1, ""), rawpeer.Twalk(0, 1, 2, "d"), rawpeer.Twalk(0, 1, 2, "f"), rawpeer.Tattach(0, 2, "e"), rawpeer.Twalk(0, 2, 1), rawpeer.Tgetattr(0, 1)}},
		{"create-rebind", []refcodec.Msg{rawpeer.Tattach(0, 1, ""), rawpeer.Twalk(0, 1, 5, "e"), rawpeer.Tlcreate(0, 5, "n", 2), rawpeer.Twrite(0, 5, 0, []byte("abc")), rawpeer.Tread(0, 5, 0, 8), rawpeer.Tclunk(0, 5), rawpeer.Twalk(0, 1, 5, "e", "n")}},
		{"xattr", []refcodec.Msg{rawpeer.Tattach(0, 1, ""), rawpeer.Twalk(0, 1, 2, "f"), rawpeer.Txattrwalk(0, 2, 6, "user.k"), rawpeer.Tread(0, 6, 0, 2), rawpeer.Tclunk(0, 6), rawpeer.Txattrcreate(0, 2, "user.n", 3, 0), rawpeer.Twrite(0, 2, 0, []byte("xyz")), rawpeer.Tclunk(0, 2)}},
		{"rename-unlink-referenced", []refcodec.Msg{rawpeer.Tattach(0, 1, ""), rawpeer.Twalk(0, 1, 2, "f"), rawpeer.Twalk(0, 1, 3, "d", "x"), rawpeer.Twalk(0, 1, 4, "d"), rawpeer.Trenameat(0, 1, "f", 4, "g"), rawpeer.Tgetattr(0, 2),
			rawpeer.Tunlinkat(0, 4, "g"), rawpeer.Tgetattr(0, 2), rawpeer.Trename(0, 3, 1, "y"), rawpeer.Tremove(0, 3), rawpeer.Tclunk(0, 2)}},
		{"rename-dir-with-descendants", []refcodec.Msg{rawpeer.Tattach(0, 1, ""), rawpeer.Twalk(0, 1, 2, "d", "x"), rawpeer.Twalk(0, 1, 3, "d"), rawpeer.Twalk(0, 1, 4, "e"), rawpeer.Trenameat(0, 1, "d", 4, "dd"), rawpeer.Tgetattr(0, 2), rawpeer.Twalk(0, 3, 5, "x")}},
		// fids TWO levels below the renamed directory: their notifications are delivered from inside the recursive traversal of the path tree
		{"rename-dir-with-deep-descendants", []refcodec.Msg{rawpeer.Tattach(0, 1, ""), rawpeer.Twalk(0, 1, 2, "d", "sub", "y"), rawpeer.Twalk(0, 1, 3, "d", "sub"), rawpeer.Twalk(0, 1, 6, "d"), rawpeer.Twalk(0, 1, 4, "e"), rawpeer.Trenameat(0, 1, "d", 4, "dd"), rawpeer.Tgetattr(0, 2),
			// a walk from the renamed directory to a name nobody has walked to yet (takes the directory's child lock for writing)
			rawpeer.Twalk(0, 6, 7, "x"), rawpeer.Twalk(0, 3, 5, "y"), rawpeer.Tclunk(0, 2)}},
		{"attach-name-remove", []refcodec.Msg{rawpeer.Tattach(0, 1, "d/x"), rawpeer.Tattach(0, 1, "d"), rawpeer.Twalk(0, 1, 3, "x"), rawpeer.Tremove(0, 3), rawpeer.Tremove(0, 1)}},
		{"open-readdir", []refcodec.Msg{rawpeer.Tattach(0, 1, ""), rawpeer.Twalkgetattr(0, 1, 2, "d"), rawpeer.Tlopen(0, 2, 0), rawpeer.Treaddir(0, 2, 0, 4000), rawpeer.Tclunk(0, 2)}},
		{"make-nodes", []refcodec.Msg{rawpeer.Tattach(0, 1, ""), rawpeer.Tmkdir(0, 1, "nd"), rawpeer.Tsymlink(0, 1, "sl", "f"), rawpeer.Twalk(0, 1, 2, "f"), rawpeer.Tlink(0, 1, 2, "hl"), rawpeer.Tmknod(0, 1, "fifo", 0o10644), rawpeer.Twalk(0, 1, 3, "s"), rawpeer.Treadlink(0, 3), rawpeer.Tsetattr(0, 2, 1, 0o600, 0), rawpeer.Tfsync(0, 2), rawpeer.Tstatfs(0, 1), rawpeer.Tlock(0, 2)}},
	}
	// Systematic part: attach, then every pair of requests from a structural alphabet.
	alpha := []refcodec.Msg{
		rawpeer.Twalk(0, 1, 2, "d"), rawpeer.Twalk(0, 1, 2, "d", "x"), rawpeer.Twalk(0, 1, 3, "f"), rawpeer.Twalk(0, 2, 3), rawpeer.Twalk(0, 2, 3, "x"),
		rawpeer.Tlcreate(0, 2, "n", 2), rawpeer.Tmkdir(0, 1, "n"), rawpeer.Tmkdir(0, 2, "n"), rawpeer.Tunlinkat(0, 1, "f"), rawpeer.Tunlinkat(0, 2, "x"),
		rawpeer.Trenameat(0, 1, "f", 1, "g"), rawpeer.Trenameat(0, 1, "d", 1, "dd"), rawpeer.Trenameat(0, 2, "x", 1, "xx"), rawpeer.Trename(0, 3, 1, "r"), rawpeer.Trename(0, 2, 1, "r"),
		rawpeer.Tremove(0, 3), rawpeer.Tremove(0, 2), rawpeer.Tclunk(0, 2), rawpeer.Tclunk(0, 3), rawpeer.Tlopen(0, 3, 2), rawpeer.Tlopen(0, 2, 0),
		rawpeer.Tread(0, 3, 0, 4), rawpeer.Twrite(0, 3, 0, []byte("w")), rawpeer.Tgetattr(0, 2), rawpeer.Tsetattr(0, 3, 1, 0o600, 0), rawpeer.Treaddir(0, 2, 0, 4000),
		rawpeer.Txattrwalk(0, 3, 4, ""), rawpeer.Tattach(0, 2, "d"),
	}
	pre := []refcodec.Msg{rawpeer.Tattach(0, 1, ""), rawpeer.Twalk(0, 1, 2, "d"), rawpeer.Twalk(0, 1, 3, "f")}
	for i, a := range alpha {
		hs = append(hs, history{fmt.Sprintf("sys-%d", i), append(append([]refcodec.Msg{}, pre...), a)})
		for j, b := range alpha {
			hs = append(hs, history{fmt.Sprintf("sys-%d-%d", i, j), append(append([]refcodec.Msg{}, pre...), a, b)})
		}
	}
	if !quick {
		// thorough: all ordered TRIPLES over the structural core of the alphabet
		core := []int{1, 3, 5, 8, 9, 11, 12, 13, 15, 17, 19, 26}
		for _, i := range core {
			for _, j := range core {
				for _, k := range core {
					hs = append(hs, history{fmt.Sprintf("sys-%d-%d-%d", i, j, k), append(append([]refcodec.Msg{}, pre...), alpha[i], alpha[j], alpha[k])})
				}
			}
		}
	}
	return hs
}

type fault struct {
	name  string
	errno uint32
	panic bool
}

var faults = []fault{{"EIO", 5, false}, {"errno-117", 117, false}, {"panic", 14, true}}

type params struct {
	History string `json:"history"`
	Call    int    `json:"backend_call_index"`
	Fault   string `json:"fault"`
	Method  string `json:"faulted_method,omitempty"`
}

type result struct {
	calls   int
	methods []string
}

// execute runs one history with an optional fault and returns the issues.
func execute(h history, k int, f *fault, res *result) (func(), func(*vsched.Execution) ([]fw.Issue, string)) {
	var issues []fw.Issue
	var fs *memfs.FS
	var faultedMethod, outcome string
	add := func(fp, s string) { issues = append(issues, fw.Issue{Fingerprint: fp, Summary: s}) }
	var sessions []*sess.Sess
	body := func() {
		issues = nil
		var model *refmodel.Model
		fs, model = tree()
		memfs.RecordSites = false
		srv := sess.NewServer(fs)
		s := sess.Connect(fs, srv, "c1")
		sessions = []*sess.Sess{s}
		s.Version(8192)
		base := len(fs.Calls)
		fired := false
		if f != nil {
			fs.Hook = func(c *memfs.Call) *memfs.Action {
				if c.Seq-base == k && !fired {
					fired = true
					faultedMethod = c.Method
					if f.panic {
						return &memfs.Action{Panic: "injected backend panic"}
					}
					return &memfs.Action{Err: linuxErrno(f.errno)}
				}
				return nil
			}
		}
		trusted := true // model still tracks the implementation
		for i, req := range h.reqs {
			req.Tag = uint16(i + 1)
			out := model.Step(req)
			wasFired := fired
			reply := s.Do(req)
			hit := fired && !wasFired
			if hit {
				code := rawpeer.Errno(reply)
				switch {
				case f.panic:
					if reply.Type != refcodec.Rlerror || code != 14 {
						add("panic-not-answered-efault|"+req.Name()+"|"+faultedMethod, fmt.Sprintf("%s: backend %s panicked during %s but the reply is %v (want Rlerror EFAULT)", h.name, faultedMethod, req, reply))
					}
					trusted = false // after a panic only liveness is asserted
				case faultedMethod == "Close" || faultedMethod == "Renamed":
					// errors of Close are ignored by contract, Renamed cannot
					// fail: the request may succeed. But if the server chooses
					// to report the failed Close of an otherwise successful
					// request, it is "answered with Rlerror (the error's errno)".
					if faultedMethod == "Close" && out.Expect.Class == "ok" && reply.Type == refcodec.Rlerror && code != f.errno {
						add("close-error-reported-with-another-errno|"+req.Name(), fmt.Sprintf("%s: backend Close returned errno %d during %s, which would have succeeded otherwise; the reply is %v", h.name, f.errno, req, reply))
					}
				case faultedMethod == "WalkGetAttr" && f.errno == 38:
				default:
					if reply.Type != refcodec.Rlerror || code != f.errno {
						add("error-not-reported|"+req.Name()+"|"+faultedMethod, fmt.Sprintf("%s: backend %s returned errno %d during %s but the reply is %v", h.name, faultedMethod, f.errno, req, reply))
					}
				}
				outcome = fmt.Sprintf("%s@%s->%s/%d", faultedMethod, req.Name(), reply.Name(), code)
			} else if trusted {
				if v := out.Expect.Verdict(req, reply); v != "" {
					what := "before the fault"
					if fired {
						what = "AFTER the fault (state is not as if the failed request had not run)"
					}
					add("model-"+strings.Fields(what)[0]+"|"+req.Name()+"|"+generalize(v), fmt.Sprintf("%s, request %d %s: %s", h.name, i, what, v))
				}
			}
			if out.Apply != nil && trusted {
				out.Apply(reply)
			}
			if trusted && !model.Poisoned && (hit || fired) {
				for _, is := range liveIssues(fs, model) {
					add(is.Fingerprint+"|after-"+faultedMethod, h.name+": "+is.Summary)
				}
			}
		}
		// Follow-ups on the same connection: every bound fid, and write
		// operations in the directories the history touched.
		follow := []refcodec.Msg{rawpeer.Tattach(0, 50, ""), rawpeer.Tmkdir(0, 50, "fu1"), rawpeer.Twalk(0, 50, 51, "d"), rawpeer.Tmkdir(0, 51, "fu2"), rawpeer.Twalk(0, 50, 52, "e"), rawpeer.Tmkdir(0, 52, "fu3"),
			rawpeer.Trenameat(0, 50, "fu1", 50, "fu1b"), rawpeer.Tunlinkat(0, 50, "fu1b")}
		var bound []int
		for fid := range model.Fids {
			bound = append(bound, int(fid))
		}
		sort.Ints(bound)
		for _, fid := range bound {
			follow = append(follow, rawpeer.Tgetattr(0, uint32(fid)))
		}
		for i, req := range follow {
			req.Tag = uint16(100 + i)
			s.Do(req) // must be answered: a leaked lock deadlocks here
		}
		// Fids the history used and the model says are no longer bound (after
		// an error: "Tclunk/Tremove still unbind", and a failed walk binds
		// nothing) must really be unbound.
		if trusted && !model.Poisoned {
			used := map[uint32]bool{}
			for _, req := range h.reqs {
				for _, fld := range []string{"fid", "newfid", "afid", "dfid", "dirfd", "olddirfid", "newdirfid"} {
					if v, ok := fieldU(req, fld); ok && v < 1000 {
						used[uint32(v)] = true
					}
				}
			}
			var stale []int
			for fid := range used {
				if _, bound := model.Fids[fid]; !bound {
					stale = append(stale, int(fid))
				}
			}
			sort.Ints(stale)
			for i, fid := range stale {
				r := s.Do(tagOf(rawpeer.Tgetattr(0, uint32(fid)), uint16(150+i)))
				if r.Type != refcodec.Rlerror || rawpeer.Errno(r) != 9 {
					add("fid-still-bound-after-fault|"+faultedMethod, fmt.Sprintf("%s: fid %d is unbound in the reference model after the history (with the injected %s in %s), but Tgetattr through it is answered %v, want EBADF", h.name, fid, fname(f), faultedMethod, r))
				}
			}
		}
		// A second connection touching the same paths.
		s2 := sess.Connect(fs, srv, "c2")
		sessions = append(sessions, s2)
		s2.Version(8192)
		for i, req := range []refcodec.Msg{rawpeer.Tattach(0, 1, ""), rawpeer.Twalk(0, 1, 2, "d"), rawpeer.Tmkdir(0, 2, "fu4"), rawpeer.Tmkdir(0, 1, "fu5"), rawpeer.Trenameat(0, 1, "fu5", 2, "fu6"), rawpeer.Tgetattr(0, 2)} {
			req.Tag = uint16(200 + i)
			s2.Do(req)
		}
		if res != nil {
			// Calls made while a request is being served; Close calls of the
			// connection teardown are not "of any request" (DESIGN §4.0).
			res.calls = len(fs.Calls) - base
			for _, c := range fs.Calls[base:] {
				res.methods = append(res.methods, c.Method)
			}
		}
		if f != nil && f.panic {
			// After a panic the model is no longer followed and leaks are not
			// judged (DESIGN §4.0), but "only that request is affected" still
			// rules out that LATER requests are served from a File that has
			// been closed, or close it again.
			for _, pr := range fs.Problems {
				// (memfs also reports a child whose PARENT handle is closed; after
				// a panic inside Close itself that state is undefined: not judged)
				if (pr.Kind == "use-after-close" || pr.Kind == "double-close") && !strings.Contains(pr.Detail, "needs parent handle") {
					add("after-panic|backend|"+pr.Kind, fmt.Sprintf("%s: after the injected panic in %s: %s", h.name, faultedMethod, pr.Detail))
					break
				}
			}
		}
		for _, x := range sessions {
			x.Hangup()
			x.WaitDone()
		}
		if f == nil || !f.panic {
			for _, is := range oracle.LifecycleIssues(fs, true) {
				add(is.Fingerprint, h.name+" and disconnect: "+is.Summary)
			}
		}
		_ = model
	}
	check := func(e *vsched.Execution) ([]fw.Issue, string) {
		is := issues
		if e.End == vsched.EndDeadlock {
			is = append(is, fw.Issue{Fingerprint: "not-served-after-fault|" + faultedMethod, Summary: fmt.Sprintf("%s: after the injected %s in %s a later request is never answered (a lock or reference was not released): %s", h.name, fname(f), faultedMethod, e.Blocked)})
		}
		return is, outcome
	}
	return body, check
}

// fieldU returns the named integer field of a message, if its type has one.
func fieldU(m refcodec.Msg, name string) (v uint64, ok bool) {
	defer func() {
		if recover() != nil {
			ok = false
		}
	}()
	return m.U(name), true
}

func tagOf(m refcodec.Msg, t uint16) refcodec.Msg { m.Tag = t; return m }

func fname(f *fault) string {
	if f == nil {
		return "nothing"
	}
	return f.name
}

type errnoErr uint32

func (e errnoErr) Error() string { return fmt.Sprintf("errno %d", uint32(e)) }

func run(ctx *fw.Ctx, rep *fw.Report) {
	rep.Rule = "corpus = 10 hand-written histories (failed multi-step walks, fid replacement, create-rebind, xattr fids, rename/unlink of referenced entries, directory rename with live descendants one and two levels below, attach names, open/readdir, node creation) + every history [attach; walk d; walk f; a; b] for all ordered pairs (a,b) of a 28-request structural alphabet (thorough: also all ordered triples over 12 of them); for EVERY backend call index k of each history and every fault in {EIO, errno 117, panic} the fault is injected at call k and the history continues, followed by follow-up requests on every bound fid, write operations in every directory and a second connection on the same paths; each case is one execution under the controlled scheduler (default schedule) so that an unreleased lock shows as a precise deadlock instead of a hang; oracle: faulted request answered Rlerror(errno) / EFAULT, every later request answered, after an error the replies agree with the reference model from the pre-fault state (Tclunk/Tremove unbound), live backend handles == needed handles, every handle closed exactly once at disconnect (after a panic instead: no later request uses a closed File or closes one twice)"
	rep.Assumptions = append(rep.Assumptions, "errors of Close and Renamed need not be reported (File contract: Close errors are ignored, Renamed cannot fail); a Close error that IS reported must be reported with its own errno", "after a panic the model is no longer followed and leaks are not judged (DESIGN §4.0); asserted: every later request is answered, and none is served from a File that has been closed or closes one again", "injected errors happen at call entry: the failing call itself has no effect", "default schedule only: schedule-dependent fault handling is covered by C05/C16")
	hs := corpus(ctx.Quick())
	rep.Info["histories"] = len(hs)
	idx := 0
	faultPoints := int64(0)
	for _, h := range hs {
		idx++
		if !ctx.Mine(idx) {
			continue
		}
		if ctx.Filter != "" && !strings.Contains(h.name, ctx.Filter) {
			continue
		}
		if ctx.Replay != nil && !strings.HasPrefix(ctx.Replay.Scenario, h.name+"|") {
			continue
		}
		if ctx.Expired() {
			rep.NotExhaustive("tier budget exhausted before history " + h.name)
			continue
		}
		h := h
		// fault-free run: count the backend calls
		var res result
		fw.RunScenario(ctx, rep, &fw.Scenario{Name: h.name + "|no-fault", Params: params{History: h.name, Call: -1}, DeadlockOK: true,
			New: func() (func(), func(*vsched.Execution) ([]fw.Issue, string)) { return execute(h, -1, nil, &res) }}, fw.SchedOpts{Budget: time.Minute, ForcePB: -1, Deviations: -1, NoReplayCheck: true})
		for k := 0; k < res.calls; k++ {
			for fi := range faults {
				f := &faults[fi]
				k := k
				method := ""
				if k < len(res.methods) {
					method = res.methods[k]
				}
				sc := &fw.Scenario{Name: fmt.Sprintf("%s|call%d|%s", h.name, k, f.name), Params: params{h.name, k, f.name, method}, DeadlockOK: true,
					New: func() (func(), func(*vsched.Execution) ([]fw.Issue, string)) { return execute(h, k, f, nil) }}
				fw.RunScenario(ctx, rep, sc, fw.SchedOpts{Budget: time.Minute, ForcePB: -1, Deviations: -1, NoReplayCheck: k%7 != 0})
				faultPoints++
			}
		}
	}
	rep.Count("fault_points", faultPoints)
}
