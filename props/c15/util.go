package c15

import (
	"fmt"
	"strings"

	"github.com/hugelgupf/p9/linux"
	"verif/harness/memfs"
	"verif/harness/refmodel"
)

func linuxErrno(e uint32) error { return linux.Errno(e) }

func generalize(s string) string {
	var sb strings.Builder
	inNum := false
	for _, r := range s {
		if r >= '0' && r <= '9' {
			if !inNum {
				sb.WriteByte('#')
			}
			inNum = true
			continue
		}
		inNum = false
		sb.WriteRune(r)
	}
	out := sb.String()
	if len(out) > 160 {
		out = out[:160]
	}
	return out
}

type liveIssue struct{ Fingerprint, Summary string }

// liveIssues: see histex.liveIssues (same accounting, judged from the
// backend's own view).
func liveIssues(fs *memfs.FS, model *refmodel.Model) []liveIssue {
	var is []liveIssue
	isParent := map[*memfs.Handle]bool{}
	for _, h := range fs.Handles {
		if h.Closed == 0 && h.Parent != nil {
			isParent[h.Parent] = true
		}
	}
	live := map[uint64]int{}
	leaf := map[uint64]int{}
	for _, h := range fs.Handles {
		if h.Closed == 0 {
			live[h.Ino.ID]++
			if !isParent[h] {
				leaf[h.Ino.ID]++
			}
		}
	}
	need := map[uint64]int{}
	for _, f := range model.Fids {
		q, ok := model.QidOf[f.Obj.ID]
		if !ok {
			return nil
		}
		need[q]++
	}
	for ino, n := range need {
		if live[ino] < n {
			is = append(is, liveIssue{"lifecycle|file-closed-while-fid-bound", fmt.Sprintf("%d fids are bound to inode %d but only %d backend handles on it are open", n, ino, live[ino])})
		}
	}
	for ino, n := range leaf {
		if n > need[ino] {
			is = append(is, liveIssue{"lifecycle|file-leaked", fmt.Sprintf("%d open backend handles on inode %d are needed by nothing (%d fids bound to it)", n, ino, need[ino])})
		}
	}
	return is
}
