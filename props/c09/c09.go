// Package c09 checks name confinement (DESIGN.md §4 C09): no path component
// that is empty, ".", ".." or contains '/' ever reaches the backend; requests
// carrying such a name fail with EINVAL before the backend is involved;
// multi-component walks (including the attach name) advance one component at
// a time and only through nodes the backend reported as directories.
//
// The check is a complete product: name alphabet × every name position of
// every name-bearing request, attach names (the property's list plus every
// combination of ≤3 alphabet components, with and without a leading '/'),
// every Twalk/Twalkgetattr name list of ≤3 alphabet components, and walks
// whose intermediate node is a file, symlink, fifo, device or socket. Every
// case is sent by a raw peer (refcodec bytes) to the real server over memfs.
package c09

import (
	"encoding/json"
	"fmt"
	"os"
	"strings"
	"sync/atomic"
	"time"

	"github.com/hugelgupf/p9/linux"
	"github.com/hugelgupf/p9/p9"
	"verif/harness/fw"
	"verif/harness/memfs"
	"verif/harness/rawpeer"
	"verif/harness/refcodec"
	"verif/harness/sess"
)

func init() {
	fw.Register(&fw.Prop{ID: "C09", Level: "model_checking", Run: run, Sharded: true, QuickSecs: 120, ThoroughSecs: 900})
}

const einval = 22

// ---------------------------------------------------------------------------
// Alphabet.

type alpha struct {
	Label string
	Name  string
}

var alphabet = []alpha{
	{"empty", ""},
	{"dot", "."},
	{"dotdot", ".."},
	{"slash", "/"},
	{"a/b", "a/b"},
	{"/a", "/a"},
	{"a/", "a/"},
	{"a//b", "a//b"},
	{"./a", "./a"},
	{"a/..", "a/.."},
	{"..a", "..a"},
	{"...", "..."},
	{"nul", "a\x00b"},
	{"highbytes", "\xff\xfe"},
	{"space", " "},
	{"len255", strings.Repeat("a", 255)},
	{"len65535", strings.Repeat("a", 65535)},
	{"ok", "ok"},
}

// The property's own list of attach names (trailing '/' instantiated twice).
var attachList = []string{"", "/", "a//b", "/../x", "a/./b", "a/", "/a/b/", "ok/", "/ok/ok/"}

// bad is the property's definition of a name that must never reach the backend.
func bad(n string) bool {
	return n == "" || n == "." || n == ".." || strings.Contains(n, "/")
}

// class names the reason a name is bad (for fingerprints).
func class(n string) string {
	switch {
	case n == "":
		return "empty"
	case n == ".":
		return "dot"
	case n == "..":
		return "dotdot"
	case strings.Contains(n, "/"):
		return "contains-slash"
	}
	return "legal"
}

func label(n string) string {
	for _, a := range alphabet {
		if a.Name == n {
			return a.Label
		}
	}
	if len(n) > 24 {
		return fmt.Sprintf("%q...(%d bytes)", n[:24], len(n))
	}
	return fmt.Sprintf("%q", n)
}

func labels(ns []string) string {
	var out []string
	for _, n := range ns {
		out = append(out, label(n))
	}
	return "[" + strings.Join(out, ",") + "]"
}

// ---------------------------------------------------------------------------
// Cases.

// params describes one case completely (replayable).
type params struct {
	Kind string `json:"kind"` // name | renameat2 | walk | attach | nondir
	// name: single name position
	Pos string `json:"pos,omitempty"`
	// indices into the alphabet: the name (name), old/new (renameat2), the
	// components (walk, attach built from components)
	Idx []int `json:"idx,omitempty"`
	// walk / nondir: request type
	Msg string `json:"msg,omitempty"` // Twalk | Twalkgetattr | Tattach
	// attach
	Lead bool `json:"lead,omitempty"` // leading '/'
	Lit  int  `json:"lit,omitempty"`  // 1+index into attachList when the name is literal
	// backend variant
	WGA bool `json:"walkgetattr_impl"`
	// nondir
	Node  string `json:"node,omitempty"`
	Shape string `json:"shape,omitempty"`
}

func (p params) names() []string {
	var out []string
	for _, i := range p.Idx {
		out = append(out, alphabet[i].Name)
	}
	return out
}

var namePositions = []string{"Tlcreate", "Tucreate", "Tmkdir", "Tumkdir", "Tsymlink", "Tusymlink", "Tlink", "Tmknod", "Tumknod", "Trename", "Trenameat.old", "Trenameat.new", "Tunlinkat"}

var nodeKinds = []struct {
	Name string
	Mode p9.FileMode
}{
	{"dir", p9.ModeDirectory | 0o755}, // control: walking through it is fine
	{"file", p9.ModeRegular | 0o644},
	{"symlink", p9.ModeSymlink | 0o777},
	{"fifo", p9.ModeNamedPipe | 0o644},
	{"chardev", p9.ModeCharacterDevice | 0o644},
	{"blockdev", p9.ModeBlockDevice | 0o644},
	{"socket", p9.ModeSocket | 0o644},
}

var derivedShapes = []string{"walked", "clone", "clone-of-clone", "two-step-walk", "created", "walked-then-entry-renamed", "clone-then-entry-renamed", "clone-onto-same-fid"}

var nondirShapes = []string{"root:[node,x]", "root:[node,x,y]", "root:[ok,node,x]", "fid(node):[x]", "fid(node):[x,y]", "attach:node/x", "attach:/node/x", "attach:ok/node/x"}

// enumerate calls f for every case of the tier, in a fixed order.
func enumerate(quick bool, f func(p params)) {
	for _, wga := range []bool{false, true} {
		// (1) every name position × alphabet (the walk positions are below).
		for _, pos := range namePositions {
			for i := range alphabet {
				f(params{Kind: "name", Pos: pos, Idx: []int{i}, WGA: wga})
			}
		}
		// (2) Trenameat old × new, complete product.
		for i := range alphabet {
			for j := range alphabet {
				f(params{Kind: "renameat2", Idx: []int{i, j}, WGA: wga})
			}
		}
		// (3) Twalk / Twalkgetattr name lists.
		for _, msg := range []string{"Twalk", "Twalkgetattr"} {
			forLists(quick, func(idx []int) {
				f(params{Kind: "walk", Msg: msg, Idx: idx, WGA: wga})
			})
		}
		// (4) attach names.
		for i := range attachList {
			f(params{Kind: "attach", Msg: "Tattach", Lit: i + 1, WGA: wga})
		}
		for _, lead := range []bool{false, true} {
			forLists(quick, func(idx []int) {
				f(params{Kind: "attach", Msg: "Tattach", Idx: idx, Lead: lead, WGA: wga})
			})
		}
		// (6) names the SERVER derives: the old name of Trename and the name of
		// Tremove are not in the request; the server looks up what the fid's
		// entry is called now, whatever way the fid came into being.
		for _, sh := range derivedShapes {
			for _, msg := range []string{"Trename", "Tremove"} {
				f(params{Kind: "derived", Msg: msg, Shape: sh, WGA: wga})
			}
		}
		// (5) intermediate non-directories.
		for _, nk := range nodeKinds {
			for _, sh := range nondirShapes {
				msgs := []string{"Twalk", "Twalkgetattr"}
				if strings.HasPrefix(sh, "attach:") {
					msgs = []string{"Tattach"}
				}
				for _, msg := range msgs {
					f(params{Kind: "nondir", Msg: msg, Node: nk.Name, Shape: sh, WGA: wga})
				}
			}
		}
	}
}

// forLists enumerates component lists of length 1..3 over the alphabet: the
// complete product, or (reduced, currently unused because the product is
// cheap) lengths 1 and 2 complete and length 3 with at most one component
// different from "ok".
func forLists(quick bool, f func(idx []int)) {
	n := len(alphabet)
	ok := n - 1
	for i := 0; i < n; i++ {
		f([]int{i})
	}
	for i := 0; i < n; i++ {
		for j := 0; j < n; j++ {
			f([]int{i, j})
		}
	}
	for i := 0; i < n; i++ {
		for j := 0; j < n; j++ {
			for k := 0; k < n; k++ {
				if quick {
					dev := 0
					for _, x := range []int{i, j, k} {
						if x != ok {
							dev++
						}
					}
					if dev > 1 {
						continue
					}
				}
				f([]int{i, j, k})
			}
		}
	}
}

// ---------------------------------------------------------------------------
// Running one case.

type env struct {
	fs *memfs.FS
	s  *sess.Sess
}

func start(msize uint32, wga bool, build func(fs *memfs.FS)) *env {
	fs := memfs.New()
	fs.WalkGetAttrImpl = wga
	build(fs)
	s := sess.Connect(fs, sess.NewServer(fs), "c09")
	s.Version(msize)
	return &env{fs: fs, s: s}
}

func (e *env) stop() {
	e.s.Hangup()
	e.s.WaitDone()
}

func msizeFor(m refcodec.Msg) uint32 {
	n := len(refcodec.Encode(m))
	if n+64 > 8192 {
		return 1 << 20
	}
	return 8192
}

// result of one case.
type result struct {
	outcome string          // for Distinct
	core    []*fw.Violation // confinement clause proper (what reached the backend)
	viol    []*fw.Violation // request-level clauses (EINVAL first, one step at a time ...)
	steps   int64           // requests executed
	evals   int64
}

func (r *result) violate(p params, fp, summary string, detail ...string) {
	r.viol = append(r.viol, &fw.Violation{Fingerprint: fp, Summary: summary, Scenario: p.Kind, Params: fw.JSON(p), Detail: detail})
}

func (r *result) violateCore(p params, fp, summary string, detail ...string) {
	r.core = append(r.core, &fw.Violation{Fingerprint: fp, Summary: summary, Scenario: p.Kind, Params: fw.JSON(p), Detail: detail})
}

// final reduces the findings of one case to the most fundamental one, so that
// one defect does not fan out into a fingerprint per consequence: a bad
// component at the backend outranks the receiver-kind / one-step clauses,
// which outrank the reply clauses (they are evaluated in that order).
func (r *result) final() []*fw.Violation {
	if len(r.core) > 0 {
		return r.core[:1]
	}
	if len(r.viol) > 0 {
		return r.viol[:1]
	}
	return nil
}

func describeCalls(calls []*memfs.Call) []string {
	var out []string
	for i, c := range calls {
		if i >= 12 {
			out = append(out, fmt.Sprintf("... %d more", len(calls)-i))
			break
		}
		out = append(out, fmt.Sprintf("backend call %s on handle %d (%s) names=%s err=%v", c.Method, c.Handle, pathDesc(c.Path), labels(c.Names), c.Err))
	}
	return out
}

// pathDesc renders a memfs path with the alphabet labels (no raw bytes).
func pathDesc(p string) string {
	if p == "/" {
		return "/"
	}
	var out []string
	for _, c := range strings.Split(strings.TrimPrefix(p, "/"), "/") {
		out = append(out, label(c))
	}
	return "/" + strings.Join(out, "/")
}

// nondirClass groups receiver kinds for fingerprints.
func nondirClass(m p9.FileMode) string {
	if m.IsSymlink() {
		return "symlink"
	}
	return "other-non-directory"
}

func replyDesc(m refcodec.Msg) string {
	if m.Type == refcodec.Rlerror {
		return fmt.Sprintf("Rlerror(%d)", rawpeer.Errno(m))
	}
	return m.Name()
}

// namedCalls returns the calls that carry a path component.
func namedCalls(calls []*memfs.Call) []*memfs.Call {
	var out []*memfs.Call
	for _, c := range calls {
		if len(c.Names) > 0 {
			out = append(out, c)
		}
	}
	return out
}

// checkNoBadRecorded is the core confinement clause, applied to every backend
// call of the whole session.
func checkNoBadRecorded(r *result, p params, fs *memfs.FS, where string) {
	r.evals++
	for _, c := range fs.Calls {
		for _, n := range c.Names {
			if bad(n) {
				r.violateCore(p, fmt.Sprintf("bad-component-reached-backend|%s|%s", where, class(n)),
					fmt.Sprintf("%s: backend method %s received the path component %s", where, c.Method, label(n)),
					describeCalls([]*memfs.Call{c})...)
			}
		}
	}
	for _, pr := range fs.Problems {
		switch pr.Kind {
		case "bad-name":
			// memfs's own observation of the same clause (a net under ours).
			r.violateCore(p, fmt.Sprintf("memfs-bad-name|%s", where), "memfs: "+fw.Short(pr.Detail, 200))
		case "walk-from-nondir":
			r.violate(p, fmt.Sprintf("memfs-walk-from-nondir|%s", where), "memfs: "+fw.Short(pr.Detail, 200))
		}
	}
}

// badRequest evaluates "such requests fail with EINVAL first" for a request
// that carries at least one bad name. allowNameless permits backend calls
// without any name argument (the attach preamble Attach/GetAttr/Close).
func badRequest(r *result, p params, where, cls string, reply refcodec.Msg, calls []*memfs.Call, allowNameless bool) {
	r.evals++
	named := namedCalls(calls)
	if len(named) > 0 {
		r.violate(p, fmt.Sprintf("backend-reached-with-name-before-einval|%s|%s", where, cls),
			fmt.Sprintf("%s carrying a %s name: the backend was called with a name (%s %s) although the request must fail with EINVAL first; reply %s",
				where, cls, named[0].Method, labels(named[0].Names), replyDesc(reply)), describeCalls(calls)...)
	} else if len(calls) > 0 {
		okPreamble := allowNameless
		for _, c := range calls {
			if c.Method != "Attach" && c.Method != "GetAttr" && c.Method != "Close" {
				okPreamble = false
			}
		}
		if !okPreamble {
			r.violate(p, fmt.Sprintf("backend-called-before-einval|%s|%s", where, cls),
				fmt.Sprintf("%s carrying a %s name: %d backend call(s) (first: %s) were made for the request; it must fail with EINVAL first; reply %s",
					where, cls, len(calls), calls[0].Method, replyDesc(reply)), describeCalls(calls)...)
		}
	}
	if reply.Type != refcodec.Rlerror || rawpeer.Errno(reply) != einval {
		kind := "other-errno"
		if reply.Type != refcodec.Rlerror {
			kind = "success"
		}
		r.violate(p, fmt.Sprintf("bad-name-not-einval|%s|%s|%s", where, cls, kind),
			fmt.Sprintf("%s carrying a %s name was answered %s; the property demands Rlerror(EINVAL=22)", where, cls, replyDesc(reply)), describeCalls(calls)...)
	}
}

// step is one single-component advance seen by the backend.
type step struct {
	recvIno uint64
	name    string
	newIno  uint64 // 0 if the call failed
}

// walkSteps extracts the single-component advances from the calls of one
// request and checks the per-call clauses: at most one name per Walk /
// WalkGetAttr call, receiver is a directory.
func walkSteps(r *result, p params, where string, fs *memfs.FS, calls []*memfs.Call) []step {
	var steps []step
	var prev *memfs.Call
	for _, c := range calls {
		if (c.Method != "Walk" && c.Method != "WalkGetAttr") || len(c.Names) == 0 {
			continue
		}
		r.evals++
		if len(c.Names) > 1 {
			r.violate(p, fmt.Sprintf("multi-component-backend-walk|%s|%s", p.Msg, c.Method),
				fmt.Sprintf("%s: backend %s was invoked with %d names %s; walks must advance one component at a time", where, c.Method, len(c.Names), labels(c.Names)))
		}
		var recv *memfs.Handle
		if c.Handle >= 0 && c.Handle < len(fs.Handles) {
			recv = fs.Handles[c.Handle]
		}
		if recv != nil && !recv.Ino.Mode.IsDir() {
			r.violate(p, fmt.Sprintf("walk-from-non-directory|%s|%s", p.Msg, nondirClass(recv.Ino.Mode)),
				fmt.Sprintf("%s: backend %s(%s) was invoked on a %s (handle %d at %s); walks may only advance through directories", where, c.Method, labels(c.Names), modeName(recv.Ino.Mode), c.Handle, pathDesc(c.Path)))
		}
		st := step{recvIno: c.Ino, name: c.Names[0]}
		if c.NewH >= 0 && c.NewH < len(fs.Handles) {
			st.newIno = fs.Handles[c.NewH].Ino.ID
		}
		// WalkGetAttr answered ENOSYS followed by Walk of the same component
		// on the same receiver is one advance (p9.DefaultWalkGetAttr protocol).
		if prev != nil && prev.Method == "WalkGetAttr" && prev.Err == linux.ENOSYS && c.Method == "Walk" && prev.Handle == c.Handle && len(prev.Names) == 1 && prev.Names[0] == c.Names[0] {
			steps[len(steps)-1] = st
		} else {
			steps = append(steps, st)
		}
		prev = c
	}
	return steps
}

func modeName(m p9.FileMode) string {
	switch {
	case m.IsDir():
		return "directory"
	case m.IsRegular():
		return "regular-file"
	case m.IsSymlink():
		return "symlink"
	case m.IsNamedPipe():
		return "fifo"
	case m.IsCharacterDevice():
		return "chardev"
	case m.IsBlockDevice():
		return "blockdev"
	case m.IsSocket():
		return "socket"
	}
	return fmt.Sprintf("mode-%o", uint32(m))
}

// fullSuccess reports whether the reply says that all n components were walked.
func fullSuccess(reply refcodec.Msg, n int) bool {
	switch reply.Type {
	case refcodec.Rwalk, refcodec.Rwalkgetattr:
		return len(reply.Get("wqids").([]refcodec.QID)) == n
	case refcodec.Rattach:
		return true
	}
	return false
}

// legalWalk evaluates a walk-like request all of whose components are legal:
// the backend must see the components exactly as sent, one at a time, each
// from the node reached by the previous one.
func legalWalk(r *result, p params, where string, fs *memfs.FS, startIno uint64, comps []string, reply refcodec.Msg, calls []*memfs.Call) {
	steps := walkSteps(r, p, where, fs, calls)
	r.evals++
	if len(steps) == 0 && len(comps) > 0 && reply.Type == refcodec.Rlerror && rawpeer.Errno(reply) == einval {
		r.violate(p, fmt.Sprintf("legal-name-rejected|%s|%s", where, firstOdd(comps)),
			fmt.Sprintf("%s with the legal components %s was rejected with EINVAL before any component reached the backend; the name check may only reject empty, '.', '..' and names containing '/'", where, labels(comps)))
		return
	}
	if len(steps) > len(comps) {
		r.violate(p, fmt.Sprintf("more-backend-walks-than-components|%s", where),
			fmt.Sprintf("%s with %d components caused %d single-component backend walks", where, len(comps), len(steps)), describeCalls(calls)...)
		return
	}
	for i, st := range steps {
		if st.name != comps[i] {
			r.violate(p, fmt.Sprintf("component-altered|%s|%s", where, label(comps[i])),
				fmt.Sprintf("%s: component %d was sent as %s but the backend received %s", where, i, label(comps[i]), label(st.name)), describeCalls(calls)...)
			return
		}
		want := startIno
		if i > 0 {
			want = steps[i-1].newIno
		}
		if st.recvIno != want {
			r.violate(p, fmt.Sprintf("walk-not-from-previous-node|%s", where),
				fmt.Sprintf("%s: component %d (%s) was walked from inode %d, but the previous component led to inode %d", where, i, label(st.name), st.recvIno, want), describeCalls(calls)...)
			return
		}
	}
	if fullSuccess(reply, len(comps)) && len(steps) != len(comps) {
		r.violate(p, fmt.Sprintf("success-without-walking-every-component|%s", where),
			fmt.Sprintf("%s with components %s succeeded (%s) but the backend saw only %d single-component walks", where, labels(comps), replyDesc(reply), len(steps)), describeCalls(calls)...)
	}
}

func firstOdd(comps []string) string {
	for _, c := range comps {
		if c != "ok" {
			return label(c)
		}
	}
	return "ok"
}

func firstBadClass(comps []string) string {
	for _, c := range comps {
		if bad(c) {
			return class(c)
		}
	}
	return "legal"
}

func anyBad(comps []string) bool { return firstBadClass(comps) != "legal" }

// attachComponents is the reading of an attach name used by the oracle: one
// leading '/' marks the name as absolute; the rest is split at '/'; an empty
// rest is the root itself (no component).
func attachComponents(aname string) []string {
	s := strings.TrimPrefix(aname, "/")
	if s == "" {
		return nil
	}
	return strings.Split(s, "/")
}

func mkdirLegalPrefix(fs *memfs.FS, comps []string) {
	var legal []string
	for _, c := range comps {
		if bad(c) {
			break
		}
		legal = append(legal, c)
	}
	if len(legal) > 0 {
		fs.MkdirP(strings.Join(legal, "/"))
	}
}

func attachRootIno(calls []*memfs.Call, fs *memfs.FS) uint64 {
	for _, c := range calls {
		if c.Method == "Attach" && c.NewH >= 0 {
			return fs.Handles[c.NewH].Ino.ID
		}
	}
	return fs.Root.ID
}

// runCase executes one case against the real server and evaluates the oracle.
func runCase(p params) *result {
	r := &result{}
	switch p.Kind {
	case "name":
		runName(r, p, p.Pos, alphabet[p.Idx[0]].Name, "")
	case "renameat2":
		runName(r, p, "Trenameat.both", alphabet[p.Idx[0]].Name, alphabet[p.Idx[1]].Name)
	case "walk":
		runWalk(r, p)
	case "attach":
		runAttach(r, p)
	case "nondir":
		runNondir(r, p)
	case "derived":
		runDerived(r, p)
	default:
		panic("c09: unknown case kind " + p.Kind)
	}
	return r
}

// runName: one name (or the two names of Trenameat) in a non-walk position.
func runName(r *result, p params, pos, x, y string) {
	// fids: 1 root, 2 = /d (unopened directory), 3 = /d/ok (regular file),
	// 4 = /e (directory), 5 = /d/<x> if it was created for the case.
	var req refcodec.Msg
	const tag = 77
	sent := []string{x}
	switch pos {
	case "Tlcreate":
		req = refcodec.New(refcodec.Tlcreate, tag, 2, x, 2, 0o644, 0)
	case "Tucreate":
		req = refcodec.New(refcodec.Tucreate, tag, 2, x, 2, 0o644, 0, 1000)
	case "Tmkdir":
		req = refcodec.New(refcodec.Tmkdir, tag, 2, x, 0o755, 0)
	case "Tumkdir":
		req = refcodec.New(refcodec.Tumkdir, tag, 2, x, 0o755, 0, 1000)
	case "Tsymlink":
		req = refcodec.New(refcodec.Tsymlink, tag, 2, x, "../../target/./x", 0)
	case "Tusymlink":
		req = refcodec.New(refcodec.Tusymlink, tag, 2, x, "../../target/./x", 0, 1000)
	case "Tlink":
		req = refcodec.New(refcodec.Tlink, tag, 2, 3, x)
	case "Tmknod":
		req = refcodec.New(refcodec.Tmknod, tag, 2, x, uint32(p9.ModeNamedPipe|0o644), 1, 2, 0)
	case "Tumknod":
		req = refcodec.New(refcodec.Tumknod, tag, 2, x, uint32(p9.ModeNamedPipe|0o644), 1, 2, 0, 1000)
	case "Trename":
		req = refcodec.New(refcodec.Trename, tag, 3, 4, x)
	case "Trenameat.old":
		req = refcodec.New(refcodec.Trenameat, tag, 2, x, 4, "new")
		sent = append(sent, "new")
	case "Trenameat.new":
		req = refcodec.New(refcodec.Trenameat, tag, 2, "ok", 4, x)
		sent = append(sent, "ok")
	case "Trenameat.both":
		req = refcodec.New(refcodec.Trenameat, tag, 2, x, 4, y)
		sent = append(sent, y)
	case "Tunlinkat":
		req = refcodec.New(refcodec.Tunlinkat, tag, 2, x, 0)
	default:
		panic("c09: unknown position " + pos)
	}
	needsExisting := pos == "Trenameat.old" || pos == "Trenameat.both" || pos == "Tunlinkat"
	e := start(msizeFor(req), p.WGA, func(fs *memfs.FS) {
		fs.AddFile("d/ok", []byte("data"))
		fs.MkdirP("e")
		if needsExisting && !bad(x) && x != "ok" {
			fs.AddFile("d/"+x, []byte("x"))
		}
	})
	defer e.stop()
	s, fs := e.s, e.fs
	s.Attach(1)
	s.Walk(1, 2, "d")
	s.Walk(2, 3, "ok")
	s.Walk(1, 4, "e")
	r.steps += 5

	before := len(fs.Calls)
	reply := s.Do(req)
	r.steps++
	calls := fs.Calls[before:]

	anyB := bad(x) || (pos == "Trenameat.both" && bad(y))
	if anyB {
		cls := class(x)
		if pos == "Trenameat.both" {
			// report under the single position that carries the bad name
			pos = "Trenameat.old"
			if !bad(x) {
				pos, cls = "Trenameat.new", class(y)
			}
		}
		badRequest(r, p, pos, cls, reply, calls, false)
		r.outcome = fmt.Sprintf("%s|bad:%s|%s|calls=%d", pos, cls, replyDesc(reply), len(calls))
	} else {
		// Legal: the backend must have been given exactly the bytes sent.
		r.evals++
		allowed := map[string]bool{"ok": true}
		for _, n := range sent {
			allowed[n] = true
		}
		seen := map[string]bool{}
		for _, c := range calls {
			for _, n := range c.Names {
				seen[n] = true
				if !allowed[n] {
					r.violate(p, fmt.Sprintf("component-altered|%s|%s", pos, label(x)),
						fmt.Sprintf("%s with the legal name %s: backend %s received %s, which is not a name of the request", pos, label(x), c.Method, label(n)), describeCalls(calls)...)
				}
			}
		}
		for _, n := range sent {
			if seen[n] {
				continue
			}
			if reply.Type == refcodec.Rlerror && rawpeer.Errno(reply) == einval && len(namedCalls(calls)) == 0 {
				r.violate(p, fmt.Sprintf("legal-name-rejected|%s|%s", pos, label(n)),
					fmt.Sprintf("%s with the legal name %s was rejected with EINVAL without reaching the backend; the name check may only reject empty, '.', '..' and names containing '/'", pos, label(n)), describeCalls(calls)...)
			} else {
				r.violate(p, fmt.Sprintf("legal-name-not-forwarded|%s|%s", pos, label(n)),
					fmt.Sprintf("%s with the legal name %s: reply %s, but no backend call carried exactly these bytes", pos, label(n), replyDesc(reply)), describeCalls(calls)...)
			}
		}
		r.outcome = fmt.Sprintf("%s|legal:%s|%s|named=%d", pos, label(x), replyDesc(reply), len(namedCalls(calls)))
	}
	// A further request on the same connection must still be confined too
	// (and tells us the server is alive): walk to the untouched file.
	s.Do(rawpeer.Tgetattr(78, 1))
	r.steps++
	e.stop()
	checkNoBadRecorded(r, p, fs, pos)
}

// runDerived: Trename / Tremove through a fid that came into being in the
// given way; the backend's RenameAt / UnlinkAt must be given the name the entry
// has at that moment - never an empty or otherwise unsafe one.
func runDerived(r *result, p params) {
	e := start(8192, p.WGA, func(fs *memfs.FS) {
		fs.AddFile("d/ok", []byte("data"))
		fs.MkdirP("e")
	})
	defer e.stop()
	s, fs := e.s, e.fs
	s.Attach(1)
	s.Walk(1, 2, "d")
	s.Walk(1, 4, "e")
	cur := "ok" // what the entry is called when the request is made
	fid := uint32(3)
	switch p.Shape {
	case "walked":
		s.Walk(2, 3, "ok")
	case "clone":
		s.Walk(2, 5, "ok")
		s.Do(rawpeer.Twalk(70, 5, 3))
	case "clone-of-clone":
		s.Walk(2, 5, "ok")
		s.Do(rawpeer.Twalk(70, 5, 6))
		s.Do(rawpeer.Twalk(71, 6, 3))
	case "clone-onto-same-fid":
		s.Walk(2, 3, "ok")
		s.Do(rawpeer.Twalk(70, 3, 3))
	case "two-step-walk":
		s.Do(rawpeer.Twalk(70, 1, 3, "d", "ok"))
	case "created":
		s.Do(rawpeer.Twalk(70, 2, 3))
		s.Do(refcodec.New(refcodec.Tlcreate, 71, 3, "fresh", 2, 0o644, 0))
		cur = "fresh"
	case "walked-then-entry-renamed":
		s.Walk(2, 3, "ok")
		s.Do(refcodec.New(refcodec.Trenameat, 70, 2, "ok", 2, "moved"))
		cur = "moved"
	case "clone-then-entry-renamed":
		s.Walk(2, 5, "ok")
		s.Do(rawpeer.Twalk(70, 5, 3))
		s.Do(refcodec.New(refcodec.Trenameat, 71, 2, "ok", 2, "moved"))
		cur = "moved"
	default:
		panic("c09: unknown derived shape " + p.Shape)
	}
	r.steps += 6
	before := len(fs.Calls)
	var reply refcodec.Msg
	wantMethod := "UnlinkAt"
	if p.Msg == "Trename" {
		reply = s.Do(refcodec.New(refcodec.Trename, 77, fid, 4, "n2"))
		wantMethod = "RenameAt"
	} else {
		reply = s.Do(rawpeer.Tremove(77, fid))
	}
	r.steps++
	calls := fs.Calls[before:]
	r.evals++
	where := p.Msg + "(" + p.Shape + ")"
	found := false
	for _, c := range calls {
		if c.Method != wantMethod {
			continue
		}
		found = true
		if len(c.Names) == 0 || c.Names[0] != cur {
			r.violate(p, fmt.Sprintf("derived-name-wrong|%s|%s", p.Msg, p.Shape),
				fmt.Sprintf("%s: the entry is called %s, backend %s was given %s", where, label(cur), c.Method, labels(c.Names)), describeCalls(calls)...)
		}
	}
	if !found {
		r.violate(p, fmt.Sprintf("derived-name-not-forwarded|%s|%s", p.Msg, p.Shape),
			fmt.Sprintf("%s: reply %s, no %s reached the backend", where, replyDesc(reply), wantMethod), describeCalls(calls)...)
	}
	r.outcome = fmt.Sprintf("derived|%s|%s|%s|named=%d", p.Msg, p.Shape, replyDesc(reply), len(namedCalls(calls)))
	s.Do(rawpeer.Tgetattr(78, 1))
	r.steps++
	e.stop()
	checkNoBadRecorded(r, p, fs, where)
}

func runWalk(r *result, p params) {
	comps := p.names()
	typ := uint8(refcodec.Twalk)
	if p.Msg == "Twalkgetattr" {
		typ = refcodec.Twalkgetattr
	}
	req := refcodec.New(typ, 77, 1, 9, comps)
	e := start(msizeFor(req), p.WGA, func(fs *memfs.FS) { mkdirLegalPrefix(fs, comps) })
	defer e.stop()
	s, fs := e.s, e.fs
	s.Attach(1)
	r.steps += 2
	before := len(fs.Calls)
	reply := s.Do(req)
	r.steps++
	calls := fs.Calls[before:]
	where := p.Msg
	if anyBad(comps) {
		cls := firstBadClass(comps)
		badRequest(r, p, where, cls, reply, calls, false)
		r.outcome = fmt.Sprintf("%s|bad:%s@%d/%d|%s|calls=%d", where, cls, firstBadIdx(comps), len(comps), replyDesc(reply), len(calls))
	} else {
		legalWalk(r, p, where, fs, fs.Root.ID, comps, reply, calls)
		if !fullSuccess(reply, len(comps)) {
			// The whole path exists in memfs: the text does not demand
			// success, so this is only recorded.
			r.outcome = fmt.Sprintf("%s|legal/%d|%s", where, len(comps), replyDesc(reply))
		} else {
			r.outcome = fmt.Sprintf("%s|legal:%s|walked-all", where, labels(comps))
		}
	}
	e.stop()
	checkNoBadRecorded(r, p, fs, where)
}

func firstBadIdx(comps []string) int {
	for i, c := range comps {
		if bad(c) {
			return i
		}
	}
	return -1
}

func (p params) attachName() (string, bool) {
	if p.Lit > 0 {
		return attachList[p.Lit-1], true
	}
	a := strings.Join(p.names(), "/")
	if p.Lead {
		a = "/" + a
	}
	return a, len(a) <= 0xffff
}

func runAttach(r *result, p params) {
	aname, encodable := p.attachName()
	if !encodable {
		r.outcome = "unencodable"
		return
	}
	comps := attachComponents(aname)
	req := rawpeer.Tattach(77, 1, aname)
	e := start(msizeFor(req), p.WGA, func(fs *memfs.FS) {
		fs.MkdirP("a/b")
		fs.MkdirP("x")
		mkdirLegalPrefix(fs, comps)
	})
	defer e.stop()
	s, fs := e.s, e.fs
	r.steps++
	before := len(fs.Calls)
	reply := s.Do(req)
	r.steps++
	calls := fs.Calls[before:]
	where := "Tattach"
	switch {
	case strings.HasPrefix(aname, "//"):
		// More than one leading '/': the text does not say whether the extra
		// slashes are empty components or part of the absolute marker. Either
		// EINVAL or a walk of legal components is accepted; what reaches the
		// backend is still checked.
		walkSteps(r, p, where, fs, calls)
		r.outcome = fmt.Sprintf("attach|multi-leading-slash|%s|named=%d", replyDesc(reply), len(namedCalls(calls)))
	case anyBad(comps):
		cls := firstBadClass(comps)
		badRequest(r, p, where, cls, reply, calls, true)
		r.outcome = fmt.Sprintf("attach|bad:%s@%d/%d|%s|calls=%d", cls, firstBadIdx(comps), len(comps), replyDesc(reply), len(calls))
	case len(comps) == 0:
		r.evals++
		if n := namedCalls(calls); len(n) > 0 {
			r.violate(p, "attach-root-walks", fmt.Sprintf("Tattach with the root name %q caused backend calls with names", aname), describeCalls(calls)...)
		}
		r.outcome = fmt.Sprintf("attach|root|%s", replyDesc(reply))
	default:
		legalWalk(r, p, where, fs, attachRootIno(calls, fs), comps, reply, calls)
		if reply.Type == refcodec.Rattach {
			r.outcome = fmt.Sprintf("attach|legal:%s|walked-all", labels(comps))
		} else {
			r.outcome = fmt.Sprintf("attach|legal|%s", replyDesc(reply))
		}
	}
	// The server must still be usable; the fid is bound only on success.
	s.Do(rawpeer.Tgetattr(78, 1))
	r.steps++
	e.stop()
	checkNoBadRecorded(r, p, fs, where)
}

func runNondir(r *result, p params) {
	var mode p9.FileMode
	for _, nk := range nodeKinds {
		if nk.Name == p.Node {
			mode = nk.Mode
		}
	}
	e := start(8192, p.WGA, func(fs *memfs.FS) {
		// /ok/x/y exists so that a symlink "node" -> "ok" would lead somewhere.
		fs.MkdirP("ok/x/y")
		target := ""
		if mode.IsSymlink() {
			target = "ok"
		}
		if mode.IsDir() {
			fs.MkdirP("node/x/y")
			fs.MkdirP("ok/node/x")
		} else {
			fs.AddNode("node", mode, []byte("data"), target)
			if mode.IsSymlink() {
				target = "x" // /ok/node -> /ok/x
			}
			fs.AddNode("ok/node", mode, []byte("data"), target)
		}
	})
	defer e.stop()
	s, fs := e.s, e.fs
	typ := uint8(refcodec.Twalk)
	if p.Msg == "Twalkgetattr" {
		typ = refcodec.Twalkgetattr
	}
	var req refcodec.Msg
	var comps []string
	attach := false
	switch p.Shape {
	case "root:[node,x]":
		comps = []string{"node", "x"}
	case "root:[node,x,y]":
		comps = []string{"node", "x", "y"}
	case "root:[ok,node,x]":
		comps = []string{"ok", "node", "x"}
	case "fid(node):[x]":
		comps = []string{"x"}
	case "fid(node):[x,y]":
		comps = []string{"x", "y"}
	case "attach:node/x", "attach:/node/x", "attach:ok/node/x":
		attach = true
		comps = attachComponents(strings.TrimPrefix(p.Shape, "attach:"))
	default:
		panic("c09: unknown shape " + p.Shape)
	}
	from := uint32(1)
	if attach {
		req = rawpeer.Tattach(77, 1, strings.TrimPrefix(p.Shape, "attach:"))
	} else {
		s.Attach(1)
		r.steps++
		if strings.HasPrefix(p.Shape, "fid(node)") {
			s.Walk(1, 5, "node")
			r.steps++
			from = 5
		}
		req = refcodec.New(typ, 77, from, 9, comps)
	}
	before := len(fs.Calls)
	reply := s.Do(req)
	r.steps += 2
	calls := fs.Calls[before:]
	where := p.Msg + "|via-" + p.Node
	steps := walkSteps(r, p, where, fs, calls) // receiver-kind and one-name clauses
	r.evals++
	if !mode.IsDir() && fullSuccess(reply, len(comps)) {
		r.violate(p, fmt.Sprintf("walk-through-non-directory-succeeded|%s|%s", p.Msg, nondirClass(mode)),
			fmt.Sprintf("%s %s through a %s was answered %s: the client stepped through a non-directory", p.Msg, p.Shape, p.Node, replyDesc(reply)), describeCalls(calls)...)
	}
	r.outcome = fmt.Sprintf("nondir|%s|%s|%s|%s|steps=%d", p.Node, p.Msg, p.Shape, replyDesc(reply), len(steps))
	e.stop()
	checkNoBadRecorded(r, p, fs, where)
}

// ---------------------------------------------------------------------------

var caseStart atomic.Int64
var caseDesc atomic.Value

// watchdog turns a stuck case into an infrastructure error (never a verdict).
func watchdog() {
	go func() {
		for {
			time.Sleep(5 * time.Second)
			st := caseStart.Load()
			if st != 0 && time.Since(time.Unix(0, st)) > 120*time.Second {
				fmt.Fprintf(os.Stderr, "c09: infrastructure error: case %v did not finish within 120 s\n", caseDesc.Load())
				os.Exit(2)
			}
		}
	}()
}

// runNoModeRoot: the backend's GetAttr on the attach root reports no mode (the
// Mode bit of the valid mask is clear), i.e. the backend never reported the
// root as a directory. Whatever the server answers, no name may then be
// walked from the root: not by an attach name, not by a Twalk from a fid
// bound to the root.
func runNoModeRoot(rep *fw.Report, wga bool) {
	e := start(8192, wga, func(fs *memfs.FS) { fs.MkdirP("a/b") })
	fs, s := e.fs, e.s
	fs.Hook = func(c *memfs.Call) *memfs.Action {
		if c.Method == "GetAttr" && (c.Path == "/" || c.Path == "") {
			return &memfs.Action{Override: &memfs.Override{Valid: &p9.AttrMask{Size: true}}}
		}
		return nil
	}
	rootHandles := map[int]bool{}
	before := len(fs.Calls)
	for _, m := range []refcodec.Msg{rawpeer.Tattach(70, 1, ""), rawpeer.Twalk(71, 1, 2, "a"), rawpeer.Tattach(72, 3, "a/b"), rawpeer.Tattach(73, 4, "/a"), rawpeer.Twalk(74, 1, 5, "a", "b"), rawpeer.Twalkgetattr(75, 1, 6, "a")} {
		s.Do(m)
	}
	e.stop()
	rep.States++
	rep.Evaluations++
	for _, c := range fs.Calls[before:] {
		if c.Method == "Attach" && c.NewH >= 0 {
			rootHandles[c.NewH] = true
		}
	}
	for _, c := range fs.Calls[before:] {
		if len(c.Names) > 0 && (c.Method == "Walk" || c.Method == "WalkGetAttr") {
			rep.Violate(&fw.Violation{Fingerprint: "walk-from-node-not-reported-as-directory|attach-root-without-mode",
				Summary:  fmt.Sprintf("the backend's GetAttr on the attach root reported no mode, yet the server called %s(%v) on %s: it advanced through a node the backend never reported as a directory", c.Method, c.Names, c.Path),
				Scenario: "attach-root-without-mode", Params: fw.JSON(map[string]bool{"walkgetattr_implemented": wga})})
			break
		}
	}
	rep.Distinct(fmt.Sprintf("nomode-root|wga=%v|named-calls=%d", wga, len(namedCalls(fs.Calls[before:]))))
}

func run(ctx *fw.Ctx, rep *fw.Report) {
	memfs.RecordSites = false
	rep.Rule = "complete product: 18-name alphabet {empty . .. / a/b /a a/ a//b ./a a/.. ..a ... NUL highbytes space 255xa 65535xa ok} x 13 single-name positions (Tlcreate Tucreate Tmkdir Tumkdir Tsymlink Tusymlink Tlink Tmknod Tumknod Trename Trenameat.old Trenameat.new Tunlinkat), Trenameat old x new (18x18), every Twalk and Twalkgetattr name list of length 1..3 over the alphabet, attach names = the property's list + every list of 1..3 alphabet components joined by '/' with and without leading '/', and walks/attaches whose intermediate node is dir(control)/file/symlink/fifo/chardev/blockdev/socket in 8 request shapes, plus an attach root for which the backend reports no mode (nothing may be walked from it), plus the names the SERVER derives (old name of Trename, name of Tremove) for a fid that is walked / a clone / a clone of a clone / cloned onto itself / from a two-step walk / bound by Tlcreate / walked or cloned and its entry renamed since: the backend must be given the entry's current name; everything x memfs WalkGetAttr {ENOSYS, implemented}; one fresh server+memfs per case, raw refcodec peer; distinct = (position, name class, reply, number of backend calls)"
	rep.Assumptions = append(rep.Assumptions,
		"attach name reading: one leading '/' is the absolute marker, the rest is split at '/'; names starting with '//' may be answered EINVAL or walked (text silent), what reaches the backend is checked in either case",
		"Tattach with a bad component: the nameless preamble Attach()/GetAttr/Close on the root is not 'a name reaching the backend' and is accepted before the EINVAL; any call carrying a name is not",
		"fids used are bound (an unbound fid together with a bad name may be EBADF or EINVAL: text silent, not enumerated)",
		"legal but odd names (..a ... NUL highbytes space 255/65535 bytes) must reach the backend byte-identical; the backend's own answer (ENOENT, EEXIST ...) is not judged")

	if ctx.Replay != nil && ctx.Replay.Scenario == "attach-root-without-mode" {
		var q map[string]bool
		_ = json.Unmarshal(ctx.Replay.Params, &q)
		runNoModeRoot(rep, q["walkgetattr_implemented"])
		return
	}
	if ctx.Replay != nil {
		var p params
		if err := json.Unmarshal(ctx.Replay.Params, &p); err != nil {
			panic(err)
		}
		res := runCase(p)
		for _, v := range res.final() {
			rep.Violate(v)
		}
		return
	}
	watchdog()
	if ctx.Shard == 0 && ctx.Filter == "" {
		runNoModeRoot(rep, false)
		runNoModeRoot(rep, true)
	}
	i := -1
	stopped := false
	enumerate(false, func(p params) { // both tiers enumerate the complete product (it takes about a second)
		i++
		if !ctx.Mine(i) || stopped {
			return
		}
		if ctx.Filter != "" && !strings.Contains(p.Kind+"|"+p.Pos+"|"+p.Msg+"|"+p.Shape, ctx.Filter) {
			return
		}
		if ctx.Expired() {
			stopped = true
			rep.NotExhaustive("soft budget expired before the product was complete")
			return
		}
		caseDesc.Store(string(fw.JSON(p)))
		caseStart.Store(time.Now().UnixNano())
		res := runCase(p)
		caseStart.Store(0)
		rep.States++
		rep.Count("cases_"+p.Kind, 1)
		if res.outcome == "unencodable" {
			rep.Count("attach_names_longer_than_65535_not_encodable", 1)
			return
		}
		rep.Traces++
		rep.Transitions += res.steps
		rep.Evaluations += res.evals
		rep.Distinct(res.outcome)
		if p.Kind == "name" {
			rep.Count("pos_"+p.Pos, 1)
		}
		if i%997 == 0 {
			rep.Sample(map[string]interface{}{"case": p, "outcome": fw.Short(res.outcome, 160)})
		}
		for _, v := range res.final() {
			rep.Violate(v)
		}
	})
	if ctx.Filter != "" {
		rep.NotExhaustive("filter " + ctx.Filter)
	}
}
