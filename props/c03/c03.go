// Package c03 checks client/server transparency for every File operation at
// every version (DESIGN.md §4 C03): real p9.Client <-> versionproxy <-> real
// p9.Server <-> memfs, one fresh session per case.
package c03

import (
	"encoding/json"
	"fmt"
	"hash/fnv"
	"os"
	"strings"
	"sync/atomic"
	"time"

	"github.com/hugelgupf/p9/p9"
	"verif/harness/fw"
	"verif/harness/memfs"
	"verif/harness/methods"
	"verif/harness/refcodec"
	"verif/harness/vpipe"
	"verif/harness/vproxy"
)

func init() {
	fw.Register(&fw.Prop{ID: "C03", Level: "model_checking", Run: run, Sharded: true, QuickSecs: 75, ThoroughSecs: 800})
}

const msize = 8192

// derivation of the handle under test.
type deriv struct {
	Name   string
	Level  int  // components walked from the root (0: the attach handle itself)
	Create bool // the handle is the result of Create
	WGA    bool // the backend implements WalkGetAttr itself
}

var derivs = []deriv{
	{Name: "attach"},
	{Name: "walk1", Level: 1},
	{Name: "walk2", Level: 2},
	{Name: "walk3", Level: 3},
	{Name: "walk2-backend-walkgetattr", Level: 2, WGA: true},
	{Name: "create", Create: true},
}

// pick chooses the kind of node the handle denotes for a method and a
// derivation.
func pick(m *methods.Method, di int) (methods.Target, bool) {
	d := derivs[di]
	if d.Create {
		for _, t := range m.Targets {
			if t == methods.TFileOpen {
				return t, true
			}
		}
		return 0, false
	}
	if m.NeedParent && d.Level == 0 {
		return 0, false
	}
	return m.Targets[di%len(m.Targets)], true
}

// admissible excludes kinds the fixture cannot provide: when the attach
// handle itself is a file or a symlink nothing else can be reached from it,
// so methods that need a second handle have no case there.
func admissible(m *methods.Method, di int, k methods.Target) bool {
	return !(derivs[di].Level == 0 && !derivs[di].Create && !k.IsDir() && len(m.Refs) > 0)
}

// kinds lists the node kinds enumerated for a method and a derivation: the
// one pick chooses in the quick tier, every admissible kind in the thorough
// tier.
func kinds(m *methods.Method, di int, all bool) []methods.Target {
	t, ok := pick(m, di)
	if !ok || !admissible(m, di, t) {
		return nil
	}
	if !all || derivs[di].Create {
		return []methods.Target{t}
	}
	out := []methods.Target{t}
	for _, k := range m.Targets {
		dup := !admissible(m, di, k)
		for _, o := range out {
			if o == k {
				dup = true
			}
		}
		if !dup {
			out = append(out, k)
		}
	}
	return out
}

// params identify a case (alphabets are deterministic, so indices suffice).
type params struct {
	Method  string        `json:"method"`
	Deriv   string        `json:"derivation"`
	Target  string        `json:"target"`
	Version int           `json:"version"`
	Devs    []methods.Dev `json:"deviations"`
	Human   string        `json:"case"`
}

// errChoice is one value of the pseudo field "backend error".
type errChoice struct {
	Err  int // index into the error alphabet
	Step int
}

type space struct {
	m      *methods.Method
	di     int
	target methods.Target
	fields []methods.Field // args, results, error pseudo-field
	alpha  []methods.Alphabet
	na, nr int
}

var (
	errAlphabet    []methods.ErrSpec
	payload        uint32
	progress       int64
	shard, nShards int
	allMethods     []*methods.Method
)

// representative errors for injection positions other than the first
var stepErrs = []string{"linux.Errno(5)", "syscall.Errno(13)", "os.ErrNotExist", "wrap2(linux.Errno(122))", "errors.New"}

func buildSpace(m *methods.Method, di int, target methods.Target) *space {
	s := &space{m: m, di: di, target: target, na: len(m.Args), nr: len(m.Res)}
	for _, f := range m.Args {
		s.fields = append(s.fields, f)
		s.alpha = append(s.alpha, methods.Semantic(f, methods.AlphaCtx{Payload: payload, Target: target, Method: m.Name}))
	}
	if m.Local {
		return s
	}
	for _, f := range m.Res {
		s.fields = append(s.fields, f)
		s.alpha = append(s.alpha, methods.Semantic(f, methods.AlphaCtx{Payload: payload, Target: target, Method: m.Name, Result: true}))
	}
	// the error pseudo field: default nil (the backend succeeds)
	var ea methods.Alphabet
	for i := range errAlphabet {
		ea.Vals = append(ea.Vals, errChoice{i, 0})
	}
	// reduced alphabet: an errno and an opaque error
	for step := 1; step < m.Steps; step++ {
		for i, e := range errAlphabet {
			for _, n := range stepErrs {
				if e.Name == n {
					ea.Vals = append(ea.Vals, errChoice{i, step})
				}
			}
		}
	}
	// put linux.Errno(13) and errors.New first (reduced alphabet)
	for k, want := range []string{"linux.Errno(13)", "errors.New"} {
		for i, v := range ea.Vals {
			if c := v.(errChoice); c.Step == 0 && errAlphabet[c.Err].Name == want {
				ea.Vals[k], ea.Vals[i] = ea.Vals[i], ea.Vals[k]
			}
		}
	}
	ea.Red = 2
	s.fields = append(s.fields, methods.Field{Name: "backend-error", Def: nil})
	s.alpha = append(s.alpha, ea)
	return s
}

func (s *space) errField() int {
	if s.m.Local {
		return -1
	}
	return s.na + s.nr
}

// pairOK excludes pairs of a result field and the error field (a failing
// backend call returns no values).
func (s *space) pairOK(i, j int) bool {
	e := s.errField()
	if e < 0 {
		return true
	}
	isRes := func(x int) bool { return x >= s.na && x < s.na+s.nr }
	if (i == e && isRes(j)) || (j == e && isRes(i)) {
		return false
	}
	return true
}

func (s *space) materialize(devs []methods.Dev) (a, r methods.V, inj *methods.Inject) {
	a = methods.Apply(s.fields[:s.na], s.alpha[:s.na], 0, devs)
	if s.m.Local {
		return a, nil, nil
	}
	r = methods.Apply(s.fields[s.na:s.na+s.nr], s.alpha[s.na:s.na+s.nr], s.na, devs)
	for _, d := range devs {
		if d.F == s.errField() {
			c := s.alpha[d.F].Vals[d.A].(errChoice)
			inj = &methods.Inject{Spec: &errAlphabet[c.Err], Step: c.Step}
		}
	}
	return a, r, inj
}

func (s *space) human(version int, devs []methods.Dev) string {
	a, r, inj := s.materialize(devs)
	out := fmt.Sprintf("%s%s on a %s handle obtained by %s at version %d", s.m.Name, methods.ShowVec(s.m.Args, a), s.target, derivs[s.di].Name, version)
	if inj != nil {
		out += fmt.Sprintf("; backend fails with %s", inj.Spec.Name)
		if s.m.Steps > 1 {
			out += fmt.Sprintf(" at step %d", inj.Step)
		}
	} else if len(r) > 0 {
		out += "; backend returns " + methods.ShowVec(s.m.Res, r)
	}
	return out
}

// ---------------------------------------------------------------------------

type session struct {
	fs   *memfs.FS
	tap  *vproxy.Conn
	cl   *p9.Client
	done chan struct{}
}

func (s *session) close() {
	if s.cl != nil {
		s.cl.Close()
	} else if s.tap != nil {
		s.tap.Close()
	}
	<-s.done
}

func start(fs *memfs.FS, version int) (*session, error) {
	srv := p9.NewServer(fs)
	cc, sc := vpipe.NewConnPair("c03")
	s := &session{fs: fs, done: make(chan struct{})}
	go func() {
		srv.Handle(sc, sc)
		close(s.done)
	}()
	s.tap = vproxy.New(cc, version)
	s.tap.KeepRaw = false
	cl, err := p9.NewClient(s.tap, p9.WithMessageSize(msize))
	if err != nil {
		s.close()
		return nil, fmt.Errorf("NewClient: %v", err)
	}
	s.cl = cl
	if int(cl.Version()) != version {
		s.close()
		return nil, fmt.Errorf("asked the server for version %d, client settled on %d", version, cl.Version())
	}
	return s, nil
}

// lastT returns the last T frame of the given types.
func lastT(frames []vproxy.Frame, types ...uint8) (refcodec.Msg, bool) {
	for i := len(frames) - 1; i >= 0; i-- {
		f := frames[i]
		if !f.T || f.Err != nil {
			continue
		}
		for _, t := range types {
			if f.Msg.Type == t {
				return f.Msg, true
			}
		}
	}
	return refcodec.Msg{}, false
}

// traceWalk follows a walk in the backend log: from handle `from`, one
// successful single-component walk per name.
func traceWalk(calls []*memfs.Call, from int, names []string) (h, parent int, ok bool) {
	cur, par := from, -1
	if len(names) == 0 {
		for _, c := range calls {
			if (c.Method == "Walk" || c.Method == "WalkGetAttr") && c.Handle == from && len(c.Names) == 0 && c.Err == nil && c.NewH >= 0 {
				return c.NewH, -1, true
			}
		}
		return -1, -1, false
	}
	for _, n := range names {
		found := false
		for _, c := range calls {
			if (c.Method == "Walk" || c.Method == "WalkGetAttr") && c.Handle == cur && len(c.Names) == 1 && c.Names[0] == n && c.Err == nil && c.NewH >= 0 {
				par, cur, found = cur, c.NewH, true
				break
			}
		}
		if !found {
			return -1, -1, false
		}
	}
	return cur, par, true
}

type walked struct {
	file   p9.File
	fid    uint64
	h      int
	parent int
}

// walk performs a client Walk from a traced handle and traces the result.
func (s *session) walk(from p9.File, fromH int, names []string) (walked, error) {
	cm, fm := len(s.fs.Calls), s.tap.Mark()
	var arg []string
	if len(names) > 0 {
		arg = names
	}
	_, f, err := from.Walk(arg)
	if err != nil {
		return walked{}, fmt.Errorf("Walk(%q): %v", names, err)
	}
	t, ok := lastT(s.tap.Since(fm), refcodec.Twalk)
	if !ok {
		return walked{}, fmt.Errorf("Walk(%q): no Twalk on the wire", names)
	}
	h, par, ok := traceWalk(s.fs.Calls[cm:], fromH, names)
	if !ok {
		return walked{}, fmt.Errorf("Walk(%q): cannot follow the walk in the backend log", names)
	}
	return walked{file: f, fid: t.U("newfid"), h: h, parent: par}, nil
}

type result struct {
	issues   []methods.Issue
	setupErr error
	frames   int
	calls    int
	outcome  string
	backend  string
	skipped  string
	wire     string
}

const createFlags = 2 // the create derivation opens read-write

// runCase executes one case in a fresh session.
func runCase(s *space, version int, devs []methods.Dev) (res result) {
	atomic.AddInt64(&progress, 1)
	m, d := s.m, derivs[s.di]
	a, r, inj := s.materialize(devs)

	// cases the harness cannot express
	if m.Name == "SetAttr" && s.target == methods.TFileOpen && methods.U(a[4]) >= 1<<63 {
		res.skipped = "memfs cannot apply sizes >= 2^63 to a regular file"
		return
	}
	level := d.Level
	kind := s.target
	if d.Create {
		level, kind = 0, methods.TDir
	}
	fx := methods.NewFixture(level, kind, nil, nil)
	fs := fx.FS
	fs.WalkGetAttrImpl = d.WGA
	ss, err := start(fs, version)
	if err != nil {
		res.setupErr = err
		return
	}
	defer func() {
		ss.close()
		res.frames = ss.tap.Mark()
		res.calls = len(fs.Calls)
	}()
	fail := func(format string, args ...interface{}) result {
		res.setupErr = fmt.Errorf(format, args...)
		return res
	}

	root, err := ss.cl.Attach("")
	if err != nil {
		return fail("Attach: %v", err)
	}
	rootH := -1
	for _, c := range fs.Calls {
		if c.Method == "Attach" && c.Err == nil {
			rootH = c.NewH
		}
	}
	ta, ok := lastT(ss.tap.Since(0), refcodec.Tattach)
	if !ok || rootH < 0 {
		return fail("attach not visible (Tattach seen: %v, backend Attach handle %d)", ok, rootH)
	}
	env := &methods.Env{Version: uint32(version), Msize: msize, Payload: payload, Target: s.target, WGA: d.WGA, H: -1, Parent: -1}
	switch {
	case d.Create:
		w, err := ss.walk(root, rootH, []string{methods.CreateDir})
		if err != nil {
			return fail("create derivation: %v", err)
		}
		cm := len(fs.Calls)
		if _, _, _, err := w.file.Create(methods.CreatedName, createFlags, 0o640, 7, 8); err != nil {
			return fail("create derivation: Create: %v", err)
		}
		h := -1
		for _, c := range fs.Calls[cm:] {
			if c.Method == "Create" && c.Handle == w.h && c.Err == nil {
				h = c.NewH
			}
		}
		if h < 0 {
			return fail("create derivation: Create did not reach handle %d", w.h)
		}
		env.File, env.Fid, env.H, env.Parent, env.CurName = w.file, w.fid, h, w.h, methods.CreatedName
	case d.Level == 0:
		env.File, env.Fid, env.H = root, ta.U("fid"), rootH
	default:
		w, err := ss.walk(root, rootH, fx.Path)
		if err != nil {
			return fail("%s derivation: %v", d.Name, err)
		}
		env.File, env.Fid, env.H, env.Parent, env.CurName = w.file, w.fid, w.h, w.parent, fx.Path[len(fx.Path)-1]
		if d.Level == 1 {
			env.Parent = rootH
		}
	}
	env.Refs[methods.RefSelf] = methods.Ref{File: env.File, Fid: env.Fid, H: env.H}
	for _, ri := range m.Refs {
		var names []string
		switch ri {
		case methods.RefAuxDir:
			names = []string{methods.AuxDir}
		case methods.RefAuxFile:
			names = []string{methods.AuxFile}
		case methods.RefParent:
			switch {
			case d.Create:
				names = []string{methods.CreateDir}
			case d.Level >= 1:
				names = fx.Path[:len(fx.Path)-1]
			default:
				continue
			}
		}
		w, err := ss.walk(root, rootH, names)
		if err != nil {
			return fail("auxiliary handle %d: %v", ri, err)
		}
		env.Refs[ri] = methods.Ref{File: w.file, Fid: w.fid, H: w.h}
	}
	if !d.Create {
		switch s.target {
		case methods.TFileOpen:
			if _, _, err := env.File.Open(p9.ReadWrite); err != nil {
				return fail("Open(ReadWrite): %v", err)
			}
		case methods.TDirOpen:
			if _, _, err := env.File.Open(p9.ReadOnly); err != nil {
				return fail("Open(ReadOnly): %v", err)
			}
		}
	}
	if inj != nil && inj.Step > 0 && (m.StepOK == nil || !m.StepOK(env, a, inj.Step)) {
		res.skipped = "injection position does not exist for these arguments"
		return
	}

	// the invocation under test
	fs.Hook = m.MakeHook(env, a, r, inj)
	cm, fm := len(fs.Calls), ss.tap.Mark()
	out := m.Invoke(env, a)
	fs.Hook = nil
	calls := fs.Calls[cm:]
	frames := ss.tap.Since(fm)

	res.issues = m.Check(env, a, r, inj, calls, out)
	if len(res.issues) > 0 && !m.Local {
		res.wire = wireDiag(m, env, a, r, frames)
	}
	// only message types the negotiated version defines
	for _, f := range frames {
		if f.Err != nil {
			res.issues = append(res.issues, methods.Issue{Clause: "wire-undecodable", Field: fmt.Sprintf("type%d", f.Msg.Type), Msg: fmt.Sprintf("frame of type %d on the wire is not a 9P2000.L message: %v", f.Msg.Type, f.Err)})
			continue
		}
		if min := minVersion(f.Msg.Type); version < min {
			res.issues = append(res.issues, methods.Issue{Clause: "wire-type-not-in-version", Field: f.Msg.Name(), Msg: fmt.Sprintf("%s appears on the wire at version %d but is defined from version %d on", f.Msg.Name(), version, min)})
		}
	}
	if m.Local && len(frames) > 0 {
		res.issues = append(res.issues, methods.Issue{Clause: "local-method-on-wire", Field: frames[0].Msg.Name(), Msg: fmt.Sprintf("%s is answered by the client itself but sent %s", m.Name, frames[0].Msg.Name())})
	}
	// outcome class and backend signature (vacuity guards)
	switch {
	case out.Err == nil:
		res.outcome = "ok"
	default:
		if n, ok := methods.GotErrno(out.Err); ok {
			res.outcome = fmt.Sprintf("errno%d", n)
		} else {
			res.outcome = "err:" + out.Err.Error()
		}
	}
	var sig []string
	for _, c := range calls {
		sig = append(sig, c.Method)
	}
	res.backend = strings.Join(sig, ",")
	return res
}

// minVersion is the lowest 9P2000.L.Google.N that defines a message type.
func minVersion(t uint8) int {
	switch t {
	case refcodec.Twalkgetattr, refcodec.Rwalkgetattr:
		return 2
	case refcodec.Tucreate, refcodec.Rucreate, refcodec.Tumkdir, refcodec.Rumkdir, refcodec.Tumknod, refcodec.Rumknod, refcodec.Tusymlink, refcodec.Rusymlink:
		return 3
	}
	return 0
}

// wireDiag names the first field in which the requests on the wire differ
// from what the table expects (used to make fingerprints specific).
func wireDiag(m *methods.Method, env *methods.Env, a, r methods.V, frames []vproxy.Frame) string {
	if m.Wire == nil {
		return ""
	}
	var ts []refcodec.Msg
	for _, f := range frames {
		if f.T && f.Err == nil {
			ts = append(ts, f.Msg)
		}
	}
	for i, x := range m.Wire(env, a, r) {
		if i >= len(ts) {
			return ""
		}
		g := ts[i]
		if g.Type != x.Type {
			return ""
		}
		for j, fd := range refcodec.Defs[x.Type].Fields {
			if !wireMatch(x.Vals[j], g.Vals[j]) {
				return fd.Name
			}
		}
	}
	return ""
}

func wireMatch(exp, got interface{}) bool {
	if u, ok := exp.(uint64); ok && u == methods.AnyFid {
		return true
	}
	if alts, ok := exp.(methods.OneOf); ok {
		for _, x := range alts {
			if methods.Eq(x, got) {
				return true
			}
		}
		return false
	}
	if b, ok := exp.([]byte); ok {
		g, _ := got.([]byte)
		return string(b) == string(g)
	}
	return methods.Eq(exp, got)
}

func fingerprint(m *methods.Method, is methods.Issue, wire string) string {
	switch is.Clause {
	case "errno-map":
		return "errno-map:" + is.Field
	case "backend-not-reached", "backend-wrong-handle", "backend-arg":
		if wire != "" {
			return strings.ToLower(m.Name) + "-wrong-" + wire
		}
	}
	fp := m.Name + ":" + is.Clause
	if is.Field != "" {
		fp += ":" + is.Field
	}
	return fp
}

// ---------------------------------------------------------------------------

// calibrate observes the client's I/O piece size for msize.
func calibrate() (uint32, error) {
	fx := methods.NewFixture(1, methods.TFile, nil, nil)
	ss, err := start(fx.FS, 7)
	if err != nil {
		return 0, err
	}
	defer ss.close()
	root, err := ss.cl.Attach("")
	if err != nil {
		return 0, err
	}
	_, f, err := root.Walk(fx.Path)
	if err != nil {
		return 0, err
	}
	if _, _, err := f.Open(p9.ReadOnly); err != nil {
		return 0, err
	}
	big := make([]byte, 3*msize)
	fx.FS.Hook = func(c *memfs.Call) *memfs.Action {
		if c.Method == "ReadAt" {
			return &memfs.Action{Override: &memfs.Override{Data: make([]byte, c.Args[0].(int))}}
		}
		return nil
	}
	cm := len(fx.FS.Calls)
	if _, err := f.ReadAt(big, 0); err != nil {
		return 0, err
	}
	for _, c := range fx.FS.Calls[cm:] {
		if c.Method == "ReadAt" {
			return uint32(c.Args[0].(int)), nil
		}
	}
	return 0, fmt.Errorf("no ReadAt reached the backend")
}

func run(ctx *fw.Ctx, rep *fw.Report) {
	memfs.RecordSites = false
	shard, nShards = ctx.Shard, ctx.NShards
	errAlphabet = methods.Errors()
	p, err := calibrate()
	if err != nil || p == 0 || p >= msize {
		fmt.Fprintf(os.Stderr, "C03: cannot calibrate the I/O piece size: %v (%d)\n", err, p)
		os.Exit(2)
	}
	payload = p
	table := methods.Table(payload)
	allMethods = table
	byName := map[string]*methods.Method{}
	for _, m := range table {
		byName[m.Name] = m
	}

	// watchdog: a case that never returns is an infrastructure failure
	go func() {
		last, idle := int64(-1), 0
		for {
			time.Sleep(5 * time.Second)
			cur := atomic.LoadInt64(&progress)
			if cur == last {
				idle++
			} else {
				idle = 0
			}
			last = cur
			if idle >= 12 {
				fmt.Fprintf(os.Stderr, "C03: watchdog: no case finished for 60 s (shard %d, after %d cases)\n", ctx.Shard, cur)
				os.Exit(2)
			}
		}
	}()

	rep.Rule = fmt.Sprintf("one fresh session (real Client <-> versionproxy <-> real Server <-> memfs, msize %d, I/O piece %d) per case; "+
		"case = method x handle derivation {attach, walk 1/2/3 levels, walk 2 levels with a backend that implements WalkGetAttr, create} x kind of node the handle denotes (quick: one admissible kind per derivation, rotating over dir/file/symlink/opened file; thorough: every admissible kind) x version 0..7 x deviation set; "+
		"the deviation vector is (arguments, backend result values, backend error): the all-defaults case, every 1-field deviation over the full alphabet, "+
		"and 2-field deviations (quick: one member over its full alphabet x the other over its 2-value reduced alphabet; thorough: full x full), result-field x error pairs excluded; "+
		"backend error alphabet: linux.Errno and syscall.Errno over %v, os.ErrNotExist/Exist/Permission/Invalid, %%w chains one and two deep, PathError/LinkError/errors.Join, opaque errors; "+
		"distinct = (method, derivation, version, outcome class, sequence of backend methods), each class counted by one worker only (lower bound)", msize, payload, methods.ErrnoAlphabet)
	rep.Assumptions = append(rep.Assumptions,
		"argument values are restricted to what the session state machine admits (C04): directory operations on unopened directory handles, I/O on opened handles, Readlink on symlinks, Rename/Remove not on the root, new name different from the current one",
		"names are valid single components (C09 owns invalid ones); xattr list names are non-empty and NUL-free (the list format cannot carry others); pid fits 32 bits (proc_id[4])",
		"memfs limits: no negative WriteAt offsets, no SetAttr size >= 2^63 on a regular file (skipped, counted)",
		"attribute lookups, handle releases and Renamed notifications the server makes on its own behalf are not constrained by this check (C05/C07/C08 own them)")

	if ctx.Replay != nil {
		var pr params
		if err := json.Unmarshal(ctx.Replay.Params, &pr); err != nil {
			fmt.Fprintln(os.Stderr, "C03: bad replay parameters:", err)
			os.Exit(2)
		}
		m := byName[pr.Method]
		for di := range derivs {
			if derivs[di].Name != pr.Deriv || m == nil {
				continue
			}
			for _, t := range kinds(m, di, true) {
				if pr.Target == "" || pr.Target == t.String() {
					s := buildSpace(m, di, t)
					report(rep, s, pr.Version, pr.Devs, runCase(s, pr.Version, pr.Devs))
					break
				}
			}
		}
		flush(rep, false)
		return
	}

	pairs := true
	fullPairs := !ctx.Quick()
	idx := 0
	expired := false
	fieldInfo := map[string]interface{}{}
	for _, m := range table {
		if ctx.Filter != "" && !strings.Contains(m.Name, ctx.Filter) {
			continue
		}
		for di := range derivs {
			ks := kinds(m, di, !ctx.Quick())
			if len(ks) == 0 {
				if ctx.Shard == 0 {
					rep.Count("combinations_not_applicable", 1)
				}
				continue
			}
			for _, target := range ks {
				s := buildSpace(m, di, target)
				if fieldInfo[m.Name] == nil {
					var fi []string
					for i, f := range s.fields {
						fi = append(fi, fmt.Sprintf("%s:%d", f.Name, len(s.alpha[i].Vals)))
					}
					fieldInfo[m.Name] = strings.Join(fi, " ")
				}
				for version := 0; version <= 7; version++ {
					methods.EnumDevs(s.alpha, pairs, fullPairs, s.pairOK, func(devs []methods.Dev) {
						i := idx
						idx++
						if !ctx.Mine(i) || expired {
							return
						}
						if i%64 == 0 && ctx.Expired() {
							expired = true
							rep.NotExhaustive(fmt.Sprintf("soft budget reached in %s/%s/version %d", m.Name, derivs[di].Name, version))
							return
						}
						report(rep, s, version, devs, runCase(s, version, devs))
					})
				}
			}
		}
	}
	flush(rep, true)
	if ctx.Shard == 0 {
		rep.Info["alphabet_sizes_per_field"] = fieldInfo
		rep.Info["cases_in_space"] = idx
		rep.Info["io_piece_size"] = payload
		rep.Info["msize"] = msize
		var en []string
		for _, e := range errAlphabet {
			en = append(en, e.Name)
		}
		rep.Info["backend_error_alphabet"] = en
	}
}

func report(rep *fw.Report, s *space, version int, devs []methods.Dev, r result) {
	m := s.m
	if r.skipped != "" {
		rep.Count("skipped:"+r.skipped, 1)
		return
	}
	rep.States++
	rep.Traces++
	rep.Transitions += int64(r.frames)
	rep.Evaluations++
	rep.Count("cases_"+m.Name, 1)
	rep.Count(fmt.Sprintf("cases_version_%d", version), 1)
	rep.Count("cases_derivation_"+derivs[s.di].Name, 1)
	rep.Count("backend_calls_observed", int64(r.calls))
	switch len(devs) {
	case 0:
		rep.Count("cases_all_defaults", 1)
	case 1:
		rep.Count("cases_1_deviation", 1)
	default:
		rep.Count("cases_2_deviations", 1)
	}
	for _, d := range devs {
		if d.F == s.errField() {
			rep.Count("cases_backend_error", 1)
		}
	}
	pr := params{Method: m.Name, Deriv: derivs[s.di].Name, Target: s.target.String(), Version: version, Devs: devs, Human: s.human(version, devs)}
	if r.setupErr != nil {
		rep.Violate(&fw.Violation{Fingerprint: "setup:" + derivs[s.di].Name + ":" + firstWords(r.setupErr.Error(), 3), Scenario: "c03-case", Params: fw.JSON(pr),
			Summary: fmt.Sprintf("the handle could not be derived: %v", r.setupErr), Detail: []string{pr.Human}})
		return
	}
	// an outcome class is counted by one shard only (the one its hash names),
	// so that the merged number is a lower bound and never counts a class twice
	key := fmt.Sprintf("%s|%s|v%d|%s|%s", m.Name, derivs[s.di].Name, version, r.outcome, r.backend)
	hsh := fnv.New32a()
	hsh.Write([]byte(key))
	if nShards <= 1 || int(hsh.Sum32()%uint32(nShards)) == shard {
		if rep.Distinct(key) {
			rep.Sample(map[string]string{"case": pr.Human, "outcome": r.outcome, "backend_calls": r.backend})
		}
	}
	for _, is := range r.issues {
		fp := fingerprint(m, is, r.wire)
		h := &hit{fp: fp, s: s, version: version, devs: devs, res: r, issue: is}
		if old, ok := found[fp]; !ok || h.less(old) {
			found[fp] = h
		}
		break // one report per case: the first failing clause
	}
}

// hit is a violating case; the smallest one per fingerprint is reported.
type hit struct {
	fp      string
	s       *space
	version int
	devs    []methods.Dev
	res     result
	issue   methods.Issue
}

var found = map[string]*hit{}

func (h *hit) less(o *hit) bool {
	if len(h.devs) != len(o.devs) {
		return len(h.devs) < len(o.devs)
	}
	if h.s.di != o.s.di {
		return h.s.di < o.s.di
	}
	return h.version < o.version
}

// firstIssue runs a case and returns its fingerprint ("" if it passes).
func firstIssue(s *space, version int, devs []methods.Dev) (string, result, methods.Issue) {
	r := runCase(s, version, devs)
	if r.skipped != "" || r.setupErr != nil || len(r.issues) == 0 {
		return "", r, methods.Issue{}
	}
	return fingerprint(s.m, r.issues[0], r.wire), r, r.issues[0]
}

// minimize looks for a smaller case with the same fingerprint: fewer
// deviations, then an earlier derivation, then a lower version.
func minimize(h *hit) *hit {
	if strings.HasPrefix(h.fp, "errno-map:") {
		// the errno mapping does not depend on the method: report the first
		// method of the table that shows it with nothing else off default
		var ec *errChoice
		for _, d := range h.devs {
			if d.F == h.s.errField() {
				c := h.s.alpha[d.F].Vals[d.A].(errChoice)
				ec = &c
			}
		}
		for _, m := range allMethods {
			if ec == nil || m.Local || ec.Step != 0 {
				break
			}
			for di := range derivs {
				target, ok := pick(m, di)
				if !ok || !admissible(m, di, target) {
					continue
				}
				s := buildSpace(m, di, target)
				for ai, v := range s.alpha[s.errField()].Vals {
					if v.(errChoice) != *ec {
						continue
					}
					devs := []methods.Dev{{F: s.errField(), A: ai}}
					if fp, r, is := firstIssue(s, 0, devs); fp == h.fp {
						return &hit{fp: h.fp, s: s, version: 0, devs: devs, res: r, issue: is}
					}
				}
				break
			}
		}
	}
	var subsets [][]methods.Dev
	subsets = append(subsets, nil)
	for _, d := range h.devs {
		subsets = append(subsets, []methods.Dev{d})
	}
	if len(h.devs) > 1 {
		subsets = append(subsets, h.devs)
	}
	for _, devs := range subsets {
		for di := range derivs {
			target, ok := pick(h.s.m, di)
			if !ok || !admissible(h.s.m, di, target) {
				continue
			}
			s := h.s
			if di != h.s.di {
				s = buildSpace(h.s.m, di, target)
				same := len(s.alpha) == len(h.s.alpha)
				for _, d := range devs {
					if !same || d.A >= len(s.alpha[d.F].Vals) || !sameVal(s.alpha[d.F].Vals[d.A], h.s.alpha[d.F].Vals[d.A]) {
						same = false
					}
				}
				if !same {
					continue
				}
			}
			for version := 0; version <= 7; version++ {
				c := &hit{fp: h.fp, s: s, version: version, devs: devs}
				if !c.less(h) {
					continue
				}
				if fp, r, is := firstIssue(s, version, devs); fp == h.fp {
					c.res, c.issue = r, is
					return c
				}
			}
		}
	}
	return h
}

func sameVal(a, b interface{}) bool {
	if x, ok := a.(errChoice); ok {
		y, ok := b.(errChoice)
		return ok && x == y
	}
	return methods.Eq(a, b)
}

// flush reports the (minimized) violating cases.
func flush(rep *fw.Report, doMinimize bool) {
	for _, h := range found {
		if doMinimize {
			h = minimize(h)
		}
		pr := params{Method: h.s.m.Name, Deriv: derivs[h.s.di].Name, Target: h.s.target.String(), Version: h.version, Devs: h.devs, Human: h.s.human(h.version, h.devs)}
		detail := []string{pr.Human, h.issue.Msg, "client returned: " + h.res.outcome, "backend calls during the invocation: [" + h.res.backend + "]"}
		if h.res.wire != "" {
			detail = append(detail, "first request field on the wire that differs from the expected request: "+h.res.wire)
		}
		rep.Violate(&fw.Violation{Fingerprint: h.fp, Scenario: "c03-case", Params: fw.JSON(pr),
			Summary: fmt.Sprintf("%s: %s", h.s.m.Name, h.issue.Msg), Detail: detail})
	}
}

func firstWords(s string, n int) string {
	w := strings.Fields(s)
	if len(w) > n {
		w = w[:n]
	}
	return strings.Join(w, "-")
}
