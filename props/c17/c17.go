// Package c17 checks stream segmentation independence on both receive paths
// (DESIGN.md §4 C17): the messages a peer decodes depend only on the bytes of
// the stream, not on how the transport cuts them into reads.
//
// Streams of 1-3 frames (with and without payload) are fed
//   - as T-frames into the REAL p9.Server (observed: memfs call arguments and
//     payload bytes, the reply stream, Handle returning), and
//   - as R-frames into the REAL p9.Client (observed: return values of the
//     pending calls; the other end is a scripted raw peer),
//
// over two transports: a vpipe whose Read sizes are planned (generic
// io.Reader path of vecnet) and a real AF_UNIX SOCK_STREAM socketpair handed
// to p9 as *net.UnixConn (a syscall.Conn, so vecnet takes the recvmsg path),
// where segment i+1 is written only after FIONREAD/SIOCINQ on the reader's
// socket reports 0 pending bytes.
package c17

import (
	"encoding/binary"
	"encoding/json"
	"errors"
	"fmt"
	"io"
	"net"
	"os"
	"runtime"
	"sort"
	"strings"
	"sync"
	"sync/atomic"
	"syscall"
	"time"
	"unsafe"

	"github.com/hugelgupf/p9/linux"
	"github.com/hugelgupf/p9/p9"
	"verif/harness/fw"
	"verif/harness/memfs"
	"verif/harness/rawpeer"
	"verif/harness/refcodec"
	"verif/harness/vpipe"
)

func init() {
	fw.Register(&fw.Prop{ID: "C17", Level: "model_checking", Run: run, Sharded: true, QuickSecs: 80, ThoroughSecs: 840})
}

const (
	pathGeneric = "generic(vpipe)"
	pathVector  = "recvmsg(socketpair)"
	dirServer   = "T->server"
	dirClient   = "R->client"

	// truncMark prefixes findings about a frame the stream ended inside of.
	truncMark = "[frame cut off by end of stream] "

	// stallAfter only detects a hang (p9 stops consuming or never returns);
	// it is never part of a pass verdict.
	stallAfter = 45 * time.Second
)

// kase is one element of the enumerated space.
type kase struct {
	Dir    string   `json:"direction"`
	Path   string   `json:"path"`
	Stream []string `json:"stream"`      // frame kinds, see tMsg / rSpec
	Cuts   []int    `json:"cuts"`        // planned cut positions (byte offsets inside the stream)
	Trunc  int      `json:"truncate_at"` // -1: whole stream; else the stream ends (EOF) after that many bytes
	// EOFData: generic path only: the reader hands over the last bytes of the
	// stream TOGETHER with io.EOF (allowed by io.Reader) instead of reporting
	// EOF on the next Read.
	EOFData bool `json:"eof_with_last_data,omitempty"`
}

// ---------------------------------------------------------------------------
// Transports.

// link connects the harness (scripted peer) with p9.
type link interface {
	P9End() io.ReadWriteCloser                  // what p9 reads from and writes to
	Write(b []byte) error                       // unsegmented write towards p9
	WriteSeg(b []byte, cuts []int) (int, error) // planned segmentation; returns the number of segments delivered
	ReadFrame() ([]byte, error)                 // next frame emitted by p9
	CloseWrite()                                // EOF towards p9
	Kill()                                      // force everything closed (stall handling)
	Close()
	Reads() int // reads p9 performed so far (-1 if unknown)
}

type frameReader struct {
	r   io.Reader
	buf []byte
	eof bool
}

func (fr *frameReader) next() ([]byte, error) {
	for {
		if len(fr.buf) >= 4 {
			n := int(binary.LittleEndian.Uint32(fr.buf))
			if n < 7 || n > 1<<24 {
				return nil, fmt.Errorf("p9 emitted a frame of declared size %d", n)
			}
			if len(fr.buf) >= n {
				f := append([]byte(nil), fr.buf[:n]...)
				fr.buf = fr.buf[n:]
				return f, nil
			}
		}
		if fr.eof {
			if len(fr.buf) > 0 {
				return nil, io.ErrUnexpectedEOF
			}
			return nil, io.EOF
		}
		var tmp [4096]byte
		n, err := fr.r.Read(tmp[:])
		fr.buf = append(fr.buf, tmp[:n]...)
		if err != nil {
			fr.eof = true
		}
	}
}

// pipeLink: vpipe, p9 sees a plain io.Reader.
type pipeLink struct {
	peer, p9 *vpipe.Conn
	fr       frameReader
	mu       sync.Mutex
	plan     []int // absolute cut positions (bytes delivered to p9), ascending
}

func newPipeLink() *pipeLink {
	a, b := vpipe.NewConnPair("c17")
	l := &pipeLink{peer: a, p9: b}
	l.fr.r = a
	toP9 := a.W
	toP9.Seg = func(_, avail, _ int) int {
		l.mu.Lock()
		defer l.mu.Unlock()
		pos := toP9.TotalRead
		for _, c := range l.plan {
			if c > pos {
				return c - pos
			}
		}
		return avail
	}
	return l
}

func (l *pipeLink) P9End() io.ReadWriteCloser { return l.p9 }
func (l *pipeLink) Write(b []byte) error      { _, err := l.peer.Write(b); return err }
func (l *pipeLink) WriteSeg(b []byte, cuts []int) (int, error) {
	base := len(l.peer.W.Written)
	l.mu.Lock()
	l.plan = append(l.plan[:0], base)
	for _, c := range cuts {
		if c > 0 && c < len(b) {
			l.plan = append(l.plan, base+c)
		}
	}
	n := len(l.plan)
	l.plan = append(l.plan, base+len(b))
	l.mu.Unlock()
	if len(b) == 0 {
		return 0, nil
	}
	_, err := l.peer.Write(b)
	return n, err
}

// WriteSegEOF is WriteSeg + CloseWrite in one step, with the last bytes
// delivered together with io.EOF.
func (l *pipeLink) WriteSegEOF(b []byte, cuts []int) (int, error) {
	l.peer.W.EOFWithData = true
	base := len(l.peer.W.Written)
	l.mu.Lock()
	l.plan = append(l.plan[:0], base)
	for _, c := range cuts {
		if c > 0 && c < len(b) {
			l.plan = append(l.plan, base+c)
		}
	}
	n := len(l.plan)
	l.plan = append(l.plan, base+len(b))
	l.mu.Unlock()
	_, err := l.peer.W.WriteAndCloseWrite(b)
	return n, err
}
func (l *pipeLink) ReadFrame() ([]byte, error) { return l.fr.next() }
func (l *pipeLink) CloseWrite()                { l.peer.W.CloseWrite() }
func (l *pipeLink) Kill() {
	l.peer.W.CloseWrite()
	l.peer.R.CloseRead()
	l.peer.R.CloseWrite()
	l.peer.W.CloseRead()
}
func (l *pipeLink) Close()     { l.peer.Close() }
func (l *pipeLink) Reads() int { return l.peer.W.Reads }

// sockLink: a real unix stream socketpair; p9 gets a *net.UnixConn.
type sockLink struct {
	p9c, peer *net.UnixConn
	inq       int // dup of p9's socket, only for FIONREAD queries
	fr        frameReader
	waits     int64
	closed    atomic.Bool
}

var errStalled = errors.New("p9 stopped consuming its input")

func newSockLink() (*sockLink, error) {
	fds, err := syscall.Socketpair(syscall.AF_UNIX, syscall.SOCK_STREAM|syscall.SOCK_CLOEXEC, 0)
	if err != nil {
		return nil, err
	}
	inq, err := syscall.Dup(fds[0])
	if err != nil {
		syscall.Close(fds[0])
		syscall.Close(fds[1])
		return nil, err
	}
	syscall.CloseOnExec(inq)
	mk := func(fd int, name string) (*net.UnixConn, error) {
		f := os.NewFile(uintptr(fd), name)
		defer f.Close()
		c, err := net.FileConn(f)
		if err != nil {
			return nil, err
		}
		uc, ok := c.(*net.UnixConn)
		if !ok {
			c.Close()
			return nil, fmt.Errorf("net.FileConn returned %T", c)
		}
		return uc, nil
	}
	c0, err0 := mk(fds[0], "c17-p9")
	c1, err1 := mk(fds[1], "c17-peer")
	if err0 != nil || err1 != nil {
		syscall.Close(inq)
		if c0 != nil {
			c0.Close()
		}
		if c1 != nil {
			c1.Close()
		}
		return nil, fmt.Errorf("FileConn: %v %v", err0, err1)
	}
	l := &sockLink{p9c: c0, peer: c1, inq: inq}
	l.fr.r = c1
	return l, nil
}

func (l *sockLink) pending() (int, error) {
	var n int32
	_, _, e := syscall.Syscall(syscall.SYS_IOCTL, uintptr(l.inq), uintptr(syscall.TIOCINQ), uintptr(unsafe.Pointer(&n)))
	if e != 0 {
		return 0, e
	}
	return int(n), nil
}

// drained waits until p9 has taken every byte written so far out of its
// socket. This is a condition wait, not a timing assumption.
func (l *sockLink) drained() error {
	var deadline time.Time
	for i := 0; ; i++ {
		n, err := l.pending()
		if err != nil {
			return err
		}
		if n == 0 {
			return nil
		}
		l.waits++
		if deadline.IsZero() {
			deadline = time.Now().Add(stallAfter)
		} else if i%256 == 0 && time.Now().After(deadline) {
			return errStalled
		}
		if l.closed.Load() {
			return errStalled
		}
		// Park (rather than spin) so that the scheduler polls the network and
		// runs p9's reader; the timer brings us back right after it blocks.
		time.Sleep(time.Microsecond)
	}
}

func (l *sockLink) P9End() io.ReadWriteCloser { return l.p9c }
func (l *sockLink) Write(b []byte) error      { _, err := l.peer.Write(b); return err }
func (l *sockLink) WriteSeg(b []byte, cuts []int) (int, error) {
	// Nothing written earlier may merge with the first segment either.
	if err := l.drained(); err != nil {
		return 0, err
	}
	prev, segs := 0, 0
	bounds := append(append([]int(nil), cuts...), len(b))
	for _, c := range bounds {
		if c <= prev || c > len(b) {
			continue
		}
		if _, err := l.peer.Write(b[prev:c]); err != nil {
			return segs, err
		}
		segs++
		prev = c
		if c < len(b) {
			if err := l.drained(); err != nil {
				return segs, err
			}
		}
	}
	return segs, nil
}
func (l *sockLink) ReadFrame() ([]byte, error) { return l.fr.next() }

// CloseWrite ends the stream towards p9. The query descriptor is released as
// well: it refers to p9's socket and would otherwise keep that socket open
// after p9 closed it, hiding p9's EOF from the peer.
func (l *sockLink) CloseWrite() {
	l.peer.CloseWrite()
	l.closeInq()
}

func (l *sockLink) closeInq() {
	if l.inq >= 0 {
		syscall.Close(l.inq)
		l.inq = -1
	}
}

func (l *sockLink) Kill() {
	l.closed.Store(true)
	l.peer.Close()
	l.p9c.Close()
}
func (l *sockLink) Close() {
	l.closed.Store(true)
	l.peer.Close()
	l.p9c.Close() // normally closed by p9 already
	l.closeInq()
}
func (l *sockLink) Reads() int { return -1 }

func newLink(path string) (link, error) {
	if path == pathGeneric {
		return newPipeLink(), nil
	}
	return newSockLink()
}

// checkPaths verifies that the two transports really select the two receive
// paths of vecnet.Buffers.ReadFrom (its predicate is r.(syscall.Conn)).
func checkPaths() error {
	pl := newPipeLink()
	if _, ok := io.Reader(pl.P9End()).(syscall.Conn); ok {
		return errors.New("vpipe.Conn implements syscall.Conn: it would not exercise the generic path")
	}
	sl, err := newSockLink()
	if err != nil {
		return fmt.Errorf("socketpair: %v", err)
	}
	defer func() { sl.Kill(); sl.closeInq() }()
	sc, ok := io.Reader(sl.P9End()).(syscall.Conn)
	if !ok {
		return errors.New("*net.UnixConn from the socketpair does not implement syscall.Conn")
	}
	if _, err := sc.SyscallConn(); err != nil {
		return fmt.Errorf("SyscallConn: %v", err)
	}
	if runtime.GOOS != "linux" {
		return errors.New("vecnet has a recvmsg path on linux only")
	}
	// FIONREAD must see exactly what was written and not yet read.
	if n, err := sl.pending(); err != nil || n != 0 {
		return fmt.Errorf("FIONREAD on an empty socket: %d %v", n, err)
	}
	sl.peer.Write([]byte("abcde"))
	if n, err := sl.pending(); err != nil || n != 5 {
		return fmt.Errorf("FIONREAD after writing 5 bytes: %d %v", n, err)
	}
	var two [2]byte
	io.ReadFull(sl.p9c, two[:])
	if n, err := sl.pending(); err != nil || n != 3 {
		return fmt.Errorf("FIONREAD after reading 2 of 5 bytes: %d %v", n, err)
	}
	return nil
}

// ---------------------------------------------------------------------------
// Segmentations.

type frameInfo struct {
	kind  string
	start int
	size  int
	fixed int // size of the fixed part of a payload-carrying frame (0: none)
}

func layout(frames [][]byte, kinds []string, fixed []int) (stream []byte, info []frameInfo) {
	for i, f := range frames {
		info = append(info, frameInfo{kind: kinds[i], start: len(stream), size: len(f), fixed: fixed[i]})
		stream = append(stream, f...)
	}
	return
}

// boundaries are the positions where p9 switches buffers: start of a frame,
// after the size field, after the header, after the fixed part, end of frame.
func boundaries(info []frameInfo) []int {
	var b []int
	for _, f := range info {
		b = append(b, f.start, f.start+4, f.start+7)
		if f.fixed > 0 {
			b = append(b, f.start+7+f.fixed)
		}
		b = append(b, f.start+f.size)
	}
	return b
}

const exhaustiveLen = 18

// segmentations enumerates the planned cut sets for a stream of L bytes.
func segmentations(L int, bounds []int, thorough bool) [][]int {
	if L <= exhaustiveLen {
		out := make([][]int, 0, 1<<(L-1))
		for mask := 0; mask < 1<<(L-1); mask++ {
			cuts := []int{}
			for b := 0; b < L-1; b++ {
				if mask>>b&1 == 1 {
					cuts = append(cuts, b+1)
				}
			}
			out = append(out, cuts)
		}
		return out
	}
	var out [][]int
	seen := map[string]bool{}
	add := func(c []int) {
		c = append([]int(nil), c...)
		sort.Ints(c)
		n := []int{}
		for i, x := range c {
			if x < 1 || x > L-1 || (i > 0 && x == c[i-1]) {
				continue
			}
			n = append(n, x)
		}
		key := fmt.Sprint(n)
		if seen[key] {
			return
		}
		seen[key] = true
		out = append(out, n)
	}
	add(nil)
	for a := 1; a < L; a++ {
		add([]int{a})
	}
	for a := 1; a < L; a++ {
		for b := a + 1; b < L; b++ {
			add([]int{a, b})
		}
	}
	all := make([]int, 0, L)
	for a := 1; a < L; a++ {
		all = append(all, a)
	}
	add(all)
	var minus, plus, nb []int
	for _, b := range bounds {
		minus = append(minus, b-1)
		plus = append(plus, b+1)
		nb = append(nb, b-1, b, b+1)
	}
	add(bounds)
	add(minus)
	add(plus)
	add(nb)
	if thorough {
		sort.Ints(nb)
		var u []int
		for i, x := range nb {
			if x >= 1 && x <= L-1 && (i == 0 || x != nb[i-1]) {
				u = append(u, x)
			}
		}
		for i := 0; i < len(u); i++ {
			for j := i + 1; j < len(u); j++ {
				for k := j + 1; k < len(u); k++ {
					add([]int{u[i], u[j], u[k]})
				}
			}
		}
	}
	return out
}

// canarySegs is a small fixed set of cut sets used by the canary.
func canarySegs(L int, bounds []int) [][]int {
	out := [][]int{nil}
	var all, nb []int
	for a := 1; a < L; a++ {
		out = append(out, []int{a})
		all = append(all, a)
	}
	out = append(out, all)
	seen := map[int]bool{}
	for _, b := range bounds {
		for _, x := range []int{b - 1, b, b + 1} {
			if x >= 1 && x < L && !seen[x] {
				seen[x] = true
				nb = append(nb, x)
			}
		}
	}
	sort.Ints(nb)
	out = append(out, nb)
	for i := range nb {
		for j := i + 1; j < len(nb); j++ {
			out = append(out, []int{nb[i], nb[j]})
		}
	}
	return out
}

// ---------------------------------------------------------------------------
// Direction 1: T-frames into the real server.

const (
	fileSize  = 256
	readOff   = 200
	readCount = 4
	writeSlot = 64
	setupFids = 3 // fids 3,4,5 walked to the file for Tclunk frames
)

func fileContent() []byte {
	b := make([]byte, fileSize)
	for i := range b {
		b[i] = 0x30 + byte(i%67)
	}
	return b
}

func writeData(j, n int) []byte {
	b := make([]byte, n)
	for i := range b {
		b[i] = 0xA0 + byte(16*j+i%16)
	}
	return b
}

// tMsg builds frame kind at stream position j (frames of one stream never
// touch the same state, so the order in which the server runs them is
// irrelevant).
func tMsg(kind string, j int) (m refcodec.Msg, fixed int) {
	tag := uint16(1 + j)
	switch kind {
	case "Tflush":
		return rawpeer.Tflush(tag, uint16(90+j)), 0
	case "Tclunk":
		return rawpeer.Tclunk(tag, uint32(3+j)), 0
	case "Tread":
		return rawpeer.Tread(tag, 2, uint64(readOff+8*j), readCount), 0
	case "Tgetattr":
		return rawpeer.Tgetattr(tag, 1), 0
	case "Twalk":
		return rawpeer.Twalk(tag, 1, uint32(10+j), "f"), 0
	case "Tmkdir":
		return rawpeer.Tmkdir(tag, 1, fmt.Sprintf("d%d", j)), 0
	case "Tmkdir-long": // body larger than p9's pooled 64-byte buffer
		return rawpeer.Tmkdir(tag, 1, strings.Repeat("n", 70)+fmt.Sprint(j)), 0
	}
	var n int
	if _, err := fmt.Sscanf(kind, "Twrite%d", &n); err == nil {
		return rawpeer.Twrite(tag, 2, uint64(writeSlot*j), writeData(j, n)), 16
	}
	panic("c17: unknown T frame kind " + kind)
}

type built struct {
	stream []byte
	info   []frameInfo
	msgs   []refcodec.Msg
}

// rejectedFrame: frames the server cannot decode and answers with Rlerror
// after skipping their body (p9's reject paths): a message type that is not
// registered (Tgetlock, which Linux clients do send), a payload-carrying type
// whose body is shorter than its fixed part, and a known type with a
// malformed body. nil for every other kind.
func rejectedFrame(kind string, tag uint16) []byte {
	var typ uint8
	var body []byte
	switch kind {
	case "Tgetlock":
		typ = 54
		body = []byte{2, 0, 0, 0, 1, 0, 0, 0, 0, 0, 0, 0, 0, 9, 0, 0, 0, 0, 0, 0, 0, 7, 0, 0, 0, 3, 0, 'c', 'l', 'i'}
	case "Twrite-short":
		typ = refcodec.Twrite
		body = []byte{2, 0, 0, 0, 1}
	case "Twalk-badbody":
		typ = refcodec.Twalk
		body = []byte{1, 0, 0, 0, 40, 0, 0, 0, 3, 0, 1, 0, 'f'} // announces 3 names, carries 1
	default:
		return nil
	}
	n := 7 + len(body)
	f := []byte{byte(n), byte(n >> 8), byte(n >> 16), byte(n >> 24), typ, byte(tag), byte(tag >> 8)}
	return append(f, body...)
}

// rejectedType marks, in built.msgs, a frame made by rejectedFrame.
const rejectedType = 255

func buildT(kinds []string) built {
	var frames [][]byte
	var fixed []int
	var b built
	for j, k := range kinds {
		if raw := rejectedFrame(k, uint16(1+j)); raw != nil {
			// p9 answers a frame whose type it does not know under the frame's
			// tag, and a frame whose body it cannot decode under NOTAG (at most
			// one such frame per stream here, so tags stay distinct)
			rtag := uint16(1 + j)
			if k != "Tgetlock" {
				rtag = rawpeer.NoTag
			}
			b.msgs = append(b.msgs, refcodec.Msg{Type: rejectedType, Tag: rtag})
			frames = append(frames, raw)
			fixed = append(fixed, 0)
			continue
		}
		m, fx := tMsg(k, j)
		b.msgs = append(b.msgs, m)
		frames = append(frames, refcodec.Encode(m))
		fixed = append(fixed, fx)
	}
	b.stream, b.info = layout(frames, kinds, fixed)
	return b
}

// obs is everything observable about one run.
type obs struct {
	Calls    []string `json:"backend_calls,omitempty"` // sorted (server direction)
	Replies  []string `json:"replies,omitempty"`       // sorted tag:bytes (server direction)
	Results  []string `json:"results,omitempty"`       // per pending call (client direction)
	Direct   []string `json:"direct,omitempty"`        // violated direct expectations
	Problems []string `json:"problems,omitempty"`      // stall, p9 not returning, setup failures ...
	segs     int
	reads    int
}

func (o *obs) key() string {
	return strings.Join(o.Calls, "\n") + "\x00" + strings.Join(o.Replies, "\n") + "\x00" + strings.Join(o.Results, "\n") + "\x00" + strings.Join(o.Problems, "\n")
}

func callString(c *memfs.Call) string {
	var args string
	switch c.Method {
	case "WriteAt":
		args = fmt.Sprintf("data=%x off=%d", c.Args[0].([]byte), c.Args[1].(int64))
	case "ReadAt":
		args = fmt.Sprintf("len=%d off=%d", c.Args[0].(int), c.Args[1].(int64))
	default:
		args = fmt.Sprint(c.Args...) + " " + strings.Join(c.Names, ",")
	}
	return fmt.Sprintf("%s %s %s -> err=%v panic=%v", c.Method, c.Path, args, c.Err, c.Panic)
}

func withStallGuard(l link, o *obs, body func()) {
	var stalled atomic.Bool
	t := time.AfterFunc(stallAfter, func() { stalled.Store(true); l.Kill() })
	body()
	t.Stop()
	if stalled.Load() {
		o.Problems = append(o.Problems, fmt.Sprintf("stall: p9 made no progress for %v; transport force-closed", stallAfter))
	}
}

func runServer(k kase) *obs {
	o := &obs{}
	l, err := newLink(k.Path)
	if err != nil {
		o.Problems = append(o.Problems, "harness: "+err.Error())
		return o
	}
	b := buildT(k.Stream)
	fs := memfs.New()
	fs.AddFile("f", fileContent())
	srv := p9.NewServer(fs)
	done := make(chan struct{})
	go func() {
		srv.Handle(l.P9End(), l.P9End())
		close(done)
	}()
	returned := false
	withStallGuard(l, o, func() {
		setup := []refcodec.Msg{
			rawpeer.Tversion(rawpeer.NoTag, 8192, "9P2000.L"),
			rawpeer.Tattach(100, 1, ""),
			rawpeer.Twalk(101, 1, 2, "f"),
			rawpeer.Tlopen(102, 2, 2),
		}
		for i := 0; i < setupFids; i++ {
			setup = append(setup, rawpeer.Twalk(uint16(103+i), 1, uint32(3+i), "f"))
		}
		for _, m := range setup {
			if err := l.Write(refcodec.Encode(m)); err != nil {
				o.Problems = append(o.Problems, fmt.Sprintf("setup: write %s: %v", m.Name(), err))
				return
			}
			f, err := l.ReadFrame()
			if err != nil {
				o.Problems = append(o.Problems, fmt.Sprintf("setup: no reply to %s: %v", m.Name(), err))
				return
			}
			if r, _, err := refcodec.Decode(f); err != nil || r.Type != refcodec.ReplyType(m.Type) {
				o.Problems = append(o.Problems, fmt.Sprintf("setup: %s answered by %v (%v)", m.Name(), r, err))
				return
			}
		}
		readsBefore := l.Reads()
		data := b.stream
		if k.Trunc >= 0 {
			data = data[:k.Trunc]
		}
		var segs int
		var err error
		if pl, ok := l.(*pipeLink); ok && k.EOFData {
			segs, err = pl.WriteSegEOF(data, k.Cuts)
		} else {
			segs, err = l.WriteSeg(data, k.Cuts)
		}
		o.segs = segs
		if err != nil {
			o.Problems = append(o.Problems, fmt.Sprintf("delivering the stream: %v", err))
		}
		l.CloseWrite()
		for {
			f, err := l.ReadFrame()
			if err != nil {
				if err != io.EOF {
					o.Problems = append(o.Problems, fmt.Sprintf("reply stream: %v", err))
				}
				break
			}
			m, _, derr := refcodec.Decode(f)
			if derr != nil {
				o.Replies = append(o.Replies, fmt.Sprintf("undecodable:%x", f))
				continue
			}
			o.Replies = append(o.Replies, fmt.Sprintf("tag%d:%s:%x", m.Tag, m.Name(), f))
		}
		select {
		case <-done:
			returned = true
		case <-time.After(stallAfter):
			o.Problems = append(o.Problems, "Server.Handle did not return after its input ended")
		}
		if rd := l.Reads(); rd >= 0 {
			o.reads = rd - readsBefore
		}
		if returned {
			// All backend calls, including those of the (identical) setup:
			// the log is only read after Handle returned.
			for _, c := range fs.Calls {
				o.Calls = append(o.Calls, callString(c))
			}
		}
	})
	l.Close()
	if !returned {
		select {
		case <-done:
		case <-time.After(stallAfter):
		}
	}
	sort.Strings(o.Calls)
	sort.Strings(o.Replies)
	return o
}

// directServer states, independently of any p9 run, what the complete frames
// of a stream must have caused.
func directServer(b built, complete int, o *obs) []string {
	var out []string
	has := func(list []string, prefix string) int {
		n := 0
		for _, s := range list {
			if strings.HasPrefix(s, prefix) {
				n++
			}
		}
		return n
	}
	file := fileContent()
	for j := 0; j < len(b.msgs); j++ {
		m := b.msgs[j]
		var wantCall, wantReply string
		switch m.Type {
		case refcodec.Twrite:
			d := m.Get("data").([]byte)
			wantCall = fmt.Sprintf("WriteAt /f data=%x off=%d -> err=<nil>", d, m.U("offset"))
			wantReply = fmt.Sprintf("tag%d:Rwrite:%x", m.Tag, refcodec.Encode(refcodec.New(refcodec.Rwrite, m.Tag, uint32(len(d)))))
		case refcodec.Tread:
			wantCall = fmt.Sprintf("ReadAt /f len=%d off=%d -> err=<nil>", m.U("count"), m.U("offset"))
			wantReply = fmt.Sprintf("tag%d:Rread:%x", m.Tag, refcodec.Encode(refcodec.New(refcodec.Rread, m.Tag, file[m.U("offset"):m.U("offset")+readCount])))
		case refcodec.Tflush:
			wantReply = fmt.Sprintf("tag%d:Rflush:", m.Tag)
		case refcodec.Tclunk:
			wantReply = fmt.Sprintf("tag%d:Rclunk:", m.Tag)
		case rejectedType:
			wantReply = fmt.Sprintf("tag%d:Rlerror:", m.Tag)
		default:
			wantReply = fmt.Sprintf("tag%d:%s:", m.Tag, refcodec.Defs[refcodec.ReplyType(m.Type)].Name)
		}
		want, pre := 1, ""
		if j >= complete {
			want, pre = 0, truncMark
		}
		if wantCall != "" {
			if n := has(o.Calls, wantCall); n != want {
				out = append(out, fmt.Sprintf("%sframe %d (%s): %d backend calls %q, want %d", pre, j, b.info[j].kind, n, wantCall, want))
			}
		}
		if n := has(o.Replies, wantReply); n != want {
			out = append(out, fmt.Sprintf("%sframe %d (%s): %d replies %q, want %d", pre, j, b.info[j].kind, n, wantReply, want))
		}
		if n := has(o.Replies, fmt.Sprintf("tag%d:", m.Tag)); n != want {
			out = append(out, fmt.Sprintf("%sframe %d (%s): %d replies with its tag, want %d", pre, j, b.info[j].kind, n, want))
		}
	}
	return out
}

// ---------------------------------------------------------------------------
// Direction 2: R-frames into the real client.

type rSpec struct {
	treq  uint8                                     // request type the call emits
	reply func(tag uint16, j int) refcodec.Msg      // the scripted reply
	fixed int                                       // fixed part if the reply carries a payload
	call  func(f p9.File, j int) (string, []string) // runs the call: canonical result, violated direct expectations
}

func errStr(err error) string {
	var en linux.Errno
	var ce p9.ConnError
	switch {
	case err == nil:
		return "nil"
	case err == io.EOF:
		return "io.EOF"
	case errors.As(err, &ce):
		return "connection-error"
	case errors.As(err, &en):
		return fmt.Sprintf("errno(%d)", int(en))
	}
	return "other-error"
}

func readData(j, n int) []byte {
	b := make([]byte, n)
	for i := range b {
		b[i] = 0x51 + byte(32*j+i%29)
	}
	return b
}

func readSpec(buflen, got int) rSpec {
	return rSpec{
		treq:  refcodec.Tread,
		fixed: 4,
		reply: func(tag uint16, j int) refcodec.Msg { return refcodec.New(refcodec.Rread, tag, readData(j, got)) },
		call: func(f p9.File, j int) (string, []string) {
			buf := make([]byte, buflen)
			for i := range buf {
				buf[i] = 0xEE
			}
			n, err := f.ReadAt(buf, int64(1000*(j+1)))
			if n < 0 || n > buflen {
				return fmt.Sprintf("n=%d err=%s", n, errStr(err)), []string{fmt.Sprintf("ReadAt returned n=%d for a %d-byte buffer", n, buflen)}
			}
			res := fmt.Sprintf("n=%d err=%s data=%x", n, errStr(err), buf[:n])
			wantErr := "nil"
			if got == 0 {
				wantErr = "io.EOF"
			}
			want := fmt.Sprintf("n=%d err=%s data=%x", got, wantErr, readData(j, got))
			if res != want && !(got > 0 && got < buflen && res == fmt.Sprintf("n=%d err=io.EOF data=%x", got, readData(j, got))) {
				return res, []string{fmt.Sprintf("ReadAt got %q, the Rread frame carried %q", res, want)}
			}
			return res, nil
		},
	}
}

var attrVals = func() []interface{} {
	// Rgetattr: valid, qid(type,version,path), then 18 attribute fields.
	v := []interface{}{uint64(0x3fff), uint8(0), uint32(7), uint64(4242)}
	v = append(v, uint32(0o100644), uint32(1001), uint32(1002))
	for i := 0; i < 15; i++ {
		v = append(v, uint64(5000+i))
	}
	return v
}()

func rSpecs(kind string) rSpec {
	var a, b int
	if _, err := fmt.Sscanf(kind, "Rread%dof%d", &a, &b); err == nil {
		return readSpec(b, a)
	}
	switch kind {
	case "Rfsync": // header only
		return rSpec{treq: refcodec.Tfsync,
			reply: func(tag uint16, j int) refcodec.Msg { return refcodec.New(refcodec.Rfsync, tag) },
			call: func(f p9.File, j int) (string, []string) {
				err := f.FSync()
				res := "err=" + errStr(err)
				if err != nil {
					return res, []string{"FSync answered by Rfsync returned " + res}
				}
				return res, nil
			}}
	case "Rlerror":
		return rSpec{treq: refcodec.Tfsync,
			reply: func(tag uint16, j int) refcodec.Msg { return refcodec.New(refcodec.Rlerror, tag, uint32(13+j)) },
			call: func(f p9.File, j int) (string, []string) {
				err := f.FSync()
				res := "err=" + errStr(err)
				if want := fmt.Sprintf("err=errno(%d)", 13+j); res != want {
					return res, []string{fmt.Sprintf("FSync answered by Rlerror(%d) returned %s", 13+j, res)}
				}
				return res, nil
			}}
	case "Rwrite":
		return rSpec{treq: refcodec.Twrite,
			reply: func(tag uint16, j int) refcodec.Msg { return refcodec.New(refcodec.Rwrite, tag, uint32(2+j)) },
			call: func(f p9.File, j int) (string, []string) {
				n, err := f.WriteAt([]byte("hello"), int64(100+j))
				res := fmt.Sprintf("n=%d err=%s", n, errStr(err))
				if want := fmt.Sprintf("n=%d err=nil", 2+j); res != want {
					return res, []string{fmt.Sprintf("WriteAt answered by Rwrite(count %d) returned %s", 2+j, res)}
				}
				return res, nil
			}}
	case "Rgetattr": // 153-byte body: larger than the pooled 64-byte buffer
		return rSpec{treq: refcodec.Tgetattr,
			reply: func(tag uint16, j int) refcodec.Msg {
				v := append([]interface{}(nil), attrVals...)
				v[3] = uint64(4242 + j)
				return refcodec.New(refcodec.Rgetattr, tag, v...)
			},
			call: func(f p9.File, j int) (string, []string) {
				q, valid, attr, err := f.GetAttr(p9.AttrMaskAll)
				res := fmt.Sprintf("qid=%+v valid=%+v attr=%+v err=%s", q, valid, attr, errStr(err))
				if err != nil || q.Path != uint64(4242+j) || q.Version != 7 || attr.UID != 1001 || attr.GID != 1002 || attr.NLink != 5000 || attr.Size != 5002 || attr.DataVersion != 5014 {
					return res, []string{"GetAttr result does not carry the values of the Rgetattr frame: " + res}
				}
				return res, nil
			}}
	case "Rreaddir":
		return rSpec{treq: refcodec.Treaddir, fixed: 4,
			reply: func(tag uint16, j int) refcodec.Msg {
				return refcodec.New(refcodec.Rreaddir, tag, []refcodec.Dirent{
					{QID: refcodec.QID{Type: 0x80, Version: 1, Path: uint64(10 + j)}, Offset: 1, Type: 0x80, Name: fmt.Sprintf("dir%d", j)},
					{QID: refcodec.QID{Type: 0, Version: 2, Path: uint64(20 + j)}, Offset: 2, Type: 0, Name: "a-rather-long-file-name.txt"},
				})
			},
			call: func(f p9.File, j int) (string, []string) {
				ents, err := f.Readdir(0, 4096)
				res := fmt.Sprintf("ents=%+v err=%s", ents, errStr(err))
				if err != nil || len(ents) != 2 || ents[0].Name != fmt.Sprintf("dir%d", j) || ents[0].QID.Path != uint64(10+j) || ents[1].Name != "a-rather-long-file-name.txt" || ents[1].Offset != 2 {
					return res, []string{"Readdir result does not carry the entries of the Rreaddir frame: " + res}
				}
				return res, nil
			}}
	case "Rreadlink":
		return rSpec{treq: refcodec.Treadlink,
			reply: func(tag uint16, j int) refcodec.Msg {
				return refcodec.New(refcodec.Rreadlink, tag, fmt.Sprintf("target-%d/of/link", j))
			},
			call: func(f p9.File, j int) (string, []string) {
				s, err := f.Readlink()
				res := fmt.Sprintf("target=%q err=%s", s, errStr(err))
				if want := fmt.Sprintf("target=%q err=nil", fmt.Sprintf("target-%d/of/link", j)); res != want {
					return res, []string{"Readlink returned " + res + ", frame carried " + want}
				}
				return res, nil
			}}
	case "Rwalk":
		return rSpec{treq: refcodec.Twalk,
			reply: func(tag uint16, j int) refcodec.Msg {
				return refcodec.New(refcodec.Rwalk, tag, []refcodec.QID{{Type: 0x80, Version: 1, Path: uint64(100 + j)}, {Type: 0, Version: 2, Path: uint64(200 + j)}})
			},
			call: func(f p9.File, j int) (string, []string) {
				qids, nf, err := f.Walk([]string{"a", "b"})
				res := fmt.Sprintf("qids=%+v file=%v err=%s", qids, nf != nil, errStr(err))
				if err != nil || len(qids) != 2 || qids[0].Path != uint64(100+j) || qids[1].Path != uint64(200+j) || qids[1].Version != 2 {
					return res, []string{"Walk result does not carry the qids of the Rwalk frame: " + res}
				}
				return res, nil
			}}
	}
	panic("c17: unknown R frame kind " + kind)
}

// runClient drives a real client whose pending calls are answered by the
// segmented R-stream.
func runClient(k kase) (*obs, []frameInfo) {
	o := &obs{}
	l, err := newLink(k.Path)
	if err != nil {
		o.Problems = append(o.Problems, "harness: "+err.Error())
		return o, nil
	}
	specs := make([]rSpec, len(k.Stream))
	for j, kind := range k.Stream {
		specs[j] = rSpecs(kind)
	}
	var info []frameInfo
	var cl *p9.Client
	withStallGuard(l, o, func() {
		// Version exchange and attach, answered lock-step.
		type res struct {
			cl  *p9.Client
			f   p9.File
			err error
		}
		ch := make(chan res, 1)
		go func() {
			c, err := p9.NewClient(l.P9End())
			ch <- res{cl: c, err: err}
		}()
		expect := func(t uint8) (refcodec.Msg, bool) {
			f, err := l.ReadFrame()
			if err != nil {
				o.Problems = append(o.Problems, fmt.Sprintf("setup: client request: %v", err))
				return refcodec.Msg{}, false
			}
			m, _, err := refcodec.Decode(f)
			if err != nil || m.Type != t {
				o.Problems = append(o.Problems, fmt.Sprintf("setup: client sent %v (%v), expected type %d", m, err, t))
				return m, false
			}
			return m, true
		}
		tv, ok := expect(refcodec.Tversion)
		if !ok {
			return
		}
		l.Write(refcodec.Encode(refcodec.New(refcodec.Rversion, tv.Tag, uint32(tv.U("msize")), tv.S("version"))))
		r := <-ch
		if r.err != nil {
			o.Problems = append(o.Problems, fmt.Sprintf("setup: NewClient: %v", r.err))
			return
		}
		cl = r.cl
		go func() {
			f, err := cl.Attach("")
			ch <- res{f: f, err: err}
		}()
		ta, ok := expect(refcodec.Tattach)
		if !ok {
			return
		}
		l.Write(refcodec.Encode(refcodec.New(refcodec.Rattach, ta.Tag, uint8(0x80), uint32(0), uint64(1))))
		r = <-ch
		if r.err != nil {
			o.Problems = append(o.Problems, fmt.Sprintf("setup: Attach: %v", r.err))
			return
		}
		root := r.f

		// Start the calls one at a time so that tags are assigned deterministically.
		results := make([]string, len(specs))
		direct := make([][]string, len(specs))
		var wg sync.WaitGroup
		var frames [][]byte
		var fixed []int
		var pmu sync.Mutex
		var panics []string
		panicked := make(chan struct{}, len(specs))
		// wait waits for the calls; it gives up on calls that can no longer
		// return because p9 panicked in the goroutine holding the receive token.
		wait := func() bool {
			done := make(chan struct{})
			go func() { wg.Wait(); close(done) }()
			select {
			case <-done:
				return true
			case <-panicked:
				select {
				case <-done:
					return true
				case <-time.After(300 * time.Millisecond):
				}
			case <-time.After(2 * stallAfter):
			}
			return false
		}
		for j, sp := range specs {
			wg.Add(1)
			go func(j int, sp rSpec) {
				defer wg.Done()
				defer func() {
					if r := recover(); r != nil {
						pmu.Lock()
						panics = append(panics, fmt.Sprintf("panic: call %d (%s) panicked inside p9 while receiving: %v", j, k.Stream[j], r))
						pmu.Unlock()
						l.Kill()
						panicked <- struct{}{}
					}
				}()
				res, dir := sp.call(root, j)
				pmu.Lock()
				results[j], direct[j] = res, dir
				pmu.Unlock()
			}(j, sp)
			tm, ok := expect(sp.treq)
			if !ok {
				l.Kill()
				wait()
				return
			}
			frames = append(frames, refcodec.Encode(sp.reply(tm.Tag, j)))
			fixed = append(fixed, sp.fixed)
		}
		var stream []byte
		stream, info = layout(frames, k.Stream, fixed)
		data := stream
		if k.Trunc >= 0 {
			data = data[:k.Trunc]
		}
		readsBefore := l.Reads()
		segs, err := l.WriteSeg(data, k.Cuts)
		o.segs = segs
		if err != nil {
			o.Problems = append(o.Problems, fmt.Sprintf("delivering the stream: %v", err))
		}
		if k.Trunc >= 0 {
			l.CloseWrite()
		}
		finished := wait()
		pmu.Lock()
		defer pmu.Unlock()
		o.Problems = append(o.Problems, panics...)
		if !finished {
			if len(panics) == 0 {
				o.Problems = append(o.Problems, "stall: pending calls never returned")
			}
			o.Results = append([]string(nil), results...)
			return
		}
		if len(panics) > 0 {
			o.Results = append([]string(nil), results...)
			return
		}
		if rd := l.Reads(); rd >= 0 {
			o.reads = rd - readsBefore
		}
		o.Results = results
		complete := len(specs)
		if k.Trunc >= 0 {
			complete = 0
			for _, fi := range info {
				if fi.start+fi.size <= k.Trunc {
					complete++
				}
			}
		}
		for j := range specs {
			if j < complete {
				// Received completely: the call returns what the frame carried.
				o.Direct = append(o.Direct, direct[j]...)
				continue
			}
			// The stream ended before (or inside) this call's reply: an error,
			// never a value made of a truncated message.
			if !strings.Contains(results[j], "err=connection-error") && !strings.Contains(results[j], "err=other-error") {
				o.Direct = append(o.Direct, fmt.Sprintf(truncMark+"call %d (%s): the stream ended at byte %d, before the end of its reply [%d,%d), yet it returned %s", j, k.Stream[j], k.Trunc, info[j].start, info[j].start+info[j].size, results[j]))
			}
		}
	})
	if cl != nil {
		cl.Close()
	}
	l.Close()
	return o, info
}

// rLayout computes the frame layout of an R-stream without running anything
// (tags do not change sizes).
func rLayout(kinds []string) ([]byte, []frameInfo) {
	var frames [][]byte
	var fixed []int
	for j, kind := range kinds {
		sp := rSpecs(kind)
		frames = append(frames, refcodec.Encode(sp.reply(uint16(1+j), j)))
		fixed = append(fixed, sp.fixed)
	}
	return layout(frames, kinds, fixed)
}

// ---------------------------------------------------------------------------
// Enumeration and oracle.

func streamsT(quick bool) [][]string {
	s := [][]string{
		{"Tflush"}, {"Tclunk"}, {"Tflush", "Tflush"}, // <= 18 bytes: all segmentations
		{"Tread"}, {"Tgetattr"}, {"Twalk"}, {"Tmkdir"}, {"Tmkdir-long"},
		{"Twrite0"}, {"Twrite1"}, {"Twrite5"}, {"Twrite40"},
		{"Twrite5", "Tread"}, {"Tread", "Twrite1"}, {"Twrite5", "Twrite1"}, {"Tclunk", "Twrite5"}, {"Twrite0", "Tflush"},
		{"Twrite5", "Tclunk", "Twrite1"}, {"Tread", "Twrite5", "Tflush"}, {"Tclunk", "Tclunk", "Tclunk"},
		// frames the server rejects (body skipped, Rlerror), followed by a frame that must still be understood
		{"Tgetlock"}, {"Tgetlock", "Tclunk"}, {"Twrite-short", "Tclunk"}, {"Twalk-badbody", "Tclunk"}, {"Tgetlock", "Twrite5"}, {"Twrite5", "Tgetlock", "Tread"},
	}
	if quick {
		return s
	}
	menu := []string{"Tflush", "Tclunk", "Tread", "Tgetattr", "Twrite0", "Twrite1", "Twrite5"}
	for _, a := range menu {
		for _, b := range menu {
			s = append(s, []string{a, b})
		}
	}
	tri := []string{"Tclunk", "Tread", "Twrite1", "Twrite5"}
	for _, a := range tri {
		for _, b := range tri {
			for _, c := range tri {
				s = append(s, []string{a, b, c})
			}
		}
	}
	s = append(s, []string{"Twalk", "Tmkdir", "Twrite40"}, []string{"Tmkdir-long", "Twrite5"}, []string{"Twrite40", "Twrite40"})
	return dedupStreams(s)
}

func streamsR(quick bool) [][]string {
	s := [][]string{
		// <= 18 bytes: all segmentations
		{"Rfsync"}, {"Rlerror"}, {"Rwrite"}, {"Rread0of5"}, {"Rread1of5"}, {"Rread5of5"}, {"Rfsync", "Rfsync"}, {"Rread0of5", "Rfsync"},
		{"Rread7of7"},
		// longer
		{"Rread40of40"}, {"Rread39of40"}, {"Rgetattr"}, {"Rreaddir"}, {"Rreadlink"}, {"Rwalk"},
		{"Rread5of5", "Rwrite"}, {"Rread1of5", "Rread5of5"}, {"Rlerror", "Rread5of5"}, {"Rread5of5", "Rfsync"},
		{"Rread5of5", "Rlerror", "Rread1of5"}, {"Rwrite", "Rread5of5", "Rfsync"}, {"Rfsync", "Rfsync", "Rfsync"},
	}
	if quick {
		return s
	}
	s = append(s, []string{"Rfsync", "Rlerror"}, []string{"Rwrite", "Rfsync"}, []string{"Rlerror", "Rfsync"})
	menu := []string{"Rfsync", "Rlerror", "Rwrite", "Rread0of5", "Rread1of5", "Rread5of5", "Rwalk"}
	for _, a := range menu {
		for _, b := range menu {
			s = append(s, []string{a, b})
		}
	}
	tri := []string{"Rfsync", "Rwrite", "Rread1of5", "Rread5of5"}
	for _, a := range tri {
		for _, b := range tri {
			for _, c := range tri {
				s = append(s, []string{a, b, c})
			}
		}
	}
	s = append(s, []string{"Rgetattr", "Rread5of5"}, []string{"Rread40of40", "Rreaddir"}, []string{"Rreadlink", "Rread39of40", "Rwalk"}, []string{"Rread300of300"}, []string{"Rread299of300"})
	return dedupStreams(s)
}

func dedupStreams(s [][]string) [][]string {
	seen := map[string]bool{}
	var out [][]string
	for _, x := range s {
		k := strings.Join(x, "+")
		if !seen[k] {
			seen[k] = true
			out = append(out, x)
		}
	}
	return out
}

func shape(kinds []string) string {
	pay, plain := false, false
	for _, k := range kinds {
		if strings.HasPrefix(k, "Twrite") || strings.HasPrefix(k, "Rread") {
			pay = true
		} else {
			plain = true
		}
	}
	switch {
	case pay && plain:
		return "mixed"
	case pay:
		return "payload"
	}
	return "no-payload"
}

type checker struct {
	ctx     *fw.Ctx
	rep     *fw.Report
	bases   map[string]*obs
	sampled map[string]bool
	broken  map[string]bool // receive paths on which p9 panicked or stalls
	stalls  map[string]int
	quiet   bool // do not count (canary cases run by every worker)
}

func (c *checker) execute(k kase) *obs {
	if k.Dir == dirServer {
		return runServer(k)
	}
	o, _ := runClient(k)
	return o
}

// completeFrames counts the frames that lie entirely before the truncation point.
func completeFrames(info []frameInfo, trunc int) int {
	if trunc < 0 {
		return len(info)
	}
	n := 0
	for _, fi := range info {
		if fi.start+fi.size <= trunc {
			n++
		}
	}
	return n
}

// baseline is the unsegmented run on the generic path of the same stream
// (for a truncated stream: of its complete frames followed by EOF).
func (c *checker) baseline(k kase, info []frameInfo) *obs {
	bk := kase{Dir: k.Dir, Path: pathGeneric, Stream: k.Stream, Trunc: -1}
	complete := completeFrames(info, k.Trunc)
	if k.Trunc >= 0 {
		bk.Trunc = 0
		if complete > 0 {
			bk.Trunc = info[complete-1].start + info[complete-1].size
		}
	}
	key := fmt.Sprintf("%s|%s|%d", k.Dir, strings.Join(k.Stream, "+"), bk.Trunc)
	if b, ok := c.bases[key]; ok {
		return b
	}
	b := c.execute(bk)
	c.rep.Traces++
	c.rep.Count("baseline_runs", 1)
	if k.Dir == dirServer {
		b.Direct = append(b.Direct, directServer(buildT(k.Stream), complete, b)...)
	}
	c.rep.Distinct(fmt.Sprintf("%s|%s|%s|%s", bk.Dir, bk.Path, strings.Join(bk.Stream, "+"), b.key()))
	c.report(bk, b, nil)
	c.bases[key] = b
	return b
}

func (c *checker) violate(k kase, clause, summary string, detail []string) {
	tr := "complete-stream"
	if k.Trunc >= 0 {
		tr = "truncated-stream"
	}
	fp := fmt.Sprintf("C17|%s|%s|%s|%s|%s", clause, k.Dir, k.Path, shape(k.Stream), tr)
	detail = append([]string{"case: " + string(fw.JSON(k))}, detail...)
	if len(detail) > 14 {
		detail = detail[:14]
	}
	for i := range detail {
		detail[i] = fw.Short(detail[i], 600)
	}
	c.rep.Violate(&fw.Violation{Fingerprint: fp, Summary: summary, Scenario: "case", Params: fw.JSON(k), Detail: detail})
}

// report judges one run against the baseline (nil for the baseline itself).
func (c *checker) report(k kase, o *obs, base *obs) {
	rep := c.rep
	rep.Evaluations++
	for _, p := range o.Problems {
		if strings.HasPrefix(p, "panic:") {
			// Everything else observed in this run is a consequence.
			if !c.broken[k.Path] {
				c.broken[k.Path] = true
				rep.NotExhaustive("p9 panics while receiving on the " + k.Path + " path; remaining cases of that path are skipped in this worker to keep the harness alive")
			}
			c.violate(k, "panic-in-receive-path", p, o.Problems)
			return
		}
	}
	stalled := false
	for _, p := range o.Problems {
		clause := "connection-handling"
		if strings.HasPrefix(p, "stall") || strings.Contains(p, "did not return") || strings.Contains(p, "stopped consuming") {
			clause = "stall"
			if !stalled {
				stalled = true
				c.stalls[k.Path]++
			}
			if c.stalls[k.Path] >= 2 && !c.broken[k.Path] {
				// Every stalled case costs stallAfter; do not let a defect
				// of this kind turn the run into hours.
				c.broken[k.Path] = true
				rep.NotExhaustive("p9 stops making progress on the " + k.Path + " path; remaining cases of that path are skipped in this worker")
			}
		} else if strings.HasPrefix(p, "harness:") || strings.HasPrefix(p, "setup:") {
			clause = "setup"
		}
		c.violate(k, clause, p, o.Problems)
	}
	var content, truncated []string
	for _, d := range o.Direct {
		if strings.HasPrefix(d, truncMark) {
			truncated = append(truncated, d)
		} else {
			content = append(content, d)
		}
	}
	if len(content) > 0 {
		c.violate(k, "message-content", content[0], content)
	}
	if len(truncated) > 0 {
		c.violate(k, "truncated-message-delivered", truncated[0], truncated)
	}
	if base == nil {
		return
	}
	rep.Evaluations++
	if o.key() == base.key() {
		return
	}
	var d []string
	diff := func(what string, a, b []string) {
		if strings.Join(a, "\n") == strings.Join(b, "\n") {
			return
		}
		d = append(d, what+" differ from the unsegmented run:")
		for _, x := range a {
			d = append(d, "  got:  "+x)
		}
		for _, x := range b {
			d = append(d, "  want: "+x)
		}
	}
	diff("backend calls", o.Calls, base.Calls)
	diff("replies", o.Replies, base.Replies)
	diff("call results", o.Results, base.Results)
	sum := fmt.Sprintf("stream %s cut at %v", strings.Join(k.Stream, "+"), k.Cuts)
	if k.Trunc >= 0 {
		sum += fmt.Sprintf(" and ended after %d bytes", k.Trunc)
	}
	c.violate(k, "messages-depend-on-segmentation", sum+": decoded messages differ from the unsegmented run", d)
}

func (c *checker) one(k kase, info []frameInfo) {
	rep := c.rep
	if c.broken[k.Path] {
		rep.Count("cases_skipped_path_broken", 1)
		return
	}
	if c.quiet {
		o := c.execute(k)
		if len(o.Problems) > 0 {
			c.report(k, o, nil)
		}
		return
	}
	base := c.baseline(k, info)
	if c.broken[pathGeneric] {
		rep.Count("cases_skipped_path_broken", 1)
		return
	}
	o := c.execute(k)
	if k.Dir == dirServer {
		o.Direct = append(o.Direct, directServer(buildT(k.Stream), completeFrames(info, k.Trunc), o)...)
	}
	if sk := k.Dir + k.Path; !c.sampled[sk] && (len(k.Cuts) >= 2 || k.Trunc > 7) {
		c.sampled[sk] = true
		rep.Sample(map[string]interface{}{"case": k, "observed": o})
	}
	rep.States++
	rep.Traces++
	rep.Count("cut_points", int64(len(k.Cuts)))
	if o.reads > 0 {
		rep.Transitions += int64(o.reads)
		rep.Count("generic_path_reads", int64(o.reads))
	} else {
		rep.Transitions += int64(o.segs)
		rep.Count("socket_segments_written", int64(o.segs))
	}
	for _, kind := range k.Stream {
		rep.Count("frames_"+kind, 1)
	}
	if k.Trunc >= 0 {
		rep.Count("truncation_cases", 1)
	}
	rep.Count("cases_"+k.Dir+"_"+k.Path, 1)
	h := fmt.Sprintf("%s|%s|%s|%s", k.Dir, k.Path, strings.Join(k.Stream, "+"), o.key())
	rep.Distinct(h)
	c.report(k, o, base)
}

func run(ctx *fw.Ctx, rep *fw.Report) {
	memfs.RecordSites = false
	rep.Rule = "streams of 1-3 frames with and without payload in both directions (T-frames into the real Server; R-frames into the real Client answering its pending calls), each delivered over the generic io.Reader path (vpipe with planned Read sizes) and the recvmsg path (real AF_UNIX stream socketpair as *net.UnixConn; segment i+1 written only after FIONREAD on the reader's socket reports 0). " +
		fmt.Sprintf("Streams of <= %d bytes: ALL 2^(n-1) segmentations. Longer streams: every segmentation with <= 2 cut points, all-single-bytes, cuts at all buffer boundaries (frame start, size field, header, fixed part, frame end) shifted by -1/0/+1 and their union (thorough tier: also every 3-subset of those boundary positions). ", exhaustiveLen) +
		"Every truncation point t in [0,len) followed by EOF, prefix delivered whole and as single bytes. Before the sharded enumeration every worker runs a small uncounted canary (client direction, 4 streams, single cuts / boundary pairs / single bytes on both paths) so that a panic in p9's receive code is reported as a violation instead of crashing the workers. Stream alphabets: see info.streams_*. One state = (direction, path, stream, cut set, truncation point); transitions = reads p9 performed on the vpipe / segments written to the socket; distinct = (direction, path, stream, observed messages)"
	rep.Assumptions = append(rep.Assumptions,
		"frames of one stream are mutually independent (disjoint fids/offsets), so the server's concurrent execution order cannot change the observation; backend calls and replies are compared as multisets",
		"the reference observation is the unsegmented run on the generic path (for truncated streams: the complete frames followed by EOF), cross-checked against direct expectations written from the frame contents",
		"the kernel may refine a planned socket segmentation but cannot merge across the FIONREAD==0 wait",
		fmt.Sprintf("a hang is reported after %v without progress (detection of non-termination only)", stallAfter))
	if err := checkPaths(); err != nil {
		rep.Violate(&fw.Violation{Fingerprint: "C17|setup|receive-paths", Summary: "cannot exercise both receive paths: " + err.Error(), Scenario: "setup"})
		return
	}
	c := &checker{ctx: ctx, rep: rep, bases: map[string]*obs{}, sampled: map[string]bool{}, broken: map[string]bool{}, stalls: map[string]int{}}

	if ctx.Replay != nil {
		var k kase
		if err := json.Unmarshal(ctx.Replay.Params, &k); err != nil {
			return
		}
		var info []frameInfo
		if k.Dir == dirServer {
			info = buildT(k.Stream).info
		} else {
			_, info = rLayout(k.Stream)
		}
		c.one(k, info)
		return
	}

	// Canary, run by every worker: a panic inside p9's receive code is only
	// recoverable in the client direction (there p9 receives on the caller's
	// goroutine). If a path panics here, its remaining cases are skipped in
	// this worker instead of letting the server direction crash the process.
	c.quiet = true
	for _, path := range []string{pathGeneric, pathVector} {
		for _, st := range [][]string{{"Rread5of5"}, {"Rread1of5", "Rread5of5"}, {"Rgetattr"}, {"Rread40of40"}} {
			stream, info := rLayout(st)
			for _, cuts := range canarySegs(len(stream), boundaries(info)) {
				c.one(kase{Dir: dirClient, Path: path, Stream: st, Cuts: cuts, Trunc: -1}, info)
			}
		}
	}
	c.quiet = false

	thorough := !ctx.Quick()
	idx := 0
	var names []string
	for _, dir := range []string{dirClient, dirServer} {
		streams := streamsT(ctx.Quick())
		if dir == dirClient {
			streams = streamsR(ctx.Quick())
		}
		names = names[:0]
		for _, st := range streams {
			var stream []byte
			var info []frameInfo
			if dir == dirServer {
				b := buildT(st)
				stream, info = b.stream, b.info
			} else {
				stream, info = rLayout(st)
			}
			L := len(stream)
			names = append(names, fmt.Sprintf("%s(%dB)", strings.Join(st, "+"), L))
			segs := segmentations(L, boundaries(info), thorough)
			if L <= exhaustiveLen {
				rep.Count("streams_all_segmentations", 1)
			}
			var all []int
			for a := 1; a < L; a++ {
				all = append(all, a)
			}
			for _, path := range []string{pathGeneric, pathVector} {
				name := dir + "/" + path + "/" + strings.Join(st, "+")
				if ctx.Filter != "" && !strings.Contains(name, ctx.Filter) {
					continue
				}
				for _, cuts := range segs {
					idx++
					if !ctx.Mine(idx) {
						continue
					}
					if ctx.Expired() {
						rep.NotExhaustive("soft budget reached at " + name)
						return
					}
					c.one(kase{Dir: dir, Path: path, Stream: st, Cuts: cuts, Trunc: -1}, info)
				}
				if dir == dirServer && path == pathGeneric {
					// the same complete stream, its last bytes handed over together with io.EOF
					for _, cuts := range [][]int{nil, all} {
						idx++
						if ctx.Mine(idx) {
							c.one(kase{Dir: dir, Path: path, Stream: st, Cuts: cuts, Trunc: -1, EOFData: true}, info)
						}
					}
				}
				for t := 0; t < L; t++ {
					// A frame p9 rejects from its header alone (unknown type, body
					// too short for its type) is answered with Rlerror whether
					// or not its body arrives in full; no message is delivered
					// either way, so an end of stream inside such a body is
					// outside the statement (a don't-care, not enumerated).
					inRejected := false
					for _, fi := range info {
						if rejectedFrame(fi.kind, 0) != nil && t >= fi.start+7 && t < fi.start+fi.size {
							inRejected = true
						}
					}
					if inRejected {
						rep.Count("truncations_inside_a_rejected_frames_body(not enumerated)", 1)
						continue
					}
					for _, cuts := range [][]int{nil, all} {
						if cuts != nil && t < 2 {
							continue
						}
						idx++
						if !ctx.Mine(idx) {
							continue
						}
						if ctx.Expired() {
							rep.NotExhaustive("soft budget reached at " + name)
							return
						}
						c.one(kase{Dir: dir, Path: path, Stream: st, Cuts: cuts, Trunc: t}, info)
					}
				}
			}
		}
		rep.Info["streams_"+dir] = strings.Join(names, " ")
	}
}
