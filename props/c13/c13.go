// Package c13 checks that the negotiated msize is never exceeded by either
// peer (DESIGN.md §4 C13).
//
//   - server half: a raw peer negotiates msize M with the REAL p9 server and
//     sends Tread (on an opened file and on an xattr fid) and Treaddir with
//     counts on both sides of M over files / attributes / directories on both
//     sides of the count. Oracle (the statement's first sentence): no Rread
//     and no Rreaddir frame is longer than the msize the server announced in
//     its Rversion. Rlerror answers are fine ("the data is shortened, not the
//     limit broken" — an error does not break the limit); other reply types
//     are not constrained by the text and are only recorded.
//   - client half: the REAL p9 client talks to a fake server (harness/fakesrv)
//     that announces an msize A below (or equal to) the requested one; ReadAt,
//     WriteAt, GetXattr and Readdir are called with sizes on both sides of A.
//     Oracle (second sentence): every Tread has count+11 <= A (its reply fits)
//     and a frame <= A, every Twrite frame is <= A. Treaddir's count is passed
//     through by the client and only recorded (DESIGN §4.0).
package c13

import (
	"encoding/binary"
	"encoding/json"
	"fmt"
	"sort"
	"strings"
	"time"

	"github.com/hugelgupf/p9/p9"
	"verif/harness/fakesrv"
	"verif/harness/fw"
	"verif/harness/memfs"
	"verif/harness/rawpeer"
	"verif/harness/refcodec"
	"verif/harness/sess"
	"verif/harness/vpipe"
)

func init() {
	fw.Register(&fw.Prop{ID: "C13", Run: run, Sharded: true, QuickSecs: 150, ThoroughSecs: 900})
}

const (
	mib4    = 4 << 20
	maxSize = 2*mib4 + 1 // file / attribute sizes are clamped to this (allocatable, and > any reply the server can build)
)

// ------------------------------------------------------------- helpers --

var pattern []byte

// data returns n patterned bytes (shared between cases, never written).
func data(n int) []byte {
	if len(pattern) < n {
		pattern = make([]byte, n+(1<<20))
		for i := range pattern {
			pattern[i] = byte(i*7 + i>>8 + 1)
		}
	}
	return pattern[:n:n]
}

type named struct {
	Name string
	V    uint64
}

// dedupe keeps the first name of every value.
func dedupe(in []named) []named {
	seen := map[uint64]bool{}
	var out []named
	for _, x := range in {
		if !seen[x.V] {
			seen[x.V] = true
			out = append(out, x)
		}
	}
	return out
}

func rel(base string, b uint64, d int64) (named, bool) {
	v := int64(b) + d
	if v < 0 || v > 1<<32-1 {
		return named{}, false
	}
	if d == 0 {
		return named{base, uint64(v)}, true
	}
	return named{fmt.Sprintf("%s%+d", base, d), uint64(v)}, true
}

func counts(m uint32, thorough bool) []named {
	out := []named{{"0", 0}, {"1", 1}}
	ds := []int64{-12, -11, -10, -1, 0, 1}
	if thorough {
		ds = []int64{-13, -12, -11, -10, -9, -2, -1, 0, 1, 2, 10, 11, 12}
	}
	for _, d := range ds {
		if x, ok := rel("msize", uint64(m), d); ok {
			out = append(out, x)
		}
	}
	out = append(out, named{"4MiB", mib4}, named{"4MiB+1", mib4 + 1}, named{"2^32-1", 1<<32 - 1})
	if thorough {
		out = append(out, named{"msize/2", uint64(m) / 2}, named{"2*msize", 2 * uint64(m)}, named{"4MiB-11", mib4 - 11}, named{"4MiB-10", mib4 - 10}, named{"2^31", 1 << 31}, named{"2^32-2", 1<<32 - 2})
	}
	return dedupe(out)
}

func sizes(count uint64, m uint32) []named {
	var out []named
	add := func(name string, v int64) {
		if v < 0 {
			return
		}
		if v > maxSize {
			name, v = name+"(clamped)", maxSize
		}
		out = append(out, named{name, uint64(v)})
	}
	add("0", 0)
	add("count-1", int64(count)-1)
	add("count", int64(count))
	add("count+1", int64(count)+1)
	add("2*msize", 2*int64(m))
	return dedupe(out)
}

func countClass(count uint64, announced uint32) string {
	if count+11 <= uint64(announced) {
		return "count<=msize-11"
	}
	return "count>msize-11"
}

type counters struct{ frames int64 }

// guard closes the connection if body stalls (not an oracle).
func guard(rep *fw.Report, what string, closeFn func(), body func()) {
	done := make(chan struct{})
	go func() {
		select {
		case <-done:
		case <-time.After(120 * time.Second):
			rep.NotExhaustive("stalled, connection closed by watchdog: " + what)
			closeFn()
		}
	}()
	body()
	close(done)
}

// ---------------------------------------------------------- server half --

type srvCase struct {
	Kind      string `json:"kind"` // tread-file | tread-xattr | treaddir
	Msize     uint32 `json:"msize"`
	CountName string `json:"count_name"`
	Count     uint32 `json:"count"`
	Offset    uint64 `json:"offset"`
	SizeName  string `json:"size_name,omitempty"` // file / attribute size
	Size      int    `json:"size,omitempty"`
	Dir       string `json:"dir,omitempty"` // empty | one | 2*msize-bytes
	NameLen   int    `json:"name_len,omitempty"`
	Backend   string `json:"backend,omitempty"` // returns-all | honours-count
	// First != 0: the session first negotiates this (larger) msize, binds and
	// opens its fid, and then sends a SECOND Tversion with Msize; the fids stay
	// bound and the limit in force is the one announced last.
	First uint32 `json:"first_msize,omitempty"`
}

func (c srvCase) name() string {
	n := fmt.Sprintf("server-%s msize=%d count=%s size=%s dir=%s/%d/%s off=%d", c.Kind, c.Msize, c.CountName, c.SizeName, c.Dir, c.NameLen, c.Backend, c.Offset)
	if c.First != 0 {
		n += fmt.Sprintf(" renegotiated-from=%d", c.First)
	}
	return n
}

var direntCache = map[[2]int]p9.Dirents{}

func dirents(n, nameLen int) p9.Dirents {
	key := [2]int{n, nameLen}
	if d, ok := direntCache[key]; ok {
		return d
	}
	out := make(p9.Dirents, n)
	for i := range out {
		var name string
		if nameLen == 1 {
			name = string(rune('a' + i%26))
		} else {
			name = fmt.Sprintf("%0*d", nameLen, i)
		}
		out[i] = p9.Dirent{QID: p9.QID{Path: uint64(i) + 10}, Offset: uint64(i) + 1, Name: name}
	}
	if len(direntCache) > 6 {
		direntCache = map[[2]int]p9.Dirents{}
	}
	direntCache[key] = out
	return out
}

func serverCases(thorough bool) []srvCase {
	// Requested msizes above 4 MiB are announced as 4 MiB: the reply limit is
	// the ANNOUNCED value, so counts and sizes are taken around that.
	msizes := []uint32{4096, 8192, 65536, mib4, mib4 + 1, 8 << 20}
	if thorough {
		msizes = []uint32{24, 64, 512, 4096, 8192, 12345, 65536, 1 << 20, mib4 - 1, mib4, mib4 + 1, 8 << 20, 1<<32 - 1}
	}
	// 4096+d, d = 1..12: with 32-byte directory entries (name length 8) a
	// whole number of entries ends exactly d bytes below the msize, so a
	// reply limit that is off by any 1..11 bytes (a header or count field
	// forgotten in the clamp) produces a frame above the msize.
	for d := uint32(1); d <= 12; d++ {
		msizes = append(msizes, 4096+d)
	}
	var out []srvCase
	for _, m := range msizes {
		eff := m
		if eff > mib4 {
			eff = mib4
		}
		for _, c := range counts(eff, thorough) {
			offsets := []uint64{0}
			if thorough {
				offsets = []uint64{0, 1}
			}
			for _, off := range offsets {
				for _, sz := range sizes(c.V, eff) {
					out = append(out, srvCase{Kind: "tread-file", Msize: m, CountName: c.Name, Count: uint32(c.V), Offset: off, SizeName: sz.Name, Size: int(sz.V)})
				}
			}
			// Tread on an xattr fid: p9 answers EINVAL unless
			// offset+count <= attribute size, so the interesting sizes are
			// count, count+1 and 2*msize.
			// p9 refuses to walk to attributes above 4 MiB (EINVAL), so
			// attribute sizes are clamped to 4 MiB.
			var xs []named
			for _, sz := range sizes(c.V, eff) {
				if sz.Name == "count-1" {
					continue
				}
				if sz.V > mib4 {
					sz = named{strings.TrimSuffix(sz.Name, "(clamped)") + "(clamped to 4MiB)", mib4}
				}
				xs = append(xs, sz)
			}
			for _, sz := range dedupe(xs) {
				out = append(out, srvCase{Kind: "tread-xattr", Msize: m, CountName: c.Name, Count: uint32(c.V), SizeName: sz.Name, Size: int(sz.V)})
			}
			for _, dir := range []string{"empty", "one", "2*msize-bytes"} {
				// 8: a 32-byte entry, which divides every power-of-two msize, so
				// that whole entries can fill a count in (msize-11, msize].
				for _, nl := range []int{1, 8, 255} {
					for _, be := range []string{"returns-all", "honours-count"} {
						if dir == "empty" && (nl != 1 || be != "returns-all") {
							continue // the same case
						}
						out = append(out, srvCase{Kind: "treaddir", Msize: m, CountName: c.Name, Count: uint32(c.V), Dir: dir, NameLen: nl, Backend: be})
					}
				}
			}
		}
	}
	// a second, smaller Tversion while fids stay bound and open
	for _, c := range counts(4096, thorough) {
		out = append(out, srvCase{Kind: "tread-file", Msize: 4096, First: 65536, CountName: c.Name, Count: uint32(c.V), SizeName: "2*first", Size: 2 * 65536})
		out = append(out, srvCase{Kind: "tread-xattr", Msize: 4096, First: 65536, CountName: c.Name, Count: uint32(c.V), SizeName: "first", Size: 65536})
		for _, be := range []string{"returns-all", "honours-count"} {
			out = append(out, srvCase{Kind: "treaddir", Msize: 4096, First: 65536, CountName: c.Name, Count: uint32(c.V), Dir: "2*msize-bytes", NameLen: 8, Backend: be})
		}
	}
	return out
}

func runServerCase(rep *fw.Report, cnt *counters, c srvCase) {
	fs := memfs.New()
	var fid uint32 = 2
	var request refcodec.Msg
	switch c.Kind {
	case "tread-file":
		fs.AddFile("f", nil).Data = data(c.Size)
	case "tread-xattr":
		fs.AddFile("f", nil).Xattrs["user.x"] = data(c.Size)
	case "treaddir":
		fs.MkdirP("f")
		n := 0
		switch c.Dir {
		case "one":
			n = 1
		case "2*msize-bytes":
			eff := int(c.Msize)
			if eff > mib4 {
				eff = mib4
			}
			n = (2*eff)/(24+c.NameLen) + 1
		}
		all := dirents(n, c.NameLen)
		per := uint64(24 + c.NameLen)
		fs.Hook = func(call *memfs.Call) *memfs.Action {
			if call.Method != "Readdir" {
				return nil
			}
			off, count := call.Args[0].(uint64), call.Args[1].(uint32)
			if off > uint64(len(all)) {
				off = uint64(len(all))
			}
			ents := all[off:]
			if c.Backend == "honours-count" {
				if k := uint64(count) / per; k < uint64(len(ents)) {
					ents = ents[:k]
				}
			}
			return &memfs.Action{Override: &memfs.Override{HasDirents: true, Dirents: ents}}
		}
	}
	s := sess.Connect(fs, sess.NewServer(fs), "c13")
	var announced uint32
	setup := ""
	var reply []byte
	var rerr error
	guard(rep, c.name(), s.Hangup, func() {
		rpc := func(m refcodec.Msg) bool {
			r, err := s.Peer.RPC(m)
			if err != nil || r.Type == refcodec.Rlerror {
				setup = fmt.Sprintf("%v -> %v %v", m, r, err)
				return false
			}
			if r.Type == refcodec.Rversion {
				announced = uint32(r.U("msize"))
			}
			return true
		}
		first := c.Msize
		if c.First != 0 {
			first = c.First
		}
		ok := rpc(rawpeer.Tversion(rawpeer.NoTag, first, "9P2000.L.Google.7")) &&
			rpc(rawpeer.Tattach(1, 1, "")) && rpc(rawpeer.Twalk(2, 1, 2, "f"))
		switch {
		case !ok:
		case c.Kind == "tread-xattr":
			fid = 3
			ok = rpc(rawpeer.Txattrwalk(3, 2, 3, "user.x"))
			request = rawpeer.Tread(9, fid, c.Offset, c.Count)
		case c.Kind == "tread-file":
			ok = rpc(rawpeer.Tlopen(3, 2, 0))
			request = rawpeer.Tread(9, fid, c.Offset, c.Count)
		default:
			ok = rpc(rawpeer.Tlopen(3, 2, 0))
			request = rawpeer.Treaddir(9, fid, c.Offset, c.Count)
		}
		if ok && c.First != 0 {
			ok = rpc(rawpeer.Tversion(rawpeer.NoTag, c.Msize, "9P2000.L.Google.7"))
		}
		if !ok {
			return
		}
		s.Peer.Send(request)
		reply, rerr = s.Peer.RecvFrame()
	})
	s.Hangup()
	s.WaitDone()
	rep.Traces++
	if setup != "" {
		rep.NotExhaustive("setup failed in " + c.name() + ": " + fw.Short(setup, 200))
		return
	}
	// everything the server wrote on this connection
	frames, rest := refcodec.Frames(s.SC.W.Written)
	cnt.frames += int64(len(s.Peer.Sent)) + int64(len(frames))
	rep.Evaluations++
	for _, f := range frames {
		size, typ := binary.LittleEndian.Uint32(f), f[4]
		if uint64(size) <= uint64(announced) {
			continue
		}
		switch typ {
		case refcodec.Rread, refcodec.Rreaddir:
			fp := "rread-exceeds-msize|" + strings.TrimPrefix(c.Kind, "tread-") + "-fid|" + countClass(uint64(c.Count), announced)
			nm := "Rread"
			if typ == refcodec.Rreaddir {
				fp = "rreaddir-exceeds-msize|" + countClass(uint64(c.Count), announced)
				nm = "Rreaddir"
			}
			rep.Violate(&fw.Violation{Fingerprint: fp, Scenario: "server", Params: fw.JSON(c),
				Summary: fmt.Sprintf("server announced msize %d in Rversion, then answered %s count=%d (%s) with a %d-byte %s frame", announced, reqName(c), c.Count, c.CountName, size, nm),
				Detail: []string{c.name(), "the text demands: no Rread or Rreaddir the server emits makes its frame longer than the msize it announced in Rversion, whatever count the request asks for",
					fmt.Sprintf("frame header: %x", f[:11])}})
		default:
			rep.Count("server_other_reply_types_above_msize(not constrained by the text, recorded only)", 1)
		}
	}
	if len(rest) != 0 {
		rep.Count("server_trailing_partial_frame(recorded only)", 1)
	}
	// outcome of the request itself, for the report
	outcome := "no-reply"
	if rerr == nil {
		size := binary.LittleEndian.Uint32(reply)
		payload := uint64(0)
		switch reply[4] {
		case refcodec.Rlerror:
			outcome = fmt.Sprintf("Rlerror(%d)", binary.LittleEndian.Uint32(reply[7:]))
		case refcodec.Rread, refcodec.Rreaddir:
			payload = uint64(binary.LittleEndian.Uint32(reply[7:]))
			switch {
			case uint64(size) > uint64(announced):
				outcome = "data,frame>msize"
			case payload == uint64(c.Count):
				outcome = "data=count"
			case payload == 0:
				outcome = "data=0"
			default:
				outcome = "data<count"
			}
		default:
			outcome = fmt.Sprintf("type%d", reply[4])
		}
	}
	rep.Count(fmt.Sprintf("server_%s[count=%s]->%s", c.Kind, c.CountName, outcome), 1)
	rep.Distinct(fmt.Sprintf("srv|%s|c=%s|s=%s|d=%s%d%s|%s", c.Kind, c.CountName, c.SizeName, c.Dir, c.NameLen, c.Backend, outcome))
}

func reqName(c srvCase) string {
	switch c.Kind {
	case "treaddir":
		return "Treaddir"
	case "tread-xattr":
		return "Tread(xattr fid)"
	}
	return "Tread"
}

// ---------------------------------------------------------- client half --

type cliCase struct {
	Requested uint32 `json:"requested_msize"` // 0 = p9 default
	AnnName   string `json:"announced_name"`
	Announced uint32 `json:"announced_msize"`
	Op        string `json:"op"` // ReadAt | WriteAt | GetXattr | Readdir
	LenName   string `json:"len_name"`
	Len       uint64 `json:"len"` // buffer length / attribute size / Readdir count
	Dir       string `json:"dir,omitempty"`
}

func (c cliCase) name() string {
	return fmt.Sprintf("client-%s requested=%d announced=%s(%d) len=%s(%d) %s", c.Op, c.Requested, c.AnnName, c.Announced, c.LenName, c.Len, c.Dir)
}

func roundDown512(p uint64) uint64 {
	if p > 512 && p%512 != 0 {
		return p - p%512
	}
	return p
}

func clientCases(thorough bool, lfs uint32) []cliCase {
	reqs := []uint32{0, 8192, 1 << 20, 8 << 20}
	if thorough {
		reqs = []uint32{0, 4096, 8192, 65537, 1 << 20, mib4, 8 << 20}
	}
	var out []cliCase
	for _, req := range reqs {
		r := uint64(req)
		if req == 0 {
			r = uint64(p9.DefaultMessageSize)
		}
		anns := []named{{"256", 256}, {"4096", 4096}, {"8192", 8192}, {"65536", 65536}, {"4MiB", mib4}, {"requested/2", r / 2}, {"requested-1", r - 1}, {"requested", r}}
		if thorough {
			anns = append(anns, named{"512", 512}, named{"4097", 4097}, named{"1MiB", 1 << 20}, named{"requested-11", r - 11}, named{"requested-23", r - 23}, named{"requested-512", r - 512})
		}
		for _, a := range dedupe(anns) {
			if a.V > r {
				continue
			}
			A := a.V
			var pc uint64 // the payload size a client would derive the way p9 does (alphabet only)
			if A > uint64(lfs) {
				pc = roundDown512(A - uint64(lfs))
			}
			mk := func(deltas []int64, extra ...named) []named {
				l := []named{{"0", 0}, {"1", 1}}
				for _, d := range deltas {
					if x, ok := rel("A", A, d); ok {
						l = append(l, x)
					}
				}
				l = append(l, named{"3A", 3 * A})
				l = append(l, extra...)
				if pc > 0 {
					l = append(l, named{"Pc", pc}, named{"Pc+1", pc + 1}, named{"3Pc", 3 * pc})
				}
				return dedupe(l)
			}
			for _, l := range mk([]int64{-12, -11, -10, 0, 1}, named{"3(A-11)", 3 * (A - 11)}) {
				out = append(out, cliCase{Requested: req, AnnName: a.Name, Announced: uint32(A), Op: "ReadAt", LenName: l.Name, Len: l.V})
			}
			for _, l := range mk([]int64{-24, -23, -22, 0, 1}, named{"3(A-23)", 3 * (A - 23)}) {
				out = append(out, cliCase{Requested: req, AnnName: a.Name, Announced: uint32(A), Op: "WriteAt", LenName: l.Name, Len: l.V})
			}
			for _, l := range mk([]int64{-12, -11, -10, 0, 1}) {
				out = append(out, cliCase{Requested: req, AnnName: a.Name, Announced: uint32(A), Op: "GetXattr", LenName: l.Name, Len: l.V})
			}
			for _, dir := range []string{"empty", "one", "2A-bytes"} {
				for _, l := range dedupe([]named{{"0", 0}, {"1", 1}, {"A-11", A - 11}, {"A", A}, {"A+1", A + 1}, {"3A", 3 * A}, {"2^32-1", 1<<32 - 1}}) {
					out = append(out, cliCase{Requested: req, AnnName: a.Name, Announced: uint32(A), Op: "Readdir", LenName: l.Name, Len: l.V, Dir: dir})
				}
			}
		}
	}
	return out
}

func runClientCase(rep *fw.Report, cnt *counters, c cliCase) {
	root := fakesrv.NewDir()
	file := fakesrv.NewFile(nil)
	root.Add("f", file)
	dir := fakesrv.NewDir()
	root.Add("d", dir)
	switch c.Op {
	case "ReadAt":
		file.Data = data(int(c.Len) + 2)
	case "GetXattr":
		file.Xattrs["user.x"] = data(int(c.Len))
	case "Readdir":
		n := 0
		switch c.Dir {
		case "one":
			n = 1
		case "2A-bytes":
			n = 2*int(c.Announced)/32 + 1
		}
		for i := 0; i < n; i++ {
			dir.Listing = append(dir.Listing, refcodec.Dirent{QID: refcodec.QID{Path: uint64(i) + 1000}, Offset: uint64(i) + 1, Name: fmt.Sprintf("%08d", i)})
		}
	}
	ca, cb := vpipe.NewConnPair("c13cli")
	srv := fakesrv.New(cb, root, func(uint32, string) (uint32, string) { return c.Announced, "9P2000.L.Google.7" }).Start()
	var opts []p9.ClientOpt
	if c.Requested != 0 {
		opts = append(opts, p9.WithMessageSize(c.Requested))
	}
	var nerr, operr error
	var n int
	guard(rep, c.name(), func() { ca.Close(); cb.Close() }, func() {
		var cl *p9.Client
		cl, nerr = p9.NewClient(ca, opts...)
		if nerr != nil {
			return
		}
		att, err := cl.Attach("")
		if err != nil {
			operr = fmt.Errorf("attach: %w", err)
			return
		}
		defer att.Close()
		target := "f"
		if c.Op == "Readdir" {
			target = "d"
		}
		_, f, err := att.Walk([]string{target})
		if err != nil {
			operr = fmt.Errorf("walk: %w", err)
			return
		}
		defer f.Close()
		switch c.Op {
		case "ReadAt":
			if _, _, err := f.Open(p9.ReadOnly); err != nil {
				operr = fmt.Errorf("open: %w", err)
				return
			}
			n, operr = f.ReadAt(make([]byte, c.Len), 0)
		case "WriteAt":
			if _, _, err := f.Open(p9.WriteOnly); err != nil {
				operr = fmt.Errorf("open: %w", err)
				return
			}
			n, operr = f.WriteAt(data(int(c.Len)), 0)
		case "GetXattr":
			var v []byte
			v, operr = f.GetXattr("user.x")
			n = len(v)
		case "Readdir":
			if _, _, err := f.Open(p9.ReadOnly); err != nil {
				operr = fmt.Errorf("open: %w", err)
				return
			}
			var ents p9.Dirents
			ents, operr = f.Readdir(0, uint32(c.Len))
			n = len(ents)
		}
	})
	ca.Close()
	srv.Wait()
	frames := srv.Frames
	cnt.frames += int64(len(frames)) + int64(srv.Replies)
	rep.Traces++
	rep.Evaluations++
	if nerr != nil {
		// refusing the announced msize is not a violation of C13
		rep.Count("client_newclient_error(recorded only)", 1)
		rep.Distinct(fmt.Sprintf("cli|%s|a=%s|newclient-error", c.Op, c.AnnName))
		return
	}
	A := uint64(c.Announced)
	nIO, maxCount := 0, uint64(0)
	var worst = map[string]fakesrv.Frame{}
	for _, f := range frames {
		if f.AfterVersion == 0 {
			continue
		}
		clause := ""
		switch f.Type {
		case refcodec.Tread:
			nIO++
			if uint64(f.Count) > maxCount {
				maxCount = uint64(f.Count)
			}
			if uint64(f.Count)+11 > A || uint64(f.Size) > A {
				clause = "client-tread-exceeds-announced-msize|" + c.Op
			}
		case refcodec.Twrite:
			nIO++
			if uint64(f.Count) > maxCount {
				maxCount = uint64(f.Count)
			}
			if uint64(f.Size) > A {
				clause = "client-twrite-exceeds-announced-msize|" + c.Op
			}
		case refcodec.Treaddir:
			rep.Count("client_treaddir_count_"+readdirClass(uint64(f.Count), A)+"(recorded only)", 1)
		default:
			if uint64(f.Size) > A {
				rep.Count("client_other_request_types_above_msize(recorded only)", 1)
			}
		}
		if clause != "" {
			if w, ok := worst[clause]; !ok || uint64(f.Size)+uint64(f.Count) < uint64(w.Size)+uint64(w.Count) {
				worst[clause] = f
			}
		}
	}
	viol := ""
	var fps []string
	for fp := range worst {
		fps = append(fps, fp)
	}
	sort.Strings(fps)
	for _, fp := range fps {
		f := worst[fp]
		viol = "VIOLATION"
		what := fmt.Sprintf("Tread count=%d: its Rread needs count+11 = %d bytes", f.Count, uint64(f.Count)+11)
		if f.Type == refcodec.Twrite {
			what = fmt.Sprintf("Twrite carrying %d bytes: a %d-byte frame", f.Count, f.Size)
		}
		rep.Violate(&fw.Violation{Fingerprint: fp, Scenario: "client", Params: fw.JSON(c),
			Summary: fmt.Sprintf("server announced msize %d (client had requested %d); %s(len %d) made the client send %s", c.Announced, srv.ReqMsize, c.Op, c.Len, what),
			Detail: []string{c.name(), "the text demands: the client sizes its read and write requests so that both the request and its reply fit in the msize the server announced",
				"smallest offending frame of this case: " + f.String(), fmt.Sprintf("call returned n=%d err=%v; %d Tread/Twrite frames in the case", n, operr, nIO)}})
	}
	res := "ok"
	switch {
	case operr != nil:
		res = "err"
	case c.Op != "Readdir" && uint64(n) < c.Len:
		res = "short"
	}
	rep.Count("client_"+c.Op+"_"+res, 1)
	rep.Count("client_io_frames", int64(nIO))
	rep.Distinct(fmt.Sprintf("cli|%s|a=%s|l=%s|%s|%s|io=%d|max=%s|%s", c.Op, c.AnnName, c.LenName, c.Dir, res, nIO, readdirClass(maxCount, A), viol))
}

func readdirClass(count, a uint64) string {
	switch {
	case count+11 <= a:
		return "<=A-11"
	case count <= a:
		return "in(A-11,A]"
	default:
		return ">A"
	}
}

// ------------------------------------------------------------------ run --

func run(ctx *fw.Ctx, rep *fw.Report) {
	thorough := !ctx.Quick()
	lfs := p9.VerifLargestFixedSize()
	sc, cc := serverCases(thorough), clientCases(thorough, lfs)
	rep.Info["client_payload_alphabet_uses_largest_fixed_size"] = lfs
	rep.Rule = "complete grids, nothing sampled. SERVER (raw peer -> real p9.Server over memfs): msize M in " + msizeList(sc) +
		" x count in {0,1,M-12,M-11,M-10,M-1,M,M+1,4MiB,4MiB+1,2^32-1" + map[bool]string{true: ",M-13,M-9,M-2,M+2,M+10..M+12,M/2,2M,4MiB-11,4MiB-10,2^31,2^32-2", false: ""}[thorough] +
		"} x [Tread on an opened file: file size in {0,count-1,count,count+1,2M} (clamped to 8MiB+1; content is a shared patterned buffer)" + map[bool]string{true: " x offset {0,1}", false: ""}[thorough] +
		" | Tread on an xattr fid: attribute size in {0,count,count+1,2M} (clamped to 4MiB, p9 refuses larger attributes) | Treaddir: directory {empty, 1 entry, entries worth 2M bytes} x name length {1,8,255} x backend {returns every entry, returns only what fits count}, entries synthesized through memfs.Hook]; plus the same requests after a SECOND Tversion that lowers the msize from 65536 to 4096 while the fid stays bound and open; oracle on every Rread/Rreaddir frame the server wrote. " +
		"CLIENT (real p9.Client -> fake server): requested msize R in " + reqList(cc) + " (0 = default) x announced A in {256,4096,8192,65536,4MiB,R/2,R-1,R" + map[bool]string{true: ",512,4097,1MiB,R-11,R-23,R-512", false: ""}[thorough] +
		"} with A<=R x [ReadAt len in {0,1,A-12,A-11,A-10,A,A+1,3(A-11),3A,Pc,Pc+1,3Pc} | WriteAt len in {0,1,A-24,A-23,A-22,A,A+1,3(A-23),3A,Pc,Pc+1,3Pc} | GetXattr of an attribute of size {0,1,A-12,A-11,A-10,A,A+1,3A,Pc,Pc+1,3Pc} | Readdir count {0,1,A-11,A,A+1,3A,2^32-1} x directory {empty,1,2A bytes}], Pc = roundDown512(A-largestFixedSize); oracle on every Tread/Twrite frame the client sent. Values that coincide are enumerated once; a case is distinct by its full tuple; distinct_nontrivial counts distinct (input class without the msize, observed outcome) pairs."
	rep.Assumptions = append(rep.Assumptions,
		"only Rread/Rreaddir (server) and Tread/Twrite (client) are judged, as in the statement; other frame types above the limit are counted, not reported",
		"Rlerror answers do not break the limit; which counts are answered with errors is listed in the server_* counters",
		"a NewClient that refuses the announced msize is recorded, not reported (C12 owns negotiation)",
	)
	cnt := &counters{}
	defer func() { rep.Transitions += cnt.frames }()

	if ctx.Replay != nil {
		switch ctx.Replay.Scenario {
		case "server":
			var c srvCase
			if json.Unmarshal(ctx.Replay.Params, &c) == nil {
				runServerCase(rep, cnt, c)
			}
		case "client":
			var c cliCase
			if json.Unmarshal(ctx.Replay.Params, &c) == nil {
				runClientCase(rep, cnt, c)
			}
		}
		return
	}

	// Witnesses: the smallest boundary case of each kind is taken out of the
	// round-robin distribution and run first by shard 0, so that — reports
	// being merged in shard order and violations deduplicated by fingerprint —
	// the recorded violation of a fingerprint is its minimal case.
	first := ctx.NShards <= 1 || ctx.Shard == 0
	runS := func(c srvCase) {
		rep.States++
		runServerCase(rep, cnt, c)
		if c.Msize == 8192 && c.CountName == "msize-10" && c.SizeName == "count" {
			rep.Sample(c)
		}
	}
	runC := func(c cliCase) {
		rep.States++
		runClientCase(rep, cnt, c)
		if c.Requested == 0 && c.AnnName == "4096" && (c.LenName == "A-10" || c.LenName == "A-22") {
			rep.Sample(c)
		}
	}
	skip := func(name string) bool { return ctx.Filter != "" && !strings.Contains(name, ctx.Filter) }
	if first {
		for _, c := range sc {
			if witnessS(c) && !skip(c.name()) {
				runS(c)
			}
		}
		for _, c := range cc {
			if witnessC(c) && !skip(c.name()) {
				runC(c)
			}
		}
	}
	// The enumeration order is fixed; the shard of a case is its index.
	idx := 0
	for _, c := range sc {
		idx++
		if witnessS(c) || !ctx.Mine(idx-1) || skip(c.name()) {
			continue
		}
		if ctx.Expired() {
			rep.NotExhaustive("budget expired during the server grid")
			break
		}
		runS(c)
	}
	for _, c := range cc {
		idx++
		if witnessC(c) || !ctx.Mine(idx-1) || skip(c.name()) {
			continue
		}
		if ctx.Expired() {
			rep.NotExhaustive("budget expired during the client grid")
			break
		}
		runC(c)
	}
}

func witnessS(c srvCase) bool {
	if c.Msize != 4096 || c.Offset != 0 {
		return false
	}
	switch c.Kind {
	case "treaddir":
		return c.CountName == "msize" && c.Dir == "2*msize-bytes" && c.NameLen == 8 && c.Backend == "honours-count"
	default:
		return c.CountName == "msize-10" && c.SizeName == "count"
	}
}

func witnessC(c cliCase) bool {
	if c.Requested != 0 || c.AnnName != "4096" {
		return false
	}
	switch c.Op {
	case "ReadAt", "GetXattr":
		return c.LenName == "A-10"
	case "WriteAt":
		return c.LenName == "A-22"
	}
	return false
}

func msizeList(sc []srvCase) string {
	set := map[uint32]bool{}
	for _, c := range sc {
		set[c.Msize] = true
	}
	var l []int
	for m := range set {
		l = append(l, int(m))
	}
	sort.Ints(l)
	return fmt.Sprint(l)
}

func reqList(cc []cliCase) string {
	set := map[uint32]bool{}
	for _, c := range cc {
		set[c.Requested] = true
	}
	var l []int
	for m := range set {
		l = append(l, int(m))
	}
	sort.Ints(l)
	return fmt.Sprint(l)
}
