#!/usr/bin/env python3
"""tools/seedkeep_wave.py <base> <wave> <confirm log> <check log> <notes json>
Records every confirmed change of a seeding wave under /verif/seeded via tools/seedkeep.py.
caught_by is derived from the check log (checks with rc=1 and their fingerprints); the notes
file maps "Cxx-mN" to {"caught_by": "...", "strengthening": "..."} for changes that were missed
at first and are reported after a strengthening (the re-run is done by hand and quoted there)."""
import json,os,re,subprocess,sys
base,wave,conf,chk,notes=sys.argv[1:6]
notes=json.load(open(notes)) if os.path.exists(notes) else {}
confirm={}
for l in open(conf):
    l=l.strip()
    if l.startswith('{"seed"'):
        d=json.loads(l); pid,m=d['seed'].split('/')[-2:]; d.pop('seed'); confirm[(pid,m)]=d
sections={}
cur=None
for l in open(chk):
    mm=re.match(r'^#### (C\d\d) (m\d) ',l)
    if mm: cur=(mm.group(1),mm.group(2)); sections[cur]=[]; continue
    if cur: sections[cur].append(l.rstrip('\n'))
for (pid,m),c in sorted(confirm.items()):
    ok = c['applies']==0 and c['build_rc']==0 and c['stable_tests_not_passing']==0 and c['demo_rc_without']==0 and c['demo_rc_with']!=0
    if not ok:
        print('NOT CONFIRMED',pid,m,c); continue
    caught=[]; curchk=None
    for l in sections.get((pid,m),[]):
        mm=re.match(r'^== (C\d\d) rc=(\d+)',l)
        if mm:
            curchk=mm.group(1) if mm.group(2)=='1' else None
            if curchk: caught.append([curchk,[]])
            continue
        mm=re.match(r'^\s+fingerprint: (.*)$',l)
        if mm and curchk: caught[-1][1].append(mm.group(1))
    key='%s-%s'%(pid,m)
    n=notes.get(key,{})
    if caught:
        cb='; '.join('%s quick: %s'%(k,', '.join(f[:4])+(' ...' if len(f)>4 else '')) for k,f in caught)
    else:
        cb='MISSED'
    if 'caught_by' in n: cb=n['caught_by']
    if cb=='MISSED':
        print('MISSED without note:',key); continue
    args=['python3','/verif/tools/seedkeep.py',pid,m,json.dumps(c),cb]
    if 'strengthening' in n: args.append(n['strengthening'])
    env=dict(os.environ,SEED_BASE=base,SEED_WAVE=wave)
    print(subprocess.run(args,env=env,capture_output=True,text=True).stdout.strip(), '::', cb[:120])
