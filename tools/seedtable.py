#!/usr/bin/env python3
"""tools/seedtable.py — print the markdown rows of DESIGN.md section 13 from /verif/seeded/*/meta.json"""
import json,glob,os
def cut(s,n):
    s=s.replace('\n',' ').replace('|','/')
    return s[:n]+('…' if len(s)>n else '')
for d in sorted(glob.glob('/verif/seeded/*')):
    m=json.load(open(d+'/meta.json'))
    print('| %s | %s | %s | %s |'%(os.path.basename(d),cut(m.get('summary',''),200),cut(m.get('caught_by',''),180),cut(m.get('strengthening','') or '—',420)))
