#!/bin/bash
# tools/seedcheck.sh <patch.diff> <check ids...> [-- extra harness flags]
# Applies a seeded property-breaking change to /repo, runs the given checks
# (quick tier), and ALWAYS undoes the change afterwards.
patch=$1; shift
ids=(); extra=()
while [ $# -gt 0 ]; do
  if [ "$1" = "--" ]; then shift; extra=("$@"); break; fi
  ids+=("$1"); shift
done
cd /repo || exit 2
if ! git diff --quiet; then echo "seedcheck: /repo is dirty"; exit 2; fi
git apply "$patch" || { echo "seedcheck: patch does not apply"; exit 2; }
trap 'git -C /repo checkout -- . ; git -C /repo clean -fdq' EXIT
cd ${VERIF_ROOT:-/verif}
for id in "${ids[@]}"; do
  out=$(VERIF_TIER=${VERIF_TIER:-quick} timeout 3000 bin/check "$id" "${extra[@]}" 2>&1)
  rc=$?
  echo "== $id rc=$rc :: $(echo "$out" | grep -E "^$id " | tail -1)"
  echo "$out" | grep -E "fingerprint|infrastructure" | head -6
done
