#!/bin/bash
# tools/seedcheck_all.sh <base> <log> ids... — run the quick checks against every change of the given seeder worktrees
base=$1; log=$2; shift 2
declare -A extra=( [C01]="C17 C18 C03" [C02]="C18 C17" [C03]="C18 C11" [C04]="C07 C15 C05" [C05]="C16 C15 C17" [C06]="C14" [C07]="" [C08]="C07" [C09]="C07" [C10]="C03 C17" [C11]="C12 C17 C18" [C12]="C06" [C13]="C12 C11" [C14]="C06 C18" [C15]="C10 C05" [C16]="C10" [C17]="" [C18]="C15 C03 C17" [C19]="C20 C13" [C20]="C19" )
for id in "$@"; do
  for m in m1 m2 m3; do
    p=$base/$id/out/$m/patch.diff
    [ -f $p ] || continue
    grep -q "^#### $id $m " $log 2>/dev/null && continue
    echo "#### $id $m $(python3 -c "import json;print(json.load(open('$base/$id/out/$m/meta.json'))['summary'][:150])")" >> $log
    ${VERIF_ROOT:-/verif}/tools/seedcheck.sh $p $id ${extra[$id]} >> $log 2>&1
  done
done
