#!/bin/bash
# tools/seedconfirm_all.sh <base dir> <log> ids... — confirm every out/mN of the given seeder
# worktrees: worktrees in parallel (4 at a time), the changes of one worktree one after another.
base=$1; log=$2; shift 2
printf '%s\n' "$@" | xargs -P 4 -I{} bash -c 'for m in m1 m2 m3; do [ -f '$base'/{}/out/$m/meta.json ] && /verif/tools/seedconfirm.sh '$base'/{} $m >> '$log' 2>&1; done'
