#!/bin/bash
# tools/runall.sh [tier] [ids...] — run checks sequentially, print one summary line each.
tier=${1:-quick}; shift
ids=${@:-$(python3 -c "import json; print(' '.join(c['property_id'] for c in json.load(open('/verif/MANIFEST.json'))['checks']))")}
cd "$(dirname "$0")/.."
for id in $ids; do
  start=$(date +%s)
  out=$(VERIF_TIER=$tier timeout 3000 bin/check $id 2>&1)
  rc=$?
  echo "== $id rc=$rc $(($(date +%s)-start))s :: $(echo "$out" | grep -E "^$id " | tail -1)"
  echo "$out" | grep -E "VIOLATION|KNOWN-FINDING|fingerprint|infrastructure" | head -8
done
