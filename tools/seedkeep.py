#!/usr/bin/env python3
"""[SEED_BASE=/tmp/seed2 SEED_WAVE=w2] tools/seedkeep.py <Cxx> <m1|m2> '<confirm json>' '<caught by: check ids + fingerprints>' ['<strengthening note>']
Copies a confirmed seeded change into /verif/seeded/<Cxx>-<m>/ with meta.json."""
import json,sys,os,shutil,glob
pid,m,confirm,caught=sys.argv[1:5]
note=sys.argv[5] if len(sys.argv)>5 else ""
base=os.environ.get('SEED_BASE','/tmp/seed')
wave=os.environ.get('SEED_WAVE','')
src='%s/%s/out/%s'%(base,pid,m)
dst='/verif/seeded/%s-%s%s'%(pid,wave,m)
os.makedirs(dst,exist_ok=True)
shutil.copy(src+'/patch.diff',dst+'/patch.diff')
for f in glob.glob(src+'/*.go')+glob.glob(src+'/demo/*.go'):
    shutil.copy(f,dst+'/'+os.path.basename(f)+'.txt' if False else dst+'/'+os.path.basename(f).replace('_test.go','_test.go.txt').replace('main.go','main.go.txt'))
meta=json.load(open(src+'/meta.json'))
meta['property']=pid
meta['confirmed_by_me']=json.loads(confirm)
meta['what_i_ran']="tools/seedconfirm.sh (scratch worktree: git apply, go build ./..., the 159 stable baseline tests, demo with and without the change); tools/seedcheck.sh (git -C /repo apply, quick checks, git -C /repo checkout -- .)"
meta['caught_by']=caught
if note: meta['strengthening']=note
meta['note']="demo files are stored with a .txt suffix so that they are not compiled as part of /verif"
json.dump(meta,open(dst+'/meta.json','w'),indent=1)
print('kept',dst)
