#!/usr/bin/env python3
"""tools/coverage_table.py — markdown table 'coverage at a glance' from /verif/evidence/*.json (quick tier as last run)"""
import json,glob,os
print('| property | tier | states | transitions | executions / cases | distinct outcomes | exhaustive within the stated bounds | violations | wall |')
print('|---|---|---|---|---|---|---|---|---|')
for f in sorted(glob.glob('/verif/evidence/C*.json')):
    e=json.load(open(f)); c=e.get('coverage',{})
    ex=c.get('executions_complete') or c.get('evaluations') or ''
    print('| %s | %s | %s | %s | %s | %s | %s | %s | %ss |'%(e.get('property_id',os.path.basename(f)[:3]),e.get('tier',''),e.get('states_explored',c.get('states','')),e.get('transitions_explored',c.get('transitions','')),c.get('evaluations',ex),c.get('distinct_nontrivial',''),c.get('exhaustive',''),e.get('violations'),round(e.get('wall_s',0),1)))
