#!/bin/bash
# [REGRESS_CHECKS=..] [REGRESS_SEEDS=..] tools/seedregress.sh [log] — re-run, for every recorded seeded change, the check(s) named in its
# meta.json caught_by against the change applied to /repo (always reverted), and report whether it
# is still reported. Needs exclusive use of /repo's working tree.
log=${1:-/verif/.work/seedregress.log}
: > "$log"
cd /repo || exit 2
if ! git diff --quiet; then echo "seedregress: /repo is dirty"; exit 2; fi
for d in /verif/seeded/*/; do
  id=$(basename "$d")
  ids=$(python3 - "$d/meta.json" <<'PY'
import json,re,sys
m=json.load(open(sys.argv[1]))
c=m.get('caught_by','')
if c.startswith('NOT CAUGHT') or c.startswith('not run'):
    print(''); sys.exit()
ids=[]
for x in re.findall(r'(C\d\d) (?:quick|thorough)',c):
    if x not in ids: ids.append(x)
print(' '.join(ids[:2]))
PY
)
  # REGRESS_CHECKS="C04 C08": only seeds whose first recorded check is one of these; REGRESS_SEEDS="C07-w4m2 ...": these seeds whatever their check
  first=${ids%% *}
  if [ -n "${REGRESS_CHECKS:-}${REGRESS_SEEDS:-}" ]; then
    case " ${REGRESS_SEEDS:-} " in *" $id "*) ;; *)
      case " ${REGRESS_CHECKS:-} " in *" $first "*) ;; *) continue;; esac;;
    esac
  fi
  if [ -z "$ids" ]; then echo "$id SKIP (not applicable / not caught by record)" >> "$log"; continue; fi
  if ! git -C /repo apply --check "$d/patch.diff" 2>/dev/null; then echo "$id NOAPPLY (patch no longer applies to the repaired tree)" >> "$log"; continue; fi
  git -C /repo apply "$d/patch.diff"
  res=""
  for c in $ids; do
    out=$(cd ${VERIF_ROOT:-/verif} && timeout 1500 bin/check $c 2>&1); rc=$?
    res="$res $c:rc=$rc"
    [ $rc -eq 1 ] && break
  done
  git -C /repo checkout -- . ; git -C /repo clean -fdq
  case "$res" in *rc=1*) echo "$id REPORTED$res" >> "$log";; *) echo "$id MISSED$res" >> "$log";; esac
done
echo DONE >> "$log"
