#!/usr/bin/env python3
"""tools/manifest_add.py ID engine 'technique' 'level text' 'level note' 'design ref' — add/replace a check entry."""
import json,sys
pid,engine,technique,text,note,ref=sys.argv[1:7]
m=json.load(open('/verif/MANIFEST.json'))
m['checks']=[c for c in m['checks'] if c['property_id']!=pid]
m['checks'].append({
 "property_id":pid,"quick_cmd":"VERIF_TIER=quick bin/check %s"%pid,"thorough_cmd":"VERIF_TIER=thorough bin/check %s"%pid,
 "evidence_file":"/verif/evidence/%s.json"%pid,"replay_cmd_template":"bin/check %s -replay {path}"%pid,"engine":engine,
 "technique":technique,"level_claimed":{"category":"model_checking","text":text,"design_ref":ref},"level_note":note})
m['checks'].sort(key=lambda c:c['property_id'])
m['not_applicable']=[n for n in m['not_applicable'] if n['property_id']!=pid]
found=False
for e in m.get('engines',[]):
    if e['name']==engine:
        e['serves_properties']=sorted(set(e['serves_properties']+[pid])); found=True
if not found:
    m['engines'].append({"name":engine,"path":"/verif/harness","serves_properties":[pid],"kind_free_text":"bounded-exhaustive input/history enumerator running the real code against independent references (refcodec, reference functions)"})
json.dump(m,open('/verif/MANIFEST.json','w'),indent=1)
