#!/bin/bash
# tools/seedconfirm.sh <seed dir, e.g. /tmp/seed/C07> <m1|m2>
# Confirms a seeded change in its scratch worktree: applies cleanly, builds, the 159
# stable baseline tests still pass, the demonstration fails with the change and passes
# without it. Prints a JSON summary line. Leaves the worktree clean.
wt=$1; m=$2
export GOFLAGS=-mod=mod GOPROXY=off GOSUMDB=off GOTOOLCHAIN=local
cd "$wt" || exit 2
git checkout -q -- . ; git clean -fdq -e out
meta=out/$m/meta.json
[ -f "$meta" ] || { echo "{\"seed\":\"$wt/$m\",\"error\":\"no meta.json\"}"; exit 1; }
demo_path=$(python3 -c "import json;print(json.load(open('$meta')).get('demo_path',''))")
demo_cmd=$(python3 -c "import json;print(json.load(open('$meta')).get('demo_cmd',''))")
demo_src=$(ls out/$m/*_test.go out/$m/demo/main.go out/$m/*.go 2>/dev/null | head -1)
place() { mkdir -p "$(dirname "$demo_path")"; cp "$demo_src" "$demo_path"; }
run_demo() { demo_cmd=${demo_cmd//<repo>/$wt}; demo_cmd=${demo_cmd//WORKTREE/$wt}; (cd "$wt" && timeout 900 bash -c "$demo_cmd") > out/$m/demo_$1.log 2>&1; echo $?; }
# without the change
place; rc_without=$(run_demo without)
# with the change
git apply out/$m/patch.diff 2> out/$m/apply.log; applied=$?
build=1; tests=-1; rc_with=-1
if [ $applied -eq 0 ]; then
  go build ./... > out/$m/build.log 2>&1; build=$?
  rc_with=$(run_demo with)
  rm -f "$demo_path"
  # the stable baseline tests live in these packages
  timeout 1500 go test -json -vet=off -count=1 ./p9/... ./vecnet/... ./fsimpl/localfs/... ./fsimpl/staticfs/... ./fsimpl/composefs/... ./fsimpl/qids/... > out/$m/tests.json 2>/dev/null
  tests=$(python3 - <<PY
import json
base=set(json.load(open('/root/.vp/BASELINE.json'))['stable_pass'])
res={}
for l in open('out/$m/tests.json'):
    try: e=json.loads(l)
    except: continue
    if e.get('Test') and e.get('Action') in ('pass','fail','skip'):
        res[e['Package']+'::'+e['Test']]=e['Action']
print(len([t for t in base if res.get(t)!='pass']))
PY
)
fi
git checkout -q -- . ; git clean -fdq -e out
echo "{\"seed\":\"$wt/$m\",\"applies\":$applied,\"build_rc\":$build,\"stable_tests_not_passing\":$tests,\"demo_rc_without\":$rc_without,\"demo_rc_with\":$rc_with}"
