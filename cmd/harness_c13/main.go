// harness_c13 is the private harness main for building C12 and C13 alone.
package main

import (
	"verif/harness/fw"
	_ "verif/props/c12"
	_ "verif/props/c13"
)

func main() { fw.Main() }
