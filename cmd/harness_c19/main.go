// harness_c19 is the private main of check C19.
package main

import (
	"verif/harness/fw"
	_ "verif/props/c19"
)

func main() { fw.Main() }
