// harness_c09 is the private main of the C09 check.
package main

import (
	"verif/harness/fw"
	_ "verif/props/c09"
)

func main() { fw.Main() }
