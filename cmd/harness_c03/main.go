package main

import (
	"verif/harness/fw"
	_ "verif/props/c03"
)

func main() { fw.Main() }
