// harness is the single binary containing every check; bin/check builds it
// against the overlay generated from /repo's current working tree.
package main

import (
	"os"
	"runtime/debug"

	"verif/harness/fw"
	_ "verif/props/c01"
	_ "verif/props/c02"
	_ "verif/props/c03"
	_ "verif/props/c04"
	_ "verif/props/c05"
	_ "verif/props/c06"
	_ "verif/props/c07"
	_ "verif/props/c08"
	_ "verif/props/c09"
	_ "verif/props/c10"
	_ "verif/props/c11"
	_ "verif/props/c12"
	_ "verif/props/c13"
	_ "verif/props/c14"
	_ "verif/props/c15"
	_ "verif/props/c16"
	_ "verif/props/c17"
	_ "verif/props/c18"
	_ "verif/props/c19"
	_ "verif/props/c20"
	_ "verif/props/selftest"
)

func main() {
	// Executions allocate a lot of short-lived state (vector clocks, stamps,
	// message objects); the live heap of a worker is a few tens of MB, so a
	// lazier collector is cheap and makes every check 1.5-2x faster.
	if os.Getenv("GOGC") == "" {
		debug.SetGCPercent(800)
		debug.SetMemoryLimit(768 << 20) // soft: the collector works harder above this, per process (16 workers)
	}
	fw.Main()
}
