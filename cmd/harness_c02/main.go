// harness_c02 is the private main of the C02 check.
package main

import (
	"verif/harness/fw"
	_ "verif/props/c02"
)

func main() { fw.Main() }
