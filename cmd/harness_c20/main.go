// harness_c20 is the private main of check C20.
package main

import (
	"verif/harness/fw"
	_ "verif/props/c20"
)

func main() { fw.Main() }
