// harness_c17 is the private main of the C17 check (segmentation independence).
package main

import (
	"verif/harness/fw"
	_ "verif/props/c17"
)

func main() { fw.Main() }
