// verifgen rewrites the current /repo working tree into a `go build -overlay`
// under which p9 runs on the controlled scheduler (see DESIGN.md §2.1).
//
// All rewrites are textual splices at positions found in the type-checked
// AST, and none of them adds or removes a line, so positions in panics,
// recorded call sites and reports are the original /repo positions.
//
// Anything the rewriter does not recognise is a hard error naming file:line.
package main

import (
	"encoding/json"
	"flag"
	"fmt"
	"go/ast"
	"go/token"
	"go/types"
	"os"
	"path/filepath"
	"sort"
	"strings"

	"golang.org/x/tools/go/packages"
)

type edit struct {
	start, end int
	text       string
	prio       int // for equal start offsets: lower first
}

type funcRange struct {
	from, to token.Pos
	name     string
}

type fileRW struct {
	funcs  []funcRange
	path   string
	src    []byte
	edits  []edit
	useSch bool
	useVrt bool
	tf     *token.File
}

var (
	repo      = flag.String("repo", "/repo", "repository root")
	out       = flag.String("out", "", "output directory (rewritten files + overlay.json)")
	inject    = flag.String("inject", "/verif/inject", "directory with files to add to packages (<pkgdir>/zz_*.go)")
	record    = flag.Bool("record", true, "insert plain-access recording (T6)")
	recordAll = flag.Bool("recordall", true, "also record (race check only, no scheduling point) every other addressable non-struct field of the rewritten packages' own types")
)

// Packages rewritten (relative to the module root).
var targets = []string{"./p9", "./fsimpl/qids", "./fsimpl/localfs", "./fsimpl/staticfs", "./fsimpl/composefs", "./fsimpl/readdir", "./fsimpl/templatefs"}

// Struct fields whose plain reads/writes are recorded for the happens-before
// race check: "pkgname.Type.field".
var recordedFields = map[string]bool{
	"p9.fidRef.opened": true, "p9.fidRef.openFlags": true, "p9.fidRef.parent": true, "p9.fidRef.pendingXattr": true,
	"p9.connState.recvShutdown": true, "p9.connState.baseVersion": true,
	"p9.pool.cache": true, "p9.pool.start": true,
	"p9.Client.pending": true,
}

// []byte fields whose CONTENTS are recorded for the race check (pooled
// buffers): vrt.SliceR/SliceW instead of vrt.FRq/FWq.
var contentFields = map[string]bool{"p9.buffer.data": true}

// Best-effort object caches implemented as channels: selects on them use
// vsched.SelectCache.
var cacheFields = map[string]bool{"p9.msgFactory.cache": true}

func fatalf(format string, a ...interface{}) {
	fmt.Fprintf(os.Stderr, "verifgen: "+format+"\n", a...)
	os.Exit(2)
}

func main() {
	flag.Parse()
	if *out == "" {
		fatalf("-out required")
	}
	cfg := &packages.Config{
		Mode: packages.NeedName | packages.NeedFiles | packages.NeedCompiledGoFiles | packages.NeedSyntax | packages.NeedTypes | packages.NeedTypesInfo | packages.NeedImports | packages.NeedDeps,
		Dir:  *repo,
	}
	pkgs, err := packages.Load(cfg, targets...)
	if err != nil {
		fatalf("load: %v", err)
	}
	overlay := map[string]string{}
	if err := os.MkdirAll(*out, 0o755); err != nil {
		fatalf("%v", err)
	}
	nfiles := 0
	for _, p := range pkgs {
		targetPkgPaths[p.PkgPath] = true
	}
	for _, p := range pkgs {
		if len(p.Errors) > 0 {
			fatalf("package %s has errors: %v", p.PkgPath, p.Errors)
		}
		for i, f := range p.Syntax {
			path := p.CompiledGoFiles[i]
			src, err := os.ReadFile(path)
			if err != nil {
				fatalf("%v", err)
			}
			rw := &fileRW{path: path, src: src, tf: p.Fset.File(f.Pos())}
			rewriteFile(p, f, rw)
			if len(rw.edits) == 0 {
				continue
			}
			res := rw.apply()
			rel, _ := filepath.Rel(*repo, path)
			dst := filepath.Join(*out, "src", rel)
			os.MkdirAll(filepath.Dir(dst), 0o755)
			if err := os.WriteFile(dst, res, 0o644); err != nil {
				fatalf("%v", err)
			}
			overlay[path] = dst
			nfiles++
		}
	}
	// Injected files.
	filepath.Walk(*inject, func(path string, info os.FileInfo, err error) error {
		if err != nil || info.IsDir() || !strings.HasSuffix(path, ".go") {
			return nil
		}
		rel, _ := filepath.Rel(*inject, path)
		overlay[filepath.Join(*repo, rel)] = path
		return nil
	})
	b, _ := json.MarshalIndent(map[string]interface{}{"Replace": overlay}, "", " ")
	if err := os.WriteFile(filepath.Join(*out, "overlay.json"), b, 0o644); err != nil {
		fatalf("%v", err)
	}
	fmt.Printf("verifgen: %d files rewritten, %d overlay entries\n", nfiles, len(overlay))
}

func (rw *fileRW) off(p token.Pos) int { return rw.tf.Offset(p) }

// injectAvailable reports whether the files injected into this file's package
// define the given function (the hook is only spliced in when they do).
func (rw *fileRW) injectAvailable(fn string) bool {
	dir := filepath.Join(*inject, filepath.Base(filepath.Dir(rw.path)))
	files, _ := filepath.Glob(filepath.Join(dir, "zz_*.go"))
	for _, f := range files {
		if b, err := os.ReadFile(f); err == nil && strings.Contains(string(b), "func "+fn+"(") {
			return true
		}
	}
	return false
}

func (rw *fileRW) replace(from, to token.Pos, text string) {
	rw.edits = append(rw.edits, edit{rw.off(from), rw.off(to), text, 0})
}
func (rw *fileRW) insert(at token.Pos, text string, prio int) {
	rw.edits = append(rw.edits, edit{rw.off(at), rw.off(at), text, prio})
}

func (rw *fileRW) text(n ast.Node) string { return string(rw.src[rw.off(n.Pos()):rw.off(n.End())]) }

// site is "file.go:Func:line"; fingerprints drop the line.
func (rw *fileRW) site(p token.Pos) string {
	pos := rw.tf.Position(p)
	fn := "-"
	for _, f := range rw.funcs {
		if f.from <= p && p < f.to {
			fn = f.name
		}
	}
	return fmt.Sprintf("%s:%s:%d", filepath.Base(pos.Filename), fn, pos.Line)
}

func (rw *fileRW) apply() []byte {
	sort.SliceStable(rw.edits, func(i, j int) bool {
		a, b := rw.edits[i], rw.edits[j]
		if a.start != b.start {
			return a.start < b.start
		}
		// insertions before replacements at the same offset
		ai, bi := a.end == a.start, b.end == b.start
		if ai != bi {
			return ai
		}
		return a.prio < b.prio
	})
	var outb []byte
	cur := 0
	for _, e := range rw.edits {
		if e.start < cur {
			fatalf("%s: overlapping edits at offset %d (%q)", rw.path, e.start, e.text)
		}
		if strings.Contains(e.text, "\n") {
			fatalf("%s: edit adds a line: %q", rw.path, e.text)
		}
		outb = append(outb, rw.src[cur:e.start]...)
		outb = append(outb, e.text...)
		cur = e.end
	}
	outb = append(outb, rw.src[cur:]...)
	return outb
}

func pureExpr(e ast.Expr) bool {
	switch x := e.(type) {
	case *ast.Ident:
		return true
	case *ast.SelectorExpr:
		return pureExpr(x.X)
	case *ast.ParenExpr:
		return pureExpr(x.X)
	case *ast.StarExpr:
		return pureExpr(x.X)
	}
	return false
}

func isMap(info *types.Info, e ast.Expr) bool {
	t := info.TypeOf(e)
	if t == nil {
		return false
	}
	_, ok := t.Underlying().(*types.Map)
	return ok
}

func isChan(info *types.Info, e ast.Expr) bool {
	t := info.TypeOf(e)
	if t == nil {
		return false
	}
	_, ok := t.Underlying().(*types.Chan)
	return ok
}

// fieldKey returns "pkg.Type.field" for a selector that denotes a struct field.
func fieldKey(info *types.Info, sel *ast.SelectorExpr) string {
	s := info.Selections[sel]
	if s == nil || s.Kind() != types.FieldVal {
		return ""
	}
	v, ok := s.Obj().(*types.Var)
	if !ok || !v.IsField() {
		return ""
	}
	// Find the struct type that declares the field (through embedding).
	recv := s.Recv()
	for {
		if p, ok := recv.(*types.Pointer); ok {
			recv = p.Elem()
			continue
		}
		break
	}
	// Walk the index path to the declaring struct.
	t := recv
	idx := s.Index()
	for i := 0; i < len(idx)-1; i++ {
		st, ok := t.Underlying().(*types.Struct)
		if !ok {
			return ""
		}
		t = st.Field(idx[i]).Type()
		if p, ok := t.(*types.Pointer); ok {
			t = p.Elem()
		}
	}
	n, ok := t.(*types.Named)
	if !ok {
		return ""
	}
	return n.Obj().Pkg().Name() + "." + n.Obj().Name() + "." + v.Name()
}

// targetPkgNames is filled from the loaded target packages.
var targetPkgPaths = map[string]bool{}

// quietRecordable: the selector is an addressable field, declared in one of
// the rewritten packages, whose type is not a struct or array (those are
// recorded at their leaves; sync and atomic objects are structs).
func quietRecordable(info *types.Info, sel *ast.SelectorExpr) bool {
	tv, ok := info.Types[sel]
	if !ok || !tv.Addressable() {
		return false
	}
	s := info.Selections[sel]
	v := s.Obj().(*types.Var)
	if v.Pkg() == nil || !targetPkgPaths[v.Pkg().Path()] {
		return false
	}
	switch v.Type().Underlying().(type) {
	case *types.Struct, *types.Array:
		return false
	}
	return true
}

func rewriteFile(p *packages.Package, f *ast.File, rw *fileRW) {
	info := p.TypesInfo
	for _, d := range f.Decls {
		if fd, ok := d.(*ast.FuncDecl); ok {
			// (*Server).Handle in package p9: register the connection state with
			// the injected export file, right after it has been created, so that
			// state keys can include the fid table (harness/histex).
			if p.Name == "p9" && fd.Name.Name == "Handle" && fd.Recv != nil && fd.Body != nil && rw.injectAvailable("verifRegisterConn") {
				for _, st := range fd.Body.List {
					if as, ok := st.(*ast.AssignStmt); ok && len(as.Lhs) == 1 {
						if id, ok := as.Lhs[0].(*ast.Ident); ok && id.Name == "cs" && len(fd.Recv.List) == 1 && len(fd.Recv.List[0].Names) == 1 {
							rw.insert(as.End(), "; verifRegisterConn("+fd.Recv.List[0].Names[0].Name+", cs)", 9)
							break
						}
					}
				}
			}
			name := fd.Name.Name
			if fd.Recv != nil && len(fd.Recv.List) == 1 {
				t := fd.Recv.List[0].Type
				if st, ok := t.(*ast.StarExpr); ok {
					t = st.X
				}
				if id, ok := t.(*ast.Ident); ok {
					name = id.Name + "." + name
				}
			}
			rw.funcs = append(rw.funcs, funcRange{fd.Pos(), fd.End(), name})
		}
	}
	// --- imports -----------------------------------------------------------
	var importDecl *ast.GenDecl
	usesRuntimeOnlyForFinalizer := false
	for _, d := range f.Decls {
		gd, ok := d.(*ast.GenDecl)
		if !ok || gd.Tok != token.IMPORT {
			continue
		}
		if importDecl == nil {
			importDecl = gd
		}
		for _, sp := range gd.Specs {
			is := sp.(*ast.ImportSpec)
			switch is.Path.Value {
			case `"sync"`:
				if is.Name != nil {
					fatalf("%s: renamed sync import unsupported", rw.site(is.Pos()))
				}
				rw.replace(is.Pos(), is.End(), `sync "verif/rt/vsync"`)
			case `"sync/atomic"`:
				if is.Name != nil {
					fatalf("%s: renamed sync/atomic import unsupported", rw.site(is.Pos()))
				}
				rw.replace(is.Pos(), is.End(), `atomic "verif/rt/vatomic"`)
			}
		}
	}

	handled := map[ast.Node]bool{} // nodes whose text is replaced wholesale by an enclosing edit
	written := map[ast.Expr]bool{} // expressions in write context
	addrTaken := map[ast.Expr]bool{}
	runtimeUses, finalizerUses := 0, 0

	// First pass: find write contexts.
	ast.Inspect(f, func(n ast.Node) bool {
		switch x := n.(type) {
		case *ast.AssignStmt:
			if x.Tok != token.DEFINE {
				for _, l := range x.Lhs {
					markWritten(info, l, written)
				}
			}
		case *ast.IncDecStmt:
			markWritten(info, x.X, written)
		case *ast.UnaryExpr:
			if x.Op == token.AND {
				written[unparen(x.X)] = true // address taken: treat as write (conservative) unless atomics
				addrTaken[unparen(x.X)] = true
			}
		}
		return true
	})

	var walk func(n ast.Node) bool
	walk = func(n ast.Node) bool {
		if n == nil || handled[n] {
			return false
		}
		switch x := n.(type) {
		case *ast.GoStmt:
			rw.useSch = true
			call := x.Call
			if len(call.Args) == 0 {
				// go f()  ->  vsched.Go(func() { f() })
				rw.replace(x.Pos(), call.Pos(), "vsched.Go(func() { ")
				rw.insert(x.End(), " })", 9)
			} else {
				// go f(a, b) -> { _a0 := a; _a1 := b; vsched.Go(func() { f(_a0, _a1) }) }
				if !pureCallee(call.Fun) {
					// function literal with parameters: evaluate args first
				}
				var pre strings.Builder
				pre.WriteString("{ ")
				for i, a := range call.Args {
					fmt.Fprintf(&pre, "_ga%d := %s; ", i, rw.text(a))
					handled[a] = true
				}
				pre.WriteString("vsched.Go(func() { ")
				rw.replace(x.Pos(), call.Pos(), pre.String())
				var args []string
				for i := range call.Args {
					args = append(args, fmt.Sprintf("_ga%d", i))
				}
				rw.replace(call.Lparen+1, call.Rparen, strings.Join(args, ", "))
				rw.insert(x.End(), " }) }", 9)
			}
		case *ast.SelectStmt:
			rewriteSelect(info, x, rw, handled)
		case *ast.SendStmt:
			rw.useSch = true
			rw.insert(x.Pos(), "vsched.Send(", 1)
			rw.replace(x.Chan.End(), x.Value.Pos(), ", ")
			rw.insert(x.End(), ")", 8)
		case *ast.AssignStmt:
			if len(x.Lhs) == 2 && len(x.Rhs) == 1 {
				if u, ok := unparen(x.Rhs[0]).(*ast.UnaryExpr); ok && u.Op == token.ARROW {
					rw.useSch = true
					rw.replace(u.Pos(), u.X.Pos(), "vsched.Recv2(")
					rw.insert(u.End(), ")", 8)
					handled[u] = true
					ast.Inspect(u.X, walk)
				}
			}
		case *ast.UnaryExpr:
			if x.Op == token.ARROW {
				rw.useSch = true
				rw.replace(x.Pos(), x.X.Pos(), "vsched.Recv(")
				rw.insert(x.End(), ")", 8)
			}
		case *ast.RangeStmt:
			t := info.TypeOf(x.X)
			if t != nil {
				switch t.Underlying().(type) {
				case *types.Chan:
					fatalf("%s: range over channel is not supported", rw.site(x.Pos()))
				case *types.Map:
					rewriteMapRange(info, x, rw, handled)
				}
			}
		case *ast.CallExpr:
			if id, ok := x.Fun.(*ast.Ident); ok {
				if b, ok := info.Uses[id].(*types.Builtin); ok {
					switch b.Name() {
					case "close":
						rw.useSch = true
						rw.replace(id.Pos(), id.End(), "vsched.Close")
					case "delete":
						if *record && len(x.Args) == 2 && pureExpr(x.Args[0]) {
							rw.useVrt = true
							rw.insert(x.Args[0].Pos(), "vrt.W(", 2)
							rw.insert(x.Args[0].End(), fmt.Sprintf(", %q)", rw.site(x.Pos())), 7)
						}
					}
				}
			}
			if sel, ok := x.Fun.(*ast.SelectorExpr); ok {
				if pk, ok := sel.X.(*ast.Ident); ok {
					if pn, ok := info.Uses[pk].(*types.PkgName); ok {
						switch pn.Imported().Path() {
						case "runtime":
							if sel.Sel.Name == "SetFinalizer" {
								rw.useVrt = true
								rw.replace(sel.Pos(), sel.End(), "vrt.SetFinalizer")
								finalizerUses++
							}
						case "sync/atomic":
							// args like &x.f must not be treated as plain writes
							for _, a := range x.Args {
								if u, ok := a.(*ast.UnaryExpr); ok && u.Op == token.AND {
									delete(written, unparen(u.X))
									markNoRecord(u.X, handled)
								}
							}
						}
					}
				}
			}
		case *ast.ExprStmt:
			// Blind atomic add: result discarded.
			if call, ok := x.X.(*ast.CallExpr); ok {
				if sel, ok := call.Fun.(*ast.SelectorExpr); ok {
					if pk, ok := sel.X.(*ast.Ident); ok {
						if pn, ok := info.Uses[pk].(*types.PkgName); ok && pn.Imported().Path() == "sync/atomic" && strings.HasPrefix(sel.Sel.Name, "Add") {
							rw.replace(sel.Sel.Pos(), sel.Sel.End(), "Blind"+sel.Sel.Name)
							break
						}
					}
					// the method form on the typed atomics: x.Add(d) with the result discarded
					if sel.Sel.Name == "Add" {
						if s := info.Selections[sel]; s != nil && s.Kind() == types.MethodVal {
							if fn, ok := s.Obj().(*types.Func); ok && fn.Pkg() != nil && fn.Pkg().Path() == "sync/atomic" {
								rw.replace(sel.Sel.Pos(), sel.Sel.End(), "BlindAdd")
							}
						}
					}
				}
			}
		case *ast.IndexExpr:
			if *record && isMap(info, x.X) && pureExpr(x.X) && !handled[x.X] {
				rw.useVrt = true
				fn := "vrt.R("
				if written[x] {
					fn = "vrt.W("
				}
				rw.insert(x.X.Pos(), fn, 2)
				rw.insert(x.X.End(), fmt.Sprintf(", %q)", rw.site(x.Pos())), 7)
				// Register pointer keys at insertion.
				if written[x] {
					if kt := info.TypeOf(x.Index); kt != nil {
						if _, ok := kt.Underlying().(*types.Pointer); ok {
							rw.insert(x.Index.Pos(), "vrt.K(", 2)
							rw.insert(x.Index.End(), ")", 7)
						}
					}
				}
			}
		case *ast.SelectorExpr:
			if id, ok := x.X.(*ast.Ident); ok {
				if pn, ok := info.Uses[id].(*types.PkgName); ok && pn.Imported().Path() == "runtime" {
					runtimeUses++
				}
			}
			if *record {
				if key := fieldKey(info, x); key != "" && recordedFields[key] {
					// Skip fields of map type used as the base of an index
					// expression etc.: those are recorded as map accesses too,
					// but recording the field itself is still right.
					rw.useVrt = true
					fn := "(*vrt.FR(&"
					if written[x] {
						fn = "(*vrt.FW(&"
					}
					rw.insert(x.Pos(), fn, 3)
					rw.insert(x.End(), fmt.Sprintf(", %q, %q))", key, rw.site(x.Pos())), 6)
				} else if key != "" && *recordAll && !addrTaken[x] && quietRecordable(info, x) {
					// Every other field of the rewritten packages' own types:
					// happens-before race check only (no scheduling point).
					rw.useVrt = true
					fn := "(*vrt.FRq(&"
					if written[x] {
						fn = "(*vrt.FWq(&"
					}
					if contentFields[key] {
						fn = strings.Replace(strings.Replace(fn, "FRq", "SliceR", 1), "FWq", "SliceW", 1)
					}
					rw.insert(x.Pos(), fn, 3)
					rw.insert(x.End(), fmt.Sprintf(", %q, %q))", key, rw.site(x.Pos())), 6)
				}
			}
		}
		return true
	}
	ast.Inspect(f, walk)

	if finalizerUses > 0 && runtimeUses == finalizerUses {
		usesRuntimeOnlyForFinalizer = true
	}
	// --- added imports -------------------------------------------------------
	var add string
	if rw.useSch {
		add += ` vsched "verif/rt/vsched";`
	}
	if rw.useVrt {
		add += ` vrt "verif/rt/vrt";`
	}
	if add != "" {
		if importDecl == nil {
			fatalf("%s: no import declaration to extend", rw.path)
		}
		if importDecl.Lparen.IsValid() {
			rw.insert(importDecl.Lparen+1, add, 0)
		} else {
			rw.insert(importDecl.End(), "; import ("+add+" )", 0)
		}
	}
	if usesRuntimeOnlyForFinalizer {
		// keep the runtime import used
		rw.edits = append(rw.edits, edit{len(rw.src), len(rw.src), "var _ = runtime.KeepAlive", 0})
		if len(rw.src) > 0 && rw.src[len(rw.src)-1] != '\n' {
			fatalf("%s: file does not end with a newline", rw.path)
		}
	}
}

func pureCallee(e ast.Expr) bool { return true }

// markWritten marks e, and every enclosing struct value reached without a
// pointer indirection, as written.
func markWritten(info *types.Info, e ast.Expr, written map[ast.Expr]bool) {
	e = unparen(e)
	written[e] = true
	if sel, ok := e.(*ast.SelectorExpr); ok {
		if t := info.TypeOf(sel.X); t != nil {
			if _, isPtr := t.Underlying().(*types.Pointer); !isPtr {
				if _, isSel := unparen(sel.X).(*ast.SelectorExpr); isSel {
					markWritten(info, sel.X, written)
				}
			}
		}
	}
}

func unparen(e ast.Expr) ast.Expr {
	for {
		p, ok := e.(*ast.ParenExpr)
		if !ok {
			return e
		}
		e = p.X
	}
}

// markNoRecord prevents field recording inside an expression that has its
// own wrapper (edits at identical offsets would nest wrongly).
func markNoRecord(e ast.Expr, handled map[ast.Node]bool) {
	ast.Inspect(e, func(n ast.Node) bool {
		if n != nil {
			handled[n] = true
		}
		return true
	})
}

func rewriteMapRange(info *types.Info, x *ast.RangeStmt, rw *fileRW, handled map[ast.Node]bool) {
	if !pureExpr(x.X) {
		fatalf("%s: range over impure map expression", rw.site(x.Pos()))
	}
	if x.Tok != token.DEFINE && x.Key != nil {
		fatalf("%s: map range with '=' is not supported", rw.site(x.Pos()))
	}
	rw.useVrt = true
	m := rw.text(x.X)
	mr := m
	if *record {
		mr = fmt.Sprintf("vrt.R(%s, %q)", m, rw.site(x.Pos()))
	}
	name := func(e ast.Expr) string {
		if e == nil {
			return "_"
		}
		return rw.text(e)
	}
	k, v := name(x.Key), name(x.Value)
	var hdr, body string
	kv := k
	if kv == "_" {
		kv = "_mk"
	}
	hdr = fmt.Sprintf("for _, %s := range vrt.Keys(%s) {", kv, mr)
	if v == "_" {
		body = fmt.Sprintf(" if _, _mok := %s[%s]; !_mok { continue };", m, kv)
	} else {
		body = fmt.Sprintf(" %s, _mok := %s[%s]; if !_mok { continue };", v, m, kv)
	}
	rw.replace(x.Pos(), x.Body.Lbrace+1, hdr+body)
	markNoRecord(x.X, handled)
	if x.Key != nil {
		handled[x.Key] = true
	}
	if x.Value != nil {
		handled[x.Value] = true
	}
}

func rewriteSelect(info *types.Info, x *ast.SelectStmt, rw *fileRW, handled map[ast.Node]bool) {
	rw.useSch = true
	hasDefault := false
	var cases []string
	idx := 0
	cache := true
	for _, c := range x.Body.List {
		cc := c.(*ast.CommClause)
		if cc.Comm == nil {
			hasDefault = true
			continue
		}
		var ch ast.Expr
		var caseText string
		switch st := cc.Comm.(type) {
		case *ast.SendStmt:
			ch = st.Chan
			cases = append(cases, fmt.Sprintf("vsched.SendCase(%s, %s)", rw.text(st.Chan), rw.text(st.Value)))
			caseText = fmt.Sprintf("case %d:", idx)
		case *ast.ExprStmt:
			u, ok := unparen(st.X).(*ast.UnaryExpr)
			if !ok || u.Op != token.ARROW {
				fatalf("%s: unsupported select clause", rw.site(cc.Pos()))
			}
			ch = u.X
			cases = append(cases, fmt.Sprintf("vsched.RecvCase(%s)", rw.text(u.X)))
			caseText = fmt.Sprintf("case %d:", idx)
		case *ast.AssignStmt:
			u, ok := unparen(st.Rhs[0]).(*ast.UnaryExpr)
			if !ok || u.Op != token.ARROW || len(st.Rhs) != 1 {
				fatalf("%s: unsupported select clause", rw.site(cc.Pos()))
			}
			ch = u.X
			cases = append(cases, fmt.Sprintf("vsched.RecvCase(%s)", rw.text(u.X)))
			tok := st.Tok.String()
			switch len(st.Lhs) {
			case 1:
				caseText = fmt.Sprintf("case %d: %s %s vsched.RecvVal(%s, _sel.V);", idx, rw.text(st.Lhs[0]), tok, rw.text(u.X))
			case 2:
				caseText = fmt.Sprintf("case %d: %s, %s %s vsched.RecvVal(%s, _sel.V), _sel.OK;", idx, rw.text(st.Lhs[0]), rw.text(st.Lhs[1]), tok, rw.text(u.X))
			default:
				fatalf("%s: unsupported select clause", rw.site(cc.Pos()))
			}
		default:
			fatalf("%s: unsupported select clause", rw.site(cc.Pos()))
		}
		if !pureExpr(ch) {
			fatalf("%s: select on impure channel expression", rw.site(cc.Pos()))
		}
		isCache := false
		if sel, ok := unparen(ch).(*ast.SelectorExpr); ok {
			if cacheFields[fieldKey(info, sel)] {
				isCache = true
			}
		}
		if !isCache {
			cache = false
		}
		rw.replace(cc.Pos(), cc.Colon+1, caseText)
		handled[cc.Comm] = true
		idx++
	}
	fn := "vsched.Select"
	if cache && hasDefault {
		fn = "vsched.SelectCache"
	}
	hdr := fmt.Sprintf("switch _sel := %s(%v", fn, hasDefault)
	for _, c := range cases {
		hdr += ", " + c
	}
	hdr += "); _sel.I {"
	rw.replace(x.Pos(), x.Body.Lbrace+1, hdr)
}
