package main

import (
	"fmt"
	"golang.org/x/tools/go/packages"
)

func main() {
	cfg := &packages.Config{Mode: packages.NeedName | packages.NeedFiles | packages.NeedSyntax | packages.NeedTypes | packages.NeedTypesInfo | packages.NeedImports | packages.NeedDeps, Dir: "/repo"}
	pkgs, err := packages.Load(cfg, "./p9", "./fsimpl/qids", "./fsimpl/localfs")
	fmt.Println(len(pkgs), err)
	for _, p := range pkgs {
		fmt.Println(p.PkgPath, len(p.Syntax), p.Errors)
	}
}
