// harness_c12 is the private harness main for building C12 alone.
package main

import (
	"verif/harness/fw"
	_ "verif/props/c12"
)

func main() { fw.Main() }
