// harness_c11 is the private main of the C11 check (chunked I/O).
package main

import (
	"verif/harness/fw"
	_ "verif/props/c11"
)

func main() { fw.Main() }
