package main

import (
	"verif/harness/fw"
	_ "verif/props/c01"
)

func main() { fw.Main() }
