module verif

go 1.22.0

toolchain go1.23.5

require (
	github.com/hugelgupf/p9 v0.0.0-00010101000000-000000000000
	golang.org/x/tools v0.29.0
)

require (
	github.com/u-root/uio v0.0.0-20230305220412-3e8cd9d6bf63 // indirect
	golang.org/x/exp v0.0.0-20231219180239-dc181d75b848 // indirect
	golang.org/x/mod v0.22.0 // indirect
	golang.org/x/sync v0.10.0 // indirect
	golang.org/x/sys v0.29.0 // indirect
)

replace github.com/hugelgupf/p9 => /repo
