// Package fakesrv2 is a scripted 9P server for client-side wire checks
// (C01 directions (a) and (d)). It is a synchronous loop-back connection: the
// single-threaded client writes a request (in several Write calls), the
// script computes the reply frames at once, and the client's following Read
// calls find them. No goroutines are involved, so every exchange is
// deterministic and costs microseconds.
package fakesrv2

import (
	"encoding/binary"
	"io"

	"verif/harness/refcodec"
)

// Request is one captured request frame.
type Request struct {
	Raw []byte
	Msg refcodec.Msg
	Err error // not decodable by the reference codec
}

// Conn implements io.ReadWriteCloser for p9.NewClient.
type Conn struct {
	// Script returns the reply frames (complete, encoded) for a request.
	Script func(r *Request) [][]byte

	wbuf     []byte
	rbuf     []byte
	Requests []*Request
	Replies  [][]byte
	Closed   bool
}

// Write collects request bytes; every completed frame is answered.
func (c *Conn) Write(p []byte) (int, error) {
	if c.Closed {
		return 0, io.ErrClosedPipe
	}
	c.wbuf = append(c.wbuf, p...)
	for len(c.wbuf) >= 4 {
		n := int(binary.LittleEndian.Uint32(c.wbuf))
		if n < 7 || len(c.wbuf) < n {
			break
		}
		raw := append([]byte(nil), c.wbuf[:n]...)
		c.wbuf = c.wbuf[n:]
		r := &Request{Raw: raw}
		r.Msg, _, r.Err = refcodec.Decode(raw)
		c.Requests = append(c.Requests, r)
		if c.Script != nil {
			for _, f := range c.Script(r) {
				c.Replies = append(c.Replies, f)
				c.rbuf = append(c.rbuf, f...)
			}
		}
	}
	return len(p), nil
}

// Read hands out reply bytes; with nothing left the connection looks closed
// (a lock-step client would otherwise wait forever).
func (c *Conn) Read(p []byte) (int, error) {
	if len(c.rbuf) == 0 {
		return 0, io.EOF
	}
	n := copy(p, c.rbuf)
	c.rbuf = c.rbuf[n:]
	return n, nil
}

// Close implements io.Closer.
func (c *Conn) Close() error {
	c.Closed = true
	return nil
}

// Pending returns the bytes of an incomplete request frame.
func (c *Conn) Pending() int { return len(c.wbuf) }
