// Package fakesrv is a scripted fake 9P2000.L server for driving the REAL
// p9.Client. It shares no code with package p9: frames are read and written
// with refcodec. The check chooses the Rversion (version string and msize)
// freely; afterwards a handful of request types is served from a tiny
// in-memory model while the size field, type and the interesting fields of
// EVERY frame the client sends are recorded.
//
// The fake server itself honours the msize it announced wherever that is
// possible at all: Rread and Rreaddir payloads are cut so that the reply frame
// fits (a server may always return fewer bytes than asked for).
package fakesrv

import (
	"encoding/binary"
	"fmt"
	"io"
	"sort"
	"sync"
	"sync/atomic"

	"verif/harness/refcodec"
)

// Linux errno values used in Rlerror replies.
const (
	ENOENT  = 2
	EIO     = 5
	EBADF   = 9
	EAGAIN  = 11
	EEXIST  = 17
	ENOTDIR = 20
	EINVAL  = 22
	ENOSYS  = 38
	ENODATA = 61
	ENOBUFS = 105
)

// Frame is what was recorded about one frame received from the client.
type Frame struct {
	Seq    int    `json:"seq"`
	Type   uint8  `json:"type"`
	Name   string `json:"name"`
	Tag    uint16 `json:"tag"`
	Size   uint32 `json:"size"`   // the frame's size field (== bytes on the wire)
	Fid    uint32 `json:"fid"`    // first fid field, if the type has one
	Offset uint64 `json:"offset"` // Tread/Twrite/Treaddir
	Count  uint32 `json:"count"`  // Tread/Treaddir: count field; Twrite: len(data)
	Bad    string `json:"bad,omitempty"`
	// AfterVersion is the number of Rversion replies sent before this frame
	// arrived (0 for the first Tversion).
	AfterVersion int `json:"after_version"`
}

func (f Frame) String() string {
	return fmt.Sprintf("#%d %s tag=%d size=%d fid=%d off=%d count=%d", f.Seq, f.Name, f.Tag, f.Size, f.Fid, f.Offset, f.Count)
}

// Node is one object of the model.
type Node struct {
	QID      refcodec.QID
	Dir      bool
	Data     []byte            // content served by Tread (not copied)
	Children map[string]*Node  // walkable children
	Listing  []refcodec.Dirent // what Treaddir serves; offset = index
	Xattrs   map[string][]byte // Txattrwalk by name
	Written  int64             // bytes accepted by Twrite
	WriteOps int
}

var nextPath uint64 = 100 // atomic

// NewDir creates a directory node.
func NewDir() *Node {
	return &Node{QID: refcodec.QID{Type: 0x80, Path: atomic.AddUint64(&nextPath, 1)}, Dir: true, Children: map[string]*Node{}, Xattrs: map[string][]byte{}}
}

// NewFile creates a regular file node serving data.
func NewFile(data []byte) *Node {
	return &Node{QID: refcodec.QID{Type: 0, Path: atomic.AddUint64(&nextPath, 1)}, Data: data, Xattrs: map[string][]byte{}}
}

// Add links child under name and appends it to the listing.
func (n *Node) Add(name string, child *Node) *Node {
	n.Children[name] = child
	n.Listing = append(n.Listing, refcodec.Dirent{QID: child.QID, Offset: uint64(len(n.Listing) + 1), Type: child.QID.Type, Name: name})
	return child
}

type fidState struct {
	node  *Node
	open  bool
	xattr []byte
	isX   bool
}

// VersionFunc decides the Rversion for a Tversion.
type VersionFunc func(reqMsize uint32, reqVersion string) (msize uint32, version string)

// Server is one fake server on one connection.
type Server struct {
	Conn    io.ReadWriteCloser
	Root    *Node
	Version VersionFunc
	// Eagain: answer that many Tversions with Rlerror(EAGAIN) first.
	Eagain int
	// HardCap bounds Rread/Rreaddir payloads in addition to the announced
	// msize (p9's receiver never accepts frames above 4 MiB). 0 = 4 MiB-11.
	HardCap uint32

	mu sync.Mutex
	// Announced is the msize of the last Rversion sent; AnnouncedVersion its string.
	Announced        uint32
	AnnouncedVersion string
	ReqMsize         uint32 // msize of the last Tversion
	ReqVersion       string
	Versions         int // Rversion replies sent
	Frames           []Frame
	Replies          int
	MaxReply         uint32 // largest reply frame sent after the Rversion
	Oversize         int    // replies replaced by Rlerror(ENOBUFS) because they would not fit
	Err              error  // why Serve stopped, if not a clean EOF

	fids map[uint32]*fidState
	done chan struct{}
}

// New creates a server; call Start (or Serve in a goroutine of your own).
func New(conn io.ReadWriteCloser, root *Node, v VersionFunc) *Server {
	return &Server{Conn: conn, Root: root, Version: v, fids: map[uint32]*fidState{}, done: make(chan struct{})}
}

// Start runs Serve in a new goroutine.
func (s *Server) Start() *Server {
	go s.Serve()
	return s
}

// Wait blocks until Serve has returned.
func (s *Server) Wait() { <-s.done }

// Snapshot returns a copy of the recorded frames.
func (s *Server) Snapshot() []Frame {
	s.mu.Lock()
	defer s.mu.Unlock()
	return append([]Frame(nil), s.Frames...)
}

const maxFrame = 80 << 20

// Serve handles frames until the connection ends.
func (s *Server) Serve() {
	defer close(s.done)
	defer s.Conn.Close()
	for {
		var hdr [4]byte
		if _, err := io.ReadFull(s.Conn, hdr[:]); err != nil {
			if err != io.EOF && err != io.ErrClosedPipe {
				s.Err = err
			}
			return
		}
		size := binary.LittleEndian.Uint32(hdr[:])
		if size < 7 || size > maxFrame {
			s.mu.Lock()
			s.Frames = append(s.Frames, Frame{Seq: len(s.Frames), Size: size, Bad: "absurd size field", AfterVersion: s.Versions})
			s.mu.Unlock()
			s.Err = fmt.Errorf("fakesrv: absurd frame size %d", size)
			return
		}
		frame := make([]byte, size)
		copy(frame, hdr[:])
		if _, err := io.ReadFull(s.Conn, frame[4:]); err != nil {
			s.Err = fmt.Errorf("fakesrv: truncated frame (size field %d): %v", size, err)
			return
		}
		reply := s.handle(frame)
		if reply == nil {
			continue
		}
		if _, err := s.Conn.Write(reply); err != nil {
			s.Err = err
			return
		}
	}
}

func (s *Server) handle(frame []byte) []byte {
	s.mu.Lock()
	defer s.mu.Unlock()
	rec := Frame{Seq: len(s.Frames), Size: uint32(len(frame)), Type: frame[4], Tag: binary.LittleEndian.Uint16(frame[5:]), AfterVersion: s.Versions}
	m, _, err := refcodec.Decode(frame)
	rec.Name = m.Name()
	if err != nil {
		rec.Bad = err.Error()
		s.Frames = append(s.Frames, rec)
		return s.reply(refcodec.New(refcodec.Rlerror, rec.Tag, uint32(EIO)))
	}
	switch m.Type {
	case refcodec.Tread, refcodec.Treaddir:
		rec.Fid, rec.Offset, rec.Count = uint32(m.U("fid")), m.U("offset"), uint32(m.U("count"))
	case refcodec.Twrite:
		rec.Fid, rec.Offset, rec.Count = uint32(m.U("fid")), m.U("offset"), uint32(len(m.Get("data").([]byte)))
	default:
		if d := refcodec.Defs[m.Type]; len(d.Fields) > 0 && d.Fields[0].Kind == refcodec.U32 && m.Type != refcodec.Tversion {
			rec.Fid = uint32(m.Vals[0].(uint64))
		}
	}
	s.Frames = append(s.Frames, rec)
	return s.reply(s.dispatch(m))
}

func (s *Server) reply(m refcodec.Msg) []byte {
	b := refcodec.Encode(m)
	// Stay within the announced msize ourselves: a reply that cannot be
	// shortened (Rgetattr under a tiny msize, say) is replaced by an 11-byte
	// Rlerror(ENOBUFS), so that a client which adopted the announced msize
	// never sees an over-long frame from this side. Below 11 bytes nothing
	// fits and the reply goes out as it is.
	if m.Type != refcodec.Rversion && s.Announced >= 11 && uint32(len(b)) > s.Announced {
		s.Oversize++
		b = refcodec.Encode(refcodec.New(refcodec.Rlerror, m.Tag, uint32(ENOBUFS)))
	}
	s.Replies++
	if m.Type != refcodec.Rversion && uint32(len(b)) > s.MaxReply {
		s.MaxReply = uint32(len(b))
	}
	return b
}

func rerr(tag uint16, e uint32) refcodec.Msg { return refcodec.New(refcodec.Rlerror, tag, e) }

// room is the number of payload bytes an Rread/Rreaddir may carry.
func (s *Server) room() uint32 {
	capb := s.HardCap
	if capb == 0 {
		capb = 4<<20 - 11
	}
	if s.Announced < 11 {
		return 0
	}
	if r := s.Announced - 11; r < capb {
		return r
	}
	return capb
}

func attrVals(n *Node) []interface{} {
	mode := uint32(0o100644)
	if n.Dir {
		mode = 0o40755
	}
	size := uint64(len(n.Data))
	vals := []interface{}{mode, uint32(0), uint32(0), uint64(1), uint64(0), size, uint64(4096), (size + 511) / 512}
	for i := 0; i < 10; i++ {
		vals = append(vals, uint64(0))
	}
	return vals
}

func (s *Server) dispatch(m refcodec.Msg) refcodec.Msg {
	tag := m.Tag
	switch m.Type {
	case refcodec.Tversion:
		s.ReqMsize, s.ReqVersion = uint32(m.U("msize")), m.S("version")
		if s.Eagain > 0 {
			s.Eagain--
			return rerr(tag, EAGAIN)
		}
		msize, v := s.Version(s.ReqMsize, s.ReqVersion)
		s.Announced, s.AnnouncedVersion = msize, v
		s.Versions++
		s.fids = map[uint32]*fidState{}
		return refcodec.New(refcodec.Rversion, tag, msize, v)

	case refcodec.Tattach:
		s.fids[uint32(m.U("fid"))] = &fidState{node: s.Root}
		return refcodec.New(refcodec.Rattach, tag, s.Root.QID.Type, s.Root.QID.Version, s.Root.QID.Path)

	case refcodec.Twalk, refcodec.Twalkgetattr:
		f, ok := s.fids[uint32(m.U("fid"))]
		if !ok {
			return rerr(tag, EBADF)
		}
		cur := f.node
		qids := []refcodec.QID{}
		for _, name := range m.Get("wnames").([]string) {
			next, ok := cur.Children[name]
			if !cur.Dir || !ok {
				return rerr(tag, ENOENT)
			}
			cur = next
			qids = append(qids, cur.QID)
		}
		s.fids[uint32(m.U("newfid"))] = &fidState{node: cur}
		if m.Type == refcodec.Twalk {
			return refcodec.New(refcodec.Rwalk, tag, qids)
		}
		vals := append([]interface{}{uint64(0x7ff)}, attrVals(cur)...)
		vals = append(vals, qids)
		return refcodec.New(refcodec.Rwalkgetattr, tag, vals...)

	case refcodec.Tgetattr:
		f, ok := s.fids[uint32(m.U("fid"))]
		if !ok {
			return rerr(tag, EBADF)
		}
		vals := []interface{}{uint64(0x7ff), f.node.QID.Type, f.node.QID.Version, f.node.QID.Path}
		vals = append(vals, attrVals(f.node)...)
		return refcodec.New(refcodec.Rgetattr, tag, vals...)

	case refcodec.Tlopen:
		f, ok := s.fids[uint32(m.U("fid"))]
		if !ok {
			return rerr(tag, EBADF)
		}
		f.open = true
		return refcodec.New(refcodec.Rlopen, tag, f.node.QID.Type, f.node.QID.Version, f.node.QID.Path, uint32(0))

	case refcodec.Tlcreate, refcodec.Tucreate:
		f, ok := s.fids[uint32(m.U("fid"))]
		if !ok {
			return rerr(tag, EBADF)
		}
		if !f.node.Dir {
			return rerr(tag, ENOTDIR)
		}
		n := f.node.Add(m.S("name"), NewFile(nil))
		f.node, f.open = n, true
		return refcodec.New(refcodec.ReplyType(m.Type), tag, n.QID.Type, n.QID.Version, n.QID.Path, uint32(0))

	case refcodec.Tmkdir, refcodec.Tumkdir, refcodec.Tsymlink, refcodec.Tusymlink, refcodec.Tmknod, refcodec.Tumknod:
		f, ok := s.fids[uint32(m.U("dfid"))]
		if !ok {
			return rerr(tag, EBADF)
		}
		if !f.node.Dir {
			return rerr(tag, ENOTDIR)
		}
		var n *Node
		if m.Type == refcodec.Tmkdir || m.Type == refcodec.Tumkdir {
			n = NewDir()
		} else {
			n = NewFile(nil)
		}
		f.node.Add(m.S("name"), n)
		return refcodec.New(refcodec.ReplyType(m.Type), tag, n.QID.Type, n.QID.Version, n.QID.Path)

	case refcodec.Tread:
		f, ok := s.fids[uint32(m.U("fid"))]
		if !ok {
			return rerr(tag, EBADF)
		}
		src := f.node.Data
		if f.isX {
			src = f.xattr
		} else if !f.open {
			return rerr(tag, EINVAL)
		}
		off, n := m.U("offset"), m.U("count")
		if off >= uint64(len(src)) {
			return refcodec.New(refcodec.Rread, tag, []byte{})
		}
		if rest := uint64(len(src)) - off; n > rest {
			n = rest
		}
		if r := uint64(s.room()); n > r {
			n = r
		}
		return refcodec.New(refcodec.Rread, tag, src[off:off+n])

	case refcodec.Twrite:
		f, ok := s.fids[uint32(m.U("fid"))]
		if !ok {
			return rerr(tag, EBADF)
		}
		if !f.open {
			return rerr(tag, EINVAL)
		}
		n := len(m.Get("data").([]byte))
		f.node.Written += int64(n)
		f.node.WriteOps++
		return refcodec.New(refcodec.Rwrite, tag, uint32(n))

	case refcodec.Treaddir:
		f, ok := s.fids[uint32(m.U("fid"))]
		if !ok {
			return rerr(tag, EBADF)
		}
		if !f.open || !f.node.Dir {
			return rerr(tag, EINVAL)
		}
		limit := m.U("count")
		if r := uint64(s.room()); limit > r {
			limit = r
		}
		var out []refcodec.Dirent
		total := uint64(0)
		for i := m.U("offset"); i < uint64(len(f.node.Listing)); i++ {
			d := f.node.Listing[i]
			sz := uint64(refcodec.DirentSize(d.Name))
			if total+sz > limit {
				break
			}
			total += sz
			out = append(out, d)
		}
		return refcodec.New(refcodec.Rreaddir, tag, out)

	case refcodec.Txattrwalk:
		f, ok := s.fids[uint32(m.U("fid"))]
		if !ok {
			return rerr(tag, EBADF)
		}
		var val []byte
		if name := m.S("name"); name == "" {
			var names []string
			for k := range f.node.Xattrs {
				names = append(names, k)
			}
			sort.Strings(names)
			for _, k := range names {
				val = append(append(val, k...), 0)
			}
		} else if v, ok := f.node.Xattrs[name]; ok {
			val = v
		} else {
			return rerr(tag, ENODATA)
		}
		s.fids[uint32(m.U("newfid"))] = &fidState{node: f.node, isX: true, xattr: val}
		return refcodec.New(refcodec.Rxattrwalk, tag, uint64(len(val)))

	case refcodec.Tclunk, refcodec.Tremove:
		fid := uint32(m.U("fid"))
		if _, ok := s.fids[fid]; !ok {
			return rerr(tag, EBADF)
		}
		delete(s.fids, fid)
		return refcodec.New(refcodec.ReplyType(m.Type), tag)

	case refcodec.Tfsync:
		return refcodec.New(refcodec.Rfsync, tag)
	case refcodec.Tflush:
		return refcodec.New(refcodec.Rflush, tag)
	}
	return rerr(tag, ENOSYS)
}
