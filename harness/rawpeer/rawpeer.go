// Package rawpeer is a 9P peer that speaks refcodec bytes over a vpipe.Conn.
package rawpeer

import (
	"encoding/binary"
	"fmt"
	"io"

	"verif/harness/refcodec"
	"verif/harness/vpipe"
)

// Peer talks to a server (or client) at the byte level.
type Peer struct {
	C    *vpipe.Conn
	rbuf []byte
	eof  bool
	// Log of everything sent and received, in order.
	Sent     []refcodec.Msg
	Received []refcodec.Msg
}

// New wraps a connection end.
func New(c *vpipe.Conn) *Peer { return &Peer{C: c} }

// SendRaw writes bytes in one Write call.
func (p *Peer) SendRaw(b []byte) error {
	_, err := p.C.Write(b)
	return err
}

// Send encodes and writes one message.
func (p *Peer) Send(m refcodec.Msg) error {
	p.Sent = append(p.Sent, m)
	return p.SendRaw(refcodec.Encode(m))
}

// SendAll writes several messages with a single Write call.
func (p *Peer) SendAll(ms ...refcodec.Msg) error {
	var b []byte
	for _, m := range ms {
		p.Sent = append(p.Sent, m)
		b = append(b, refcodec.Encode(m)...)
	}
	return p.SendRaw(b)
}

// RecvFrame reads one complete frame.
func (p *Peer) RecvFrame() ([]byte, error) {
	for {
		if len(p.rbuf) >= 4 {
			n := int(binary.LittleEndian.Uint32(p.rbuf))
			if n < 7 {
				return nil, fmt.Errorf("rawpeer: frame size %d", n)
			}
			if len(p.rbuf) >= n {
				f := p.rbuf[:n:n]
				p.rbuf = p.rbuf[n:]
				return f, nil
			}
		}
		if p.eof {
			if len(p.rbuf) > 0 {
				return nil, io.ErrUnexpectedEOF
			}
			return nil, io.EOF
		}
		var tmp [65536]byte
		n, err := p.C.Read(tmp[:])
		p.rbuf = append(p.rbuf, tmp[:n]...)
		if err != nil {
			p.eof = true
		}
	}
}

// Recv reads and decodes one message.
func (p *Peer) Recv() (refcodec.Msg, error) {
	f, err := p.RecvFrame()
	if err != nil {
		return refcodec.Msg{}, err
	}
	m, _, err := refcodec.Decode(f)
	if err != nil {
		return m, fmt.Errorf("rawpeer: undecodable frame %x: %w", f, err)
	}
	p.Received = append(p.Received, m)
	return m, nil
}

// RPC sends a request and reads one reply (lock-step).
func (p *Peer) RPC(m refcodec.Msg) (refcodec.Msg, error) {
	if err := p.Send(m); err != nil {
		return refcodec.Msg{}, err
	}
	return p.Recv()
}

// Must is RPC that panics on transport errors.
func (p *Peer) Must(m refcodec.Msg) refcodec.Msg {
	r, err := p.RPC(m)
	if err != nil {
		panic(fmt.Sprintf("rawpeer: RPC %v: %v", m, err))
	}
	return r
}

// Errno returns the error code if m is Rlerror, else 0.
func Errno(m refcodec.Msg) uint32 {
	if m.Type == refcodec.Rlerror {
		return uint32(m.U("ecode"))
	}
	return 0
}

// Convenience constructors -------------------------------------------------

const (
	NoFID = 0xffffffff
	NoTag = 0xffff
)

func Tversion(tag uint16, msize uint32, v string) refcodec.Msg {
	return refcodec.New(refcodec.Tversion, tag, msize, v)
}
func Tattach(tag uint16, fid uint32, aname string) refcodec.Msg {
	return refcodec.New(refcodec.Tattach, tag, fid, uint32(NoFID), "", aname, uint32(0xffffffff))
}
func Twalk(tag uint16, fid, newfid uint32, names ...string) refcodec.Msg {
	if names == nil {
		names = []string{}
	}
	return refcodec.New(refcodec.Twalk, tag, fid, newfid, names)
}
func Tlopen(tag uint16, fid uint32, flags uint32) refcodec.Msg {
	return refcodec.New(refcodec.Tlopen, tag, fid, flags)
}
func Tread(tag uint16, fid uint32, off uint64, count uint32) refcodec.Msg {
	return refcodec.New(refcodec.Tread, tag, fid, off, count)
}
func Twrite(tag uint16, fid uint32, off uint64, data []byte) refcodec.Msg {
	return refcodec.New(refcodec.Twrite, tag, fid, off, data)
}
func Tclunk(tag uint16, fid uint32) refcodec.Msg { return refcodec.New(refcodec.Tclunk, tag, fid) }
func Tremove(tag uint16, fid uint32) refcodec.Msg {
	return refcodec.New(refcodec.Tremove, tag, fid)
}
func Tflush(tag uint16, old uint16) refcodec.Msg { return refcodec.New(refcodec.Tflush, tag, old) }
func Tgetattr(tag uint16, fid uint32) refcodec.Msg {
	return refcodec.New(refcodec.Tgetattr, tag, fid, uint64(0x3fff))
}
func Tmkdir(tag uint16, dfid uint32, name string) refcodec.Msg {
	return refcodec.New(refcodec.Tmkdir, tag, dfid, name, uint32(0o755), uint32(0))
}
func Tlcreate(tag uint16, fid uint32, name string, flags uint32) refcodec.Msg {
	return refcodec.New(refcodec.Tlcreate, tag, fid, name, flags, uint32(0o644), uint32(0))
}
func Tunlinkat(tag uint16, dfid uint32, name string) refcodec.Msg {
	return refcodec.New(refcodec.Tunlinkat, tag, dfid, name, uint32(0))
}
func Trenameat(tag uint16, olddir uint32, oldname string, newdir uint32, newname string) refcodec.Msg {
	return refcodec.New(refcodec.Trenameat, tag, olddir, oldname, newdir, newname)
}
func Trename(tag uint16, fid, dfid uint32, name string) refcodec.Msg {
	return refcodec.New(refcodec.Trename, tag, fid, dfid, name)
}
func Treaddir(tag uint16, fid uint32, off uint64, count uint32) refcodec.Msg {
	return refcodec.New(refcodec.Treaddir, tag, fid, off, count)
}
func Tsetattr(tag uint16, fid uint32, valid uint32, mode uint32, size uint64) refcodec.Msg {
	return refcodec.New(refcodec.Tsetattr, tag, fid, valid, mode, uint32(0), uint32(0), size, uint64(0), uint64(0), uint64(0), uint64(0))
}
func Tsymlink(tag uint16, dfid uint32, name, target string) refcodec.Msg {
	return refcodec.New(refcodec.Tsymlink, tag, dfid, name, target, uint32(0))
}
func Tlink(tag uint16, dfid, fid uint32, name string) refcodec.Msg {
	return refcodec.New(refcodec.Tlink, tag, dfid, fid, name)
}
func Tmknod(tag uint16, dfid uint32, name string, mode uint32) refcodec.Msg {
	return refcodec.New(refcodec.Tmknod, tag, dfid, name, mode, uint32(1), uint32(2), uint32(0))
}
func Treadlink(tag uint16, fid uint32) refcodec.Msg {
	return refcodec.New(refcodec.Treadlink, tag, fid)
}
func Tfsync(tag uint16, fid uint32) refcodec.Msg { return refcodec.New(refcodec.Tfsync, tag, fid) }
func Tstatfs(tag uint16, fid uint32) refcodec.Msg {
	return refcodec.New(refcodec.Tstatfs, tag, fid)
}
func Tlock(tag uint16, fid uint32) refcodec.Msg {
	return refcodec.New(refcodec.Tlock, tag, fid, uint8(1), uint32(0), uint64(0), uint64(10), uint32(42), "client")
}
func Txattrwalk(tag uint16, fid, newfid uint32, name string) refcodec.Msg {
	return refcodec.New(refcodec.Txattrwalk, tag, fid, newfid, name)
}
func Txattrcreate(tag uint16, fid uint32, name string, size uint64, flags uint32) refcodec.Msg {
	return refcodec.New(refcodec.Txattrcreate, tag, fid, name, size, flags)
}
func Twalkgetattr(tag uint16, fid, newfid uint32, names ...string) refcodec.Msg {
	if names == nil {
		names = []string{}
	}
	return refcodec.New(refcodec.Twalkgetattr, tag, fid, newfid, names)
}
func Tauth(tag uint16, afid uint32) refcodec.Msg {
	return refcodec.New(refcodec.Tauth, tag, afid, "", "", uint32(0))
}
