// Package vproxy is the "versionproxy" of DESIGN.md §2.3: it sits between the
// real p9.Client and its transport, rewrites the version string of the first
// Tversion so that the real Client and the real Server negotiate any N in
// 0..7, and records every frame in both directions.
//
// It is an in-line tap (an io.ReadWriteCloser wrapping the client's end of
// the connection), not a pair of pump goroutines: the client writes a frame
// in several Write calls (header, body, payload); the tap holds the bytes
// back until a frame is complete, rewrites/records it and forwards it with a
// single Write. Inbound bytes are passed through unchanged and parsed into
// frames on the side.
package vproxy

import (
	"encoding/binary"
	"fmt"
	"io"
	"sync"

	"verif/harness/refcodec"
)

// Frame is one recorded frame.
type Frame struct {
	T   bool // client -> server
	Raw []byte
	Msg refcodec.Msg
	Err error // refcodec could not decode it
}

// Conn is the tap.
type Conn struct {
	Inner io.ReadWriteCloser
	// Version >= 0: the first Tversion's version string is replaced by the
	// string for 9P2000.L.Google.<Version> (plain "9P2000.L" for 0).
	Version int
	// KeepRaw keeps the raw bytes of every frame (costly for big payloads).
	KeepRaw bool

	mu      sync.Mutex
	wbuf    []byte
	rbuf    []byte
	rewrote bool
	Frames  []Frame
	// Requested is the version string the client originally asked for.
	Requested string
}

// New wraps inner.
func New(inner io.ReadWriteCloser, version int) *Conn {
	return &Conn{Inner: inner, Version: version, KeepRaw: true}
}

// VersionString is the version string for extension level n.
func VersionString(n int) string {
	if n == 0 {
		return "9P2000.L"
	}
	return fmt.Sprintf("9P2000.L.Google.%d", n)
}

func (c *Conn) record(t bool, raw []byte) {
	f := Frame{T: t}
	if c.KeepRaw {
		f.Raw = append([]byte(nil), raw...)
	}
	f.Msg, _, f.Err = refcodec.Decode(raw)
	c.Frames = append(c.Frames, f)
}

// Write buffers until a frame is complete and forwards whole frames.
func (c *Conn) Write(p []byte) (int, error) {
	c.mu.Lock()
	c.wbuf = append(c.wbuf, p...)
	var out [][]byte
	for len(c.wbuf) >= 4 {
		n := int(binary.LittleEndian.Uint32(c.wbuf))
		if n < 7 {
			// not a frame: pass the bytes on untouched
			out = append(out, append([]byte(nil), c.wbuf...))
			c.wbuf = c.wbuf[:0]
			break
		}
		if len(c.wbuf) < n {
			break
		}
		frame := append([]byte(nil), c.wbuf[:n]...)
		c.wbuf = c.wbuf[n:]
		if !c.rewrote && c.Version >= 0 && frame[4] == refcodec.Tversion {
			if m, _, err := refcodec.Decode(frame); err == nil {
				c.rewrote = true
				c.Requested = m.S("version")
				frame = refcodec.Encode(refcodec.New(refcodec.Tversion, m.Tag, m.U("msize"), VersionString(c.Version)))
			}
		}
		c.record(true, frame)
		out = append(out, frame)
	}
	c.mu.Unlock()
	for _, f := range out {
		if _, err := c.Inner.Write(f); err != nil {
			return 0, err
		}
	}
	return len(p), nil
}

// Read passes inbound bytes through and records complete frames.
func (c *Conn) Read(p []byte) (int, error) {
	n, err := c.Inner.Read(p)
	if n > 0 {
		c.mu.Lock()
		c.rbuf = append(c.rbuf, p[:n]...)
		for len(c.rbuf) >= 4 {
			sz := int(binary.LittleEndian.Uint32(c.rbuf))
			if sz < 7 || len(c.rbuf) < sz {
				break
			}
			c.record(false, c.rbuf[:sz])
			c.rbuf = c.rbuf[sz:]
		}
		c.mu.Unlock()
	}
	return n, err
}

// Close closes the wrapped connection.
func (c *Conn) Close() error { return c.Inner.Close() }

// Mark returns the current number of recorded frames.
func (c *Conn) Mark() int {
	c.mu.Lock()
	defer c.mu.Unlock()
	return len(c.Frames)
}

// Since returns the frames recorded after mark.
func (c *Conn) Since(mark int) []Frame {
	c.mu.Lock()
	defer c.mu.Unlock()
	return append([]Frame(nil), c.Frames[mark:]...)
}
