// Package refmodel is a boring executable model of a 9P2000.L session as the
// properties C04 (fid binding, open state, mode checks) and C08 (path
// coherence, fencing) state it. It shares no code with p9.
//
// The model never demands more than the property texts: where a text gives
// no errno it expects "some error"; where it is silent the expectation is
// "either" and the model adopts whatever the implementation did.
package refmodel

import (
	"fmt"
	"sort"
	"strings"

	"verif/harness/refcodec"
)

// Linux errnos used by the property texts.
const (
	EPERM  = 1
	ENOENT = 2
	EBADF  = 9
	EBUSY  = 16
	EISDIR = 21
	EINVAL = 22
	ENOSYS = 38
)

// Kind of object.
type Kind int

const (
	KDir Kind = iota
	KFile
	KSymlink
	KOther // fifo, device, socket
)

// Obj is a file system object of the model.
type Obj struct {
	ID       int
	Kind     Kind
	Openable bool
	Children map[string]*Obj
	Data     []byte
	Target   string
	Xattrs   map[string][]byte
	NLink    int
}

// Fid is the model's view of one bound fid.
type Fid struct {
	Obj    *Obj
	Path   []string // current path of the binding (follows renames)
	Fenced bool     // at or below an unlinked / overwritten path
	Opened bool
	Mode   uint32 // open mode & 3
	// xattr sub-protocol
	XWalk   bool // bound by Txattrwalk: reads return XBuf
	XBuf    []byte
	XCreate bool // Txattrcreate pending on this fid
	XName   string
	XSize   uint64
	XFlags  uint32
	XData   []byte
	Unknown bool // state after a don't-care interaction: nothing is asserted about this fid's sub-state
}

// Model is the session + file system state.
type Model struct {
	Root   *Obj
	Fids   map[uint32]*Fid
	nextID int
	// QidOf maps model object ids to the qid.path the implementation showed
	// for them (learned on first sight, then required to stay consistent).
	QidOf map[int]uint64
	ObjOf map[uint64]int
	// Poisoned: an interaction outside everything the texts define happened
	// and succeeded; the model asserts nothing further on this history.
	Poisoned bool
	// AllowNonEmptyRmdir mirrors a backend that removes / overwrites
	// non-empty directories.
	AllowNonEmptyRmdir bool
}

// New creates an empty model.
func New() *Model {
	m := &Model{Fids: map[uint32]*Fid{}, QidOf: map[int]uint64{}, ObjOf: map[uint64]int{}}
	m.Root = m.NewObj(KDir)
	m.Root.NLink = 1
	return m
}

// NewObj allocates an object.
func (m *Model) NewObj(k Kind) *Obj {
	m.nextID++
	o := &Obj{ID: m.nextID, Kind: k, Xattrs: map[string][]byte{}, Openable: k == KDir || k == KFile}
	if k == KDir {
		o.Children = map[string]*Obj{}
	}
	return o
}

// Add creates an object at a path (setup helper).
func (m *Model) Add(path string, k Kind, data string) *Obj {
	parts := split(path)
	cur := m.Root
	for _, p := range parts[:len(parts)-1] {
		c, ok := cur.Children[p]
		if !ok {
			c = m.NewObj(KDir)
			c.NLink = 1
			cur.Children[p] = c
		}
		cur = c
	}
	o := m.NewObj(k)
	o.NLink = 1
	o.Data = []byte(data)
	cur.Children[parts[len(parts)-1]] = o
	return o
}

func split(p string) []string {
	var out []string
	for _, s := range strings.Split(p, "/") {
		if s != "" {
			out = append(out, s)
		}
	}
	return out
}

func (m *Model) resolve(parts []string) *Obj {
	cur := m.Root
	for _, p := range parts {
		if cur == nil || cur.Children == nil {
			return nil
		}
		cur = cur.Children[p]
	}
	return cur
}

// Expect is what the model expects of a reply.
type Expect struct {
	// Class: "ok", "errno" (exactly Errno, or one of Errnos), "error" (any Rlerror), "either".
	Class  string
	Errnos []uint32
	// For "ok": optional checks on the reply.
	Check func(r refcodec.Msg) string
	Why   string
}

func ok(check func(r refcodec.Msg) string) Expect { return Expect{Class: "ok", Check: check} }
func errno(why string, e ...uint32) Expect        { return Expect{Class: "errno", Errnos: e, Why: why} }
func anyErr(why string) Expect                    { return Expect{Class: "error", Why: why} }
func either(why string) Expect                    { return Expect{Class: "either", Why: why} }

// Verdict compares a reply with an expectation; "" means it agrees.
func (e Expect) Verdict(req, r refcodec.Msg) string {
	isErr := r.Type == refcodec.Rlerror
	code := uint32(0)
	if isErr {
		code = uint32(r.U("ecode"))
	}
	switch e.Class {
	case "either":
		return ""
	case "ok":
		if isErr {
			return fmt.Sprintf("%s answered Rlerror(%d), model expects success", req.Name(), code)
		}
		if r.Type != refcodec.ReplyType(req.Type) {
			return fmt.Sprintf("%s answered %s", req.Name(), r.Name())
		}
		if e.Check != nil {
			if s := e.Check(r); s != "" {
				return req.Name() + ": " + s
			}
		}
		return ""
	case "error":
		if !isErr {
			return fmt.Sprintf("%s answered %s, model expects an error (%s)", req.Name(), r.Name(), e.Why)
		}
		return ""
	case "errno":
		if !isErr {
			return fmt.Sprintf("%s answered %s, model expects errno %v (%s)", req.Name(), r.Name(), e.Errnos, e.Why)
		}
		for _, x := range e.Errnos {
			if x == code {
				return ""
			}
		}
		return fmt.Sprintf("%s answered errno %d, model expects %v (%s)", req.Name(), code, e.Errnos, e.Why)
	}
	return "bad expectation"
}

// NoBackend reports whether the expectation implies that the request must not
// reach the backend (it was refused by the session layer).
type Outcome struct {
	Expect    Expect
	NoBackend bool // rejected requests must not cause any backend call (except Close of released files)
	// Apply updates the model given the actual reply (success or error).
	Apply func(r refcodec.Msg)
}

func isOK(r refcodec.Msg) bool { return r.Type != refcodec.Rlerror }

func prefix(p, of []string) bool {
	if len(p) > len(of) {
		return false
	}
	for i := range p {
		if p[i] != of[i] {
			return false
		}
	}
	return true
}

// fence marks every fid at or below path as fenced.
func (m *Model) fence(path []string) {
	for _, f := range m.Fids {
		if !f.Fenced && prefix(path, f.Path) {
			f.Fenced = true
		}
	}
}

// moved rewrites the paths of fids at or below from.
func (m *Model) moved(from, to []string) {
	for _, f := range m.Fids {
		if !f.Fenced && prefix(from, f.Path) {
			np := append(append([]string{}, to...), f.Path[len(from):]...)
			f.Path = np
		}
	}
}

func (m *Model) learnQid(o *Obj, path uint64) string {
	if q, ok := m.QidOf[o.ID]; ok {
		if q != path {
			return fmt.Sprintf("object #%d was shown with qid.path %d before and %d now: the fid denotes another file object", o.ID, q, path)
		}
		return ""
	}
	if other, ok := m.ObjOf[path]; ok && other != o.ID {
		return fmt.Sprintf("qid.path %d was shown for object #%d before and now for object #%d", path, other, o.ID)
	}
	m.QidOf[o.ID] = path
	m.ObjOf[path] = o.ID
	return ""
}

func (m *Model) detach(o *Obj) {
	o.NLink--
}

// dirChecks are the checks common to requests acting inside a directory fid.
// It returns a non-nil outcome if the request must be refused.
func (m *Model) dirChecks(f *Fid, what string) *Outcome {
	if f.Unknown || f.XWalk {
		return &Outcome{Expect: either("xattr / undefined fid used as a directory")}
	}
	if f.Obj.Kind != KDir {
		return &Outcome{Expect: anyErr(what + " in a non-directory"), NoBackend: true}
	}
	if f.Fenced {
		return &Outcome{Expect: errno(what+" in a deleted directory", EINVAL), NoBackend: true}
	}
	if f.Opened {
		return &Outcome{Expect: errno(what+" inside an opened directory fid", EBUSY, EINVAL), NoBackend: true}
	}
	return nil
}

func bad(fid uint32) Outcome {
	return Outcome{Expect: errno(fmt.Sprintf("fid %d is not bound", fid), EBADF), NoBackend: true}
}

// Step returns the model's expectation for req in the current state. The
// caller must call Apply with the actual reply afterwards.
func (m *Model) Step(req refcodec.Msg) Outcome {
	get := func(name string) *Fid { return m.Fids[uint32(req.U(name))] }
	nop := func(refcodec.Msg) {}
	if m.Poisoned {
		return Outcome{Expect: either("history left the defined part of the model"), Apply: nop}
	}
	// Requests through a fid whose sub-state the texts do not define (an xattr
	// fid used for something else than its read sub-protocol, a fid after a
	// don't-care interaction): nothing is expected, and if such a request
	// succeeds and could have changed anything, the model stops asserting.
	{
		readOnly := map[uint8]bool{refcodec.Tgetattr: true, refcodec.Tstatfs: true, refcodec.Tlock: true, refcodec.Treadlink: true,
			refcodec.Treaddir: true, refcodec.Tfsync: true, refcodec.Tread: true}
		odd := false
		allBound := true
		d := refcodec.Defs[req.Type]
		for i, fd := range d.Fields {
			switch fd.Name {
			case "fid", "dfid", "dirfd", "olddirfid", "newdirfid":
				if req.Type == refcodec.Tattach {
					continue
				}
				f := m.Fids[uint32(req.Vals[i].(uint64))]
				if f == nil {
					allBound = false
				} else if f.Unknown || (f.XWalk && req.Type != refcodec.Tread && req.Type != refcodec.Tclunk &&
					// a fid fresh from Txattrwalk is an UNOPENED fid: "readdir and
					// fsync are accepted only on a fid opened in a compatible mode
					// (EINVAL if unopened)" binds it like any other
					req.Type != refcodec.Treaddir && req.Type != refcodec.Tfsync) {
					odd = true
				}
			}
		}
		if odd && allBound && req.Type != refcodec.Tclunk {
			fidv := uint32(0)
			if req.Type == refcodec.Tremove {
				fidv = uint32(req.U("fid"))
			}
			return Outcome{Expect: either("request through an xattr / undefined fid"), Apply: func(r refcodec.Msg) {
				if req.Type == refcodec.Tremove {
					delete(m.Fids, fidv) // remove always unbinds
				}
				if isOK(r) && !readOnly[req.Type] {
					m.Poisoned = true
				}
			}}
		}
	}
	switch req.Type {
	case refcodec.Tauth:
		return Outcome{Expect: errno("authentication is not offered", ENOSYS), NoBackend: true, Apply: nop}

	case refcodec.Tattach:
		fid := uint32(req.U("fid"))
		if uint32(req.U("afid")) != 0xffffffff {
			return Outcome{Expect: errno("attach with an auth fid", EINVAL), NoBackend: true, Apply: nop}
		}
		names := split(req.S("aname"))
		target := m.walkTarget(m.Root, names)
		if target == nil {
			return Outcome{Expect: anyErr("attach name does not resolve through directories"), Apply: nop}
		}
		return Outcome{Expect: ok(func(r refcodec.Msg) string { return "" }), Apply: func(r refcodec.Msg) {
			if isOK(r) {
				m.Fids[fid] = &Fid{Obj: target, Path: append([]string{}, names...)}
			}
		}}

	case refcodec.Twalk, refcodec.Twalkgetattr:
		f := get("fid")
		if f == nil {
			return bad(uint32(req.U("fid")))
		}
		newfid := uint32(req.U("newfid"))
		names := req.Get("wnames").([]string)
		inPlace := newfid == uint32(req.U("fid"))
		if f.Unknown || f.XWalk || f.XCreate {
			return Outcome{Expect: either("walk from an xattr / undefined fid"), Apply: func(r refcodec.Msg) {
				if isOK(r) {
					m.Poisoned = true
				}
			}}
		}
		if f.Opened && inPlace {
			if f.Obj.Kind == KDir {
				return Outcome{Expect: errno("walking in place from an opened directory fid", EBUSY, EINVAL), NoBackend: true, Apply: nop}
			}
			return Outcome{Expect: either("walking in place from an opened non-directory fid"), Apply: func(r refcodec.Msg) {
				if isOK(r) {
					m.Poisoned = true
				}
			}}
		}
		if len(names) == 0 {
			// clone
			return Outcome{Expect: ok(func(r refcodec.Msg) string {
				if n := len(r.Get("wqids").([]refcodec.QID)); n != 0 {
					return fmt.Sprintf("clone returned %d qids", n)
				}
				return ""
			}), Apply: func(r refcodec.Msg) {
				if isOK(r) {
					m.Fids[newfid] = &Fid{Obj: f.Obj, Path: append([]string{}, f.Path...), Fenced: f.Fenced}
				}
			}}
		}
		if f.Obj.Kind != KDir {
			return Outcome{Expect: anyErr("walk to a child from a non-directory"), NoBackend: true, Apply: nop}
		}
		if f.Fenced {
			return Outcome{Expect: errno("walk to a child from a deleted directory", ENOENT), NoBackend: true, Apply: nop}
		}
		target := m.walkTarget(f.Obj, names)
		if target == nil {
			return Outcome{Expect: anyErr("a walk component does not exist or is not reached through a directory"), Apply: nop}
		}
		objs := m.walkObjs(f.Obj, names)
		return Outcome{Expect: ok(func(r refcodec.Msg) string {
			qs := r.Get("wqids").([]refcodec.QID)
			if len(qs) != len(names) {
				return fmt.Sprintf("%d qids for %d names", len(qs), len(names))
			}
			for i, q := range qs {
				if s := m.learnQid(objs[i], q.Path); s != "" {
					return s
				}
			}
			return ""
		}), Apply: func(r refcodec.Msg) {
			if isOK(r) {
				m.Fids[newfid] = &Fid{Obj: target, Path: append(append([]string{}, f.Path...), names...)}
			}
		}}

	case refcodec.Tclunk:
		fid := uint32(req.U("fid"))
		f := m.Fids[fid]
		if f == nil {
			return bad(fid)
		}
		exp := ok(nil)
		if f.XCreate || f.Unknown {
			exp = either("clunk of a fid with a pending xattr create: reports the outcome of the xattr operation")
		}
		return Outcome{Expect: exp, Apply: func(r refcodec.Msg) {
			if f.XCreate && isOK(r) && !f.Unknown {
				if f.XFlags == 2 && f.XSize == 0 {
					delete(f.Obj.Xattrs, f.XName)
				} else {
					f.Obj.Xattrs[f.XName] = append([]byte{}, f.XData...)
				}
			}
			delete(m.Fids, fid) // always unbinds
		}}

	case refcodec.Tremove:
		fid := uint32(req.U("fid"))
		f := m.Fids[fid]
		if f == nil {
			return bad(fid)
		}
		unbind := func() { delete(m.Fids, fid) }
		if f.Unknown || f.XWalk {
			return Outcome{Expect: either("remove through an xattr / undefined fid"), Apply: func(r refcodec.Msg) { unbind() }}
		}
		if len(f.Path) == 0 {
			return Outcome{Expect: anyErr("remove of the root"), NoBackend: true, Apply: func(refcodec.Msg) { unbind() }}
		}
		if f.Fenced {
			return Outcome{Expect: errno("remove of a deleted file", EINVAL), NoBackend: true, Apply: func(refcodec.Msg) { unbind() }}
		}
		parent := m.resolve(f.Path[:len(f.Path)-1])
		name := f.Path[len(f.Path)-1]
		path := append([]string{}, f.Path...)
		if e := m.unlinkErr(parent, name); e != "" {
			return Outcome{Expect: anyErr(e), Apply: func(refcodec.Msg) { unbind() }}
		}
		return Outcome{Expect: ok(nil), Apply: func(r refcodec.Msg) {
			if isOK(r) {
				m.detach(parent.Children[name])
				delete(parent.Children, name)
				m.fence(path)
			}
			unbind()
		}}

	case refcodec.Tlopen:
		f := get("fid")
		if f == nil {
			return bad(uint32(req.U("fid")))
		}
		mode := uint32(req.U("flags")) & 3
		if f.Unknown || f.XWalk || f.XCreate {
			return Outcome{Expect: either("open of an xattr / undefined fid"), Apply: func(r refcodec.Msg) {
				if isOK(r) {
					f.Unknown = true
				}
			}}
		}
		if f.Fenced {
			return Outcome{Expect: errno("open of a deleted file", EINVAL), NoBackend: true, Apply: nop}
		}
		if f.Opened {
			return Outcome{Expect: anyErr("a fid opens at most once"), NoBackend: true, Apply: nop}
		}
		if !f.Obj.Openable {
			return Outcome{Expect: anyErr("this file type cannot be opened"), NoBackend: true, Apply: nop}
		}
		if f.Obj.Kind == KDir && mode != 0 {
			return Outcome{Expect: errno("directories open read-only", EISDIR), NoBackend: true, Apply: nop}
		}
		return Outcome{Expect: ok(func(r refcodec.Msg) string { return m.learnQid(f.Obj, r.U("qid.path")) }), Apply: func(r refcodec.Msg) {
			if isOK(r) {
				f.Opened, f.Mode = true, mode
			}
		}}

	case refcodec.Tlcreate, refcodec.Tucreate:
		fid := uint32(req.U("fid"))
		f := m.Fids[fid]
		if f == nil {
			return bad(fid)
		}
		if o := m.dirChecks(f, "create"); o != nil {
			o.Apply = func(r refcodec.Msg) {
				if isOK(r) {
					f.Unknown = true
				}
			}
			return *o
		}
		name := req.S("name")
		if _, exists := f.Obj.Children[name]; exists {
			return Outcome{Expect: anyErr("name exists"), Apply: nop}
		}
		mode := uint32(req.U("flags")) & 3
		return Outcome{Expect: ok(nil), Apply: func(r refcodec.Msg) {
			if isOK(r) {
				o := m.NewObj(KFile)
				o.NLink = 1
				f.Obj.Children[name] = o
				m.learnQid(o, r.U("qid.path"))
				// the fid is rebound to the created, already-open file
				m.Fids[fid] = &Fid{Obj: o, Path: append(append([]string{}, f.Path...), name), Opened: true, Mode: mode}
			}
		}}

	case refcodec.Tmkdir, refcodec.Tumkdir, refcodec.Tsymlink, refcodec.Tusymlink, refcodec.Tmknod, refcodec.Tumknod, refcodec.Tlink:
		f := get("dfid")
		if f == nil {
			return bad(uint32(req.U("dfid")))
		}
		var target *Fid
		if req.Type == refcodec.Tlink {
			target = get("fid")
			if target == nil {
				return bad(uint32(req.U("fid")))
			}
		}
		if o := m.dirChecks(f, "creating/linking"); o != nil {
			o.Apply = nop
			return *o
		}
		name := req.S("name")
		if _, exists := f.Obj.Children[name]; exists {
			return Outcome{Expect: anyErr("name exists"), Apply: nop}
		}
		if req.Type == refcodec.Tlink {
			if target.Unknown || target.XWalk {
				return Outcome{Expect: either("link to an xattr / undefined fid"), Apply: func(r refcodec.Msg) {
					if isOK(r) {
						m.Poisoned = true
					}
				}}
			}
			if target.Obj.Kind == KDir {
				return Outcome{Expect: anyErr("hard link to a directory"), Apply: nop}
			}
			// A fenced link target is not checked (text silent): either.
			exp := ok(nil)
			if target.Fenced {
				exp = either("link to a deleted file")
			}
			return Outcome{Expect: exp, Apply: func(r refcodec.Msg) {
				if isOK(r) {
					f.Obj.Children[name] = target.Obj
					target.Obj.NLink++
				}
			}}
		}
		return Outcome{Expect: ok(nil), Apply: func(r refcodec.Msg) {
			if isOK(r) {
				var o *Obj
				switch req.Type {
				case refcodec.Tmkdir, refcodec.Tumkdir:
					o = m.NewObj(KDir)
				case refcodec.Tsymlink, refcodec.Tusymlink:
					o = m.NewObj(KSymlink)
					o.Target = req.S("symtgt")
				default:
					o = m.NewObj(KOther)
					switch uint32(req.U("mode")) & 0o170000 {
					case 0o100000, 0:
						o.Kind, o.Openable = KFile, true
					case 0o10000, 0o60000, 0o20000:
						o.Openable = true
					}
				}
				o.NLink = 1
				f.Obj.Children[name] = o
				m.learnQid(o, r.U("qid.path"))
			}
		}}

	case refcodec.Tunlinkat:
		f := get("dirfd")
		if f == nil {
			return bad(uint32(req.U("dirfd")))
		}
		if o := m.dirChecks(f, "unlinking"); o != nil {
			o.Apply = nop
			return *o
		}
		name := req.S("name")
		if e := m.unlinkErr(f.Obj, name); e != "" {
			return Outcome{Expect: anyErr(e), Apply: nop}
		}
		path := append(append([]string{}, f.Path...), name)
		return Outcome{Expect: ok(nil), Apply: func(r refcodec.Msg) {
			if isOK(r) {
				m.detach(f.Obj.Children[name])
				delete(f.Obj.Children, name)
				m.fence(path)
			}
		}}

	case refcodec.Trenameat, refcodec.Trename:
		var src, dst *Fid
		var oldName, newName string
		var srcPath []string
		var srcDir *Obj
		if req.Type == refcodec.Trenameat {
			src, dst = get("olddirfid"), get("newdirfid")
			if src == nil {
				return bad(uint32(req.U("olddirfid")))
			}
			if dst == nil {
				return bad(uint32(req.U("newdirfid")))
			}
			oldName, newName = req.S("oldname"), req.S("newname")
			if src.Unknown || src.XWalk || dst.Unknown || dst.XWalk {
				return Outcome{Expect: either("rename through an xattr / undefined fid"), Apply: m.adoptRename(src, dst, oldName, newName)}
			}
			if src.Obj.Kind != KDir || dst.Obj.Kind != KDir {
				return Outcome{Expect: anyErr("rename between non-directories"), NoBackend: true, Apply: nop}
			}
			if src.Fenced || dst.Fenced {
				return Outcome{Expect: errno("rename across a deleted directory", EINVAL), NoBackend: true, Apply: nop}
			}
			if src.Opened {
				return Outcome{Expect: errno("renaming inside an opened directory fid", EBUSY, EINVAL), NoBackend: true, Apply: nop}
			}
			srcDir, srcPath = src.Obj, src.Path
		} else {
			f := get("fid")
			dst = get("dfid")
			if f == nil {
				return bad(uint32(req.U("fid")))
			}
			if dst == nil {
				return bad(uint32(req.U("dfid")))
			}
			newName = req.S("name")
			if f.Unknown || f.XWalk || dst.Unknown || dst.XWalk {
				return Outcome{Expect: either("rename through an xattr / undefined fid"), Apply: func(r refcodec.Msg) {
					if isOK(r) {
						f.Unknown = true
					}
				}}
			}
			if len(f.Path) == 0 {
				return Outcome{Expect: anyErr("rename of the root"), NoBackend: true, Apply: nop}
			}
			if f.Fenced || dst.Fenced {
				return Outcome{Expect: errno("rename of / into a deleted path", EINVAL), NoBackend: true, Apply: nop}
			}
			if dst.Obj.Kind != KDir {
				return Outcome{Expect: anyErr("rename into a non-directory"), NoBackend: true, Apply: nop}
			}
			srcPath = f.Path[:len(f.Path)-1]
			srcDir = m.resolve(srcPath)
			oldName = f.Path[len(f.Path)-1]
			src = nil
		}
		dstOpenedDontCare := dst.Opened // an opened target directory is let through on purpose: don't-care
		if srcDir == dst.Obj && oldName == newName {
			return Outcome{Expect: ok(nil), Apply: nop}
		}
		obj := srcDir.Children[oldName]
		why := ""
		switch {
		case obj == nil:
			why = "source does not exist"
		default:
			if old, exists := dst.Obj.Children[newName]; exists && old != obj {
				if old.Kind == KDir && obj.Kind != KDir || old.Kind != KDir && obj.Kind == KDir {
					why = "type mismatch with existing target"
				} else if old.Kind == KDir && len(old.Children) > 0 && !m.AllowNonEmptyRmdir {
					why = "target directory not empty"
				}
			}
			if why == "" && obj.Kind == KDir && m.below(obj, dst.Obj) {
				why = "moving a directory below itself"
			}
			if old, exists := dst.Obj.Children[newName]; why == "" && exists && old != obj && old.Kind == KDir && m.below(old, obj) {
				why = "target is an ancestor of the source"
			}
		}
		if why != "" {
			return Outcome{Expect: anyErr(why), Apply: nop}
		}
		exp := ok(nil)
		if dstOpenedDontCare {
			exp = either("rename into an opened directory fid")
		}
		from := append(append([]string{}, srcPath...), oldName)
		to := append(append([]string{}, dst.Path...), newName)
		dstObj := dst.Obj
		if old, exists := dstObj.Children[newName]; exists && old == obj {
			// Two links of one object renamed onto each other: POSIX makes it
			// a no-op; what the fids at those paths denote afterwards is not
			// something the texts decide.
			return Outcome{Expect: either("rename of a hard link onto another link of the same object"), Apply: func(r refcodec.Msg) {
				for _, f := range m.Fids {
					if prefix(from, f.Path) || prefix(to, f.Path) {
						f.Unknown = true
					}
				}
			}}
		}
		return Outcome{Expect: exp, Apply: func(r refcodec.Msg) {
			if !isOK(r) {
				return
			}
			if old, exists := dstObj.Children[newName]; exists && old != obj {
				m.detach(old)
				m.fence(to)
			} else if exists && old == obj {
				return // same object (hard links): nothing moves
			}
			delete(srcDir.Children, oldName)
			dstObj.Children[newName] = obj
			m.moved(from, to)
		}}

	case refcodec.Tgetattr:
		f := get("fid")
		if f == nil {
			return bad(uint32(req.U("fid")))
		}
		if f.Unknown || f.XWalk {
			return Outcome{Expect: either("getattr on an xattr / undefined fid"), Apply: nop}
		}
		return Outcome{Expect: ok(func(r refcodec.Msg) string { return m.learnQid(f.Obj, r.U("qid.path")) }), Apply: nop}

	case refcodec.Tsetattr:
		f := get("fid")
		if f == nil {
			return bad(uint32(req.U("fid")))
		}
		if f.Unknown || f.XWalk {
			return Outcome{Expect: either("setattr on an xattr / undefined fid"), Apply: nop}
		}
		if f.Fenced {
			return Outcome{Expect: errno("setattr on a deleted file", EINVAL), NoBackend: true, Apply: nop}
		}
		return Outcome{Expect: ok(nil), Apply: func(r refcodec.Msg) {
			if isOK(r) && uint32(req.U("valid"))&8 != 0 && f.Obj.Kind != KDir {
				sz := int(req.U("size"))
				if sz <= len(f.Obj.Data) {
					f.Obj.Data = f.Obj.Data[:sz]
				} else if sz < 1<<20 {
					f.Obj.Data = append(f.Obj.Data, make([]byte, sz-len(f.Obj.Data))...)
				}
			}
		}}

	case refcodec.Treadlink:
		f := get("fid")
		if f == nil {
			return bad(uint32(req.U("fid")))
		}
		if f.Unknown || f.XWalk {
			return Outcome{Expect: either("readlink on an xattr / undefined fid"), Apply: nop}
		}
		if f.Obj.Kind != KSymlink {
			return Outcome{Expect: anyErr("readlink of a non-symlink"), NoBackend: true, Apply: nop}
		}
		if f.Fenced {
			return Outcome{Expect: errno("readlink of a deleted symlink", EINVAL), NoBackend: true, Apply: nop}
		}
		return Outcome{Expect: ok(func(r refcodec.Msg) string {
			if r.S("target") != f.Obj.Target {
				return fmt.Sprintf("target %q, model has %q", r.S("target"), f.Obj.Target)
			}
			return ""
		}), Apply: nop}

	case refcodec.Tread:
		f := get("fid")
		if f == nil {
			return bad(uint32(req.U("fid")))
		}
		off, count := req.U("offset"), req.U("count")
		if f.Unknown || f.XCreate {
			return Outcome{Expect: either("read on a fid in an undefined / xattr-create state"), Apply: nop}
		}
		if f.XWalk {
			// happy path of the read sub-protocol: data exact
			if count > 0 && off+count <= uint64(len(f.XBuf)) {
				want := f.XBuf[off : off+count]
				return Outcome{Expect: ok(func(r refcodec.Msg) string {
					if string(r.Get("data").([]byte)) != string(want) {
						return fmt.Sprintf("xattr data %q, model has %q", r.Get("data"), want)
					}
					return ""
				}), NoBackend: true, Apply: nop}
			}
			return Outcome{Expect: either("xattr read outside the value"), Apply: nop}
		}
		if !f.Opened {
			return Outcome{Expect: errno("read on an unopened fid", EINVAL), NoBackend: true, Apply: nop}
		}
		if f.Mode == 1 {
			return Outcome{Expect: errno("read on a fid opened write-only", EPERM), NoBackend: true, Apply: nop}
		}
		if f.Obj.Kind != KFile {
			return Outcome{Expect: either("read on an opened non-regular file"), Apply: nop}
		}
		return Outcome{Expect: ok(func(r refcodec.Msg) string {
			var want []byte
			if off < uint64(len(f.Obj.Data)) {
				want = f.Obj.Data[off:]
				if uint64(len(want)) > count {
					want = want[:count]
				}
			}
			if string(r.Get("data").([]byte)) != string(want) {
				return fmt.Sprintf("data %q, model has %q", r.Get("data"), want)
			}
			return ""
		}), Apply: nop}

	case refcodec.Twrite:
		f := get("fid")
		if f == nil {
			return bad(uint32(req.U("fid")))
		}
		off := req.U("offset")
		data := req.Get("data").([]byte)
		if f.Unknown || f.XWalk {
			return Outcome{Expect: either("write on an xattr-walk / undefined fid"), Apply: nop}
		}
		if f.XCreate {
			if off == uint64(len(f.XData)) && off+uint64(len(data)) <= f.XSize {
				return Outcome{Expect: ok(func(r refcodec.Msg) string {
					if r.U("count") != uint64(len(data)) {
						return fmt.Sprintf("count %d for %d bytes", r.U("count"), len(data))
					}
					return ""
				}), NoBackend: true, Apply: func(r refcodec.Msg) {
					if isOK(r) {
						f.XData = append(f.XData, data...)
					}
				}}
			}
			return Outcome{Expect: either("xattr write outside the announced size"), Apply: func(r refcodec.Msg) {
				if isOK(r) {
					f.Unknown = true
				}
			}}
		}
		if !f.Opened {
			return Outcome{Expect: errno("write on an unopened fid", EINVAL), NoBackend: true, Apply: nop}
		}
		if f.Mode == 0 {
			return Outcome{Expect: errno("write on a fid opened read-only", EPERM), NoBackend: true, Apply: nop}
		}
		if f.Obj.Kind != KFile {
			return Outcome{Expect: either("write on an opened non-regular file"), Apply: nop}
		}
		return Outcome{Expect: ok(func(r refcodec.Msg) string {
			if r.U("count") != uint64(len(data)) {
				return fmt.Sprintf("count %d for %d bytes", r.U("count"), len(data))
			}
			return ""
		}), Apply: func(r refcodec.Msg) {
			if isOK(r) {
				if need := int(off) + len(data); need > len(f.Obj.Data) {
					f.Obj.Data = append(f.Obj.Data, make([]byte, need-len(f.Obj.Data))...)
				}
				copy(f.Obj.Data[off:], data)
			}
		}}

	case refcodec.Treaddir:
		f := get("fid")
		if f == nil {
			return bad(uint32(req.U("fid")))
		}
		if f.Unknown || f.XCreate {
			return Outcome{Expect: either("readdir on an xattr-create / undefined fid"), Apply: nop}
		}
		if f.Obj.Kind != KDir {
			return Outcome{Expect: anyErr("readdir on a non-directory"), NoBackend: true, Apply: nop}
		}
		if !f.Opened {
			return Outcome{Expect: errno("readdir on an unopened fid", EINVAL), NoBackend: true, Apply: nop}
		}
		if f.Fenced {
			return Outcome{Expect: either("readdir on an opened directory that has been unlinked"), Apply: nop}
		}
		offset := req.U("offset")
		return Outcome{Expect: ok(func(r refcodec.Msg) string {
			var want []string
			for n := range f.Obj.Children {
				want = append(want, n)
			}
			sort.Strings(want)
			if offset < uint64(len(want)) {
				want = want[offset:]
			} else {
				want = nil
			}
			var got []string
			for _, d := range r.Get("entries").([]refcodec.Dirent) {
				got = append(got, d.Name)
			}
			// the reply may be cut to whole entries within count
			if len(got) > len(want) || strings.Join(got, "/") != strings.Join(want[:len(got)], "/") {
				return fmt.Sprintf("entries %v, model has %v", got, want)
			}
			return ""
		}), Apply: nop}

	case refcodec.Tfsync:
		f := get("fid")
		if f == nil {
			return bad(uint32(req.U("fid")))
		}
		if f.Unknown || f.XCreate {
			return Outcome{Expect: either("fsync on an xattr-create / undefined fid"), Apply: nop}
		}
		if !f.Opened {
			return Outcome{Expect: errno("fsync on an unopened fid", EINVAL), NoBackend: true, Apply: nop}
		}
		return Outcome{Expect: ok(nil), Apply: nop}

	case refcodec.Tstatfs, refcodec.Tlock:
		f := get("fid")
		if f == nil {
			return bad(uint32(req.U("fid")))
		}
		return Outcome{Expect: ok(nil), Apply: nop}

	case refcodec.Txattrwalk:
		f := get("fid")
		if f == nil {
			return bad(uint32(req.U("fid")))
		}
		newfid := uint32(req.U("newfid"))
		if f.Unknown || f.XWalk || f.XCreate {
			return Outcome{Expect: either("xattrwalk from an xattr / undefined fid"), Apply: func(r refcodec.Msg) {
				if isOK(r) {
					m.Poisoned = true
				}
			}}
		}
		if f.Fenced {
			return Outcome{Expect: errno("xattrwalk on a deleted file", EINVAL), NoBackend: true, Apply: nop}
		}
		name := req.S("name")
		var buf []byte
		if name == "" {
			var names []string
			for n := range f.Obj.Xattrs {
				names = append(names, n)
			}
			sort.Strings(names)
			buf = []byte(strings.Join(names, "\x00") + "\x00")
		} else {
			v, ok := f.Obj.Xattrs[name]
			if !ok {
				return Outcome{Expect: anyErr("attribute does not exist"), Apply: nop}
			}
			buf = v
		}
		return Outcome{Expect: ok(func(r refcodec.Msg) string {
			if r.U("size") != uint64(len(buf)) {
				return fmt.Sprintf("size %d, model has %d", r.U("size"), len(buf))
			}
			return ""
		}), Apply: func(r refcodec.Msg) {
			if isOK(r) {
				m.Fids[newfid] = &Fid{Obj: f.Obj, Path: append([]string{}, f.Path...), Fenced: f.Fenced, XWalk: true, XBuf: append([]byte{}, buf...)}
			}
		}}

	case refcodec.Txattrcreate:
		f := get("fid")
		if f == nil {
			return bad(uint32(req.U("fid")))
		}
		if f.Unknown || f.XWalk {
			return Outcome{Expect: either("xattrcreate on an xattr / undefined fid"), Apply: func(r refcodec.Msg) {
				if isOK(r) {
					f.Unknown = true
				}
			}}
		}
		if f.Fenced {
			return Outcome{Expect: errno("xattrcreate on a deleted file", EINVAL), NoBackend: true, Apply: nop}
		}
		return Outcome{Expect: ok(nil), NoBackend: true, Apply: func(r refcodec.Msg) {
			if isOK(r) {
				f.XCreate, f.XName, f.XSize, f.XFlags, f.XData = true, req.S("name"), req.U("attr_size"), uint32(req.U("flags")), nil
				// flags other than plain create/replace semantics, and an opened fid
				// turned into an xattr fid, are beyond the happy path
				if f.Opened {
					f.Unknown = true
				}
			}
		}}
	}
	return Outcome{Expect: either("request type outside the model"), Apply: nop}
}

func (m *Model) adoptRename(src, dst *Fid, oldName, newName string) func(refcodec.Msg) {
	return func(r refcodec.Msg) {
		if isOK(r) {
			m.Poisoned = true
		}
	}
}

func (m *Model) below(ancestor, o *Obj) bool {
	if ancestor == o {
		return true
	}
	for _, c := range ancestor.Children {
		if c.Kind == KDir && m.below(c, o) {
			return true
		}
	}
	return false
}

func (m *Model) unlinkErr(dir *Obj, name string) string {
	if dir == nil || dir.Children == nil {
		return "parent is not a directory"
	}
	o, ok := dir.Children[name]
	if !ok {
		return "name does not exist"
	}
	if o.Kind == KDir && len(o.Children) > 0 && !m.AllowNonEmptyRmdir {
		return "directory not empty"
	}
	return ""
}

// walkTarget follows names from o; every node walked FROM must be a directory.
func (m *Model) walkTarget(o *Obj, names []string) *Obj {
	cur := o
	for _, n := range names {
		if cur == nil || cur.Kind != KDir {
			return nil
		}
		cur = cur.Children[n]
	}
	return cur
}

func (m *Model) walkObjs(o *Obj, names []string) []*Obj {
	var out []*Obj
	cur := o
	for _, n := range names {
		cur = cur.Children[n]
		out = append(out, cur)
	}
	return out
}

// Key is a canonical rendering of the model state (fid numbers as they are;
// object ids renamed in tree order).
func (m *Model) Key() string {
	ids := map[*Obj]int{}
	var sb strings.Builder
	if m.Poisoned {
		return "poisoned"
	}
	var rec func(o *Obj, name string, depth int)
	rec = func(o *Obj, name string, depth int) {
		if _, seen := ids[o]; !seen {
			ids[o] = len(ids) + 1
		}
		fmt.Fprintf(&sb, "%d:%s#%d:k%d", depth, name, ids[o], o.Kind)
		if o.Kind != KDir {
			fmt.Fprintf(&sb, ":%q:%q", o.Data, o.Target)
		}
		var xs []string
		for k, v := range o.Xattrs {
			xs = append(xs, k+"="+string(v))
		}
		sort.Strings(xs)
		fmt.Fprintf(&sb, ":x%v;", xs)
		var names []string
		for n := range o.Children {
			names = append(names, n)
		}
		sort.Strings(names)
		for _, n := range names {
			rec(o.Children[n], n, depth+1)
		}
	}
	rec(m.Root, "/", 0)
	var fids []int
	for f := range m.Fids {
		fids = append(fids, int(f))
	}
	sort.Ints(fids)
	for _, fid := range fids {
		f := m.Fids[uint32(fid)]
		id, linked := ids[f.Obj]
		if !linked {
			id = -f.Obj.ID
		}
		fmt.Fprintf(&sb, "|f%d>%d@%s fen=%v op=%v/%d xw=%v:%q xc=%v:%s:%d:%d:%q unk=%v", fid, id, strings.Join(f.Path, "/"), f.Fenced, f.Opened, f.Mode, f.XWalk, f.XBuf, f.XCreate, f.XName, f.XSize, f.XFlags, f.XData, f.Unknown)
	}
	return sb.String()
}

// Cyclic reports whether the object tree contains a cycle (a model bug).
func (m *Model) Cyclic() bool {
	onPath := map[*Obj]bool{}
	var rec func(o *Obj) bool
	rec = func(o *Obj) bool {
		if onPath[o] {
			return true
		}
		onPath[o] = true
		for _, c := range o.Children {
			if rec(c) {
				return true
			}
		}
		delete(onPath, o)
		return false
	}
	return rec(m.Root)
}
