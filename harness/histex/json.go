package histex

import "encoding/json"

func jsonUnmarshal(b []byte, v interface{}) error { return json.Unmarshal(b, v) }
