// Package histex is the explicit-state history explorer (DESIGN.md §2.4):
// breadth-first search over request histories, successor = replay of the
// shortest history reaching a state on a FRESH real server + one request,
// every reply compared with the reference model, states de-duplicated by a
// canonical key made of the model state, the backend tree and the
// implementation's own path-tree shape.
package histex

import (
	"github.com/hugelgupf/p9/p9"

	"fmt"
	"runtime"
	"sort"
	"strings"
	"sync"

	"verif/harness/fw"
	"verif/harness/memfs"
	"verif/harness/oracle"
	"verif/harness/rawpeer"
	"verif/harness/refcodec"
	"verif/harness/refmodel"
	"verif/harness/sess"
)

// Config describes one exploration.
type Config struct {
	Name     string
	Tree     func() (*memfs.FS, *refmodel.Model)
	Alphabet []refcodec.Msg
	// Setup requests run (and must succeed) before every history.
	Setup    []refcodec.Msg
	MaxDepth int
	// ProbeFids sends a Tgetattr through every bound, well-defined fid after
	// the last step and checks identity (C08).
	ProbeFids bool
	// Fault, if set, is installed as the backend hook for the LAST request
	// of each history (C15 uses its own driver).
	Label func(m refcodec.Msg) string
}

// Issue is a violation found while executing one history.
type Issue struct {
	Fingerprint string
	Summary     string
}

type taskResult struct {
	key      string
	issues   []Issue
	steps    int
	replyCls string
	poisoned bool
}

func label(cfg *Config, m refcodec.Msg) string {
	if cfg.Label != nil {
		return cfg.Label(m)
	}
	return m.String()
}

func generalize(s string) string {
	var sb strings.Builder
	inNum := false
	for _, r := range s {
		if r >= '0' && r <= '9' {
			if !inNum {
				sb.WriteByte('#')
			}
			inNum = true
			continue
		}
		inNum = false
		sb.WriteRune(r)
	}
	out := sb.String()
	if len(out) > 200 {
		out = out[:200]
	}
	return out
}

// RunHistory executes one history on a fresh server and returns the state
// key after it and everything the oracles found at the LAST step (earlier
// steps were checked when they were last).
func RunHistory(cfg *Config, hist []int, checkAll bool) taskResult {
	fs, model := cfg.Tree()
	memfs.RecordSites = false
	srv := sess.NewServer(fs)
	s := sess.Connect(fs, srv, "h")
	s.Version(65536)
	var res taskResult
	for i, req := range cfg.Setup {
		req.Tag = uint16(900 + i)
		out := model.Step(req)
		reply := s.Do(req)
		if reply.Type == refcodec.Rlerror {
			panic("histex: setup request failed: " + req.String() + " -> " + reply.String())
		}
		if out.Apply != nil {
			out.Apply(reply)
		}
	}
	for i, idx := range hist {
		req := cfg.Alphabet[idx]
		req.Tag = uint16(i + 1)
		last := i == len(hist)-1
		out := model.Step(req)
		before := len(fs.Calls)
		nprob := len(fs.Problems)
		reply := s.Do(req)
		res.steps++
		if last || checkAll {
			if v := out.Expect.Verdict(req, reply); v != "" {
				res.issues = append(res.issues, Issue{"model|" + req.Name() + "|" + generalize(v), fmt.Sprintf("after %s: %s", histString(cfg, hist[:i]), v)})
			}
			if out.NoBackend && reply.Type == refcodec.Rlerror {
				for _, c := range fs.Calls[before:] {
					if c.Method != "Close" {
						res.issues = append(res.issues, Issue{"rejected-request-reached-backend|" + req.Name() + "|" + c.Method,
							fmt.Sprintf("after %s: %s was refused (%s) but the backend was called: %s on %s", histString(cfg, hist[:i]), label(cfg, req), out.Expect.Why, c.Method, c.Path)})
						break
					}
				}
			}
			for _, p := range fs.Problems[nprob:] {
				res.issues = append(res.issues, Issue{"backend|" + p.Kind + "|" + req.Name(), fmt.Sprintf("after %s, %s: backend noticed %s: %s", histString(cfg, hist[:i]), label(cfg, req), p.Kind, p.Detail)})
			}
			res.replyCls = fmt.Sprintf("%s:%s/%d", req.Name(), reply.Name(), rawpeer.Errno(reply))
		}
		if out.Apply != nil {
			out.Apply(reply)
		}
		if model.Cyclic() {
			panic("refmodel: cycle after " + histString(cfg, hist[:i+1]) + " reply " + reply.String())
		}
	}
	if cfg.ProbeFids {
		var fids []int
		for f := range model.Fids {
			fids = append(fids, int(f))
		}
		sort.Ints(fids)
		for _, fid := range fids {
			f := model.Fids[uint32(fid)]
			if f.Unknown || f.XWalk {
				continue
			}
			req := rawpeer.Tgetattr(uint16(1000+fid), uint32(fid))
			nprob := len(fs.Problems)
			out := model.Step(req)
			reply := s.Do(req)
			res.steps++
			if v := out.Expect.Verdict(req, reply); v != "" {
				res.issues = append(res.issues, Issue{"probe|" + generalize(v), fmt.Sprintf("after %s: probing fid %d: %s", histString(cfg, hist), fid, v)})
			}
			for _, p := range fs.Problems[nprob:] {
				res.issues = append(res.issues, Issue{"probe-backend|" + p.Kind, fmt.Sprintf("after %s: probing fid %d: backend noticed %s: %s", histString(cfg, hist), fid, p.Kind, p.Detail)})
			}
		}
	}
	// Quiescent-point invariants.
	for _, p := range srv.VerifCheckPathTree() {
		res.issues = append(res.issues, Issue{"path-tree|" + generalize(p), fmt.Sprintf("after %s: path tree inconsistent: %s", histString(cfg, hist), p)})
	}
	if !model.Poisoned {
		res.issues = append(res.issues, liveIssues(fs, model, cfg, hist)...)
	}
	// The key includes what the wire does not show of the server's fid tables
	// (open flags, pending xattr operation and the bytes accumulated for it):
	// a refused request that silently changes such state must not be merged
	// with the state before it.
	res.key = model.Key() + "\n" + fs.Dump() + "\n" + srv.VerifTreeShape() + "\n" + liveKey(fs) + "\n" + srv.VerifFidTables()
	srv.VerifForget()
	if model.Poisoned {
		res.key = "poisoned" // one terminal state: never expanded further
		res.poisoned = true
	}
	// Teardown: every handle closed exactly once.
	s.Hangup()
	s.WaitDone()
	for _, is := range oracle.LifecycleIssues(fs, true) {
		res.issues = append(res.issues, Issue{is.Fingerprint, fmt.Sprintf("after %s and disconnect: %s", histString(cfg, hist), is.Summary)})
	}
	for _, p := range fs.Problems {
		if p.Kind == "double-close" || p.Kind == "use-after-close" {
			res.issues = append(res.issues, Issue{"backend|" + p.Kind + "|at-any-point", fmt.Sprintf("history %s: %s", histString(cfg, hist), p.Detail)})
		}
	}
	return res
}

func liveKey(fs *memfs.FS) string {
	var parts []string
	for _, h := range fs.Handles {
		if h.Closed == 0 {
			parts = append(parts, fmt.Sprintf("%s#%d", h.PathString(), h.Ino.ID))
		}
	}
	sort.Strings(parts)
	return strings.Join(parts, ",")
}

// liveIssues compares the backend's live handles with what the session
// needs, judged from the backend's own view (DESIGN §4.0 C05): a live handle
// that no live handle names as its parent must be bound to a fid; every bound
// fid must have a live handle on its object.
func liveIssues(fs *memfs.FS, model *refmodel.Model, cfg *Config, hist []int) []Issue {
	var is []Issue
	isParent := map[*memfs.Handle]bool{}
	for _, h := range fs.Handles {
		if h.Closed == 0 && h.Parent != nil {
			isParent[h.Parent] = true
		}
	}
	live := map[uint64]int{}
	leaf := map[uint64]int{}
	for _, h := range fs.Handles {
		if h.Closed == 0 {
			live[h.Ino.ID]++
			if !isParent[h] {
				leaf[h.Ino.ID]++
			}
		}
	}
	need := map[uint64]int{}
	undefined := false
	for _, f := range model.Fids {
		q, ok := model.QidOf[f.Obj.ID]
		if !ok {
			undefined = true // object never shown: cannot map (e.g. attach target); skip the count check
			continue
		}
		need[q]++
	}
	if undefined {
		return nil
	}
	for ino, n := range need {
		if live[ino] < n {
			is = append(is, Issue{"lifecycle|file-closed-while-fid-bound", fmt.Sprintf("after %s: %d fids are bound to inode %d but only %d backend handles on it are open", histString(cfg, hist), n, ino, live[ino])})
		}
	}
	for ino, n := range leaf {
		if n > need[ino] {
			is = append(is, Issue{"lifecycle|file-leaked", fmt.Sprintf("after %s: %d open backend handles on inode %d are needed by nothing (%d fids bound to it)", histString(cfg, hist), n, ino, need[ino])})
		}
	}
	return is
}

func histString(cfg *Config, hist []int) string {
	if len(hist) == 0 {
		return "[]"
	}
	var parts []string
	for _, i := range hist {
		parts = append(parts, label(cfg, cfg.Alphabet[i]))
	}
	return "[" + strings.Join(parts, "; ") + "]"
}

// Params identifies one history for replay.
type Params struct {
	Config  string `json:"config"`
	History []int  `json:"history"`
	Text    string `json:"history_text"`
}

// Explore runs the BFS and folds results into rep.
func Explore(ctx *fw.Ctx, rep *fw.Report, cfg *Config) {
	// state keys include the server's fid tables (see RunHistory)
	p9.VerifTrackConns = true
	defer func() { p9.VerifTrackConns = false }()
	if ctx.Replay != nil {
		var p Params
		if err := jsonUnmarshal(ctx.Replay.Params, &p); err != nil || p.Config != cfg.Name {
			return
		}
		r := RunHistory(cfg, p.History, true)
		for _, is := range r.issues {
			rep.Violate(&fw.Violation{Fingerprint: is.Fingerprint, Summary: is.Summary, Scenario: cfg.Name, Params: fw.JSON(p)})
		}
		return
	}
	type item struct{ hist []int }
	seen := map[string]bool{}
	var mu sync.Mutex
	frontier := []item{{nil}}
	// the initial state
	r0 := RunHistory(cfg, nil, false)
	seen[r0.key] = true
	states, transitions := int64(1), int64(0)
	replyClasses := map[string]bool{}
	completed := 0
	workers := runtime.NumCPU()
	for depth := 1; depth <= cfg.MaxDepth && len(frontier) > 0; depth++ {
		type task struct {
			hist []int
		}
		tasks := make(chan task, 1024)
		var next []item
		var wg sync.WaitGroup
		expired := false
		for w := 0; w < workers; w++ {
			wg.Add(1)
			go func() {
				defer wg.Done()
				for t := range tasks {
					r := RunHistory(cfg, t.hist, false)
					mu.Lock()
					transitions++
					rep.Transitions += int64(r.steps)
					replyClasses[r.replyCls] = true
					for _, is := range r.issues {
						rep.Violate(&fw.Violation{Fingerprint: is.Fingerprint, Summary: is.Summary, Scenario: cfg.Name,
							Params: fw.JSON(Params{cfg.Name, t.hist, histString(cfg, t.hist)})})
					}
					if !seen[r.key] {
						seen[r.key] = true
						states++
						if !r.poisoned {
							next = append(next, item{t.hist})
						}
					}
					mu.Unlock()
				}
			}()
		}
	feed:
		for _, it := range frontier {
			for a := range cfg.Alphabet {
				if ctx.Expired() {
					expired = true
					break feed
				}
				h := append(append([]int{}, it.hist...), a)
				tasks <- task{h}
			}
		}
		close(tasks)
		wg.Wait()
		if expired {
			rep.NotExhaustive(fmt.Sprintf("%s: budget exhausted while expanding depth %d (depth %d completed)", cfg.Name, depth, completed))
			break
		}
		completed = depth
		// deterministic order of the next frontier
		sort.Slice(next, func(i, j int) bool { return less(next[i].hist, next[j].hist) })
		frontier = next
		if len(rep.Samples) < 4 && len(next) > 0 {
			rep.Sample(map[string]interface{}{"config": cfg.Name, "depth": depth, "a_new_state_reached_by": histString(cfg, next[len(next)/2].hist)})
		}
	}
	rep.States += states
	rep.Traces += transitions
	rep.Evaluations += transitions
	rep.Count(cfg.Name+"_states", states)
	rep.Count(cfg.Name+"_edges", transitions)
	rep.Count(cfg.Name+"_depth_completed", int64(completed))
	rep.Count(cfg.Name+"_alphabet", int64(len(cfg.Alphabet)))
	rep.Count(cfg.Name+"_frontier_left", int64(len(frontier)))
	for c := range replyClasses {
		rep.Distinct(cfg.Name + "|" + c)
	}
	if completed < cfg.MaxDepth && len(frontier) > 0 {
		rep.Exhaustive = false
	}
}

func less(a, b []int) bool {
	for i := 0; i < len(a) && i < len(b); i++ {
		if a[i] != b[i] {
			return a[i] < b[i]
		}
	}
	return len(a) < len(b)
}
