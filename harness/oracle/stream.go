// Package oracle holds oracles shared by several checks.
package oracle

import (
	"encoding/binary"
	"fmt"

	"verif/harness/refcodec"
	"verif/harness/vpipe"
	"verif/rt/vsched"
)

// Frame is one frame of a recorded byte stream.
type Frame struct {
	Off     int
	Raw     []byte
	Msg     refcodec.Msg
	Err     error        // decode error, if any
	First   vsched.Stamp // stamp of the Write call that carried the first byte
	Thread  int          // thread of that Write
	Threads map[int]bool // threads of all Write calls overlapping the frame
	Last    vsched.Stamp // stamp of the Write call that carried the last byte
}

// ParseStream splits everything written to p into frames.
func ParseStream(p *vpipe.Pipe) (frames []Frame, rest []byte, problems []string) {
	b := p.Written
	off := 0
	for len(b)-off >= 4 {
		n := int(binary.LittleEndian.Uint32(b[off:]))
		if n < 7 {
			problems = append(problems, fmt.Sprintf("frame at offset %d declares size %d", off, n))
			break
		}
		if off+n > len(b) {
			break
		}
		f := Frame{Off: off, Raw: b[off : off+n], Threads: map[int]bool{}}
		f.Msg, _, f.Err = refcodec.Decode(f.Raw)
		for _, w := range p.Writes {
			if w.N == 0 {
				continue
			}
			if w.Off < off+n && w.Off+w.N > off {
				f.Threads[w.Thread] = true
				if w.Off <= off && off < w.Off+w.N {
					f.First, f.Thread = w.Stamp, w.Thread
				}
				if w.Off <= off+n-1 && off+n-1 < w.Off+w.N {
					f.Last = w.Stamp
				}
				if w.Off < off || w.Off+w.N > off+n {
					problems = append(problems, fmt.Sprintf("a Write call of thread %d (%d bytes at %d) straddles the boundary of the frame at %d (size %d)", w.Thread, w.N, w.Off, off, n))
				}
			}
		}
		if len(f.Threads) > 1 {
			problems = append(problems, fmt.Sprintf("frame at offset %d (size %d) was written by %d different threads: not contiguous", off, n, len(f.Threads)))
		}
		frames = append(frames, f)
		off += n
	}
	return frames, b[off:], problems
}

// ReplyIssues checks the "exactly one tagged reply" clause: reqs are the
// decodable requests sent whose tag was not already in flight; frames is the
// server's byte stream. allowMissing lists tags for which a reply is not
// required (outside the property's statement).
func ReplyIssues(reqs []refcodec.Msg, frames []Frame, rest []byte, optional map[uint16]bool) []string {
	var out []string
	if len(rest) != 0 {
		out = append(out, fmt.Sprintf("server stream ends with %d bytes that do not form a frame", len(rest)))
	}
	want := map[uint16][]refcodec.Msg{}
	for _, r := range reqs {
		want[r.Tag] = append(want[r.Tag], r)
	}
	got := map[uint16][]Frame{}
	for _, f := range frames {
		if f.Err != nil {
			out = append(out, fmt.Sprintf("server emitted an undecodable frame at offset %d: %v (%x)", f.Off, f.Err, f.Raw))
			continue
		}
		got[f.Msg.Tag] = append(got[f.Msg.Tag], f)
	}
	for tag, fs := range got {
		ws := want[tag]
		if len(fs) > len(ws) {
			out = append(out, fmt.Sprintf("%d replies with tag %d for %d requests (unsolicited or duplicate): %v", len(fs), tag, len(ws), fs[len(fs)-1].Msg))
		}
		for i, f := range fs {
			if i >= len(ws) {
				break
			}
			// The k-th reply with a tag answers the k-th request with that tag.
			if f.Msg.Type != refcodec.Rlerror && f.Msg.Type != refcodec.ReplyType(ws[i].Type) {
				out = append(out, fmt.Sprintf("reply %v does not match request %v", f.Msg, ws[i]))
			}
		}
	}
	for tag, ws := range want {
		if len(got[tag]) < len(ws) && !optional[tag] {
			out = append(out, fmt.Sprintf("request %v got %d replies, want %d", ws[0], len(got[tag]), len(ws)))
		}
	}
	return out
}
