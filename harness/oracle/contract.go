package oracle

import (
	"fmt"
	"strings"

	"verif/harness/fw"
	"verif/harness/memfs"
	"verif/rt/vsched"
)

// siteFunc reduces "file.go:123(p9.func)" to "p9.func" (stable across edits).
func siteFunc(site string) string {
	if i := strings.Index(site, "("); i >= 0 {
		return strings.TrimSuffix(site[i+1:], ")")
	}
	return site
}

func concurrent(a, b *memfs.Call) bool {
	if a.Done && vsched.HB(&a.Exit, &b.Enter) {
		return false
	}
	if b.Done && vsched.HB(&b.Exit, &a.Enter) {
		return false
	}
	return true
}

func rw(c memfs.Class) bool { return c == memfs.ClassRead || c == memfs.ClassWrite }

// ContractIssues evaluates the File concurrency contract (conflict matrix
// transcribed from the comments on p9.File) over the happens-before relation
// of one execution: two backend calls that conflict must be ordered
// (exit of one happens-before enter of the other). Calls with Seq < base are
// ignored (setup).
func ContractIssues(fs *memfs.FS, base int) []fw.Issue {
	var is []fw.Issue
	calls := fs.Calls
	for i := base; i < len(calls); i++ {
		a := calls[i]
		if a.Enter.Thread < 0 {
			continue
		}
		for j := i + 1; j < len(calls); j++ {
			b := calls[j]
			if b.Enter.Thread < 0 || a.Thread == b.Thread {
				continue
			}
			rule := ""
			switch {
			case (a.Class == memfs.ClassGlobal && (rw(b.Class) || b.Class == memfs.ClassGlobal)) ||
				(b.Class == memfs.ClassGlobal && (rw(a.Class) || a.Class == memfs.ClassGlobal)):
				rule = "global-class call overlaps"
			case a.OnPath == b.OnPath && a.Handle >= 0 && b.Handle >= 0 &&
				((a.Class == memfs.ClassWrite && rw(b.Class)) || (b.Class == memfs.ClassWrite && rw(a.Class))):
				rule = "write-class call overlaps on the same path"
			case a.Method == "UnlinkAt" && rw(b.Class) && b.OnPath == a.Victim,
				b.Method == "UnlinkAt" && rw(a.Class) && a.OnPath == b.Victim:
				rule = "UnlinkAt overlaps with a call on the entry being removed"
			}
			if rule == "" || !concurrent(a, b) {
				continue
			}
			x, y := a, b
			if x.Method+siteFunc(x.Site) > y.Method+siteFunc(y.Site) {
				x, y = y, x
			}
			is = append(is, fw.Issue{
				Fingerprint: fmt.Sprintf("contract|%s|%s@%s|%s@%s", rule, x.Method, siteFunc(x.Site), y.Method, siteFunc(y.Site)),
				Summary: fmt.Sprintf("%s: %s(%s) on %s [%s, called from %s] is not ordered with %s(%s) on %s [%s, called from %s]",
					rule, a.Method, a.Class, a.OnPath, strings.Join(a.Names, ","), a.Site, b.Method, b.Class, b.OnPath, strings.Join(b.Names, ","), b.Site),
			})
		}
	}
	return is
}

// pathDependent: backend methods that a fenced fid (at or below an unlinked or
// overwritten path) must not reach (C08): everything except I/O on open
// handles, GetAttr, StatFS, Lock, clone, Renamed and Close.
var pathDependent = map[string]bool{"Walk": true, "WalkGetAttr": true, "Create": true, "Mkdir": true, "Symlink": true, "Link": true, "Mknod": true,
	"UnlinkAt": true, "RenameAt": true, "Rename": true, "Open": true, "SetAttr": true, "Readlink": true,
	"GetXattr": true, "ListXattrs": true, "SetXattr": true, "RemoveXattr": true}

// FenceIssues: once a path has been unlinked or overwritten (the backend call
// that did it has RETURNED, in happens-before), no path-dependent call may
// start on a handle at or below it.
func FenceIssues(fs *memfs.FS, base int) []fw.Issue {
	var is []fw.Issue
	for i := base; i < len(fs.Calls); i++ {
		c := fs.Calls[i]
		u := c.FencedBy
		if u == nil || !pathDependent[c.Method] || c.Enter.Thread < 0 || !u.Done || u.Exit.Thread < 0 {
			continue
		}
		if (c.Method == "Walk" || c.Method == "WalkGetAttr") && len(c.Names) == 0 {
			continue // clone
		}
		if !vsched.HB(&u.Exit, &c.Enter) {
			continue
		}
		is = append(is, fw.Issue{
			Fingerprint: fmt.Sprintf("fence|%s@%s after %s", c.Method, siteFunc(c.Site), u.Method),
			Summary: fmt.Sprintf("%s(%s) reached the backend through a fenced fid: handle %d at %s, whose path had been removed by %s(%s) that returned before (called from %s)",
				c.Method, strings.Join(c.Names, ","), c.Handle, c.Path, u.Method, strings.Join(u.Names, ","), c.Site),
		})
	}
	return is
}

// MemfsIssues turns what memfs itself noticed into issues.
func MemfsIssues(fs *memfs.FS) []fw.Issue {
	var is []fw.Issue
	for _, p := range fs.Problems {
		method, site := "", ""
		if p.Call >= 0 && p.Call < len(fs.Calls) {
			method, site = fs.Calls[p.Call].Method, siteFunc(fs.Calls[p.Call].Site)
		}
		is = append(is, fw.Issue{Fingerprint: fmt.Sprintf("backend|%s|%s@%s", p.Kind, method, site), Summary: "backend noticed " + p.Kind + ": " + p.Detail})
	}
	return is
}

// LifecycleIssues checks, over happens-before, that no call on a handle is
// concurrent with or after its Close, and (if final) that every handle was
// closed exactly once.
func LifecycleIssues(fs *memfs.FS, final bool) []fw.Issue {
	var is []fw.Issue
	for _, h := range fs.Handles {
		if h.Closed > 0 {
			for _, u := range h.LastUse {
				if u.Thread >= 0 && h.CloseStamp.Thread >= 0 && !vsched.HB(&u, &h.CloseStamp) {
					is = append(is, fw.Issue{Fingerprint: "lifecycle|call-not-ordered-before-close", Summary: fmt.Sprintf("a call on handle %d (%s) is not ordered before its Close (concurrent with or after it)", h.ID, h.PathString())})
					break
				}
			}
		}
		if final && h.Closed != 1 {
			is = append(is, fw.Issue{Fingerprint: fmt.Sprintf("lifecycle|closed-%d-times-at-end", min(h.Closed, 2)), Summary: fmt.Sprintf("handle %d (%s, created by call %d) was closed %d times by the end of the connection", h.ID, h.PathString(), h.Created, h.Closed)})
		}
	}
	return is
}

func min(a, b int) int {
	if a < b {
		return a
	}
	return b
}
