// Package refcodec is an independent statement of the 9P2000.L wire layout
// (plus the .Google.N extension messages), written from the protocol
// description (diod protocol.md / Linux net/9p/protocol.c format strings),
// interpreted by one small generic encoder/decoder. It shares no code with
// package p9.
package refcodec

import (
	"encoding/binary"
	"errors"
	"fmt"
)

// Field kinds.
const (
	U8    = '1'
	U16   = '2'
	U32   = '4'
	U64   = '8'
	Str   = 's'
	Names = 'N' // nwname[2] nwname*(wname[s])
	QIDs  = 'Q' // nwqid[2] nwqid*(qid[13])
	Data  = 'D' // count[4] data[count]
	Dirs  = 'E' // count[4] count bytes of entries: qid[13] offset[8] type[1] name[s]
)

// Field is one wire field.
type Field struct {
	Name string
	Kind byte
}

// Def is the layout of one message type.
type Def struct {
	Type   uint8
	Name   string
	Fields []Field
}

// QID is the 13-byte qid.
type QID struct {
	Type    uint8
	Version uint32
	Path    uint64
}

// Dirent is one entry of an Rreaddir payload.
type Dirent struct {
	QID    QID
	Offset uint64
	Type   uint8
	Name   string
}

// Msg is a decoded frame: Vals is parallel to the type's Fields and holds
// uint64, string, []string, []QID, []byte or []Dirent.
type Msg struct {
	Type uint8
	Tag  uint16
	Vals []interface{}
}

func f(spec ...string) []Field {
	var out []Field
	for i := 0; i+1 < len(spec); i += 2 {
		out = append(out, Field{spec[i], spec[i+1][0]})
	}
	return out
}

func cat(a []Field, b ...[]Field) []Field {
	out := append([]Field(nil), a...)
	for _, x := range b {
		out = append(out, x...)
	}
	return out
}

func qid(prefix string) []Field {
	return f(prefix+".type", "1", prefix+".version", "4", prefix+".path", "8")
}

var attrFields = f("mode", "4", "uid", "4", "gid", "4", "nlink", "8", "rdev", "8", "size", "8", "blksize", "8", "blocks", "8",
	"atime_sec", "8", "atime_nsec", "8", "mtime_sec", "8", "mtime_nsec", "8", "ctime_sec", "8", "ctime_nsec", "8",
	"btime_sec", "8", "btime_nsec", "8", "gen", "8", "data_version", "8")

// Message type numbers.
const (
	Rlerror      = 7
	Tstatfs      = 8
	Rstatfs      = 9
	Tlopen       = 12
	Rlopen       = 13
	Tlcreate     = 14
	Rlcreate     = 15
	Tsymlink     = 16
	Rsymlink     = 17
	Tmknod       = 18
	Rmknod       = 19
	Trename      = 20
	Rrename      = 21
	Treadlink    = 22
	Rreadlink    = 23
	Tgetattr     = 24
	Rgetattr     = 25
	Tsetattr     = 26
	Rsetattr     = 27
	Txattrwalk   = 30
	Rxattrwalk   = 31
	Txattrcreate = 32
	Rxattrcreate = 33
	Treaddir     = 40
	Rreaddir     = 41
	Tfsync       = 50
	Rfsync       = 51
	Tlock        = 52
	Rlock        = 53
	Tlink        = 70
	Rlink        = 71
	Tmkdir       = 72
	Rmkdir       = 73
	Trenameat    = 74
	Rrenameat    = 75
	Tunlinkat    = 76
	Runlinkat    = 77
	Tversion     = 100
	Rversion     = 101
	Tauth        = 102
	Rauth        = 103
	Tattach      = 104
	Rattach      = 105
	Tflush       = 108
	Rflush       = 109
	Twalk        = 110
	Rwalk        = 111
	Tread        = 116
	Rread        = 117
	Twrite       = 118
	Rwrite       = 119
	Tclunk       = 120
	Rclunk       = 121
	Tremove      = 122
	Rremove      = 123
	Twalkgetattr = 126
	Rwalkgetattr = 127
	Tucreate     = 128
	Rucreate     = 129
	Tumkdir      = 130
	Rumkdir      = 131
	Tumknod      = 132
	Rumknod      = 133
	Tusymlink    = 134
	Rusymlink    = 135
)

// Defs is the layout table, indexed by type number.
var Defs = map[uint8]*Def{}

func def(t uint8, name string, fields []Field) { Defs[t] = &Def{t, name, fields} }

func init() {
	lopen := cat(qid("qid"), f("iounit", "4"))
	lcreate := f("fid", "4", "name", "s", "flags", "4", "mode", "4", "gid", "4")
	symlink := f("dfid", "4", "name", "s", "symtgt", "s", "gid", "4")
	mknod := f("dfid", "4", "name", "s", "mode", "4", "major", "4", "minor", "4", "gid", "4")
	mkdir := f("dfid", "4", "name", "s", "mode", "4", "gid", "4")
	uid := f("uid", "4")

	def(Rlerror, "Rlerror", f("ecode", "4"))
	def(Tstatfs, "Tstatfs", f("fid", "4"))
	def(Rstatfs, "Rstatfs", f("type", "4", "bsize", "4", "blocks", "8", "bfree", "8", "bavail", "8", "files", "8", "ffree", "8", "fsid", "8", "namelen", "4"))
	def(Tlopen, "Tlopen", f("fid", "4", "flags", "4"))
	def(Rlopen, "Rlopen", lopen)
	def(Tlcreate, "Tlcreate", lcreate)
	def(Rlcreate, "Rlcreate", lopen)
	def(Tsymlink, "Tsymlink", symlink)
	def(Rsymlink, "Rsymlink", qid("qid"))
	def(Tmknod, "Tmknod", mknod)
	def(Rmknod, "Rmknod", qid("qid"))
	def(Trename, "Trename", f("fid", "4", "dfid", "4", "name", "s"))
	def(Rrename, "Rrename", nil)
	def(Treadlink, "Treadlink", f("fid", "4"))
	def(Rreadlink, "Rreadlink", f("target", "s"))
	def(Tgetattr, "Tgetattr", f("fid", "4", "request_mask", "8"))
	def(Rgetattr, "Rgetattr", cat(f("valid", "8"), qid("qid"), attrFields))
	def(Tsetattr, "Tsetattr", f("fid", "4", "valid", "4", "mode", "4", "uid", "4", "gid", "4", "size", "8", "atime_sec", "8", "atime_nsec", "8", "mtime_sec", "8", "mtime_nsec", "8"))
	def(Rsetattr, "Rsetattr", nil)
	def(Txattrwalk, "Txattrwalk", f("fid", "4", "newfid", "4", "name", "s"))
	def(Rxattrwalk, "Rxattrwalk", f("size", "8"))
	def(Txattrcreate, "Txattrcreate", f("fid", "4", "name", "s", "attr_size", "8", "flags", "4"))
	def(Rxattrcreate, "Rxattrcreate", nil)
	def(Treaddir, "Treaddir", f("fid", "4", "offset", "8", "count", "4"))
	def(Rreaddir, "Rreaddir", f("entries", "E"))
	def(Tfsync, "Tfsync", f("fid", "4"))
	def(Rfsync, "Rfsync", nil)
	def(Tlock, "Tlock", f("fid", "4", "type", "1", "flags", "4", "start", "8", "length", "8", "proc_id", "4", "client_id", "s"))
	def(Rlock, "Rlock", f("status", "1"))
	def(Tlink, "Tlink", f("dfid", "4", "fid", "4", "name", "s"))
	def(Rlink, "Rlink", nil)
	def(Tmkdir, "Tmkdir", mkdir)
	def(Rmkdir, "Rmkdir", qid("qid"))
	def(Trenameat, "Trenameat", f("olddirfid", "4", "oldname", "s", "newdirfid", "4", "newname", "s"))
	def(Rrenameat, "Rrenameat", nil)
	def(Tunlinkat, "Tunlinkat", f("dirfd", "4", "name", "s", "flags", "4"))
	def(Runlinkat, "Runlinkat", nil)
	def(Tversion, "Tversion", f("msize", "4", "version", "s"))
	def(Rversion, "Rversion", f("msize", "4", "version", "s"))
	def(Tauth, "Tauth", f("afid", "4", "uname", "s", "aname", "s", "n_uname", "4"))
	def(Rauth, "Rauth", qid("aqid"))
	def(Tattach, "Tattach", f("fid", "4", "afid", "4", "uname", "s", "aname", "s", "n_uname", "4"))
	def(Rattach, "Rattach", qid("qid"))
	def(Tflush, "Tflush", f("oldtag", "2"))
	def(Rflush, "Rflush", nil)
	def(Twalk, "Twalk", f("fid", "4", "newfid", "4", "wnames", "N"))
	def(Rwalk, "Rwalk", f("wqids", "Q"))
	def(Tread, "Tread", f("fid", "4", "offset", "8", "count", "4"))
	def(Rread, "Rread", f("data", "D"))
	def(Twrite, "Twrite", f("fid", "4", "offset", "8", "data", "D"))
	def(Rwrite, "Rwrite", f("count", "4"))
	def(Tclunk, "Tclunk", f("fid", "4"))
	def(Rclunk, "Rclunk", nil)
	def(Tremove, "Tremove", f("fid", "4"))
	def(Rremove, "Rremove", nil)
	// .Google.N extensions.
	def(Twalkgetattr, "Twalkgetattr", f("fid", "4", "newfid", "4", "wnames", "N"))
	def(Rwalkgetattr, "Rwalkgetattr", cat(f("valid", "8"), attrFields, f("wqids", "Q")))
	def(Tucreate, "Tucreate", cat(lcreate, uid))
	def(Rucreate, "Rucreate", lopen)
	def(Tumkdir, "Tumkdir", cat(mkdir, uid))
	def(Rumkdir, "Rumkdir", qid("qid"))
	def(Tumknod, "Tumknod", cat(mknod, uid))
	def(Rumknod, "Rumknod", qid("qid"))
	def(Tusymlink, "Tusymlink", cat(symlink, uid))
	def(Rusymlink, "Rusymlink", qid("qid"))
}

// ReplyType returns the R type matching a T type.
func ReplyType(t uint8) uint8 { return t + 1 }

// IsT reports whether t is a request type in the table.
func IsT(t uint8) bool { _, ok := Defs[t]; return ok && t%2 == 0 && t != Rlerror }

// Get returns the named field's value.
func (m *Msg) Get(name string) interface{} {
	d := Defs[m.Type]
	for i, fd := range d.Fields {
		if fd.Name == name {
			return m.Vals[i]
		}
	}
	panic(fmt.Sprintf("refcodec: %s has no field %s", d.Name, name))
}

// U returns the named integer field.
func (m *Msg) U(name string) uint64 { return m.Get(name).(uint64) }

// S returns the named string field.
func (m *Msg) S(name string) string { return m.Get(name).(string) }

// Name returns the message type name.
func (m *Msg) Name() string {
	if d, ok := Defs[m.Type]; ok {
		return d.Name
	}
	return fmt.Sprintf("type%d", m.Type)
}

func (m Msg) String() string {
	d, ok := Defs[m.Type]
	if !ok {
		return fmt.Sprintf("type%d[tag %d]", m.Type, m.Tag)
	}
	s := fmt.Sprintf("%s[tag %d]{", d.Name, m.Tag)
	for i, fd := range d.Fields {
		if i > 0 {
			s += " "
		}
		switch v := m.Vals[i].(type) {
		case []byte:
			if len(v) > 16 {
				s += fmt.Sprintf("%s=<%d bytes>", fd.Name, len(v))
			} else {
				s += fmt.Sprintf("%s=%x", fd.Name, v)
			}
		case string:
			if len(v) > 32 {
				s += fmt.Sprintf("%s=<%d-byte string>", fd.Name, len(v))
			} else {
				s += fmt.Sprintf("%s=%q", fd.Name, v)
			}
		default:
			s += fmt.Sprintf("%s=%v", fd.Name, v)
		}
	}
	return s + "}"
}

// New builds a message from values given in field order. Integers may be
// given as any Go integer type.
func New(t uint8, tag uint16, vals ...interface{}) Msg {
	d, ok := Defs[t]
	if !ok {
		panic(fmt.Sprintf("refcodec: unknown type %d", t))
	}
	if len(vals) != len(d.Fields) {
		panic(fmt.Sprintf("refcodec: %s takes %d values, got %d", d.Name, len(d.Fields), len(vals)))
	}
	out := make([]interface{}, len(vals))
	for i, v := range vals {
		switch d.Fields[i].Kind {
		case U8, U16, U32, U64:
			out[i] = toU64(v)
		default:
			out[i] = v
		}
	}
	return Msg{Type: t, Tag: tag, Vals: out}
}

func toU64(v interface{}) uint64 {
	switch x := v.(type) {
	case uint64:
		return x
	case uint32:
		return uint64(x)
	case uint16:
		return uint64(x)
	case uint8:
		return uint64(x)
	case int:
		return uint64(x)
	case int64:
		return uint64(x)
	case int32:
		return uint64(uint32(x))
	case uint:
		return uint64(x)
	}
	panic(fmt.Sprintf("refcodec: not an integer: %T", v))
}

var le = binary.LittleEndian

func putStr(b []byte, s string) []byte {
	b = le.AppendUint16(b, uint16(len(s)))
	return append(b, s...)
}

func putQID(b []byte, q QID) []byte {
	b = append(b, q.Type)
	b = le.AppendUint32(b, q.Version)
	return le.AppendUint64(b, q.Path)
}

// EncodeDirents renders directory entries as an Rreaddir payload.
func EncodeDirents(ds []Dirent) []byte {
	var b []byte
	for _, d := range ds {
		b = putQID(b, d.QID)
		b = le.AppendUint64(b, d.Offset)
		b = append(b, d.Type)
		b = putStr(b, d.Name)
	}
	return b
}

// DirentSize is the encoded size of one entry with the given name.
func DirentSize(name string) int { return 13 + 8 + 1 + 2 + len(name) }

// Encode renders a complete frame: size[4] type[1] tag[2] body.
func Encode(m Msg) []byte {
	d := Defs[m.Type]
	b := make([]byte, 7, 64)
	b[4] = m.Type
	le.PutUint16(b[5:], m.Tag)
	for i, fd := range d.Fields {
		v := m.Vals[i]
		switch fd.Kind {
		case U8:
			b = append(b, uint8(v.(uint64)))
		case U16:
			b = le.AppendUint16(b, uint16(v.(uint64)))
		case U32:
			b = le.AppendUint32(b, uint32(v.(uint64)))
		case U64:
			b = le.AppendUint64(b, v.(uint64))
		case Str:
			b = putStr(b, v.(string))
		case Names:
			ns := v.([]string)
			b = le.AppendUint16(b, uint16(len(ns)))
			for _, n := range ns {
				b = putStr(b, n)
			}
		case QIDs:
			qs := v.([]QID)
			b = le.AppendUint16(b, uint16(len(qs)))
			for _, q := range qs {
				b = putQID(b, q)
			}
		case Data:
			p := v.([]byte)
			b = le.AppendUint32(b, uint32(len(p)))
			b = append(b, p...)
		case Dirs:
			p := EncodeDirents(v.([]Dirent))
			b = le.AppendUint32(b, uint32(len(p)))
			b = append(b, p...)
		}
	}
	le.PutUint32(b, uint32(len(b)))
	return b
}

// Errors of Decode.
var (
	ErrShort       = errors.New("refcodec: frame shorter than its fields")
	ErrUnknownType = errors.New("refcodec: unknown message type")
	ErrSize        = errors.New("refcodec: size field does not match frame length")
	ErrCount       = errors.New("refcodec: inconsistent count")
)

type reader struct {
	b   []byte
	err error
}

func (r *reader) take(n int) []byte {
	if r.err != nil || n < 0 || len(r.b) < n {
		r.err = ErrShort
		return nil
	}
	x := r.b[:n]
	r.b = r.b[n:]
	return x
}
func (r *reader) u8() uint64 {
	if x := r.take(1); x != nil {
		return uint64(x[0])
	}
	return 0
}
func (r *reader) u16() uint64 {
	if x := r.take(2); x != nil {
		return uint64(le.Uint16(x))
	}
	return 0
}
func (r *reader) u32() uint64 {
	if x := r.take(4); x != nil {
		return uint64(le.Uint32(x))
	}
	return 0
}
func (r *reader) u64() uint64 {
	if x := r.take(8); x != nil {
		return le.Uint64(x)
	}
	return 0
}
func (r *reader) str() string {
	n := int(r.u16())
	return string(r.take(n))
}
func (r *reader) qid() QID {
	return QID{uint8(r.u8()), uint32(r.u32()), r.u64()}
}

// DecodeDirents parses an Rreaddir payload.
func DecodeDirents(p []byte) ([]Dirent, error) {
	r := &reader{b: p}
	var out []Dirent
	for len(r.b) > 0 && r.err == nil {
		var d Dirent
		d.QID = r.qid()
		d.Offset = r.u64()
		d.Type = uint8(r.u8())
		d.Name = r.str()
		if r.err == nil {
			out = append(out, d)
		}
	}
	return out, r.err
}

// Decode parses one complete frame. Trailing holds bytes of the body that no
// field accounts for (tolerated by some receivers).
func Decode(frame []byte) (m Msg, trailing int, err error) {
	if len(frame) < 7 {
		return m, 0, ErrShort
	}
	if int(le.Uint32(frame)) != len(frame) {
		return m, 0, ErrSize
	}
	m.Type = frame[4]
	m.Tag = le.Uint16(frame[5:])
	d, ok := Defs[m.Type]
	if !ok {
		return m, 0, ErrUnknownType
	}
	r := &reader{b: frame[7:]}
	for _, fd := range d.Fields {
		var v interface{}
		switch fd.Kind {
		case U8:
			v = r.u8()
		case U16:
			v = r.u16()
		case U32:
			v = r.u32()
		case U64:
			v = r.u64()
		case Str:
			v = r.str()
		case Names:
			n := int(r.u16())
			ns := []string{}
			for i := 0; i < n && r.err == nil; i++ {
				ns = append(ns, r.str())
			}
			v = ns
		case QIDs:
			n := int(r.u16())
			qs := []QID{}
			for i := 0; i < n && r.err == nil; i++ {
				qs = append(qs, r.qid())
			}
			v = qs
		case Data:
			n := int(r.u32())
			// the payload is the rest of the frame; the count must agree
			if r.err == nil && n != len(r.b) {
				return m, 0, ErrCount
			}
			v = append([]byte(nil), r.take(n)...)
		case Dirs:
			n := int(r.u32())
			if r.err == nil && n != len(r.b) {
				return m, 0, ErrCount
			}
			ds, derr := DecodeDirents(r.take(n))
			if derr != nil && r.err == nil {
				r.err = derr
			}
			v = ds
		}
		m.Vals = append(m.Vals, v)
	}
	if r.err != nil {
		return m, 0, r.err
	}
	return m, len(r.b), nil
}

// Frames splits a byte stream into complete frames; rest is what remains.
func Frames(stream []byte) (frames [][]byte, rest []byte) {
	for len(stream) >= 4 {
		n := int(le.Uint32(stream))
		if n < 7 || n > len(stream) {
			break
		}
		frames = append(frames, stream[:n])
		stream = stream[n:]
	}
	return frames, stream
}
