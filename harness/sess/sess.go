// Package sess sets up a real p9.Server over a vpipe with a memfs backend and
// a raw peer, for scenarios.
package sess

import (
	"fmt"

	"github.com/hugelgupf/p9/p9"
	"verif/harness/memfs"
	"verif/harness/rawpeer"
	"verif/harness/refcodec"
	"verif/harness/vpipe"
	"verif/rt/vsched"
)

// Sess is one connection to a server.
type Sess struct {
	FS   *memfs.FS
	Srv  *p9.Server
	Peer *rawpeer.Peer
	CC   *vpipe.Conn // client end
	SC   *vpipe.Conn // server end
	// HandleReturned is set when Server.Handle returned.
	HandleReturned bool
	HandleStamp    vsched.Stamp
	tag            uint16
	done           chan struct{}
}

// NewServer creates a server over fs.
func NewServer(fs *memfs.FS) *p9.Server { return p9.NewServer(fs) }

// Connect opens a new connection to srv and starts Handle in its own thread.
func Connect(fs *memfs.FS, srv *p9.Server, name string) *Sess {
	cc, sc := vpipe.NewConnPair(name)
	s := &Sess{FS: fs, Srv: srv, CC: cc, SC: sc, Peer: rawpeer.New(cc), done: make(chan struct{})}
	vsched.GoNamed("handle:"+name, func() {
		srv.Handle(sc, sc)
		s.HandleStamp = vsched.MakeStamp()
		s.HandleReturned = true
		if vsched.Free() {
			close(s.done)
		}
	})
	return s
}

// Tag returns a fresh tag.
func (s *Sess) Tag() uint16 {
	s.tag++
	return s.tag
}

// Version negotiates msize and the highest version.
func (s *Sess) Version(msize uint32) {
	r := s.Do(rawpeer.Tversion(rawpeer.NoTag, msize, "9P2000.L.Google.7"))
	if r.Type != refcodec.Rversion {
		panic(fmt.Sprintf("sess: version: %v", r))
	}
}

// Do is a lock-step request that must not fail at the transport level.
func (s *Sess) Do(m refcodec.Msg) refcodec.Msg {
	r := s.Peer.Must(m)
	if !vsched.Exploring() {
		vsched.Quiesce()
	}
	return r
}

// OK is Do that panics on Rlerror (setup steps).
func (s *Sess) OK(m refcodec.Msg) refcodec.Msg {
	r := s.Do(m)
	if r.Type == refcodec.Rlerror {
		panic(fmt.Sprintf("sess: setup request %v failed: %v", m, r))
	}
	return r
}

// Attach binds fid to the root.
func (s *Sess) Attach(fid uint32) { s.OK(rawpeer.Tattach(s.Tag(), fid, "")) }

// Walk binds newfid by walking names from fid.
func (s *Sess) Walk(fid, newfid uint32, names ...string) {
	s.OK(rawpeer.Twalk(s.Tag(), fid, newfid, names...))
}

// Open opens fid.
func (s *Sess) Open(fid uint32, flags uint32) { s.OK(rawpeer.Tlopen(s.Tag(), fid, flags)) }

// Hangup closes the client end.
func (s *Sess) Hangup() { s.CC.Close() }

// WaitDone blocks until Server.Handle has returned for this connection. In
// free mode it must be called before any controlled execution starts, so
// that no free-running goroutine is left behind.
func (s *Sess) WaitDone() {
	if vsched.Free() {
		<-s.done
		return
	}
	vsched.StepWhen(vsched.Op{Label: "wait-handle-return"}, func() bool { return s.HandleReturned })
}
