package fw

import (
	"fmt"
	"os"
	"sort"
	"strings"
	"time"

	"github.com/hugelgupf/p9/fsimpl/localfs"
	"github.com/hugelgupf/p9/p9"
	"verif/rt/vrt"
	"verif/rt/vsched"
)

// Issue is a property violation found by a scenario's oracle.
type Issue struct {
	Fingerprint string
	Summary     string
	Detail      []string
}

// Scenario is one closed concurrent program explored exhaustively.
type Scenario struct {
	Name   string
	Params interface{}
	// New returns a fresh body (run as thread 0) and the oracle evaluated
	// after the execution ended. The oracle returns issues and an outcome
	// signature (for counting distinct outcomes).
	New func() (body func(), check func(e *vsched.Execution) ([]Issue, string))
	// DeadlockOK: a deadlock is not automatically a violation (the oracle
	// inspects e.End itself).
	DeadlockOK bool
	// RaceOK: happens-before races on recorded state are not reported.
	RaceOK bool
}

// SchedOpts configure RunScenario.
type SchedOpts struct {
	Budget          time.Duration // per scenario, for the primary (DPOR) mode
	Horizon         int
	Fallback        []int // preemption bounds tried if DPOR does not finish
	ForcePB         int   // >=0: skip DPOR and use this preemption bound (-1: DPOR)
	SkipDPOR        bool  // go straight to the preemption bounds in Fallback
	DefaultSchedule bool  // enumerate data choices only; threads follow the default schedule
	NoReplayCheck   bool  // skip the per-scenario determinism replays (bulk single-run scenarios do their own sampling)
	Wide            bool  // preemption-bounded search of this scenario is sliced over all worker processes
	Deviations      int   // bound for cost-bearing data choices (-1 unbounded)
	MaxExec         int64
}

// ResetGlobals brings process-wide state of the packages under test back to
// its initial value; called at the start of every execution.
func ResetGlobals() {
	p9.VerifResetGlobals()
	localfs.VerifResetQids()
	vrt.ResetExecution()
}

// stripLine turns "file.go:Func:123" into "file.go:Func".
func stripLine(site string) string {
	if i := strings.LastIndex(site, ":"); i > 0 && strings.Count(site, ":") >= 2 {
		return site[:i]
	}
	return site
}

func normBlocked(s string) string {
	// Fingerprint a deadlock by its cause: a thread blocked on a lock it holds
	// itself, or else the set of distinct blocking operations (without pipe
	// reads and harness joins, which are merely waiting for the stuck server).
	set := map[string]bool{}
	for _, part := range strings.Split(s, "; ") {
		part = strings.TrimSpace(part)
		i := strings.Index(part, "@")
		if i < 0 {
			continue
		}
		lbl := strings.Fields(part[i+1:])[0]
		if strings.Contains(lbl, "held-by-self") {
			return "self-deadlock:" + lbl
		}
		if strings.HasPrefix(lbl, "pipe.") || strings.HasPrefix(lbl, "join") || strings.HasPrefix(lbl, "wait-") || lbl == "quiesce" {
			continue
		}
		set[lbl] = true
	}
	var out []string
	for l := range set {
		out = append(out, l)
	}
	sort.Strings(out)
	return strings.Join(out, ",")
}

// builtinIssues turns the scheduler's own detectors into issues.
func builtinIssues(sc *Scenario, e *vsched.Execution) []Issue {
	var is []Issue
	for _, p := range e.Panics {
		first := strings.SplitN(p, "\n", 2)[0]
		if i := strings.Index(first, "panic:"); i >= 0 {
			first = first[i:]
		}
		is = append(is, Issue{Fingerprint: "panic|" + first, Summary: "a thread panicked: " + first, Detail: strings.Split(p, "\n")})
	}
	if !sc.RaceOK {
		for _, r := range e.Races {
			a, b := stripLine(r.A), stripLine(r.B)
			if a > b {
				a, b = b, a
			}
			is = append(is, Issue{Fingerprint: fmt.Sprintf("hb-race|%s|%s|%s", stripLine(r.Obj), a, b),
				Summary: fmt.Sprintf("happens-before data race on %s between %s and %s", r.Obj, r.A, r.B)})
		}
	}
	if e.End == vsched.EndDeadlock && !sc.DeadlockOK {
		is = append(is, Issue{Fingerprint: "deadlock|" + normBlocked(e.Blocked), Summary: "deadlock: no thread can run; blocked: " + e.Blocked})
	}
	for _, f := range e.Fails {
		is = append(is, Issue{Fingerprint: "fail|" + f, Summary: f})
	}
	return is
}

// RunScenario explores one scenario and folds the result into rep.
func RunScenario(ctx *Ctx, rep *Report, sc *Scenario, o SchedOpts) {
	if ctx.Filter != "" && !strings.Contains(sc.Name, ctx.Filter) {
		return
	}
	if o.Horizon == 0 {
		o.Horizon = 5000
	}
	var check func(e *vsched.Execution) ([]Issue, string)
	mkBody := func() func() {
		body, c := sc.New()
		check = c
		return func() {
			ResetGlobals()
			body()
		}
	}
	var body func()
	wrapped := func() { body() }

	if ctx.Replay != nil {
		if ctx.Replay.Scenario != sc.Name {
			return
		}
		body = mkBody()
		e := vsched.Replay(vsched.Options{Horizon: o.Horizon, Trace: true, ExploreAll: false, DefaultSchedule: o.DefaultSchedule}, ctx.Replay.Choices, wrapped)
		issues := builtinIssues(sc, e)
		ci, _ := check(e)
		issues = append(issues, ci...)
		for _, is := range issues {
			rep.Violate(&Violation{Fingerprint: is.Fingerprint, Summary: is.Summary, Scenario: sc.Name, Detail: is.Detail, Log: e.Log})
		}
		return
	}

	outcomes := map[string]bool{}
	run := func(mode vsched.Mode, pb int, deadline time.Time) *vsched.Stats {
		vo := vsched.Options{Mode: mode, PreemptionBound: pb, DeviationBound: o.Deviations, Horizon: o.Horizon, Deadline: deadline, MaxExecutions: o.MaxExec, DefaultSchedule: o.DefaultSchedule}
		if o.Wide && mode == vsched.ModePB && ctx.NShards > 1 {
			vo.SliceDepth, vo.SliceIndex, vo.SliceCount = 40, ctx.Shard, ctx.NShards
		}
		ex := vsched.NewExplorer(vo)
		first := true
		st := ex.Explore(func() { body = mkBody(); body() }, func(e *vsched.Execution) bool {
			if e.End == vsched.EndSleepBlocked || e.End == vsched.EndPruned {
				return true
			}
			issues := builtinIssues(sc, e)
			ci, outcome := check(e)
			issues = append(issues, ci...)
			if e.End == vsched.EndHorizon {
				rep.NotExhaustive(fmt.Sprintf("%s: step horizon %d hit", sc.Name, o.Horizon))
			}
			if !outcomes[outcome] {
				outcomes[outcome] = true
				rep.Distinct(sc.Name + "|" + outcome)
			}
			if first && o.NoReplayCheck {
				first = false
				if len(rep.Samples) < 3 {
					rep.Sample(map[string]interface{}{"scenario": sc.Name, "params": sc.Params, "end": e.End.String(), "outcome": Short(outcome, 300)})
				}
			}
			if first {
				first = false
				// Determinism protocol: the first schedule, replayed twice,
				// must give identical event logs.
				ch := ex.Choices()
				var logs [2]string
				for i := 0; i < 2; i++ {
					body = mkBody()
					re := vsched.Replay(vsched.Options{Horizon: o.Horizon, Trace: true, DefaultSchedule: o.DefaultSchedule}, ch, wrapped)
					logs[i] = strings.Join(re.Log, "\n")
				}
				if logs[0] != logs[1] {
					panic(fmt.Sprintf("fw: scenario %s is not deterministic under replay", sc.Name))
				}
				rep.Count("determinism_replays", 2)
				if len(rep.Samples) < 3 {
					s := map[string]interface{}{"scenario": sc.Name, "params": sc.Params, "first_schedule_steps": e.Steps, "end": e.End.String(), "outcome": Short(outcome, 300)}
					rep.Sample(s)
				}
			}
			for _, is := range issues {
				if rep.Seen(is.Fingerprint) {
					continue
				}
				// Re-execute 5x from the choice list before believing it.
				ch := ex.Choices()
				ok := 0
				var lastLog []string
				for i := 0; i < 5; i++ {
					body = mkBody()
					re := vsched.Replay(vsched.Options{Horizon: o.Horizon, Trace: i == 0, DefaultSchedule: o.DefaultSchedule}, ch, wrapped)
					ri := builtinIssues(sc, re)
					ci2, _ := check(re)
					ri = append(ri, ci2...)
					for _, x := range ri {
						if x.Fingerprint == is.Fingerprint {
							ok++
							break
						}
					}
					if i == 0 {
						lastLog = re.Log
					}
				}
				if ok != 5 {
					panic(fmt.Sprintf("fw: violation %q of scenario %s reproduced only %d/5 times", is.Fingerprint, sc.Name, ok))
				}
				if len(lastLog) > 400 {
					lastLog = lastLog[len(lastLog)-400:]
				}
				rep.Violate(&Violation{Fingerprint: is.Fingerprint, Summary: is.Summary, Scenario: sc.Name, Params: JSON(sc.Params),
					Choices: ch, Mode: mode.String(), Detail: is.Detail, Log: lastLog, Confirmed: 5})
			}
			return true
		})
		rep.mu.Lock()
		rep.Traces += st.Executions
		rep.Evaluations += st.Executions
		rep.Transitions += st.Transitions
		rep.Counters["executions_complete"] += st.Complete
		rep.Counters["executions_deadlocked"] += st.Deadlocks
		rep.Counters["executions_sleep_blocked"] += st.SleepBlocked
		if int64(st.MaxDepth) > rep.Counters["max_depth"] {
			rep.Counters["max_depth"] = int64(st.MaxDepth)
		}
		if int64(st.MaxThreads) > rep.Counters["max_threads"] {
			rep.Counters["max_threads"] = int64(st.MaxThreads)
		}
		rep.mu.Unlock()
		if ctx.Verbose {
			fmt.Fprintf(os.Stderr, "  %-50s %s pb=%d exec=%d complete=%d sleepblocked=%d deadlock=%d depth=%d exhaustive=%v outcomes=%d\n", sc.Name, mode, pb, st.Executions, st.Complete, st.SleepBlocked, st.Deadlocks, st.MaxDepth, st.Exhaustive, len(outcomes))
		}
		return st
	}

	deadline := time.Now().Add(o.Budget)
	if deadline.After(ctx.Deadline) {
		deadline = ctx.Deadline
	}
	rep.Count("scenarios", 1)
	if o.ForcePB < 0 && !o.SkipDPOR {
		st := run(vsched.ModeDPOR, 0, deadline)
		if st.Exhaustive {
			rep.mu.Lock()
			rep.States += st.Complete + st.Deadlocks
			rep.mu.Unlock()
			rep.Count("scenarios_dpor_complete", 1)
			return
		}
		rep.Count("scenarios_dpor_capped", 1)
	}
	// Fallback: iterative preemption bounding without reduction.
	bounds := o.Fallback
	if o.ForcePB >= 0 {
		bounds = []int{o.ForcePB}
	}
	completed := -1
	for _, pb := range bounds {
		d := time.Now().Add(o.Budget)
		if d.After(ctx.Deadline) {
			d = ctx.Deadline
		}
		st := run(vsched.ModePB, pb, d)
		if !st.Exhaustive {
			break
		}
		completed = pb
	}
	rep.mu.Lock()
	rep.States += int64(len(outcomes))
	rep.mu.Unlock()
	if completed >= 0 && o.SkipDPOR && completed == bounds[len(bounds)-1] {
		// The stated bound was the goal and it was completed.
		rep.Count(fmt.Sprintf("scenarios_pb%d_complete", completed), 1)
	} else if completed >= 0 {
		rep.Count(fmt.Sprintf("scenarios_pb%d_complete", completed), 1)
		rep.NotExhaustive(fmt.Sprintf("%s: unbounded exploration not completed; preemption bound %d completed", sc.Name, completed))
	} else {
		rep.NotExhaustive(fmt.Sprintf("%s: no exploration mode completed in budget", sc.Name))
	}
}
