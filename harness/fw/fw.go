// Package fw is the common frame of every check: command line, sharding over
// worker processes, evidence files, violation artefacts, known findings and
// exit codes (DESIGN.md §3).
package fw

import (
	"crypto/sha1"
	"encoding/json"
	"flag"
	"fmt"
	"os"
	"os/exec"
	"path/filepath"
	"runtime"
	"runtime/pprof"
	"sort"
	"strings"
	"sync"
	"time"

	"verif/rt/vsched"
)

// Ctx is what a check's Run function gets.
type Ctx struct {
	Prop     string
	Tier     string // quick | thorough
	Seed     int64
	Shard    int
	NShards  int
	Deadline time.Time // soft deadline for exploration
	Start    time.Time
	Replay   *Violation
	Filter   string // optional scenario name substring
	Verbose  bool
}

// Quick reports whether this is the quick tier.
func (c *Ctx) Quick() bool { return c.Tier != "thorough" }

// Mine reports whether scenario index i belongs to this shard.
func (c *Ctx) Mine(i int) bool { return c.NShards <= 1 || i%c.NShards == c.Shard }

// Expired reports whether the soft deadline has passed.
func (c *Ctx) Expired() bool { return time.Now().After(c.Deadline) }

// Violation is one property violation with everything needed to replay it.
type Violation struct {
	Property    string             `json:"property"`
	Fingerprint string             `json:"fingerprint"`
	Summary     string             `json:"summary"`
	Scenario    string             `json:"scenario"`
	Params      json.RawMessage    `json:"params,omitempty"`
	Choices     []vsched.ChoiceRec `json:"choices,omitempty"`
	Mode        string             `json:"mode,omitempty"`
	Detail      []string           `json:"detail,omitempty"`
	Log         []string           `json:"log,omitempty"`
	Confirmed   int                `json:"confirmed_reruns"`
	Tier        string             `json:"tier,omitempty"` // the tier that found it: alphabets and grids depend on it
	Path        string             `json:"-"`
}

// Report accumulates what a run covered.
type Report struct {
	mu                 sync.Mutex
	Prop               string                 `json:"prop"`
	States             int64                  `json:"states"`
	Transitions        int64                  `json:"transitions"`
	Traces             int64                  `json:"traces"`
	Evaluations        int64                  `json:"evaluations"`
	DistinctNontrivial int64                  `json:"distinct_nontrivial"`
	Rule               string                 `json:"rule"`
	Samples            []interface{}          `json:"samples"`
	Exhaustive         bool                   `json:"exhaustive"`
	NotExhaustiveWhy   []string               `json:"not_exhaustive_why,omitempty"`
	Counters           map[string]int64       `json:"counters,omitempty"`
	Info               map[string]interface{} `json:"info,omitempty"`
	Assumptions        []string               `json:"assumptions,omitempty"`
	Violations         []*Violation           `json:"violations,omitempty"`
	DistinctKeys       []string               `json:"distinct_keys,omitempty"` // worker -> parent: hashes of the distinct cases
	seenFP             map[string]bool
	distinct           map[string]bool
}

// NewReport creates an empty report that is exhaustive until told otherwise.
func NewReport(prop string) *Report {
	return &Report{Prop: prop, Exhaustive: true, Counters: map[string]int64{}, Info: map[string]interface{}{}, seenFP: map[string]bool{}, distinct: map[string]bool{}}
}

// Count adds to a named counter.
func (r *Report) Count(name string, d int64) {
	r.mu.Lock()
	r.Counters[name] += d
	r.mu.Unlock()
}

// Distinct records a distinct non-trivial case by key; returns true if new.
func (r *Report) Distinct(key string) bool {
	r.mu.Lock()
	defer r.mu.Unlock()
	{
		h := sha1.Sum([]byte(key))
		key = fmt.Sprintf("%x", h[:8])
	}
	if r.distinct[key] {
		return false
	}
	r.distinct[key] = true
	r.DistinctNontrivial++
	return true
}

// Sample keeps up to a few written-out cases.
func (r *Report) Sample(s interface{}) {
	r.mu.Lock()
	if len(r.Samples) < 6 {
		r.Samples = append(r.Samples, s)
	}
	r.mu.Unlock()
}

// NotExhaustive marks the run as capped.
func (r *Report) NotExhaustive(why string) {
	r.mu.Lock()
	r.Exhaustive = false
	if len(r.NotExhaustiveWhy) < 20 {
		r.NotExhaustiveWhy = append(r.NotExhaustiveWhy, why)
	}
	r.mu.Unlock()
}

// Violate records a violation (deduplicated by fingerprint). It returns true
// if the fingerprint is new.
func (r *Report) Violate(v *Violation) bool {
	r.mu.Lock()
	defer r.mu.Unlock()
	if r.seenFP[v.Fingerprint] {
		return false
	}
	r.seenFP[v.Fingerprint] = true
	v.Property = r.Prop
	r.Violations = append(r.Violations, v)
	return true
}

// Seen reports whether a fingerprint was already recorded.
func (r *Report) Seen(fp string) bool {
	r.mu.Lock()
	defer r.mu.Unlock()
	return r.seenFP[fp]
}

func (r *Report) merge(o *Report) {
	r.States += o.States
	r.Transitions += o.Transitions
	r.Traces += o.Traces
	r.Evaluations += o.Evaluations
	if len(o.DistinctKeys) > 0 {
		for _, k := range o.DistinctKeys {
			if !r.distinct[k] {
				r.distinct[k] = true
				r.DistinctNontrivial++
			}
		}
	} else {
		r.DistinctNontrivial += o.DistinctNontrivial
	}
	if o.Rule != "" {
		r.Rule = o.Rule
	}
	for _, s := range o.Samples {
		if len(r.Samples) < 8 {
			r.Samples = append(r.Samples, s)
		}
	}
	if !o.Exhaustive {
		r.Exhaustive = false
	}
	for _, w := range o.NotExhaustiveWhy {
		if len(r.NotExhaustiveWhy) < 20 {
			r.NotExhaustiveWhy = append(r.NotExhaustiveWhy, w)
		}
	}
	for k, v := range o.Counters {
		if strings.HasPrefix(k, "max_") {
			if v > r.Counters[k] {
				r.Counters[k] = v
			}
			continue
		}
		r.Counters[k] += v
	}
	for k, v := range o.Info {
		r.Info[k] = v
	}
	for _, a := range o.Assumptions {
		found := false
		for _, b := range r.Assumptions {
			if a == b {
				found = true
			}
		}
		if !found {
			r.Assumptions = append(r.Assumptions, a)
		}
	}
	for _, v := range o.Violations {
		if !r.seenFP[v.Fingerprint] {
			r.seenFP[v.Fingerprint] = true
			r.Violations = append(r.Violations, v)
		}
	}
}

// Prop is a registered check.
type Prop struct {
	ID           string
	Level        string // evidence level
	Run          func(ctx *Ctx, rep *Report)
	Sharded      bool // run in NumCPU worker processes
	QuickSecs    int  // soft exploration budget per tier
	ThoroughSecs int
}

var registry = map[string]*Prop{}

// Register adds a check.
func Register(p *Prop) { registry[p.ID] = p }

// Finding is an entry of known_findings.json.
type Finding struct {
	Property    string `json:"property"`
	Fingerprint string `json:"fingerprint"`
	Status      string `json:"status"` // known | fixed
	Commit      string `json:"commit,omitempty"`
	Description string `json:"description"`
}

func loadFindings(root string) []Finding {
	b, err := os.ReadFile(filepath.Join(root, "known_findings.json"))
	if err != nil {
		return nil
	}
	var f struct {
		Findings []Finding `json:"findings"`
	}
	if err := json.Unmarshal(b, &f); err != nil {
		fmt.Fprintf(os.Stderr, "known_findings.json: %v\n", err)
		os.Exit(2)
	}
	return f.Findings
}

// Main is the harness entry point.
func Main() {
	var (
		prop    = flag.String("prop", "", "property id")
		tier    = flag.String("tier", envOr("VERIF_TIER", "quick"), "quick|thorough")
		seed    = flag.Int64("seed", envInt("VERIF_SEED", 1), "seed")
		shard   = flag.Int("shard", -1, "worker shard index (internal)")
		nshards = flag.Int("nshards", 0, "number of shards (internal)")
		replay  = flag.String("replay", "", "replay a violation artefact")
		root    = flag.String("root", "/verif", "verif root")
		filter  = flag.String("filter", "", "only scenarios whose name contains this")
		workers = flag.Int("workers", 0, "worker processes (default: NumCPU)")
		budget  = flag.Int("budget", 0, "override soft exploration budget in seconds")
		verbose = flag.Bool("v", false, "verbose")
		cpuprof = flag.String("cpuprofile", "", "write a CPU profile (single process runs)")
	)
	flag.Parse()
	if *cpuprof != "" {
		f, err := os.Create(*cpuprof)
		if err == nil {
			pprof.StartCPUProfile(f)
			defer pprof.StopCPUProfile()
		}
	}
	p, ok := registry[*prop]
	if !ok {
		var ids []string
		for id := range registry {
			ids = append(ids, id)
		}
		sort.Strings(ids)
		fmt.Fprintf(os.Stderr, "unknown property %q; have %v\n", *prop, ids)
		os.Exit(2)
	}
	if *tier != "quick" && *tier != "thorough" {
		*tier = "quick"
	}
	secs := p.QuickSecs
	if *tier == "thorough" {
		secs = p.ThoroughSecs
	}
	if secs == 0 {
		secs = 60
	}
	if *budget > 0 {
		secs = *budget
	}
	start := time.Now()
	ctx := &Ctx{Prop: p.ID, Tier: *tier, Seed: *seed, Start: start, Deadline: start.Add(time.Duration(secs) * time.Second), Filter: *filter, Verbose: *verbose}

	if *replay != "" {
		b, err := os.ReadFile(*replay)
		if err != nil {
			fmt.Fprintln(os.Stderr, err)
			os.Exit(2)
		}
		var v Violation
		if err := json.Unmarshal(b, &v); err != nil {
			fmt.Fprintln(os.Stderr, err)
			os.Exit(2)
		}
		ctx.Replay = &v
		if v.Tier != "" {
			ctx.Tier = v.Tier // replay under the tier that found it
		}
		rep := NewReport(p.ID)
		p.Run(ctx, rep)
		for _, nv := range rep.Violations {
			fmt.Printf("REPRODUCED fingerprint=%s\n  %s\n", nv.Fingerprint, nv.Summary)
			for _, d := range nv.Detail {
				fmt.Println("   ", d)
			}
			if nv.Fingerprint == v.Fingerprint {
				os.Exit(1)
			}
		}
		fmt.Println("not reproduced")
		os.Exit(0)
	}

	if *shard >= 0 {
		// Worker: run the shard and print the partial report as JSON.
		runtime.GOMAXPROCS(1)
		ctx.Shard, ctx.NShards = *shard, *nshards
		rep := NewReport(p.ID)
		p.Run(ctx, rep)
		if len(rep.distinct) <= 200000 {
			for k := range rep.distinct {
				rep.DistinctKeys = append(rep.DistinctKeys, k)
			}
		}
		enc := json.NewEncoder(os.Stdout)
		if err := enc.Encode(rep); err != nil {
			fmt.Fprintln(os.Stderr, err)
			os.Exit(2)
		}
		return
	}

	rep := NewReport(p.ID)
	if p.Sharded {
		n := *workers
		if n == 0 {
			n = runtime.NumCPU()
		}
		var wg sync.WaitGroup
		parts := make([]*Report, n)
		errs := make([]error, n)
		for i := 0; i < n; i++ {
			wg.Add(1)
			go func(i int) {
				defer wg.Done()
				args := []string{"-prop", p.ID, "-tier", *tier, "-seed", fmt.Sprint(*seed), "-shard", fmt.Sprint(i), "-nshards", fmt.Sprint(n), "-root", *root}
				if *filter != "" {
					args = append(args, "-filter", *filter)
				}
				if *budget > 0 {
					args = append(args, "-budget", fmt.Sprint(*budget))
				}
				if *verbose {
					args = append(args, "-v")
				}
				cmd := exec.Command(os.Args[0], args...)
				cmd.Stderr = os.Stderr
				out, err := cmd.Output()
				if err != nil {
					errs[i] = fmt.Errorf("worker %d: %v", i, err)
					return
				}
				var r Report
				if err := json.Unmarshal(out, &r); err != nil {
					errs[i] = fmt.Errorf("worker %d: bad output: %v", i, err)
					return
				}
				parts[i] = &r
			}(i)
		}
		wg.Wait()
		for _, e := range errs {
			if e != nil {
				fmt.Fprintln(os.Stderr, "infrastructure error:", e)
				os.Exit(2)
			}
		}
		for _, r := range parts {
			rep.merge(r)
		}
		rep.Info["workers"] = n
	} else {
		ctx.Shard, ctx.NShards = 0, 1
		p.Run(ctx, rep)
	}
	rc := finish(ctx, p, rep, *root)
	pprof.StopCPUProfile()
	os.Exit(rc)
}

func envOr(k, d string) string {
	if v := os.Getenv(k); v != "" {
		return v
	}
	return d
}

func envInt(k string, d int64) int64 {
	var x int64
	if _, err := fmt.Sscan(os.Getenv(k), &x); err == nil {
		return x
	}
	return d
}

func finish(ctx *Ctx, p *Prop, rep *Report, root string) int {
	findings := loadFindings(root)
	known := map[string]*Finding{}
	for i := range findings {
		f := &findings[i]
		if f.Property == p.ID && f.Status == "known" {
			known[f.Fingerprint] = f
		}
	}
	unknown := 0
	os.MkdirAll(filepath.Join(root, "violations"), 0o755)
	var knownHit []string
	printed := map[*Finding]bool{}
	for _, v := range rep.Violations {
		f, ok := known[v.Fingerprint]
		if !ok {
			for pat, kf := range known {
				if strings.Contains(pat, "<*>") && globMatch(pat, v.Fingerprint) {
					f, ok = kf, true
					break
				}
			}
		}
		if ok {
			knownHit = append(knownHit, v.Fingerprint)
			if printed[f] {
				continue
			}
			printed[f] = true
			fmt.Printf("KNOWN-FINDING: property=%s %s [%s]\n", p.ID, f.Description, v.Fingerprint)
			continue
		}
		unknown++
		h := sha1.Sum([]byte(v.Fingerprint))
		path := filepath.Join(root, "violations", fmt.Sprintf("%s-%x.json", p.ID, h[:6]))
		v.Tier = ctx.Tier
		b, _ := json.MarshalIndent(v, "", " ")
		os.WriteFile(path, b, 0o644)
		fmt.Printf("VIOLATION property=%s replay=%s\n", p.ID, path)
		fmt.Printf("  fingerprint: %s\n  %s\n", v.Fingerprint, v.Summary)
		for i, d := range v.Detail {
			if i < 12 {
				fmt.Println("   ", d)
			}
		}
	}
	// Evidence.
	level := p.Level
	if level == "" {
		level = "model_checking"
	}
	cov := map[string]interface{}{
		"states":                        max64(rep.States, 1),
		"transitions":                   max64(rep.Transitions, 1),
		"traces_validated_against_impl": rep.Traces,
		"evaluations":                   rep.Evaluations,
		"distinct_nontrivial":           rep.DistinctNontrivial,
		"rule":                          rep.Rule,
		"samples":                       rep.Samples,
		"exhaustive":                    rep.Exhaustive,
	}
	if len(rep.Samples) == 0 {
		cov["samples"] = []interface{}{"(no sample recorded)"}
	}
	if len(rep.NotExhaustiveWhy) > 0 {
		cov["not_exhaustive_why"] = rep.NotExhaustiveWhy
	}
	for k, v := range rep.Counters {
		cov[k] = v
	}
	for k, v := range rep.Info {
		cov[k] = v
	}
	cov["known_findings_hit"] = knownHit
	ev := map[string]interface{}{
		"property_id": p.ID,
		"tier":        ctx.Tier,
		"seed":        ctx.Seed,
		"level":       level,
		"coverage":    cov,
		"assumptions": rep.Assumptions,
		"wall_s":      time.Since(ctx.Start).Seconds(),
		"violations":  unknown,
	}
	os.MkdirAll(filepath.Join(root, "evidence"), 0o755)
	b, _ := json.MarshalIndent(ev, "", " ")
	if err := os.WriteFile(filepath.Join(root, "evidence", p.ID+".json"), b, 0o644); err != nil {
		fmt.Fprintln(os.Stderr, "infrastructure error:", err)
		return 2
	}
	fmt.Printf("%s %s: states=%d transitions=%d executions=%d distinct=%d exhaustive=%v violations=%d known=%d wall=%.1fs\n",
		p.ID, ctx.Tier, rep.States, rep.Transitions, rep.Traces, rep.DistinctNontrivial, rep.Exhaustive, unknown, len(knownHit), time.Since(ctx.Start).Seconds())
	if unknown > 0 {
		return 1
	}
	return 0
}

func max64(a, b int64) int64 {
	if a > b {
		return a
	}
	return b
}

// JSON marshals v, panicking on error.
func JSON(v interface{}) json.RawMessage {
	b, err := json.Marshal(v)
	if err != nil {
		panic(err)
	}
	return b
}

// Short trims a string for reports.
func Short(s string, n int) string {
	s = strings.ReplaceAll(s, "\n", " ")
	if len(s) > n {
		return s[:n] + "..."
	}
	return s
}

// globMatch matches s against a pattern in which the token <*> stands for
// any (possibly empty) substring.
func globMatch(pat, s string) bool {
	parts := strings.Split(pat, "<*>")
	if !strings.HasPrefix(s, parts[0]) {
		return false
	}
	s = s[len(parts[0]):]
	for i := 1; i < len(parts); i++ {
		p := parts[i]
		if i == len(parts)-1 {
			return strings.HasSuffix(s, p)
		}
		j := strings.Index(s, p)
		if j < 0 {
			return false
		}
		s = s[j+len(p):]
	}
	return s == ""
}
