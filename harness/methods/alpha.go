package methods

import (
	"strings"

	"verif/harness/refcodec"
)

// Names of the fixture (see Populate). Every name is a valid single path
// component; they contain spaces, NUL, 0x80-0xff bytes and invalid UTF-8.
var (
	// WalkNames exist as directories in the directory under test; each has a
	// sub-directory "b" which has a sub-directory "c".
	WalkNames = []string{"wa", "w b", "w\x00nul", "\xff\xfe\x80hi", strings.Repeat("W", 255)}
	// OldNames exist as regular files in the directory under test.
	OldNames = []string{"old0", "old 1", "old\x002", "\xfe\xffold3", strings.Repeat("O", 255), "...", ".o"}
	// NewNames do not exist.
	NewNames = []string{"n", "new name", "n\x00ul", "\xff\xfe\x80", "é✓", "....", ".n", strings.Repeat("N", 255), "n\n", "-", "a\\b", "..n"}
)

// WalkLists is the alphabet of Walk name lists over the fixture.
func WalkLists() [][]string {
	out := [][]string{{}}
	for _, w := range WalkNames {
		out = append(out, []string{w})
	}
	out = append(out, []string{"wa", "b"}, []string{"wa", "b", "c"}, []string{"w b", "b"}, []string{"\xff\xfe\x80hi", "b", "c"}, []string{"w\x00nul", "b"})
	return out
}

func vals(xs ...interface{}) []interface{} { return xs }

func u64s(xs ...uint64) []interface{} {
	out := make([]interface{}, len(xs))
	for i, x := range xs {
		out[i] = x
	}
	return out
}

func strs(xs ...string) []interface{} {
	out := make([]interface{}, len(xs))
	for i, x := range xs {
		out[i] = x
	}
	return out
}

// AlphaCtx is what alphabets may depend on.
type AlphaCtx struct {
	Payload uint32
	Target  Target
	Method  string
	Result  bool // the field is a result field
}

// Semantic is the alphabet family used by C03: values chosen for what they
// mean to the operation (flag bits, setuid/setgid/sticky and type bits,
// sentinels, byte-distinct 64-bit values, names with arbitrary bytes).
// The first Red values form the reduced alphabet.
func Semantic(f Field, c AlphaCtx) Alphabet {
	if f.Alts != nil {
		return Clean(f.Def, Alphabet{Vals: f.Alts, Red: len(f.Alts)})
	}
	var a Alphabet
	p := uint64(c.Payload)
	switch f.Kind {
	case KU8:
		a = Alphabet{u64s(0xff, 0, 1, 2, 3, 0x7f, 0x80), 2}
	case KU16:
		a = Alphabet{u64s(0xffff, 0, 1, 0xff, 0x100, 0x7fff, 0x8000), 2}
	case KU32:
		a = Alphabet{u64s(0xffffffff, 0, 1, 0x7fffffff, 0x80000000, 0xfffffffe, 0x0a0b0c0d), 2}
	case KU64:
		a = Alphabet{u64s(0xffffffffffffffff, 0, 1, 0xffffffff, 0x100000000, 0x7fffffffffffffff, 0x8000000000000000, 0xa1a2a3a4a5a6a7a8), 2}
	case KNsec:
		a = Alphabet{u64s(999999999, 0, 1, 1000000000, 0xffffffffffffffff, 0xa1a2a3a4a5a6a7a8), 2}
	case KOff:
		if c.Method == "WriteAt" {
			// memfs cannot take negative write offsets
			a = Alphabet{vals(int64(0), int64(0x7fffffffffff0000), int64(1), int64(0x100000000), int64(0x1a2a3a4a5a6a7a8)), 2}
		} else {
			a = Alphabet{vals(int64(0), int64(-1), int64(1), int64(0x7fffffffffffffff), int64(-0x8000000000000000), int64(0x100000000), int64(0x1a2a3a4a5a6a7a8)), 2}
		}
	case KPid:
		a = Alphabet{vals(int64(-1), int64(0), int64(1), int64(42), int64(0x7fffffff), int64(-0x80000000)), 2}
	case KPerm:
		a = Alphabet{u64s(0o7777, 0o170000|0o644, 0, 0o644, 0o777, 0o1000, 0o2000, 0o4000, 0o100644, 0o40755, 0xffffffff, 0x12345678), 2}
	case KMode:
		if c.Result {
			a = Alphabet{u64s(0o100644, 0o40755, 0o120777, 0o20666, 0o60660, 0o10644, 0o140777, 0o107777, 0o644, 0xffffffff, 0), 2}
		} else {
			a = Alphabet{u64s(0o100644, 0o60660, 0o10644, 0o140777, 0o107777, 0o644, 0o27777, 0xffffffff, 0), 2}
		}
	case KOFlags:
		if c.Target.IsDir() && c.Method == "Open" {
			// a directory can only be opened read-only
			a = Alphabet{u64s(0o200000, 0x80000000, 0o100, 0o2000, 0xfffffffc), 2}
		} else {
			a = Alphabet{u64s(1, 0xffffffff, 0, 2, 3, 0o100|1, 0o200, 0o1000|1, 0o2000|1, 0o200000, 0x80000002), 2}
		}
	case KUID, KGID:
		a = Alphabet{u64s(0xffffffff, 0, 1, 1000, 0xfffffffe, 0x0a0b0c0d), 2}
	case KNewName:
		a = Alphabet{strs(NewNames...), 2}
	case KOldName:
		a = Alphabet{strs(OldNames...), 2}
	case KStr:
		a = Alphabet{strs("a\x00b/\xff", "", "t", "/abs/path", "rel/../x", "\xff\xfe", "sp ace", "\xc3\x28", strings.Repeat("/long", 200)), 2}
	case KXName:
		a = Alphabet{strs("with/slash\x00\xff", "u", "user.a b", "\xc3\x28", strings.Repeat("x", 255)), 2}
	case KNames:
		for _, l := range WalkLists() {
			a.Vals = append(a.Vals, l)
		}
		// reduced: a clone and a three-level walk
		a.Vals[1], a.Vals[len(a.Vals)-4] = a.Vals[len(a.Vals)-4], a.Vals[1]
		a.Red = 2
	case KAttrMask:
		a.Vals = u64s(GAAll, 0)
		for b := uint64(1); b <= GADataVersion; b <<= 1 {
			a.Vals = append(a.Vals, b)
		}
		a.Vals = append(a.Vals, uint64(0x2aaa), uint64(0x1555), uint64(0x07ff))
		a.Red = 2
	case KSetMask:
		a.Vals = u64s(SAAll, 0)
		for b := uint64(1); b <= SAMTimeSet; b <<= 1 {
			a.Vals = append(a.Vals, b)
		}
		a.Vals = append(a.Vals, uint64(0x0aa), uint64(0x155))
		a.Red = 2
	case KLen:
		a = Alphabet{u64s(0, 2*p+1, 1, 511, 512, 513, p-1, p, p+1, 2*p), 2}
	case KData:
		if c.Method == "WriteAt" {
			for _, n := range []uint64{0, 2*p + 1, 1, 511, 512, 513, p - 1, p, p + 1, 2 * p} {
				a.Vals = append(a.Vals, Pattern(n+3, int(n)))
			}
		} else {
			for _, n := range []uint64{0, 2*p + 3, 1, 255, p - 1, p, p + 1} {
				a.Vals = append(a.Vals, Pattern(n+5, int(n)))
			}
		}
		a.Red = 2
	case KStrs:
		many := []string{}
		for i := 0; i < 16; i++ {
			many = append(many, "user.attr"+strings.Repeat("z", i))
		}
		a = Alphabet{vals([]string{}, []string{"user.\xff\xfe", "a/b", " "}, []string{"one"}, many, []string{strings.Repeat("L", 1000)}), 2}
	case KDirents:
		a = Alphabet{DirentAlphabet(), 2}
	case KQIDs:
		a = Alphabet{vals([]refcodec.QID{}), 1}
	}
	return Clean(f.Def, a)
}

// DirentAlphabet is the alphabet of Readdir results: lists of several
// lengths, and single entries with one field off its default.
func DirentAlphabet() []interface{} {
	base := DefaultDirents()
	out := []interface{}{[]refcodec.Dirent{}}
	// more than the default count can hold (cut to whole entries)
	var many []refcodec.Dirent
	for i := 0; i < 100; i++ {
		many = append(many, refcodec.Dirent{QID: refcodec.QID{Type: uint8(i), Version: uint32(i) * 0x01010101, Path: d64(i)}, Offset: uint64(i + 1), Type: uint8(i * 3), Name: strings.Repeat("e", i%40+1)})
	}
	out = append(out, many, base[:1], base[:2])
	one := func(f func(d *refcodec.Dirent)) {
		d := base[0]
		f(&d)
		out = append(out, []refcodec.Dirent{d})
	}
	for _, v := range []uint8{0, 1, 0x7f, 0xff} {
		v := v
		one(func(d *refcodec.Dirent) { d.QID.Type = v })
		one(func(d *refcodec.Dirent) { d.Type = v })
	}
	for _, v := range []uint32{0, 1, 0x80000000, 0xffffffff} {
		v := v
		one(func(d *refcodec.Dirent) { d.QID.Version = v })
	}
	for _, v := range []uint64{0, 1, 0x8000000000000000, 0xffffffffffffffff, 0xa1a2a3a4a5a6a7a8} {
		v := v
		one(func(d *refcodec.Dirent) { d.QID.Path = v })
		one(func(d *refcodec.Dirent) { d.Offset = v })
	}
	for _, v := range []string{"", ".", "..", "a/b", "n\x00ul", "\xff\xfe", strings.Repeat("D", 255), strings.Repeat("D", 1000)} {
		v := v
		one(func(d *refcodec.Dirent) { d.Name = v })
	}
	return out
}
