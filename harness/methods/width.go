package methods

import (
	"strings"

	"verif/harness/refcodec"
)

// Width is the alphabet family used by C01 (DESIGN.md §C01): values chosen
// for their encoding — every byte-width boundary, sentinels, byte-distinct
// values, strings at the length boundaries of the 2-byte length prefix with
// every content class, lists and payloads at their count boundaries.

// W8, W16, W32, W64 are the integer alphabets.
func W8() []uint64  { return []uint64{0xff, 0, 1, 0x7f, 0x80} }
func W16() []uint64 { return []uint64{0xffff, 0, 1, 0xff, 0x100, 0x7fff, 0x8000, 0xfffe} }
func W32() []uint64 {
	return []uint64{0xffffffff, 0, 1, 0xff, 0x100, 0xffff, 0x10000, 0x7fffffff, 0x80000000, 0xfffffffe, 0xa1b2c3d4}
}
func W64() []uint64 {
	return []uint64{0xffffffffffffffff, 0, 1, 0xff, 0x100, 0xffff, 0x10000, 0xffffffff, 0x100000000, 0x7fffffffffffffff, 0x8000000000000000, 0xfffffffffffffffe, 0xa1b2c3d4e5f60718}
}

// Content classes of strings.
const (
	CASCII = iota
	CNUL
	CSlash
	CHigh
	CBadUTF8
	nContent
)

// StrLens are the length boundaries of a 2-byte length prefix.
var StrLens = []int{0, 1, 2, 255, 256, 32767, 32768, 65535}

// MkString builds a string of n bytes of a content class. Strings of
// different (n, class) differ, and no string is "." or "..".
func MkString(n, class int) string {
	var unit string
	switch class {
	case CASCII:
		unit = "abcdefghijklmnopqrstuvwxyz0123456789 _-"
	case CNUL:
		unit = "n\x00ul\x00"
	case CSlash:
		unit = "s/la/sh//"
	case CHigh:
		var b []byte
		for c := 0x80; c <= 0xff; c++ {
			b = append(b, byte(c))
		}
		unit = string(b)
	case CBadUTF8:
		unit = "\xc3\x28\xa0\xa1\xe2\x28\xa1\xf0\x28\x8c\x28\xfe"
	}
	var sb strings.Builder
	for sb.Len() < n {
		sb.WriteString(unit)
	}
	return sb.String()[:n]
}

// Strings is the alphabet of arbitrary strings; component restricts it to
// valid single path components (non-empty, no '/').
func Strings(component bool) []string {
	var out []string
	seen := map[string]bool{}
	// the two most telling values first (reduced alphabet)
	first := []string{MkString(32768, CHigh), MkString(2, CNUL)}
	if !component {
		first[1] = ""
	}
	add := func(s string) {
		if component && (s == "" || s == "." || s == ".." || strings.Contains(s, "/")) {
			return
		}
		if !seen[s] {
			seen[s] = true
			out = append(out, s)
		}
	}
	for _, s := range first {
		add(s)
	}
	for _, n := range StrLens {
		for c := 0; c < nContent; c++ {
			if component && c == CSlash {
				continue
			}
			add(MkString(n, c))
		}
	}
	return out
}

// ListLens are the element-count boundaries of counted lists.
var ListLens = []int{0, 1, 2, 3, 16, 255}

// ShortName is the i-th of a family of short distinct component names.
func ShortName(i int) string {
	const digits = "abcdefghijklmnop"
	return "c" + string(digits[i/16%16]) + string(digits[i%16])
}

// NameLists is the alphabet of name lists: every count boundary with short
// distinct names, and one-element lists over the component strings.
func NameLists() [][]string {
	var out [][]string
	for _, n := range ListLens {
		l := []string{}
		for i := 0; i < n; i++ {
			l = append(l, ShortName(i))
		}
		out = append(out, l)
	}
	for _, s := range Strings(true) {
		out = append(out, []string{s})
	}
	// reduced alphabet: 255 elements, and the 32768-byte high-bytes name
	out[0], out[len(ListLens)-1] = out[len(ListLens)-1], out[0]
	out[1], out[len(ListLens)] = out[len(ListLens)], out[1]
	return out
}

// QIDLists is the alphabet of QID lists: every count boundary, and
// one-element lists with one QID field at each of its boundary values.
func QIDLists() [][]refcodec.QID {
	var out [][]refcodec.QID
	for _, n := range ListLens {
		l := []refcodec.QID{}
		for i := 0; i < n; i++ {
			l = append(l, refcodec.QID{Type: uint8(i*7 + 1), Version: uint32(i)*0x01010101 + 0x0a0b0c0d, Path: d64(i) ^ 0xffff})
		}
		out = append(out, l)
	}
	base := refcodec.QID{Type: 0x42, Version: 0x0a0b0c0d, Path: 0xa1a2a3a4a5a6a7a8}
	for _, v := range W8() {
		q := base
		q.Type = uint8(v)
		out = append(out, []refcodec.QID{q})
	}
	for _, v := range W32() {
		q := base
		q.Version = uint32(v)
		out = append(out, []refcodec.QID{q})
	}
	for _, v := range W64() {
		q := base
		q.Path = v
		out = append(out, []refcodec.QID{q})
	}
	out[0], out[len(ListLens)-1] = out[len(ListLens)-1], out[0]
	return out
}

// DirentLists is the alphabet of directory listings: every count boundary,
// and one-entry listings with one entry field at each of its boundary values
// (entry names are arbitrary strings: the server does not interpret them).
func DirentLists() [][]refcodec.Dirent {
	var out [][]refcodec.Dirent
	for _, n := range ListLens {
		l := []refcodec.Dirent{}
		for i := 0; i < n; i++ {
			l = append(l, refcodec.Dirent{QID: refcodec.QID{Type: uint8(i*5 + 2), Version: uint32(i)*0x01010101 + 1, Path: d64(i)}, Offset: uint64(i)*0x0101010101010101 + 1, Type: uint8(i*3 + 1), Name: ShortName(i) + strings.Repeat("x", i%9)})
		}
		out = append(out, l)
	}
	base := DefaultDirents()[0]
	one := func(f func(d *refcodec.Dirent)) {
		d := base
		f(&d)
		out = append(out, []refcodec.Dirent{d})
	}
	for _, v := range W8() {
		v := uint8(v)
		one(func(d *refcodec.Dirent) { d.QID.Type = v })
		one(func(d *refcodec.Dirent) { d.Type = v })
	}
	for _, v := range W32() {
		v := uint32(v)
		one(func(d *refcodec.Dirent) { d.QID.Version = v })
	}
	for _, v := range W64() {
		v := v
		one(func(d *refcodec.Dirent) { d.QID.Path = v })
		one(func(d *refcodec.Dirent) { d.Offset = v })
	}
	for _, s := range Strings(false) {
		s := s
		one(func(d *refcodec.Dirent) { d.Name = s })
	}
	out[0], out[len(ListLens)-1] = out[len(ListLens)-1], out[0]
	return out
}

// PayloadLens are the payload size boundaries for an I/O piece size p.
func PayloadLens(p uint32) []int {
	return []int{int(p), 0, 1, 511, 512, 513, int(p) - 1}
}

func toVals64(xs []uint64) []interface{} {
	out := make([]interface{}, len(xs))
	for i, x := range xs {
		out[i] = x
	}
	return out
}

// WidthOpts restricts the width alphabets to what a direction can carry.
type WidthOpts struct {
	Payload uint32
	// Components: names must be valid path components that exist (or can be
	// created) on a real server; otherwise any string is used for names.
	Components bool
	// MaxData caps payload / value sizes (0: Payload).
	MaxData int
}

// Width returns the C01 alphabet of a table field.
func Width(f Field, o WidthOpts) Alphabet {
	if f.Alts != nil {
		return Clean(f.Def, Alphabet{Vals: f.Alts, Red: len(f.Alts)})
	}
	var a Alphabet
	strsOf := func(component bool) []interface{} {
		var out []interface{}
		for _, s := range Strings(component) {
			out = append(out, s)
		}
		return out
	}
	switch f.Kind {
	case KU8:
		a.Vals = toVals64(W8())
	case KU16:
		a.Vals = toVals64(W16())
	case KU32, KOFlags, KUID, KGID:
		a.Vals = toVals64(W32())
	case KPerm, KMode:
		// permission fields incl. type bits and 0xffffffff
		a.Vals = toVals64(append([]uint64{0o7777, 0o170000, 0o177777, 0o10000, 0o4000, 0o2000, 0o1000, 0o777}, W32()...))
	case KU64, KNsec:
		a.Vals = toVals64(W64())
	case KOff:
		for _, v := range W64() {
			a.Vals = append(a.Vals, int64(v))
		}
	case KPid:
		for _, v := range W32() {
			a.Vals = append(a.Vals, int64(int32(uint32(v))))
		}
	case KAttrMask:
		// every combination of the 14 mask bits
		a.Vals = append(a.Vals, uint64(GAAll), uint64(0))
		for v := uint64(1); v < GAAll; v++ {
			a.Vals = append(a.Vals, v)
		}
	case KSetMask:
		a.Vals = append(a.Vals, uint64(SAAll), uint64(0))
		for v := uint64(1); v < SAAll; v++ {
			a.Vals = append(a.Vals, v)
		}
	case KNewName, KOldName:
		a.Vals = strsOf(o.Components)
	case KStr:
		a.Vals = strsOf(false)
	case KXName:
		for _, s := range Strings(false) {
			if s != "" {
				a.Vals = append(a.Vals, s)
			}
		}
	case KNames:
		for _, l := range NameLists() {
			a.Vals = append(a.Vals, l)
		}
	case KQIDs:
		for _, l := range QIDLists() {
			a.Vals = append(a.Vals, l)
		}
	case KDirents:
		for _, l := range DirentLists() {
			a.Vals = append(a.Vals, l)
		}
	case KLen:
		for _, n := range PayloadLens(o.Payload) {
			a.Vals = append(a.Vals, uint64(n))
		}
	case KData:
		max := o.MaxData
		if max == 0 {
			max = int(o.Payload)
		}
		for _, n := range PayloadLens(uint32(max)) {
			a.Vals = append(a.Vals, Pattern(uint64(n)+11, n))
		}
	case KStrs:
		// xattr name lists: count boundaries and long names (non-empty, NUL-free)
		for _, n := range []int{16, 0, 1, 2, 3, 255} {
			l := []string{}
			for i := 0; i < n; i++ {
				l = append(l, "user."+ShortName(i))
			}
			a.Vals = append(a.Vals, l)
		}
		for _, s := range Strings(false) {
			if s != "" && !strings.Contains(s, "\x00") && len(s) < 40000 {
				a.Vals = append(a.Vals, []string{s})
			}
		}
	case KIOBehave:
		a.Vals = nil
	}
	a.Red = 2
	if len(a.Vals) < 2 {
		a.Red = len(a.Vals)
	}
	return Clean(f.Def, a)
}
