package methods

import (
	"errors"
	"fmt"
	"io"

	"github.com/hugelgupf/p9/linux"
	"github.com/hugelgupf/p9/p9"
	"verif/harness/memfs"
	"verif/harness/refcodec"
)

// Target says what the handle under test must denote.
type Target int

// Targets.
const (
	TDir      Target = iota // directory, not opened
	TFile                   // regular file, not opened
	TSymlink                // symbolic link
	TFileOpen               // regular file, opened read-write
	TDirOpen                // directory, opened read-only
)

func (t Target) String() string {
	return [...]string{"dir", "file", "symlink", "file(open)", "dir(open)"}[t]
}

// IsDir reports whether the target is a directory.
func (t Target) IsDir() bool { return t == TDir || t == TDirOpen }

// Ref is another client handle that can be passed as a File argument.
type Ref struct {
	File p9.File
	Fid  uint64
	H    int // memfs handle the client handle was derived from
}

// Indices into Env.Refs.
const (
	RefSelf    = 0 // the handle under test itself
	RefAuxDir  = 1 // another directory
	RefAuxFile = 2 // another regular file
	RefParent  = 3 // a second handle for the parent directory of the handle under test
)

// NoID is the NoUID / NoGID / NOFID sentinel.
const NoID = uint64(0xffffffff)

// AnyFid in an expected message stands for "a fid chosen by the client".
const AnyFid = uint64(1) << 40

// OneOf in an expected vector lists the acceptable values of one element.
type OneOf []interface{}

// Env is the context of one invocation.
type Env struct {
	Version uint32
	Msize   uint32
	Payload uint32 // largest I/O piece the client sends
	File    p9.File
	Fid     uint64
	H       int // memfs handle File was derived from (-1 unknown)
	Parent  int // memfs handle of its parent directory (-1 for the root)
	CurName string
	Target  Target
	Refs    [4]Ref
	WGA     bool // the backend implements WalkGetAttr itself
	// RawL: the request is sent as raw bytes by the check itself, so the
	// 9P2000.L creation messages carry the given gid (the p9 client drops it
	// below version 3).
	RawL bool
}

// Outcome is what a client call returned, flattened.
type Outcome struct {
	Vals  V
	Err   error
	File  p9.File
	Panic interface{}
}

// ExpCall is one expected backend call.
type ExpCall struct {
	Method   string
	On       int
	Args     V // flat; elements may be OneOf
	ArgNames []string
	Names    []string // expected Names of walk-type calls
	HasNames bool
}

// Issue is one oracle failure.
type Issue struct {
	Clause string // short stable identifier of the violated clause
	Field  string // argument / result field concerned, if any
	Msg    string
}

// Inject selects a backend error and where it strikes.
type Inject struct {
	Spec *ErrSpec
	Step int // for multi-step methods: which piece / component fails
}

// Method is one entry of the table.
type Method struct {
	Name       string
	Targets    []Target
	NeedParent bool  // not applicable to the root (Rename, Remove)
	Local      bool  // answered by the client itself: no traffic, no backend call
	Refs       []int // other handles the arguments refer to
	Args       []Field
	Res        []Field
	Steps      int // number of injection positions (1 unless multi-step)

	// (1)
	Invoke func(e *Env, a V) Outcome
	// (2) expected T messages; r is the success result vector (needed where a
	// later request depends on an earlier reply).
	Wire func(e *Env, a, r V) []refcodec.Msg
	// (3)
	Backend func(e *Env, a V) []ExpCall
	// (4)
	Primary  string
	Override func(e *Env, a, r V) *memfs.Override
	// (5) reply type and values for the (single) request of simple methods
	Reply func(e *Env, a, r V) refcodec.Msg
	// (6) acceptable client returns
	Want func(e *Env, a, r V) []V
	// LocalErrno is what a Local method returns (0 = nothing).
	LocalErrno uint32
	// ErrMayBeDropped: the backend's error need not reach the caller (Close:
	// "for server-side implementations of Close, the error is ignored").
	ErrMayBeDropped bool

	// StepOK reports whether injection position step exists for arguments a
	// (nil: only position 0).
	StepOK func(e *Env, a V, step int) bool

	// Multi-step methods replace the generic hook and judge.
	Hook  func(e *Env, a, r V, inj *Inject) func(*memfs.Call) *memfs.Action
	Judge func(e *Env, a, r V, inj *Inject, calls []*memfs.Call, out Outcome) []Issue
}

// ---------------------------------------------------------------------------
// defaults

func d8(i int) uint64  { return uint64(0x11 + 3*i) }
func d32(i int) uint64 { return uint64(uint32(0x01020304 + 0x10101010*uint32(i))) }
func d64(i int) uint64 { return 0x0102030405060708 + 0x1010101010101010*uint64(i) }

// resFields derives a result field list from a reply type of the layout table.
func resFields(t uint8, skip map[string]bool, kinds map[string]Kind) []Field {
	var out []Field
	for i, f := range refcodec.Defs[t].Fields {
		if skip[f.Name] {
			continue
		}
		fd := Field{Name: f.Name}
		switch f.Kind {
		case refcodec.U8:
			fd.Kind, fd.Def = KU8, d8(i)
		case refcodec.U16:
			fd.Kind, fd.Def = KU16, uint64(0x0102+0x1010*i)
		case refcodec.U32:
			fd.Kind, fd.Def = KU32, d32(i)
		case refcodec.U64:
			fd.Kind, fd.Def = KU64, d64(i)
		case refcodec.Str:
			fd.Kind, fd.Def = KStr, "dflt-"+f.Name
		default:
			panic("resFields: " + f.Name)
		}
		if k, ok := kinds[f.Name]; ok {
			fd.Kind = k
			if k == KAttrMask {
				fd.Def = uint64(0x2d6b) // the mask has 14 bits
			}
		}
		out = append(out, fd)
	}
	return out
}

var attrKinds = map[string]Kind{"valid": KAttrMask, "mode": KMode, "uid": KUID, "gid": KGID,
	"atime_nsec": KNsec, "mtime_nsec": KNsec, "ctime_nsec": KNsec, "btime_nsec": KNsec}

// ---------------------------------------------------------------------------
// helpers

func guard(out *Outcome) {
	if r := recover(); r != nil {
		out.Panic = r
	}
}

func qidVals(q p9.QID) V { return V{uint64(q.Type), uint64(q.Version), q.Path} }

func qidOf(v V, i int) p9.QID {
	return p9.QID{Type: p9.QIDType(U(v[i])), Version: uint32(U(v[i+1])), Path: U(v[i+2])}
}

// msg builds an expected message; elements may be OneOf or AnyFid.
func msg(t uint8, vals ...interface{}) refcodec.Msg {
	if len(vals) != len(refcodec.Defs[t].Fields) {
		panic(fmt.Sprintf("methods: %s takes %d values, got %d", refcodec.Defs[t].Name, len(refcodec.Defs[t].Fields), len(vals)))
	}
	out := make([]interface{}, len(vals))
	for i, v := range vals {
		switch x := v.(type) {
		case int64:
			out[i] = uint64(x)
		case int:
			out[i] = uint64(x)
		default:
			out[i] = v
		}
	}
	return refcodec.Msg{Type: t, Vals: out}
}

func one(v V) []V { return []V{v} }

// ucreate reports whether the negotiated version defines the Tu* messages.
func ucreate(e *Env) bool { return e.Version >= 3 }

// uidSeen is what the backend must see as uid: the given one from version 3
// on; below, the L messages have no uid field and the documented rewriting
// ("uid/gid dropped below version 3") applies.
func uidSeen(e *Env, uid interface{}) interface{} {
	if ucreate(e) {
		return uid
	}
	return NoID
}

// gidSeen: from version 3 on the given gid; below, dropped (NoGID) — the L
// messages do have a gid field, so the given gid is accepted as well.
func gidSeen(e *Env, gid interface{}) interface{} {
	if ucreate(e) || e.RawL {
		return gid
	}
	return OneOf{NoID, gid}
}

func perm(v interface{}) uint64 { return U(v) & 0o7777 }

// modeSeen: a full mode word must arrive unchanged; keeping only the type and
// permission bits is accepted as well.
func modeSeen(v interface{}) interface{} {
	m := U(v)
	return OneOf{m, m & 0o177777}
}

func simpleBackend(method string, names []string, f func(e *Env, a V) V) func(e *Env, a V) []ExpCall {
	return func(e *Env, a V) []ExpCall {
		return []ExpCall{{Method: method, On: e.H, Args: f(e, a), ArgNames: names}}
	}
}

// ---------------------------------------------------------------------------
// the table

// Table returns the method table. payload is the client's I/O piece size
// (used only for default buffer lengths).
func Table(payload uint32) []*Method {
	var t []*Method
	add := func(m *Method) {
		if m.Steps == 0 {
			m.Steps = 1
		}
		t = append(t, m)
	}
	anyTarget := []Target{TDir, TFile, TSymlink, TFileOpen}
	dirOnly := []Target{TDir}

	// Walk ----------------------------------------------------------------
	add(walkMethod(false))
	add(walkMethod(true))

	// StatFS --------------------------------------------------------------
	add(&Method{
		Name: "StatFS", Targets: anyTarget,
		Res: resFields(refcodec.Rstatfs, nil, nil),
		Invoke: func(e *Env, a V) (o Outcome) {
			defer guard(&o)
			st, err := e.File.StatFS()
			return Outcome{Vals: FSStatToVec(st), Err: err}
		},
		Wire:     func(e *Env, a, r V) []refcodec.Msg { return []refcodec.Msg{msg(refcodec.Tstatfs, e.Fid)} },
		Backend:  simpleBackend("StatFS", nil, func(e *Env, a V) V { return nil }),
		Primary:  "StatFS",
		Override: func(e *Env, a, r V) *memfs.Override { st := FSStatFromVec(r); return &memfs.Override{FSStat: &st} },
		Reply:    func(e *Env, a, r V) refcodec.Msg { return msg(refcodec.Rstatfs, r...) },
		Want:     func(e *Env, a, r V) []V { return one(r) },
	})

	// GetAttr -------------------------------------------------------------
	add(&Method{
		Name: "GetAttr", Targets: anyTarget,
		Args: []Field{{Name: "req", Kind: KAttrMask, Def: uint64(0x0a5b)}},
		Res:  resFields(refcodec.Rgetattr, nil, attrKinds),
		Invoke: func(e *Env, a V) (o Outcome) {
			defer guard(&o)
			q, valid, attr, err := e.File.GetAttr(AttrMask(U(a[0])))
			v := V{AttrMaskBits(valid)}
			v = append(v, qidVals(q)...)
			v = append(v, AttrToVec(attr)...)
			return Outcome{Vals: v, Err: err}
		},
		Wire:    func(e *Env, a, r V) []refcodec.Msg { return []refcodec.Msg{msg(refcodec.Tgetattr, e.Fid, a[0])} },
		Backend: simpleBackend("GetAttr", []string{"req"}, func(e *Env, a V) V { return V{a[0]} }),
		Primary: "GetAttr",
		Override: func(e *Env, a, r V) *memfs.Override {
			valid, q, attr := AttrMask(U(r[0])), qidOf(r, 1), AttrFromVec(r[4:])
			return &memfs.Override{QID: &q, Valid: &valid, Attr: &attr}
		},
		Reply: func(e *Env, a, r V) refcodec.Msg { return msg(refcodec.Rgetattr, r...) },
		Want:  func(e *Env, a, r V) []V { return one(r) },
	})

	// SetAttr -------------------------------------------------------------
	add(&Method{
		Name: "SetAttr", Targets: []Target{TDir, TDir, TDir, TFileOpen},
		Args: []Field{{Name: "valid", Kind: KSetMask, Def: uint64(0x1b5)}, {Name: "permissions", Kind: KPerm, Def: uint64(0o4751)}, {Name: "uid", Kind: KUID, Def: uint64(0x01020304)}, {Name: "gid", Kind: KGID, Def: uint64(0x05060708)},
			{Name: "size", Kind: KU64, Def: uint64(0x0000030405060708)}, {Name: "atime_sec", Kind: KU64, Def: d64(1)}, {Name: "atime_nsec", Kind: KNsec, Def: uint64(123456789)}, {Name: "mtime_sec", Kind: KU64, Def: d64(2)}, {Name: "mtime_nsec", Kind: KNsec, Def: uint64(987654321)}},
		Invoke: func(e *Env, a V) (o Outcome) {
			defer guard(&o)
			return Outcome{Err: e.File.SetAttr(SetAttrMask(U(a[0])), SetAttrFromVec(a[1:]))}
		},
		Wire: func(e *Env, a, r V) []refcodec.Msg {
			return []refcodec.Msg{msg(refcodec.Tsetattr, e.Fid, a[0], perm(a[1]), a[2], a[3], a[4], a[5], a[6], a[7], a[8])}
		},
		Backend: simpleBackend("SetAttr", []string{"valid", "permissions", "uid", "gid", "size", "atime_sec", "atime_nsec", "mtime_sec", "mtime_nsec"},
			func(e *Env, a V) V { return V{a[0], perm(a[1]), a[2], a[3], a[4], a[5], a[6], a[7], a[8]} }),
		Primary: "SetAttr",
		Reply:   func(e *Env, a, r V) refcodec.Msg { return msg(refcodec.Rsetattr) },
		Want:    func(e *Env, a, r V) []V { return one(nil) },
	})

	// Lock ----------------------------------------------------------------
	add(&Method{
		Name: "Lock", Targets: []Target{TFile, TDir, TFile, TFileOpen},
		Args: []Field{{Name: "pid", Kind: KPid, Def: int64(0x01020304)}, {Name: "type", Kind: KU8, Def: uint64(1)}, {Name: "flags", Kind: KU32, Def: uint64(1)}, {Name: "start", Kind: KU64, Def: d64(0)}, {Name: "length", Kind: KU64, Def: d64(3)}, {Name: "client", Kind: KStr, Def: "client-id"}},
		Res:  []Field{{Name: "status", Kind: KU8, Def: uint64(1)}},
		Invoke: func(e *Env, a V) (o Outcome) {
			defer guard(&o)
			st, err := e.File.Lock(int(a[0].(int64)), p9.LockType(U(a[1])), p9.LockFlags(U(a[2])), U(a[3]), U(a[4]), a[5].(string))
			return Outcome{Vals: V{uint64(st)}, Err: err}
		},
		Wire: func(e *Env, a, r V) []refcodec.Msg {
			return []refcodec.Msg{msg(refcodec.Tlock, e.Fid, a[1], a[2], a[3], a[4], uint64(uint32(a[0].(int64))), a[5])}
		},
		Backend: simpleBackend("Lock", []string{"pid", "type", "flags", "start", "length", "client"}, func(e *Env, a V) V { return V{a[0], a[1], a[2], a[3], a[4], a[5]} }),
		Primary: "Lock",
		Override: func(e *Env, a, r V) *memfs.Override {
			st := p9.LockStatus(U(r[0]))
			return &memfs.Override{Status: &st}
		},
		Reply: func(e *Env, a, r V) refcodec.Msg { return msg(refcodec.Rlock, r[0]) },
		Want:  func(e *Env, a, r V) []V { return one(r) },
	})

	// Remove --------------------------------------------------------------
	add(&Method{
		Name: "Remove", Targets: []Target{TFile, TFile, TSymlink, TFileOpen}, NeedParent: true,
		Invoke: func(e *Env, a V) (o Outcome) {
			defer guard(&o)
			rm, ok := e.File.(interface{ Remove() error })
			if !ok {
				return Outcome{Err: errors.New("client file has no Remove method")}
			}
			return Outcome{Err: rm.Remove()}
		},
		Wire: func(e *Env, a, r V) []refcodec.Msg { return []refcodec.Msg{msg(refcodec.Tremove, e.Fid)} },
		Backend: func(e *Env, a V) []ExpCall {
			return []ExpCall{{Method: "UnlinkAt", On: e.Parent, Args: V{e.CurName, uint64(0)}, ArgNames: []string{"name", "flags"}}}
		},
		Primary: "UnlinkAt",
		Reply:   func(e *Env, a, r V) refcodec.Msg { return msg(refcodec.Rremove) },
		Want:    func(e *Env, a, r V) []V { return one(nil) },
	})

	// Close ---------------------------------------------------------------
	add(&Method{
		Name: "Close", Targets: anyTarget, ErrMayBeDropped: true,
		Invoke: func(e *Env, a V) (o Outcome) {
			defer guard(&o)
			return Outcome{Err: e.File.Close()}
		},
		Wire:    func(e *Env, a, r V) []refcodec.Msg { return []refcodec.Msg{msg(refcodec.Tclunk, e.Fid)} },
		Backend: simpleBackend("Close", nil, func(e *Env, a V) V { return nil }),
		Primary: "Close",
		Reply:   func(e *Env, a, r V) refcodec.Msg { return msg(refcodec.Rclunk) },
		Want:    func(e *Env, a, r V) []V { return one(nil) },
	})

	// Open ----------------------------------------------------------------
	add(&Method{
		Name: "Open", Targets: []Target{TDir, TFile, TDir, TFile},
		Args: []Field{{Name: "flags", Kind: KOFlags, Def: uint64(0)}},
		Res:  resFields(refcodec.Rlopen, nil, nil),
		Invoke: func(e *Env, a V) (o Outcome) {
			defer guard(&o)
			q, iou, err := e.File.Open(p9.OpenFlags(U(a[0])))
			return Outcome{Vals: append(qidVals(q), uint64(iou)), Err: err}
		},
		Wire:    func(e *Env, a, r V) []refcodec.Msg { return []refcodec.Msg{msg(refcodec.Tlopen, e.Fid, a[0])} },
		Backend: simpleBackend("Open", []string{"flags"}, func(e *Env, a V) V { return V{a[0]} }),
		Primary: "Open",
		Override: func(e *Env, a, r V) *memfs.Override {
			q, iou := qidOf(r, 0), uint32(U(r[3]))
			return &memfs.Override{QID: &q, IoUnit: &iou}
		},
		Reply: func(e *Env, a, r V) refcodec.Msg { return msg(refcodec.Rlopen, r...) },
		Want:  func(e *Env, a, r V) []V { return one(r) },
	})

	// ReadAt / WriteAt ----------------------------------------------------
	add(readAtMethod(payload))
	add(writeAtMethod(payload))

	// Rename --------------------------------------------------------------
	add(&Method{
		Name: "Rename", Targets: []Target{TFile, TFile, TDir, TSymlink, TFileOpen}, NeedParent: true, Refs: []int{RefAuxDir, RefParent},
		Args: []Field{{Name: "dir", Kind: KRef, Def: uint64(RefAuxDir), Alts: []interface{}{uint64(RefParent)}}, {Name: "name", Kind: KNewName, Def: "renamed-to"}},
		Invoke: func(e *Env, a V) (o Outcome) {
			defer guard(&o)
			return Outcome{Err: e.File.Rename(e.Refs[U(a[0])].File, a[1].(string))}
		},
		Wire: func(e *Env, a, r V) []refcodec.Msg {
			return []refcodec.Msg{msg(refcodec.Trename, e.Fid, e.Refs[U(a[0])].Fid, a[1])}
		},
		Backend: func(e *Env, a V) []ExpCall {
			return []ExpCall{{Method: "RenameAt", On: e.Parent, Args: V{e.CurName, int64(e.Refs[U(a[0])].H), a[1]}, ArgNames: []string{"oldname", "newdir", "newname"}}}
		},
		Primary: "RenameAt",
		Reply:   func(e *Env, a, r V) refcodec.Msg { return msg(refcodec.Rrename) },
		Want:    func(e *Env, a, r V) []V { return one(nil) },
	})

	// Create --------------------------------------------------------------
	add(&Method{
		Name: "Create", Targets: dirOnly,
		Args: []Field{{Name: "name", Kind: KNewName, Def: "created"}, {Name: "flags", Kind: KOFlags, Def: uint64(2)}, {Name: "permissions", Kind: KPerm, Def: uint64(0o2640)}, {Name: "uid", Kind: KUID, Def: uint64(0x01020304)}, {Name: "gid", Kind: KGID, Def: uint64(0x05060708)}},
		Res:  resFields(refcodec.Rlcreate, nil, nil),
		Invoke: func(e *Env, a V) (o Outcome) {
			defer guard(&o)
			f, q, iou, err := e.File.Create(a[0].(string), p9.OpenFlags(U(a[1])), p9.FileMode(U(a[2])), p9.UID(U(a[3])), p9.GID(U(a[4])))
			return Outcome{Vals: append(qidVals(q), uint64(iou)), Err: err, File: f}
		},
		Wire: func(e *Env, a, r V) []refcodec.Msg {
			if ucreate(e) {
				return []refcodec.Msg{msg(refcodec.Tucreate, e.Fid, a[0], a[1], perm(a[2]), a[4], a[3])}
			}
			return []refcodec.Msg{msg(refcodec.Tlcreate, e.Fid, a[0], a[1], perm(a[2]), gidSeen(e, a[4]))}
		},
		Backend: simpleBackend("Create", []string{"name", "flags", "permissions", "uid", "gid"},
			func(e *Env, a V) V { return V{a[0], a[1], perm(a[2]), uidSeen(e, a[3]), gidSeen(e, a[4])} }),
		Primary: "Create",
		Override: func(e *Env, a, r V) *memfs.Override {
			q, iou := qidOf(r, 0), uint32(U(r[3]))
			return &memfs.Override{QID: &q, IoUnit: &iou}
		},
		Reply: func(e *Env, a, r V) refcodec.Msg {
			if ucreate(e) {
				return msg(refcodec.Rucreate, r...)
			}
			return msg(refcodec.Rlcreate, r...)
		},
		Want: func(e *Env, a, r V) []V { return one(r) },
	})

	// Mkdir ---------------------------------------------------------------
	add(&Method{
		Name: "Mkdir", Targets: dirOnly,
		Args: []Field{{Name: "name", Kind: KNewName, Def: "newdir"}, {Name: "permissions", Kind: KPerm, Def: uint64(0o1750)}, {Name: "uid", Kind: KUID, Def: uint64(0x01020304)}, {Name: "gid", Kind: KGID, Def: uint64(0x05060708)}},
		Res:  resFields(refcodec.Rmkdir, nil, nil),
		Invoke: func(e *Env, a V) (o Outcome) {
			defer guard(&o)
			q, err := e.File.Mkdir(a[0].(string), p9.FileMode(U(a[1])), p9.UID(U(a[2])), p9.GID(U(a[3])))
			return Outcome{Vals: qidVals(q), Err: err}
		},
		Wire: func(e *Env, a, r V) []refcodec.Msg {
			if ucreate(e) {
				return []refcodec.Msg{msg(refcodec.Tumkdir, e.Fid, a[0], perm(a[1]), a[3], a[2])}
			}
			return []refcodec.Msg{msg(refcodec.Tmkdir, e.Fid, a[0], perm(a[1]), gidSeen(e, a[3]))}
		},
		Backend: simpleBackend("Mkdir", []string{"name", "permissions", "uid", "gid"},
			func(e *Env, a V) V { return V{a[0], perm(a[1]), uidSeen(e, a[2]), gidSeen(e, a[3])} }),
		Primary:  "Mkdir",
		Override: func(e *Env, a, r V) *memfs.Override { q := qidOf(r, 0); return &memfs.Override{QID: &q} },
		Reply: func(e *Env, a, r V) refcodec.Msg {
			if ucreate(e) {
				return msg(refcodec.Rumkdir, r...)
			}
			return msg(refcodec.Rmkdir, r...)
		},
		Want: func(e *Env, a, r V) []V { return one(r) },
	})

	// Symlink -------------------------------------------------------------
	add(&Method{
		Name: "Symlink", Targets: dirOnly,
		Args: []Field{{Name: "oldname", Kind: KStr, Def: "../target/of link"}, {Name: "newname", Kind: KNewName, Def: "newlink"}, {Name: "uid", Kind: KUID, Def: uint64(0x01020304)}, {Name: "gid", Kind: KGID, Def: uint64(0x05060708)}},
		Res:  resFields(refcodec.Rsymlink, nil, nil),
		Invoke: func(e *Env, a V) (o Outcome) {
			defer guard(&o)
			q, err := e.File.Symlink(a[0].(string), a[1].(string), p9.UID(U(a[2])), p9.GID(U(a[3])))
			return Outcome{Vals: qidVals(q), Err: err}
		},
		Wire: func(e *Env, a, r V) []refcodec.Msg {
			if ucreate(e) {
				return []refcodec.Msg{msg(refcodec.Tusymlink, e.Fid, a[1], a[0], a[3], a[2])}
			}
			return []refcodec.Msg{msg(refcodec.Tsymlink, e.Fid, a[1], a[0], gidSeen(e, a[3]))}
		},
		Backend: simpleBackend("Symlink", []string{"oldname", "newname", "uid", "gid"},
			func(e *Env, a V) V { return V{a[0], a[1], uidSeen(e, a[2]), gidSeen(e, a[3])} }),
		Primary:  "Symlink",
		Override: func(e *Env, a, r V) *memfs.Override { q := qidOf(r, 0); return &memfs.Override{QID: &q} },
		Reply: func(e *Env, a, r V) refcodec.Msg {
			if ucreate(e) {
				return msg(refcodec.Rusymlink, r...)
			}
			return msg(refcodec.Rsymlink, r...)
		},
		Want: func(e *Env, a, r V) []V { return one(r) },
	})

	// Link ----------------------------------------------------------------
	add(&Method{
		Name: "Link", Targets: dirOnly, Refs: []int{RefAuxFile},
		Args: []Field{{Name: "target", Kind: KRef, Def: uint64(RefAuxFile), Alts: []interface{}{}}, {Name: "newname", Kind: KNewName, Def: "hardlink"}},
		Invoke: func(e *Env, a V) (o Outcome) {
			defer guard(&o)
			return Outcome{Err: e.File.Link(e.Refs[U(a[0])].File, a[1].(string))}
		},
		Wire: func(e *Env, a, r V) []refcodec.Msg {
			return []refcodec.Msg{msg(refcodec.Tlink, e.Fid, e.Refs[U(a[0])].Fid, a[1])}
		},
		Backend: func(e *Env, a V) []ExpCall {
			return []ExpCall{{Method: "Link", On: e.H, Args: V{int64(e.Refs[U(a[0])].H), a[1]}, ArgNames: []string{"target", "newname"}}}
		},
		Primary: "Link",
		Reply:   func(e *Env, a, r V) refcodec.Msg { return msg(refcodec.Rlink) },
		Want:    func(e *Env, a, r V) []V { return one(nil) },
	})

	// Mknod ---------------------------------------------------------------
	add(&Method{
		Name: "Mknod", Targets: dirOnly,
		Args: []Field{{Name: "name", Kind: KNewName, Def: "node"}, {Name: "mode", Kind: KMode, Def: uint64(0o020664)}, {Name: "major", Kind: KU32, Def: d32(1)}, {Name: "minor", Kind: KU32, Def: d32(2)}, {Name: "uid", Kind: KUID, Def: uint64(0x01020304)}, {Name: "gid", Kind: KGID, Def: uint64(0x05060708)}},
		Res:  resFields(refcodec.Rmknod, nil, nil),
		Invoke: func(e *Env, a V) (o Outcome) {
			defer guard(&o)
			q, err := e.File.Mknod(a[0].(string), p9.FileMode(U(a[1])), uint32(U(a[2])), uint32(U(a[3])), p9.UID(U(a[4])), p9.GID(U(a[5])))
			return Outcome{Vals: qidVals(q), Err: err}
		},
		Wire: func(e *Env, a, r V) []refcodec.Msg {
			if ucreate(e) {
				return []refcodec.Msg{msg(refcodec.Tumknod, e.Fid, a[0], modeSeen(a[1]), a[2], a[3], a[5], a[4])}
			}
			return []refcodec.Msg{msg(refcodec.Tmknod, e.Fid, a[0], modeSeen(a[1]), a[2], a[3], gidSeen(e, a[5]))}
		},
		Backend: simpleBackend("Mknod", []string{"name", "mode", "major", "minor", "uid", "gid"},
			func(e *Env, a V) V { return V{a[0], modeSeen(a[1]), a[2], a[3], uidSeen(e, a[4]), gidSeen(e, a[5])} }),
		Primary:  "Mknod",
		Override: func(e *Env, a, r V) *memfs.Override { q := qidOf(r, 0); return &memfs.Override{QID: &q} },
		Reply: func(e *Env, a, r V) refcodec.Msg {
			if ucreate(e) {
				return msg(refcodec.Rumknod, r...)
			}
			return msg(refcodec.Rmknod, r...)
		},
		Want: func(e *Env, a, r V) []V { return one(r) },
	})

	// RenameAt ------------------------------------------------------------
	add(&Method{
		Name: "RenameAt", Targets: dirOnly, Refs: []int{RefAuxDir},
		Args: []Field{{Name: "oldname", Kind: KOldName, Def: "old0"}, {Name: "newdir", Kind: KRef, Def: uint64(RefAuxDir), Alts: []interface{}{uint64(RefSelf)}}, {Name: "newname", Kind: KNewName, Def: "moved-to"}},
		Invoke: func(e *Env, a V) (o Outcome) {
			defer guard(&o)
			return Outcome{Err: e.File.RenameAt(a[0].(string), e.Refs[U(a[1])].File, a[2].(string))}
		},
		Wire: func(e *Env, a, r V) []refcodec.Msg {
			return []refcodec.Msg{msg(refcodec.Trenameat, e.Fid, a[0], e.Refs[U(a[1])].Fid, a[2])}
		},
		Backend: func(e *Env, a V) []ExpCall {
			return []ExpCall{{Method: "RenameAt", On: e.H, Args: V{a[0], int64(e.Refs[U(a[1])].H), a[2]}, ArgNames: []string{"oldname", "newdir", "newname"}}}
		},
		Primary: "RenameAt",
		Reply:   func(e *Env, a, r V) refcodec.Msg { return msg(refcodec.Rrenameat) },
		Want:    func(e *Env, a, r V) []V { return one(nil) },
	})

	// UnlinkAt ------------------------------------------------------------
	add(&Method{
		Name: "UnlinkAt", Targets: dirOnly,
		Args: []Field{{Name: "name", Kind: KOldName, Def: "old0"}, {Name: "flags", Kind: KU32, Def: uint64(0)}},
		Invoke: func(e *Env, a V) (o Outcome) {
			defer guard(&o)
			return Outcome{Err: e.File.UnlinkAt(a[0].(string), uint32(U(a[1])))}
		},
		Wire:    func(e *Env, a, r V) []refcodec.Msg { return []refcodec.Msg{msg(refcodec.Tunlinkat, e.Fid, a[0], a[1])} },
		Backend: simpleBackend("UnlinkAt", []string{"name", "flags"}, func(e *Env, a V) V { return V{a[0], a[1]} }),
		Primary: "UnlinkAt",
		Reply:   func(e *Env, a, r V) refcodec.Msg { return msg(refcodec.Runlinkat) },
		Want:    func(e *Env, a, r V) []V { return one(nil) },
	})

	// Readdir -------------------------------------------------------------
	add(&Method{
		Name: "Readdir", Targets: []Target{TDirOpen},
		// count: the u32 boundary values plus every byte count within 2 of the
		// end of an entry of the default listing (entries of 31, 34 and 25
		// bytes: ends at 31, 65, 90), where "whole entries that fit" is decided
		Args: []Field{{Name: "offset", Kind: KU64, Def: d64(0)}, {Name: "count", Kind: KU32, Def: uint64(2000), Alts: readdirCounts()}},
		Res:  []Field{{Name: "entries", Kind: KDirents, Def: DefaultDirents()}},
		Invoke: func(e *Env, a V) (o Outcome) {
			defer guard(&o)
			ds, err := e.File.Readdir(U(a[0]), uint32(U(a[1])))
			return Outcome{Vals: V{FromDirents(ds)}, Err: err}
		},
		Wire: func(e *Env, a, r V) []refcodec.Msg {
			return []refcodec.Msg{msg(refcodec.Treaddir, e.Fid, a[0], OneOf{a[1], fitCount(e, a[1])})}
		},
		// a count that no reply within msize could honour may be clamped to
		// what fits (size[4] type[1] tag[2] count[4] = 11 bytes of overhead)
		Backend: simpleBackend("Readdir", []string{"offset", "count"}, func(e *Env, a V) V { return V{a[0], OneOf{a[1], fitCount(e, a[1])}} }),
		Primary: "Readdir",
		Override: func(e *Env, a, r V) *memfs.Override {
			return &memfs.Override{HasDirents: true, Dirents: ToDirents(r[0].([]refcodec.Dirent))}
		},
		Reply: func(e *Env, a, r V) refcodec.Msg {
			return msg(refcodec.Rreaddir, WholeEntries(r[0].([]refcodec.Dirent), fitCount(e, a[1])))
		},
		Want: func(e *Env, a, r V) []V {
			ds := r[0].([]refcodec.Dirent)
			return []V{{WholeEntries(ds, U(a[1]))}, {WholeEntries(ds, fitCount(e, a[1]))}}
		},
	})

	// Readlink ------------------------------------------------------------
	add(&Method{
		Name: "Readlink", Targets: []Target{TSymlink},
		Res: []Field{{Name: "target", Kind: KStr, Def: "some/../target of\tlink"}},
		Invoke: func(e *Env, a V) (o Outcome) {
			defer guard(&o)
			s, err := e.File.Readlink()
			return Outcome{Vals: V{s}, Err: err}
		},
		Wire:     func(e *Env, a, r V) []refcodec.Msg { return []refcodec.Msg{msg(refcodec.Treadlink, e.Fid)} },
		Backend:  simpleBackend("Readlink", nil, func(e *Env, a V) V { return nil }),
		Primary:  "Readlink",
		Override: func(e *Env, a, r V) *memfs.Override { s := r[0].(string); return &memfs.Override{Str: &s} },
		Reply:    func(e *Env, a, r V) refcodec.Msg { return msg(refcodec.Rreadlink, r[0]) },
		Want:     func(e *Env, a, r V) []V { return one(r) },
	})

	// FSync ---------------------------------------------------------------
	add(&Method{
		Name: "FSync", Targets: []Target{TFileOpen, TDirOpen, TFileOpen, TFileOpen},
		Invoke: func(e *Env, a V) (o Outcome) {
			defer guard(&o)
			return Outcome{Err: e.File.FSync()}
		},
		Wire:    func(e *Env, a, r V) []refcodec.Msg { return []refcodec.Msg{msg(refcodec.Tfsync, e.Fid)} },
		Backend: simpleBackend("FSync", nil, func(e *Env, a V) V { return nil }),
		Primary: "FSync",
		Reply:   func(e *Env, a, r V) refcodec.Msg { return msg(refcodec.Rfsync) },
		Want:    func(e *Env, a, r V) []V { return one(nil) },
	})

	// GetXattr ------------------------------------------------------------
	add(&Method{
		Name: "GetXattr", Targets: anyTarget,
		Args: []Field{{Name: "name", Kind: KXName, Def: "user.verif"}},
		Res:  []Field{{Name: "value", Kind: KData, Def: Pattern(0x40, 37)}},
		Invoke: func(e *Env, a V) (o Outcome) {
			defer guard(&o)
			b, err := e.File.GetXattr(a[0].(string))
			if b == nil {
				b = []byte{}
			}
			return Outcome{Vals: V{b}, Err: err}
		},
		Wire: func(e *Env, a, r V) []refcodec.Msg {
			return xattrWire(e, a[0].(string), uint64(len(r[0].([]byte))))
		},
		Backend:  simpleBackend("GetXattr", []string{"name"}, func(e *Env, a V) V { return V{a[0]} }),
		Primary:  "GetXattr",
		Override: func(e *Env, a, r V) *memfs.Override { return &memfs.Override{Data: nonNil(r[0].([]byte))} },
		Reply:    func(e *Env, a, r V) refcodec.Msg { return msg(refcodec.Rxattrwalk, uint64(len(r[0].([]byte)))) },
		Want:     func(e *Env, a, r V) []V { return one(V{nonNil(r[0].([]byte))}) },
	})

	// ListXattrs ----------------------------------------------------------
	add(&Method{
		Name: "ListXattrs", Targets: anyTarget,
		Res: []Field{{Name: "names", Kind: KStrs, Def: []string{"user.a", "security.b c", "x"}}},
		Invoke: func(e *Env, a V) (o Outcome) {
			defer guard(&o)
			ns, err := e.File.ListXattrs()
			if ns == nil {
				ns = []string{}
			}
			return Outcome{Vals: V{ns}, Err: err}
		},
		Wire: func(e *Env, a, r V) []refcodec.Msg {
			return xattrWire(e, "", uint64(len(XattrListBytes(r[0].([]string)))))
		},
		Backend: simpleBackend("ListXattrs", nil, func(e *Env, a V) V { return nil }),
		Primary: "ListXattrs",
		Override: func(e *Env, a, r V) *memfs.Override {
			ns := r[0].([]string)
			if ns == nil {
				ns = []string{}
			}
			return &memfs.Override{Strs: ns}
		},
		Reply: func(e *Env, a, r V) refcodec.Msg {
			return msg(refcodec.Rxattrwalk, uint64(len(XattrListBytes(r[0].([]string)))))
		},
		Want: func(e *Env, a, r V) []V {
			ns := r[0].([]string)
			if ns == nil {
				ns = []string{}
			}
			return one(V{ns})
		},
	})

	// SetXattr / RemoveXattr / Renamed: answered locally -----------------------
	add(&Method{
		Name: "SetXattr", Targets: anyTarget, Local: true, LocalErrno: 38,
		Args: []Field{{Name: "name", Kind: KXName, Def: "user.verif"}, {Name: "value", Kind: KData, Def: Pattern(0x20, 9)}, {Name: "flags", Kind: KU32, Def: uint64(1)}},
		Invoke: func(e *Env, a V) (o Outcome) {
			defer guard(&o)
			return Outcome{Err: e.File.SetXattr(a[0].(string), a[1].([]byte), p9.XattrFlags(int(int32(U(a[2])))))}
		},
	})
	add(&Method{
		Name: "RemoveXattr", Targets: anyTarget, Local: true, LocalErrno: 38,
		Args: []Field{{Name: "name", Kind: KXName, Def: "user.verif"}},
		Invoke: func(e *Env, a V) (o Outcome) {
			defer guard(&o)
			return Outcome{Err: e.File.RemoveXattr(a[0].(string))}
		},
	})
	add(&Method{
		Name: "Renamed", Targets: anyTarget, Local: true, Refs: []int{RefAuxDir},
		Args: []Field{{Name: "dir", Kind: KRef, Def: uint64(RefAuxDir), Alts: []interface{}{uint64(RefSelf)}}, {Name: "name", Kind: KNewName, Def: "renamed-to"}},
		Invoke: func(e *Env, a V) (o Outcome) {
			defer guard(&o)
			e.File.Renamed(e.Refs[U(a[0])].File, a[1].(string))
			return Outcome{}
		},
	})
	return t
}

// fitCount is a byte count clamped to what a reply within msize can carry.
func fitCount(e *Env, count interface{}) uint64 {
	c := U(count)
	if max := uint64(e.Msize) - 11; e.Msize > 11 && c > max {
		return max
	}
	return c
}

func nonNil(b []byte) []byte {
	if b == nil {
		return []byte{}
	}
	return b
}

// Pattern is a byte-distinct payload of n bytes whose content depends on seed.
func Pattern(seed uint64, n int) []byte {
	b := make([]byte, n)
	for i := range b {
		x := seed + uint64(i)
		b[i] = byte(x*131 + x>>8*17 + 7)
	}
	return b
}

// XattrListBytes is the listxattr(2) format of a name list: every name
// followed by NUL.
func XattrListBytes(names []string) []byte {
	var b []byte
	for _, n := range names {
		b = append(b, n...)
		b = append(b, 0)
	}
	if len(names) == 0 {
		// an empty list has no bytes; p9's server sends a single NUL, either
		// is fine for the caller (no names)
		return []byte{0}
	}
	return b
}

// xattrWire is the request sequence of the xattr read sub-protocol: Txattrwalk
// to a new fid, the value read in pieces that fit msize, clunk of the new fid.
func xattrWire(e *Env, name string, size uint64) []refcodec.Msg {
	ms := []refcodec.Msg{msg(refcodec.Txattrwalk, e.Fid, AnyFid, name)}
	for off := uint64(0); off < size; {
		n := size - off
		if n > uint64(e.Payload) {
			n = uint64(e.Payload)
		}
		ms = append(ms, msg(refcodec.Tread, AnyFid, off, n))
		off += n
	}
	return append(ms, msg(refcodec.Tclunk, AnyFid))
}

// DefaultDirents is the default Readdir result.
func DefaultDirents() []refcodec.Dirent {
	return []refcodec.Dirent{
		{QID: refcodec.QID{Type: 0x80, Version: 0x01020304, Path: d64(0)}, Offset: d64(1), Type: 0x80, Name: "sub dir"},
		{QID: refcodec.QID{Type: 0x00, Version: 0x11121314, Path: d64(2)}, Offset: d64(3), Type: 0x00, Name: "file\xff\x00name"},
		{QID: refcodec.QID{Type: 0x02, Version: 0x21222324, Path: d64(4)}, Offset: d64(5), Type: 0x02, Name: "l"},
	}
}

// readdirCounts is the alphabet of Readdir byte counts.
func readdirCounts() []interface{} {
	out := []interface{}{uint64(0), uint64(1), uint64(0xff), uint64(0x100), uint64(0x7fff), uint64(0xffff), uint64(0x10000), uint64(0x7fffffff), uint64(0x80000000), uint64(0xffffffff)}
	end := uint64(0)
	for _, d := range DefaultDirents() {
		end += uint64(refcodec.DirentSize(d.Name))
		for _, delta := range []int64{-2, -1, 0, 1, 2} {
			out = append(out, uint64(int64(end)+delta))
		}
	}
	return out
}

// WholeEntries is the documented rewriting of directory listings: the reply
// carries the longest prefix of whole entries that fits in count bytes.
func WholeEntries(ds []refcodec.Dirent, count uint64) []refcodec.Dirent {
	out := []refcodec.Dirent{}
	var used uint64
	for _, d := range ds {
		sz := uint64(refcodec.DirentSize(d.Name))
		if used+sz > count {
			break
		}
		used += sz
		out = append(out, d)
	}
	return out
}

// ---------------------------------------------------------------------------
// generic hook and judge

// MakeHook returns the memfs hook that makes the backend produce result r (or
// the injected error) for this invocation.
func (m *Method) MakeHook(e *Env, a, r V, inj *Inject) func(*memfs.Call) *memfs.Action {
	if m.Hook != nil {
		return m.Hook(e, a, r, inj)
	}
	if m.Local {
		return func(*memfs.Call) *memfs.Action { return nil }
	}
	fired := false
	return func(c *memfs.Call) *memfs.Action {
		if fired || c.Method != m.Primary {
			return nil
		}
		fired = true
		if inj != nil {
			return &memfs.Action{Err: inj.Spec.Err}
		}
		if m.Override != nil {
			if o := m.Override(e, a, r); o != nil {
				return &memfs.Action{Override: o}
			}
		}
		return nil
	}
}

func isENOSYS(err error) bool { return err != nil && errors.Is(err, linux.ENOSYS) }

// neutral reports whether a backend call is one the server may make on its
// own behalf without the property having anything to say about it: attribute
// lookups, handle duplication and release, rename notifications, and a
// WalkGetAttr that the backend declined (ENOSYS).
func neutral(c *memfs.Call) bool {
	switch c.Method {
	case "GetAttr", "Close", "Renamed":
		return true
	case "WalkGetAttr":
		return isENOSYS(c.Err) || len(c.Names) == 0
	case "Walk":
		// a walk without names duplicates the handle; the server may do
		// that whenever it needs a File of its own (e.g. for an xattr fid)
		return len(c.Names) == 0
	}
	return false
}

func matchVal(exp, got interface{}) bool {
	if alts, ok := exp.(OneOf); ok {
		for _, a := range alts {
			if Eq(a, got) {
				return true
			}
		}
		return false
	}
	return Eq(exp, got)
}

func showExp(exp interface{}) string {
	if alts, ok := exp.(OneOf); ok {
		s := "one of {"
		for i, a := range alts {
			if i > 0 {
				s += ", "
			}
			s += Show(a)
		}
		return s + "}"
	}
	return Show(exp)
}

// matchCall compares a recorded call with an expectation; field names the
// first difference ("" if the methods differ).
func matchCall(x ExpCall, c *memfs.Call) (ok bool, field, detail string) {
	if c.Method != x.Method {
		return false, "", ""
	}
	if c.Handle != x.On {
		return false, "handle", fmt.Sprintf("%s arrived on backend handle %d (%s), expected handle %d", c.Method, c.Handle, c.Path, x.On)
	}
	if x.HasNames && !Eq(append([]string{}, x.Names...), append([]string{}, c.Names...)) {
		return false, "names", fmt.Sprintf("%s names %s, expected %s", c.Method, Show(c.Names), Show(x.Names))
	}
	got := FlatArgs(c.Args)
	if len(got) != len(x.Args) {
		return false, "arity", fmt.Sprintf("%s recorded %d arguments, expected %d", c.Method, len(got), len(x.Args))
	}
	for i := range got {
		if !matchVal(x.Args[i], got[i]) {
			name := fmt.Sprint(i)
			if i < len(x.ArgNames) {
				name = x.ArgNames[i]
			}
			return false, name, fmt.Sprintf("%s argument %s = %s, expected %s", c.Method, name, Show(got[i]), showExp(x.Args[i]))
		}
	}
	return true, "", ""
}

// CheckBackend compares the backend calls made during the invocation with
// the expected list.
func CheckBackend(exp []ExpCall, calls []*memfs.Call) []Issue {
	var is []Issue
	next := 0
	for _, c := range calls {
		if next < len(exp) {
			if ok, _, _ := matchCall(exp[next], c); ok {
				next++
				continue
			}
		}
		if neutral(c) {
			continue
		}
		if next < len(exp) && c.Method == exp[next].Method {
			_, field, detail := matchCall(exp[next], c)
			clause := "backend-arg"
			if field == "handle" {
				clause = "backend-wrong-handle"
			}
			is = append(is, Issue{clause, field, detail})
			next++
			continue
		}
		is = append(is, Issue{"backend-unexpected-call", c.Method, fmt.Sprintf("unexpected backend call %s%s on handle %d (%s)", c.Method, Show(c.Names), c.Handle, c.Path)})
	}
	for ; next < len(exp); next++ {
		// a call of that method that was passed over as the server's own
		// business (attribute lookup, release) but differs from what the
		// caller asked for tells more than "not reached"
		var near *Issue
		for _, c := range calls {
			if c.Method != exp[next].Method {
				continue
			}
			if _, field, detail := matchCall(exp[next], c); field != "" {
				clause := "backend-arg"
				if field == "handle" {
					clause = "backend-wrong-handle"
				}
				if near == nil || (near.Clause == "backend-wrong-handle" && clause == "backend-arg") {
					near = &Issue{clause, field, detail}
				}
			}
		}
		if near != nil {
			is = append(is, *near)
			continue
		}
		is = append(is, Issue{"backend-not-reached", exp[next].Method, fmt.Sprintf("backend never saw %s on handle %d", exp[next].Method, exp[next].On)})
	}
	return is
}

// CheckErr judges the error a client call returned when the backend failed
// with spec.
func CheckErr(spec *ErrSpec, got error, mayDrop bool) []Issue {
	want := WantErrno(spec.Err)
	if got == nil {
		if mayDrop {
			return nil
		}
		return []Issue{{"error-lost", spec.Class, fmt.Sprintf("backend returned %s but the caller got no error", spec.Name)}}
	}
	n, ok := GotErrno(got)
	if !ok {
		return []Issue{{"error-not-errno", spec.Class, fmt.Sprintf("backend returned %s, caller got non-errno error %T %q", spec.Name, got, got.Error())}}
	}
	for _, w := range want {
		if w == n {
			return nil
		}
	}
	return []Issue{{"errno-map", fmt.Sprintf("%s:want=%v:got=%d", spec.Class, want, n), fmt.Sprintf("backend returned %s (equivalent errno %v), caller got errno %d (%v)", spec.Name, want, n, got)}}
}

// CheckVals compares returned values with the acceptable vectors.
func CheckVals(fields []Field, want []V, got V) []Issue {
	var first *Issue
	for _, w := range want {
		if len(w) != len(got) {
			if first == nil {
				first = &Issue{"return-arity", "", fmt.Sprintf("returned %d values, expected %d", len(got), len(w))}
			}
			continue
		}
		bad := -1
		for i := range w {
			if !matchVal(w[i], got[i]) {
				bad = i
				break
			}
		}
		if bad < 0 {
			return nil
		}
		if first == nil {
			name := fmt.Sprint(bad)
			if bad < len(fields) {
				name = fields[bad].Name
			}
			first = &Issue{"return-value", name, fmt.Sprintf("returned %s = %s, backend returned %s", name, Show(got[bad]), showExp(w[bad]))}
		}
	}
	if first == nil {
		return nil
	}
	return []Issue{*first}
}

// Check is the oracle for one invocation: calls are the backend calls made
// during it, out what the client method returned.
func (m *Method) Check(e *Env, a, r V, inj *Inject, calls []*memfs.Call, out Outcome) []Issue {
	if out.Panic != nil {
		return []Issue{{"client-panic", "", fmt.Sprintf("client method panicked: %v", out.Panic)}}
	}
	if m.Judge != nil {
		return m.Judge(e, a, r, inj, calls, out)
	}
	if m.Local {
		var is []Issue
		for _, c := range calls {
			is = append(is, Issue{"local-method-reached-backend", c.Method, fmt.Sprintf("%s is answered by the client itself but the backend saw %s", m.Name, c.Method)})
		}
		if m.LocalErrno != 0 {
			n, ok := GotErrno(out.Err)
			if !ok || n != m.LocalErrno {
				is = append(is, Issue{"local-errno", "", fmt.Sprintf("%s returned %v, expected errno %d", m.Name, out.Err, m.LocalErrno)})
			}
		} else if out.Err != nil {
			is = append(is, Issue{"local-errno", "", fmt.Sprintf("%s returned %v", m.Name, out.Err)})
		}
		return is
	}
	is := CheckBackend(m.Backend(e, a), calls)
	if len(is) > 0 {
		return is
	}
	if inj != nil {
		return CheckErr(inj.Spec, out.Err, m.ErrMayBeDropped)
	}
	if out.Err != nil {
		return []Issue{{"spurious-error", "", fmt.Sprintf("backend succeeded but the caller got %v", out.Err)}}
	}
	is = CheckVals(m.Res, m.Want(e, a, r), out.Vals)
	if m.Name == "Create" && len(is) == 0 && out.File == nil {
		is = append(is, Issue{"return-value", "file", "Create returned a nil File"})
	}
	return is
}

var _ = io.EOF
