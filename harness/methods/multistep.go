package methods

import (
	"bytes"
	"fmt"
	"io"

	"github.com/hugelgupf/p9/p9"
	"verif/harness/memfs"
	"verif/harness/refcodec"
)

// ---------------------------------------------------------------------------
// Walk and WalkGetAttr
//
// Documented rewriting: walks are performed one component at a time. The
// backend therefore sees, for Walk([n0..nk]) on handle H, one single-component
// walk per name — WalkGetAttr([ni]) or, if the backend declines that with
// ENOSYS, Walk([ni]) — the first on H, every next one on the File the
// previous one returned. Attribute lookups on the Files obtained are the
// server's own business. An empty name list is a clone: one walk call with
// no names on H.

// stepQID is the QID the backend returns for component i (not the last).
func stepQID(i int) refcodec.QID {
	return refcodec.QID{Type: 0x80, Version: uint32(0x0a0b0c00 + i), Path: 0x2122232425262700 + uint64(i)}
}

// Injection positions of the walk methods.
const (
	WalkStepFirst = 0 // the first component fails
	WalkStepLast  = 1 // the last component fails (needs >= 2 components)
	WalkStepAttr  = 2 // WalkGetAttr: fetching the attributes of the result fails
)

func walkMethod(getattr bool) *Method {
	m := &Method{Targets: []Target{TDir}, Steps: 2}
	m.Name = "Walk"
	m.Args = []Field{{Name: "names", Kind: KNames, Def: []string{"wa", "b"}}}
	qidFields := []Field{{Name: "qid.type", Kind: KU8, Def: uint64(0x80)}, {Name: "qid.version", Kind: KU32, Def: d32(3)}, {Name: "qid.path", Kind: KU64, Def: d64(5)}}
	m.Res = qidFields
	nattr := 0
	if getattr {
		m.Name = "WalkGetAttr"
		m.Steps = 3
		// valid + 18 attributes, then the last QID
		af := resFields(refcodec.Rwalkgetattr, map[string]bool{"wqids": true}, attrKinds)
		// the result must stay a directory for the server's own bookkeeping to
		// be indifferent; the mode field still ranges over its alphabet.
		nattr = len(af)
		m.Res = append(af, qidFields...)
	}
	lastQID := func(r V) refcodec.QID {
		return refcodec.QID{Type: uint8(U(r[nattr])), Version: uint32(U(r[nattr+1])), Path: U(r[nattr+2])}
	}
	qids := func(a, r V) []refcodec.QID {
		names := a[0].([]string)
		out := []refcodec.QID{}
		for i := range names {
			if i == len(names)-1 {
				out = append(out, lastQID(r))
			} else {
				out = append(out, stepQID(i))
			}
		}
		return out
	}
	m.Invoke = func(e *Env, a V) (o Outcome) {
		defer guard(&o)
		names := a[0].([]string)
		if len(names) == 0 {
			names = nil
		}
		if !getattr {
			qs, f, err := e.File.Walk(names)
			return Outcome{Vals: V{FromQIDs(qs)}, Err: err, File: f}
		}
		qs, f, valid, attr, err := e.File.WalkGetAttr(names)
		v := V{AttrMaskBits(valid)}
		v = append(v, AttrToVec(attr)...)
		v = append(v, FromQIDs(qs))
		return Outcome{Vals: v, Err: err, File: f}
	}
	m.Wire = func(e *Env, a, r V) []refcodec.Msg {
		names := append([]string{}, a[0].([]string)...)
		if !getattr {
			return []refcodec.Msg{msg(refcodec.Twalk, e.Fid, AnyFid, names)}
		}
		if e.Version >= 2 {
			return []refcodec.Msg{msg(refcodec.Twalkgetattr, e.Fid, AnyFid, names)}
		}
		return []refcodec.Msg{msg(refcodec.Twalk, e.Fid, AnyFid, names), msg(refcodec.Tgetattr, AnyFid, uint64(GAAll))}
	}
	m.Reply = func(e *Env, a, r V) refcodec.Msg {
		if !getattr {
			return msg(refcodec.Rwalk, qids(a, r))
		}
		v := append(V{}, r[:nattr]...)
		v = append(v, qids(a, r))
		return msg(refcodec.Rwalkgetattr, v...)
	}
	m.StepOK = func(e *Env, a V, step int) bool {
		n := len(a[0].([]string))
		switch step {
		case WalkStepFirst:
			return true
		case WalkStepLast:
			return n >= 2
		case WalkStepAttr:
			// an attribute lookup happens only if the backend does not return
			// the attributes with the walk itself, or the version has no
			// Twalkgetattr (the client then asks separately)
			return getattr && (!e.WGA || e.Version < 2)
		}
		return false
	}
	m.Hook = func(e *Env, a, r V, inj *Inject) func(*memfs.Call) *memfs.Action {
		names := a[0].([]string)
		total := len(names)
		if total == 0 {
			total = 1
		}
		failComp := -1
		if inj != nil {
			switch inj.Step {
			case WalkStepFirst:
				failComp = 0
			case WalkStepLast:
				failComp = total - 1
			}
		}
		done := 0
		var valid p9.AttrMask
		var attr p9.Attr
		if getattr {
			valid, attr = AttrMask(U(r[0])), AttrFromVec(r[1:nattr])
		}
		return func(c *memfs.Call) *memfs.Action {
			switch c.Method {
			case "Walk", "WalkGetAttr":
				if done >= total {
					return nil
				}
				if len(names) == 0 {
					if len(c.Names) != 0 {
						return nil
					}
				} else if len(c.Names) != 1 || c.Names[0] != names[done] {
					return nil
				}
				if c.Method == "WalkGetAttr" && !e.WGA {
					return nil // the backend declines with ENOSYS
				}
				if failComp == done {
					return &memfs.Action{Err: inj.Spec.Err}
				}
				q := stepQID(done)
				last := done == total-1
				if last {
					q = lastQID(r)
				}
				ov := &memfs.Override{QIDs: []p9.QID{ToQID(q)}}
				if last && getattr && c.Method == "WalkGetAttr" {
					ov.Valid, ov.Attr = &valid, &attr
				}
				done++
				return &memfs.Action{Override: ov}
			case "GetAttr":
				if getattr && done == total {
					if inj != nil && inj.Step == WalkStepAttr {
						return &memfs.Action{Err: inj.Spec.Err}
					}
					return &memfs.Action{Override: &memfs.Override{Valid: &valid, Attr: &attr}}
				}
			}
			return nil
		}
	}
	m.Judge = func(e *Env, a, r V, inj *Inject, calls []*memfs.Call, out Outcome) []Issue {
		names := a[0].([]string)
		total := len(names)
		if total == 0 {
			total = 1
		}
		cur, done, failedAt := e.H, 0, -1
		sawAttr, attrFailed := false, false
		for _, c := range calls {
			switch c.Method {
			case "Walk", "WalkGetAttr":
				if done >= total || failedAt >= 0 {
					return []Issue{{"backend-unexpected-call", c.Method, fmt.Sprintf("%s%s on handle %d after the walk was over", c.Method, Show(c.Names), c.Handle)}}
				}
				want := []string{}
				if len(names) > 0 {
					want = names[done : done+1]
				}
				if c.Handle != cur {
					return []Issue{{"backend-wrong-handle", "handle", fmt.Sprintf("component %d: %s%s arrived on backend handle %d (%s), expected handle %d", done, c.Method, Show(c.Names), c.Handle, c.Path, cur)}}
				}
				if !Eq(append([]string{}, c.Names...), append([]string{}, want...)) {
					return []Issue{{"backend-arg", "names", fmt.Sprintf("component %d: backend saw %s%s, expected the single component %s", done, c.Method, Show(c.Names), Show(want))}}
				}
				if c.Method == "WalkGetAttr" && isENOSYS(c.Err) {
					continue // declined; Walk must follow
				}
				if c.Err != nil {
					failedAt = done
				} else {
					cur = c.NewH
					done++
				}
			case "GetAttr":
				if done == total && c.Handle == cur {
					sawAttr = true
					if c.Err != nil {
						attrFailed = true
					}
				}
			case "Close", "Renamed":
			default:
				return []Issue{{"backend-unexpected-call", c.Method, fmt.Sprintf("unexpected backend call %s on handle %d (%s)", c.Method, c.Handle, c.Path)}}
			}
		}
		if inj != nil {
			switch inj.Step {
			case WalkStepFirst, WalkStepLast:
				wantAt := 0
				if inj.Step == WalkStepLast {
					wantAt = total - 1
				}
				if failedAt != wantAt {
					return []Issue{{"backend-not-reached", "Walk", fmt.Sprintf("the walk of component %d never reached the backend (completed %d, failed at %d)", wantAt, done, failedAt)}}
				}
			case WalkStepAttr:
				if !attrFailed {
					return []Issue{{"backend-not-reached", "GetAttr", "the attributes of the walked-to file were never requested from it"}}
				}
			}
			is := CheckErr(inj.Spec, out.Err, false)
			if len(is) == 0 && out.File != nil {
				is = append(is, Issue{"return-value", "file", "a File was returned together with an error"})
			}
			return is
		}
		if done != total {
			return []Issue{{"backend-not-reached", "Walk", fmt.Sprintf("only %d of %d components were walked at the backend", done, total)}}
		}
		if getattr && (e.Version < 2 || !e.WGA) && !sawAttr {
			return []Issue{{"backend-not-reached", "GetAttr", "the attributes of the walked-to file were never requested from it"}}
		}
		if out.Err != nil {
			return []Issue{{"spurious-error", "", fmt.Sprintf("backend succeeded but the caller got %v", out.Err)}}
		}
		if out.File == nil {
			return []Issue{{"return-value", "file", "no File returned"}}
		}
		var wq interface{} = qids(a, r)
		if len(names) == 0 {
			// clone: the 9P reply carries no QID; the backend returned one
			wq = OneOf{[]refcodec.QID{}, []refcodec.QID{lastQID(r)}}
		}
		if !getattr {
			return CheckVals([]Field{{Name: "qids"}}, one(V{wq}), out.Vals)
		}
		w := append(V{}, r[:nattr]...)
		w = append(w, wq)
		fs := append(append([]Field{}, m.Res[:nattr]...), Field{Name: "qids"})
		return CheckVals(fs, one(w), out.Vals)
	}
	return m
}

// ---------------------------------------------------------------------------
// ReadAt / WriteAt
//
// Documented rewriting: I/O is split to fit msize. The backend sees a
// sequence of pieces that tile the caller's range from its start: piece j
// begins where the bytes transferred so far end, is no longer than what is
// left (and fits msize), and no piece follows one that came back short or
// failed. The caller gets the total transferred and the error of the piece
// that failed; a read that transferred nothing into a non-empty buffer
// reports io.EOF.

// I/O behaviours of the backend (result alphabet of ReadAt / WriteAt).
const (
	IOFull        = iota // every piece is transferred completely
	IOFirstShort1        // the first piece comes back one byte short
	IOFirstHalf          // the first piece comes back half
	IOFirstZero          // the first piece transfers nothing (no error)
	IOFirstEOF           // (read) the first piece returns io.EOF
	IOSecondShort        // the second piece comes back one byte short
	IOSecondZero         // the second piece transfers nothing
	IOSecondEOF          // (read) the second piece returns io.EOF
	ioBehaviours
)

// IOBehaviours lists the behaviour values.
func IOBehaviours(read bool) []interface{} {
	var out []interface{}
	for b := 0; b < ioBehaviours; b++ {
		if !read && (b == IOFirstEOF || b == IOSecondEOF) {
			continue
		}
		out = append(out, uint64(b))
	}
	return out
}

// pieceReturn is how many of n requested bytes piece idx transfers under
// behaviour b; eof reports an explicit io.EOF.
func pieceReturn(b uint64, idx, n int) (k int, eof bool) {
	short := func(x int) int {
		if x < 0 {
			return 0
		}
		return x
	}
	switch {
	case b == IOFirstShort1 && idx == 0:
		return short(n - 1), false
	case b == IOFirstHalf && idx == 0:
		return n / 2, false
	case b == IOFirstZero && idx == 0:
		return 0, false
	case b == IOFirstEOF && idx == 0:
		return 0, true
	case b == IOSecondShort && idx == 1:
		return short(n - 1), false
	case b == IOSecondZero && idx == 1:
		return 0, false
	case b == IOSecondEOF && idx == 1:
		return 0, true
	}
	return n, false
}

func readAtMethod(payload uint32) *Method {
	m := &Method{Name: "ReadAt", Targets: []Target{TFileOpen}, Steps: 2, Primary: "ReadAt"}
	m.Args = []Field{{Name: "len", Kind: KLen, Def: uint64(payload) + 37}, {Name: "offset", Kind: KOff, Def: int64(0x0102030405060708)}}
	m.Res = []Field{{Name: "backend", Kind: KIOBehave, Def: uint64(IOFull), Alts: IOBehaviours(true)}}
	m.Invoke = func(e *Env, a V) (o Outcome) {
		defer guard(&o)
		p := make([]byte, U(a[0]))
		n, err := e.File.ReadAt(p, a[1].(int64))
		if n < 0 || n > len(p) {
			return Outcome{Vals: V{int64(n), []byte{}}, Err: err}
		}
		return Outcome{Vals: V{int64(n), append([]byte{}, p[:n]...)}, Err: err}
	}
	m.Wire = func(e *Env, a, r V) []refcodec.Msg {
		// the pieces p9 sends when every piece is served completely
		var ms []refcodec.Msg
		l, off := U(a[0]), U(a[1])
		if l == 0 {
			return []refcodec.Msg{msg(refcodec.Tread, e.Fid, off, uint64(0))}
		}
		for done := uint64(0); done < l; {
			n := l - done
			if n > uint64(e.Payload) {
				n = uint64(e.Payload)
			}
			ms = append(ms, msg(refcodec.Tread, e.Fid, off+done, n))
			done += n
		}
		return ms
	}
	m.StepOK = func(e *Env, a V, step int) bool {
		// the second piece exists only if the buffer is longer than one piece
		return step == 0 || U(a[0]) > uint64(e.Payload)
	}
	m.Hook = func(e *Env, a, r V, inj *Inject) func(*memfs.Call) *memfs.Action {
		idx := 0
		return func(c *memfs.Call) *memfs.Action {
			if c.Method != "ReadAt" {
				return nil
			}
			j := idx
			idx++
			if inj != nil && inj.Step == j {
				return &memfs.Action{Err: inj.Spec.Err}
			}
			n, off := c.Args[0].(int), c.Args[1].(int64)
			k, eof := pieceReturn(U(r[0]), j, n)
			if eof {
				return &memfs.Action{Err: io.EOF}
			}
			return &memfs.Action{Override: &memfs.Override{Data: nonNil(Pattern(uint64(off), k))}}
		}
	}
	m.Judge = func(e *Env, a, r V, inj *Inject, calls []*memfs.Call, out Outcome) []Issue {
		l, off := int64(U(a[0])), a[1].(int64)
		var sum int64
		stopped, n := false, 0
		var lastErr error
		lastZero := false
		for _, c := range calls {
			if c.Method != "ReadAt" {
				if neutral(c) {
					continue
				}
				return []Issue{{"backend-unexpected-call", c.Method, fmt.Sprintf("unexpected backend call %s on handle %d", c.Method, c.Handle)}}
			}
			if stopped {
				return []Issue{{"io-piece-after-end", "", "another ReadAt piece follows one that came back short or failed"}}
			}
			if c.Handle != e.H {
				return []Issue{{"backend-wrong-handle", "handle", fmt.Sprintf("ReadAt arrived on backend handle %d (%s), expected handle %d", c.Handle, c.Path, e.H)}}
			}
			gl, goff := int64(c.Args[0].(int)), c.Args[1].(int64)
			if goff != off+sum {
				return []Issue{{"backend-arg", "offset", fmt.Sprintf("piece %d: ReadAt offset %#x, expected %#x (start %#x + %d transferred)", n, uint64(goff), uint64(off+sum), uint64(off), sum)}}
			}
			if gl > l-sum || (gl <= 0 && l > 0) || gl < 0 {
				return []Issue{{"backend-arg", "len", fmt.Sprintf("piece %d: ReadAt length %d with %d of %d bytes left", n, gl, l-sum, l)}}
			}
			if gl+11 > int64(e.Msize) {
				return []Issue{{"io-piece-exceeds-msize", "len", fmt.Sprintf("piece %d: %d bytes cannot be answered within msize %d", n, gl, e.Msize)}}
			}
			ret := int64(0)
			if c.Err == nil && len(c.Result) > 0 {
				ret = int64(c.Result[0].(int))
			}
			if c.Err != nil {
				stopped, lastErr = true, c.Err
			} else if ret < gl {
				stopped = true
			}
			lastZero = ret == 0
			sum += ret
			n++
		}
		if n == 0 {
			return []Issue{{"backend-not-reached", "ReadAt", "backend never saw ReadAt"}}
		}
		if !stopped && sum < l {
			return []Issue{{"io-incomplete", "", fmt.Sprintf("every piece was served completely but only %d of %d bytes were requested", sum, l)}}
		}
		if got := out.Vals[0].(int64); got != sum {
			return []Issue{{"return-value", "n", fmt.Sprintf("ReadAt returned n=%d, the backend transferred %d", got, sum)}}
		}
		if !bytes.Equal(out.Vals[1].([]byte), Pattern(uint64(off), int(sum))) {
			return []Issue{{"return-value", "data", "ReadAt returned other bytes than the backend supplied"}}
		}
		if lastErr != nil && lastErr != io.EOF {
			if inj == nil {
				return []Issue{{"harness", "", fmt.Sprintf("unexpected backend error %v", lastErr)}}
			}
			return CheckErr(inj.Spec, out.Err, false)
		}
		switch {
		case sum == 0 && l > 0:
			if out.Err != io.EOF {
				return []Issue{{"eof", "", fmt.Sprintf("empty read into a %d-byte buffer returned %v, expected io.EOF", l, out.Err)}}
			}
		case (lastErr == io.EOF || lastZero) && sum > 0:
			if out.Err != nil && out.Err != io.EOF {
				return []Issue{{"spurious-error", "", fmt.Sprintf("backend succeeded but the caller got %v", out.Err)}}
			}
		default:
			if out.Err != nil {
				return []Issue{{"spurious-error", "", fmt.Sprintf("backend succeeded but the caller got %v", out.Err)}}
			}
		}
		return nil
	}
	return m
}

func writeAtMethod(payload uint32) *Method {
	m := &Method{Name: "WriteAt", Targets: []Target{TFileOpen}, Steps: 2, Primary: "WriteAt"}
	m.Args = []Field{{Name: "data", Kind: KData, Def: Pattern(7, int(payload)+37)}, {Name: "offset", Kind: KOff, Def: int64(0x0102030405060708)}}
	m.Res = []Field{{Name: "backend", Kind: KIOBehave, Def: uint64(IOFull), Alts: IOBehaviours(false)}}
	m.Invoke = func(e *Env, a V) (o Outcome) {
		defer guard(&o)
		n, err := e.File.WriteAt(a[0].([]byte), a[1].(int64))
		return Outcome{Vals: V{int64(n)}, Err: err}
	}
	m.Wire = func(e *Env, a, r V) []refcodec.Msg {
		var ms []refcodec.Msg
		data, off := a[0].([]byte), U(a[1])
		if len(data) == 0 {
			return []refcodec.Msg{msg(refcodec.Twrite, e.Fid, off, []byte{})}
		}
		for done := 0; done < len(data); {
			n := len(data) - done
			if n > int(e.Payload) {
				n = int(e.Payload)
			}
			ms = append(ms, msg(refcodec.Twrite, e.Fid, off+uint64(done), data[done:done+n]))
			done += n
		}
		return ms
	}
	m.StepOK = func(e *Env, a V, step int) bool {
		return step == 0 || len(a[0].([]byte)) > int(e.Payload)
	}
	m.Hook = func(e *Env, a, r V, inj *Inject) func(*memfs.Call) *memfs.Action {
		idx := 0
		return func(c *memfs.Call) *memfs.Action {
			if c.Method != "WriteAt" {
				return nil
			}
			j := idx
			idx++
			if inj != nil && inj.Step == j {
				return &memfs.Action{Err: inj.Spec.Err}
			}
			k, _ := pieceReturn(U(r[0]), j, len(c.Args[0].([]byte)))
			return &memfs.Action{Override: &memfs.Override{N: &k}}
		}
	}
	m.Judge = func(e *Env, a, r V, inj *Inject, calls []*memfs.Call, out Outcome) []Issue {
		data, off := a[0].([]byte), a[1].(int64)
		l := int64(len(data))
		var sum int64
		stopped, n := false, 0
		var lastErr error
		for _, c := range calls {
			if c.Method != "WriteAt" {
				if neutral(c) {
					continue
				}
				return []Issue{{"backend-unexpected-call", c.Method, fmt.Sprintf("unexpected backend call %s on handle %d", c.Method, c.Handle)}}
			}
			if stopped {
				return []Issue{{"io-piece-after-end", "", "another WriteAt piece follows one that came back short or failed"}}
			}
			if c.Handle != e.H {
				return []Issue{{"backend-wrong-handle", "handle", fmt.Sprintf("WriteAt arrived on backend handle %d (%s), expected handle %d", c.Handle, c.Path, e.H)}}
			}
			gd, goff := c.Args[0].([]byte), c.Args[1].(int64)
			gl := int64(len(gd))
			if goff != off+sum {
				return []Issue{{"backend-arg", "offset", fmt.Sprintf("piece %d: WriteAt offset %#x, expected %#x (start %#x + %d transferred)", n, uint64(goff), uint64(off+sum), uint64(off), sum)}}
			}
			if gl > l-sum || (gl == 0 && l > 0) {
				return []Issue{{"backend-arg", "data", fmt.Sprintf("piece %d: WriteAt of %d bytes with %d of %d bytes left", n, gl, l-sum, l)}}
			}
			if !bytes.Equal(gd, data[sum:sum+gl]) {
				return []Issue{{"backend-arg", "data", fmt.Sprintf("piece %d: the backend was given other bytes than the caller's at that position", n)}}
			}
			if gl+23 > int64(e.Msize) {
				return []Issue{{"io-piece-exceeds-msize", "data", fmt.Sprintf("piece %d: %d bytes do not fit msize %d", n, gl, e.Msize)}}
			}
			ret := int64(0)
			if c.Err == nil && len(c.Result) > 0 {
				ret = int64(c.Result[0].(int))
			}
			if c.Err != nil {
				stopped, lastErr = true, c.Err
			} else if ret < gl {
				stopped = true
			}
			sum += ret
			n++
		}
		if n == 0 {
			return []Issue{{"backend-not-reached", "WriteAt", "backend never saw WriteAt"}}
		}
		if !stopped && sum < l {
			return []Issue{{"io-incomplete", "", fmt.Sprintf("every piece was written completely but only %d of %d bytes were sent", sum, l)}}
		}
		if got := out.Vals[0].(int64); got != sum {
			return []Issue{{"return-value", "n", fmt.Sprintf("WriteAt returned n=%d, the backend transferred %d", got, sum)}}
		}
		if lastErr != nil {
			if inj == nil {
				return []Issue{{"harness", "", fmt.Sprintf("unexpected backend error %v", lastErr)}}
			}
			return CheckErr(inj.Spec, out.Err, false)
		}
		if out.Err != nil {
			return []Issue{{"spurious-error", "", fmt.Sprintf("backend succeeded but the caller got %v", out.Err)}}
		}
		return nil
	}
	return m
}
