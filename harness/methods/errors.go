package methods

import (
	"errors"
	"fmt"
	"os"
	"syscall"

	"github.com/hugelgupf/p9/linux"
)

// ErrSpec is one element of the backend error alphabet.
type ErrSpec struct {
	Name  string
	Class string // linux.Errno | syscall.Errno | os.Err | wrapped | opaque
	Err   error
}

// ErrnoAlphabet is the set of error numbers used for linux.Errno and
// syscall.Errno values (39 = ENOTEMPTY is the second number Go's
// syscall.Errno treats specially in errors.Is).
var ErrnoAlphabet = []uint32{1, 2, 5, 13, 17, 22, 34, 35, 39, 61, 95, 122}

type opaqueErr struct{ s string }

func (o *opaqueErr) Error() string { return o.s }

// Errors builds the backend error alphabet.
func Errors() []ErrSpec {
	var out []ErrSpec
	for _, n := range ErrnoAlphabet {
		out = append(out, ErrSpec{fmt.Sprintf("linux.Errno(%d)", n), "linux.Errno", linux.Errno(n)})
	}
	for _, n := range ErrnoAlphabet {
		out = append(out, ErrSpec{fmt.Sprintf("syscall.Errno(%d)", n), "syscall.Errno", syscall.Errno(n)})
	}
	out = append(out,
		ErrSpec{"os.ErrNotExist", "os.Err", os.ErrNotExist},
		ErrSpec{"os.ErrExist", "os.Err", os.ErrExist},
		ErrSpec{"os.ErrPermission", "os.Err", os.ErrPermission},
		ErrSpec{"os.ErrInvalid", "os.Err", os.ErrInvalid},
	)
	w1 := func(e error) error { return fmt.Errorf("backend: %w", e) }
	w2 := func(e error) error { return fmt.Errorf("outer: %w", fmt.Errorf("inner: %w", e)) }
	for _, n := range []uint32{2, 13, 61, 122} {
		out = append(out, ErrSpec{fmt.Sprintf("wrap1(linux.Errno(%d))", n), "wrapped", w1(linux.Errno(n))})
		out = append(out, ErrSpec{fmt.Sprintf("wrap2(linux.Errno(%d))", n), "wrapped", w2(linux.Errno(n))})
		out = append(out, ErrSpec{fmt.Sprintf("wrap2(syscall.Errno(%d))", n), "wrapped", w2(syscall.Errno(n))})
	}
	out = append(out,
		ErrSpec{"wrap2(os.ErrNotExist)", "wrapped", w2(os.ErrNotExist)},
		ErrSpec{"wrap2(os.ErrExist)", "wrapped", w2(os.ErrExist)},
		ErrSpec{"wrap1(os.ErrInvalid)", "wrapped", w1(os.ErrInvalid)},
		ErrSpec{"PathError(syscall.Errno(2))", "wrapped", &os.PathError{Op: "open", Path: "/x", Err: syscall.Errno(2)}},
		ErrSpec{"PathError(syscall.Errno(28))", "wrapped", &os.PathError{Op: "write", Path: "/x", Err: syscall.Errno(28)}},
		ErrSpec{"wrap1(LinkError(linux.Errno(18)))", "wrapped", w1(&os.LinkError{Op: "rename", Old: "a", New: "b", Err: linux.Errno(18)})},
		ErrSpec{"join(opaque, linux.Errno(30))", "wrapped", errors.Join(errors.New("first"), linux.Errno(30))},
		ErrSpec{"errors.New", "opaque", errors.New("opaque backend failure")},
		ErrSpec{"wrap2(errors.New)", "opaque", w2(errors.New("opaque backend failure"))},
		ErrSpec{"custom error type", "opaque", &opaqueErr{"custom"}},
	)
	return out
}

// WantErrno is the independent restatement of the documented rule "errors
// arrive as the equivalent Linux errno, found through wrapped error chains,
// EIO when there is none": it walks the error tree (Unwrap() error and
// Unwrap() []error) and collects, for every element that has an errno of its
// own, that errno: a linux.Errno is itself; a syscall.Errno is the same
// number (Linux numbering on Linux); the portable os sentinels map to
// ENOENT, EEXIST, EACCES (EPERM also accepted) and EINVAL. If the tree has no
// such element the answer is EIO. If it has several different ones any of
// them is accepted (the text gives no precedence).
func WantErrno(err error) []uint32 {
	set := map[uint32]bool{}
	var walk func(e error)
	walk = func(e error) {
		if e == nil {
			return
		}
		switch x := e.(type) {
		case linux.Errno:
			set[uint32(x)] = true
		case syscall.Errno:
			set[uint32(x)] = true
		}
		switch e {
		case os.ErrNotExist:
			set[2] = true
		case os.ErrExist:
			set[17] = true
		case os.ErrPermission:
			set[13] = true
			set[1] = true
		case os.ErrInvalid:
			set[22] = true
		}
		switch u := e.(type) {
		case interface{ Unwrap() error }:
			walk(u.Unwrap())
		case interface{ Unwrap() []error }:
			for _, c := range u.Unwrap() {
				walk(c)
			}
		}
	}
	walk(err)
	if len(set) == 0 {
		return []uint32{5}
	}
	var out []uint32
	for n := range set {
		out = append(out, n)
	}
	return out
}

// GotErrno extracts the errno a client call returned (through wrapping).
func GotErrno(err error) (uint32, bool) {
	var e linux.Errno
	if errors.As(err, &e) {
		return uint32(e), true
	}
	return 0, false
}
