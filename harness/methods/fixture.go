package methods

import (
	"strings"

	"github.com/hugelgupf/p9/p9"
	"verif/harness/memfs"
)

// Names on the path from the root to the node under test.
var (
	LevelDirs = []string{"L1 \xffdir", "L2", "L3\x00z"}
	FileName  = "F \xfe\x00f"
	LinkName  = "S->\xc3\x28"
	AuxDir    = "AD aux"
	AuxFile   = "AF\xffaux"
	CreateDir = "CD"
	// CreatedName is the name of the file made by the "create" derivation.
	CreatedName = "cf \xff\x00new"
)

// Fixture is a populated memfs.
type Fixture struct {
	FS *memfs.FS
	// Path are the components from the root to the node under test (empty:
	// the root itself is the node under test).
	Path []string
}

// NewFixture builds the tree for a node of the given kind at the given depth
// below the root (0 = the root itself is that node). A directory under test
// is populated with WalkNames (directories with b/c below them) and OldNames
// (regular files); walkLists/oldNames override those sets if non-nil.
func NewFixture(level int, kind Target, walkLists [][]string, oldNames []string) *Fixture {
	fs := memfs.New()
	fx := &Fixture{FS: fs}
	join := func(parts ...string) string { return strings.Join(parts, "/") }
	// the chain of directories
	for i := 1; i <= 3; i++ {
		fs.MkdirP(join(LevelDirs[:i]...))
	}
	for i := 0; i < 3; i++ {
		dir := LevelDirs[:i]
		f := fs.AddNode(join(append(append([]string{}, dir...), FileName)...), p9.ModeRegular|0o644, Pattern(uint64(i), 64), "")
		f.Xattrs["user.verif"] = []byte("xattr value")
		fs.AddNode(join(append(append([]string{}, dir...), LinkName)...), p9.ModeSymlink|0o777, nil, "link target")
	}
	fs.MkdirP(AuxDir)
	fs.AddNode(AuxFile, p9.ModeRegular|0o600, []byte("aux"), "")
	fs.MkdirP(CreateDir)

	var node *memfs.Inode
	switch {
	case level == 0:
		node = fs.Root
		switch kind {
		case TFile, TFileOpen:
			fs.Root.Mode = p9.ModeRegular | 0o644
			fs.Root.Data = Pattern(9, 64)
		case TSymlink:
			fs.Root.Mode = p9.ModeSymlink | 0o777
			fs.Root.Target = "root link target"
		}
	case kind.IsDir():
		fx.Path = append([]string{}, LevelDirs[:level]...)
		node = fs.Resolve(fx.Path)
	case kind == TSymlink:
		fx.Path = append(append([]string{}, LevelDirs[:level-1]...), LinkName)
		node = fs.Resolve(fx.Path)
	default:
		fx.Path = append(append([]string{}, LevelDirs[:level-1]...), FileName)
		node = fs.Resolve(fx.Path)
	}
	node.Xattrs["user.verif"] = []byte("xattr value")
	if kind.IsDir() {
		Populate(fs, fx.Path, walkLists, oldNames)
	}
	return fx
}

// Populate fills the directory at base.
func Populate(fs *memfs.FS, base []string, walkLists [][]string, oldNames []string) {
	join := func(parts []string) string { return strings.Join(parts, "/") }
	if walkLists == nil {
		for _, w := range WalkNames {
			fs.MkdirP(join(append(append([]string{}, base...), w, "b", "c")))
		}
	} else {
		for _, l := range walkLists {
			if len(l) > 0 {
				fs.MkdirP(join(append(append([]string{}, base...), l...)))
			}
		}
	}
	if oldNames == nil {
		oldNames = OldNames
	}
	for i, o := range oldNames {
		fs.AddNode(join(append(append([]string{}, base...), o)), p9.ModeRegular|0o644, Pattern(uint64(i), 8), "")
	}
}
